(* C46 — proofs: the transcribed SparseNdArray.add/get refines a plain dictionary. *)
From Coq Require Import List ZArith Bool Arith Lia Permutation.
Import ListNotations.
From PP Require Import Model.C46.

(* ---------- coordinates ---------- *)
Lemma ceqb_spec a b : ceqb a b = true <-> a = b.
Proof.
  revert b; induction a as [|x r IH]; intros [|y s]; cbn [ceqb]; split; intros H;
    try reflexivity; try discriminate.
  - apply andb_true_iff in H. destruct H as [H1 H2]. apply Z.eqb_eq in H1.
    apply IH in H2. subst. reflexivity.
  - injection H as -> ->. rewrite Z.eqb_refl. cbn. apply IH. reflexivity.
Qed.

Lemma ceqb_refl a : ceqb a a = true.
Proof. apply ceqb_spec. reflexivity. Qed.

Lemma ceqb_false a b : ceqb a b = false <-> a <> b.
Proof.
  split.
  - intros H E. apply ceqb_spec in E. congruence.
  - intros H. destruct (ceqb a b) eqn:E; [|reflexivity]. apply ceqb_spec in E. contradiction.
Qed.

Lemma ceqb_sym a b : ceqb a b = ceqb b a.
Proof.
  destruct (ceqb a b) eqn:E.
  - apply ceqb_spec in E. subst. symmetry. apply ceqb_refl.
  - apply ceqb_false in E. symmetry. apply ceqb_false. congruence.
Qed.

Lemma coord_in_dec (c : coord) l : {In c l} + {~ In c l}.
Proof. apply in_dec. apply list_eq_dec. apply Z.eq_dec. Qed.

(* ---------- np.unique: duplicate free, same members ---------- *)
Lemma insert_perm x l : Permutation (insert x l) (x :: l).
Proof.
  induction l as [|y r IH]; cbn [insert]; [apply Permutation_refl|].
  destruct (cltb y x); [|apply Permutation_refl].
  eapply perm_trans; [apply perm_skip, IH|apply perm_swap].
Qed.

Lemma isort_perm l : Permutation (isort l) l.
Proof.
  induction l as [|x r IH]; cbn [isort]; [apply perm_nil|].
  eapply perm_trans; [apply insert_perm|apply perm_skip, IH].
Qed.

Lemma dedup_In c l : In c (dedup l) <-> In c l.
Proof.
  induction l as [|x r IH]; cbn [dedup]; [tauto|].
  cbn [In]. rewrite filter_In, IH.
  destruct (ceqb x c) eqn:E.
  - apply ceqb_spec in E. subst. cbn. intuition discriminate.
  - apply ceqb_false in E. cbn. intuition congruence.
Qed.

Lemma dedup_NoDup l : NoDup (dedup l).
Proof.
  induction l as [|x r IH]; cbn [dedup]; constructor.
  - rewrite filter_In. intros [_ H]. rewrite ceqb_refl in H. discriminate.
  - apply NoDup_filter. exact IH.
Qed.

Lemma uniq_In c l : In c (uniq l) <-> In c l.
Proof.
  unfold uniq. split; intros H.
  - apply dedup_In. eapply Permutation_in; [apply isort_perm|exact H].
  - eapply Permutation_in; [apply Permutation_sym, isort_perm|]. apply dedup_In. exact H.
Qed.

Lemma uniq_NoDup l : NoDup (uniq l).
Proof.
  unfold uniq. eapply Permutation_NoDup; [apply Permutation_sym, isort_perm|apply dedup_NoDup].
Qed.

(* ---------- index vectors ---------- *)
Lemma index_of_lt c l : In c l -> index_of c l < length l.
Proof.
  induction l as [|x r IH]; cbn [index_of length In]; [tauto|]. intros H.
  destruct (ceqb c x) eqn:E; [lia|]. apply ceqb_false in E.
  destruct H as [H|H]; [congruence|]. apply IH in H. lia.
Qed.

Lemma nth_index_of c l d : In c l -> nth (index_of c l) l d = c.
Proof.
  induction l as [|x r IH]; cbn [index_of In]; [tauto|]. intros H.
  destruct (ceqb c x) eqn:E.
  - apply ceqb_spec in E. subst. reflexivity.
  - apply ceqb_false in E. destruct H as [H|H]; [congruence|]. cbn [nth]. apply IH, H.
Qed.

Lemma index_of_nth l d : forall i, NoDup l -> i < length l -> index_of (nth i l d) l = i.
Proof.
  induction l as [|x r IH]; intros i Hnd Hi; cbn [length] in Hi; [lia|].
  inversion Hnd as [|? ? Hx Hr]; subst.
  destruct i as [|i]; cbn [nth index_of].
  - rewrite ceqb_refl. reflexivity.
  - destruct (ceqb (nth i r d) x) eqn:E.
    + apply ceqb_spec in E. exfalso. apply Hx. rewrite <- E. apply nth_In. lia.
    + f_equal. apply IH; [exact Hr|lia].
Qed.

Lemma idx_eqb u c' i :
  NoDup u -> In c' u -> i < length u -> (index_of c' u =? i) = ceqb (nth i u []) c'.
Proof.
  intros Hnd Hin Hi. destruct (Nat.eqb_spec (index_of c' u) i) as [E|E].
  - symmetry. apply ceqb_spec. rewrite <- E. apply nth_index_of, Hin.
  - symmetry. apply ceqb_false. intros E2. apply E. rewrite <- E2. apply index_of_nth; assumption.
Qed.

Lemma map_seq_nth {B} (F : coord -> B) u : forall (G : nat -> B),
    (forall i, i < length u -> G i = F (nth i u [])) -> map G (seq 0 (length u)) = map F u.
Proof.
  induction u as [|x r IH]; intros G H; [reflexivity|].
  cbn [length seq map]. f_equal.
  - apply (H 0). cbn. lia.
  - rewrite <- seq_shift, map_map. apply IH. intros i Hi. apply (H (S i)). cbn. lia.
Qed.

Lemma mask_map_filter {A} (p : A -> bool) (l : list A) : mask l (map p l) = filter p l.
Proof.
  induction l as [|x r IH]; [reflexivity|]. cbn [map mask filter]. rewrite IH. reflexivity.
Qed.

Lemma mask_map_map {A B} (F : A -> B) (p : A -> bool) (l : list A) :
  mask (map F l) (map p l) = map F (filter p l).
Proof.
  induction l as [|x r IH]; [reflexivity|]. cbn [map mask filter]. rewrite IH.
  destruct (p x); reflexivity.
Qed.

Section Proofs.
  Variable V : Type.
  Variable vzero : V.
  Variable vadd : V -> V -> V.
  Hypothesis vadd_assoc : forall x y z, vadd x (vadd y z) = vadd (vadd x y) z.
  Hypothesis vadd_0_l : forall x, vadd vzero x = x.
  Hypothesis vadd_0_r : forall x, vadd x vzero = x.

  Notation st := (C46.st V).
  Notation op := (C46.op V).

  (* values of the batch that belong to coordinate c, in batch order *)
  Fixpoint sel (c : coord) (cs : list coord) (vs : list V) : list V :=
    match cs, vs with
    | k :: cs', v :: vs' => if ceqb c k then v :: sel c cs' vs' else sel c cs' vs'
    | _, _ => []
    end.

  (* what the batch contributes for one coordinate *)
  Definition Fl (a : bool) (l : list V) : V :=
    if a then fold_left vadd l vzero else last l vzero.

  Lemma sel_nil_iff c : forall cs vs, length cs = length vs -> (sel c cs vs = [] <-> ~ In c cs).
  Proof.
    induction cs as [|k cs IH]; intros [|v vs] Hl; cbn [length] in Hl; try discriminate;
      cbn [sel In]; [tauto|].
    destruct (ceqb c k) eqn:E.
    - apply ceqb_spec in E. subst. split; [discriminate|]. intros H. exfalso. apply H. now left.
    - apply ceqb_false in E. rewrite IH by lia. intuition congruence.
  Qed.

  Lemma sel_length c : forall cs vs, length cs = length vs -> length (sel c cs vs) = count c cs.
  Proof.
    unfold count.
    induction cs as [|k cs IH]; intros [|v vs] Hl; cbn [length] in Hl; try discriminate;
      cbn [sel filter]; [reflexivity|].
    destruct (ceqb c k); cbn [length]; rewrite IH by lia; reflexivity.
  Qed.

  Lemma nth_index_sel c z : forall cs vs, length cs = length vs -> In c cs ->
      nth (index_of c cs) vs z = hd z (sel c cs vs).
  Proof.
    induction cs as [|k cs IH]; intros [|v vs] Hl Hin; cbn [length] in Hl; try discriminate;
      cbn [In] in Hin; [tauto|]. cbn [index_of sel].
    destruct (ceqb c k) eqn:E; [reflexivity|]. apply ceqb_false in E.
    destruct Hin as [Hin|Hin]; [congruence|]. cbn [nth]. apply IH; [lia|exact Hin].
  Qed.

  Lemma bin_fold u i : NoDup u -> i < length u ->
    forall cs vs acc, (forall c', In c' cs -> In c' u) ->
      fold_left (fun acc kv => if fst kv =? i then vadd acc (snd kv) else acc)
                (combine (map (fun c => index_of c u) cs) vs) acc
      = fold_left vadd (sel (nth i u []) cs vs) acc.
  Proof.
    intros Hnd Hi. induction cs as [|k cs IH]; intros [|v vs] acc Hsub; try reflexivity.
    cbn [map combine fold_left sel fst snd].
    rewrite (idx_eqb u k i Hnd) by (try exact Hi; apply Hsub; now left).
    destruct (ceqb (nth i u []) k); cbn [fold_left]; apply IH; intros c' H; apply Hsub; now right.
  Qed.

  Lemma last_where_sel u i z : NoDup u -> i < length u ->
    forall cs vs, length cs = length vs -> (forall c', In c' cs -> In c' u) ->
      match last_where (map (fun c => index_of c u) cs) i with
      | Some j => sel (nth i u []) cs vs <> [] /\ nth j vs z = last (sel (nth i u []) cs vs) z
      | None => sel (nth i u []) cs vs = []
      end.
  Proof.
    intros Hnd Hi. induction cs as [|k cs IH]; intros [|v vs] Hl Hsub; cbn [length] in Hl;
      try discriminate; [reflexivity|].
    cbn [map last_where sel].
    specialize (IH vs ltac:(lia) ltac:(intros c' H; apply Hsub; now right)).
    rewrite (idx_eqb u k i Hnd) by (try exact Hi; apply Hsub; now left).
    destruct (last_where (map (fun c => index_of c u) cs) i) as [j|].
    - destruct IH as [Hne Hj]. cbn [nth]. destruct (ceqb (nth i u []) k).
      + split; [discriminate|]. rewrite Hj.
        destruct (sel (nth i u []) cs vs) as [|y l]; [contradiction|reflexivity].
      + split; assumption.
    - rewrite IH. destruct (ceqb (nth i u []) k); [|reflexivity].
      split; [discriminate|reflexivity].
  Qed.

  (* M1: the consolidated batch values, one per unique coordinate *)
  Lemma uvals_spec a cs vs : length cs = length vs ->
    uvals vzero vadd a cs vs = map (fun c => Fl a (sel c cs vs)) (uniq cs).
  Proof.
    intros Hl. unfold uvals.
    assert (Hsub : forall c', In c' cs -> In c' (uniq cs)) by (intros c' H; apply uniq_In, H).
    destruct a.
    - unfold bincount, a2u. apply map_seq_nth. intros i Hi. cbn [Fl].
      apply bin_fold; [apply uniq_NoDup|exact Hi|exact Hsub].
    - destruct (forallb (fun k => k =? 1) (counts cs)) eqn:Ec.
      + unfold u2a. rewrite map_map. apply map_ext_in. intros c Hc. cbn [Fl].
        assert (Hcs : In c cs) by (apply uniq_In, Hc).
        rewrite nth_index_sel by assumption.
        rewrite forallb_forall in Ec. specialize (Ec (count c cs)).
        assert (H1 : count c cs = 1).
        { apply Nat.eqb_eq, Ec. unfold counts. apply in_map_iff. exists c. split; [reflexivity|exact Hc]. }
        rewrite <- (sel_length c cs vs Hl) in H1.
        destruct (sel c cs vs) as [|y [|y' l]]; cbn [length] in H1; try discriminate. reflexivity.
      + unfold a2u. apply map_seq_nth. intros i Hi. cbn [Fl].
        pose proof (last_where_sel (uniq cs) i vzero (uniq_NoDup cs) Hi cs vs Hl Hsub) as H.
        destruct (last_where (map (fun c => index_of c (uniq cs)) cs) i) as [j|].
        * apply H.
        * unfold coord in *. rewrite H. reflexivity.
  Qed.

  (* ---------- the dictionary side ---------- *)
  Lemma fold_shift : forall l x y, fold_left vadd l (vadd x y) = vadd x (fold_left vadd l y).
  Proof.
    induction l as [|v l IH]; intros x y; cbn [fold_left]; [reflexivity|].
    rewrite <- vadd_assoc. apply IH.
  Qed.

  Lemma sum_cons v l : fold_left vadd (v :: l) vzero = vadd v (fold_left vadd l vzero).
  Proof.
    cbn [fold_left]. rewrite vadd_0_l. rewrite <- (vadd_0_r v) at 1. apply fold_shift.
  Qed.

  Definition merge (a : bool) (old : option V) (l : list V) : option V :=
    match l with
    | [] => old
    | _ => Some (match a, old with true, Some w => vadd w (Fl a l) | _, _ => Fl a l end)
    end.

  Lemma dget_dins a d k v c :
    dget (dins vadd a d k v) c =
    if ceqb c k then Some (match a, dget d k with true, Some w => vadd w v | _, _ => v end)
    else dget d c.
  Proof.
    unfold dins. destruct a; [destruct (dget d k) as [w|] eqn:E|]; cbn [dget];
      destruct (ceqb c k); reflexivity.
  Qed.

  Lemma dadd_cons a d k v cs vs :
    dadd vadd a d (k :: cs) (v :: vs) = dadd vadd a (dins vadd a d k v) cs vs.
  Proof. reflexivity. Qed.

  Lemma dadd_spec a c : forall cs vs d,
      dget (dadd vadd a d cs vs) c = merge a (dget d c) (sel c cs vs).
  Proof.
    induction cs as [|k cs IH]; intros [|v vs] d; try reflexivity.
    rewrite dadd_cons, IH, dget_dins. cbn [sel].
    destruct (ceqb c k) eqn:E; [|reflexivity].
    apply ceqb_spec in E. subst k.
    destruct (sel c cs vs) as [|v2 l] eqn:El.
    - cbn [merge]. f_equal. unfold Fl.
      destruct a; [destruct (dget d c)|]; cbn [fold_left last]; rewrite ?vadd_0_l; reflexivity.
    - unfold merge. f_equal. destruct a.
      + unfold Fl. rewrite (sum_cons v). destruct (dget d c) as [w|].
        * rewrite vadd_assoc. reflexivity.
        * reflexivity.
      + unfold Fl. destruct (dget d c); reflexivity.
  Qed.

  (* ---------- positions in the stored coordinate list ---------- *)
  Fixpoint fidx (c : coord) (l : list coord) : option nat :=
    match l with
    | [] => None
    | x :: r => if ceqb c x then Some 0 else option_map S (fidx c r)
    end.

  Lemma hd_find_all c l : hd_error (find_all c l) = fidx c l.
  Proof.
    induction l as [|x r IH]; [reflexivity|]. cbn [find_all fidx].
    destruct (ceqb c x); [reflexivity|]. cbn [app]. rewrite <- IH.
    destruct (find_all c r); reflexivity.
  Qed.

  Lemma nonempty_find_all c l :
    nonempty (find_all c l) = match fidx c l with Some _ => true | None => false end.
  Proof. rewrite <- hd_find_all. destruct (find_all c l); reflexivity. Qed.

  Lemma hdl_find_all c l :
    hdl (find_all c l) = match fidx c l with Some k => [k] | None => [] end.
  Proof. rewrite <- hd_find_all. destruct (find_all c l); reflexivity. Qed.

  Lemma fidx_some c : forall l k, fidx c l = Some k -> nth_error l k = Some c.
  Proof.
    induction l as [|x r IH]; intros k H; cbn [fidx] in H; [discriminate|].
    destruct (ceqb c x) eqn:E.
    - injection H as <-. apply ceqb_spec in E. subst. reflexivity.
    - destruct (fidx c r) as [j|]; cbn [option_map] in H; [|discriminate].
      injection H as <-. cbn [nth_error]. apply IH. reflexivity.
  Qed.

  Lemma fidx_lt c l k : fidx c l = Some k -> k < length l.
  Proof. intros H. apply fidx_some in H. apply nth_error_Some. congruence. Qed.

  Lemma fidx_none c l : fidx c l = None <-> ~ In c l.
  Proof.
    induction l as [|x r IH]; cbn [fidx In]; [tauto|].
    destruct (ceqb c x) eqn:E.
    - apply ceqb_spec in E. subst. split; [discriminate|]. intros H. exfalso. apply H. now left.
    - apply ceqb_false in E. destruct (fidx c r); cbn [option_map].
      + split; [discriminate|]. intros H. exfalso. apply H. right.
        destruct IH as [IH1 IH2]. destruct (coord_in_dec c r) as [Hi|Hi]; [exact Hi|].
        specialize (IH2 Hi). discriminate.
      + split; [|reflexivity]. intros _ [H|H]; [congruence|]. apply IH in H; [exact H|reflexivity].
  Qed.

  Lemma fidx_app c l1 l2 :
    fidx c (l1 ++ l2) = match fidx c l1 with
                        | Some k => Some k
                        | None => option_map (Nat.add (length l1)) (fidx c l2)
                        end.
  Proof.
    induction l1 as [|x r IH]; cbn [app fidx length].
    - destruct (fidx c l2); reflexivity.
    - destruct (ceqb c x); [reflexivity|]. rewrite IH.
      destruct (fidx c r); cbn [option_map]; [reflexivity|].
      destruct (fidx c l2); reflexivity.
  Qed.

  Lemma find_all_nodup c : forall l, NoDup l ->
      find_all c l = match fidx c l with Some k => [k] | None => [] end.
  Proof.
    induction l as [|x r IH]; intros Hnd; [reflexivity|].
    inversion Hnd as [|? ? Hx Hr]; subst. cbn [find_all fidx].
    destruct (ceqb c x) eqn:E.
    - apply ceqb_spec in E. subst x. rewrite (IH Hr).
      destruct (fidx c r) eqn:Ef; [|reflexivity].
      exfalso. apply Hx. apply fidx_some in Ef. eapply nth_error_In, Ef.
    - rewrite (IH Hr). destruct (fidx c r); reflexivity.
  Qed.

  (* ---------- fancy-index assignment ---------- *)
  Definition assignP (l : list V) (pairs : list (nat * V)) : list V :=
    fold_left (fun acc kv => set_nth acc (fst kv) (snd kv)) pairs l.

  Lemma set_nth_length : forall (l : list V) k v, length (set_nth l k v) = length l.
  Proof.
    induction l as [|x r IH]; intros [|k] v; cbn [set_nth length]; try reflexivity.
    rewrite IH. reflexivity.
  Qed.

  Lemma set_nth_eq : forall (l : list V) k v, k < length l -> nth_error (set_nth l k v) k = Some v.
  Proof.
    induction l as [|x r IH]; intros [|k] v H; cbn [length] in H; try lia; cbn [set_nth nth_error].
    - reflexivity.
    - apply IH. lia.
  Qed.

  Lemma set_nth_neq : forall (l : list V) k j v, j <> k -> nth_error (set_nth l k v) j = nth_error l j.
  Proof.
    induction l as [|x r IH]; intros [|k] [|j] v H; cbn [set_nth nth_error]; try reflexivity;
      try congruence.
    apply IH. congruence.
  Qed.

  Lemma assignP_length : forall pairs l, length (assignP l pairs) = length l.
  Proof.
    induction pairs as [|[k v] ps IH]; intros l; [reflexivity|].
    unfold assignP in *. cbn [fold_left fst snd]. rewrite IH. apply set_nth_length.
  Qed.

  Lemma assignP_other : forall pairs l k,
      ~ In k (map fst pairs) -> nth_error (assignP l pairs) k = nth_error l k.
  Proof.
    induction pairs as [|[k0 v0] ps IH]; intros l k H; [reflexivity|].
    unfold assignP in *. cbn [fold_left fst snd map In] in *.
    rewrite IH by tauto. apply set_nth_neq. intros E. apply H. left. congruence.
  Qed.

  Lemma assignP_hit : forall pairs l k v,
      NoDup (map fst pairs) -> In (k, v) pairs -> k < length l ->
      nth_error (assignP l pairs) k = Some v.
  Proof.
    induction pairs as [|[k0 v0] ps IH]; intros l k v Hnd Hin Hk; [contradiction|].
    cbn [map fst] in Hnd. inversion Hnd as [|? ? Hk0 Hps]; subst.
    change (assignP l ((k0, v0) :: ps)) with (assignP (set_nth l k0 v0) ps).
    destruct Hin as [E|Hin].
    - injection E as -> ->. rewrite assignP_other by exact Hk0. apply set_nth_eq, Hk.
    - apply IH; [exact Hps|exact Hin|rewrite set_nth_length; exact Hk].
  Qed.

  (* ---------- the update of already stored coordinates ---------- *)
  Definition upd (a : bool) (cds : list coord) (vals : list V) (F : coord -> V)
             (u : list coord) : list (nat * V) :=
    flat_map (fun c => match fidx c cds with
                       | Some k => [(k, if a then vadd (nth k vals vzero) (F c) else F c)]
                       | None => []
                       end) u.

  Lemma pairs_over cds vals F : forall u,
      combine (flat_map hdl (map (fun c => find_all c cds) u))
              (mask (map F u) (map nonempty (map (fun c => find_all c cds) u)))
      = upd false cds vals F u.
  Proof.
    induction u as [|c u IH]; [reflexivity|].
    cbn [map flat_map mask upd]. rewrite hdl_find_all, nonempty_find_all.
    destruct (fidx c cds); cbn [app combine]; [f_equal|]; exact IH.
  Qed.

  Lemma pairs_add cds vals F : forall u,
      combine (flat_map hdl (map (fun c => find_all c cds) u))
              (map2 vadd (gather vzero vals (flat_map hdl (map (fun c => find_all c cds) u)))
                    (mask (map F u) (map nonempty (map (fun c => find_all c cds) u))))
      = upd true cds vals F u.
  Proof.
    induction u as [|c u IH]; [reflexivity|].
    cbn [map flat_map mask upd]. rewrite hdl_find_all, nonempty_find_all.
    destruct (fidx c cds); cbn [app gather map map2 combine]; [f_equal|]; exact IH.
  Qed.

  Lemma upd_keys (a : bool) cds vals F u k :
    In k (map fst (upd a cds vals F u)) -> exists c, In c u /\ fidx c cds = Some k.
  Proof.
    intros H. apply in_map_iff in H. destruct H as [[k' v] [E H]]. cbn in E. subst k'.
    unfold upd in H. apply in_flat_map in H. destruct H as [c [Hc H]].
    exists c. split; [exact Hc|]. destruct (fidx c cds) as [j|]; [|contradiction].
    destruct H as [H|[]]. injection H as -> _. reflexivity.
  Qed.

  Lemma upd_in (a : bool) cds vals F u c k :
    In c u -> fidx c cds = Some k ->
    In (k, if a then vadd (nth k vals vzero) (F c) else F c) (upd a cds vals F u).
  Proof.
    intros Hc Hk. unfold upd. apply in_flat_map. exists c. split; [exact Hc|].
    rewrite Hk. now left.
  Qed.

  Lemma upd_nodup (a : bool) cds vals F : forall u, NoDup u -> NoDup (map fst (upd a cds vals F u)).
  Proof.
    induction u as [|c u IH]; intros Hnd; [constructor|].
    inversion Hnd as [|? ? Hc Hu]; subst.
    change (upd a cds vals F (c :: u))
      with ((match fidx c cds with
             | Some k => [(k, if a then vadd (nth k vals vzero) (F c) else F c)]
             | None => [] end) ++ upd a cds vals F u).
    destruct (fidx c cds) as [k|] eqn:Ek; cbn [app map fst]; [|apply IH, Hu].
    constructor; [|apply IH, Hu].
    intros H. apply upd_keys in H. destruct H as [c' [Hc' Hk']].
    apply fidx_some in Ek. apply fidx_some in Hk'. rewrite Ek in Hk'. injection Hk' as <-.
    contradiction.
  Qed.

  Lemma assign_assignP l ind rhs : assign l ind rhs = assignP l (combine ind rhs).
  Proof. reflexivity. Qed.

  (* ---------- one insertion ---------- *)
  Definition Inv (s : st) : Prop :=
    NoDup (coords s) /\ length (coords s) = length (values s).

  Lemma abs_fidx (s : st) c :
    abs s c = match fidx c (coords s) with Some k => nth_error (values s) k | None => None end.
  Proof.
    unfold abs. rewrite <- hd_find_all. destruct (find_all c (coords s)); reflexivity.
  Qed.

  Lemma NoDup_app_intro {A} (l1 l2 : list A) :
    NoDup l1 -> NoDup l2 -> (forall x, In x l2 -> ~ In x l1) -> NoDup (l1 ++ l2).
  Proof.
    induction l1 as [|x r IH]; intros H1 H2 H; [exact H2|].
    inversion H1 as [|? ? Hx Hr]; subst. cbn [app]. constructor.
    - rewrite in_app_iff. intros [Hi|Hi]; [contradiction|]. apply (H x Hi). now left.
    - apply IH; [exact Hr|exact H2|]. intros y Hy Hy'. apply (H y Hy). now right.
  Qed.

  Lemma add_spec (s : st) a cs vs :
    Inv s -> length cs = length vs ->
    Inv (fst (add vzero vadd s a cs vs)) /\
    forall c, abs (fst (add vzero vadd s a cs vs)) c = merge a (abs s c) (sel c cs vs).
  Proof.
    intros [Hnd Hlen] Hl.
    destruct cs as [|c0 cs0] eqn:Ecs.
    { destruct vs; [|discriminate]. cbn [add fst]. split; [split; assumption|reflexivity]. }
    rewrite <- Ecs in *. assert (Hne : cs <> []) by (rewrite Ecs; discriminate).
    clear Ecs c0 cs0.
    set (F := fun c => Fl a (sel c cs vs)).
    set (q := fun c => negb (nonempty (find_all c (coords s)))).
    set (newc := filter q (uniq cs)).
    set (P := upd a (coords s) (values s) F (uniq cs)).
    assert (Hadd : fst (add vzero vadd s a cs vs)
                   = mk (coords s ++ newc) (assignP (values s) P ++ map F newc)).
    { unfold add. destruct cs as [|c0 cs0]; [contradiction|]. cbn [fst].
      rewrite (uvals_spec a (c0 :: cs0) vs Hl). fold F.
      rewrite (map_map (fun c => find_all c (coords s)) nonempty).
      rewrite (map_map (fun c => nonempty (find_all c (coords s))) negb).
      rewrite (mask_map_filter (fun c => negb (nonempty (find_all c (coords s))))).
      rewrite (mask_map_map F (fun c => negb (nonempty (find_all c (coords s))))).
      rewrite <- (map_map (fun c => find_all c (coords s)) nonempty).
      f_equal. f_equal. rewrite !assign_assignP.
      destruct a; [rewrite pairs_add|rewrite (pairs_over (coords s) (values s))]; reflexivity. }
    rewrite Hadd.
    assert (HP : NoDup (map fst P)) by (apply upd_nodup, uniq_NoDup).
    assert (Hq : forall c, q c = true <-> fidx c (coords s) = None).
    { intros c. unfold q. rewrite nonempty_find_all. destruct (fidx c (coords s)); cbn;
        split; congruence. }
    assert (Hnewc : forall c, In c newc <-> In c cs /\ ~ In c (coords s)).
    { intros c. unfold newc. rewrite filter_In, uniq_In, Hq, fidx_none. tauto. }
    split.
    - split; cbn [coords values].
      + apply NoDup_app_intro; [exact Hnd|apply NoDup_filter, uniq_NoDup|].
        intros x Hx. apply Hnewc in Hx. tauto.
      + rewrite !app_length, assignP_length, map_length. lia.
    - intros c. rewrite !abs_fidx. cbn [coords values]. rewrite fidx_app.
      destruct (fidx c (coords s)) as [k|] eqn:Ek.
      + assert (Hk : k < length (values s)) by (rewrite <- Hlen; eapply fidx_lt, Ek).
        rewrite nth_error_app1 by (rewrite assignP_length; exact Hk).
        destruct (coord_in_dec c cs) as [Hin|Hin].
        * rewrite (assignP_hit P (values s) k _ HP
                     (upd_in a (coords s) (values s) F (uniq cs) c k
                             (proj2 (uniq_In c cs) Hin) Ek) Hk).
          rewrite (nth_error_nth' (values s) vzero Hk). unfold merge, F.
          destruct (sel c cs vs) eqn:Es; [|destruct a; reflexivity].
          exfalso. apply (sel_nil_iff c cs vs Hl) in Es. contradiction.
        * rewrite assignP_other.
          -- apply (sel_nil_iff c cs vs Hl) in Hin. rewrite Hin. reflexivity.
          -- intros H. apply upd_keys in H. destruct H as [c' [Hc' Hk']].
             apply fidx_some in Ek. apply fidx_some in Hk'. rewrite Ek in Hk'.
             injection Hk' as E2. subst. apply (proj1 (uniq_In _ _)) in Hc'. contradiction.
      + destruct (coord_in_dec c cs) as [Hin|Hin].
        * assert (Hc : In c newc) by (apply Hnewc; split; [exact Hin|apply fidx_none, Ek]).
          destruct (fidx c newc) as [p|] eqn:Ep; [|apply fidx_none in Ep; contradiction].
          cbn [option_map]. rewrite nth_error_app2 by (rewrite assignP_length; lia).
          rewrite assignP_length.
          replace (length (coords s) + p - length (values s)) with p by lia.
          rewrite nth_error_map, (fidx_some c newc p Ep). cbn [option_map]. unfold merge, F.
          destruct (sel c cs vs) eqn:Es; [|destruct a; reflexivity].
          exfalso. apply (sel_nil_iff c cs vs Hl) in Es. contradiction.
        * assert (Hc : ~ In c newc) by (rewrite Hnewc; tauto).
          apply fidx_none in Hc. rewrite Hc. cbn [option_map].
          apply (sel_nil_iff c cs vs Hl) in Hin. rewrite Hin. reflexivity.
  Qed.

  (* ---------- reads ---------- *)
  Definition has (o : option V) : bool := match o with Some _ => true | None => false end.
  Definition val (o : option V) : V := match o with Some v => v | None => vzero end.

  Lemma has_abs (s : st) c : Inv s -> has (abs s c) = nonempty (find_all c (coords s)).
  Proof.
    intros [_ Hlen]. rewrite abs_fidx, nonempty_find_all.
    destruct (fidx c (coords s)) as [k|] eqn:Ek; [|reflexivity].
    apply fidx_lt in Ek. rewrite Hlen in Ek.
    rewrite (nth_error_nth' (values s) vzero Ek). reflexivity.
  Qed.

  Lemma get_vals (s : st) : Inv s -> forall cs,
      forallb (fun c => has (abs s c)) cs = true ->
      gather vzero (values s) (concat (map (fun c => find_all c (coords s)) cs))
      = map (fun c => val (abs s c)) cs.
  Proof.
    intros HI. pose proof HI as [Hnd Hlen].
    induction cs as [|c cs IH]; intros H; [reflexivity|].
    cbn [forallb] in H. apply andb_true_iff in H. destruct H as [Hc Hcs].
    cbn [map concat]. unfold gather in *. rewrite map_app, (IH Hcs). f_equal.
    rewrite (find_all_nodup c (coords s) Hnd). rewrite abs_fidx in Hc |- *.
    destruct (fidx c (coords s)) as [k|] eqn:Ek; [|discriminate].
    apply fidx_lt in Ek. rewrite Hlen in Ek.
    rewrite (nth_error_nth' (values s) vzero Ek). reflexivity.
  Qed.

  Lemma forallb_map_id {A} (f : A -> bool) l : forallb (fun b => b) (map f l) = forallb f l.
  Proof. induction l as [|x r IH]; [reflexivity|]. cbn. rewrite IH. reflexivity. Qed.

  Lemma forallb_ext_in {A} (f g : A -> bool) l :
    (forall x, In x l -> f x = g x) -> forallb f l = forallb g l.
  Proof.
    induction l as [|x r IH]; intros H; [reflexivity|]. cbn [forallb].
    rewrite (H x) by now left. rewrite IH; [reflexivity|]. intros y Hy. apply H. now right.
  Qed.

  Lemma get_spec (s : st) cs : Inv s ->
    get vzero s cs = if forallb (fun c => has (abs s c)) cs
                     then OVals (map (fun c => val (abs s c)) cs)
                     else OErr ValueErr.
  Proof.
    intros HI. unfold get. rewrite map_map, forallb_map_id.
    rewrite (forallb_ext_in (fun c => nonempty (find_all c (coords s)))
                            (fun c => has (abs s c)))
      by (intros c _; symmetry; apply has_abs, HI).
    destruct (forallb (fun c => has (abs s c)) cs) eqn:E; [|reflexivity].
    rewrite (get_vals s HI cs E). reflexivity.
  Qed.

  (* ---------- histories ---------- *)
  Definition R (s : st) (d : dict V) : Prop := forall c, abs s c = dget d c.

  Lemma dread_spec (d : dict V) cs :
    dread vzero d cs = if forallb (fun c => has (dget d c)) cs
                       then DVals (map (fun c => val (dget d c)) cs) else DErr.
  Proof. reflexivity. Qed.

  Lemma step_refines (s : st) d (o : op) :
    Inv s -> R s d -> wf o ->
    Inv (fst (step vzero vadd s o)) /\
    R (fst (step vzero vadd s o)) (fst (dstep vzero vadd d o)) /\
    proj (snd (step vzero vadd s o)) = snd (dstep vzero vadd d o).
  Proof.
    intros HI HR Hwf. destruct o as [a cs vs|cs]; cbn [wf] in Hwf.
    - destruct (add_spec s a cs vs HI Hwf) as [HI' Habs].
      cbn [step dstep]. destruct (add vzero vadd s a cs vs) as [s' p]. cbn [fst snd] in *.
      split; [exact HI'|]. split; [|reflexivity].
      intros c. rewrite Habs, dadd_spec, (HR c). reflexivity.
    - cbn [step dstep fst snd]. split; [exact HI|]. split; [exact HR|].
      rewrite (get_spec s cs HI), dread_spec.
      rewrite (forallb_ext_in (fun c => has (abs s c)) (fun c => has (dget d c)))
        by (intros c _; rewrite (HR c); reflexivity).
      destruct (forallb (fun c => has (dget d c)) cs); [|reflexivity].
      cbn [proj]. f_equal. apply map_ext. intros c. rewrite (HR c). reflexivity.
  Qed.

  Lemma run_refines : forall (ops : list op) (s : st) d,
      Inv s -> R s d -> Forall wf ops ->
      Inv (fst (run vzero vadd s ops)) /\
      R (fst (run vzero vadd s ops)) (fst (drun vzero vadd d ops)) /\
      map proj (snd (run vzero vadd s ops)) = snd (drun vzero vadd d ops).
  Proof.
    induction ops as [|o ops IH]; intros s d HI HR Hwf.
    - cbn [run drun fst snd map]. split; [exact HI|split; [exact HR|reflexivity]].
    - inversion Hwf as [|? ? Ho Hops]; subst.
      destruct (step_refines s d o HI HR Ho) as [HI' [HR' Hout]].
      cbn [run drun].
      destruct (step vzero vadd s o) as [s' x]. destruct (dstep vzero vadd d o) as [d' y].
      cbn [fst snd] in *.
      destruct (IH s' d' HI' HR' Hops) as [HI'' [HR'' Houts]].
      destruct (run vzero vadd s' ops) as [s'' xs]. destruct (drun vzero vadd d' ops) as [d'' ys].
      cbn [fst snd map] in *. split; [exact HI''|split; [exact HR''|]]. rewrite Hout, Houts. reflexivity.
  Qed.

  Lemma Inv_empty : Inv empty.
  Proof. split; [constructor|reflexivity]. Qed.

  Lemma R_empty : R empty [].
  Proof. intros c. reflexivity. Qed.

  Lemma merge_none a old l : merge a old l = None <-> old = None /\ l = [].
  Proof.
    unfold merge. destruct l; [tauto|]. split; [discriminate|]. intros [_ H]. discriminate.
  Qed.

  Lemma dget_inserted c : forall (ops : list op) d,
      Forall wf ops ->
      (dget (fst (drun vzero vadd d ops)) c = None <-> dget d c = None /\ ~ In c (inserted ops)).
  Proof.
    induction ops as [|o ops IH]; intros d Hwf.
    - cbn. tauto.
    - inversion Hwf as [|? ? Ho Hops]; subst. cbn [drun].
      destruct (dstep vzero vadd d o) as [d' y] eqn:Ed.
      specialize (IH d' Hops). destruct (drun vzero vadd d' ops) as [d'' ys].
      cbn [fst] in *. rewrite IH. destruct o as [a cs vs|cs]; cbn [dstep] in Ed;
        injection Ed as <- _; cbn [inserted wf] in *.
      + rewrite dadd_spec, merge_none, (sel_nil_iff c cs vs Ho), in_app_iff. tauto.
      + tauto.
  Qed.

  (* ---------- the theorems ---------- *)
  Theorem refines_dict (ops : list op) :
    Forall wf ops ->
    (forall c, abs (fst (run vzero vadd empty ops)) c = dget (fst (drun vzero vadd [] ops)) c) /\
    map proj (snd (run vzero vadd empty ops)) = snd (drun vzero vadd [] ops).
  Proof.
    intros Hwf. destruct (run_refines ops empty [] Inv_empty R_empty Hwf) as [_ [HR Ho]].
    split; assumption.
  Qed.

  Theorem refines_dict_from (ops : list op) (s : st) d :
    NoDup (coords s) -> length (coords s) = length (values s) ->
    (forall c, abs s c = dget d c) -> Forall wf ops ->
    (forall c, abs (fst (run vzero vadd s ops)) c = dget (fst (drun vzero vadd d ops)) c) /\
    map proj (snd (run vzero vadd s ops)) = snd (drun vzero vadd d ops).
  Proof.
    intros H1 H2 HR Hwf. destruct (run_refines ops s d (conj H1 H2) HR Hwf) as [_ [HR' Ho]].
    split; assumption.
  Qed.

  Theorem storage_invariant (ops : list op) :
    Forall wf ops ->
    NoDup (coords (fst (run vzero vadd empty ops))) /\
    length (coords (fst (run vzero vadd empty ops)))
    = length (values (fst (run vzero vadd empty ops))).
  Proof.
    intros Hwf. destruct (run_refines ops empty [] Inv_empty R_empty Hwf) as [HI _]. exact HI.
  Qed.

  Theorem held_iff_inserted (ops : list op) c :
    Forall wf ops ->
    (abs (fst (run vzero vadd empty ops)) c = None <-> ~ In c (inserted ops)).
  Proof.
    intros Hwf. destruct (refines_dict ops Hwf) as [HR _]. rewrite HR.
    rewrite (dget_inserted c ops [] Hwf). cbn [dget]. tauto.
  Qed.

  Lemma forallb_false_in {A} (f : A -> bool) l x : In x l -> f x = false -> forallb f l = false.
  Proof.
    intros Hin Hf. destruct (forallb f l) eqn:E; [|reflexivity].
    rewrite forallb_forall in E. rewrite (E x Hin) in Hf. discriminate.
  Qed.

  Theorem missing_raises (ops : list op) cs c :
    Forall wf ops -> In c cs -> ~ In c (inserted ops) ->
    snd (step vzero vadd (fst (run vzero vadd empty ops)) (OpGet cs)) = OErr ValueErr.
  Proof.
    intros Hwf Hin Hnot. cbn [step snd].
    destruct (run_refines ops empty [] Inv_empty R_empty Hwf) as [HI _].
    rewrite (get_spec _ cs HI).
    rewrite (forallb_false_in _ cs c Hin); [reflexivity|].
    apply (held_iff_inserted ops c Hwf) in Hnot. rewrite Hnot. reflexivity.
  Qed.

  Theorem inserted_readable (ops : list op) cs :
    Forall wf ops -> (forall c, In c cs -> In c (inserted ops)) ->
    let d := fst (drun vzero vadd [] ops) in
    (forall c, In c cs -> dget d c <> None) /\
    snd (step vzero vadd (fst (run vzero vadd empty ops)) (OpGet cs))
    = OVals (map (fun c => val (dget d c)) cs).
  Proof.
    intros Hwf Hall d.
    assert (Hd : forall c, In c cs -> dget d c <> None).
    { intros c Hc E. apply (dget_inserted c ops [] Hwf) in E. destruct E as [_ E].
      apply E, Hall, Hc. }
    split; [exact Hd|]. cbn [step snd].
    destruct (run_refines ops empty [] Inv_empty R_empty Hwf) as [HI [HR _]].
    rewrite (get_spec _ cs HI).
    rewrite (forallb_ext_in _ (fun _ => true)).
    - replace (forallb (fun _ : coord => true) cs) with true
        by (clear; induction cs; [reflexivity|assumption]).
      f_equal. apply map_ext. intros c. rewrite (HR c). reflexivity.
    - intros c Hc. rewrite (HR c). fold d. specialize (Hd c Hc).
      destruct (dget d c); [reflexivity|contradiction].
  Qed.
End Proofs.
