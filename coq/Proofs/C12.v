(* C12 — proofs about the transcribed Tpfa.discretize (PP.Model.C12) at the reals. *)
From Coq Require Import List ZArith Bool Arith Lia Reals Lra.
Import ListNotations.
From PP Require Import Model.C12.

Local Open Scope R_scope.

(* ---------------- the real instance of the model ---------------- *)
Notation rvec := (vec R).
Notation rdot := (dot R Rplus Rmult).
Notation rvsub := (vsub R Rminus).
Notation rvscale := (vscale R Rmult).
Notation rmulmv := (mulmv R Rplus Rmult).
Notation rcross := (cross R Rminus Rmult).
Notation rnvec := (nvec R Rmult IZR).
Notation rknvec := (knvec R Rplus Rmult IZR).
Notation rdvec := (dvec R Rminus).
Notation rhalf := (half_trans R Rplus Rminus Rmult Rdiv IZR).
Notation rinv_sum := (inv_sum R 0 1 Rplus Rminus Rmult Rdiv IZR).
Notation rt_full := (t_full R 0 1 Rplus Rminus Rmult Rdiv IZR).
Notation rt_flux := (t_flux R 0 1 Rplus Rminus Rmult Rdiv IZR).
Notation rt_b := (t_b R 0 1 Rplus Rminus Rmult Rdiv Ropp IZR).
Notation rflux := (flux R 0 1 Rplus Rminus Rmult Rdiv IZR).
Notation rbsgn := (bsgn R 0 IZR).
Notation rbound_flux := (bound_flux R 0 1 Rplus Rminus Rmult Rdiv Ropp IZR).
Notation rbpc := (bound_pressure_cell R 0 1).
Notation rv_face := (v_face R 0 1 Rplus Rminus Rmult Rdiv Ropp IZR).
Notation rbpf := (bound_pressure_face R 0 1 Rplus Rminus Rmult Rdiv Ropp IZR).
Notation rdiscretize := (discretize R 0 1 Rplus Rminus Rmult Rdiv Ropp IZR).

(* ---------------- finite sums over lists ---------------- *)
Definition lsum {A : Type} (g : A -> R) (l : list A) : R :=
  fold_right (fun a acc => g a + acc) 0 l.

Lemma lsum_nil {A} (g : A -> R) : lsum g [] = 0.
Proof. reflexivity. Qed.

Lemma lsum_cons {A} (g : A -> R) a l : lsum g (a :: l) = g a + lsum g l.
Proof. reflexivity. Qed.

Lemma lsum_ext {A} (g h : A -> R) l : (forall a, In a l -> g a = h a) -> lsum g l = lsum h l.
Proof.
  induction l as [|a l IH]; intros H; [reflexivity|]. rewrite !lsum_cons.
  rewrite (H a) by (left; reflexivity). rewrite IH; [reflexivity|].
  intros; apply H; right; assumption.
Qed.

Lemma lsum_map {A B} (h : A -> B) (g : B -> R) l : lsum g (map h l) = lsum (fun a => g (h a)) l.
Proof. induction l as [|a l IH]; [reflexivity|]. cbn [map]. rewrite !lsum_cons, IH. reflexivity. Qed.

Lemma lsum_plus {A} (g h : A -> R) l : lsum (fun a => g a + h a) l = lsum g l + lsum h l.
Proof. induction l as [|a l IH]; [cbn; lra|]. rewrite !lsum_cons, IH. lra. Qed.

Lemma lsum_scal {A} c (g : A -> R) l : lsum (fun a => c * g a) l = c * lsum g l.
Proof. induction l as [|a l IH]; [cbn; lra|]. rewrite !lsum_cons, IH. lra. Qed.

Lemma lsum_zero {A} (g : A -> R) l : (forall a, In a l -> g a = 0) -> lsum g l = 0.
Proof.
  induction l as [|a l IH]; intros H; [reflexivity|]. rewrite lsum_cons.
  rewrite (H a) by (left; reflexivity). rewrite IH; [lra|]. intros; apply H; right; assumption.
Qed.

Lemma lsum_swap {A B} (g : A -> B -> R) la lb :
  lsum (fun a => lsum (fun b => g a b) lb) la = lsum (fun b => lsum (fun a => g a b) la) lb.
Proof.
  induction la as [|a la IH].
  - cbn [lsum fold_right]. symmetry. apply lsum_zero. reflexivity.
  - rewrite lsum_cons, IH. rewrite <- lsum_plus. apply lsum_ext. intros b _. rewrite lsum_cons. reflexivity.
Qed.

Lemma lsum_filter {A} (p : A -> bool) (g : A -> R) l :
  lsum (fun a => if p a then g a else 0) l = lsum g (filter p l).
Proof.
  induction l as [|a l IH]; [reflexivity|]. rewrite lsum_cons. cbn [filter].
  destruct (p a); [rewrite lsum_cons, IH; reflexivity | rewrite IH; lra].
Qed.

Lemma lsum_nonneg {A} (g : A -> R) l : (forall a, In a l -> 0 <= g a) -> 0 <= lsum g l.
Proof.
  induction l as [|a l IH]; intros H; [cbn; lra|]. rewrite lsum_cons.
  pose proof (H a (or_introl eq_refl)). assert (0 <= lsum g l) by (apply IH; intros; apply H; right; assumption).
  lra.
Qed.

Lemma lsum_nonpos {A} (g : A -> R) l : (forall a, In a l -> g a <= 0) -> lsum g l <= 0.
Proof.
  induction l as [|a l IH]; intros H; [cbn; lra|]. rewrite lsum_cons.
  pose proof (H a (or_introl eq_refl)). assert (lsum g l <= 0) by (apply IH; intros; apply H; right; assumption).
  lra.
Qed.

Lemma lsum_pos {A} (g : A -> R) l a0 :
  (forall a, In a l -> 0 <= g a) -> In a0 l -> 0 < g a0 -> 0 < lsum g l.
Proof.
  induction l as [|a l IH]; intros H Hin Hp; [destruct Hin|]. rewrite lsum_cons.
  assert (0 <= lsum g l) by (apply lsum_nonneg; intros; apply H; right; assumption).
  pose proof (H a (or_introl eq_refl)).
  destruct Hin as [->|Hin]; [lra|].
  assert (0 < lsum g l) by (apply IH; [intros; apply H; right; assumption|assumption|assumption]). lra.
Qed.

(* ---------------- matrices as coordinate lists ---------------- *)
Definition mrow (t : nat * nat * R) := fst (fst t).
Definition mcol (t : nat * nat * R) := snd (fst t).
Definition mval (t : nat * nat * R) := snd t.

(* M[r, c] (duplicates add up, as in scipy) *)
Definition entry (M : coo R) (r c : nat) : R :=
  lsum (fun t => if (mrow t =? r)%nat && (mcol t =? c)%nat then mval t else 0) M.

(* (M x)_r *)
Definition row_apply (M : coo R) (x : nat -> R) (r : nat) : R :=
  lsum (fun t => if (mrow t =? r)%nat then mval t * x (mcol t) else 0) M.

Section Real.
  Variable I : input R.

  Definition on_face (f : nat) : list inc := filter (fun e => (tf e =? f)%nat) (cf I).

  Lemma on_face_in f e : In e (on_face f) <-> In e (cf I) /\ tf e = f.
  Proof. unfold on_face. rewrite filter_In, Nat.eqb_eq. reflexivity. Qed.

  (* (Div * flux)[i, j],  Div = cell_faces^T *)
  Definition divflux (i j : nat) : R :=
    lsum (fun e => if (tc e =? i)%nat then IZR (ts e) * entry (rflux I) (tf e) j else 0) (cf I).

  (* total flux through face f for cell pressures p and boundary values bv *)
  Definition face_flux (p bv : nat -> R) (f : nat) : R :=
    row_apply (rflux I) p f + row_apply (rbound_flux I) bv f.

  (* reconstructed boundary pressure *)
  Definition face_pressure (p bv : nat -> R) (f : nat) : R :=
    row_apply (rbpc I) p f + row_apply (rbpf I) bv f.

  Lemma entry_flux f j :
    entry (rflux I) f j =
    lsum (fun e => if (tc e =? j)%nat then rt_flux I f * IZR (ts e) else 0) (on_face f).
  Proof.
    unfold entry, flux, on_face. rewrite lsum_map, <- lsum_filter.
    apply lsum_ext. intros e _. unfold mrow, mcol, mval. cbn [fst snd].
    destruct (Nat.eqb_spec (tf e) f) as [->|_]; reflexivity.
  Qed.

  Lemma row_apply_flux p f :
    row_apply (rflux I) p f = lsum (fun e => rt_flux I f * IZR (ts e) * p (tc e)) (on_face f).
  Proof.
    unfold row_apply, flux, on_face. rewrite lsum_map, <- lsum_filter.
    apply lsum_ext. intros e _. unfold mrow, mcol, mval. cbn [fst snd].
    destruct (Nat.eqb_spec (tf e) f) as [->|_]; reflexivity.
  Qed.

  Lemma row_apply_bflux_notin bv f :
    ~ In f (bnd I) -> row_apply (rbound_flux I) bv f = 0.
  Proof.
    intros H. unfold row_apply, bound_flux. rewrite lsum_map. apply lsum_zero.
    intros g Hg. unfold mrow. cbn [fst snd].
    destruct (Nat.eqb_spec g f) as [->|_]; [contradiction|reflexivity].
  Qed.

  Lemma lsum_diag_at (h : nat -> R) f : forall l, NoDup l -> In f l ->
    lsum (fun g => if (g =? f)%nat then h g else 0) l = h f.
  Proof.
    induction l as [|g l IH]; intros Hnd Hin; [destruct Hin|].
    inversion Hnd as [|? ? Hng Hnd']; subst. rewrite lsum_cons.
    destruct Hin as [->|Hin].
    - rewrite Nat.eqb_refl. rewrite lsum_zero; [lra|]. intros g Hg.
      destruct (Nat.eqb_spec g f) as [->|_]; [contradiction|reflexivity].
    - destruct (Nat.eqb_spec g f) as [->|_]; [contradiction|]. rewrite IH by assumption. lra.
  Qed.

  Lemma row_apply_bflux_in bv f :
    NoDup (bnd I) -> In f (bnd I) ->
    row_apply (rbound_flux I) bv f = rt_b I f * rbsgn I f * bv f.
  Proof.
    intros Hnd Hin. unfold row_apply, bound_flux. rewrite lsum_map.
    unfold mrow, mcol, mval. cbn [fst snd].
    apply (lsum_diag_at (fun g => rt_b I g * rbsgn I g * bv g) f _ Hnd Hin).
  Qed.

  (* ---------------- C12_symmetric ---------------- *)
  Definition G (i j : nat) (e e' : inc) : R :=
    if (tc e =? i)%nat then
      IZR (ts e) * (if (tf e' =? tf e)%nat && (tc e' =? j)%nat
                    then rt_flux I (tf e) * IZR (ts e') else 0)
    else 0.

  Lemma divflux_double i j :
    divflux i j = lsum (fun e => lsum (fun e' => G i j e e') (cf I)) (cf I).
  Proof.
    unfold divflux. apply lsum_ext. intros e _. unfold G.
    destruct (tc e =? i)%nat.
    - rewrite lsum_scal. f_equal. rewrite entry_flux. unfold on_face. rewrite <- lsum_filter.
      apply lsum_ext. intros e' _. destruct (tf e' =? tf e)%nat; reflexivity.
    - symmetry. apply lsum_zero. reflexivity.
  Qed.

  Lemma G_sym i j e e' : G i j e e' = G j i e' e.
  Proof.
    unfold G. rewrite (Nat.eqb_sym (tf e') (tf e)).
    destruct (Nat.eqb_spec (tf e) (tf e')) as [E|E]; cbn [andb].
    - rewrite E. destruct (tc e =? i)%nat, (tc e' =? j)%nat; ring.
    - destruct (tc e =? i)%nat, (tc e' =? j)%nat; ring.
  Qed.

  Theorem symmetric_theorem i j : divflux i j = divflux j i.
  Proof.
    rewrite !divflux_double. rewrite lsum_swap. apply lsum_ext. intros e' _.
    apply lsum_ext. intros e _. apply G_sym.
  Qed.
  (* ---------------- face classes ---------------- *)
  (* interior face: exactly two incidence entries with opposite signs, not on the boundary
     list, not flagged Neumann/internal *)
  Definition interior (f c1 c2 : nat) (s : Z) : Prop :=
    on_face f = [geo f c1 s; geo f c2 (- s)%Z] /\ ~ In f (bnd I) /\ neu' R I f = false.

  (* boundary face: exactly one incidence entry, listed once among the boundary faces *)
  Definition geo_face (f : nat) : list inc := filter (fun e => (tg e =? f)%nat) (cf I).

  Definition boundary (f c : nat) (s : Z) : Prop :=
    (on_face f = [geo f c s] /\ geo_face f = [geo f c s]) /\ In f (bnd I) /\ NoDup (bnd I).

  Lemma filter_andb {A} (p q : A -> bool) l :
    filter (fun x => p x && q x) l = filter q (filter p l).
  Proof.
    induction l as [|a l IH]; [reflexivity|]. cbn [filter].
    destruct (p a); cbn [andb filter]; [destruct (q a); rewrite IH; reflexivity | exact IH].
  Qed.

  Lemma bsgn_boundary f c s : boundary f c s -> rbsgn I f = IZR s.
  Proof.
    intros [[H _] _]. unfold bsgn. rewrite filter_andb. fold (on_face f). rewrite H.
    cbn [filter geo tg fst snd]. rewrite Nat.eqb_refl. reflexivity.
  Qed.

  (* ---------------- C12_single_valued ---------------- *)
  Theorem single_valued_theorem f c1 c2 s :
    interior f c1 c2 s ->
    forall j, entry (rflux I) f j =
              rt_full I f * IZR s * ((if (c1 =? j)%nat then 1 else 0) - (if (c2 =? j)%nat then 1 else 0)).
  Proof.
    intros [H [_ Hn]] j. rewrite entry_flux, H. unfold t_flux. rewrite Hn.
    rewrite !lsum_cons, lsum_nil. unfold tc, ts, geo. cbn [fst snd]. rewrite opp_IZR.
    destruct (c1 =? j)%nat, (c2 =? j)%nat; ring.
  Qed.

  (* ---------------- C12_constant_zero ---------------- *)
  Theorem constant_zero_interior f c1 c2 s p0 bv :
    interior f c1 c2 s -> face_flux (fun _ => p0) bv f = 0.
  Proof.
    intros [H [Hb Hn]]. unfold face_flux. rewrite row_apply_flux, H, row_apply_bflux_notin by exact Hb.
    rewrite !lsum_cons, lsum_nil. unfold ts, geo. cbn [fst snd]. rewrite opp_IZR. ring.
  Qed.

  Theorem constant_zero_boundary f c s p0 bv :
    boundary f c s ->
    (neu' R I f = true /\ bv f = 0) \/ (neu' R I f = false /\ dir' R I f = true /\ bv f = p0) ->
    face_flux (fun _ => p0) bv f = 0.
  Proof.
    intros Hb Hbc. pose proof (bsgn_boundary _ _ _ Hb) as Hs. destruct Hb as [[H Hg] [Hin Hnd]].
    unfold face_flux. rewrite row_apply_flux, H, (row_apply_bflux_in bv f Hnd Hin), Hs.
    rewrite !lsum_cons, lsum_nil. unfold ts, geo, t_flux, t_b. cbn [fst snd].
    destruct Hbc as [[Hn Hv]|[Hn [Hd Hv]]]; rewrite Hn, ?Hd, Hv; ring.
  Qed.

  (* ---------------- K-orthogonality ---------------- *)
  (* K (s n_f) is parallel to x_f - x_c and points the same way *)
  Definition korth (e : inc) : Prop :=
    rcross (rknvec I e) (rdvec I e) = (0, 0, 0) /\ 0 < rdot (rknvec I e) (rdvec I e).

  Lemma korth_half e :
    korth e ->
    0 < rhalf I e /\ forall a : rvec, rdot a (rdvec I e) * rhalf I e = rdot a (rknvec I e).
  Proof.
    unfold korth, half_trans. generalize (rknvec I e) as k, (rdvec I e) as d.
    intros [[k1 k2] k3] [[d1 d2] d3]. unfold cross, dot, vx, vy, vz. cbn [fst snd].
    intros [Hc Hp]. injection Hc as C1 C2 C3.
    assert (Hdd : 0 < d1 * d1 + d2 * d2 + d3 * d3).
    { destruct (Req_dec d1 0) as [Z1|Z1]; [|nra]. destruct (Req_dec d2 0) as [Z2|Z2]; [|nra].
      destruct (Req_dec d3 0) as [Z3|Z3]; [|nra]. subst. lra. }
    split.
    - apply Rdiv_lt_0_compat; assumption.
    - intros [[a1 a2] a3]. cbn [fst snd].
      set (kd := k1 * d1 + k2 * d2 + k3 * d3) in *. set (dd := d1 * d1 + d2 * d2 + d3 * d3) in *.
      assert (E1 : d1 * kd = k1 * dd).
      { unfold kd, dd.
        replace (d1 * (k1 * d1 + k2 * d2 + k3 * d3)) with (k1 * d1 * d1 + (k2 * d1) * d2 + (k3 * d1) * d3) by ring.
        replace (k2 * d1) with (k1 * d2) by lra. replace (k3 * d1) with (k1 * d3) by lra. ring. }
      assert (E2 : d2 * kd = k2 * dd).
      { unfold kd, dd.
        replace (d2 * (k1 * d1 + k2 * d2 + k3 * d3)) with ((k1 * d2) * d1 + k2 * d2 * d2 + (k3 * d2) * d3) by ring.
        replace (k1 * d2) with (k2 * d1) by lra. replace (k3 * d2) with (k2 * d3) by lra. ring. }
      assert (E3 : d3 * kd = k3 * dd).
      { unfold kd, dd.
        replace (d3 * (k1 * d1 + k2 * d2 + k3 * d3)) with ((k1 * d3) * d1 + (k2 * d3) * d2 + k3 * d3 * d3) by ring.
        replace (k1 * d3) with (k3 * d1) by lra. replace (k2 * d3) with (k3 * d2) by lra. ring. }
      replace ((a1 * d1 + a2 * d2 + a3 * d3) * (kd / dd))
        with ((a1 * (d1 * kd) + a2 * (d2 * kd) + a3 * (d3 * kd)) / dd) by (field; lra).
      rewrite E1, E2, E3. field. lra.
  Qed.

  Lemma inv_sum_filter f : rinv_sum I f = lsum (fun e => 1 / rhalf I e) (on_face f).
  Proof.
    unfold inv_sum, on_face. rewrite <- lsum_filter. unfold lsum.
    induction (cf I) as [|e l IH]; [reflexivity|]. cbn [fold_right]. rewrite IH.
    destruct (tf e =? f)%nat; [reflexivity|lra].
  Qed.

  Lemma t_full_pos f :
    (forall e, In e (cf I) -> korth e) -> (exists e, In e (cf I) /\ tf e = f) -> 0 < rt_full I f.
  Proof.
    intros Hk [e0 [Hin Hf]]. unfold t_full. rewrite inv_sum_filter.
    apply Rdiv_lt_0_compat; [lra|].
    assert (Hpos : forall e, In e (on_face f) -> 0 < 1 / rhalf I e).
    { intros e He. apply on_face_in in He. destruct He as [He _].
      apply Rdiv_lt_0_compat; [lra|]. apply korth_half. apply Hk. exact He. }
    apply (lsum_pos _ _ e0).
    - intros e He. left. apply Hpos. exact He.
    - apply on_face_in. tauto.
    - apply Hpos. apply on_face_in. tauto.
  Qed.

  Lemma t_flux_nonneg e :
    (forall e, In e (cf I) -> korth e) -> In e (cf I) -> 0 <= rt_flux I (tf e).
  Proof.
    intros Hk Hin. unfold t_flux. destruct (neu' R I (tf e)); [lra|].
    left. apply t_full_pos; [exact Hk|]. exists e. tauto.
  Qed.

  (* ---------------- C12_Mmatrix ---------------- *)
  (* two different cells on one face lie on opposite sides *)
  Definition opp_signs : Prop :=
    forall e e', In e (cf I) -> In e' (cf I) -> tf e = tf e' -> tc e <> tc e' -> (ts e * ts e' <= 0)%Z.
  (* a (face, cell) pair is stored with one sign *)
  Definition one_sign : Prop :=
    forall e e', In e (cf I) -> In e' (cf I) -> tf e = tf e' -> tc e = tc e' -> ts e = ts e'.

  Theorem Mmatrix_theorem :
    (forall e, In e (cf I) -> korth e) -> opp_signs -> one_sign ->
    forall i j,
      (i <> j -> divflux i j <= 0) /\
      0 <= divflux i i /\
      ((exists e, In e (cf I) /\ tc e = i /\ ts e <> 0%Z /\ neu' R I (tf e) = false) ->
       0 < divflux i i).
  Proof.
    intros Hk Hopp Hone i j.
    assert (Hdiag : forall e e', In e (cf I) -> In e' (cf I) -> 0 <= G i i e e').
    { intros e e' He He'. unfold G.
      destruct (Nat.eqb_spec (tc e) i) as [Ei|_]; [|lra].
      destruct (Nat.eqb_spec (tf e') (tf e)) as [Ef|_]; cbn [andb]; [|lra].
      destruct (Nat.eqb_spec (tc e') i) as [Ei'|_]; [|lra].
      rewrite (Hone e' e He' He Ef) by congruence.
      pose proof (t_flux_nonneg e Hk He). nra. }
    split; [|split].
    - intros Hij. rewrite divflux_double. apply lsum_nonpos. intros e He.
      apply lsum_nonpos. intros e' He'. unfold G.
      destruct (Nat.eqb_spec (tc e) i) as [Ei|_]; [|lra].
      destruct (Nat.eqb_spec (tf e') (tf e)) as [Ef|_]; cbn [andb]; [|lra].
      destruct (Nat.eqb_spec (tc e') j) as [Ej|_]; [|lra].
      assert (Hs : (ts e * ts e' <= 0)%Z) by (apply Hopp; try assumption; congruence).
      apply IZR_le in Hs. rewrite mult_IZR in Hs.
      pose proof (t_flux_nonneg e Hk He). nra.
    - rewrite divflux_double. apply lsum_nonneg. intros e He. apply lsum_nonneg. intros e' He'.
      apply Hdiag; assumption.
    - intros [e0 [He0 [Ec [Es Hn]]]]. rewrite divflux_double.
      apply (lsum_pos _ _ e0); [|exact He0|].
      + intros e He. apply lsum_nonneg. intros e' He'. apply Hdiag; assumption.
      + apply (lsum_pos _ _ e0); [intros e' He'; apply Hdiag; assumption | exact He0 |].
        unfold G. rewrite Ec, !Nat.eqb_refl. cbn [andb].
        assert (0 < rt_flux I (tf e0)).
        { unfold t_flux. rewrite Hn. apply t_full_pos; [exact Hk|]. exists e0. tauto. }
        assert (IZR (ts e0) <> 0) by (intros X; apply eq_IZR in X; contradiction).
        assert (0 < IZR (ts e0) * IZR (ts e0)) by nra. nra.
  Qed.

  (* ---------------- C12_linear_exact ---------------- *)
  Lemma dot_vsub (a x y : rvec) : rdot a (rvsub x y) = rdot a x - rdot a y.
  Proof. destruct a as [[a1 a2] a3], x as [[x1 x2] x3], y as [[y1 y2] y3]. unfold dot, vsub, vx, vy, vz. cbn [fst snd]. ring. Qed.

  Lemma dot_knvec (a : rvec) e K0 :
    perm I (tc e) = K0 ->
    rdot a (rknvec I e) = IZR (tgs e) * rdot (rmulmv K0 (normal I (tg e))) a.
  Proof.
    intros HK. unfold knvec, nvec. rewrite HK.
    destruct K0 as [[[[k11 k12] k13] [[k21 k22] k23]] [[k31 k32] k33]].
    destruct (normal I (tg e)) as [[n1 n2] n3]. destruct a as [[a1 a2] a3].
    unfold mulmv, vscale. unfold dot, vx, vy, vz. cbn [fst snd]. ring.
  Qed.

  Definition linear (a : rvec) (b : R) (x : rvec) : R := rdot a x + b.

  (* a.d for the entry e, through K-orthogonality *)
  Lemma lin_diff a b e K0 :
    korth e -> perm I (tc e) = K0 ->
    0 < rhalf I e /\
    (linear a b (fcen I (tg e)) - linear a b (ccen I (tc e))) * rhalf I e
      = IZR (tgs e) * rdot (rmulmv K0 (normal I (tg e))) a.
  Proof.
    intros Hk HK. destruct (korth_half e Hk) as [Hp Hd]. split; [exact Hp|].
    rewrite <- (dot_knvec a e K0 HK), <- Hd. unfold dvec, linear. rewrite dot_vsub. ring.
  Qed.

  Theorem linear_exact_interior a b K0 f c1 c2 s bv :
    interior f c1 c2 s -> (s = 1 \/ s = -1)%Z ->
    korth (geo f c1 s) -> korth (geo f c2 (- s)%Z) -> perm I c1 = K0 -> perm I c2 = K0 ->
    face_flux (fun c => linear a b (ccen I c)) bv f = - rdot (rmulmv K0 (normal I f)) a.
  Proof.
    intros [H [Hb Hn]] Hs K1 K2 P1 P2.
    destruct (lin_diff a b _ K0 K1 P1) as [Hp1 D1]. destruct (lin_diff a b _ K0 K2 P2) as [Hp2 D2].
    unfold tf, tc, ts, tg, tgs, geo in D1, D2. cbn [fst snd] in D1, D2. unfold geo in Hp1, Hp2.
    unfold face_flux. rewrite row_apply_flux, H, row_apply_bflux_notin by exact Hb.
    rewrite !lsum_cons, lsum_nil. unfold t_flux, t_full. rewrite Hn, inv_sum_filter, H.
    rewrite !lsum_cons, lsum_nil. unfold tc, ts, geo. cbn [fst snd].
    set (h1 := rhalf I (f, c1, s, f, s)) in *. set (h2 := rhalf I (f, c2, (- s)%Z, f, (- s)%Z)) in *.
    set (X := rdot (rmulmv K0 (normal I f)) a) in *.
    set (pf := linear a b (fcen I f)) in *.
    set (p1 := linear a b (ccen I c1)) in *. set (p2 := linear a b (ccen I c2)) in *.
    assert (E1 : p1 = pf - IZR s * X / h1).
    { apply (Rmult_eq_reg_r h1); [|lra]. replace ((pf - IZR s * X / h1) * h1) with (pf * h1 - IZR s * X) by (field; lra). lra. }
    assert (E2 : p2 = pf - IZR (- s) * X / h2).
    { apply (Rmult_eq_reg_r h2); [|lra]. replace ((pf - IZR (- s) * X / h2) * h2) with (pf * h2 - IZR (- s) * X) by (field; lra). lra. }
    rewrite E1, E2. destruct Hs as [-> | ->]; cbn [Z.opp Pos.pred_double]; field; lra.
  Qed.

  Theorem linear_exact_dirichlet a b K0 f c s bv :
    boundary f c s -> (s = 1 \/ s = -1)%Z ->
    neu' R I f = false -> dir' R I f = true ->
    korth (geo f c s) -> perm I c = K0 -> bv f = linear a b (fcen I f) ->
    face_flux (fun c => linear a b (ccen I c)) bv f = - rdot (rmulmv K0 (normal I f)) a.
  Proof.
    intros Hbd Hs Hn Hd K1 P1 Hv. pose proof (bsgn_boundary _ _ _ Hbd) as Hsg.
    destruct Hbd as [[H Hg] [Hin Hnd]].
    destruct (lin_diff a b _ K0 K1 P1) as [Hp1 D1]. unfold tf, tc, ts, tg, tgs, geo in D1. cbn [fst snd] in D1. unfold geo in Hp1.
    unfold face_flux. rewrite row_apply_flux, H, (row_apply_bflux_in bv f Hnd Hin), Hsg, Hv.
    rewrite !lsum_cons, lsum_nil. unfold t_flux, t_b, t_full. rewrite Hn, Hd, inv_sum_filter, H.
    rewrite !lsum_cons, lsum_nil. unfold tc, ts, geo. cbn [fst snd].
    set (h1 := rhalf I (f, c, s, f, s)) in *. set (X := rdot (rmulmv K0 (normal I f)) a) in *.
    set (pf := linear a b (fcen I f)) in *. set (p1 := linear a b (ccen I c)) in *.
    assert (E1 : p1 = pf - IZR s * X / h1).
    { apply (Rmult_eq_reg_r h1); [|lra]. replace ((pf - IZR s * X / h1) * h1) with (pf * h1 - IZR s * X) by (field; lra). lra. }
    rewrite E1. destruct Hs as [-> | ->]; field; lra.
  Qed.

  (* Neumann data = outward flux: bv f = s * (-(K n).a) *)
  Theorem linear_exact_neumann a b K0 f c s bv :
    boundary f c s -> (s = 1 \/ s = -1)%Z -> neu' R I f = true ->
    bv f = IZR s * (- rdot (rmulmv K0 (normal I f)) a) ->
    face_flux (fun c => linear a b (ccen I c)) bv f = - rdot (rmulmv K0 (normal I f)) a.
  Proof.
    intros Hbd Hs Hn Hv. pose proof (bsgn_boundary _ _ _ Hbd) as Hsg.
    destruct Hbd as [[H Hg] [Hin Hnd]].
    unfold face_flux. rewrite row_apply_flux, H, (row_apply_bflux_in bv f Hnd Hin), Hsg, Hv.
    rewrite !lsum_cons, lsum_nil. unfold t_flux, t_b. rewrite Hn.
    destruct Hs as [-> | ->]; ring.
  Qed.

  (* ---------------- C12_bound_pressure ---------------- *)
  Lemma row_apply_bpc p f :
    row_apply (rbpc I) p f = lsum (fun e => (if is_neu I f then 1 else 0) * p (tc e)) (geo_face f).
  Proof.
    unfold row_apply, bound_pressure_cell, geo_face. rewrite lsum_map, <- lsum_filter.
    apply lsum_ext. intros e _. unfold mrow, mcol, mval. cbn [fst snd].
    destruct (Nat.eqb_spec (tg e) f) as [->|_]; reflexivity.
  Qed.

  Lemma row_apply_bpf bv f : (f < nf I)%nat -> row_apply (rbpf I) bv f = rv_face I f * bv f.
  Proof.
    intros Hf. unfold row_apply, bound_pressure_face. rewrite lsum_map.
    unfold mrow, mcol, mval. cbn [fst snd].
    apply (lsum_diag_at (fun g => rv_face I g * bv g) f); [apply seq_NoDup | apply in_seq; lia].
  Qed.

  Theorem bound_pressure_dirichlet p bv f c s :
    boundary f c s -> (f < nf I)%nat -> is_neu I f = false -> is_dir I f = true ->
    face_pressure p bv f = bv f.
  Proof.
    intros [[H Hg] _] Hf Hn Hd. unfold face_pressure. rewrite row_apply_bpc, Hg, row_apply_bpf by exact Hf.
    rewrite lsum_cons, lsum_nil. unfold v_face. rewrite Hn, Hd. ring.
  Qed.

  Theorem bound_pressure_neumann a b K0 f c s bv :
    boundary f c s -> (f < nf I)%nat -> (s = 1 \/ s = -1)%Z -> is_neu I f = true ->
    korth (geo f c s) -> perm I c = K0 ->
    bv f = IZR s * (- rdot (rmulmv K0 (normal I f)) a) ->
    face_pressure (fun c => linear a b (ccen I c)) bv f = linear a b (fcen I f).
  Proof.
    intros [[H Hg] _] Hf Hs Hn K1 P1 Hv.
    destruct (lin_diff a b _ K0 K1 P1) as [Hp1 D1]. unfold tf, tc, ts, tg, tgs, geo in D1. cbn [fst snd] in D1. unfold geo in Hp1.
    unfold face_pressure. rewrite row_apply_bpc, Hg, row_apply_bpf by exact Hf.
    rewrite lsum_cons, lsum_nil. unfold v_face, t_full. rewrite Hn, inv_sum_filter, H, Hv.
    rewrite lsum_cons, lsum_nil. unfold tc, geo. cbn [fst snd].
    set (h1 := rhalf I (f, c, s, f, s)) in *. set (X := rdot (rmulmv K0 (normal I f)) a) in *.
    set (pf := linear a b (fcen I f)) in *. set (p1 := linear a b (ccen I c)) in *.
    assert (E1 : p1 = pf - IZR s * X / h1).
    { apply (Rmult_eq_reg_r h1); [|lra]. replace ((pf - IZR s * X / h1) * h1) with (pf * h1 - IZR s * X) by (field; lra). lra. }
    rewrite E1. destruct Hs as [-> | ->]; field; lra.
  Qed.
  (* ---------------- periodic pairs ---------------- *)
  (* faces l and r are identified: l carries its own cell and, through the extension, the
     cell of r with r's geometry (and vice versa) *)
  Definition periodic_pair (l r cl cr : nat) (sl sr : Z) : Prop :=
    on_face l = [geo l cl sl; (l, cr, (- sl)%Z, r, sr)] /\
    on_face r = [geo r cr sr; (r, cl, (- sr)%Z, l, sl)] /\
    neu' R I l = false /\ neu' R I r = false.

  Theorem periodic_pair_theorem l r cl cr sl sr :
    periodic_pair l r cl cr sl sr ->
    rt_full I l = rt_full I r /\
    (forall j, entry (rflux I) l j =
               rt_full I l * IZR sl * ((if (cl =? j)%nat then 1 else 0) - (if (cr =? j)%nat then 1 else 0))) /\
    (forall j, entry (rflux I) r j =
               rt_full I l * IZR sr * ((if (cr =? j)%nat then 1 else 0) - (if (cl =? j)%nat then 1 else 0))) /\
    ((sl = 1 \/ sl = -1)%Z -> (sr = 1 \/ sr = -1)%Z ->
     forall j, IZR sl * entry (rflux I) l j + IZR sr * entry (rflux I) r j = 0).
  Proof.
    intros [Hl [Hr [Nl Nr]]].
    assert (ET : rt_full I l = rt_full I r).
    { unfold t_full. rewrite !inv_sum_filter, Hl, Hr. rewrite !lsum_cons, !lsum_nil.
      change (rhalf I (l, cr, (- sl)%Z, r, sr)) with (rhalf I (geo r cr sr)).
      change (rhalf I (r, cl, (- sr)%Z, l, sl)) with (rhalf I (geo l cl sl)).
      f_equal. lra. }
    assert (E1 : forall j, entry (rflux I) l j =
               rt_full I l * IZR sl * ((if (cl =? j)%nat then 1 else 0) - (if (cr =? j)%nat then 1 else 0))).
    { intros j. rewrite entry_flux, Hl. unfold t_flux. rewrite Nl.
      rewrite !lsum_cons, lsum_nil. unfold tc, ts, geo. cbn [fst snd]. rewrite opp_IZR.
      destruct (cl =? j)%nat, (cr =? j)%nat; ring. }
    assert (E2 : forall j, entry (rflux I) r j =
               rt_full I l * IZR sr * ((if (cr =? j)%nat then 1 else 0) - (if (cl =? j)%nat then 1 else 0))).
    { intros j. rewrite entry_flux, Hr. unfold t_flux. rewrite Nr, <- ET.
      rewrite !lsum_cons, lsum_nil. unfold tc, ts, geo. cbn [fst snd]. rewrite opp_IZR.
      destruct (cl =? j)%nat, (cr =? j)%nat; ring. }
    split; [exact ET|]. split; [exact E1|]. split; [exact E2|].
    intros Hsl Hsr j. rewrite E1, E2.
    destruct Hsl as [-> | ->], Hsr as [-> | ->]; ring.
  Qed.
End Real.

Lemma discretize_components (I : input R) :
  rdiscretize I =
  if (dim I =? 0)%nat then ([], [], [], [])
  else (rflux I, rbound_flux I, rbpc I, rbpf I).
Proof. reflexivity. Qed.
