(* C15 — proofs (over exact rationals). *)
From Coq Require Import List ZArith QArith Qabs Bool Arith Lia Lqa.
Import ListNotations.
From PP Require Import Lib.RowLin Model.C15.
Local Open Scope Q_scope.

(* ------------------------------------------------------------------ face-sum divergence *)
Lemma div_u_identity : forall fs A b,
  face_div fs A b ==
    cmp 0 (mrow 0 A) * Mom fs 0 0 + cmp 1 (mrow 0 A) * Mom fs 0 1 + cmp 2 (mrow 0 A) * Mom fs 0 2
  + cmp 0 (mrow 1 A) * Mom fs 1 0 + cmp 1 (mrow 1 A) * Mom fs 1 1 + cmp 2 (mrow 1 A) * Mom fs 1 2
  + cmp 0 (mrow 2 A) * Mom fs 2 0 + cmp 1 (mrow 2 A) * Mom fs 2 1 + cmp 2 (mrow 2 A) * Mom fs 2 2
  + cmp 0 b * Nrm fs 0 + cmp 1 b * Nrm fs 1 + cmp 2 b * Nrm fs 2.
Proof.
  intros fs A b. unfold face_div, Mom, Nrm.
  induction fs as [|f fs IH]; cbn [fsum]; [ring|].
  rewrite IH.
  destruct f as [[s [[n0 n1] n2]] [[y0 y1] y2]].
  destruct A as [[[[a00 a01] a02] [[a10 a11] a12]] [[a20 a21] a22]].
  destruct b as [[b0 b1] b2].
  unfold vdot, vadd, mulmv, cmp, mrow, f_s, f_n, f_x, x0, x1, x2. cbn [fst snd]. ring.
Qed.

Lemma div_u_3d : forall fs A b V,
  (forall i, (i < 3)%nat -> Nrm fs i == 0) ->
  (forall i j, (i < 3)%nat -> (j < 3)%nat -> Mom fs i j == if Nat.eqb i j then V else 0) ->
  face_div fs A b == trace A * V.
Proof.
  intros fs A b V HN HM. rewrite div_u_identity.
  rewrite !HN by lia. rewrite !HM by lia. cbn [Nat.eqb].
  destruct A as [[[[a00 a01] a02] [[a10 a11] a12]] [[a20 a21] a22]].
  unfold trace, cmp, mrow, x0, x1, x2. cbn [fst snd]. ring.
Qed.

(* 2-D: the field and the geometry have no third component *)
Lemma div_u_2d : forall fs a00 a01 a10 a11 b0 b1 V,
  (forall i, (i < 2)%nat -> Nrm fs i == 0) ->
  (forall i j, (i < 2)%nat -> (j < 2)%nat -> Mom fs i j == if Nat.eqb i j then V else 0) ->
  face_div fs ((a00, a01, 0), (a10, a11, 0), (0, 0, 0)) (b0, b1, 0) == (a00 + a11) * V.
Proof.
  intros fs a00 a01 a10 a11 b0 b1 V HN HM. rewrite div_u_identity.
  rewrite (HN 0%nat), (HN 1%nat) by lia.
  rewrite (HM 0%nat 0%nat), (HM 0%nat 1%nat), (HM 1%nat 0%nat), (HM 1%nat 1%nat) by lia.
  cbn [Nat.eqb]. unfold cmp, mrow, x0, x1, x2. cbn [fst snd]. ring.
Qed.

(* ------------------------------------------------------------------ rows on linear fields *)
Lemma linear_fields : forall I r g theta,
  length theta = nparam I ->
  (forall m, (m < nparam I)%nat -> rdot r (basis I m) == g m) ->
  rdot r (ustate I theta) == tsum 0 theta g.
Proof.
  intros I r g theta Hlen H. unfold ustate. apply lin_exact.
  intros m Hm. apply H. lia.
Qed.

Lemma trace_target_2d : forall I c a00 a01 a10 a11 b0 b1,
  i_nd I = 2%nat ->
  tsum 0 [a00; a01; a10; a11; b0; b1] (div_target I c)
  == i_alpha I * (a00 + a11) * nth c (i_vols I) 0.
Proof.
  intros I c a00 a01 a10 a11 b0 b1 Hnd. unfold tsum, div_target. rewrite Hnd.
  change (0 <? 2 * 2)%nat with true. change (1 <? 2 * 2)%nat with true.
  change (2 <? 2 * 2)%nat with true. change (3 <? 2 * 2)%nat with true.
  change (4 <? 2 * 2)%nat with false. change (5 <? 2 * 2)%nat with false.
  change (0 / 2 =? 0 mod 2)%nat with true. change (1 / 2 =? 1 mod 2)%nat with false.
  change (2 / 2 =? 2 mod 2)%nat with false. change (3 / 2 =? 3 mod 2)%nat with true.
  cbv iota. ring.
Qed.

Lemma trace_target_3d : forall I c a00 a01 a02 a10 a11 a12 a20 a21 a22 b0 b1 b2,
  i_nd I = 3%nat ->
  tsum 0 [a00; a01; a02; a10; a11; a12; a20; a21; a22; b0; b1; b2] (div_target I c)
  == i_alpha I * (a00 + a11 + a22) * nth c (i_vols I) 0.
Proof.
  intros I c a00 a01 a02 a10 a11 a12 a20 a21 a22 b0 b1 b2 Hnd. unfold tsum, div_target. rewrite Hnd.
  change (0 <? 3 * 3)%nat with true. change (1 <? 3 * 3)%nat with true.
  change (2 <? 3 * 3)%nat with true. change (3 <? 3 * 3)%nat with true.
  change (4 <? 3 * 3)%nat with true. change (5 <? 3 * 3)%nat with true.
  change (6 <? 3 * 3)%nat with true. change (7 <? 3 * 3)%nat with true.
  change (8 <? 3 * 3)%nat with true. change (9 <? 3 * 3)%nat with false.
  change (10 <? 3 * 3)%nat with false. change (11 <? 3 * 3)%nat with false.
  change (0 / 3 =? 0 mod 3)%nat with true. change (1 / 3 =? 1 mod 3)%nat with false.
  change (2 / 3 =? 2 mod 3)%nat with false. change (3 / 3 =? 3 mod 3)%nat with false.
  change (4 / 3 =? 4 mod 3)%nat with true. change (5 / 3 =? 5 mod 3)%nat with false.
  change (6 / 3 =? 6 mod 3)%nat with false. change (7 / 3 =? 7 mod 3)%nat with false.
  change (8 / 3 =? 8 mod 3)%nat with true.
  cbv iota. ring.
Qed.

Lemma linear_fields_2d : forall I c a00 a01 a10 a11 b0 b1,
  i_nd I = 2%nat ->
  (forall m, (m < nparam I)%nat ->
     rdot (nth c (i_drows I) []) (basis I m) == div_target I c m) ->
  rdot (nth c (i_drows I) []) (ustate I [a00; a01; a10; a11; b0; b1])
  == i_alpha I * (a00 + a11) * nth c (i_vols I) 0.
Proof.
  intros I c a00 a01 a10 a11 b0 b1 Hnd H.
  rewrite (linear_fields I _ (div_target I c)); [apply trace_target_2d; exact Hnd| |exact H].
  unfold nparam. rewrite Hnd. reflexivity.
Qed.

Lemma linear_fields_3d : forall I c a00 a01 a02 a10 a11 a12 a20 a21 a22 b0 b1 b2,
  i_nd I = 3%nat ->
  (forall m, (m < nparam I)%nat ->
     rdot (nth c (i_drows I) []) (basis I m) == div_target I c m) ->
  rdot (nth c (i_drows I) []) (ustate I [a00; a01; a02; a10; a11; a12; a20; a21; a22; b0; b1; b2])
  == i_alpha I * (a00 + a11 + a22) * nth c (i_vols I) 0.
Proof.
  intros I c a00 a01 a02 a10 a11 a12 a20 a21 a22 b0 b1 b2 Hnd H.
  rewrite (linear_fields I _ (div_target I c)); [apply trace_target_3d; exact Hnd| |exact H].
  unfold nparam. rewrite Hnd. reflexivity.
Qed.

(* what the sampled state is: u_k = sum_l A_kl x_l + b_k at the point of the column *)
Lemma ustate_is_linear_field_2d : forall I j a00 a01 a10 a11 b0 b1,
  i_nd I = 2%nat ->
  ustate I [a00; a01; a10; a11; b0; b1] j ==
    if col_active I j then
      match col_comp I j with
      | 0%nat => a00 * col_x I j 0 + a01 * col_x I j 1 + b0
      | 1%nat => a10 * col_x I j 0 + a11 * col_x I j 1 + b1
      | _ => 0
      end
    else 0.
Proof.
  intros I j a00 a01 a10 a11 b0 b1 Hnd.
  unfold ustate, lin_state, tsum, basis. rewrite Hnd.
  change (0 <? 2 * 2)%nat with true. change (1 <? 2 * 2)%nat with true.
  change (2 <? 2 * 2)%nat with true. change (3 <? 2 * 2)%nat with true.
  change (4 <? 2 * 2)%nat with false. change (5 <? 2 * 2)%nat with false.
  change (0 / 2)%nat with 0%nat. change (1 / 2)%nat with 0%nat.
  change (2 / 2)%nat with 1%nat. change (3 / 2)%nat with 1%nat.
  change (0 mod 2)%nat with 0%nat. change (1 mod 2)%nat with 1%nat.
  change (2 mod 2)%nat with 0%nat. change (3 mod 2)%nat with 1%nat.
  change (4 - 2 * 2)%nat with 0%nat. change (5 - 2 * 2)%nat with 1%nat.
  destruct (col_active I j); [|ring].
  destruct (col_comp I j) as [|[|k]]; cbn [Nat.eqb]; ring.
Qed.

Lemma ustate_is_linear_field_3d : forall I j a00 a01 a02 a10 a11 a12 a20 a21 a22 b0 b1 b2,
  i_nd I = 3%nat ->
  ustate I [a00; a01; a02; a10; a11; a12; a20; a21; a22; b0; b1; b2] j ==
    if col_active I j then
      match col_comp I j with
      | 0%nat => a00 * col_x I j 0 + a01 * col_x I j 1 + a02 * col_x I j 2 + b0
      | 1%nat => a10 * col_x I j 0 + a11 * col_x I j 1 + a12 * col_x I j 2 + b1
      | 2%nat => a20 * col_x I j 0 + a21 * col_x I j 1 + a22 * col_x I j 2 + b2
      | _ => 0
      end
    else 0.
Proof.
  intros I j a00 a01 a02 a10 a11 a12 a20 a21 a22 b0 b1 b2 Hnd.
  unfold ustate, lin_state, tsum, basis. rewrite Hnd.
  change (0 <? 3 * 3)%nat with true. change (1 <? 3 * 3)%nat with true.
  change (2 <? 3 * 3)%nat with true. change (3 <? 3 * 3)%nat with true.
  change (4 <? 3 * 3)%nat with true. change (5 <? 3 * 3)%nat with true.
  change (6 <? 3 * 3)%nat with true. change (7 <? 3 * 3)%nat with true.
  change (8 <? 3 * 3)%nat with true. change (9 <? 3 * 3)%nat with false.
  change (10 <? 3 * 3)%nat with false. change (11 <? 3 * 3)%nat with false.
  change (0 / 3)%nat with 0%nat. change (1 / 3)%nat with 0%nat. change (2 / 3)%nat with 0%nat.
  change (3 / 3)%nat with 1%nat. change (4 / 3)%nat with 1%nat. change (5 / 3)%nat with 1%nat.
  change (6 / 3)%nat with 2%nat. change (7 / 3)%nat with 2%nat. change (8 / 3)%nat with 2%nat.
  change (0 mod 3)%nat with 0%nat. change (1 mod 3)%nat with 1%nat. change (2 mod 3)%nat with 2%nat.
  change (3 mod 3)%nat with 0%nat. change (4 mod 3)%nat with 1%nat. change (5 mod 3)%nat with 2%nat.
  change (6 mod 3)%nat with 0%nat. change (7 mod 3)%nat with 1%nat. change (8 mod 3)%nat with 2%nat.
  change (9 - 3 * 3)%nat with 0%nat. change (10 - 3 * 3)%nat with 1%nat.
  change (11 - 3 * 3)%nat with 2%nat.
  destruct (col_active I j); [|ring].
  destruct (col_comp I j) as [|[|[|k]]]; cbn [Nat.eqb]; ring.
Qed.

(* ------------------------------------------------------------------ constant pressure *)
Lemma rdot_const : forall r p, rdot r (fun _ => p) == p * rdot r ones.
Proof.
  intros r p. induction r as [|[j a] r IH]; cbn [rdot fst snd]; [ring|].
  rewrite IH. unfold ones. ring.
Qed.

Lemma grad_p : forall r p alpha n,
  rdot r ones == - alpha * n -> rdot r (fun _ => p) == - alpha * p * n.
Proof. intros r p alpha n H. rewrite rdot_const, H. ring. Qed.

(* ------------------------------------------------------------------ the checkers *)
Definition div_bound (tol : Q) (I : inst) (c : nat) (theta : list Q) : Q :=
  tsum 0 (map Qabs theta) (fun m => tol * (1 + rabs (nth c (i_drows I) []) (basis I m))).

Lemma certificate_sound : forall tol I,
  check tol I = true ->
  (forall c theta, (c < i_nc I)%nat -> length theta = nparam I ->
     Qabs (rdot (nth c (i_drows I) []) (ustate I theta) - tsum 0 theta (div_target I c))
     <= div_bound tol I c theta)
  /\ (forall q p, (q < i_nd I * i_nf I)%nat ->
     Qabs (rdot (nth q (i_grows I) []) (fun _ => p) - p * grad_target I q)
     <= Qabs p * (tol * (1 + rabs (nth q (i_grows I) []) ones))).
Proof.
  intros tol I H. unfold check in H.
  apply andb_prop in H. destruct H as [H Hgeo].
  apply andb_prop in H. destruct H as [H Hgrad].
  apply andb_prop in H. destruct H as [Hshape Hdiv].
  split.
  - intros c theta Hc Hlen. unfold div_bound, ustate.
    apply lin_quant. intros m Hm.
    unfold div_ok in Hdiv. rewrite forallb_forall in Hdiv.
    assert (Hin : In c (seq 0 (i_nc I))) by (apply in_seq; lia).
    specialize (Hdiv c Hin). rewrite forallb_forall in Hdiv.
    apply near_sound. apply Hdiv. apply in_seq. lia.
  - intros q p Hq.
    unfold grad_ok in Hgrad. rewrite forallb_forall in Hgrad.
    assert (Hin : In q (seq 0 (i_nd I * i_nf I))) by (apply in_seq; lia).
    pose proof (near_sound _ _ _ _ (Hgrad q Hin)) as H1.
    rewrite rdot_const.
    setoid_replace (p * rdot (nth q (i_grows I) []) ones - p * grad_target I q)
      with (p * (rdot (nth q (i_grows I) []) ones - grad_target I q)) by ring.
    rewrite Qabs_Qmult.
    pose proof (Qabs_nonneg p) as H2.
    revert H1 H2.
    generalize (Qabs p) (Qabs (rdot (nth q (i_grows I) []) ones - grad_target I q))
               (tol * (1 + rabs (nth q (i_grows I) []) ones)).
    intros ap d e H1 H2. nra.
Qed.

Lemma exact_certificates : forall I,
  div_ok 0 I = true -> grad_ok 0 I = true ->
  (forall c m, (c < i_nc I)%nat -> (m < nparam I)%nat ->
     rdot (nth c (i_drows I) []) (basis I m) == div_target I c m)
  /\ (forall q, (q < i_nd I * i_nf I)%nat ->
     rdot (nth q (i_grows I) []) ones == grad_target I q).
Proof.
  intros I Hdiv Hgrad. split.
  - intros c m Hc Hm. unfold div_ok in Hdiv. rewrite forallb_forall in Hdiv.
    assert (Hin : In c (seq 0 (i_nc I))) by (apply in_seq; lia).
    specialize (Hdiv c Hin). rewrite forallb_forall in Hdiv.
    eapply near_zero_exact. apply Hdiv. apply in_seq. lia.
  - intros q Hq. unfold grad_ok in Hgrad. rewrite forallb_forall in Hgrad.
    eapply near_zero_exact. apply Hgrad. apply in_seq. lia.
Qed.

(* ------------------------------------------------------------------ a concrete instance:
   the real pp.Biot matrices on CartGrid([2, 1]) (2 cells, 7 faces), mu = 1, lambda = 2,
   alpha = 1/2, all boundary faces Dirichlet.  Every entry is dyadic and the certificates
   hold exactly (tolerance 0). *)
Definition ex_inst : inst :=
(mk_inst 2%nat 2%nat 7%nat (1 # 2) [[(1 # 2); (1 # 2)]; [(3 # 2); (1 # 2)]] [[(0 # 1); (1 # 2)]; [(1
# 1); (1 # 2)]; [(2 # 1); (1 # 2)]; [(1 # 2); (0 # 1)]; [(3 # 2); (0 # 1)]; [(1 # 2); (1 # 1)]; [(3
# 2); (1 # 1)]] [[(1 # 1); (0 # 1)]; [(1 # 1); (0 # 1)]; [(1 # 1); (0 # 1)]; [(0 # 1); (1 # 1)]; [(0
# 1); (1 # 1)]; [(0 # 1); (1 # 1)]; [(0 # 1); (1 # 1)]] [(1 # 1); (1 # 1)] [[(0%nat, ((-1) # 1));
(1%nat, (1 # 1)); (3%nat, ((-1) # 1)); (5%nat, (1 # 1))]; [(1%nat, ((-1) # 1)); (2%nat, (1 # 1));
(4%nat, ((-1) # 1)); (6%nat, (1 # 1))]] [true; false; true; true; true; true; true] true [[(0%nat,
(1 # 4)); (2%nat, (1 # 4)); (4%nat, ((-1) # 2)); (11%nat, ((-7) # 16)); (13%nat, ((-1) # 16));
(15%nat, (7 # 16)); (17%nat, (1 # 16))]; [(0%nat, ((-1) # 4)); (2%nat, ((-1) # 4)); (8%nat, (1 #
2)); (11%nat, ((-1) # 16)); (13%nat, ((-7) # 16)); (15%nat, (1 # 16)); (17%nat, (7 # 16))]]
[[(0%nat, ((-1) # 2))]; []; [(0%nat, ((-1) # 4)); (1%nat, ((-1) # 4))]; []; [(1%nat, ((-1) # 2))];
[]; []; [(0%nat, ((-7) # 16)); (1%nat, ((-1) # 16))]; []; [(0%nat, ((-1) # 16)); (1%nat, ((-7) #
16))]; []; [(0%nat, ((-7) # 16)); (1%nat, ((-1) # 16))]; []; [(0%nat, ((-1) # 16)); (1%nat, ((-7) #
16))]]).

Lemma ex_inst_check : check 0 ex_inst = true.
Proof. vm_compute. reflexivity. Qed.

(* the unit square as a list of signed faces: (sign, normal, centre) *)
Definition ex_square : list face :=
  [(-(1), (1, 0, 0), (0, 1 # 2, 0)); (1, (1, 0, 0), (1, 1 # 2, 0));
   (-(1), (0, 1, 0), (1 # 2, 0, 0)); (1, (0, 1, 0), (1 # 2, 1, 0))].
