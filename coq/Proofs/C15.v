(* C15 — proofs (over exact rationals). *)
From Coq Require Import List ZArith QArith Qabs Bool Arith Lia Lqa.
Import ListNotations.
From PP Require Import Lib.RowLin Model.C15.
Local Open Scope Q_scope.

(* ------------------------------------------------------------------ face-sum divergence *)
Lemma div_u_identity : forall fs A b,
  face_div fs A b ==
    cmp 0 (mrow 0 A) * Mom fs 0 0 + cmp 1 (mrow 0 A) * Mom fs 0 1 + cmp 2 (mrow 0 A) * Mom fs 0 2
  + cmp 0 (mrow 1 A) * Mom fs 1 0 + cmp 1 (mrow 1 A) * Mom fs 1 1 + cmp 2 (mrow 1 A) * Mom fs 1 2
  + cmp 0 (mrow 2 A) * Mom fs 2 0 + cmp 1 (mrow 2 A) * Mom fs 2 1 + cmp 2 (mrow 2 A) * Mom fs 2 2
  + cmp 0 b * Nrm fs 0 + cmp 1 b * Nrm fs 1 + cmp 2 b * Nrm fs 2.
Proof.
  intros fs A b. unfold face_div, Mom, Nrm.
  induction fs as [|f fs IH]; cbn [fsum]; [ring|].
  rewrite IH.
  destruct f as [[s [[n0 n1] n2]] [[y0 y1] y2]].
  destruct A as [[[[a00 a01] a02] [[a10 a11] a12]] [[a20 a21] a22]].
  destruct b as [[b0 b1] b2].
  unfold vdot, vadd, mulmv, cmp, mrow, f_s, f_n, f_x, x0, x1, x2. cbn [fst snd]. ring.
Qed.

Lemma div_u_3d : forall fs A b V,
  (forall i, (i < 3)%nat -> Nrm fs i == 0) ->
  (forall i j, (i < 3)%nat -> (j < 3)%nat -> Mom fs i j == if Nat.eqb i j then V else 0) ->
  face_div fs A b == trace A * V.
Proof.
  intros fs A b V HN HM. rewrite div_u_identity.
  rewrite !HN by lia. rewrite !HM by lia. cbn [Nat.eqb].
  destruct A as [[[[a00 a01] a02] [[a10 a11] a12]] [[a20 a21] a22]].
  unfold trace, cmp, mrow, x0, x1, x2. cbn [fst snd]. ring.
Qed.

(* 2-D: the field and the geometry have no third component *)
Lemma div_u_2d : forall fs a00 a01 a10 a11 b0 b1 V,
  (forall i, (i < 2)%nat -> Nrm fs i == 0) ->
  (forall i j, (i < 2)%nat -> (j < 2)%nat -> Mom fs i j == if Nat.eqb i j then V else 0) ->
  face_div fs ((a00, a01, 0), (a10, a11, 0), (0, 0, 0)) (b0, b1, 0) == (a00 + a11) * V.
Proof.
  intros fs a00 a01 a10 a11 b0 b1 V HN HM. rewrite div_u_identity.
  rewrite (HN 0%nat), (HN 1%nat) by lia.
  rewrite (HM 0%nat 0%nat), (HM 0%nat 1%nat), (HM 1%nat 0%nat), (HM 1%nat 1%nat) by lia.
  cbn [Nat.eqb]. unfold cmp, mrow, x0, x1, x2. cbn [fst snd]. ring.
Qed.

(* ------------------------------------------------------------------ rows on linear fields *)
Lemma linear_fields : forall I r g theta,
  length theta = nparam I ->
  (forall m, (m < nparam I)%nat -> rdot r (basis I m) == g m) ->
  rdot r (ustate I theta) == tsum 0 theta g.
Proof.
  intros I r g theta Hlen H. unfold ustate. apply lin_exact.
  intros m Hm. apply H. lia.
Qed.

Lemma trace_target_2d : forall I c a00 a01 a10 a11 b0 b1,
  i_nd I = 2%nat ->
  tsum 0 [a00; a01; a10; a11; b0; b1] (div_target I c)
  == (al I 0 0 * a00 + al I 0 1 * a01 + al I 1 0 * a10 + al I 1 1 * a11) * nth c (i_vols I) 0.
Proof.
  intros I c a00 a01 a10 a11 b0 b1 Hnd. unfold tsum, div_target. rewrite Hnd.
  change (0 <? 2 * 2)%nat with true. change (1 <? 2 * 2)%nat with true.
  change (2 <? 2 * 2)%nat with true. change (3 <? 2 * 2)%nat with true.
  change (4 <? 2 * 2)%nat with false. change (5 <? 2 * 2)%nat with false.
  change (0 / 2)%nat with 0%nat. change (1 / 2)%nat with 0%nat.
  change (2 / 2)%nat with 1%nat. change (3 / 2)%nat with 1%nat.
  change (0 mod 2)%nat with 0%nat. change (1 mod 2)%nat with 1%nat.
  change (2 mod 2)%nat with 0%nat. change (3 mod 2)%nat with 1%nat.
  cbv iota. ring.
Qed.

Lemma trace_target_3d : forall I c a00 a01 a02 a10 a11 a12 a20 a21 a22 b0 b1 b2,
  i_nd I = 3%nat ->
  tsum 0 [a00; a01; a02; a10; a11; a12; a20; a21; a22; b0; b1; b2] (div_target I c)
  == (al I 0 0 * a00 + al I 0 1 * a01 + al I 0 2 * a02
      + al I 1 0 * a10 + al I 1 1 * a11 + al I 1 2 * a12
      + al I 2 0 * a20 + al I 2 1 * a21 + al I 2 2 * a22) * nth c (i_vols I) 0.
Proof.
  intros I c a00 a01 a02 a10 a11 a12 a20 a21 a22 b0 b1 b2 Hnd. unfold tsum, div_target. rewrite Hnd.
  change (0 <? 3 * 3)%nat with true. change (1 <? 3 * 3)%nat with true.
  change (2 <? 3 * 3)%nat with true. change (3 <? 3 * 3)%nat with true.
  change (4 <? 3 * 3)%nat with true. change (5 <? 3 * 3)%nat with true.
  change (6 <? 3 * 3)%nat with true. change (7 <? 3 * 3)%nat with true.
  change (8 <? 3 * 3)%nat with true. change (9 <? 3 * 3)%nat with false.
  change (10 <? 3 * 3)%nat with false. change (11 <? 3 * 3)%nat with false.
  change (0 / 3)%nat with 0%nat. change (1 / 3)%nat with 0%nat. change (2 / 3)%nat with 0%nat.
  change (3 / 3)%nat with 1%nat. change (4 / 3)%nat with 1%nat. change (5 / 3)%nat with 1%nat.
  change (6 / 3)%nat with 2%nat. change (7 / 3)%nat with 2%nat. change (8 / 3)%nat with 2%nat.
  change (0 mod 3)%nat with 0%nat. change (1 mod 3)%nat with 1%nat. change (2 mod 3)%nat with 2%nat.
  change (3 mod 3)%nat with 0%nat. change (4 mod 3)%nat with 1%nat. change (5 mod 3)%nat with 2%nat.
  change (6 mod 3)%nat with 0%nat. change (7 mod 3)%nat with 1%nat. change (8 mod 3)%nat with 2%nat.
  cbv iota. ring.
Qed.

(* scalar coupling coefficient a: alpha = a * I on the nd x nd block *)
Definition scalar_alpha (I : inst) (a : Q) : Prop :=
  forall k l, (k < i_nd I)%nat -> (l < i_nd I)%nat -> al I k l == if Nat.eqb k l then a else 0.

Lemma linear_fields_2d : forall I c a00 a01 a10 a11 b0 b1,
  i_nd I = 2%nat ->
  (forall m, (m < nparam I)%nat ->
     rdot (nth c (i_drows I) []) (basis I m) == div_target I c m) ->
  rdot (nth c (i_drows I) []) (ustate I [a00; a01; a10; a11; b0; b1])
  == (al I 0 0 * a00 + al I 0 1 * a01 + al I 1 0 * a10 + al I 1 1 * a11) * nth c (i_vols I) 0.
Proof.
  intros I c a00 a01 a10 a11 b0 b1 Hnd H.
  rewrite (linear_fields I _ (div_target I c)); [apply trace_target_2d; exact Hnd| |exact H].
  unfold nparam. rewrite Hnd. reflexivity.
Qed.

Lemma linear_fields_2d_scalar : forall I c a a00 a01 a10 a11 b0 b1,
  i_nd I = 2%nat -> scalar_alpha I a ->
  (forall m, (m < nparam I)%nat ->
     rdot (nth c (i_drows I) []) (basis I m) == div_target I c m) ->
  rdot (nth c (i_drows I) []) (ustate I [a00; a01; a10; a11; b0; b1])
  == a * (a00 + a11) * nth c (i_vols I) 0.
Proof.
  intros I c a a00 a01 a10 a11 b0 b1 Hnd Ha H.
  rewrite (linear_fields_2d I c a00 a01 a10 a11 b0 b1 Hnd H).
  rewrite (Ha 0%nat 0%nat), (Ha 0%nat 1%nat), (Ha 1%nat 0%nat), (Ha 1%nat 1%nat) by lia.
  cbn [Nat.eqb]. ring.
Qed.

Lemma linear_fields_3d : forall I c a00 a01 a02 a10 a11 a12 a20 a21 a22 b0 b1 b2,
  i_nd I = 3%nat ->
  (forall m, (m < nparam I)%nat ->
     rdot (nth c (i_drows I) []) (basis I m) == div_target I c m) ->
  rdot (nth c (i_drows I) []) (ustate I [a00; a01; a02; a10; a11; a12; a20; a21; a22; b0; b1; b2])
  == (al I 0 0 * a00 + al I 0 1 * a01 + al I 0 2 * a02
      + al I 1 0 * a10 + al I 1 1 * a11 + al I 1 2 * a12
      + al I 2 0 * a20 + al I 2 1 * a21 + al I 2 2 * a22) * nth c (i_vols I) 0.
Proof.
  intros I c a00 a01 a02 a10 a11 a12 a20 a21 a22 b0 b1 b2 Hnd H.
  rewrite (linear_fields I _ (div_target I c)); [apply trace_target_3d; exact Hnd| |exact H].
  unfold nparam. rewrite Hnd. reflexivity.
Qed.

Lemma linear_fields_3d_scalar : forall I c a a00 a01 a02 a10 a11 a12 a20 a21 a22 b0 b1 b2,
  i_nd I = 3%nat -> scalar_alpha I a ->
  (forall m, (m < nparam I)%nat ->
     rdot (nth c (i_drows I) []) (basis I m) == div_target I c m) ->
  rdot (nth c (i_drows I) []) (ustate I [a00; a01; a02; a10; a11; a12; a20; a21; a22; b0; b1; b2])
  == a * (a00 + a11 + a22) * nth c (i_vols I) 0.
Proof.
  intros I c a a00 a01 a02 a10 a11 a12 a20 a21 a22 b0 b1 b2 Hnd Ha H.
  rewrite (linear_fields_3d I c a00 a01 a02 a10 a11 a12 a20 a21 a22 b0 b1 b2 Hnd H).
  rewrite (Ha 0%nat 0%nat), (Ha 0%nat 1%nat), (Ha 0%nat 2%nat), (Ha 1%nat 0%nat), (Ha 1%nat 1%nat),
          (Ha 1%nat 2%nat), (Ha 2%nat 0%nat), (Ha 2%nat 1%nat), (Ha 2%nat 2%nat) by lia.
  cbn [Nat.eqb]. ring.
Qed.

(* what the sampled state is: u_k = sum_l A_kl x_l + b_k at the point of the column *)
Lemma ustate_is_linear_field_2d : forall I j a00 a01 a10 a11 b0 b1,
  i_nd I = 2%nat ->
  ustate I [a00; a01; a10; a11; b0; b1] j ==
    if col_active I j then
      match col_comp I j with
      | 0%nat => a00 * col_x I j 0 + a01 * col_x I j 1 + b0
      | 1%nat => a10 * col_x I j 0 + a11 * col_x I j 1 + b1
      | _ => 0
      end
    else 0.
Proof.
  intros I j a00 a01 a10 a11 b0 b1 Hnd.
  unfold ustate, lin_state, tsum, basis. rewrite Hnd.
  change (0 <? 2 * 2)%nat with true. change (1 <? 2 * 2)%nat with true.
  change (2 <? 2 * 2)%nat with true. change (3 <? 2 * 2)%nat with true.
  change (4 <? 2 * 2)%nat with false. change (5 <? 2 * 2)%nat with false.
  change (0 / 2)%nat with 0%nat. change (1 / 2)%nat with 0%nat.
  change (2 / 2)%nat with 1%nat. change (3 / 2)%nat with 1%nat.
  change (0 mod 2)%nat with 0%nat. change (1 mod 2)%nat with 1%nat.
  change (2 mod 2)%nat with 0%nat. change (3 mod 2)%nat with 1%nat.
  change (4 - 2 * 2)%nat with 0%nat. change (5 - 2 * 2)%nat with 1%nat.
  destruct (col_active I j); [|ring].
  destruct (col_comp I j) as [|[|k]]; cbn [Nat.eqb]; ring.
Qed.

Lemma ustate_is_linear_field_3d : forall I j a00 a01 a02 a10 a11 a12 a20 a21 a22 b0 b1 b2,
  i_nd I = 3%nat ->
  ustate I [a00; a01; a02; a10; a11; a12; a20; a21; a22; b0; b1; b2] j ==
    if col_active I j then
      match col_comp I j with
      | 0%nat => a00 * col_x I j 0 + a01 * col_x I j 1 + a02 * col_x I j 2 + b0
      | 1%nat => a10 * col_x I j 0 + a11 * col_x I j 1 + a12 * col_x I j 2 + b1
      | 2%nat => a20 * col_x I j 0 + a21 * col_x I j 1 + a22 * col_x I j 2 + b2
      | _ => 0
      end
    else 0.
Proof.
  intros I j a00 a01 a02 a10 a11 a12 a20 a21 a22 b0 b1 b2 Hnd.
  unfold ustate, lin_state, tsum, basis. rewrite Hnd.
  change (0 <? 3 * 3)%nat with true. change (1 <? 3 * 3)%nat with true.
  change (2 <? 3 * 3)%nat with true. change (3 <? 3 * 3)%nat with true.
  change (4 <? 3 * 3)%nat with true. change (5 <? 3 * 3)%nat with true.
  change (6 <? 3 * 3)%nat with true. change (7 <? 3 * 3)%nat with true.
  change (8 <? 3 * 3)%nat with true. change (9 <? 3 * 3)%nat with false.
  change (10 <? 3 * 3)%nat with false. change (11 <? 3 * 3)%nat with false.
  change (0 / 3)%nat with 0%nat. change (1 / 3)%nat with 0%nat. change (2 / 3)%nat with 0%nat.
  change (3 / 3)%nat with 1%nat. change (4 / 3)%nat with 1%nat. change (5 / 3)%nat with 1%nat.
  change (6 / 3)%nat with 2%nat. change (7 / 3)%nat with 2%nat. change (8 / 3)%nat with 2%nat.
  change (0 mod 3)%nat with 0%nat. change (1 mod 3)%nat with 1%nat. change (2 mod 3)%nat with 2%nat.
  change (3 mod 3)%nat with 0%nat. change (4 mod 3)%nat with 1%nat. change (5 mod 3)%nat with 2%nat.
  change (6 mod 3)%nat with 0%nat. change (7 mod 3)%nat with 1%nat. change (8 mod 3)%nat with 2%nat.
  change (9 - 3 * 3)%nat with 0%nat. change (10 - 3 * 3)%nat with 1%nat.
  change (11 - 3 * 3)%nat with 2%nat.
  destruct (col_active I j); [|ring].
  destruct (col_comp I j) as [|[|[|k]]]; cbn [Nat.eqb]; ring.
Qed.

(* ------------------------------------------------------------------ constant pressure *)
Lemma rdot_const : forall r p, rdot r (fun _ => p) == p * rdot r ones.
Proof.
  intros r p. induction r as [|[j a] r IH]; cbn [rdot fst snd]; [ring|].
  rewrite IH. unfold ones. ring.
Qed.

Lemma grad_p : forall r p an,
  rdot r ones == - an -> rdot r (fun _ => p) == - (p * an).
Proof. intros r p an H. rewrite rdot_const, H. ring. Qed.

(* ------------------------------------------------------------------ the checkers *)
Definition div_bound (tol : Q) (I : inst) (c : nat) (theta : list Q) : Q :=
  tsum 0 (map Qabs theta) (fun m => tol * (1 + rabs (nth c (i_drows I) []) (basis I m))).

Lemma certificate_sound : forall tol I,
  check tol I = true ->
  (forall c theta, (c < i_nc I)%nat -> length theta = nparam I ->
     Qabs (rdot (nth c (i_drows I) []) (ustate I theta) - tsum 0 theta (div_target I c))
     <= div_bound tol I c theta)
  /\ (forall q p, (q < i_nd I * i_nf I)%nat ->
     Qabs (rdot (nth q (i_grows I) []) (fun _ => p) - p * grad_target I q)
     <= Qabs p * (tol * (1 + rabs (nth q (i_grows I) []) ones))).
Proof.
  intros tol I H. unfold check in H.
  apply andb_prop in H. destruct H as [H Hrel].
  apply andb_prop in H. destruct H as [H Hgeo].
  apply andb_prop in H. destruct H as [H Hgrad].
  apply andb_prop in H. destruct H as [Hshape Hdiv].
  split.
  - intros c theta Hc Hlen. unfold div_bound, ustate.
    apply lin_quant. intros m Hm.
    unfold div_ok in Hdiv. rewrite forallb_forall in Hdiv.
    assert (Hin : In c (seq 0 (i_nc I))) by (apply in_seq; lia).
    specialize (Hdiv c Hin). rewrite forallb_forall in Hdiv.
    apply near_sound. apply Hdiv. apply in_seq. lia.
  - intros q p Hq.
    unfold grad_ok in Hgrad. rewrite forallb_forall in Hgrad.
    assert (Hin : In q (seq 0 (i_nd I * i_nf I))) by (apply in_seq; lia).
    pose proof (near_sound _ _ _ _ (Hgrad q Hin)) as H1.
    rewrite rdot_const.
    setoid_replace (p * rdot (nth q (i_grows I) []) ones - p * grad_target I q)
      with (p * (rdot (nth q (i_grows I) []) ones - grad_target I q)) by ring.
    rewrite Qabs_Qmult.
    pose proof (Qabs_nonneg p) as H2.
    revert H1 H2.
    generalize (Qabs p) (Qabs (rdot (nth q (i_grows I) []) ones - grad_target I q))
               (tol * (1 + rabs (nth q (i_grows I) []) ones)).
    intros ap d e H1 H2. nra.
Qed.

Lemma exact_certificates : forall I,
  div_ok 0 I = true -> grad_ok 0 I = true ->
  (forall c m, (c < i_nc I)%nat -> (m < nparam I)%nat ->
     rdot (nth c (i_drows I) []) (basis I m) == div_target I c m)
  /\ (forall q, (q < i_nd I * i_nf I)%nat ->
     rdot (nth q (i_grows I) []) ones == grad_target I q).
Proof.
  intros I Hdiv Hgrad. split.
  - intros c m Hc Hm. unfold div_ok in Hdiv. rewrite forallb_forall in Hdiv.
    assert (Hin : In c (seq 0 (i_nc I))) by (apply in_seq; lia).
    specialize (Hdiv c Hin). rewrite forallb_forall in Hdiv.
    eapply near_zero_exact. apply Hdiv. apply in_seq. lia.
  - intros q Hq. unfold grad_ok in Hgrad. rewrite forallb_forall in Hgrad.
    eapply near_zero_exact. apply Hgrad. apply in_seq. lia.
Qed.

(* ------------------------------------------------------------------ the divergence-theorem form on
   the cells of an instance, under the guard "all faces planar" *)
Lemma cmp_v3_of : forall i l, (i < 3)%nat -> cmp i (v3_of l) = nth i l 0.
Proof. intros i l Hi. destruct i as [|[|[|i]]]; try reflexivity. lia. Qed.

Lemma Nrm_cell : forall I c i, (i < 3)%nat ->
  Nrm (cell_faces_of I c) i == isum (nth c (i_inc I) []) (fun f => coord (i_normals I) f i).
Proof.
  intros I c i Hi. unfold Nrm, cell_faces_of.
  induction (nth c (i_inc I) []) as [|fs ic IH]; cbn [map fsum isum]; [reflexivity|].
  rewrite IH. unfold f_s, f_n. cbn [fst snd]. rewrite (cmp_v3_of i _ Hi). unfold coord. reflexivity.
Qed.

Lemma Mom_cell : forall I c i j, (i < 3)%nat -> (j < 3)%nat ->
  Mom (cell_faces_of I c) i j
  == isum (nth c (i_inc I) []) (fun f => coord (i_fc I) f j * coord (i_normals I) f i).
Proof.
  intros I c i j Hi Hj. unfold Mom, cell_faces_of.
  induction (nth c (i_inc I) []) as [|fs ic IH]; cbn [map fsum isum]; [reflexivity|].
  rewrite IH. unfold f_s, f_n, f_x. cbn [fst snd].
  rewrite (cmp_v3_of i _ Hi), (cmp_v3_of j _ Hj). unfold coord. reflexivity.
Qed.

Lemma geo_ok_sound : forall tol I c i j,
  geo_ok tol I = true -> (c < i_nc I)%nat -> (i < i_nd I)%nat -> (j < i_nd I)%nat ->
  Qabs (isum (nth c (i_inc I) []) (fun f => coord (i_normals I) f i)) <= eps_nrm tol I c i
  /\ Qabs (isum (nth c (i_inc I) []) (fun f => coord (i_fc I) f j * coord (i_normals I) f i)
           - (if Nat.eqb i j then nth c (i_vols I) 0 else 0)) <= eps_mom tol I c i j.
Proof.
  intros tol I c i j H Hc Hi Hj. unfold geo_ok in H. rewrite forallb_forall in H.
  assert (Hinc : In c (seq 0 (i_nc I))) by (apply in_seq; lia).
  specialize (H c Hinc). cbv zeta in H. rewrite forallb_forall in H.
  assert (Hini : In i (seq 0 (i_nd I))) by (apply in_seq; lia).
  specialize (H i Hini). apply andb_prop in H. destruct H as [H1 H2].
  rewrite forallb_forall in H2.
  assert (Hinj : In j (seq 0 (i_nd I))) by (apply in_seq; lia).
  specialize (H2 j Hinj).
  apply near_sound in H1. apply near_sound in H2. split.
  - unfold eps_nrm.
    setoid_replace (isum (nth c (i_inc I) []) (fun f => coord (i_normals I) f i))
      with (isum (nth c (i_inc I) []) (fun f => coord (i_normals I) f i) - 0) by ring.
    exact H1.
  - unfold eps_mom. exact H2.
Qed.

Definition err3 (fs : list face) (V : Q) (m : nat) : Q :=
  match m with
  | 0%nat => Mom fs 0 0 - V | 1%nat => Mom fs 0 1 | 2%nat => Mom fs 0 2
  | 3%nat => Mom fs 1 0 | 4%nat => Mom fs 1 1 - V | 5%nat => Mom fs 1 2
  | 6%nat => Mom fs 2 0 | 7%nat => Mom fs 2 1 | 8%nat => Mom fs 2 2 - V
  | 9%nat => Nrm fs 0 | 10%nat => Nrm fs 1 | 11%nat => Nrm fs 2
  | _ => 0
  end.

Definition theta3 (A : m3) (b : v3) : list Q :=
  [cmp 0 (mrow 0 A); cmp 1 (mrow 0 A); cmp 2 (mrow 0 A);
   cmp 0 (mrow 1 A); cmp 1 (mrow 1 A); cmp 2 (mrow 1 A);
   cmp 0 (mrow 2 A); cmp 1 (mrow 2 A); cmp 2 (mrow 2 A); cmp 0 b; cmp 1 b; cmp 2 b].

Lemma div_u_error3 : forall fs A b V,
  face_div fs A b - trace A * V == tsum 0 (theta3 A b) (err3 fs V).
Proof.
  intros fs A b V. rewrite div_u_identity. unfold theta3. cbn [tsum err3].
  destruct A as [[[[a00 a01] a02] [[a10 a11] a12]] [[a20 a21] a22]].
  unfold trace, cmp, mrow, x0, x1, x2. cbn [fst snd]. ring.
Qed.

Definition err2 (fs : list face) (V : Q) (m : nat) : Q :=
  match m with
  | 0%nat => Mom fs 0 0 - V | 1%nat => Mom fs 0 1
  | 2%nat => Mom fs 1 0 | 3%nat => Mom fs 1 1 - V
  | 4%nat => Nrm fs 0 | 5%nat => Nrm fs 1
  | _ => 0
  end.

Lemma div_u_error2 : forall fs a00 a01 a10 a11 b0 b1 V,
  face_div fs ((a00, a01, 0), (a10, a11, 0), (0, 0, 0)) (b0, b1, 0) - (a00 + a11) * V
  == tsum 0 [a00; a01; a10; a11; b0; b1] (err2 fs V).
Proof.
  intros fs a00 a01 a10 a11 b0 b1 V. rewrite div_u_identity. cbn [tsum err2].
  unfold cmp, mrow, x0, x1, x2. cbn [fst snd]. ring.
Qed.

Lemma div_u_on_instance_3d : forall tol I c A b,
  check tol I = true -> i_planar I = true -> i_nd I = 3%nat -> (c < i_nc I)%nat ->
  Qabs (face_div (cell_faces_of I c) A b - trace A * nth c (i_vols I) 0)
  <= tsum 0 (map Qabs (theta3 A b)) (geo_eps3 tol I c).
Proof.
  intros tol I c A b H Hpl Hnd Hc. unfold check in H.
  apply andb_prop in H. destruct H as [H Hrel].
  apply andb_prop in H. destruct H as [_ Hgeo]. rewrite Hpl in Hgeo.
  rewrite div_u_error3. apply tsum_abs_bound. intros m Hm.
  assert (G : forall i j, (i < 3)%nat -> (j < 3)%nat ->
     Qabs (Nrm (cell_faces_of I c) i) <= eps_nrm tol I c i
     /\ Qabs (Mom (cell_faces_of I c) i j - (if Nat.eqb i j then nth c (i_vols I) 0 else 0))
         <= eps_mom tol I c i j).
  { intros i j Hi Hj. rewrite (Nrm_cell I c i Hi), (Mom_cell I c i j Hi Hj).
    apply geo_ok_sound; try assumption; rewrite Hnd; assumption. }
  unfold theta3 in Hm. cbn [length] in Hm.
  destruct m as [|[|[|[|[|[|[|[|[|[|[|[|m]]]]]]]]]]]]; [..|lia]; cbn [err3 geo_eps3].
  - exact (proj2 (G 0%nat 0%nat ltac:(lia) ltac:(lia))).
  - pose proof (proj2 (G 0%nat 1%nat ltac:(lia) ltac:(lia))) as E. cbn [Nat.eqb] in E.
    setoid_replace (Mom (cell_faces_of I c) 0 1) with (Mom (cell_faces_of I c) 0 1 - 0) by ring. exact E.
  - pose proof (proj2 (G 0%nat 2%nat ltac:(lia) ltac:(lia))) as E. cbn [Nat.eqb] in E.
    setoid_replace (Mom (cell_faces_of I c) 0 2) with (Mom (cell_faces_of I c) 0 2 - 0) by ring. exact E.
  - pose proof (proj2 (G 1%nat 0%nat ltac:(lia) ltac:(lia))) as E. cbn [Nat.eqb] in E.
    setoid_replace (Mom (cell_faces_of I c) 1 0) with (Mom (cell_faces_of I c) 1 0 - 0) by ring. exact E.
  - exact (proj2 (G 1%nat 1%nat ltac:(lia) ltac:(lia))).
  - pose proof (proj2 (G 1%nat 2%nat ltac:(lia) ltac:(lia))) as E. cbn [Nat.eqb] in E.
    setoid_replace (Mom (cell_faces_of I c) 1 2) with (Mom (cell_faces_of I c) 1 2 - 0) by ring. exact E.
  - pose proof (proj2 (G 2%nat 0%nat ltac:(lia) ltac:(lia))) as E. cbn [Nat.eqb] in E.
    setoid_replace (Mom (cell_faces_of I c) 2 0) with (Mom (cell_faces_of I c) 2 0 - 0) by ring. exact E.
  - pose proof (proj2 (G 2%nat 1%nat ltac:(lia) ltac:(lia))) as E. cbn [Nat.eqb] in E.
    setoid_replace (Mom (cell_faces_of I c) 2 1) with (Mom (cell_faces_of I c) 2 1 - 0) by ring. exact E.
  - exact (proj2 (G 2%nat 2%nat ltac:(lia) ltac:(lia))).
  - exact (proj1 (G 0%nat 0%nat ltac:(lia) ltac:(lia))).
  - exact (proj1 (G 1%nat 0%nat ltac:(lia) ltac:(lia))).
  - exact (proj1 (G 2%nat 0%nat ltac:(lia) ltac:(lia))).
Qed.

Lemma div_u_on_instance_2d : forall tol I c a00 a01 a10 a11 b0 b1,
  check tol I = true -> i_planar I = true -> i_nd I = 2%nat -> (c < i_nc I)%nat ->
  Qabs (face_div (cell_faces_of I c) ((a00, a01, 0), (a10, a11, 0), (0, 0, 0)) (b0, b1, 0)
        - (a00 + a11) * nth c (i_vols I) 0)
  <= tsum 0 (map Qabs [a00; a01; a10; a11; b0; b1]) (geo_eps2 tol I c).
Proof.
  intros tol I c a00 a01 a10 a11 b0 b1 H Hpl Hnd Hc. unfold check in H.
  apply andb_prop in H. destruct H as [H Hrel].
  apply andb_prop in H. destruct H as [_ Hgeo]. rewrite Hpl in Hgeo.
  rewrite div_u_error2. apply tsum_abs_bound. intros m Hm.
  assert (G : forall i j, (i < 2)%nat -> (j < 2)%nat ->
     Qabs (Nrm (cell_faces_of I c) i) <= eps_nrm tol I c i
     /\ Qabs (Mom (cell_faces_of I c) i j - (if Nat.eqb i j then nth c (i_vols I) 0 else 0))
         <= eps_mom tol I c i j).
  { intros i j Hi Hj. rewrite (Nrm_cell I c i), (Mom_cell I c i j) by lia.
    apply geo_ok_sound; try assumption; rewrite Hnd; assumption. }
  cbn [length] in Hm.
  destruct m as [|[|[|[|[|[|m]]]]]]; [..|lia]; cbn [err2 geo_eps2].
  - exact (proj2 (G 0%nat 0%nat ltac:(lia) ltac:(lia))).
  - pose proof (proj2 (G 0%nat 1%nat ltac:(lia) ltac:(lia))) as E. cbn [Nat.eqb] in E.
    setoid_replace (Mom (cell_faces_of I c) 0 1) with (Mom (cell_faces_of I c) 0 1 - 0) by ring. exact E.
  - pose proof (proj2 (G 1%nat 0%nat ltac:(lia) ltac:(lia))) as E. cbn [Nat.eqb] in E.
    setoid_replace (Mom (cell_faces_of I c) 1 0) with (Mom (cell_faces_of I c) 1 0 - 0) by ring. exact E.
  - exact (proj2 (G 1%nat 1%nat ltac:(lia) ltac:(lia))).
  - exact (proj1 (G 0%nat 0%nat ltac:(lia) ltac:(lia))).
  - exact (proj1 (G 1%nat 0%nat ltac:(lia) ltac:(lia))).
Qed.

(* ------------------------------------------------------------------ a concrete instance:
   the real pp.Biot matrices on CartGrid([2, 1]) (2 cells, 7 faces), mu = 1, lambda = 2,
   alpha = 1/2, all boundary faces Dirichlet.  Every entry is dyadic and the certificates
   hold exactly (tolerance 0). *)
Definition ex_inst : inst :=
(mk_inst 2%nat 2%nat 7%nat [[(1 # 2); (0 # 1); (0 # 1)]; [(0 # 1); (1 # 2); (0 # 1)]; [(0 # 1); (0 #
1); (1 # 2)]] [[(1 # 2); (1 # 2)]; [(3 # 2); (1 # 2)]] [[(0 # 1); (1 # 2)]; [(1 # 1); (1 # 2)]; [(2
# 1); (1 # 2)]; [(1 # 2); (0 # 1)]; [(3 # 2); (0 # 1)]; [(1 # 2); (1 # 1)]; [(3 # 2); (1 # 1)]] [[(1
# 1); (0 # 1)]; [(1 # 1); (0 # 1)]; [(1 # 1); (0 # 1)]; [(0 # 1); (1 # 1)]; [(0 # 1); (1 # 1)]; [(0
# 1); (1 # 1)]; [(0 # 1); (1 # 1)]] [(1 # 1); (1 # 1)] [[(0%nat, ((-1) # 1)); (1%nat, (1 # 1));
(3%nat, ((-1) # 1)); (5%nat, (1 # 1))]; [(1%nat, ((-1) # 1)); (2%nat, (1 # 1)); (4%nat, ((-1) # 1));
(6%nat, (1 # 1))]] [true; false; true; true; true; true; true] true [[(0%nat, (1 # 4)); (2%nat, (1 #
4)); (4%nat, ((-1) # 2)); (11%nat, ((-7) # 16)); (13%nat, ((-1) # 16)); (15%nat, (7 # 16)); (17%nat,
(1 # 16))]; [(0%nat, ((-1) # 4)); (2%nat, ((-1) # 4)); (8%nat, (1 # 2)); (11%nat, ((-1) # 16));
(13%nat, ((-7) # 16)); (15%nat, (1 # 16)); (17%nat, (7 # 16))]] [[(0%nat, ((-1) # 2))]; []; [(0%nat,
((-1) # 4)); (1%nat, ((-1) # 4))]; []; [(1%nat, ((-1) # 2))]; []; []; [(0%nat, ((-7) # 16)); (1%nat,
((-1) # 16))]; []; [(0%nat, ((-1) # 16)); (1%nat, ((-7) # 16))]; []; [(0%nat, ((-7) # 16)); (1%nat,
((-1) # 16))]; []; [(0%nat, ((-1) # 16)); (1%nat, ((-7) # 16))]]).

Lemma ex_inst_check : check 0 ex_inst = true.
Proof. vm_compute. reflexivity. Qed.

(* the unit square as a list of signed faces: (sign, normal, centre) *)
Definition ex_square : list face :=
  [(-(1), (1, 0, 0), (0, 1 # 2, 0)); (1, (1, 0, 0), (1, 1 # 2, 0));
   (-(1), (0, 1, 0), (1 # 2, 0, 0)); (1, (0, 1, 0), (1 # 2, 1, 0))].

(* a single hexahedron with moved corners (non-planar faces), real pp.Biot matrices and geometry:
   the Biot certificates hold, the first-moment identity sum_f s x_f n_f^T = |K| I does NOT *)
Definition ex_nonplanar : inst :=
(mk_inst 3%nat 1%nat 6%nat [[(1 # 1); (0 # 1); (0 # 1)]; [(0 # 1); (1 # 1); (0 # 1)]; [(0 # 1); (0 #
1); (1 # 1)]] [[(4457534659807883 # 9007199254740992); (1164972763819645 # 2251799813685248);
(8762609675741783 # 18014398509481984)]] [[(0 # 1); (4890720067780953 # 9007199254740992);
(4701592524374317 # 9007199254740992)]; [(8995070874345297 # 9007199254740992); (4602041655147643 #
9007199254740992); (8453901458645105 # 18014398509481984)]; [(2388561666776301 # 4503599627370496);
(0 # 1); (8854534860592839 # 18014398509481984)]; [(2111679344664055 # 4503599627370496);
(4647837378263327 # 4503599627370496); (4397357712577169 # 9007199254740992)]; [(4686420371643975 #
9007199254740992); (4686420371643975 # 9007199254740992); (4700908092244849 # 144115188075855872)];
[(4233455233209203 # 9007199254740992); (8796146254890791 # 18014398509481984); (8718813193364747 #
9007199254740992)]] [[(127 # 128); (0 # 1); (0 # 1)]; [(15 # 16); (7 # 64); (1 # 8)]; [(0 # 1); (59
# 64); (0 # 1)]; [(1 # 16); (15 # 16); (1 # 16)]; [(9 # 128); (9 # 128); (9 # 8)]; [(1 # 16); ((-7)
# 128); (15 # 16)]] [(1965 # 2048)] [[(0%nat, ((-1) # 1)); (1%nat, (1 # 1)); (2%nat, ((-1) # 1));
(3%nat, (1 # 1)); (4%nat, ((-1) # 1)); (5%nat, (1 # 1))]] [true; true; true; true; true; true] false
[[(0%nat, (3546574085291215 # 144115188075855872)); (1%nat, ((-4943310868242709) #
2305843009213693952)); (2%nat, (1118327745558369 # 18014398509481984)); (3%nat, ((-8793947799834383)
# 9007199254740992)); (4%nat, ((-8404825397342747) # 144115188075855872)); (5%nat,
((-7854809991206561) # 144115188075855872)); (6%nat, (4300203819938355 # 4503599627370496)); (7%nat,
(8219354185515693 # 144115188075855872)); (8%nat, (1920480043477865 # 36028797018963968)); (9%nat,
((-2290195742976497) # 72057594037927936)); (10%nat, ((-4187426478084909) # 4503599627370496));
(11%nat, ((-4726440826259105) # 144115188075855872)); (12%nat, (2299038477954627 #
72057594037927936)); (13%nat, (4204615090667555 # 4503599627370496)); (14%nat, (1186096916828789 #
36028797018963968)); (15%nat, ((-1015883944051329) # 18014398509481984)); (16%nat,
((-3893577156582803) # 576460752303423488)); (17%nat, ((-298461221560655) # 281474976710656));
(18%nat, (7659454556485933 # 144115188075855872)); (19%nat, (229446706898315 # 36028797018963968));
(20%nat, (4500639576588359 # 4503599627370496))]] [[(0%nat, ((-127) # 128))]; []; []; [(0%nat,
((-15) # 16))]; [(0%nat, ((-7) # 64))]; [(0%nat, ((-1) # 8))]; []; [(0%nat, ((-59) # 64))]; [];
[(0%nat, ((-1) # 16))]; [(0%nat, ((-15) # 16))]; [(0%nat, ((-1) # 16))]; [(0%nat, ((-9) # 128))];
[(0%nat, ((-9) # 128))]; [(0%nat, ((-9) # 8))]; [(0%nat, ((-1) # 16))]; [(0%nat, (7 # 128))];
[(0%nat, ((-15) # 16))]]).

(* the purely relative certificates *)
Lemma relative_certificate : forall tol I,
  check tol I = true ->
  (forall c m, (c < i_nc I)%nat -> (m < nparam I)%nat ->
     Qabs (rdot (nth c (i_drows I) []) (basis I m) - div_target I c m)
     <= tol * (rabs (nth c (i_drows I) []) (basis I m) + Qabs (div_target I c m)))
  /\ (forall q, (q < i_nd I * i_nf I)%nat ->
     Qabs (rdot (nth q (i_grows I) []) ones - grad_target I q)
     <= tol * (rabs (nth q (i_grows I) []) ones + Qabs (grad_target I q) + face_mag I q)).
Proof.
  intros tol I H. unfold check in H. apply andb_prop in H. destruct H as [_ H].
  unfold rel_ok in H. apply andb_prop in H. destruct H as [Hd Hg]. split.
  - intros c m Hc Hm. rewrite forallb_forall in Hd.
    assert (Hin : In c (seq 0 (i_nc I))) by (apply in_seq; lia).
    specialize (Hd c Hin). rewrite forallb_forall in Hd.
    assert (Him : In m (seq 0 (nparam I))) by (apply in_seq; lia).
    specialize (Hd m Him). unfold nearr in Hd. apply Qle_bool_iff in Hd. exact Hd.
  - intros q Hq. rewrite forallb_forall in Hg.
    assert (Hin : In q (seq 0 (i_nd I * i_nf I))) by (apply in_seq; lia).
    specialize (Hg q Hin). unfold nearr in Hg. apply Qle_bool_iff in Hg. exact Hg.
Qed.
