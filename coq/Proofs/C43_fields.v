(* C43 — every dataclass field of every material class is declared in SI_units, so objects
   can be constructed (defaults overridden by any keyword values) in every unit system. *)
From Coq Require Import String List ZArith QArith Bool Reals Qreals Lra.
Import ListNotations.
From PP Require Import Model.C43 Model.C43_fields Gen.C43_tables Proofs.C43 Proofs.C43_transfer2.
Open Scope string_scope.

Lemma gen_fields_ok : fields_ok si_tables class_fields = true.
Proof. vm_compute. reflexivity. Qed.

Lemma override_keys : forall {T} (fields given : list (string * T)),
  map fst (override fields given) = map fst fields.
Proof. intros. unfold override. rewrite map_map. reflexivity. Qed.

Lemma fields_declared_of_keys : forall tab (cs : list (string * R)),
  forallb (fun k => match assoc k tab with Some _ => true | None => false end) (map fst cs) = true ->
  fields_declared tab cs.
Proof.
  intros tab cs H. unfold fields_declared. apply Forall_forall. intros [k v] Hin.
  rewrite forallb_forall in H. specialize (H k (in_map fst _ _ Hin)). cbn.
  destruct (assoc k tab); [discriminate|discriminate H].
Qed.

(* for every class: its table exists and the constants of an object built from ANY keyword
   values (real numbers) for ANY of its fields are all declared — hence, by
   C43_material_roundtrip, construction / to_units never raise and round-trip *)
Lemma fields_lemma : forall cls fields (given : list (string * R)),
  In (cls, fields) class_fields ->
  exists tab, In (cls, tab) si_tables /\
              fields_declared tab (override (mapv Q2R fields) given).
Proof.
  intros cls fields given Hin.
  pose proof gen_fields_ok as H. unfold fields_ok in H. rewrite forallb_forall in H.
  specialize (H _ Hin). cbn [fst snd] in H.
  destruct (assoc cls si_tables) as [tab|] eqn:Et; [|discriminate].
  exists tab. split; [now apply assoc_In|].
  apply fields_declared_of_keys. rewrite override_keys. unfold mapv. rewrite map_map. cbn [fst].
  rewrite forallb_forall in *. intros k Hk. apply in_map_iff in Hk as ([k' d] & <- & Hk).
  exact (H _ Hk).
Qed.

From PP Require Import Proofs.C43_transfer.

Lemma material_transfer_gen : forall (pif : Q) env env' si cs c c',
  (0 < pif)%Q -> env_posQ env -> env_posQ env' ->
  make_constants (QOps pif) derived_table other_attrs env si cs = Ok c ->
  to_units (QOps pif) derived_table other_attrs env' si c = Ok c' ->
  make_constants (ROps (Q2R pif)) derived_table other_attrs (envR env) si (mapv Q2R cs)
    = Ok (cmap c) /\
  to_units (ROps (Q2R pif)) derived_table other_attrs (envR env') si (cmap c) = Ok (cmap c').
Proof.
  intros pif env env' si cs c c' Hpi He He'.
  exact (material_transfer pif Hpi derived_table other_attrs gen_table_pos env env' si cs c c'
           He He').
Qed.

Lemma fields_gen :
  fields_ok si_tables class_fields = true /\
  forall cls fields (given : list (string * R)),
    In (cls, fields) class_fields ->
    exists tab, In (cls, tab) si_tables /\
                fields_declared tab (override (mapv Q2R fields) given).
Proof. split; [exact gen_fields_ok|exact fields_lemma]. Qed.
