(* C21 (extension) — proofs about PP.Model.C21_ext. *)
From Coq Require Import List ZArith Bool Arith Lia Permutation Sorted.
Import ListNotations.
From PP Require Import Model.C21 Model.C21_ext Proofs.C21.
Open Scope Z_scope.

(* ------------------------------------------------------------------------------------ *)
(* signs_and_cells with ANY sorting permutation in place of np.argsort(faces) *)
Section SCP.
  Variable cf : list ent.
  Variable faces : list Z.

  Variable IA : list nat.
  Let n := length faces.
  Hypothesis HIA : Permutation IA (seq 0 n).
  Let IC := argsort (map Z.of_nat IA).
  Let sf := take faces IA.
  Let en := slice_rows cf sf.

  Lemma scp_IA_len : length IA = n.
  Proof. rewrite (Permutation_length HIA). apply seq_length. Qed.

  Lemma scp_IC_len : length IC = n.
  Proof. unfold IC. rewrite argsort_length, map_length. apply scp_IA_len. Qed.

  Lemma scp_sf_len : length sf = n.
  Proof. unfold sf. rewrite take_length. apply scp_IA_len. Qed.

  Lemma scp_IA_lt k : (k < n)%nat -> (nth k IA 0%nat < n)%nat.
  Proof.
    intro H. assert (In (nth k IA 0%nat) (seq 0 n)) as Hin
        by (apply (Permutation_in _ HIA); apply nth_In; rewrite scp_IA_len; exact H).
    apply in_seq in Hin. lia.
  Qed.

  Lemma scp_IC_lt j : (j < n)%nat -> (nth j IC 0%nat < n)%nat.
  Proof.
    intro H. assert (nth j IC 0%nat < length (map Z.of_nat IA))%nat as H0
        by (apply argsort_lt; apply nth_In; fold IC; rewrite scp_IC_len; exact H).
    rewrite map_length, scp_IA_len in H0. exact H0.
  Qed.

  (* IA[IC[j]] = j *)
  Lemma scp_inverse j : (j < n)%nat -> nth (nth j IC 0%nat) IA 0%nat = j.
  Proof.
    intro H. apply Nat2Z.inj. rewrite <- nth_ofnat. apply argsort_inv.
    - rewrite map_length, scp_IA_len. apply Permutation_map. exact HIA.
    - rewrite map_length, scp_IA_len. exact H.
  Qed.

  Lemma scp_sf_nth k : (k < n)%nat -> nth k sf 0 = nth (nth k IA 0%nat) faces 0.
  Proof. intro H. unfold sf. apply take_nth. rewrite scp_IA_len. exact H. Qed.

  Lemma scp_sf_in x : In x sf -> In x faces.
  Proof.
    intro H. apply (In_nth _ _ 0) in H. destruct H as (k & Hk & <-). rewrite scp_sf_len in Hk.
    rewrite scp_sf_nth by exact Hk. apply nth_In. apply scp_IA_lt. exact Hk.
  Qed.

  Lemma scp_faces_in_sf j : (j < n)%nat -> nth (nth j IC 0%nat) sf 0 = nth j faces 0.
  Proof. intro H. rewrite scp_sf_nth by (apply scp_IC_lt; exact H). rewrite scp_inverse by exact H. reflexivity. Qed.

  Lemma scp_err :
    (forall f, In f faces -> (1 <= cnt cf f)%nat) ->
    (exists f, In f faces /\ (2 <= cnt cf f)%nat) ->
    signs_cells_perm cf faces IA = Err ValueErr.
  Proof.
    intros Hall (f & Hf & H2). unfold signs_cells_perm. fold sf. fold en.
    assert (length en <> length faces) as Hne.
    { unfold en. rewrite slice_length. fold n. rewrite <- scp_sf_len.
      apply (In_nth _ _ 0) in Hf. destruct Hf as (j & Hj & Ej). fold n in Hj.
      assert (length sf < list_sum (map (cnt cf) sf))%nat; [|lia].
      apply (list_sum_gt (cnt cf) sf f).
      - intros x Hx. apply Hall. apply scp_sf_in. exact Hx.
      - rewrite <- Ej. rewrite <- (scp_faces_in_sf j Hj). apply nth_In. rewrite scp_sf_len.
        apply scp_IC_lt. exact Hj.
      - exact H2. }
    apply Nat.eqb_neq in Hne. rewrite Hne. reflexivity.
  Qed.

  Lemma scp_ok :
    (forall f, In f faces -> cnt cf f = 1%nat) ->
    exists sgn ci, signs_cells_perm cf faces IA = Ok (sgn, ci) /\ length sgn = n /\ length ci = n /\
      forall j, (j < n)%nat -> In (nth j faces 0, nth j ci 0, nth j sgn 0) cf.
  Proof.
    intro H1. unfold signs_cells_perm. fold IC. fold sf. fold en.
    assert (length en = n) as Hlen.
    { unfold en. rewrite slice_length. rewrite list_sum_ones; [apply scp_sf_len|].
      intros x Hx. apply H1. apply scp_sf_in. exact Hx. }
    fold n. rewrite Hlen, Nat.eqb_refl. cbn [negb].
    set (fi := map e_r en). set (fs := argsort fi).
    assert (length fi = n) as Lfi by (unfold fi; rewrite map_length; exact Hlen).
    assert (length fs = n) as Lfs by (unfold fs; rewrite argsort_length; exact Lfi).
    assert (Permutation fi (map Z.of_nat (seq 0 (length fi)))) as Pfi.
    { apply Permutation_sym. apply NoDup_Permutation_bis.
      - apply seqZ_NoDup.
      - rewrite map_length, seq_length. lia.
      - intros z Hz. apply in_map_iff in Hz. destruct Hz as (k & <- & Hk). apply in_seq in Hk.
        rewrite Lfi in Hk. assert (k < n)%nat as Hkn by lia.
        assert (In (nth k sf 0) faces) as Hin by (apply scp_sf_in; apply nth_In; rewrite scp_sf_len; exact Hkn).
        specialize (H1 _ Hin). unfold cnt in H1.
        destruct (filter (fun e => e_r e =? nth k sf 0) cf) as [|e l] eqn:EF; [discriminate|].
        assert (In e (filter (fun e => e_r e =? nth k sf 0) cf)) as He by (rewrite EF; left; auto).
        apply filter_In in He. destruct He as [He Hr]. apply Z.eqb_eq in Hr.
        unfold fi. apply in_map_iff. exists (Z.of_nat k, e_c e, e_v e). split; [reflexivity|].
        unfold en. apply slice_in. exists k. rewrite scp_sf_len. split; [exact Hkn|]. split; [reflexivity|].
        unfold e_c at 1, e_v at 1. cbn [fst snd]. rewrite <- Hr. destruct e as [[a b] c]. exact He. }
    eexists. eexists. split; [reflexivity|].
    rewrite !take_length. split; [apply scp_IC_len|]. split; [apply scp_IC_len|].
    intros j Hj.
    set (k := nth j IC 0%nat). assert (k < n)%nat as Hk by (apply scp_IC_lt; exact Hj).
    set (i := nth k fs 0%nat).
    assert (i < n)%nat as Hi.
    { rewrite <- Lfi. apply (argsort_lt fi). apply nth_In. fold fs. rewrite Lfs. exact Hk. }
    assert (nth i fi 0 = Z.of_nat k) as Hik.
    { unfold i, fs. apply argsort_inv; [exact Pfi|]. rewrite Lfi. exact Hk. }
    set (x := nth i en (0, 0, 0)).
    assert (In x en) as Hx by (apply nth_In; rewrite Hlen; exact Hi).
    assert (e_r x = Z.of_nat k) as Hrx.
    { rewrite <- Hik. unfold fi, x. symmetry. apply nth_map_lt. rewrite Hlen. exact Hi. }
    unfold en in Hx. apply slice_in in Hx. destruct Hx as (k' & Hk' & Hr' & Hin).
    assert (k' = k) as -> by lia.
    unfold k in Hin. rewrite (scp_faces_in_sf j Hj) in Hin.
    rewrite (take_nth _ IC j) by (rewrite scp_IC_len; exact Hj).
    rewrite (take_nth _ IC j) by (rewrite scp_IC_len; exact Hj). fold k.
    rewrite (take_nth _ fs k) by (rewrite Lfs; exact Hk).
    rewrite (take_nth _ fs k) by (rewrite Lfs; exact Hk). fold i.
    rewrite (nth_map_lt e_v en i 0 (0, 0, 0)) by (rewrite Hlen; exact Hi).
    rewrite (nth_map_lt e_c en i 0 (0, 0, 0)) by (rewrite Hlen; exact Hi). fold x.
    exact Hin.
  Qed.
End SCP.

Lemma signs_cells_is_perm cf faces : signs_cells cf faces = signs_cells_perm cf faces (argsort faces).
Proof. reflexivity. Qed.

Lemma signs_cells_perm_spec nf nc cf faces IA : wf nf nc cf ->
  Permutation IA (seq 0 (length faces)) ->
  (forall f, In f faces -> 0 <= f < Z.of_nat nf) ->
  ((forall f, In f faces -> one_adjacent cf f) ->
     exists sgn ci, signs_cells_perm cf faces IA = Ok (sgn, ci) /\
       length sgn = length faces /\ length ci = length faces /\
       forall j c v, (j < length faces)%nat -> In (nth j faces 0, c, v) cf ->
                     nth j ci 0 = c /\ nth j sgn 0 = v) /\
  ((exists f, In f faces /\ ~ one_adjacent cf f) -> signs_cells_perm cf faces IA = Err ValueErr).
Proof.
  intros Hwf HIA Hrange. split.
  - intro Hb.
    assert (forall f, In f faces -> cnt cf f = 1%nat) as H1.
    { intros f Hf. apply (cnt_one_iff nf nc); auto. }
    destruct (scp_ok cf faces IA HIA H1) as (sgn & ci & E & L1 & L2 & Hin).
    exists sgn, ci. repeat split; auto; specialize (Hin j H);
      assert (In (nth j faces 0) faces) as Hf by (apply nth_In; exact H);
      pose proof (cnt_one_unique cf _ _ _ (H1 _ Hf) Hin H0 eq_refl eq_refl) as E2;
      injection E2; auto.
  - intros (f & Hf & Hno). apply (scp_err cf faces IA HIA).
    + intros g Hg. destruct (wf_cnt _ _ _ g Hwf (Hrange g Hg)); lia.
    + exists f. split; auto. destruct (wf_cnt _ _ _ f Hwf (Hrange f Hf)) as [E|E]; [|lia].
      exfalso. apply Hno. apply (cnt_one_iff nf nc); auto.
Qed.

(* ------------------------------------------------------------------------------------ *)
(* numpy index handling *)
Lemma wrap_range nf f : - Z.of_nat nf <= f < Z.of_nat nf -> 0 <= wrap nf f < Z.of_nat nf.
Proof. intro H. unfold wrap. destruct (Z.ltb_spec f 0); lia. Qed.

Lemma signs_cells_idx_spec nf nc cf faces : wf nf nc cf ->
  ((exists f, In f faces /\ ~ (- Z.of_nat nf <= f < Z.of_nat nf)) ->
     signs_cells_idx nf cf faces = Err2 IndexErr2) /\
  ((forall f, In f faces -> - Z.of_nat nf <= f < Z.of_nat nf) ->
     let fw := map (wrap nf) faces in
     ((forall f, In f fw -> one_adjacent cf f) ->
        exists sgn ci, signs_cells_idx nf cf faces = Ok2 (sgn, ci) /\
          length sgn = length faces /\ length ci = length faces /\
          forall j c v, (j < length faces)%nat -> In (nth j fw 0, c, v) cf ->
                        nth j ci 0 = c /\ nth j sgn 0 = v) /\
     ((exists f, In f fw /\ ~ one_adjacent cf f) -> signs_cells_idx nf cf faces = Err2 ValueErr2)).
Proof.
  intro Hwf. unfold signs_cells_idx. split.
  - intros (f & Hf & Hout).
    assert (forallb (in_range nf) faces = false) as ->; [|reflexivity].
    destruct (forallb (in_range nf) faces) eqn:E; [|reflexivity]. exfalso. apply Hout.
    rewrite forallb_forall in E. specialize (E f Hf). unfold in_range in E.
    apply andb_true_iff in E. destruct E as [E1 E2]. apply Z.leb_le in E1. apply Z.ltb_lt in E2. lia.
  - intros Hin. cbn zeta.
    assert (forallb (in_range nf) faces = true) as ->.
    { apply forallb_forall. intros f Hf. specialize (Hin f Hf). unfold in_range.
      apply andb_true_iff. split; [apply Z.leb_le|apply Z.ltb_lt]; lia. }
    cbn [negb].
    assert (Permutation (argsort faces) (seq 0 (length (map (wrap nf) faces)))) as HP
        by (rewrite map_length; apply argsort_perm).
    assert (forall f, In f (map (wrap nf) faces) -> 0 <= f < Z.of_nat nf) as Hr.
    { intros f Hf. apply in_map_iff in Hf. destruct Hf as (x & <- & Hx). apply wrap_range. auto. }
    destruct (signs_cells_perm_spec nf nc cf _ _ Hwf HP Hr) as [Hok Herr]. split.
    + intro Hb. destruct (Hok Hb) as (sgn & ci & E & L1 & L2 & Hv). rewrite map_length in *.
      exists sgn, ci. rewrite E. auto.
    + intro Hb. rewrite (Herr Hb). reflexivity.
Qed.

(* ------------------------------------------------------------------------------------ *)
(* set_periodic_map *)
Definition pm_valid (nf : nat) (pm : list (list Z)) : Prop :=
  length pm = 2%nat /\ concat pm <> [] /\ forall i, In i (concat pm) -> 0 <= i < Z.of_nat nf.

Lemma fold_max_spec l : forall a, (forall x, In x (a :: l) -> x <= fold_left Z.max l a) /\ In (fold_left Z.max l a) (a :: l).
Proof.
  induction l as [|b l IH]; intro a; cbn [fold_left].
  - split; [intros x [<-|[]]; lia|left; reflexivity].
  - destruct (IH (Z.max a b)) as [H1 H2]. split.
    + intros x [<-|[<-|Hx]].
      * specialize (H1 (Z.max a b) (or_introl eq_refl)). lia.
      * specialize (H1 (Z.max a b) (or_introl eq_refl)). lia.
      * apply H1. right. exact Hx.
    + destruct H2 as [H2|H2]; [|right; right; exact H2].
      rewrite <- H2. destruct (Z.max_spec a b) as [[_ ->]|[_ ->]]; [right; left|left]; reflexivity.
Qed.

Lemma fold_min_spec l : forall a, (forall x, In x (a :: l) -> fold_left Z.min l a <= x) /\ In (fold_left Z.min l a) (a :: l).
Proof.
  induction l as [|b l IH]; intro a; cbn [fold_left].
  - split; [intros x [<-|[]]; lia|left; reflexivity].
  - destruct (IH (Z.min a b)) as [H1 H2]. split.
    + intros x [<-|[<-|Hx]].
      * specialize (H1 (Z.min a b) (or_introl eq_refl)). lia.
      * specialize (H1 (Z.min a b) (or_introl eq_refl)). lia.
      * apply H1. right. exact Hx.
    + destruct H2 as [H2|H2]; [|right; right; exact H2].
      rewrite <- H2. destruct (Z.min_spec a b) as [[_ ->]|[_ ->]]; [left|right; left]; reflexivity.
Qed.

Lemma updb_length l : forall i x, length (updb l i x) = length l.
Proof. induction l; intros [|i] x; cbn; auto. Qed.
Lemma nth_updb_same l : forall i x d, (i < length l)%nat -> nth i (updb l i x) d = x.
Proof. induction l; intros [|i] x d H; cbn in *; try lia; auto. apply IHl. lia. Qed.
Lemma nth_updb_other l : forall i j x d, i <> j -> nth j (updb l i x) d = nth j l d.
Proof. induction l; intros [|i] [|j] x d H; cbn; auto; try congruence. Qed.

Lemma clear_spec flat : forall tag f, (f < length tag)%nat -> (forall i, In i flat -> 0 <= i) ->
  let t := fold_left (fun t i => updb t (Z.to_nat i) false) flat tag in
  length t = length tag /\
  nth f t false = nth f tag false && negb (existsb (Z.eqb (Z.of_nat f)) flat).
Proof.
  induction flat as [|i flat IH]; intros tag f Hf Hpos; cbn [fold_left existsb].
  - split; [reflexivity|]. rewrite andb_true_r. reflexivity.
  - assert (0 <= i) as Hi by (apply Hpos; left; reflexivity).
    destruct (IH (updb tag (Z.to_nat i) false) f) as [L N].
    + rewrite updb_length. exact Hf.
    + intros; apply Hpos; right; assumption.
    + cbn zeta in *. rewrite updb_length in L. split; [exact L|]. rewrite N.
      destruct (Z.eqb_spec (Z.of_nat f) i) as [E|E].
      * assert (Z.to_nat i = f) as -> by lia. rewrite nth_updb_same by exact Hf. cbn. rewrite andb_false_r. reflexivity.
      * rewrite nth_updb_other by lia. cbn [orb]. reflexivity.
Qed.

Lemma set_periodic_spec tag nf pm : length tag = nf ->
  (pm_valid nf pm ->
     exists t, set_periodic tag nf pm = (Ok2 t, true) /\ length t = nf /\
       forall f, (f < nf)%nat ->
         nth f t false = nth f tag false && negb (existsb (Z.eqb (Z.of_nat f)) (concat pm))) /\
  (~ pm_valid nf pm -> set_periodic tag nf pm = (Err2 ValueErr2, false)).
Proof.
  intro Ht. unfold set_periodic, pm_valid. split.
  - intros (H2 & Hne & Hr). rewrite H2. cbn [Nat.eqb negb].
    destruct (concat pm) as [|a l] eqn:EF; [congruence|].
    unfold maxZ, minZ. destruct (fold_max_spec l a) as [_ Hmax]. destruct (fold_min_spec l a) as [_ Hmin].
    pose proof (Hr _ Hmax) as R1. pose proof (Hr _ Hmin) as R2.
    destruct (Z.leb_spec (Z.of_nat nf) (fold_left Z.max l a)); [lia|].
    destruct (Z.ltb_spec (fold_left Z.min l a) 0); [lia|].
    eexists. split; [reflexivity|].
    split.
    + destruct nf as [|nf'].
      * specialize (Hr a (or_introl eq_refl)). lia.
      * destruct (clear_spec (a :: l) tag 0%nat) as [L _]; [lia|intros i Hi; specialize (Hr i Hi); lia|].
        cbn zeta in L. rewrite L. exact Ht.
    + intros f Hf. destruct (clear_spec (a :: l) tag f) as [_ N]; [lia|intros i Hi; specialize (Hr i Hi); lia|].
      exact N.
  - intro Hnv. destruct (Nat.eqb_spec (length pm) 2) as [H2|H2]; cbn [negb]; [|reflexivity].
    destruct (concat pm) as [|a l] eqn:EF; [reflexivity|].
    unfold maxZ, minZ. destruct (fold_max_spec l a) as [Hmax _]. destruct (fold_min_spec l a) as [Hmin _].
    destruct (Z.leb_spec (Z.of_nat nf) (fold_left Z.max l a)); [reflexivity|].
    destruct (Z.ltb_spec (fold_left Z.min l a) 0); [reflexivity|].
    exfalso. apply Hnv. split; [exact H2|]. split; [discriminate|].
    intros i Hi. specialize (Hmax i Hi). specialize (Hmin i Hi). lia.
Qed.
