(* C40 — instance independence: a homomorphism between two number records commutes with
   every function of the model (constructors with their tests, rotate, copy, restriction,
   histories).  Instance: Q2R from the rational instance executed by the tie to the reals. *)
From Coq Require Import List ZArith Bool Lia.
Import ListNotations.
From PP Require Import Model.C40 Proofs.C40.

Definition rmap {A B} (f : A -> B) (r : res A) : res B :=
  match r with Ok a => Ok (f a) | Err e => Err e end.

Section Hom.
  Context {A B : Type} (oa : numops A) (ob : numops B) (h : A -> B).
  Hypothesis h_zero : h (zero oa) = zero ob.
  Hypothesis h_add : forall x y, h (add oa x y) = add ob (h x) (h y).
  Hypothesis h_mul : forall x y, h (mul oa x y) = mul ob (h x) (h y).
  Hypothesis h_sub : forall x y, h (sub oa x y) = sub ob (h x) (h y).
  Hypothesis h_neg : forall x, isneg ob (h x) = isneg oa x.

  Definition hrow (r : row A) : row B := let '(a, b, c) := r in (h a, h b, h c).
  Definition hm (m : m33 A) : m33 B := let '(r0, r1, r2) := m in (hrow r0, hrow r1, hrow r2).

  Lemma get_hm : forall m i j, get (hm m) i j = h (get m i j).
  Proof. intros [[[[a b] c] [[d e] f]] [[g k] l]] i j; destruct i, j; reflexivity. Qed.

  Lemma nthT_hom : forall l c, nthT ob (map h l) c = h (nthT oa l c).
  Proof. intros l c. unfold nthT. rewrite <- h_zero. apply map_nth. Qed.

  Lemma any_neg_hom : forall l, any_neg ob (map h l) = any_neg oa l.
  Proof.
    unfold any_neg. induction l as [|x l IH]; cbn; [reflexivity|]. now rewrite h_neg, IH.
  Qed.

  Definition omap (o : option (list A)) : option (list B) := option_map (map h) o.

  Lemma zeros_hom : forall l,
    map (mul ob (zero ob)) (map h l) = map h (map (mul oa (zero oa)) l).
  Proof. intros l. rewrite !map_map. apply map_ext. intros x. now rewrite h_mul, h_zero. Qed.

  Lemma rot1_hom : forall R K, rot1 ob (hm R) (hm K) = hm (rot1 oa R K).
  Proof.
    intros [[[[a b] c] [[d e] f]] [[g k] l]] [[[[a' b'] c'] [[d' e'] f']] [[g' k'] l']].
    unfold rot1, build, sum3; cbn. rewrite !h_add, !h_mul, !h_add, !h_mul. reflexivity.
  Qed.

  Lemma rotate_hom : forall R t, rotate ob (hm R) (map hm t) = map hm (rotate oa R t).
  Proof.
    intros R t. unfold rotate. rewrite !map_map. apply map_ext. intros K. apply rot1_hom.
  Qed.

  Lemma second_order_hom : forall kxx kyy kzz kxy kxz kyz,
    second_order ob (map h kxx) (omap kyy) (omap kzz) (omap kxy) (omap kxz) (omap kyz) =
    rmap (map hm) (second_order oa kxx kyy kzz kxy kxz kyz).
  Proof.
    intros kxx kyy kzz kxy kxz kyz. unfold second_order. rewrite map_length, any_neg_hom.
    destruct (any_neg oa kxx); [reflexivity|].
    set (z := map (mul oa (zero oa)) kxx).
    assert (D : forall o d, match omap o with Some a => a | None => map h d end =
                            map h (match o with Some a => a | None => d end))
      by (intros [a|] d; reflexivity).
    rewrite zeros_hom. fold z. rewrite !D.
    set (yy := match kyy with Some a => a | None => kxx end).
    set (xy := match kxy with Some a => a | None => z end).
    set (zz := match kzz with Some a => a | None => kxx end).
    set (xz := match kxz with Some a => a | None => z end).
    set (yz := match kyz with Some a => a | None => z end).
    unfold cellwise.
    match goal with |- (if any_neg ob (map ?f ?l) then _ else _) = _ =>
      replace (map f l) with
        (map h (map (fun c => sub oa (mul oa (nthT oa kxx c) (nthT oa yy c))
                                      (mul oa (nthT oa xy c) (nthT oa xy c))) l))
    end.
    2:{ rewrite map_map. apply map_ext. intros c. now rewrite !nthT_hom, h_sub, !h_mul. }
    rewrite any_neg_hom.
    match goal with |- (if ?b then _ else _) = rmap _ (if ?b then _ else _) =>
      destruct b; [reflexivity|] end.
    match goal with |- (if any_neg ob (map ?f ?l) then _ else _) = _ =>
      replace (map f l) with
        (map h (map (fun c =>
           add oa (sub oa (mul oa (nthT oa kxx c)
                                  (sub oa (mul oa (nthT oa yy c) (nthT oa zz c))
                                          (mul oa (nthT oa yz c) (nthT oa yz c))))
                          (mul oa (nthT oa xy c)
                                  (sub oa (mul oa (nthT oa xy c) (nthT oa zz c))
                                          (mul oa (nthT oa xz c) (nthT oa yz c)))))
                  (mul oa (nthT oa xz c)
                          (sub oa (mul oa (nthT oa xy c) (nthT oa yz c))
                                  (mul oa (nthT oa xz c) (nthT oa yy c))))) l))
    end.
    2:{ rewrite map_map. apply map_ext. intros c.
        now rewrite !nthT_hom, h_add, !h_sub, !h_mul, !h_sub, !h_mul. }
    rewrite any_neg_hom.
    match goal with |- (if ?b then _ else _) = rmap _ (if ?b then _ else _) =>
      destruct b; [reflexivity|] end.
    cbn [rmap]. f_equal. rewrite map_map. apply map_ext. intros c.
    rewrite !nthT_hom. reflexivity.
  Qed.

  Lemma copy2_hom : forall t, copy2 ob (map hm t) = rmap (map hm) (copy2 oa t).
  Proof.
    intros t. unfold copy2. rewrite <- second_order_hom. unfold omap, option_map.
    rewrite !map_map.
    repeat match goal with |- context [map (fun x => get (hm x) ?i ?j) t] =>
      rewrite (map_ext (fun x => get (hm x) i j) (fun x => h (get x i j)))
        by (intros; apply get_hm) end.
    reflexivity.
  Qed.

  Lemma restrict2_hom : forall t cells,
    restrict2 ob (map hm t) cells = rmap (map hm) (restrict2 oa t cells).
  Proof.
    intros t cells. unfold restrict2. rewrite copy2_hom.
    destruct (copy2 oa t) as [t'|e]; cbn [rmap]; [|reflexivity].
    rewrite take_cells_map. destruct (take_cells t' cells); reflexivity.
  Qed.

  Definition hop (o : @op2 A) : @op2 B :=
    match o with Rotate R => Rotate (hm R) | Restrict c => Restrict c | Copy => Copy end.

  Lemma run2_hom : forall ops_ t,
    run2 ob (map hm t) (map hop ops_) = map (rmap (map hm)) (run2 oa t ops_).
  Proof.
    induction ops_ as [|o r IH]; intros t; cbn [run2 map hop]; [reflexivity|].
    destruct o as [R|cells|]; cbn [hop run2 map].
    - rewrite rotate_hom, IH. reflexivity.
    - rewrite restrict2_hom. destruct (restrict2 oa t cells) as [t'|e]; cbn [rmap map];
        now rewrite IH.
    - rewrite copy2_hom. destruct (copy2 oa t) as [t'|e]; cbn [rmap map]; now rewrite IH.
  Qed.

  (* fourth order *)
  Lemma nmul_hom : forall n x, h (nmul oa n x) = nmul ob n (h x).
  Proof.
    induction n as [|n IH]; intros x; [exact h_zero|].
    destruct n as [|n]; [reflexivity|].
    change (nmul oa (S (S n)) x) with (add oa x (nmul oa (S n) x)).
    change (nmul ob (S (S n)) (h x)) with (add ob (h x) (nmul ob (S n) (h x))).
    now rewrite h_add, IH.
  Qed.

  Lemma stiff_cell_hom : forall mu la,
    stiff_cell ob (h mu) (h la) = map (map h) (stiff_cell oa mu la).
  Proof.
    intros mu la. unfold stiff_cell. rewrite map_map. apply map_ext. intros rows.
    rewrite map_map. apply map_ext. intros ab. now rewrite h_add, !nmul_hom.
  Qed.

  Definition h4 (t : @tensor4 A) : @tensor4 B :=
    {| t_mu := map h (t_mu t); t_lmbda := map h (t_lmbda t);
       t_values := map (map (map h)) (t_values t) |}.

  Lemma combine_map_hom : forall (l1 l2 : list A),
    combine (map h l1) (map h l2) = map (fun p => (h (fst p), h (snd p))) (combine l1 l2).
  Proof.
    induction l1 as [|x l1 IH]; intros [|y l2]; cbn; try reflexivity. now rewrite IH.
  Qed.

  Lemma fourth_order_hom : forall mu la,
    fourth_order ob (map h mu) (map h la) = rmap h4 (fourth_order oa mu la).
  Proof.
    intros mu la. unfold fourth_order. rewrite !map_length.
    destruct (Nat.eqb (length mu) (length la)); cbn [negb rmap]; [|reflexivity].
    unfold h4; cbn [t_mu t_lmbda t_values]. f_equal. f_equal.
    rewrite combine_map_hom, !map_map. apply map_ext. intros [m l]. cbn [fst snd].
    apply stiff_cell_hom.
  Qed.

  Lemma copy4_hom : forall t, copy4 ob (h4 t) = rmap h4 (copy4 oa t).
  Proof.
    intros t. unfold copy4. unfold h4 at 1 2; cbn [t_mu t_lmbda t_values].
    rewrite fourth_order_hom. destruct (fourth_order oa (t_mu t) (t_lmbda t)) as [c|e];
      cbn [rmap]; reflexivity.
  Qed.

  Lemma restrict4_hom : forall t cells,
    restrict4 ob (h4 t) cells = rmap h4 (restrict4 oa t cells).
  Proof.
    intros t cells. unfold restrict4. rewrite copy4_hom.
    destruct (copy4 oa t) as [c|e]; cbn [rmap]; [|reflexivity].
    unfold h4 at 1 2 3; cbn [t_mu t_lmbda t_values]. rewrite !take_cells_map.
    destruct (take_cells (t_mu c) cells); [|reflexivity].
    destruct (take_cells (t_lmbda c) cells); [|reflexivity].
    match goal with |- context [match ?X with Ok r => Ok (map (map (map h)) r) | Err e => Err e end] => destruct X eqn:E1 end; match goal with |- context [take_cells ?l cells] => destruct (take_cells l cells) eqn:E2 end;
    (match type of E1 with _ = ?r1 => match type of E2 with _ = ?r2 => assert (HH : r1 = r2) by (rewrite <- E1; exact E2) end end); try discriminate HH; try (injection HH as ->); reflexivity.
  Qed.
End Hom.

(* all commutation facts in one statement *)
Lemma hom_all : forall {A B : Type} (oa : numops A) (ob : numops B) (h : A -> B),
  h (zero oa) = zero ob ->
  (forall x y, h (add oa x y) = add ob (h x) (h y)) ->
  (forall x y, h (mul oa x y) = mul ob (h x) (h y)) ->
  (forall x y, h (sub oa x y) = sub ob (h x) (h y)) ->
  (forall x, isneg ob (h x) = isneg oa x) ->
  (forall kxx kyy kzz kxy kxz kyz,
     second_order ob (map h kxx) (omap h kyy) (omap h kzz) (omap h kxy) (omap h kxz) (omap h kyz)
     = rmap (map (hm h)) (second_order oa kxx kyy kzz kxy kxz kyz)) /\
  (forall R t, rotate ob (hm h R) (map (hm h) t) = map (hm h) (rotate oa R t)) /\
  (forall t, copy2 ob (map (hm h) t) = rmap (map (hm h)) (copy2 oa t)) /\
  (forall t cells, restrict2 ob (map (hm h) t) cells = rmap (map (hm h)) (restrict2 oa t cells)) /\
  (forall ops_ t, run2 ob (map (hm h) t) (map (hop h) ops_)
                  = map (rmap (map (hm h))) (run2 oa t ops_)) /\
  (forall mu la, fourth_order ob (map h mu) (map h la) = rmap (h4 h) (fourth_order oa mu la)) /\
  (forall t, copy4 ob (h4 h t) = rmap (h4 h) (copy4 oa t)) /\
  (forall t cells, restrict4 ob (h4 h t) cells = rmap (h4 h) (restrict4 oa t cells)).
Proof.
  intros A B oa ob h H0 Ha Hm Hs Hn. repeat split.
  - apply second_order_hom; auto.
  - apply rotate_hom; auto.
  - apply copy2_hom; auto.
  - apply restrict2_hom; auto.
  - apply run2_hom; auto.
  - apply fourth_order_hom; auto.
  - apply copy4_hom; auto.
  - apply restrict4_hom; auto.
Qed.

(* the instance used by the tie *)
From Coq Require Import QArith Qreals Reals Lra.

Definition ROpsT : numops R := {|
  zero := 0%R; one := 1%R; add := Rplus; mul := Rmult; sub := Rminus;
  isneg := fun x => if Rlt_dec x 0 then true else false |}.

Lemma Q2R_red : forall q, Q2R (Qred q) = Q2R q.
Proof. intros q. apply Qeq_eqR. apply Qred_correct. Qed.

Lemma Q2R_hom :
  Q2R (zero QOps) = zero ROpsT /\
  (forall x y, Q2R (add QOps x y) = add ROpsT (Q2R x) (Q2R y)) /\
  (forall x y, Q2R (mul QOps x y) = mul ROpsT (Q2R x) (Q2R y)) /\
  (forall x y, Q2R (sub QOps x y) = sub ROpsT (Q2R x) (Q2R y)) /\
  (forall x, isneg ROpsT (Q2R x) = isneg QOps x).
Proof.
  repeat split.
  - unfold Q2R; cbn. lra.
  - intros x y. cbn [add QOps ROpsT]. now rewrite Q2R_red, Q2R_plus.
  - intros x y. cbn [mul QOps ROpsT]. now rewrite Q2R_red, Q2R_mult.
  - intros x y. cbn [sub QOps ROpsT]. now rewrite Q2R_red, Q2R_minus.
  - intros [n d]. cbn [isneg QOps ROpsT Qnum]. unfold Q2R; cbn [Qnum Qden].
    assert (0 < / IZR (Z.pos d))%R as Hd by (apply Rinv_0_lt_compat, IZR_lt; reflexivity).
    destruct (Z.ltb_spec n 0) as [Hn|Hn]; destruct (Rlt_dec (IZR n * / IZR (Z.pos d)) 0) as [Hr|Hr];
      try reflexivity; exfalso.
    + apply Hr. apply IZR_lt in Hn. nra.
    + apply IZR_le in Hn. nra.
Qed.

Lemma transfer_Q_R :
  (forall kxx kyy kzz kxy kxz kyz,
     second_order ROpsT (map Q2R kxx) (omap Q2R kyy) (omap Q2R kzz) (omap Q2R kxy)
                  (omap Q2R kxz) (omap Q2R kyz)
     = rmap (map (hm Q2R)) (second_order QOps kxx kyy kzz kxy kxz kyz)) /\
  (forall ops_ t, run2 ROpsT (map (hm Q2R) t) (map (hop Q2R) ops_)
                  = map (rmap (map (hm Q2R))) (run2 QOps t ops_)) /\
  (forall mu la, fourth_order ROpsT (map Q2R mu) (map Q2R la)
                 = rmap (h4 Q2R) (fourth_order QOps mu la)) /\
  (forall t, copy4 ROpsT (h4 Q2R t) = rmap (h4 Q2R) (copy4 QOps t)) /\
  (forall t cells, restrict4 ROpsT (h4 Q2R t) cells = rmap (h4 Q2R) (restrict4 QOps t cells)).
Proof.
  destruct Q2R_hom as (H0 & Ha & Hm & Hs & Hn).
  destruct (hom_all QOps ROpsT Q2R H0 Ha Hm Hs Hn) as (A1 & _ & _ & _ & A5 & A6 & A7 & A8).
  repeat split; auto.
Qed.

(* the argument checks: success exactly for two 1-D arrays of equal size *)
Lemma fourth_order_checked_spec : forall {T} (ops : numops T) (mu la : arg T),
  (forall t, fourth_order_checked ops mu la = Ok t ->
     exists dm dl, mu = Arr 1%nat dm /\ la = Arr 1%nat dl /\ length dm = length dl /\
                   fourth_order ops dm dl = Ok t) /\
  (forall e, fourth_order_checked ops mu la = Err e ->
     e = ValueErr /\
     (mu = NotArray \/ la = NotArray \/ (exists n d, mu = Arr n d /\ n <> 1%nat) \/
      (exists n d, la = Arr n d /\ n <> 1%nat) \/
      (exists dm dl, mu = Arr 1%nat dm /\ la = Arr 1%nat dl /\ length dm <> length dl))).
Proof.
  intros T ops mu la. unfold fourth_order_checked.
  destruct mu as [|nm dm]; [split; [discriminate|intros e [= <-]; auto]|].
  destruct la as [|nl dl]; [split; [discriminate|intros e [= <-]; auto]|].
  destruct (Nat.eqb nm 1%nat) eqn:Em; cbn [negb].
  2:{ apply Nat.eqb_neq in Em. split; [discriminate|]. intros e [= <-]. split; auto.
      right. right. left. eauto. }
  destruct (Nat.eqb nl 1%nat) eqn:El; cbn [negb].
  2:{ apply Nat.eqb_neq in El. split; [discriminate|]. intros e [= <-]. split; auto.
      right. right. right. left. eauto. }
  apply Nat.eqb_eq in Em, El. subst. unfold fourth_order.
  destruct (Nat.eqb (length dm) (length dl)) eqn:E; cbn [negb].
  - apply Nat.eqb_eq in E. split; [|discriminate]. intros t Ht. exists dm, dl.
    repeat split; auto. now rewrite E, Nat.eqb_refl.
  - apply Nat.eqb_neq in E. split; [discriminate|]. intros e [= <-]. split; auto.
    right. right. right. right. eauto.
Qed.
