(* C05 — further proofs (second round): uniqueness of the owner of an index, projection
   columns strictly increasing and in global order, additive writes onto arbitrary stored
   values, statements under wf_op only (create_variables now rejects repeated grids). *)
From Coq Require Import List ZArith Bool Arith Lia Sorted Permutation.
Import ListNotations.
From PP Require Import Model.C05 Proofs.C05.

(* ------------------------------------------------------------------------------------ *)
(* uniqueness of the owner *)
Lemma owner_unique g s v v' i :
  Inv g s -> In v (vars s) -> In v' (vars s) ->
  In i (block_of s (vid v)) -> In i (block_of s (vid v')) -> v = v'.
Proof.
  intros HI Hv Hv' Hi Hi'.
  destruct (order_nth g s v HI Hv) as [k [Hk [_ Hs]]].
  destruct (order_nth g s v' HI Hv') as [k' [Hk' [_ Hs']]].
  unfold block_of in Hi, Hi'.
  rewrite (dofs_of_one g s v k HI Hk) in Hi. rewrite (dofs_of_one g s v' k' HI Hk') in Hi'.
  apply in_seq in Hi. apply in_seq in Hi'.
  pose proof (offs_S _ _ _ Hs) as E. pose proof (offs_S _ _ _ Hs') as E'.
  destruct (Nat.lt_trichotomy k k') as [Hlt|[Heq|Hgt]].
  - pose proof (offs_mono (sizes s) (S k) k' ltac:(lia)). lia.
  - subst k'. congruence.
  - pose proof (offs_mono (sizes s) (S k') k ltac:(lia)). lia.
Qed.

(* ------------------------------------------------------------------------------------ *)
(* projection columns *)
Lemma SS_app_inv {A} (R : A -> A -> Prop) l1 l2 :
  StronglySorted R (l1 ++ l2) ->
  StronglySorted R l1 /\ StronglySorted R l2 /\ (forall a b, In a l1 -> In b l2 -> R a b).
Proof.
  induction l1 as [|x l1 IH]; cbn; intro H.
  - split; [constructor|]. split; auto. intros a b [].
  - inversion H as [|? ? Hs Hf]; subst. destruct (IH Hs) as [H1 [H2 H3]].
    rewrite Forall_forall in Hf. split; [|split; auto].
    + constructor; auto. apply Forall_forall. intros y Hy. apply Hf. apply in_app_iff. auto.
    + intros a b [Ea|Ha] Hb; [subst; apply Hf; apply in_app_iff; auto|auto].
Qed.

Lemma SS_concat_filter {A B} (R : B -> B -> Prop) (f : A -> list B) p : forall ids,
  StronglySorted R (concat (map f ids)) -> StronglySorted R (concat (map f (filter p ids))).
Proof.
  induction ids as [|a r IH]; cbn; intro H; auto.
  apply SS_app_inv in H. destruct H as [H1 [H2 H3]].
  destruct (p a); cbn; auto. apply SS_app; auto.
  intros x y Hx Hy. apply H3; auto.
  apply in_concat in Hy. destruct Hy as [b [Hb Hy]]. apply in_map_iff in Hb.
  destruct Hb as [c [E Hc]]. apply filter_In in Hc. apply in_concat. exists b. split; auto.
  apply in_map_iff. exists c. tauto.
Qed.

Lemma Permutation_concat_map {A B} (f : A -> list B) l1 l2 :
  Permutation l1 l2 -> Permutation (concat (map f l1)) (concat (map f l2)).
Proof.
  induction 1; cbn; auto.
  - apply Permutation_app_head. auto.
  - rewrite !app_assoc. apply Permutation_app_tail. apply Permutation_app_comm.
  - eapply perm_trans; eauto.
Qed.

Lemma sorted_perm_unique : forall l1 l2,
  StronglySorted le l1 -> StronglySorted le l2 -> Permutation l1 l2 -> l1 = l2.
Proof.
  induction l1 as [|a l1 IH]; intros l2 H1 H2 HP.
  - apply Permutation_nil in HP. auto.
  - destruct l2 as [|b l2]; [apply Permutation_sym, Permutation_nil in HP; discriminate|].
    inversion H1 as [|? ? Hs1 Hf1]; subst. inversion H2 as [|? ? Hs2 Hf2]; subst.
    rewrite Forall_forall in Hf1, Hf2.
    assert (a = b).
    { assert (Hb : In b (a :: l1)) by (apply (Permutation_in _ (Permutation_sym HP)); left; auto).
      assert (Ha : In a (b :: l2)) by (apply (Permutation_in _ HP); left; auto).
      destruct Hb as [|Hb]; auto. destruct Ha as [|Ha]; auto.
      specialize (Hf1 b Hb). specialize (Hf2 a Ha). lia. }
    subst b. f_equal. apply IH; auto. eapply Permutation_cons_inv; eauto.
Qed.

Lemma SS_lt_le l : StronglySorted lt l -> StronglySorted le l.
Proof. intro H. eapply SS_weaken; [exact H|]. intros; lia. Qed.

(* for pairwise distinct registered variables the columns are strictly increasing and are
   the blocks of the selected variables in global (block) order: exactly the positions
   set/get_variable_values use *)
Lemma projection_distinct g s r :
  Inv g s -> truthy r = true -> NoDup (parse s r) ->
  (forall id, In id (parse s r) -> In id (block_ids s)) ->
  projection_to s r =
    OProjM (concat (map (block_of s) (selected_ids s r))) (num_dofs s) /\
  StronglySorted lt (concat (map (block_of s) (selected_ids s r))) /\
  length (concat (map (block_of s) (selected_ids s r))) = need s r.
Proof.
  intros HI Ht Hnd Hreg.
  assert (Hsorted : StronglySorted lt (concat (map (block_of s) (selected_ids s r)))).
  { unfold selected_ids. apply SS_concat_filter. rewrite (partition_cover g s HI). apply SS_seq. }
  split; [|split; auto].
  destruct (projection_ok g s r HI Ht Hreg) as [cols [E [Hs [Hp _]]]]. rewrite E. f_equal.
  apply sorted_perm_unique; auto; [apply SS_lt_le; auto|].
  eapply perm_trans; [exact Hp|]. apply Permutation_concat_map.
  apply NoDup_Permutation; auto.
  - unfold selected_ids. apply NoDup_filter.
    destruct (layout g s HI) as [_ [_ [_ [H _]]]]. exact H.
  - intro id. unfold selected_ids. rewrite filter_In, memb_In. split; [|tauto].
    intro H. split; auto.
Qed.

(* ------------------------------------------------------------------------------------ *)
(* additive writes onto arbitrary stored values *)
Section AddAny.
  Variable g : mdgrid.
  Variable s : st.
  Variable pids : list nat.
  Variable xs : list Z.
  Variable w : wloc.

  Definition has_values (sto : list (skey * list Z)) (vs : list var) : Prop :=
    forall v l, In v (selv pids vs) -> In l (wlocs w) ->
      exists a, slookup sto (l, vname v, vdom v) = Some a /\ length a = ndofv g v.

  Lemma get_loop_frame sto sto' l : forall items vs, Forall2 (item_rel g s) items vs ->
    (forall v, In v (selv pids vs) ->
       slookup sto' (l, vname v, vdom v) = slookup sto (l, vname v, vdom v)) ->
    get_loop (with_store s sto') items pids l = get_loop (with_store s sto) items pids l.
  Proof.
    induction 1 as [|[id num] v items vs [Hid [Hf Hn]] HF IH]; intro Hfr; [reflexivity|].
    cbn [fst snd] in *. subst id. cbn [get_loop]. unfold selv in *. cbn [filter] in Hfr.
    destruct (memb (vid v) pids) eqn:Em.
    - change (find_var (with_store s sto') (vid v)) with (find_var s (vid v)).
      change (find_var (with_store s sto) (vid v)) with (find_var s (vid v)).
      change (store (with_store s sto')) with sto'. change (store (with_store s sto)) with sto.
      rewrite Hf. rewrite (Hfr v (or_introl eq_refl)).
      rewrite IH by (intros; apply Hfr; right; auto). reflexivity.
    - apply IH. auto.
  Qed.

  Lemma add_any_loop : forall items vs, Forall2 (item_rel g s) items vs -> forall a sto,
    NoDup (map vkey (selv pids vs)) ->
    a + total g pids vs <= length xs ->
    has_values sto vs ->
    exists sto',
      set_loop s items pids xs w true a a sto = (sto', a + total g pids vs, None) /\
      (forall l, In l (wlocs w) -> exists old,
         get_loop (with_store s sto) items pids l = inl old /\
         length old = total g pids vs /\
         get_loop (with_store s sto') items pids l =
           inl (vadd old (slice xs a (a + total g pids vs)))) /\
      (forall k, (forall v l, In v (selv pids vs) -> In l (wlocs w) -> k <> (l, vname v, vdom v)) ->
         slookup sto' k = slookup sto k).
  Proof.
    induction 1 as [|[id num] v items vs [Hid [Hf Hn]] HF IH]; intros a sto Hnd Hx Hpre.
    - exists sto. unfold total. cbn. rewrite Nat.add_0_r. split; auto. split; auto.
      intros l _. exists []. repeat split; auto.
    - cbn [fst snd] in *. subst id. cbn [set_loop get_loop].
      unfold has_values, total, selv in *. cbn [filter] in *.
      destruct (memb (vid v) pids) eqn:Em.
      + cbn [map] in *. inversion Hnd as [|? ? Hnin Hnd']; subst.
        set (n := ndofv g v) in *.
        set (T := sum (map (ndofv g) (filter (fun v0 => memb (vid v0) pids) vs))) in *.
        assert (HT : sum (n :: map (ndofv g) (filter (fun v0 => memb (vid v0) pids) vs)) = n + T)
          by reflexivity.
        rewrite HT in *.
        rewrite Hn, Hf.
        assert (Hdiff : forall v' (l l' : loc), In v' (filter (fun v0 => memb (vid v0) pids) vs) ->
                          (l, vname v', vdom v') <> (l', vname v, vdom v)).
        { intros v' l l' Hv' Ek. inversion Ek. apply Hnin.
          apply in_map_iff. exists v'. unfold vkey. split; [congruence|auto]. }
        destruct (set_solution_add (vname v) (vdom v) (slice xs a (a + n)) (wlocs w) sto
                    (wlocs_NoDup w)) as [sto1 [E1 [G1 F1]]].
        { intros l Hl. destruct (Hpre v l (or_introl eq_refl) Hl) as [a0 [Ha0 Hlen]].
          exists a0. split; auto. rewrite slice_length by lia. lia. }
        rewrite E1.
        assert (Hpre1 : forall v' l, In v' (filter (fun v0 => memb (vid v0) pids) vs) ->
                   In l (wlocs w) ->
                   exists a0, slookup sto1 (l, vname v', vdom v') = Some a0 /\
                              length a0 = ndofv g v').
        { intros v' l Hv' Hl. rewrite F1 by (intros l' Hl'; apply Hdiff; auto).
          apply Hpre; auto. right; auto. }
        destruct (IH (a + n) sto1 Hnd' ltac:(lia) Hpre1) as [sto' [E2 [G2 F2]]].
        exists sto'. split; [|split].
        * rewrite E2. f_equal. f_equal. lia.
        * intros l Hl.
          change (find_var (with_store s sto') (vid v)) with (find_var s (vid v)).
          change (find_var (with_store s sto) (vid v)) with (find_var s (vid v)).
          change (store (with_store s sto')) with sto'.
          change (store (with_store s sto)) with sto.
          rewrite Hf.
          destruct (G1 l Hl) as [a0 [Ha0 Hs1]].
          destruct (Hpre v l (or_introl eq_refl) Hl) as [a0' [Ha0' Hlen]].
          rewrite Ha0 in Ha0'. inversion Ha0'; subst a0'.
          destruct (G2 l Hl) as [old' [Go [Lo Gn]]].
          rewrite (get_loop_frame sto sto1 l items vs HF) in Go
            by (intros v' Hv'; apply F1; intros l' Hl'; apply Hdiff; auto).
          exists (a0 ++ old'). rewrite Ha0, Go. split; auto. split.
          { rewrite app_length. lia. }
          assert (Hk : slookup sto' (l, vname v, vdom v) = Some (vadd a0 (slice xs a (a + n)))).
          { rewrite F2; auto. intros v' l' Hv' Hl' Ek. symmetry in Ek.
            apply (Hdiff v' l' l Hv'). auto. }
          rewrite Hk, Gn. f_equal.
          rewrite <- vadd_app by (rewrite slice_length by lia; lia).
          rewrite slice_app by lia.
          replace (a + n + T) with (a + (n + T)) by lia. reflexivity.
        * intros k Hk. rewrite F2 by (intros; apply Hk; auto; right; auto).
          apply F1. intros l Hl. apply Hk; auto. left. auto.
      + destruct (IH a sto Hnd Hx Hpre) as [sto' [E2 [G2 F2]]]. exists sto'. auto.
  Qed.
End AddAny.

(* every selected registered variable holds an array of its own size at every location
   that is written *)
Definition values_present (g : mdgrid) (s : st) (r : refs) (w : wloc) : Prop :=
  forall v l, In v (vars s) -> memb (vid v) (parse s r) = true -> In l (wlocs w) ->
    exists a, slookup (store s) (l, vname v, vdom v) = Some a /\ length a = ndofv g v.

Lemma set_additive_any g s r xs w :
  Inv g s -> NoDup (map vkey (vars s)) -> length xs = need s r -> values_present g s r w ->
  exists s', set_values s r xs w true = (s', ODone) /\
    vars s' = vars s /\ numbers s' = numbers s /\ sizes s' = sizes s /\
    forall l, In l (wlocs w) -> exists old,
      get_values s r l = OVals old /\ length old = need s r /\
      get_values s' r l = OVals (vadd old xs).
Proof.
  intros HI Hk Hx Hpres.
  assert (Hnd : NoDup (map vkey (selv (parse s r) (order g (vars s))))).
  { unfold selv. apply NoDup_map_filter. apply order_keys_NoDup; auto. }
  pose proof (need_total g s r HI) as Hneed.
  assert (Hpre : has_values g (parse s r) w (store s) (order g (vars s))).
  { intros v l Hv Hl. unfold selv in Hv. apply filter_In in Hv. destruct Hv as [Hv Em].
    apply in_order in Hv. apply Hpres; tauto. }
  destruct (add_any_loop g s (parse s r) xs w _ _ (items_rel g s HI) 0 (store s) Hnd
              ltac:(cbn [Nat.add]; lia) Hpre) as [sto' [E [G _]]].
  exists (with_store s sto'). unfold set_values. rewrite E. cbn [Nat.add].
  rewrite <- Hneed, <- Hx, Nat.eqb_refl. repeat split; auto.
  intros l Hl. destruct (G l Hl) as [old [Go [Lo Gn]]]. exists old.
  unfold get_values.
  change (numbers (with_store s sto')) with (numbers s).
  change (parse (with_store s sto') r) with (parse s r).
  assert (Es : with_store s (store s) = s) by (destruct s; reflexivity).
  rewrite Es in Go. rewrite Go, Gn. cbn [Nat.add]. rewrite <- Hneed.
  split; auto. split; [lia|].
  replace (slice xs 0 (need s r)) with xs by (rewrite <- Hx, slice_all; reflexivity).
  reflexivity.
Qed.

(* ------------------------------------------------------------------------------------ *)
(* statements over arbitrary histories, under wf_op only *)
Lemma thm_owner_unique g ops i v v' :
  Forall (wf_op g) ops ->
  let s := final g ops in
  In v (vars s) -> In v' (vars s) ->
  In i (block_of s (vid v)) -> In i (block_of s (vid v')) -> v = v'.
Proof. intros Hw s. apply (owner_unique g). apply final_Inv; auto. Qed.

Lemma thm_projection_distinct g ops r :
  Forall (wf_op g) ops ->
  let s := final g ops in
  truthy r = true -> NoDup (parse s r) ->
  (forall id, In id (parse s r) -> In id (block_ids s)) ->
  projection_to s r =
    OProjM (concat (map (block_of s) (selected_ids s r))) (num_dofs s) /\
  StronglySorted lt (concat (map (block_of s) (selected_ids s r))) /\
  length (concat (map (block_of s) (selected_ids s r))) = need s r.
Proof. intros Hw s. apply (projection_distinct g). apply final_Inv; auto. Qed.

Lemma thm_set_get_wf g ops r xs w :
  Forall (wf_op g) ops ->
  let s := final g ops in
  length xs = need s r ->
  exists s', step g s (OpSet r xs w false) = (s', ODone) /\
    vars s' = vars s /\ numbers s' = numbers s /\ sizes s' = sizes s /\
    forall l, In l (wlocs w) -> snd (step g s' (OpGet r l)) = OVals xs.
Proof.
  intros Hw s Hlen. destruct (final_Inv2_wf g ops Hw) as [HI Hk].
  destruct (set_get_roundtrip g s r xs w HI Hk Hlen) as [s' [E [H1 [H2 [H3 H4]]]]].
  exists s'. cbn [step snd]. auto.
Qed.

Lemma thm_set_wrong_size_wf g ops r xs w :
  Forall (wf_op g) ops ->
  let s := final g ops in
  length xs <> need s r -> snd (step g s (OpSet r xs w false)) = OErr AssertErr.
Proof.
  intros Hw s Hlen. destruct (final_Inv2_wf g ops Hw) as [HI Hk].
  cbn [step]. apply (set_wrong_size g); auto.
Qed.

Lemma thm_set_additive_any g ops r xs w :
  Forall (wf_op g) ops ->
  let s := final g ops in
  length xs = need s r -> values_present g s r w ->
  exists s', step g s (OpSet r xs w true) = (s', ODone) /\
    vars s' = vars s /\ numbers s' = numbers s /\ sizes s' = sizes s /\
    forall l, In l (wlocs w) -> exists old,
      snd (step g s (OpGet r l)) = OVals old /\ length old = need s r /\
      snd (step g s' (OpGet r l)) = OVals (vadd old xs).
Proof.
  intros Hw s Hlen Hp. destruct (final_Inv2_wf g ops Hw) as [HI Hk].
  destruct (set_additive_any g s r xs w HI Hk Hlen Hp) as [s' [E [H1 [H2 [H3 H4]]]]].
  exists s'. cbn [step snd]. auto.
Qed.

Lemma thm_set_add_wf g ops r xs ys w :
  Forall (wf_op g) ops ->
  let s := final g ops in
  length ys = need s r -> length xs = need s r ->
  exists s1 s2,
    step g s (OpSet r ys w false) = (s1, ODone) /\
    step g s1 (OpSet r xs w true) = (s2, ODone) /\
    forall l, In l (wlocs w) -> snd (step g s2 (OpGet r l)) = OVals (vadd ys xs).
Proof.
  intros Hw s Hy Hx. destruct (final_Inv2_wf g ops Hw) as [HI Hk].
  destruct (set_add_roundtrip g s r xs ys w HI Hk Hy Hx) as [s1 [s2 [H1 [H2 H3]]]].
  exists s1, s2. cbn [step snd]. auto.
Qed.
