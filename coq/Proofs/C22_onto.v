(* C22 — partition_structured: every part id is used. *)
From Coq Require Import List ZArith Bool Arith Lia Sorted.
Import ListNotations.
From PP Require Import Model.C22 Proofs.C22.
Open Scope Z_scope.

Lemma set_one_nth_other l i j : i <> j -> nth j (set_one l i) 0 = nth j l 0.
Proof.
  revert i j. induction l as [|x t IH]; intros [|i] [|j] H; cbn [set_one nth]; try reflexivity; try lia.
  apply IH. lia.
Qed.

Lemma set_one_sum_exact l i :
  (i < length l)%nat -> nth i l 0 = 0 -> sumZ (set_one l i) = sumZ l + 1.
Proof.
  revert i. induction l as [|x t IH]; intros [|i] Hi H0; cbn [length] in Hi; try lia;
    cbn [set_one sumZ nth] in *.
  - lia.
  - rewrite IH by (try lia; exact H0). lia.
Qed.

Definition paintn (l : list Z) (idx : list nat) : list Z := fold_left set_one idx l.

Lemma paintn_length idx : forall l, length (paintn l idx) = length l.
Proof.
  induction idx as [|i t IH]; intros l; cbn [paintn fold_left]; [reflexivity|].
  fold (paintn (set_one l i) t). rewrite IH. apply set_one_length.
Qed.

Lemma paintn_sum idx : forall l,
  StronglySorted lt idx -> Forall (fun i => (i < length l)%nat) idx ->
  (forall i0, hd_error idx = Some i0 -> forall i, (i0 <= i)%nat -> nth i l 0 = 0) ->
  sumZ (paintn l idx) = sumZ l + Z.of_nat (length idx).
Proof.
  induction idx as [|i0 t IH]; intros l Hs Hr Hz; cbn [paintn fold_left length]; [lia|].
  fold (paintn (set_one l i0) t).
  inversion Hs as [|? ? Hs' Hlt]; subst. inversion Hr as [|? ? Hi0 Hr']; subst.
  rewrite IH.
  - rewrite set_one_sum_exact; [lia|exact Hi0|]. apply (Hz i0 eq_refl). lia.
  - exact Hs'.
  - eapply Forall_impl; [|exact Hr']. cbn. intros a Ha. rewrite set_one_length. exact Ha.
  - intros i1 H1 i Hi. destruct t as [|a t']; [discriminate|]. cbn in H1. inversion H1; subst a.
    inversion Hlt as [|? ? Hlt1 _]; subst.
    rewrite set_one_nth_other by lia. apply (Hz i0 eq_refl). lia.
Qed.

Lemma paint_paintn is : forall l, paint l is = paintn l (map Z.to_nat is).
Proof.
  induction is as [|i t IH]; intros l; [reflexivity|].
  unfold paint, paintn in *. cbn [fold_left map]. apply IH.
Qed.

(* discrete intermediate values of a cumulative sum of 0/1 entries *)
Lemma cumsum_covers l : Forall bit l -> forall acc v,
  acc < v <= acc + sumZ l -> In v (cumsum_from acc l).
Proof.
  induction 1 as [|x t Hx Ht IH]; intros acc v Hv; cbn [sumZ cumsum_from] in *; [lia|].
  unfold bit in Hx. destruct (Z.eq_dec v (acc + x)) as [->|Hne]; [left; reflexivity|].
  right. apply IH. lia.
Qed.

Lemma firstn_seq' n : forall s m, (n <= m)%nat -> firstn n (seq s m) = seq s n.
Proof.
  induction n as [|n IH]; intros s m H; [reflexivity|].
  destruct m as [|m]; [lia|]. cbn [seq firstn]. f_equal. apply IH. lia.
Qed.

Lemma start_indices_exact fine coarse :
  1 <= coarse <= fine ->
  start_indices fine coarse
  = map (fun k => Z.of_nat k * (fine / coarse)) (seq 0 (Z.to_nat coarse)).
Proof.
  intros H. unfold start_indices, arange0.
  set (fpc := fine / coarse).
  assert (Hf : 1 <= fpc) by (apply Z.div_le_lower_bound; lia).
  assert (Hmul : coarse * fpc <= fine).
  { unfold fpc. apply Z.mul_div_le. lia. }
  set (n := Z.to_nat ((fine + fpc - 1) / fpc)).
  assert (Hn : (Z.to_nat coarse <= n)%nat).
  { unfold n. apply Z2Nat.inj_le; [lia| |].
    - apply Z.div_pos; lia.
    - apply Z.div_le_lower_bound; [lia|]. nia. }
  rewrite map_length, seq_length.
  destruct (Z.of_nat n >? coarse) eqn:E.
  - rewrite firstn_map, firstn_seq' by exact Hn. reflexivity.
  - assert (n = Z.to_nat coarse) by lia. rewrite H0. reflexivity.
Qed.

Lemma sorted_multiples (f : nat) : (0 < f)%nat -> forall m s,
  StronglySorted lt (map (fun k => (k * f)%nat) (seq s m)).
Proof.
  intros Hf. induction m as [|m IHm]; intros s; cbn [seq map]; [constructor|].
  constructor; [apply IHm|]. apply Forall_forall. intros y Hy. apply in_map_iff in Hy.
  destruct Hy as [k [<- Hk]]. apply in_seq in Hk. nia.
Qed.

(* along one axis every coarse index 0 .. coarse-1 occurs *)
Lemma dim_index_onto fine coarse l :
  1 <= coarse <= fine -> dim_index fine coarse = Ok l ->
  forall v, 0 <= v < coarse -> In v l.
Proof.
  intros H E v Hv. unfold dim_index in E.
  assert (Hf : 1 <= fine / coarse) by (apply Z.div_le_lower_bound; lia).
  destruct (coarse <=? 0) eqn:E1; [lia|].
  destruct (fine / coarse =? 0) eqn:E2; [lia|].
  inversion E; subst l; clear E.
  fold (paint (repeat 0 (Z.to_nat fine)) (start_indices fine coarse)).
  rewrite start_indices_exact by exact H. rewrite paint_paintn, map_map.
  set (fpc := fine / coarse) in *.
  set (idx := map (fun k => Z.to_nat (Z.of_nat k * fpc)) (seq 0 (Z.to_nat coarse))).
  set (z := repeat 0 (Z.to_nat fine)).
  assert (Hmul : coarse * fpc <= fine).
  { unfold fpc. apply Z.mul_div_le. lia. }
  assert (Hidx : idx = map (fun k => (k * Z.to_nat fpc)%nat) (seq 0 (Z.to_nat coarse))).
  { unfold idx. apply map_ext. intros k. rewrite Z2Nat.inj_mul by lia. rewrite Nat2Z.id. reflexivity. }
  assert (Hsorted : StronglySorted lt idx).
  { rewrite Hidx. apply sorted_multiples. lia. }
  assert (Hrange : Forall (fun i => (i < length z)%nat) idx).
  { rewrite Hidx. unfold z. rewrite repeat_length. apply Forall_forall. intros y Hy.
    apply in_map_iff in Hy. destruct Hy as [k [<- Hk]]. apply in_seq in Hk.
    assert (Z.of_nat (k * Z.to_nat fpc) < fine); [|lia].
    rewrite Nat2Z.inj_mul, Z2Nat.id by lia. nia. }
  assert (Hsum : sumZ (paintn z idx) = coarse).
  { rewrite paintn_sum; try assumption.
    - unfold z. rewrite sumZ_repeat0. unfold idx. rewrite map_length, seq_length. lia.
    - intros i0 _ i _. unfold z. destruct (lt_dec i (Z.to_nat fine)) as [Hl|Hl].
      + apply nth_repeat.
      + apply nth_overflow. rewrite repeat_length. lia. }
  assert (Hbits : Forall bit (paintn z idx)).
  { rewrite <- (map_id idx). unfold z.
    assert (Hp : forall is l, Forall bit l -> Forall bit (paintn l is)).
    { induction is as [|i t IHt]; intros l Hl; cbn [paintn fold_left]; [exact Hl|].
      apply IHt. apply set_one_bits, Hl. }
    rewrite map_id. apply Hp, repeat_bits. }
  apply in_map_iff. exists (v + 1). split; [lia|].
  apply cumsum_covers; [exact Hbits|]. lia.
Qed.

Lemma flat_map_In_const {A B} (f : A -> list B) l b : In b (flat_map f l) <-> exists a, In a l /\ In b (f a).
Proof. apply in_flat_map. Qed.

Theorem structured_partition_onto fine coarse ids :
  (1 <= length fine <= 3)%nat -> dims_ok fine coarse ->
  partition_structured fine coarse = Ok ids ->
  forall p, 0 <= p < prodZ coarse -> In p ids.
Proof.
  intros Hlen Hd E p Hp. unfold dims_ok in Hd.
  destruct fine as [|f0 [|f1 [|f2 [|f3 fr]]]]; cbn in Hlen; try lia.
  - inversion Hd as [|? c0 ? cr H0 Hr]; subst. inversion Hr; subst.
    cbn [partition_structured] in E. unfold prodZ in Hp; cbn in Hp.
    apply (dim_index_onto f0 c0 ids H0 E). lia.
  - inversion Hd as [|? c0 ? cr H0 Hr]; subst. inversion Hr as [|? c1 ? cr' H1 Hr']; subst.
    inversion Hr'; subst. cbn [partition_structured] in E.
    destruct (dim_index_ok f0 c0 H0) as [i0 [E0 _]]. destruct (dim_index_ok f1 c1 H1) as [i1 [E1 _]].
    rewrite E0, E1 in E. cbn [bind2] in E. inversion E; subst ids; clear E.
    unfold prodZ in Hp; cbn in Hp.
    apply in_flat_map. exists (p / c0). split.
    + apply (dim_index_onto f1 c1 i1 H1 E1). split; [apply Z.div_pos; lia|].
      apply Z.div_lt_upper_bound; lia.
    + apply in_map_iff. exists (p mod c0). split.
      * pose proof (Z.div_mod p c0 ltac:(lia)). lia.
      * apply (dim_index_onto f0 c0 i0 H0 E0). apply Z.mod_pos_bound. lia.
  - inversion Hd as [|? c0 ? cr H0 Hr]; subst. inversion Hr as [|? c1 ? cr' H1 Hr']; subst.
    inversion Hr' as [|? c2 ? cr'' H2 Hr'']; subst. inversion Hr''; subst.
    cbn [partition_structured] in E.
    destruct (dim_index_ok f0 c0 H0) as [i0 [E0 _]]. destruct (dim_index_ok f1 c1 H1) as [i1 [E1 _]].
    destruct (dim_index_ok f2 c2 H2) as [i2 [E2 _]].
    rewrite E0, E1, E2 in E. cbn [bind2] in E. inversion E; subst ids; clear E.
    unfold prodZ in Hp; cbn in Hp.
    set (q := p mod (c0 * c1)).
    assert (Hq : 0 <= q < c0 * c1) by (apply Z.mod_pos_bound; nia).
    pose proof (Z.div_mod p (c0 * c1) ltac:(nia)) as Dp. fold q in Dp.
    apply in_flat_map. exists (p / (c0 * c1)). split.
    + apply (dim_index_onto f2 c2 i2 H2 E2). split; [apply Z.div_pos; nia|].
      apply Z.div_lt_upper_bound; nia.
    + apply in_flat_map. exists (q / c0). split.
      * apply (dim_index_onto f1 c1 i1 H1 E1). split; [apply Z.div_pos; lia|].
        apply Z.div_lt_upper_bound; lia.
      * apply in_map_iff. exists (q mod c0). split.
        -- pose proof (Z.div_mod q c0 ltac:(lia)). lia.
        -- apply (dim_index_onto f0 c0 i0 H0 E0). apply Z.mod_pos_bound. lia.
Qed.

Close Scope Z_scope.
