(* C29 — proofs, part 5: filter completeness at the level of the pipeline, split points
   of intersecting parents, no duplicates without side condition, non-crossing. *)
From Coq Require Import List QArith Qabs Bool Arith ZArith Lia Lqa Permutation Sorted.
Import ListNotations.
From PP Require Import Model.C28 Proofs.C28 Model.C29 Proofs.C29 Proofs.C29_main
                       Proofs.C29_nc Proofs.C29_nc2.
Open Scope Q_scope.

Lemma guard2_guard : forall tol segs, guard2 tol segs = true -> guard tol segs = true.
Proof. intros tol segs H. unfold guard2 in H. apply andb_true_iff in H. apply H. Qed.

Section Full.
  Variables (tol : Q) (segs : list seg).
  Hypothesis G : guard tol segs = true.

  Let hs := hits tol segs.
  Let U := uniqU tol (all_pt tol segs).

  (* the points recorded for segment k before uniquification *)
  Definition LP (k : nat) (g : seg) (q : pt2) : Prop := In q (sS g :: sE g :: isect_for k hs).

  Lemma hit_points : forall i gi j gj q, In ((i, gi), (j, gj)) (cand_pairs tol segs) ->
    In q (res_pts (isect_of tol ((i, gi), (j, gj)))) ->
    In q (isect_for i hs) /\ In q (isect_for j hs).
  Proof.
    intros i gi j gj q Hpr Hq.
    assert (Hh : In (i, j, res_pts (isect_of tol ((i, gi), (j, gj)))) hs).
    { unfold hs, hits. apply in_map_iff. exists ((i, gi), (j, gj)). cbn [fst snd]. tauto. }
    split; unfold isect_for; apply in_flat_map; eexists; (split; [exact Hh|]); cbn [fst snd].
    - rewrite Nat.eqb_refl. exact Hq.
    - rewrite Nat.eqb_refl, orb_true_r. exact Hq.
  Qed.

  (* ---------------- no duplicates without side condition *)
  Lemma equal_segments_found : forall i gi j gj,
    In (i, gi) (indexed segs) -> In (j, gj) (indexed segs) -> (i < j)%nat ->
    seg_same_geom gi gj -> new_pts hs <> [].
  Proof.
    intros i gi j gj Hi Hj L SG.
    pose proof (g_tol tol segs G) as T.
    assert (Z : c1_of gi gj == 0 /\ c2_of gi gj == 0).
    { unfold c1_of, c2_of, cross2, mvec, sub2. cbn [fst snd].
      destruct SG as [[[A1 A2] [B1 B2]]|[[A1 A2] [B1 B2]]]; rewrite <- ?A1, <- ?A2, <- ?B1, <- ?B2; split; ring. }
    assert (C : common (sS gi) (sS gi) (sE gi) (sS gj) (sE gj)).
    { split; [apply on_seg_start|].
      destruct SG as [[A _]|[A _]].
      - eapply on_seg_peq; [apply peq_sym; exact A|apply peq_refl|apply peq_refl|apply on_seg_start].
      - eapply on_seg_peq; [apply peq_sym; exact A|apply peq_refl|apply peq_refl|apply on_seg_end]. }
    assert (Hpr : In ((i, gi), (j, gj)) (cand_pairs tol segs)).
    { apply cand_iff. cbn [fst snd]. repeat split; try assumption.
      - eapply common_overlap; eassumption.
      - apply collinear_relevant; tauto. }
    pose proof (cand_correct tol segs G _ _ _ _ Hpr) as K.
    destruct (isect_of tol ((i, gi), (j, gj))) as [|q|q1 q2|e] eqn:E; cbn in K.
    - exfalso. apply (K _ C).
    - intro N. assert (Hq : In q (new_pts hs)); [|rewrite N in Hq; destruct Hq].
      eapply (isect_in_new tol segs). apply (proj1 (hit_points i gi j gj q Hpr ltac:(rewrite E; left; reflexivity))).
    - intro N. assert (Hq : In q1 (new_pts hs)); [|rewrite N in Hq; destruct Hq].
      eapply (isect_in_new tol segs). apply (proj1 (hit_points i gi j gj q1 Hpr ltac:(rewrite E; left; reflexivity))).
    - destruct K.
  Qed.

  Lemma no_dups_full : forall pre out, split tol segs = Edges pre out ->
    ForallOrdPairs (fun e1 e2 => ~ same_geom e1 e2) out.
  Proof.
    intros pre out S.
    destruct (split_cases tol segs pre out S) as [[E [_ O]]|[NE _]];
      [|apply (no_dups tol segs G pre out S NE)].
    subst out. apply fop_map. unfold indexed.
    (* every ordered pair of positions: equal geometry would have produced a new point *)
    assert (K : forall (l : list seg) s,
              (forall k g, In (k, g) (indexed_from s l) -> In (k, g) (indexed segs)) ->
              ForallOrdPairs (fun a b : nat * seg =>
                ~ same_geom (sS (snd a), sE (snd a), sT (snd a), fst a)
                            (sS (snd b), sE (snd b), sT (snd b), fst b)) (indexed_from s l)).
    { induction l as [|x r IH]; intros s Sub; cbn [indexed_from]; constructor.
      - apply Forall_forall. intros [j gj] Hj SG.
        unfold same_geom, eA, eB in SG. cbn [fst snd] in SG.
        apply in_indexed_from in Hj as Hj'. destruct Hj' as [Lj _].
        apply (equal_segments_found s x j gj); [apply Sub; left; reflexivity|apply Sub; right; exact Hj|lia|exact SG|exact E].
      - apply IH. intros k g H. apply Sub. right. exact H. }
    apply K. tauto.
  Qed.
End Full.

(* ================================================================== non-crossing *)
Section Full2.
  Variables (tol : Q) (segs : list seg).
  Hypothesis G2 : guard2 tol segs = true.

  Let G : guard tol segs = true := guard2_guard tol segs G2.
  Let hs := hits tol segs.
  Let U := uniqU tol (all_pt tol segs).
  Let T : 0 < tol := g_tol tol segs G.

  Lemma flags_at : forall ig, In ig (indexed segs) ->
    (gs_of tol (indexed segs) ig = false ->
       forall jg, In jg (others tol (indexed segs) ig) -> peq (sS (snd jg)) (sS (snd ig))) /\
    (ge_of tol (indexed segs) ig = false ->
       forall jg, In jg (others tol (indexed segs) ig) -> peq (sE (snd jg)) (sS (snd ig))).
  Proof.
    intros ig Hi. pose proof G2 as G2'. unfold guard2 in G2'. apply andb_true_iff in G2'. destruct G2' as [_ F].
    rewrite forallb_forall in F. specialize (F ig Hi).
    assert (F' : (gs_of tol (indexed segs) ig
                  || forallb (fun jg => peqb (sS (snd jg)) (sS (snd ig))) (others tol (indexed segs) ig))
                 && (ge_of tol (indexed segs) ig
                  || forallb (fun jg => peqb (sE (snd jg)) (sS (snd ig))) (others tol (indexed segs) ig))
                 = true) by exact F.
    apply andb_true_iff in F'. destruct F' as [F1 F2]. split.
    - intros E jg Hj. rewrite E in F1. cbn in F1. rewrite forallb_forall in F1.
      apply peqb_iff. apply F1. exact Hj.
    - intros E jg Hj. rewrite E in F2. cbn in F2. rewrite forallb_forall in F2.
      apply peqb_iff. apply F2. exact Hj.
  Qed.

  (* every ordered pair is a candidate, or has at most a common end point in common *)
  Lemma pair_class : forall i gi j gj,
    In (i, gi) (indexed segs) -> In (j, gj) (indexed segs) -> (i < j)%nat ->
    In ((i, gi), (j, gj)) (cand_pairs tol segs) \/
    (forall p, common p (sS gi) (sE gi) (sS gj) (sE gj) ->
               peq p (sS gi) /\ (peq p (sS gj) \/ peq p (sE gj))).
  Proof.
    intros i gi j gj Hi Hj L.
    destruct (overlap (bbox tol gi) (bbox tol gj)) eqn:O.
    2:{ right. intros p C. rewrite (common_overlap tol gi gj p T C) in O. discriminate. }
    destruct (relevant tol gi (gs_of tol (indexed segs) (i, gi)) (ge_of tol (indexed segs) (i, gi)) gj) eqn:R.
    - left. apply cand_iff. cbn [fst snd]. tauto.
    - right. intros p C.
      assert (Ho : In (j, gj) (others tol (indexed segs) (i, gi))) by (apply in_others; assumption).
      destruct (flags_at (i, gi) Hi) as [F1 F2].
      eapply side_filter_complete; [| | |exact R|exact C].
      + intro E. apply (F1 E (j, gj) Ho).
      + intro E. apply (F2 E (j, gj) Ho).
      + eapply (g_proper tol segs G). exact Hj.
  Qed.

  (* the pair {k, m} was answered with a collinear overlap [q1, q2] *)
  Definition seg_pair (k : nat) (g : seg) (m : nat) (g' : seg) (q1 q2 : pt2) : Prop :=
    (In ((k, g), (m, g')) (cand_pairs tol segs) /\ isect_of tol ((k, g), (m, g')) = R2Seg q1 q2) \/
    (In ((m, g'), (k, g)) (cand_pairs tol segs) /\ isect_of tol ((m, g'), (k, g)) = R2Seg q1 q2).

  Lemma seg_pair_sym : forall k g m g' q1 q2, seg_pair k g m g' q1 q2 -> seg_pair m g' k g q1 q2.
  Proof. intros k g m g' q1 q2 [H|H]; [right|left]; exact H. Qed.

  Definition seg_endpoint (q : pt2) (g g' : seg) : Prop :=
    (peq q (sS g) \/ peq q (sE g)) \/ (peq q (sS g') \/ peq q (sE g')).

  Lemma seg_pair_facts : forall k g m g' q1 q2, seg_pair k g m g' q1 q2 ->
    (forall p, (on_seg p (sS g) (sE g) /\ on_seg p (sS g') (sE g')) <-> on_seg p q1 q2) /\
    LP tol segs k g q1 /\ LP tol segs k g q2 /\ LP tol segs m g' q1 /\ LP tol segs m g' q2 /\
    seg_endpoint q1 g g' /\ seg_endpoint q2 g g'.
  Proof.
    intros k g m g' q1 q2 [[Hpr E]|[Hpr E]].
    - pose proof (cand_correct tol segs G _ _ _ _ Hpr) as C. rewrite E in C. destruct C as [_ C].
      destruct (hit_points tol segs _ _ _ _ q1 Hpr ltac:(rewrite E; left; reflexivity)) as [A1 A2].
      destruct (hit_points tol segs _ _ _ _ q2 Hpr ltac:(rewrite E; right; left; reflexivity)) as [B1 B2].
      destruct (cand_in tol segs _ _ Hpr) as [Hi [Hj _]].
      assert (Sp : separated tol (sS g) (sE g) (sS g') (sE g') = true).
      { destruct (g_all tol segs G) as [_ [_ [S _]]]. apply (S _ Hpr). }
      destruct (seg_ends tol _ _ _ _ q1 q2 ltac:(lra) (g_proper tol segs G _ _ Hi) Sp E) as [E1 E2].
      split; [intro p; apply C|]. unfold LP.
      repeat split; try (right; right; assumption).
      + unfold seg_endpoint. unfold is_endpoint in E1. tauto.
      + unfold seg_endpoint. unfold is_endpoint in E2. tauto.
    - pose proof (cand_correct tol segs G _ _ _ _ Hpr) as C. rewrite E in C. destruct C as [_ C].
      destruct (hit_points tol segs _ _ _ _ q1 Hpr ltac:(rewrite E; left; reflexivity)) as [A1 A2].
      destruct (hit_points tol segs _ _ _ _ q2 Hpr ltac:(rewrite E; right; left; reflexivity)) as [B1 B2].
      destruct (cand_in tol segs _ _ Hpr) as [Hi [Hj _]].
      assert (Sp : separated tol (sS g') (sE g') (sS g) (sE g) = true).
      { destruct (g_all tol segs G) as [_ [_ [S _]]]. apply (S _ Hpr). }
      destruct (seg_ends tol _ _ _ _ q1 q2 ltac:(lra) (g_proper tol segs G _ _ Hi) Sp E) as [E1 E2].
      split; [intro p; rewrite <- (C p); unfold common; tauto|]. unfold LP.
      repeat split; try (right; right; assumption).
      + unfold seg_endpoint. unfold is_endpoint in E1. tauto.
      + unfold seg_endpoint. unfold is_endpoint in E2. tauto.
  Qed.

  (* a common point of two parents is a recorded point of the first, unless the pair is a
     collinear overlap *)
  Lemma common_local : forall k g m g' p,
    In (k, g) (indexed segs) -> In (m, g') (indexed segs) -> k <> m ->
    on_seg p (sS g) (sE g) -> on_seg p (sS g') (sE g') ->
    (exists q, LP tol segs k g q /\ peq p q) \/ (exists q1 q2, seg_pair k g m g' q1 q2).
  Proof.
    intros k g m g' p Hk Hm Ne O1 O2.
    destruct (Nat.lt_ge_cases k m) as [L|L].
    - destruct (pair_class k g m g' Hk Hm L) as [Hpr|FC].
      + pose proof (cand_correct tol segs G _ _ _ _ Hpr) as C.
        destruct (isect_of tol ((k, g), (m, g'))) as [|q|q1 q2|e] eqn:E; cbn in C.
        * exfalso. apply (C p). split; assumption.
        * left. exists q. split; [|apply C; split; assumption].
          right; right. apply (hit_points tol segs _ _ _ _ q Hpr). rewrite E. left. reflexivity.
        * right. exists q1, q2. left. tauto.
        * destruct C.
      + left. exists (sS g). split; [left; reflexivity|]. apply FC. split; assumption.
    - assert (L' : (m < k)%nat) by lia.
      destruct (pair_class m g' k g Hm Hk L') as [Hpr|FC].
      + pose proof (cand_correct tol segs G _ _ _ _ Hpr) as C.
        destruct (isect_of tol ((m, g'), (k, g))) as [|q|q1 q2|e] eqn:E; cbn in C.
        * exfalso. apply (C p). split; assumption.
        * left. exists q. split; [|apply C; split; assumption].
          right; right. apply (hit_points tol segs _ _ _ _ q Hpr). rewrite E. left. reflexivity.
        * right. exists q1, q2. right. tauto.
        * destruct C.
      + destruct (FC p (conj O2 O1)) as [_ [P|P]]; left.
        * exists (sS g). split; [left; reflexivity|exact P].
        * exists (sE g). split; [right; left; reflexivity|exact P].
  Qed.

  (* ---------------- recorded points, chains *)
  Lemma LP_index : forall k g q, In (k, g) (indexed segs) -> LP tol segs k g q ->
    In (idx tol U q) (local_inds tol U hs (k, g)) /\ peq (upt U (idx tol U q)) q.
  Proof.
    intros k g q Hk Hq. split.
    - apply local_in. exists q. split; [exact Hq|reflexivity].
    - destruct (local_src tol segs G k g q Hk Hq) as [Hall _].
      apply (rep_peq tol T (all_pt tol segs) (g_sep tol segs G) q Hall).
  Qed.

  Lemma member_not_inside : forall k g a b z, In (k, g) (indexed segs) ->
    In (a, b) (cpairs (local_inds tol U hs (k, g))) -> In z (local_inds tol U hs (k, g)) ->
    tpar tol segs g a < tpar tol segs g z -> tpar tol segs g z < tpar tol segs g b -> False.
  Proof.
    intros k g a b z Hk Hab Hz L1 L2.
    destruct (chain_member_endpoint (tpar tol segs g) _ a b z (local_strict tol segs G k g Hk) Hab Hz)
      as [E|E]; try lra; subst; lra.
  Qed.

  Lemma p_unique : forall g p t t', ~ peq (sS g) (sE g) ->
    at_par (sS g) (sE g) p t -> at_par (sS g) (sE g) p t' -> t == t'.
  Proof.
    intros g p t t' N A B. rewrite <- (par_of_at _ _ p t N A), <- (par_of_at _ _ p t' N B). reflexivity.
  Qed.

  (* a child of m that contains a point strictly inside the overlap lies in the overlap *)
  Lemma child_in_overlap : forall k g m g' q1 q2 a b p,
    seg_pair k g m g' q1 q2 -> In (m, g') (indexed segs) ->
    In (a, b) (cpairs (local_inds tol U hs (m, g'))) ->
    on_seg p (upt U a) (upt U b) -> on_seg p q1 q2 -> ~ peq p q1 -> ~ peq p q2 ->
    on_seg (upt U a) q1 q2 /\ on_seg (upt U b) q1 q2.
  Proof.
    intros k g m g' q1 q2 a b p SP Hm Hab Op Oq N1 N2.
    destruct (seg_pair_facts _ _ _ _ _ _ SP) as [_ [_ [_ [L1 [L2 _]]]]].
    pose proof (g_proper tol segs G _ _ Hm) as N.
    destruct (LP_index m g' q1 Hm L1) as [Z1 P1]. destruct (LP_index m g' q2 Hm L2) as [Z2 P2].
    set (z1 := idx tol U q1) in *. set (z2 := idx tol U q2) in *.
    destruct (local_at tol segs G m g' z1 Hm Z1) as [_ [_ A1]].
    destruct (local_at tol segs G m g' z2 Hm Z2) as [_ [_ A2]].
    destruct (cpairs_in _ _ _ Hab) as [Ha Hb].
    destruct (local_at tol segs G m g' a Hm Ha) as [_ [_ Aa]].
    destruct (local_at tol segs G m g' b Hm Hb) as [_ [_ Ab]].
    destruct (child_between tol segs G m g' a b p Hm Hab Op) as [t [Pt [La Lb]]].
    assert (Op' : on_seg p (upt U z1) (upt U z2)).
    { eapply on_seg_peq; [apply peq_refl|apply peq_sym; exact P1|apply peq_sym; exact P2|exact Oq]. }
    destruct (on_seg_between_any _ _ _ _ p _ _ A1 A2 Op') as [t' [Pt' B]].
    assert (Et : t' == t) by (apply (p_unique g' p); assumption).
    set (tp := tpar tol segs g') in *.
    assert (S1 : ~ t == tp z1).
    { intro E. apply N1. eapply peq_trans; [|exact P1]. apply (at_par_peq _ _ p (upt U z1) t _ Pt A1 E). }
    assert (S2 : ~ t == tp z2).
    { intro E. apply N2. eapply peq_trans; [|exact P2]. apply (at_par_peq _ _ p (upt U z2) t _ Pt A2 E). }
    pose proof (member_not_inside m g' a b z1 Hm Hab Z1) as M1.
    pose proof (member_not_inside m g' a b z2 Hm Hab Z2) as M2. fold tp in M1, M2.
    destruct B as [[B1 B2]|[B1 B2]].
    - assert (K1 : tp z1 <= tp a) by (destruct (Qlt_le_dec (tp a) (tp z1)); [exfalso; apply M1; lra|assumption]).
      assert (K2 : tp b <= tp z2) by (destruct (Qlt_le_dec (tp z2) (tp b)); [exfalso; apply M2; lra|assumption]).
      split; (eapply on_seg_peq; [apply peq_refl|exact P1|exact P2|]).
      + apply (between_on_seg (sS g') (sE g') _ _ _ (tp z1) (tp z2) (tp a)); try assumption; lra.
      + apply (between_on_seg (sS g') (sE g') _ _ _ (tp z1) (tp z2) (tp b)); try assumption; lra.
    - assert (K1 : tp z2 <= tp a) by (destruct (Qlt_le_dec (tp a) (tp z2)); [exfalso; apply M2; lra|assumption]).
      assert (K2 : tp b <= tp z1) by (destruct (Qlt_le_dec (tp z1) (tp b)); [exfalso; apply M1; lra|assumption]).
      split; (eapply on_seg_peq; [apply peq_refl|exact P1|exact P2|]); apply on_seg_rev.
      + apply (between_on_seg (sS g') (sE g') _ _ _ (tp z2) (tp z1) (tp a)); try assumption; lra.
      + apply (between_on_seg (sS g') (sE g') _ _ _ (tp z2) (tp z1) (tp b)); try assumption; lra.
  Qed.

  (* ---------------- split points inside an overlap are shared *)
  (* what the answer for a pair {m, m'} says about one of its points r, symmetric form *)
  Definition pair_point (g' g'' : seg) (r : pt2) : Prop :=
    (forall p, on_seg p (sS g') (sE g') -> on_seg p (sS g'') (sE g'') -> peq p r) \/
    seg_endpoint r g' g''.

  Lemma via_third : forall k g m g' q1 q2 m' g'' r,
    seg_pair k g m g' q1 q2 ->
    In (k, g) (indexed segs) -> In (m, g') (indexed segs) -> In (m', g'') (indexed segs) ->
    k <> m' ->
    on_seg r q1 q2 -> on_seg r (sS g'') (sE g'') -> pair_point g' g'' r ->
    exists q, LP tol segs k g q /\ peq r q.
  Proof.
    intros k g m g' q1 q2 m' g'' r SP Hk Hm Hm' Ne Oq Og'' PP.
    destruct (seg_pair_facts _ _ _ _ _ _ SP) as [C [Lq1 [Lq2 [_ [_ _]]]]].
    destruct (proj2 (C r) Oq) as [Og Og'].
    destruct (proj2 (C q1) (on_seg_start q1 q2)) as [Oq1g Oq1g'].
    destruct (proj2 (C q2) (on_seg_end q1 q2)) as [Oq2g Oq2g'].
    destruct (common_local k g m' g'' r Hk Hm' Ne Og Og'') as [L|[w1 [w2 SP']]]; [exact L|].
    destruct (seg_pair_facts _ _ _ _ _ _ SP') as [C' [Lw1 [Lw2 [_ [_ _]]]]].
    pose proof (proj1 (C' r) (conj Og Og'')) as Ow.
    destruct (proj2 (C' w1) (on_seg_start w1 w2)) as [Ow1g Ow1g''].
    destruct (proj2 (C' w2) (on_seg_end w1 w2)) as [Ow2g Ow2g''].
    destruct (peq_dec r q1) as [E|N1]; [exists q1; tauto|].
    destruct (peq_dec r q2) as [E|N2]; [exists q2; tauto|].
    destruct (peq_dec r w1) as [E|N3]; [exists w1; tauto|].
    destruct (peq_dec r w2) as [E|N4]; [exists w2; tauto|].
    exfalso. destruct PP as [Single|[End|End]].
    - destruct (two_overlaps_share (sS g) (sE g) q1 q2 w1 w2 r (g_proper tol segs G _ _ Hk))
        as [p' [O1 [O2 Np]]]; try assumption.
      apply Np. apply Single; [apply (proj2 (C p') O1)|apply (proj2 (C' p') O2)].
    - destruct (endpoint_in_sub (sS g') (sE g') q1 q2 r (g_proper tol segs G _ _ Hm)); try assumption; contradiction.
    - destruct (endpoint_in_sub (sS g'') (sE g'') w1 w2 r (g_proper tol segs G _ _ Hm')); try assumption; contradiction.
  Qed.

  Lemma overlap_local : forall k g m g' q1 q2 r,
    seg_pair k g m g' q1 q2 ->
    In (k, g) (indexed segs) -> In (m, g') (indexed segs) -> k <> m ->
    LP tol segs m g' r -> on_seg r q1 q2 ->
    exists q, LP tol segs k g q /\ peq r q.
  Proof.
    intros k g m g' q1 q2 r SP Hk Hm Ne Lr Oq.
    destruct (seg_pair_facts _ _ _ _ _ _ SP) as [C [Lq1 [Lq2 [_ [_ _]]]]].
    destruct (proj2 (C q1) (on_seg_start q1 q2)) as [_ Oq1g'].
    destruct (proj2 (C q2) (on_seg_end q1 q2)) as [_ Oq2g'].
    assert (EndCase : peq r (sS g') \/ peq r (sE g') -> exists q, LP tol segs k g q /\ peq r q).
    { intro E. destruct (endpoint_in_sub (sS g') (sE g') q1 q2 r (g_proper tol segs G _ _ Hm)) as [P|P];
        try assumption; [exists q1|exists q2]; tauto. }
    destruct Lr as [<-|[<-|Lr]]; [apply EndCase; left; apply peq_refl|apply EndCase; right; apply peq_refl|].
    unfold isect_for in Lr. apply in_flat_map in Lr. destruct Lr as [h [Hh Hr]].
    unfold hs, hits in Hh. apply in_map_iff in Hh. destruct Hh as [[[i gi] [j gj]] [<- Hpr]].
    cbn [fst snd] in Hr.
    destruct (cand_in tol segs _ _ Hpr) as [Hi [Hj Lij]]. cbn [fst] in Hi, Hj, Lij.
    pose proof (cand_correct tol segs G _ _ _ _ Hpr) as CC.
    assert (Sp : separated tol (sS gi) (sE gi) (sS gj) (sE gj) = true).
    { destruct (g_all tol segs G) as [_ [_ [S _]]]. apply (S _ Hpr). }
    (* what the answer says about r, for the ordered pair (gi, gj) *)
    assert (PPij : In r (res_pts (isect_of tol ((i, gi), (j, gj)))) ->
                   on_seg r (sS gi) (sE gi) /\ on_seg r (sS gj) (sE gj) /\ pair_point gi gj r).
    { intro Hin. pose proof (res_pts_common _ _ _ _ _ _ CC Hin) as [R1 R2].
      split; [exact R1|]. split; [exact R2|].
      destruct (isect_of tol ((i, gi), (j, gj))) as [|q|u1 u2|e] eqn:E; cbn in Hin, CC; try contradiction.
      - destruct Hin as [<-|[]]. left. intros p A B. apply CC. split; assumption.
      - right. destruct (seg_ends tol _ _ _ _ u1 u2 ltac:(lra) (g_proper tol segs G _ _ Hi) Sp E) as [E1 E2].
        unfold seg_endpoint. unfold is_endpoint in E1, E2.
        destruct Hin as [<-|[<-|[]]]; tauto. }
    destruct (m =? i)%nat eqn:Emi.
    - apply Nat.eqb_eq in Emi. subst i. cbn [orb] in Hr.
      rewrite <- (indexed_fun _ _ _ _ Hm Hi) in *.
      destruct (PPij Hr) as [_ [R2 PP]].
      destruct (Nat.eq_dec k j) as [->|Nkj].
      + rewrite <- (indexed_fun _ _ _ _ Hk Hj) in *. exists r. split; [|apply peq_refl].
        right; right. apply (hit_points tol segs _ _ _ _ r Hpr Hr).
      + apply (via_third k g m g' q1 q2 j gj r); assumption.
    - cbn [orb] in Hr. destruct (m =? j)%nat eqn:Emj; [|destruct Hr].
      apply Nat.eqb_eq in Emj. subst j.
      rewrite <- (indexed_fun _ _ _ _ Hm Hj) in *.
      destruct (PPij Hr) as [R1 [_ PP]].
      destruct (Nat.eq_dec k i) as [->|Nki].
      + rewrite <- (indexed_fun _ _ _ _ Hk Hi) in *. exists r. split; [|apply peq_refl].
        right; right. apply (hit_points tol segs _ _ _ _ r Hpr Hr).
      + apply (via_third k g m g' q1 q2 i gi r); try assumption.
        destruct PP as [S|[E|E]]; [left; intros p A B; apply S; assumption|right; right; exact E|right; left; exact E].
  Qed.

  (* ---------------- children of two overlapping parents *)
  Lemma child_on_parent : forall k g a b p, In (k, g) (indexed segs) ->
    In (a, b) (cpairs (local_inds tol U hs (k, g))) -> on_seg p (upt U a) (upt U b) ->
    on_seg p (sS g) (sE g).
  Proof.
    intros k g a b p Hk Hab O. destruct (cpairs_in _ _ _ Hab) as [Ha Hb].
    destruct (local_on tol segs G k g a Hk Ha) as [_ Oa]. destruct (local_on tol segs G k g b Hk Hb) as [_ Ob].
    apply (on_seg_convex p (upt U a) (upt U b)); assumption.
  Qed.

  Lemma child_proper : forall k g a b, In (k, g) (indexed segs) ->
    In (a, b) (cpairs (local_inds tol U hs (k, g))) -> ~ peq (upt U a) (upt U b).
  Proof.
    intros k g a b Hk Hab E. destruct (cpairs_in _ _ _ Hab) as [Ha Hb].
    pose proof (cpairs_lt _ _ _ _ (local_strict tol segs G k g Hk) Hab) as L. unfold klt in L.
    unfold tpar in L. pose proof (par_peq (sS g) (sE g) _ _ E) as PE. unfold U, hs in *. lra.
  Qed.

  (* an index of k's chain with the coordinates of a chain point of m inside the overlap *)
  Lemma transfer_index : forall k g m g' q1 q2 a,
    seg_pair k g m g' q1 q2 -> In (k, g) (indexed segs) -> In (m, g') (indexed segs) -> k <> m ->
    In a (local_inds tol U hs (m, g')) -> on_seg (upt U a) q1 q2 ->
    exists z, In z (local_inds tol U hs (k, g)) /\ peq (upt U z) (upt U a).
  Proof.
    intros k g m g' q1 q2 a SP Hk Hm Ne Ha Oa.
    apply local_in in Ha. destruct Ha as [r [Lr ->]].
    destruct (LP_index m g' r Hm Lr) as [_ Pr].
    assert (Or : on_seg r q1 q2) by (eapply on_seg_peq; [exact Pr|apply peq_refl|apply peq_refl|exact Oa]).
    destruct (overlap_local k g m g' q1 q2 r SP Hk Hm Ne Lr Or) as [q [Lq Pq]].
    destruct (LP_index k g q Hk Lq) as [Zq Pz]. exists (idx tol U q). split; [exact Zq|].
    eapply peq_trans; [exact Pz|]. eapply peq_trans; [apply peq_sym; exact Pq|apply peq_sym; exact Pr].
  Qed.

  Lemma interior_transfer : forall k g m g' q1 q2 a1 b1 a2 b2 p,
    seg_pair k g m g' q1 q2 -> In (k, g) (indexed segs) -> In (m, g') (indexed segs) -> k <> m ->
    In (a1, b1) (cpairs (local_inds tol U hs (k, g))) ->
    In (a2, b2) (cpairs (local_inds tol U hs (m, g'))) ->
    on_seg p (upt U a1) (upt U b1) -> on_seg p (upt U a2) (upt U b2) ->
    on_seg p q1 q2 -> ~ peq p q1 -> ~ peq p q2 ->
    ~ peq p (upt U a1) -> ~ peq p (upt U b1) ->
    on_seg (upt U a1) (upt U a2) (upt U b2) /\ on_seg (upt U b1) (upt U a2) (upt U b2) /\
    ~ peq p (upt U a2) /\ ~ peq p (upt U b2).
  Proof.
    intros k g m g' q1 q2 a1 b1 a2 b2 p SP Hk Hm Ne H1 H2 O1 O2 Oq N1 N2 Na Nb.
    pose proof (g_proper tol segs G _ _ Hk) as N.
    destruct (child_in_overlap k g m g' q1 q2 a2 b2 p SP Hm H2 O2 Oq N1 N2) as [Oa2 Ob2].
    destruct (cpairs_in _ _ _ H2) as [Ha2 Hb2]. destruct (cpairs_in _ _ _ H1) as [Ha1 Hb1].
    destruct (transfer_index k g m g' q1 q2 a2 SP Hk Hm Ne Ha2 Oa2) as [za [Za Pa]].
    destruct (transfer_index k g m g' q1 q2 b2 SP Hk Hm Ne Hb2 Ob2) as [zb [Zb Pb]].
    set (tp := tpar tol segs g).
    destruct (local_at tol segs G k g za Hk Za) as [_ [_ Aza]].
    destruct (local_at tol segs G k g zb Hk Zb) as [_ [_ Azb]].
    destruct (local_at tol segs G k g a1 Hk Ha1) as [_ [_ Aa1]].
    destruct (local_at tol segs G k g b1 Hk Hb1) as [_ [_ Ab1]].
    destruct (child_between tol segs G k g a1 b1 p Hk H1 O1) as [t [Pt [La Lb]]].
    fold tp in Aza, Azb, Aa1, Ab1, La, Lb.
    assert (Sa : ~ t == tp a1) by (intro E; apply Na; apply (at_par_peq _ _ p (upt U a1) t _ Pt Aa1 E)).
    assert (Sb : ~ t == tp b1) by (intro E; apply Nb; apply (at_par_peq _ _ p (upt U b1) t _ Pt Ab1 E)).
    assert (O2' : on_seg p (upt U za) (upt U zb)).
    { eapply on_seg_peq; [apply peq_refl|apply peq_sym; exact Pa|apply peq_sym; exact Pb|exact O2]. }
    destruct (on_seg_between_any _ _ _ _ p _ _ Aza Azb O2') as [t' [Pt' B]].
    assert (Et : t' == t) by (apply (p_unique g p t' t N); assumption).
    pose proof (member_not_inside k g a1 b1 za Hk H1 Za) as Ma.
    pose proof (member_not_inside k g a1 b1 zb Hk H1 Zb) as Mb. fold tp in Ma, Mb.
    assert (Fa : peq p (upt U a2) -> t == tp za).
    { intro E. apply (p_unique g p t (tp za) N Pt). destruct Aza as [X Y]. destruct E as [E1 E2]. destruct Pa as [P1 P2].
      split; [rewrite E1, <- P1; exact X|rewrite E2, <- P2; exact Y]. }
    assert (Fb : peq p (upt U b2) -> t == tp zb).
    { intro E. apply (p_unique g p t (tp zb) N Pt). destruct Azb as [X Y]. destruct E as [E1 E2]. destruct Pb as [P1 P2].
      split; [rewrite E1, <- P1; exact X|rewrite E2, <- P2; exact Y]. }
    destruct B as [[B1 B2]|[B1 B2]].
    - assert (K1 : tp za <= tp a1) by (destruct (Qlt_le_dec (tp a1) (tp za)); [exfalso; apply Ma; lra|assumption]).
      assert (K2 : tp b1 <= tp zb) by (destruct (Qlt_le_dec (tp zb) (tp b1)); [exfalso; apply Mb; lra|assumption]).
      split; [|split; [|split]].
      + eapply on_seg_peq; [apply peq_refl|exact Pa|exact Pb|].
        apply (between_on_seg (sS g) (sE g) _ _ _ (tp za) (tp zb) (tp a1)); try assumption; lra.
      + eapply on_seg_peq; [apply peq_refl|exact Pa|exact Pb|].
        apply (between_on_seg (sS g) (sE g) _ _ _ (tp za) (tp zb) (tp b1)); try assumption; lra.
      + intro E. apply Fa in E. lra.
      + intro E. apply Fb in E. lra.
    - assert (K1 : tp zb <= tp a1) by (destruct (Qlt_le_dec (tp a1) (tp zb)); [exfalso; apply Mb; lra|assumption]).
      assert (K2 : tp b1 <= tp za) by (destruct (Qlt_le_dec (tp za) (tp b1)); [exfalso; apply Ma; lra|assumption]).
      split; [|split; [|split]].
      + eapply on_seg_peq; [apply peq_refl|exact Pa|exact Pb|]. apply on_seg_rev.
        apply (between_on_seg (sS g) (sE g) _ _ _ (tp zb) (tp za) (tp a1)); try assumption; lra.
      + eapply on_seg_peq; [apply peq_refl|exact Pa|exact Pb|]. apply on_seg_rev.
        apply (between_on_seg (sS g) (sE g) _ _ _ (tp zb) (tp za) (tp b1)); try assumption; lra.
      + intro E. apply Fa in E. lra.
      + intro E. apply Fb in E. lra.
  Qed.

  Definition ends_of (p : pt2) (a b : nat) : Prop := peq p (upt U a) \/ peq p (upt U b).

  Lemma overlap_nc : forall k g m g' q1 q2 a1 b1 a2 b2 p,
    seg_pair k g m g' q1 q2 -> In (k, g) (indexed segs) -> In (m, g') (indexed segs) -> k <> m ->
    In (a1, b1) (cpairs (local_inds tol U hs (k, g))) ->
    In (a2, b2) (cpairs (local_inds tol U hs (m, g'))) ->
    on_seg p (upt U a1) (upt U b1) -> on_seg p (upt U a2) (upt U b2) ->
    ~ ((peq (upt U a1) (upt U a2) /\ peq (upt U b1) (upt U b2)) \/
       (peq (upt U a1) (upt U b2) /\ peq (upt U b1) (upt U a2))) ->
    ends_of p a1 b1 /\ ends_of p a2 b2.
  Proof.
    intros k g m g' q1 q2 a1 b1 a2 b2 p SP Hk Hm Ne H1 H2 O1 O2 NS.
    destruct (seg_pair_facts _ _ _ _ _ _ SP) as [C [Lq1 [Lq2 [Lq1' [Lq2' _]]]]].
    pose proof (child_on_parent k g a1 b1 p Hk H1 O1) as Og.
    pose proof (child_on_parent m g' a2 b2 p Hm H2 O2) as Og'.
    pose proof (proj1 (C p) (conj Og Og')) as Oq.
    destruct (peq_dec p q1) as [E1|N1].
    { split; [apply (split_point_end tol segs G k g a1 b1 q1 p Hk H1 Lq1 E1 O1)
             |apply (split_point_end tol segs G m g' a2 b2 q1 p Hm H2 Lq1' E1 O2)]. }
    destruct (peq_dec p q2) as [E2|N2].
    { split; [apply (split_point_end tol segs G k g a1 b1 q2 p Hk H1 Lq2 E2 O1)
             |apply (split_point_end tol segs G m g' a2 b2 q2 p Hm H2 Lq2' E2 O2)]. }
    assert (Ne' : m <> k) by (intro E; apply Ne; symmetry; exact E).
    pose proof (seg_pair_sym _ _ _ _ _ _ SP) as SP'.
    destruct (peq_dec p (upt U a1)) as [Ea1|Na1].
    - destruct (peq_dec p (upt U a2)) as [Ea2|Na2]; [split; left; assumption|].
      destruct (peq_dec p (upt U b2)) as [Eb2|Nb2]; [split; [left|right]; assumption|].
      exfalso.
      destruct (interior_transfer m g' k g q1 q2 a2 b2 a1 b1 p SP' Hm Hk Ne' H2 H1 O2 O1 Oq N1 N2 Na2 Nb2)
        as [_ [_ [X _]]]. contradiction.
    - destruct (peq_dec p (upt U b1)) as [Eb1|Nb1].
      + destruct (peq_dec p (upt U a2)) as [Ea2|Na2]; [split; [right|left]; assumption|].
        destruct (peq_dec p (upt U b2)) as [Eb2|Nb2]; [split; right; assumption|].
        exfalso.
        destruct (interior_transfer m g' k g q1 q2 a2 b2 a1 b1 p SP' Hm Hk Ne' H2 H1 O2 O1 Oq N1 N2 Na2 Nb2)
          as [_ [_ [_ X]]]. contradiction.
      + exfalso.
        destruct (interior_transfer k g m g' q1 q2 a1 b1 a2 b2 p SP Hk Hm Ne H1 H2 O1 O2 Oq N1 N2 Na1 Nb1)
          as [I1 [I2 [Na2 Nb2]]].
        destruct (interior_transfer m g' k g q1 q2 a2 b2 a1 b1 p SP' Hm Hk Ne' H2 H1 O2 O1 Oq N1 N2 Na2 Nb2)
          as [J1 [J2 _]].
        apply NS. apply mutual_containment; try assumption.
        apply (child_proper m g' a2 b2 Hm H2).
  Qed.

  (* ---------------- two children of different parents *)
  Lemma diff_parent_nc : forall k g m g' a1 b1 a2 b2 p,
    In (k, g) (indexed segs) -> In (m, g') (indexed segs) -> k <> m ->
    In (a1, b1) (cpairs (local_inds tol U hs (k, g))) ->
    In (a2, b2) (cpairs (local_inds tol U hs (m, g'))) ->
    on_seg p (upt U a1) (upt U b1) -> on_seg p (upt U a2) (upt U b2) ->
    ~ ((peq (upt U a1) (upt U a2) /\ peq (upt U b1) (upt U b2)) \/
       (peq (upt U a1) (upt U b2) /\ peq (upt U b1) (upt U a2))) ->
    ends_of p a1 b1 /\ ends_of p a2 b2.
  Proof.
    intros k g m g' a1 b1 a2 b2 p Hk Hm Ne H1 H2 O1 O2 NS.
    pose proof (child_on_parent k g a1 b1 p Hk H1 O1) as Og.
    pose proof (child_on_parent m g' a2 b2 p Hm H2 O2) as Og'.
    assert (Ne' : m <> k) by (intro E; apply Ne; symmetry; exact E).
    destruct (common_local k g m g' p Hk Hm Ne Og Og') as [[q [Lq Pq]]|[q1 [q2 SP]]].
    - destruct (common_local m g' k g p Hm Hk Ne' Og' Og) as [[q' [Lq' Pq']]|[q1 [q2 SP]]].
      + split; [apply (split_point_end tol segs G k g a1 b1 q p Hk H1 Lq Pq O1)
               |apply (split_point_end tol segs G m g' a2 b2 q' p Hm H2 Lq' Pq' O2)].
      + apply (overlap_nc k g m g' q1 q2 a1 b1 a2 b2 p (seg_pair_sym _ _ _ _ _ _ SP)); assumption.
    - apply (overlap_nc k g m g' q1 q2 a1 b1 a2 b2 p SP); assumption.
  Qed.

  (* ---------------- the theorem *)
  Lemma fop_indexed_gen : forall {A} (R : nat * A -> nat * A -> Prop) (l : list A) s,
    (forall i x j y, In (i, x) (indexed_from s l) -> In (j, y) (indexed_from s l) ->
                     (i < j)%nat -> R (i, x) (j, y)) ->
    ForallOrdPairs R (indexed_from s l).
  Proof.
    intros A R. induction l as [|x r IH]; intros s H; cbn [indexed_from]; constructor.
    - apply Forall_forall. intros [j y] Hj. apply in_indexed_from in Hj as Hj'. destruct Hj' as [Lj _].
      apply H; [left; reflexivity|right; exact Hj|lia].
    - apply IH. intros i a j b Hi Hj L. apply H; [right; exact Hi|right; exact Hj|exact L].
  Qed.

  Lemma seg_pair_new : forall k g m g' q1 q2, seg_pair k g m g' q1 q2 -> new_pts hs <> [].
  Proof.
    intros k g m g' q1 q2 [[Hpr E]|[Hpr E]] N;
      destruct (hit_points tol segs _ _ _ _ q1 Hpr ltac:(rewrite E; left; reflexivity)) as [A _];
      apply (isect_in_new tol segs) in A; fold hs in A; rewrite N in A; destruct A.
  Qed.

  Lemma nc_full : forall pre out, split tol segs = Edges pre out ->
    ForallOrdPairs (fun e1 e2 => forall p,
      on_seg p (eA e1) (eB e1) -> on_seg p (eA e2) (eB e2) ->
      touch_ends p e1 /\ touch_ends p e2) out.
  Proof.
    intros pre out S. destruct (split_cases tol segs pre out S) as [[E [_ O]]|[NE _]].
    - subst out. apply fop_map. unfold indexed. apply fop_indexed_gen.
      intros i gi j gj Hi Hj L p O1 O2. unfold eA, eB, touch_ends in *. cbn [fst snd] in *.
      assert (Early : forall k g q, LP tol segs k g q -> q = sS g \/ q = sE g).
      { intros k g q [H|[H|H]]; [left; symmetry; exact H|right; symmetry; exact H|].
        exfalso. apply (isect_in_new tol segs) in H. unfold hs in *. rewrite E in H. destruct H. }
      assert (Nij : i <> j) by lia. assert (Nji : j <> i) by lia.
      destruct (common_local i gi j gj p Hi Hj Nij O1 O2) as [[q [Lq Pq]]|[q1 [q2 SP]]].
      2:{ exfalso. apply (seg_pair_new _ _ _ _ _ _ SP). exact E. }
      destruct (common_local j gj i gi p Hj Hi Nji O2 O1) as [[q' [Lq' Pq']]|[q1 [q2 SP]]].
      2:{ exfalso. apply (seg_pair_new _ _ _ _ _ _ SP). exact E. }
      split.
      + destruct (Early _ _ _ Lq) as [-> | ->]; tauto.
      + destruct (Early _ _ _ Lq') as [-> | ->]; tauto.
    - eapply fop_impl_in; [apply (no_dups tol segs G pre out S NE)|].
      intros e1 e2 H1 H2 ND p O1 O2.
      destruct (out_child tol segs pre out S NE e1 H1) as [k [g [a1 [b1 [Hk [Hab1 ->]]]]]].
      destruct (out_child tol segs pre out S NE e2 H2) as [m [g' [a2 [b2 [Hm [Hab2 ->]]]]]].
      unfold eA, eB, touch_ends in *. cbn [fst snd] in *.
      apply seg_minmax in O1. apply seg_minmax in O2.
      assert (NS : ~ ((peq (upt U a1) (upt U a2) /\ peq (upt U b1) (upt U b2)) \/
                      (peq (upt U a1) (upt U b2) /\ peq (upt U b1) (upt U a2)))).
      { intro X. apply ND. unfold same_geom, eA, eB. cbn [fst snd]. fold U.
        destruct (minmax_cases a1 b1) as [[-> ->]|[-> ->]];
          destruct (minmax_cases a2 b2) as [[-> ->]|[-> ->]]; tauto. }
      destruct (Nat.eq_dec k m) as [Ekm|Ne].
      + subst m. rewrite (indexed_fun _ _ _ _ Hm Hk) in *.
        destruct (same_parent_nc tol segs G k g a1 b1 a2 b2 p Hk Hab1 Hab2) as [E1 E2]; try assumption.
        * intros [-> ->]. apply NS. left. split; apply peq_refl.
        * split; apply ends_minmax; assumption.
      + destruct (diff_parent_nc k g m g' a1 b1 a2 b2 p Hk Hm Ne Hab1 Hab2 O1 O2 NS) as [E1 E2].
        split; apply ends_minmax; assumption.
  Qed.
End Full2.

Lemma no_duplicates_full_thm :
  forall tol segs, guard tol segs = true -> forall pre out, split tol segs = Edges pre out ->
  (forall e, In e out -> ~ peq (eA e) (eB e)) /\
  ForallOrdPairs (fun e1 e2 => ~ same_geom e1 e2) out.
Proof.
  intros tol segs G pre out S.
  split; [exact (proper_out tol segs G pre out S)|exact (no_dups_full tol segs G pre out S)].
Qed.
