(* C24 — the theorems: any history of well-formed / rejected calls, and what the query
   methods return afterwards. *)
From Coq Require Import List Arith Bool Lia Permutation Sorted.
Import ListNotations.
From PP Require Import Model.C24 Model.C24_spec Proofs.C24_base Proofs.C24_sort Proofs.C24_inv
  Proofs.C24_step Proofs.C24_step2 Proofs.C24_step3.

(* ------------------------------------------------------------------ histories *)
Lemma run_inv ops : forall g sp,
  Inv g sp -> hist_ok sp ops = true ->
  Inv (fst (run g ops)) (srun sp ops) /\ snd (run g ops) = souts sp ops.
Proof.
  induction ops as [|o r IH]; intros g sp HI Hh; cbn [run srun souts hist_ok] in *.
  - split; auto.
  - destruct (okb sp o) eqn:Eok.
    + destruct (step_ok g sp o HI Eok) as (g' & Hs & HI'). rewrite Hs.
      destruct (IH g' (sstep sp o) HI' Hh) as [H1 H2].
      destruct (run g' r) as [g'' xs]. cbn [fst snd] in *. split; auto. congruence.
    + destruct (rejb sp o) as [e|] eqn:Er; [|discriminate].
      rewrite (step_rej g sp o e HI Eok Er).
      destruct (IH g sp HI Hh) as [H1 H2].
      destruct (run g r) as [g'' xs]. cbn [fst snd] in *. split; auto. congruence.
Qed.

Lemma reach_inv ops :
  hist_ok sempty ops = true -> Inv (fst (run empty ops)) (srun sempty ops).
Proof. intros H. apply (run_inv ops empty sempty Inv_empty H). Qed.

Lemma history_outcomes ops :
  hist_ok sempty ops = true -> snd (run empty ops) = souts sempty ops.
Proof. intros H. apply (run_inv ops empty sempty Inv_empty H). Qed.

Lemma history_rejected ops o e :
  hist_ok sempty ops = true ->
  okb (srun sempty ops) o = false -> rejb (srun sempty ops) o = Some e ->
  step (fst (run empty ops)) o = (fst (run empty ops), Raised e).
Proof. intros H. apply step_rej. apply reach_inv; auto. Qed.

Lemma history_accepted ops o :
  hist_ok sempty ops = true -> okb (srun sempty ops) o = true ->
  snd (step (fst (run empty ops)) o) = Done.
Proof.
  intros H Hok. destruct (step_ok _ _ o (reach_inv ops H) Hok) as (g' & Hs & _).
  rewrite Hs. reflexivity.
Qed.

(* ------------------------------------------------------------------ listings *)
Lemma dim_filter_nodup d l : NoDup l -> NoDup (dim_filter d l).
Proof. destruct d; cbn; auto. intros; apply NoDup_filter; auto. Qed.

Lemma dim_filter_In d l x : In x (dim_filter d l) -> In x l.
Proof. destruct d; cbn; auto. unfold of_dim. rewrite filter_In. tauto. Qed.

Lemma obs_subdomains g sp d :
  Inv g sp ->
  exists L, subdomains g d = Ok L /\ Permutation L (dim_filter d (pS sp)) /\
            NoDup L /\ StronglySorted glt L.
Proof.
  intros HI. unfold subdomains. rewrite (inv_sds _ _ HI).
  destruct (argsort_ok (pS sp) (dim_filter d (pS sp))) as (L & H1 & H2 & H3).
  - apply dim_filter_nodup. apply (inv_nd _ _ HI).
  - intros Hne E. rewrite E in Hne. destruct d; apply Hne; reflexivity.
  - intros x Hx. apply dim_max_ge. eapply dim_filter_In; eauto.
  - exists L. repeat split; auto.
    eapply Permutation_NoDup; [symmetry; exact H2|]. apply dim_filter_nodup. apply (inv_nd _ _ HI).
Qed.

Lemma intf_dim_le g sp i : Inv g sp -> In i (intfs g) -> fst i <= dim_max (sds g).
Proof.
  intros HI Hi.
  destruct (stored_pair g sp i HI Hi) as (a & b & a' & b' & _ & _ & _ & Ha & _ & Hda & _).
  pose proof (dim_max_ge _ _ Ha). lia.
Qed.

Lemma intfs_need_sds g sp : Inv g sp -> intfs g <> [] -> sds g <> [].
Proof.
  intros HI Hne E. destruct (intfs g) as [|i r] eqn:Ei; [congruence|].
  assert (Hi : In i (intfs g)) by (rewrite Ei; left; auto).
  destruct (stored_pair g sp i HI Hi) as (a & b & a' & b' & _ & _ & _ & Ha & _).
  rewrite E in Ha. destruct Ha.
Qed.

Lemma obs_interfaces g sp d :
  Inv g sp ->
  exists L, interfaces g d = Ok L /\ Permutation L (dim_filter d (map fst (pI sp))) /\
            NoDup L /\ StronglySorted glt L.
Proof.
  intros HI. unfold interfaces.
  assert (HnI : NoDup (intfs g)) by (rewrite (inv_intfs _ _ HI); apply (inv_ndI _ _ HI)).
  destruct (argsort_ok (sds g) (dim_filter d (intfs g))) as (L & H1 & H2 & H3).
  - apply dim_filter_nodup; auto.
  - intros Hne. apply (intfs_need_sds g sp HI). intros E. rewrite E in Hne.
    destruct d; apply Hne; reflexivity.
  - intros x Hx. apply (intf_dim_le g sp x HI). eapply dim_filter_In; eauto.
  - exists L. rewrite <- (inv_intfs _ _ HI). repeat split; auto.
    eapply Permutation_NoDup; [symmetry; exact H2|]. apply dim_filter_nodup; auto.
Qed.

(* ------------------------------------------------------------------ pairs *)
Lemma pair_eqb_eq p q : pair_eqb p q = true <-> p = q.
Proof.
  unfold pair_eqb. rewrite andb_true_iff, !geqb_eq. destruct p, q; cbn. split.
  - intros [-> ->]; reflexivity.
  - intros H; inversion H; auto.
Qed.

Lemma rev_lookup_Some p m j :
  rev_lookup p m = Some j -> In (j, p) m.
Proof.
  induction m as [|[i q] r IH]; cbn; [discriminate|].
  destruct (rev_lookup p r) as [k|] eqn:E.
  - intros H; inversion H; subst. right; auto.
  - destruct (pair_eqb q p) eqn:Ep; [|discriminate]. apply pair_eqb_eq in Ep. subst.
    intros H; inversion H; subst. left; reflexivity.
Qed.

Lemma rev_lookup_None p m j : rev_lookup p m = None -> ~ In (j, p) m.
Proof.
  induction m as [|[i q] r IH]; cbn; [tauto|].
  destruct (rev_lookup p r) as [k|] eqn:E; [discriminate|].
  destruct (pair_eqb q p) eqn:Ep; [discriminate|]. intros _ [H|H].
  - inversion H; subst. assert (pair_eqb p p = true) by (apply pair_eqb_eq; auto). congruence.
  - apply IH; auto.
Qed.

Lemma back_one g sp i a b c d :
  Inv g sp -> lookup i (pI sp) = Some (a, b) -> unord (c, d) (a, b) ->
  pair_to_intf g c d = Ok i.
Proof.
  intros HI Hl Hu.
  assert (Hk : NoDup (map fst (i2s g))).
  { rewrite (inv_keys _ _ HI), (inv_intfs _ _ HI). apply (inv_ndI _ _ HI). }
  destruct (inv_wf _ _ HI i a b Hl) as (_ & _ & _ & _ & Huniq).
  (* any interface stored with one of the two orders is i *)
  assert (Hany : forall j e f, In (j, (e, f)) (i2s g) -> unord (e, f) (a, b) -> j = i).
  { intros j e f Hin Hu'. apply In_lookup in Hin; auto.
    pose proof (inv_rel _ _ HI j) as Hr. rewrite Hin in Hr.
    destruct (lookup j (pI sp)) as [[e' f']|] eqn:E; [|contradiction]. cbn in Hr.
    symmetry. eapply Huniq; eauto.
    apply unord_sym. eapply unord_trans; [exact Hr | exact Hu']. }
  pose proof (inv_rel _ _ HI i) as Hri. rewrite Hl in Hri.
  destruct (lookup i (i2s g)) as [[a' b']|] eqn:Ei; [|contradiction]. cbn in Hri.
  apply lookup_In in Ei.
  unfold pair_to_intf. destruct (rev_lookup (c, d) (i2s g)) as [j|] eqn:E1.
  - apply rev_lookup_Some in E1. f_equal. eapply Hany; eauto.
  - destruct (rev_lookup (d, c) (i2s g)) as [j|] eqn:E2.
    + apply rev_lookup_Some in E2. f_equal. eapply Hany; eauto.
      unfold unord in *; cbn [fst snd] in *; intuition congruence.
    + exfalso. unfold unord in Hri, Hu; cbn [fst snd] in Hri, Hu.
      destruct Hri as [[-> ->]|[-> ->]], Hu as [[-> ->]|[-> ->]];
        first [eapply (rev_lookup_None _ _ i E1); exact Ei
              |eapply (rev_lookup_None _ _ i E2); exact Ei].
Qed.

Lemma obs_pair g sp i a b :
  Inv g sp -> In (i, (a, b)) (pI sp) ->
  exists hi lo, intf_pair g i = Ok (hi, lo) /\ (a <> b -> glt hi lo) /\
                unord (hi, lo) (a, b) /\
                pair_to_intf g a b = Ok i /\ pair_to_intf g b a = Ok i.
Proof.
  intros HI Hin. apply In_lookup in Hin; [|apply (inv_ndI _ _ HI)].
  assert (Hi : In i (intfs g)).
  { rewrite (inv_intfs _ _ HI). apply lookup_keys. congruence. }
  destruct (stored_pair g sp i HI Hi) as (a0 & b0 & a' & b' & Hl & Hl' & Hu & Ha & Hb & _).
  rewrite Hin in Hl. inversion Hl; subst a0 b0.
  destruct (sort_tuple_gen (sds g) a' b' Ha Hb) as (x & y & Hst & Hlt & Hor).
  exists x, y. unfold intf_pair. rewrite Hl', Hst. split; auto. split.
  { intros Hab. apply Hlt. intros ->. apply Hab.
    unfold unord in Hu; cbn [fst snd] in Hu. intuition congruence. }
  split.
  - unfold unord in *; cbn [fst snd] in *.
    destruct Hor as [E|E]; inversion E; subst; intuition congruence.
  - split; eapply back_one; eauto; [apply unord_refl | right; cbn; auto].
Qed.

(* ------------------------------------------------------------------ interfaces of a subdomain *)
Lemma obs_sd_intfs g sp s :
  Inv g sp ->
  exists L, sd_to_intfs g s = Ok L /\
            Permutation L (map fst (filter (fun e => touches s (snd e)) (pI sp))) /\
            NoDup L /\ StronglySorted glt L.
Proof.
  intros HI. unfold sd_to_intfs.
  assert (HnI : NoDup (intfs g)) by (rewrite (inv_intfs _ _ HI); apply (inv_ndI _ _ HI)).
  rewrite collect_spec by (intros i Hi; rewrite (inv_keys _ _ HI); auto).
  assert (HC : filter (tch (i2s g) s) (intfs g)
               = map fst (filter (fun e => touches s (snd e)) (pI sp))).
  { rewrite (inv_intfs _ _ HI). symmetry. apply map_fst_filter.
    intros [i p] Hin. cbn [fst snd]. symmetry. apply (tch_spec g sp s i p HI).
    apply In_lookup; auto. apply (inv_ndI _ _ HI). }
  destruct (argsort_ok (sds g) (filter (tch (i2s g) s) (intfs g))) as (L & H1 & H2 & H3).
  - apply NoDup_filter; auto.
  - intros Hne. apply (intfs_need_sds g sp HI). intros E. rewrite E in Hne. apply Hne; reflexivity.
  - intros x Hx. apply filter_In in Hx. apply (intf_dim_le g sp x HI). tauto.
  - exists L. rewrite <- HC. repeat split; auto.
    eapply Permutation_NoDup; [symmetry; exact H2|]. apply NoDup_filter; auto.
Qed.

(* ------------------------------------------------------------------ boundary grids *)
Lemma snd_inj (m : list (gid * gid)) s s' v :
  NoDup (map snd m) -> In (s, v) m -> In (s', v) m -> s = s'.
Proof.
  induction m as [|[k w] r IH]; cbn; intros Hn H1 H2; [contradiction|].
  inversion Hn as [|? ? Hw Hr]; subst.
  destruct H1 as [H1|H1], H2 as [H2|H2].
  - congruence.
  - inversion H1; subst. exfalso. apply Hw. apply in_map_iff. exists (s', v); auto.
  - inversion H2; subst. exfalso. apply Hw. apply in_map_iff. exists (s, v); auto.
  - apply IH; auto.
Qed.

Lemma obs_boundary g sp :
  Inv g sp ->
  (forall s, In s (pS sp) -> 0 < fst s ->
     exists bg, sd_to_bg g s = Some bg /\ fst bg = fst s - 1 /\ In bg (bgs g)) /\
  (forall s, ~ In s (pS sp) \/ fst s = 0 -> sd_to_bg g s = None) /\
  (forall s s' bg, sd_to_bg g s = Some bg -> sd_to_bg g s' = Some bg -> s = s') /\
  NoDup (bgs g) /\
  (forall bg, In bg (bgs g) -> exists s, In s (pS sp) /\ sd_to_bg g s = Some bg).
Proof.
  intros HI. destruct (inv_bi _ _ HI) as (B1 & B2 & B3 & B4 & B5). unfold sd_to_bg.
  repeat split; auto.
  - intros s Hs Hpos.
    assert (Hk : In s (map fst (s2b g))).
    { apply (inv_bk _ _ HI). rewrite (inv_sds _ _ HI). auto. }
    destruct (In_keys_lookup _ _ Hk) as (bg & Hbg). exists bg. split; auto. split; auto.
    rewrite B2. apply lookup_In in Hbg. apply in_map_iff. exists (s, bg); auto.
  - intros s Hs. apply lookup_None. intros Hk. apply (inv_bk _ _ HI) in Hk.
    rewrite (inv_sds _ _ HI) in Hk. destruct Hs; [tauto | lia].
  - intros s s' bg H1 H2. apply lookup_In in H1. apply lookup_In in H2.
    eapply snd_inj; eauto. rewrite <- B2; auto.
  - intros bg Hbg. rewrite B2 in Hbg. apply in_map_iff in Hbg. destruct Hbg as ([s v] & Hv & Hin).
    cbn in Hv; subst v. exists s. split.
    + assert (Hk : In s (map fst (s2b g))) by (apply in_map_iff; exists (s, bg); auto).
      apply (inv_bk _ _ HI) in Hk. rewrite (inv_sds _ _ HI) in Hk. tauto.
    + apply In_lookup; auto.
Qed.

(* ------------------------------------------------------------------ removal is exact *)
Lemma obs_remove g sp s :
  Inv g sp -> In s (pS sp) ->
  let g' := fst (step g (RemoveSd s)) in
  snd (step g (RemoveSd s)) = Done /\
  sds g' = filter (fun x => neqb x s) (sds g) /\
  intfs g' = filter (fun i => negb (tch (i2s g) s i)) (intfs g) /\
  (forall j, lookup j (i2s g') = if tch (i2s g) s j then None else lookup j (i2s g)) /\
  (forall s', sd_to_bg g' s' = if geqb s s' then None else sd_to_bg g s') /\
  bgs g' = match sd_to_bg g s with
           | Some bg => filter (fun x => neqb x bg) (bgs g)
           | None => bgs g
           end.
Proof.
  intros HI Hs.
  assert (Hok : okb sp (RemoveSd s) = true) by (cbn; apply mem_In; auto).
  destruct (step_remove g sp s HI Hok) as (g' & Hst & _ & (R1 & R2 & R3 & R4 & R5)).
  rewrite Hst. cbn [fst snd]. destruct (inv_bi _ _ HI) as (B1 & B2 & B3 & B4 & B5).
  repeat split; auto.
  - intros s'. unfold sd_to_bg. rewrite R4. apply lookup_ddel; auto.
  - rewrite R5. unfold sd_to_bg. destruct (lookup s (s2b g)); auto. apply kdel_filter; auto.
Qed.

(* ------------------------------------------------------------------ final forms *)
Definition final (ops : list op) : st := fst (run empty ops).
Definition present (ops : list op) : spec := srun sempty ops.

Lemma thm_outcomes ops :
  hist_ok sempty ops = true -> snd (run empty ops) = souts sempty ops.
Proof. apply history_outcomes. Qed.

Lemma thm_next_call ops o :
  hist_ok sempty ops = true ->
  (okb (present ops) o = true -> snd (step (final ops) o) = Done) /\
  (forall e, okb (present ops) o = false -> rejb (present ops) o = Some e ->
             step (final ops) o = (final ops, Raised e)).
Proof.
  intros H. split.
  - apply history_accepted; auto.
  - intros e. apply history_rejected; auto.
Qed.

Lemma thm_listing ops d :
  hist_ok sempty ops = true ->
  NoDup (pS (present ops)) /\ NoDup (map fst (pI (present ops))) /\
  (exists L, subdomains (final ops) d = Ok L /\
             Permutation L (dim_filter d (pS (present ops))) /\
             NoDup L /\ StronglySorted glt L) /\
  (exists L, interfaces (final ops) d = Ok L /\
             Permutation L (dim_filter d (map fst (pI (present ops)))) /\
             NoDup L /\ StronglySorted glt L).
Proof.
  intros H. pose proof (reach_inv ops H) as HI. split; [apply (inv_nd _ _ HI)|].
  split; [apply (inv_ndI _ _ HI)|]. split.
  - apply obs_subdomains; auto.
  - apply obs_interfaces; auto.
Qed.

Lemma thm_pairs ops i a b :
  hist_ok sempty ops = true -> In (i, (a, b)) (pI (present ops)) ->
  In a (pS (present ops)) /\ In b (pS (present ops)) /\
  exists hi lo, intf_pair (final ops) i = Ok (hi, lo) /\ (a <> b -> glt hi lo) /\
                ((hi = a /\ lo = b) \/ (hi = b /\ lo = a)) /\
                pair_to_intf (final ops) a b = Ok i /\ pair_to_intf (final ops) b a = Ok i.
Proof.
  intros H Hin. pose proof (reach_inv ops H) as HI.
  assert (Hl : lookup i (pI (present ops)) = Some (a, b)).
  { apply In_lookup; auto. apply (inv_ndI _ _ HI). }
  destruct (inv_wf _ _ HI i a b Hl) as (H2 & H3 & _).
  split; auto. split; auto.
  destruct (obs_pair _ _ i a b HI Hin) as (hi & lo & P1 & P2 & P3 & P4 & P5).
  exists hi, lo. repeat split; auto.
Qed.

Lemma thm_sd_intfs ops s :
  hist_ok sempty ops = true ->
  exists L, sd_to_intfs (final ops) s = Ok L /\
            Permutation L (map fst (filter (fun e => touches s (snd e)) (pI (present ops)))) /\
            NoDup L /\ StronglySorted glt L.
Proof. intros H. apply obs_sd_intfs. apply reach_inv; auto. Qed.

Lemma thm_boundary ops :
  hist_ok sempty ops = true ->
  (forall s, In s (pS (present ops)) -> 0 < fst s ->
     exists bg, sd_to_bg (final ops) s = Some bg /\ fst bg = fst s - 1 /\
                In bg (bgs (final ops))) /\
  (forall s, ~ In s (pS (present ops)) \/ fst s = 0 -> sd_to_bg (final ops) s = None) /\
  (forall s s' bg, sd_to_bg (final ops) s = Some bg -> sd_to_bg (final ops) s' = Some bg ->
                   s = s') /\
  NoDup (bgs (final ops)) /\
  (forall bg, In bg (bgs (final ops)) ->
     exists s, In s (pS (present ops)) /\ sd_to_bg (final ops) s = Some bg).
Proof. intros H. apply obs_boundary. apply reach_inv; auto. Qed.

(* "the stored pair of interface i contains s", read through the abstract container *)
Lemma thm_tch ops s i p :
  hist_ok sempty ops = true -> In (i, p) (pI (present ops)) ->
  tch (i2s (final ops)) s i = touches s p.
Proof.
  intros H Hin. pose proof (reach_inv ops H) as HI. apply (tch_spec _ _ s i p HI).
  apply In_lookup; auto. apply (inv_ndI _ _ HI).
Qed.

Lemma thm_remove ops s :
  hist_ok sempty ops = true -> In s (pS (present ops)) ->
  let g := final ops in
  let g' := fst (step g (RemoveSd s)) in
  snd (step g (RemoveSd s)) = Done /\
  sds g' = filter (fun x => neqb x s) (sds g) /\
  intfs g' = filter (fun i => negb (tch (i2s g) s i)) (intfs g) /\
  (forall j, lookup j (i2s g') = if tch (i2s g) s j then None else lookup j (i2s g)) /\
  (forall s', sd_to_bg g' s' = if geqb s s' then None else sd_to_bg g s') /\
  bgs g' = match sd_to_bg g s with
           | Some bg => filter (fun x => neqb x bg) (bgs g)
           | None => bgs g
           end.
Proof. intros H Hs. apply (obs_remove _ _ s (reach_inv ops H) Hs). Qed.
