(* C24 — replace_subdomains_and_interfaces: every well-formed map succeeds and preserves
   the invariant. *)
From Coq Require Import List Arith Bool Lia Permutation Sorted.
Import ListNotations.
From PP Require Import Model.C24 Model.C24_spec Proofs.C24_base Proofs.C24_sort Proofs.C24_inv
  Proofs.C24_step Proofs.C24_step2.

Definition renp (o n : gid) (p : gid * gid) : gid * gid := (ren o n (fst p), ren o n (snd p)).

Lemma lookup_ren o n j I :
  lookup j (map (ren_entry o n) I) = option_map (renp o n) (lookup j I).
Proof.
  change (map (ren_entry o n) I) with (map (fun e => (fst e, renp o n (snd e))) I).
  apply lookup_map_val.
Qed.

Lemma unord_ren o n p q : unord p q -> unord (renp o n p) (renp o n q).
Proof. unfold unord, renp; cbn [fst snd]. intuition congruence. Qed.

Lemma unord_ren_inv o n S a b c d :
  In a S -> In b S -> In c S -> In d S -> ~ In n S ->
  unord (renp o n (a, b)) (renp o n (c, d)) -> unord (a, b) (c, d).
Proof.
  intros Ha Hb Hc Hd Hn. unfold unord, renp; cbn [fst snd].
  intros [[H1 H2]|[H1 H2]]; [left|right]; split; eapply ren_inj; eauto.
Qed.

Lemma step_replace_one g sp o n :
  Inv g sp -> In o (pS sp) -> ~ In n (pS sp) -> fst n = fst o ->
  exists g', replace_one g o n = (g', Done) /\ Inv g' (s_replace1 sp o n).
Proof.
  intros HI Ho Hn Hdim.
  assert (Hno : n <> o) by (intros ->; contradiction).
  assert (HnS : NoDup (sds g)) by (rewrite (inv_sds _ _ HI); apply (inv_nd _ _ HI)).
  assert (HnI : NoDup (intfs g)) by (rewrite (inv_intfs _ _ HI); apply (inv_ndI _ _ HI)).
  assert (Hmo : mem o (sds g) = true) by (apply mem_In; rewrite (inv_sds _ _ HI); auto).
  assert (Hn' : ~ In n (sds g)) by (rewrite (inv_sds _ _ HI); auto).
  assert (Hs1 : kadd n (sds g) = sds g ++ [n]) by (apply kadd_fresh; auto).
  set (s1 := sds g ++ [n]) in *.
  set (C := filter (tch (i2s g) o) (intfs g)).
  assert (Hcol : collect (i2s g) o (intfs g) = Ok C).
  { apply collect_spec. intros i Hi. rewrite (inv_keys _ _ HI). auto. }
  destruct (argsort_gen s1 C) as (L & HL & HLn & HLin).
  { apply NoDup_filter; auto. }
  { intros _ E. unfold s1 in E. apply app_eq_nil in E. destruct E; discriminate. }
  assert (HLiff : forall j, In j L <-> In j (intfs g) /\ tch (i2s g) o j = true).
  { intros j. rewrite HLin. unfold C. rewrite filter_In. split; [tauto|]. intros [H1 H2].
    split; auto.
    destruct (stored_pair g sp j HI H1) as (a & b & a' & b' & _ & _ & _ & Ha & _ & Hda & _).
    assert (In a' s1) by (unfold s1; apply in_app_iff; auto).
    pose proof (dim_max_ge _ _ H). lia. }
  destruct (rename_loop_spec s1 o n L (i2s g) HLn) as (m' & Hr & Hk & Hout & Hin).
  { intros i Hi. apply HLiff in Hi. destruct Hi as [Hi Ht].
    destruct (stored_pair g sp i HI Hi) as (a & b & a' & b' & _ & Hl' & _ & Ha & Hb & _).
    exists a', b'. unfold tch in Ht. rewrite Hl' in Ht.
    repeat split; auto; unfold s1; apply in_app_iff; auto. }
  assert (Hkdel : kdel o s1 = filter (fun x => neqb x o) (pS sp) ++ [n]).
  { rewrite kdel_filter.
    - unfold s1. rewrite filter_app, (inv_sds _ _ HI). cbn.
      assert (E : neqb n o = true) by (apply neqb_true; auto). rewrite E. reflexivity.
    - unfold s1. apply nodup_app; auto; [constructor; [intros []|constructor]|].
      intros x Hx [<-|[]]. contradiction. }
  (* interface part of the invariant *)
  assert (Hrel : forall j, orel (lookup j (map (ren_entry o n) (pI sp))) (lookup j m')).
  { intros j. rewrite lookup_ren. pose proof (inv_rel _ _ HI j) as Hr0.
    destruct (lookup j (pI sp)) as [[a b]|] eqn:E; cbn [option_map].
    - destruct (lookup j (i2s g)) as [[a' b']|] eqn:E'; [|contradiction]. cbn in Hr0.
      destruct (in_dec gid_dec j L) as [HjL|HjL].
      + destruct (Hin j HjL) as (a2 & b2 & q & Hl2 & Hq & Hu). rewrite Hq. cbn.
        rewrite E' in Hl2. inversion Hl2; subst.
        eapply unord_trans; [|apply unord_sym; exact Hu].
        apply (unord_ren o n (a, b) (a2, b2)); auto.
      + rewrite Hout by auto. rewrite E'. cbn.
        assert (Hji : In j (intfs g)).
        { rewrite <- (inv_keys _ _ HI). apply lookup_keys. congruence. }
        assert (Ht : tch (i2s g) o j = false).
        { destruct (tch (i2s g) o j) eqn:Et; auto. exfalso. apply HjL. apply HLiff. auto. }
        rewrite (tch_spec g sp o j (a, b) HI E) in Ht.
        assert (a <> o /\ b <> o) as [Hao Hbo].
        { split; intros ->; [assert (touches o (o, b) = true) by (apply touches_iff; auto)
                            |assert (touches o (a, o) = true) by (apply touches_iff; auto)];
            congruence. }
        unfold renp; cbn [fst snd]. rewrite !ren_id by auto. exact Hr0.
    - destruct (lookup j (i2s g)) eqn:E'; [contradiction|].
      assert (HjL : ~ In j L).
      { intros HjL. apply HLiff in HjL. destruct HjL as [HjL _].
        rewrite <- (inv_keys _ _ HI) in HjL. apply lookup_keys in HjL. congruence. }
      rewrite Hout by auto. rewrite E'. exact I. }
  assert (Hwf : WfI (s_replace1 sp o n)).
  { intros j a' b'. cbn [s_replace1 pS pI]. rewrite lookup_ren.
    destruct (lookup j (pI sp)) as [[a b]|] eqn:E; cbn [option_map]; [|discriminate].
    unfold renp; cbn [fst snd]. intros Hp; inversion Hp; subst.
    destruct (inv_wf _ _ HI j a b E) as (H2 & H3 & H4 & H5 & H6).
    split; [apply ren_in; auto|]. split; [apply ren_in; auto|].
    rewrite !ren_dim by auto. split; auto. split; auto.
    intros k c' d'. rewrite lookup_ren.
    destruct (lookup k (pI sp)) as [[c d]|] eqn:E'; cbn [option_map]; [|discriminate].
    intros Hq Hu; inversion Hq; subst.
    destruct (inv_wf _ _ HI k c d E') as (H2' & H3' & _).
    eapply H6; eauto. eapply (unord_ren_inv o n (pS sp)); eauto. }
  assert (Hkeys : map fst (map (ren_entry o n) (pI sp)) = map fst (pI sp)).
  { rewrite map_map. apply map_ext. intros e; reflexivity. }
  unfold replace_one. rewrite Hmo. cbn [negb]. unfold sd_to_intfs.
  cbn [sds intfs i2s s2b bgs nbg]. rewrite Hcol, Hs1, HL, Hr, Hkdel. unfold gdim.
  destruct (0 <? fst o) eqn:Ed0.
  - apply Nat.ltb_lt in Ed0.
    assert (Hok : In o (map fst (s2b g))).
    { apply (inv_bk _ _ HI). split; auto. rewrite (inv_sds _ _ HI); auto. }
    destruct (In_keys_lookup _ _ Hok) as (bgo & Hbgo). rewrite Hbgo.
    assert (E0 : (fst n =? 0) = false) by (apply Nat.eqb_neq; lia). rewrite E0.
    destruct (inv_bi _ _ HI) as (B1 & B2 & B3 & B4 & B5).
    assert (Hbm : mem bgo (bgs g) = true).
    { apply mem_In. rewrite B2. apply lookup_In in Hbgo. apply in_map_iff. exists (o, bgo); auto. }
    rewrite Hbm. cbn [negb].
    assert (Hnk : ~ In n (map fst (s2b g))).
    { intros Hx. apply (inv_bk _ _ HI) in Hx. tauto. }
    destruct (BI_add (s2b g) (bgs g) (nbg g) n (inv_bi _ _ HI) Hnk) as [HB' Hk'].
    assert (Hlo : lookup o (dset n (fst n - 1, nbg g) (s2b g)) = Some bgo).
    { rewrite lookup_dset. gcase n o; [contradiction | exact Hbgo]. }
    pose proof (BI_del _ _ _ o bgo HB' Hlo) as HB''.
    eexists; split; [reflexivity|].
    constructor; cbn [sds intfs i2s s2b bgs nbg s_replace1 pS pI]; auto.
    + apply nodup_app; [apply NoDup_filter; apply (inv_nd _ _ HI) | constructor; [intros []|constructor] |].
      intros x Hx [<-|[]]. apply in_filter_neq in Hx. tauto.
    + rewrite Hkeys. apply (inv_intfs _ _ HI).
    + rewrite Hkeys. apply (inv_ndI _ _ HI).
    + rewrite Hk. apply (inv_keys _ _ HI).
    + intros x. rewrite ddel_keys. destruct HB' as (B1' & _).
      rewrite kdel_In by exact B1'. rewrite in_app_iff, in_filter_neq. cbn [In].
      split.
      * intros [Hx Hxo]. apply Hk' in Hx. destruct Hx as [Hx| ->].
        -- apply (inv_bk _ _ HI) in Hx. rewrite (inv_sds _ _ HI) in Hx. tauto.
        -- split; [right; left; reflexivity | lia].
      * intros [[[Hx Hxo]|[<-|[]]] Hpos].
        -- split; auto. apply Hk'. left. apply (inv_bk _ _ HI). rewrite (inv_sds _ _ HI). auto.
        -- split; auto. apply Hk'. right; reflexivity.
  - apply Nat.ltb_ge in Ed0.
    eexists; split; [reflexivity|].
    constructor; cbn [sds intfs i2s s2b bgs nbg s_replace1 pS pI]; auto.
    + apply nodup_app; [apply NoDup_filter; apply (inv_nd _ _ HI) | constructor; [intros []|constructor] |].
      intros x Hx [<-|[]]. apply in_filter_neq in Hx. tauto.
    + rewrite Hkeys. apply (inv_intfs _ _ HI).
    + rewrite Hkeys. apply (inv_ndI _ _ HI).
    + rewrite Hk. apply (inv_keys _ _ HI).
    + apply (inv_bi _ _ HI).
    + intros x. rewrite (inv_bk _ _ HI x), (inv_sds _ _ HI), in_app_iff, in_filter_neq. cbn [In].
      split.
      * intros [Hx Hpos]. split; auto. left. split; auto. intros ->. lia.
      * intros [[[Hx Hxo]|[<-|[]]] Hpos]; [tauto | lia].
Qed.

Lemma step_replace_all sm : forall g sp,
  Inv g sp -> ok_replace (pS sp) sm = true ->
  exists g', replace_all g sm = (g', Done) /\
             Inv g' (fold_left (fun sp e => s_replace1 sp (fst e) (snd e)) sm sp).
Proof.
  induction sm as [|[o n] r IH]; intros g sp HI Hok; cbn [replace_all fold_left].
  - exists g. split; auto.
  - cbn [ok_replace] in Hok. rewrite !andb_true_iff in Hok.
    destruct Hok as (((H1 & H2) & H3) & H4).
    apply mem_In in H1. apply negb_true_iff in H2. apply mem_nIn in H2. apply Nat.eqb_eq in H3.
    destruct (step_replace_one g sp o n HI H1 H2 H3) as (g1 & Hs & HI1). rewrite Hs.
    cbn [fst snd]. apply IH; auto.
Qed.

(* ------------------------------------------------------------------ all calls *)
Lemma step_ok g sp o :
  Inv g sp -> okb sp o = true -> exists g', step g o = (g', Done) /\ Inv g' (sstep sp o).
Proof.
  intros HI Hok. destruct o as [l|i a b|s|im sm].
  - apply step_add; auto.
  - apply step_intf; auto.
  - destruct (step_remove g sp s HI Hok) as (g' & H1 & H2 & _). eauto.
  - cbn [step sstep]. apply step_replace_all; auto.
Qed.

Lemma listing_ok g sp :
  Inv g sp -> exists L, interfaces g None = Ok L /\ forall x, In x L -> In x (intfs g).
Proof.
  intros HI. unfold interfaces. cbn [dim_filter].
  assert (HnI : NoDup (intfs g)) by (rewrite (inv_intfs _ _ HI); apply (inv_ndI _ _ HI)).
  destruct (argsort_gen (sds g) (intfs g) HnI) as (L & HL & _ & HLin).
  - intros Hne E. destruct (intfs g) as [|i r] eqn:Ei; [congruence|].
    assert (Hi : In i (intfs g)) by (rewrite Ei; left; auto).
    destruct (stored_pair g sp i HI Hi) as (a & b & a' & b' & _ & _ & _ & Ha & _).
    rewrite E in Ha. destruct Ha.
  - exists L. split; auto. intros x Hx. apply HLin in Hx. tauto.
Qed.

Lemma step_rej g sp o e :
  Inv g sp -> okb sp o = false -> rejb sp o = Some e -> step g o = (g, Raised e).
Proof.
  intros HI _ Hr. destruct o as [l|i a b|s|im sm]; cbn [rejb] in Hr; cbn [step].
  - unfold add_subdomains. rewrite (inv_sds _ _ HI).
    destruct (existsb _ l); cbn [orb] in Hr; [inversion Hr; reflexivity|].
    destruct (negb (dupfree l)); inversion Hr; reflexivity.
  - unfold add_interface, gdim. rewrite (inv_intfs _ _ HI).
    destruct (mem i (map fst (pI sp))); [inversion Hr; reflexivity|].
    destruct (absdiff (fst a) (fst b) <? 3); [discriminate | inversion Hr; reflexivity].
  - unfold remove_subdomain. destruct (listing_ok g sp HI) as (L & HL & HLin). rewrite HL.
    rewrite collect_spec by (intros i Hi; rewrite (inv_keys _ _ HI); auto).
    rewrite (inv_sds _ _ HI).
    destruct (mem s (pS sp)); [discriminate | inversion Hr; reflexivity].
  - destruct sm as [|[o n] r]; [discriminate|]. cbn [replace_all]. unfold replace_one.
    rewrite (inv_sds _ _ HI). destruct (mem o (pS sp)); [discriminate | inversion Hr; reflexivity].
Qed.
