(* C23 — the sign array of refine_grid_1d. *)
From Coq Require Import List ZArith QArith Bool Arith Lia.
Import ListNotations.
From PP Require Import Model.C23.
Close Scope Q_scope.

Lemma mem_In r l : mem r l = true <-> In r l.
Proof.
  unfold mem. rewrite existsb_exists. split.
  - intros [x [Hx E]]. apply Nat.eqb_eq in E. subst. exact Hx.
  - intros H. exists r. split; [exact H|apply Nat.eqb_refl].
Qed.

Lemma signs_from_length seen l : length (signs_from seen l) = length l.
Proof.
  revert seen. induction l as [|a t IH]; intros seen; cbn [signs_from]; [reflexivity|].
  destruct (mem a seen); cbn [length]; rewrite IH; reflexivity.
Qed.

(* entry i is +1 exactly when the index has not been seen before position i *)
Lemma signs_from_nth l : forall seen i, i < length l ->
  (nth i (signs_from seen l) 0%Z = 1%Z /\ ~ In (nth i l 0) seen /\ ~ In (nth i l 0) (firstn i l)) \/
  (nth i (signs_from seen l) 0%Z = (-1)%Z /\ (In (nth i l 0) seen \/ In (nth i l 0) (firstn i l))).
Proof.
  induction l as [|a t IH]; intros seen i Hi; cbn [length] in Hi; [lia|].
  cbn [signs_from]. destruct i as [|i].
  - cbn [nth firstn]. destruct (mem a seen) eqn:E.
    + right. split; [reflexivity|]. left. apply mem_In, E.
    + left. split; [reflexivity|]. split; [|intros []].
      intros H. apply mem_In in H. congruence.
  - destruct (mem a seen) eqn:E; cbn [nth firstn].
    + destruct (IH seen i ltac:(lia)) as [[H1 [H2 H3]]|[H1 H2]].
      * left. split; [exact H1|]. split; [exact H2|].
        intros [Ha|Ht]; [|exact (H3 Ht)]. apply H2. rewrite <- Ha. apply mem_In, E.
      * right. split; [exact H1|]. destruct H2 as [H2|H2]; [left; exact H2|right; right; exact H2].
    + destruct (IH (a :: seen) i ltac:(lia)) as [[H1 [H2 H3]]|[H1 H2]].
      * left. split; [exact H1|]. split; [intros H; apply H2; right; exact H|].
        intros [Ha|Ht]; [apply H2; left; exact Ha|exact (H3 Ht)].
      * right. split; [exact H1|]. destruct H2 as [[Ha|H2]|H2].
        -- right. left. exact Ha.
        -- left. exact H2.
        -- right. right. exact H2.
Qed.

Theorem refine_1d_signs (nodes : list v3) (cells : list (nat * nat)) (r : nat) :
  let '(x, ind, sg) := refine_grid_1d nodes cells r in
  length sg = length ind /\
  (forall i, i < length ind ->
     (nth i sg 0%Z = 1%Z /\ ~ In (nth i ind 0) (firstn i ind)) \/
     (nth i sg 0%Z = (-1)%Z /\ In (nth i ind 0) (firstn i ind))).
Proof.
  unfold refine_grid_1d. split; [apply signs_from_length|].
  intros i Hi. destruct (signs_from_nth _ [] i Hi) as [[H1 [_ H3]]|[H1 [[]|H2]]].
  - left. split; assumption.
  - right. split; assumption.
Qed.
