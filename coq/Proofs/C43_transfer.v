(* C43 — transfer: what the tie executes (the Q instance of the model) is the R instance
   of the theorems on the embedded data (Q2R), whenever the Q instance is defined
   (integer powers). *)
From Coq Require Import String Ascii List ZArith QArith Qabs Bool Reals Qreals Lra Lia.
Import ListNotations.
From PP Require Import Model.C43 Proofs.C43.
Open Scope string_scope.
Open Scope R_scope.

Definition envR (env : list (string * Q)) : list (string * R) :=
  map (fun p => (fst p, Q2R (snd p))) env.

Definition env_posQ (env : list (string * Q)) : Prop := Forall (fun p => (0 < snd p)%Q) env.

Lemma Q2R_lt0 : forall q, (0 < q)%Q -> 0 < Q2R q.
Proof. intros q H. apply Qlt_Rlt in H. unfold Q2R at 1 in H. cbn in H. lra. Qed.

Lemma env_pos_envR : forall env, env_posQ env -> env_pos (envR env).
Proof.
  intros env H. unfold env_pos, envR. induction H as [|p l Hp Hl IH]; cbn; constructor; auto.
  cbn. now apply Q2R_lt0.
Qed.

Lemma assoc_envR : forall env k,
  assoc k (envR env) = match assoc k env with Some x => Some (Q2R x) | None => None end.
Proof.
  induction env as [|[k' v] env IH]; intros k; cbn; [reflexivity|].
  destruct (String.eqb k k'); auto.
Qed.

Lemma Ok_inj : forall {A} (a b : A), Ok a = Ok b -> a = b.
Proof. intros A a b H. now injection H. Qed.
Ltac inv_ok := let x := fresh "x" in let Hx := fresh "Hx" in intros x Hx; apply Ok_inj in Hx; subst x.

Ltac sc := cbn [bind eval tmul tdiv tpowZ tpowQ tofQ tpi QOps ROps scale convert_loop expr_pos map].
Ltac sc_all := cbn [bind eval tmul tdiv tpowZ tpowQ tofQ tpi QOps ROps scale convert_loop expr_pos map] in *.

Section Transfer.
  Variable pif : Q.
  Hypothesis pif_pos : (0 < pif)%Q.
  Variable derived : list (string * uexpr).
  Variable other : list string.
  Hypothesis derived_pos : table_pos derived = true.
  Variable env : list (string * Q).
  Hypothesis Henv : env_posQ env.

  Notation qops := (QOps pif).
  Notation rops := (ROps (Q2R pif)).
  Notation renv := (envR env).

  Let pi_pos : 0 < Q2R pif := Q2R_lt0 pif pif_pos.
  Let renv_pos : env_pos renv := env_pos_envR env Henv.

  Lemma eval_transfer : forall e, expr_pos e = true ->
    (forall x, eval qops env e = Ok x -> eval rops renv e = Ok (Q2R x)) /\
    (forall er, eval qops env e = Err er -> eval rops renv e = Err er) /\
    (eval qops env e <> Unmodelled).
  Proof.
    induction e as [b|q| |a IHa b IHb|a IHa b IHb|a IHa n]; intros Hp; sc_all.
    - rewrite assoc_envR. destruct (assoc b env); repeat split; try congruence; inv_ok; reflexivity.
    - repeat split; try congruence; inv_ok; reflexivity.
    - repeat split; try congruence; inv_ok; reflexivity.
    - apply andb_true_iff in Hp as [Ha Hb].
      destruct (IHa Ha) as (A1 & A2 & A3). destruct (IHb Hb) as (B1 & B2 & B3).
      destruct (eval qops env a) as [xa|ea|]; [|rewrite (A2 _ eq_refl); sc; repeat split; congruence|congruence].
      rewrite (A1 _ eq_refl). sc.
      destruct (eval qops env b) as [xb|eb|]; [|rewrite (B2 _ eq_refl); sc; repeat split; congruence|congruence].
      rewrite (B1 _ eq_refl). sc. repeat split; try congruence.
      inv_ok. sc. now rewrite Q2R_Qred, Q2R_mult.
    - apply andb_true_iff in Hp as [Ha Hb].
      destruct (IHa Ha) as (A1 & A2 & A3). destruct (IHb Hb) as (B1 & B2 & B3).
      destruct (eval qops env a) as [xa|ea|]; [|rewrite (A2 _ eq_refl); sc; repeat split; congruence|congruence].
      rewrite (A1 _ eq_refl). sc.
      destruct (eval qops env b) as [xb|eb|]; [|rewrite (B2 _ eq_refl); sc; repeat split; congruence|congruence].
      pose proof (B1 _ eq_refl) as Eb. rewrite Eb. sc. repeat split; try congruence.
      inv_ok. sc. rewrite Q2R_Qred.
      assert (0 < Q2R xb) as Hxb by (eapply (eval_pos (Q2R pif) pi_pos renv renv_pos b); eauto).
      rewrite Q2R_div by (now apply Q2R_pos_nonzero). reflexivity.
    - destruct (IHa Hp) as (A1 & A2 & A3).
      destruct (eval qops env a) as [xa|ea|]; [|rewrite (A2 _ eq_refl); sc; repeat split; congruence|congruence].
      pose proof (A1 _ eq_refl) as Ea. rewrite Ea. sc. repeat split; try congruence.
      inv_ok. sc. rewrite Q2R_Qred.
      assert (0 < Q2R xa) as Hxa by (eapply (eval_pos (Q2R pif) pi_pos renv renv_pos a); eauto).
      rewrite RMicromega.Q2RpowerRZ by (left; now apply Q2R_pos_nonzero). reflexivity.
  Qed.

  Lemma getattr_transfer : forall name,
    (forall x, getattr qops derived other env name = Ok x ->
               getattr rops derived other renv name = Ok (Q2R x)) /\
    (forall er, getattr qops derived other env name = Err er ->
                getattr rops derived other renv name = Err er) /\
    (getattr qops derived other env name = Unmodelled ->
     getattr rops derived other renv name = Unmodelled).
  Proof.
    intros name. unfold getattr. rewrite assoc_envR.
    destruct (assoc name env) as [x|].
    - repeat split; try congruence; inv_ok; reflexivity.
    - destruct (assoc name derived) as [e|] eqn:Ed.
      + assert (expr_pos e = true) as Hp.
        { apply assoc_In in Ed. unfold table_pos in derived_pos.
          rewrite forallb_forall in derived_pos. exact (derived_pos _ Ed). }
        destruct (eval_transfer e Hp) as (A & B & C). repeat split; auto. congruence.
      + destruct (mem name other); [repeat split; congruence|].
        destruct name as [|c r]; [repeat split; congruence|].
        destruct c as [[] [] [] [] [] [] [] []]; repeat split; congruence.
  Qed.

  Lemma sub_factor_transfer : forall sub,
    (forall f, sub_factor qops derived other env sub = Ok f ->
               sub_factor rops derived other renv sub = Ok (Q2R f)) /\
    (forall er, sub_factor qops derived other env sub = Err er ->
                sub_factor rops derived other renv sub = Err er).
  Proof.
    intros sub. unfold sub_factor. destruct (tokenize sub) as [s|s p|].
    - destruct (getattr_transfer s) as (A & B & _). split; auto.
    - destruct (getattr_transfer s) as (A & B & _).
      destruct (getattr qops derived other env s) as [x|er|] eqn:Eg; sc.
      + pose proof (A _ eq_refl) as Er. rewrite Er. sc.
        assert (0 < Q2R x) as Hx
          by (eapply (getattr_pos (Q2R pif) pi_pos derived other derived_pos renv renv_pos); eauto).
        destruct (parse_float p) as [q| |]; sc; [|split; congruence|split; congruence].
        destruct (Pos.eqb (Qden (Qred q)) 1) eqn:Ed; [|split; congruence].
        apply Pos.eqb_eq in Ed. split; [|congruence]. inv_ok.
        rewrite Q2R_Qred, RMicromega.Q2RpowerRZ by (left; now apply Q2R_pos_nonzero).
        f_equal. rewrite powerRZ_Rpower by assumption. f_equal.
        rewrite <- (Q2R_Qred q). unfold Q2R. rewrite Ed. sc. field.
      + rewrite (B _ eq_refl). sc. split; congruence.
      + split; congruence.
    - split; congruence.
  Qed.

  Lemma scale_transfer : forall ts f x, 0 < Q2R f ->
    Q2R (scale qops ts f x) = scale rops ts (Q2R f) (Q2R x).
  Proof.
    intros ts f x Hf. unfold scale. destruct ts; sc.
    - now rewrite Q2R_Qred, Q2R_mult.
    - rewrite Q2R_Qred, Q2R_div by (now apply Q2R_pos_nonzero). reflexivity.
  Qed.

  Lemma loop_transfer : forall subs ts v,
    (forall w, convert_loop qops derived other env subs ts v = Ok w ->
       convert_loop rops derived other renv subs ts (map Q2R v) = Ok (map Q2R w)) /\
    (forall er, convert_loop qops derived other env subs ts v = Err er ->
       convert_loop rops derived other renv subs ts (map Q2R v) = Err er).
  Proof.
    induction subs as [|s r IH]; intros ts v; sc.
    - split; [inv_ok; reflexivity|congruence].
    - destruct (sub_factor_transfer s) as (A & B).
      destruct (sub_factor qops derived other env s) as [f|er|] eqn:Es.
      + pose proof (A _ eq_refl) as Er. rewrite Er.
        assert (0 < Q2R f) as Hf
          by (eapply (sub_factor_pos (Q2R pif) pi_pos derived other derived_pos renv renv_pos); eauto).
        rewrite map_map.
        rewrite (map_ext (fun x => scale rops ts (Q2R f) (Q2R x))
                         (fun x => Q2R (scale qops ts f x)))
          by (intros; symmetry; now apply scale_transfer).
        rewrite <- (map_map (scale qops ts f) Q2R). apply IH.
      + rewrite (B _ eq_refl). split; congruence.
      + split; congruence.
  Qed.

  Lemma convert_transfer : forall v units ts,
    (forall w, convert qops derived other env v units ts = Ok w ->
       convert rops derived other renv (map Q2R v) units ts = Ok (map Q2R w)) /\
    (forall er, convert qops derived other env v units ts = Err er ->
       convert rops derived other renv (map Q2R v) units ts = Err er).
  Proof.
    intros v units ts. unfold convert.
    destruct (is_marker (strip_spaces units)); [|apply loop_transfer].
    split; [inv_ok; reflexivity|congruence].
  Qed.
End Transfer.

From PP Require Import Gen.C43_tables.

Lemma transfer_gen : forall (pif : Q) (env : list (string * Q)) (v : list Q) (units : string)
                            (ts : bool),
  (0 < pif)%Q -> env_posQ env ->
  (forall w, convert (QOps pif) derived_table other_attrs env v units ts = Ok w ->
     convert (ROps (Q2R pif)) derived_table other_attrs (envR env) (map Q2R v) units ts
     = Ok (map Q2R w)) /\
  (forall er, convert (QOps pif) derived_table other_attrs env v units ts = Err er ->
     convert (ROps (Q2R pif)) derived_table other_attrs (envR env) (map Q2R v) units ts
     = Err er).
Proof.
  intros pif env v units ts Hpi Henv.
  exact (convert_transfer pif Hpi derived_table other_attrs gen_table_pos env Henv v units ts).
Qed.
