(* C39 — proofs: every call keeps the Dirichlet/Neumann/Robin flags a partition. *)
From Coq Require Import List Bool Arith Lia.
Import ListNotations.
From PP Require Import Model.C39.

Definition one3 (a b c : bool) : bool :=
  (a && negb b && negb c) || (negb a && b && negb c) || (negb a && negb b && c).

Definition fdir (c : comp) f := nth f (c_dir c) false.
Definition fneu (c : comp) f := nth f (c_neu c) false.
Definition frob (c : comp) f := nth f (c_rob c) false.

Definition lens (g : grid) (c : comp) : Prop :=
  length (c_dir c) = nf g /\ length (c_neu c) = nf g /\ length (c_rob c) = nf g.

(* one component: boundary faces carry exactly one type, all other faces none *)
Definition wfcomp (g : grid) (c : comp) : Prop :=
  lens g c /\
  forall f, (is_bf g f = true -> one3 (fdir c f) (fneu c f) (frob c f) = true) /\
            (is_bf g f = false -> fdir c f = false /\ fneu c f = false /\ frob c f = false).

Definition Inv (g : grid) (cs : list comp) : Prop := Forall (wfcomp g) cs.

Definition triple (t : ty) : bool * bool * bool :=
  match t with Dir => (true, false, false) | Neu => (false, true, false) | Rob => (false, false, true) end.
Definition flags (c : comp) f := (fdir c f, fneu c f, frob c f).

(* ---------------- setb ---------------- *)
Lemma setb_length l i v : length (setb l i v) = length l.
Proof. revert i; induction l as [|a r IH]; intros [|i]; cbn; auto. Qed.

Lemma nth_setb_eq l i v : i < length l -> nth i (setb l i v) false = v.
Proof.
  revert i; induction l as [|a r IH]; intros [|i] H; cbn in *; try lia; auto. apply IH. lia.
Qed.

Lemma nth_setb_neq l i j v : i <> j -> nth j (setb l i v) false = nth j l false.
Proof.
  revert i j; induction l as [|a r IH]; intros [|i] [|j] H; cbn; try reflexivity; try lia.
  apply IH. lia.
Qed.

Lemma is_bf_lt g f : is_bf g f = true -> f < nf g.
Proof. unfold is_bf. intros H. apply andb_true_iff in H. destruct H as [H _]. apply Nat.ltb_lt. exact H. Qed.

Lemma assign_lens g f t c : lens g c -> lens g (assign f t c).
Proof. intros [A [B C]]. destruct t; unfold lens; cbn; rewrite !setb_length; auto. Qed.

Lemma assign_flags_eq g f t c : lens g c -> f < nf g -> flags (assign f t c) f = triple t.
Proof.
  intros [A [B C]] Hf. unfold flags, fdir, fneu, frob.
  destruct t; cbn; rewrite !nth_setb_eq by lia; reflexivity.
Qed.

Lemma assign_flags_neq f f' t c : f <> f' -> flags (assign f t c) f' = flags c f'.
Proof.
  intros Hn. unfold flags, fdir, fneu, frob. destruct t; cbn; rewrite !nth_setb_neq by exact Hn; reflexivity.
Qed.

Lemma flags_inj c c' f :
  flags c f = flags c' f -> fdir c f = fdir c' f /\ fneu c f = fneu c' f /\ frob c f = frob c' f.
Proof. unfold flags. intros H. inversion H. auto. Qed.

Lemma assign_wf g f t c : is_bf g f = true -> wfcomp g c -> wfcomp g (assign f t c).
Proof.
  intros Hbf [Hl Hw]. split; [apply assign_lens; exact Hl|]. intros f'.
  destruct (Nat.eq_dec f f') as [<-|Hne].
  - pose proof (assign_flags_eq g f t c Hl (is_bf_lt g f Hbf)) as He.
    assert (H3 : fdir (assign f t c) f = fst (fst (triple t)) /\
                 fneu (assign f t c) f = snd (fst (triple t)) /\
                 frob (assign f t c) f = snd (triple t)).
    { unfold flags in He. rewrite <- He. cbn. auto. }
    destruct H3 as [H1 [H2 H3]]. split.
    + intros _. rewrite H1, H2, H3. destruct t; reflexivity.
    + intros H. congruence.
  - destruct (flags_inj _ _ _ (assign_flags_neq f f' t c Hne)) as [H1 [H2 H3]].
    rewrite H1, H2, H3. apply Hw.
Qed.

Lemma Inv_map g F cs : (forall c, wfcomp g c -> wfcomp g (F c)) -> Inv g cs -> Inv g (map F cs).
Proof.
  intros HF H. unfold Inv in *. rewrite Forall_forall in *. intros c Hc.
  apply in_map_iff in Hc. destruct Hc as [c0 [<- H0]]. auto.
Qed.

(* ---------------- the loop ---------------- *)
Lemma loop_inv g : forall fs cs cds,
    Forall (fun f => is_bf g f = true) fs -> Inv g cs -> Inv g (fst (loop assign cs fs cds)).
Proof.
  induction fs as [|f fr IH]; intros cs cds Hfs Hi; [exact Hi|].
  destruct cds as [|c cr]; [exact Hi|]. cbn [loop]. inversion Hfs as [|? ? Hf Hfr]; subst.
  destruct (parse c) as [t|]; [|exact Hi].
  apply IH; [exact Hfr|]. apply Inv_map; [|exact Hi]. intros c0. apply assign_wf. exact Hf.
Qed.

(* the loop acts on every component by the same function, which leaves the flags of faces
   outside the list alone *)
Lemma loop_pointwise : forall fs cs cds,
    exists F, fst (loop assign cs fs cds) = map F cs /\
              forall c f, ~ In f fs -> flags (F c) f = flags c f.
Proof.
  induction fs as [|a fr IH]; intros cs cds.
  - exists (fun c => c). split; [cbn; rewrite map_id; reflexivity|auto].
  - destruct cds as [|c cr].
    + exists (fun c => c). split; [cbn; rewrite map_id; reflexivity|auto].
    + cbn [loop]. destruct (parse c) as [t|].
      * destruct (IH (map (assign a t) cs) cr) as [F [HF HU]].
        exists (fun c => F (assign a t c)). split; [rewrite HF, map_map; reflexivity|].
        intros c0 f Hn. rewrite HU by (intros H; apply Hn; right; exact H).
        apply assign_flags_neq. intros ->. apply Hn. left. reflexivity.
      * exists (fun c => c). split; [cbn; rewrite map_id; reflexivity|auto].
Qed.

(* uniform assignment: every named face ends with the requested type *)
Lemma loop_uniform g t c0 : parse c0 = Some t -> forall fs cs,
    Forall (fun f => f < nf g) fs ->
    snd (loop assign cs fs (repeat c0 (length fs))) = None /\
    exists F, fst (loop assign cs fs (repeat c0 (length fs))) = map F cs /\
              (forall c, lens g c -> lens g (F c)) /\
              (forall c f, lens g c -> In f fs -> flags (F c) f = triple t) /\
              (forall c f, ~ In f fs -> flags (F c) f = flags c f).
Proof.
  intros Hp. induction fs as [|a fr IH]; intros cs Hfs.
  - split; [reflexivity|]. exists (fun c => c). split; [cbn; rewrite map_id; reflexivity|].
    split; [auto|]. split; [intros c1 f _ []|auto].
  - inversion Hfs as [|? ? Ha Hfr]; subst. cbn [length repeat loop]. rewrite Hp.
    destruct (IH (map (assign a t) cs) Hfr) as [Hs [F [HF [HL [HI HU]]]]].
    split; [exact Hs|]. exists (fun c => F (assign a t c)).
    split; [rewrite HF, map_map; reflexivity|]. split; [|split].
    + intros c Hl. apply HL, assign_lens, Hl.
    + intros c f Hl Hin. destruct (in_dec Nat.eq_dec f fr) as [Hfr'|Hnfr].
      * apply HI; [apply assign_lens; exact Hl | exact Hfr'].
      * destruct Hin as [<-|Hin]; [|contradiction].
        rewrite HU by exact Hnfr. apply (assign_flags_eq g); assumption.
    + intros c f Hn. rewrite HU by (intros H; apply Hn; right; exact H).
      apply assign_flags_neq. intros ->. apply Hn. left. reflexivity.
Qed.

(* ---------------- argument handling ---------------- *)
Definition named (fs : option faces) : list nat :=
  match fs with None => [] | Some (FIdx l) => l | Some (FMask m) => argwhere m end.

Lemma forallb_bf g l : forallb (is_bf g) l = true -> Forall (fun f => is_bf g f = true) l.
Proof. intros H. apply Forall_forall. intros f Hf. rewrite forallb_forall in H. auto. Qed.

Lemma set_faces_inv g w cs fs cd : Inv g cs -> Inv g (fst (set_faces assign w g cs fs cd)).
Proof.
  intros Hi. unfold set_faces.
  destruct fs as [fs|]; [|exact Hi]. destruct cd as [cd|]; [|exact Hi].
  destruct (match fs with FIdx l => Some l | FMask m => if length m =? nf g then Some (argwhere m) else None end)
    as [l|]; [|exact Hi].
  destruct (forallb (is_bf g) l) eqn:Hb; cbn [negb]; [|exact Hi].
  match goal with |- context [if negb (length l =? length ?cds) then _ else _] =>
    destruct (length l =? length cds); cbn [negb]; [|exact Hi];
    pose proof (loop_inv g l cs cds (forallb_bf g l Hb) Hi) as HL;
    destruct (loop assign cs l cds) as [cs' [e|]]; exact HL
  end.
Qed.

Lemma set_faces_success g w cs fs cd cs' x :
  set_faces assign w g cs fs cd = (cs', Done x) ->
  fs = None /\ cs' = cs \/
  exists cd0 cds, cd = Some cd0 /\
    cds = match cd0 with COne c => repeat c (length (named fs)) | CList cl => cl end /\
    forallb (is_bf g) (named fs) = true /\ length (named fs) = length cds /\
    loop assign cs (named fs) cds = (cs', None).
Proof.
  unfold set_faces. destruct fs as [fs|]; [|intros H; inversion H; auto].
  destruct cd as [cd|]; [|discriminate]. intros H. right.
  assert (Hl : exists l, (match fs with FIdx l => Some l | FMask m => if length m =? nf g then Some (argwhere m) else None end) = Some l /\ l = named (Some fs)).
  { destruct fs as [l|m]; cbn in *; [eauto|]. destruct (length m =? nf g); [eauto|discriminate]. }
  destruct Hl as [l [Hl Hn]]. rewrite Hl in H. rewrite <- Hn.
  destruct (forallb (is_bf g) l) eqn:Hb; cbn [negb] in H; [|discriminate].
  exists cd. eexists. split; [reflexivity|]. split; [reflexivity|]. split; [reflexivity|].
  match type of H with context [if negb (length l =? length ?cds) then _ else _] =>
    destruct (length l =? length cds) eqn:Hlen; cbn [negb] in H; [|discriminate];
    apply Nat.eqb_eq in Hlen; split; [exact Hlen|];
    destruct (loop assign cs l cds) as [cs2 [e|]]; inversion H; reflexivity
  end.
Qed.

(* ---------------- constructors ---------------- *)
Lemma init_flags g f : flags (init_comp g) f = (false, is_bf g f, false).
Proof.
  unfold flags, fdir, fneu, frob, init_comp. cbn [c_dir c_neu c_rob].
  assert (Hr : forall n, nth f (repeat false n) false = false).
  { intros n. apply nth_repeat. }
  rewrite !Hr.
  assert (Hm : nth f (map (is_bf g) (seq 0 (nf g))) false = is_bf g f).
  { destruct (Nat.lt_ge_cases f (nf g)) as [Hlt|Hge].
    - rewrite (nth_indep _ false (is_bf g 0)) by (rewrite map_length, seq_length; exact Hlt).
      rewrite List.map_nth. rewrite seq_nth by exact Hlt. reflexivity.
    - rewrite nth_overflow by (rewrite map_length, seq_length; exact Hge).
      unfold is_bf. replace (f <? nf g) with false; [reflexivity|].
      symmetry. apply Nat.ltb_ge. exact Hge. }
  rewrite Hm. reflexivity.
Qed.

Lemma init_comp_wf g : wfcomp g (init_comp g).
Proof.
  split.
  - unfold lens, init_comp. cbn. rewrite !repeat_length, map_length, seq_length. auto.
  - intros f. pose proof (init_flags g f) as H. unfold flags in H.
    assert (H1 : fdir (init_comp g) f = false) by (apply (f_equal (fun p : bool * bool * bool => fst (fst p))) in H; exact H).
    assert (H2 : fneu (init_comp g) f = is_bf g f) by (apply (f_equal (fun p : bool * bool * bool => snd (fst p))) in H; exact H).
    assert (H3 : frob (init_comp g) f = false) by (apply (f_equal (fun p : bool * bool * bool => snd p)) in H; exact H).
    rewrite H1, H2, H3. split; intros Hb; rewrite Hb; auto.
Qed.

Lemma init_inv g (vect : bool) (dim : nat) : Inv g (if vect then repeat (init_comp g) dim else [init_comp g]).
Proof.
  destruct vect.
  - apply Forall_forall. intros c Hc. apply repeat_spec in Hc. subst. apply init_comp_wf.
  - constructor; [apply init_comp_wf|constructor].
Qed.

Theorem constructor_partition g vect dim fs cd o x :
  construct assign g vect dim fs cd = (Some o, x) ->
  Inv g (comps o) /\ vectorial o = vect /\ length (comps o) = (if vect then dim else 1).
Proof.
  unfold construct. intros H.
  pose proof (set_faces_inv g (negb vect) _ fs cd (init_inv g vect dim)) as Hi.
  assert (Hlen : forall w cs, length (fst (set_faces assign w g cs fs cd)) = length cs).
  { intros w cs. unfold set_faces. destruct fs as [fs0|]; [|reflexivity].
    destruct cd as [cd0|]; [|reflexivity].
    destruct (match fs0 with FIdx l => Some l | FMask m => if length m =? nf g then Some (argwhere m) else None end)
      as [l|]; [|reflexivity].
    destruct (negb (forallb (is_bf g) l)); [reflexivity|].
    match goal with |- context [if negb (length l =? length ?cds) then _ else _] =>
      destruct (negb (length l =? length cds)); [reflexivity|];
      destruct (loop_pointwise l cs cds) as [F [HF _]];
      destruct (loop assign cs l cds) as [cs' [e|]]; cbn [fst] in *; rewrite HF; apply map_length
    end. }
  specialize (Hlen (negb vect) (if vect then repeat (init_comp g) dim else [init_comp g])).
  destruct (set_faces assign (negb vect) g _ fs cd) as [cs [w|w e]]; [|discriminate].
  inversion H; subst. cbn [comps vectorial fst] in *. split; [exact Hi|]. split; [reflexivity|].
  rewrite Hlen. destruct vect; [apply repeat_length|reflexivity].
Qed.

Theorem default_neumann g vect dim fs cd o x :
  construct assign g vect dim fs cd = (Some o, x) ->
  forall c f, In c (comps o) -> is_bf g f = true -> ~ In f (named fs) ->
              flags c f = (false, true, false).
Proof.
  unfold construct. intros H c f Hc Hbf Hn.
  destruct (set_faces assign (negb vect) g _ fs cd) as [cs [w|w e]] eqn:Hs; [|discriminate].
  inversion H; subst. cbn [comps] in Hc.
  assert (Hinit : forall c0, In c0 (if vect then repeat (init_comp g) dim else [init_comp g]) ->
                             c0 = init_comp g).
  { intros c0 H0. destruct vect; [apply repeat_spec in H0; exact H0|].
    destruct H0 as [<-|[]]; reflexivity. }
  destruct (set_faces_success _ _ _ _ _ _ _ Hs) as [[-> ->]|[cd0 [cds [-> [Hcds [Hb [Hl Hloop]]]]]]].
  - rewrite (Hinit c Hc), init_flags, Hbf. reflexivity.
  - destruct (loop_pointwise (named fs) (if vect then repeat (init_comp g) dim else [init_comp g]) cds)
      as [F [HF HU]]. rewrite Hloop in HF. cbn [fst] in HF. subst cs.
    apply in_map_iff in Hc. destruct Hc as [c0 [<- H0]]. rewrite HU by exact Hn.
    rewrite (Hinit c0 H0), init_flags, Hbf. reflexivity.
Qed.

(* ---------------- later calls ---------------- *)
Lemma internal_inv g cs : Inv g cs -> Inv g (internal_to_dirichlet g cs).
Proof.
  unfold internal_to_dirichlet.
  assert (H : forall l cs0, Forall (fun f => f < nf g) l -> Inv g cs0 ->
              Inv g (fold_left (fun cs f => if t_frac (tag g f) then map (assign f Dir) cs else cs) l cs0)).
  { induction l as [|f l IH]; intros cs0 Hl Hi; [exact Hi|]. inversion Hl; subst. cbn [fold_left].
    apply IH; [assumption|]. destruct (t_frac (tag g f)) eqn:Hf; [|exact Hi].
    apply Inv_map; [|exact Hi]. intros c. apply assign_wf. unfold is_bf.
    replace (f <? nf g) with true by (symmetry; apply Nat.ltb_lt; assumption).
    rewrite Hf. cbn. rewrite orb_true_r. reflexivity. }
  intros Hi. apply H; [|exact Hi]. apply Forall_forall. intros f Hf. apply in_seq in Hf. lia.
Qed.

Lemma map_nth_inv g F cs i : (forall c, wfcomp g c -> wfcomp g (F c)) -> Inv g cs -> Inv g (map_nth F cs i).
Proof.
  intros HF. revert i. induction cs as [|a r IH]; intros [|i] Hi; cbn; auto;
    inversion Hi; subst; constructor; auto. apply IH; assumption.
Qed.

(* the manual per-component assignment is only meaningful on boundary faces *)
Definition op_ok (g : grid) (p : op) : Prop :=
  match p with OpUser _ f _ => is_bf g f = true | _ => True end.

Lemma step_inv g o p : op_ok g p -> Inv g (comps o) -> Inv g (comps (fst (step assign g o p))).
Proof.
  intros Hok Hi. destruct p as [fs cd| |c f t|]; cbn [step].
  - destruct (vectorial o); [|exact Hi].
    pose proof (set_faces_inv g false (comps o) fs cd Hi) as H.
    destruct (set_faces assign false g (comps o) fs cd) as [cs r]. exact H.
  - destruct (vectorial o); [|exact Hi]. cbn. apply internal_inv. exact Hi.
  - destruct ((c <? length (comps o)) && (f <? nf g)); [|exact Hi]. cbn.
    apply map_nth_inv; [|exact Hi]. intros c0. apply assign_wf. exact Hok.
  - exact Hi.
Qed.

Theorem history_partition g : forall ps o,
    Forall (op_ok g) ps -> Inv g (comps o) ->
    Forall (fun ox => Inv g (comps (fst ox))) (run assign g o ps).
Proof.
  induction ps as [|p r IH]; intros o Hok Hi; [constructor|]. inversion Hok; subst.
  cbn [run]. pose proof (step_inv g o p H1 Hi) as Hs.
  destruct (step assign g o p) as [o' x]. constructor; [exact Hs|]. apply IH; assumption.
Qed.

(* a successful uniform set_bc / constructor assignment is exact *)
Theorem assignment_exact g w cs fs c0 t cs' x :
  parse c0 = Some t -> Forall (lens g) cs ->
  set_faces assign w g cs (Some fs) (Some (COne c0)) = (cs', Done x) ->
  exists F, cs' = map F cs /\
            (forall c f, In c cs -> In f (named (Some fs)) -> flags (F c) f = triple t) /\
            (forall c f, ~ In f (named (Some fs)) -> flags (F c) f = flags c f).
Proof.
  intros Hp Hl Hs.
  destruct (set_faces_success _ _ _ _ _ _ _ Hs) as [[Hf _]|[cd0 [cds [Hcd [Hcds [Hb [_ Hloop]]]]]]];
    [discriminate|]. inversion Hcd; subst cd0. subst cds.
  assert (Hlt : Forall (fun f => f < nf g) (named (Some fs))).
  { apply Forall_forall. intros f Hf. apply is_bf_lt. rewrite forallb_forall in Hb. auto. }
  destruct (loop_uniform g t c0 Hp (named (Some fs)) cs Hlt) as [_ [F [HF [_ [HI HU]]]]].
  rewrite Hloop in HF. cbn [fst] in HF. exists F. split; [exact HF|]. split; [|exact HU].
  intros c f Hc Hf. apply HI; [|exact Hf]. rewrite Forall_forall in Hl. auto.
Qed.

(* list conditions, repeated faces: the LAST condition given for a face wins *)
Fixpoint last_ty (fs : list nat) (ts : list ty) (f : nat) : option ty :=
  match fs, ts with
  | a :: fr, t :: tr =>
      match last_ty fr tr f with
      | Some t' => Some t'
      | None => if a =? f then Some t else None
      end
  | _, _ => None
  end.

Lemma loop_list g : forall fs cds cs cs',
    length fs = length cds -> Forall (fun f => f < nf g) fs ->
    loop assign cs fs cds = (cs', None) ->
    exists ts, Forall2 (fun c t => parse c = Some t) cds ts /\
    exists F, cs' = map F cs /\
              (forall c, lens g c -> lens g (F c)) /\
              (forall c f, lens g c ->
                 flags (F c) f = match last_ty fs ts f with
                                 | Some t => triple t
                                 | None => flags c f
                                 end).
Proof.
  induction fs as [|a fr IH]; intros cds cs cs' Hlen Hfs Hloop.
  - destruct cds; [|discriminate]. cbn in Hloop. inversion Hloop; subst.
    exists []. split; [constructor|]. exists (fun c => c). rewrite map_id.
    split; [reflexivity|]. split; [auto|]. intros c f _. reflexivity.
  - destruct cds as [|c0 cr]; [discriminate|]. inversion Hfs as [|? ? Ha Hfr]; subst.
    cbn [loop] in Hloop. destruct (parse c0) as [t|] eqn:Hp; [|discriminate].
    assert (Hl' : length fr = length cr) by (cbn in Hlen; lia).
    destruct (IH cr (map (assign a t) cs) cs' Hl' Hfr Hloop) as [ts [HF2 [F [HF [HL HS]]]]].
    exists (t :: ts). split; [constructor; assumption|].
    exists (fun c => F (assign a t c)). split; [rewrite HF, map_map; reflexivity|]. split.
    + intros c Hl. apply HL, assign_lens, Hl.
    + intros c f Hl. rewrite HS by (apply assign_lens; exact Hl). cbn [last_ty].
      destruct (last_ty fr ts f) as [t'|]; [reflexivity|].
      destruct (Nat.eqb_spec a f) as [->|Hne].
      * apply (assign_flags_eq g); assumption.
      * apply assign_flags_neq. exact Hne.
Qed.

Theorem assignment_list_exact g w cs fs cl cs' x :
  Forall (lens g) cs ->
  set_faces assign w g cs (Some fs) (Some (CList cl)) = (cs', Done x) ->
  exists ts, Forall2 (fun c t => parse c = Some t) cl ts /\
  exists F, cs' = map F cs /\
            forall c f, In c cs ->
              flags (F c) f = match last_ty (named (Some fs)) ts f with
                              | Some t => triple t
                              | None => flags c f
                              end.
Proof.
  intros Hl Hs.
  destruct (set_faces_success _ _ _ _ _ _ _ Hs) as [[Hf _]|[cd0 [cds [Hcd [Hcds [Hb [Hlen Hloop]]]]]]];
    [discriminate|]. inversion Hcd; subst cd0. subst cds.
  assert (Hlt : Forall (fun f => f < nf g) (named (Some fs))).
  { apply Forall_forall. intros f Hf. apply is_bf_lt. rewrite forallb_forall in Hb. auto. }
  destruct (loop_list g _ _ _ _ Hlen Hlt Hloop) as [ts [HF2 [F [HF [_ HS]]]]].
  exists ts. split; [exact HF2|]. exists F. split; [exact HF|].
  intros c f Hc. apply HS. rewrite Forall_forall in Hl. auto.
Qed.

(* ---------------- the pre-fix assignment breaks the partition ---------------- *)
Definition g22 : grid :=   (* CartGrid([1,1]): four boundary faces *)
  [mkT true false false; mkT true false false; mkT true false false; mkT true false false].

Lemma prefix_variant_refuted :
  exists g fs1 fs2 o,
    fst (construct (assign_prefix true) g true 2 (Some fs1) (Some (COne CRob))) = Some o /\
    ~ Inv g (comps (fst (step (assign_prefix true) g o (OpSet (Some fs2) (Some (COne CDir)))))).
Proof.
  exists g22, (FIdx [0; 1; 2; 3]), (FIdx [0; 1]). eexists. split; [vm_compute; reflexivity|].
  intros H. cbn in H. inversion H as [|c r [_ Hw] _]; subst. destruct (Hw 0) as [H1 _].
  specialize (H1 eq_refl). vm_compute in H1. discriminate.
Qed.
