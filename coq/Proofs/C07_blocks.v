(* C07 — the two loops of assemble_schur_complement_system (model: schur_blocks) stack
   exactly the rows prim_rows / sec_rows of the full system (closes C07_rows_partial). *)
From Coq Require Import List ZArith Bool Arith Lia Sorted Permutation.
Import ListNotations.
From PP Require Import Model.C05 Proofs.C05 Model.C06 Proofs.C06 Model.C07 Proofs.C07.

(* ------------------------------------------------------------------------------------ *)
(* dictionaries built by flat_map over a duplicate-free key list *)
Lemma dget_app {A} (l1 l2 : list (nat * A)) k :
  dget (l1 ++ l2) k = match dget l1 k with Some v => Some v | None => dget l2 k end.
Proof.
  induction l1 as [|[a v] r IH]; cbn; auto. destruct (Nat.eqb a k); auto.
Qed.

Lemma dget_keys_none {A} (l : list (nat * A)) k : ~ In k (map fst l) -> dget l k = None.
Proof. apply dget_None. Qed.

Lemma dget_flat_map {A B} (g : nat -> list (nat * A)) (l : list (nat * B)) name :
  (forall k kv, In kv (g k) -> fst kv = k) ->
  NoDup (map fst l) -> In name (map fst l) ->
  dget (flat_map (fun kv => g (fst kv)) l) name = dget (g name) name.
Proof.
  intros Hg. induction l as [|[n o] r IH]; intros Hnd Hin; [destruct Hin|].
  cbn [flat_map fst map] in *. inversion Hnd as [|? ? Hn Hr]. subst. rewrite dget_app.
  assert (Hnone : forall k, ~ In k (map fst r) ->
            dget (flat_map (fun kv => g (fst kv)) r) k = None).
  { intros k Hk. apply dget_None. intro Hx. apply in_map_iff in Hx.
    destruct Hx as [kv [E Hkv]]. apply in_flat_map in Hkv. destruct Hkv as [kv' [H1 H2]].
    apply Hg in H2. apply Hk. apply in_map_iff. exists kv'. split; [congruence|auto]. }
  destruct (Nat.eq_dec n name) as [E|E].
  - subst n. destruct (dget (g name) name); auto.
  - destruct Hin as [Hx|Hin]; [congruence|].
    assert (Hd : dget (g n) name = None).
    { apply dget_None. intro Hx. apply in_map_iff in Hx. destruct Hx as [kv [E1 Hkv]].
      apply Hg in Hkv. congruence. }
    rewrite Hd. apply IH; auto.
Qed.

Lemma takeL_ok {X} (d : X) (x : list X) : forall idx,
  Forall (fun i => i < length x) idx -> takeL x idx = Some (map (fun i => nth i x d) idx).
Proof.
  induction idx as [|i r IH]; intro H; cbn; auto.
  inversion H as [|? ? Hi Hr]. subst. rewrite (IH Hr).
  destruct (nth_error x i) eqn:E.
  - rewrite (nth_error_nth _ _ _ E). reflexivity.
  - apply nth_error_None in E. lia.
Qed.

Lemma excl_rows_bound n idx : Forall (fun i => i < n) (excl_rows n idx).
Proof.
  apply Forall_forall. intros x Hx. apply filter_In in Hx. destruct Hx as [Hx _].
  apply in_seq in Hx. lia.
Qed.

Section Blocks.
  Context {V : Type}.
  Variable vzero : V.
  Variable vopp : V -> V.
  Variable eval : nat -> list (@prow V).
  Variable s : st.
  Variables (allcols : list nat) (nall : nat).
  Hypothesis Hall : projection_to s (asm_vars s None) = OProjM allcols nall.

  Let dflt : @prow V := ([], vzero).
  (* a row of A_temp / an entry of b_temp of the inner  assemble(equations=[name])  *)
  Definition Arow (rw : @prow V) : list V := cut vzero allcols (fst rw).
  Definition brow (rw : @prow V) : V := vopp (snd rw).

  Lemma dget_single (name k : nat) :
    dget [(name, @None (list nat))] k = if Nat.eqb name k then Some None else None.
  Proof. reflexivity. Qed.

  Lemma ordered_single (l : list (nat * nat)) name :
    NoDup (map fst l) -> In name (map fst l) ->
    flat_map (fun kv => match dget [(name, @None (list nat))] (fst kv) with
                        | Some r => [(fst kv, r)]
                        | None => []
                        end) l = [(name, None)].
  Proof.
    assert (Hnone : forall r : list (nat * nat), ~ In name (map fst r) ->
      flat_map (fun kv => match dget [(name, @None (list nat))] (fst kv) with
                          | Some r0 => [(fst kv, r0)] | None => [] end) r = []).
    { induction r as [|[k o] t IHt]; intro H; cbn [flat_map fst]; auto.
      rewrite dget_single. destruct (Nat.eqb name k) eqn:E.
      - apply Nat.eqb_eq in E. subst. exfalso. apply H. left. reflexivity.
      - cbn [app]. apply IHt. intro Hx. apply H. right. exact Hx. }
    induction l as [|[n o] r IH]; intros Hnd Hin; [destruct Hin|].
    cbn [flat_map fst map] in *. inversion Hnd as [|? ? Hn Hr]. subst.
    rewrite dget_single. destruct (Nat.eqb name n) eqn:E.
    - apply Nat.eqb_eq in E. subst n. rewrite Hnone by exact Hn. reflexivity.
    - apply Nat.eqb_neq in E. destruct Hin as [Hx|Hin]; [congruence|].
      cbn [app]. apply IH; auto.
  Qed.


  (* the inner call  self.assemble(equations=[name])  returns the whole equation *)
  Lemma assemble_one es name op :
    EInv es -> In (name, op) (equations es) ->
    snd (assemble vzero vopp eval s es true (EList [IName name]) None) =
    AJac (map Arow (eval op)) (map brow (eval op)) (length allcols).
  Proof.
    intros HI Hmem.
    assert (Hname : In name (map fst (equations es))).
    { apply in_map_iff. exists (name, op). auto. }
    unfold assemble, parse_equations. cbn [parse_list parse_single].
    assert (Hh : dhas (equations es) name = true) by (apply dhas_In; exact Hname).
    rewrite Hh. cbn [dupdate fold_left dset fst snd].
    unfold ordered_blocks.
    pose proof (ordered_single (equations es) name (ei_nodup es HI) Hname) as Ho.
    unfold rowsel in *. rewrite Ho.
    cbn [jac_loop]. rewrite (In_dget _ _ _ (ei_nodup es HI) Hmem).
    cbn [app]. rewrite Hall. reflexivity.
  Qed.

  (* ---------------- local row choices of a primary-equation argument ---------------- *)
  Variable es : est.
  Variable a : eqarg.
  Hypothesis HI : EInv es.
  Hypothesis Hsz : sized eval es.

  Definition locP (name : nat) : list nat := local_rows es a name.
  Definition locE (name : nat) : list nat :=
    match kept a name with
    | Some (Some _) => excl_rows (esize es name) (local_rows es a name)
    | _ => []
    end.
  Definition locS (name : nat) : list nat :=
    match kept a name with None => seq 0 (esize es name) | Some _ => [] end.

  Definition pickl (loc : nat -> list nat) (kv : nat * nat) : list (@prow V) :=
    map (fun i => nth i (eval (snd kv)) dflt) (loc (fst kv)).

  Definition nres (l : list (nat * nat)) : nat :=
    length (filter (fun kv => match kept a (fst kv) with
                              | Some (Some _) => true | _ => false end) l).
  Definition nsecq (l : list (nat * nat)) : nat :=
    length (filter (fun kv => match kept a (fst kv) with None => true | _ => false end) l).

  Lemma dget_prim name :
    In name (map fst (equations es)) ->
    dget (blocks_spec es a) name = option_map (sel_of es name) (kept a name).
  Proof.
    intro Hn. unfold blocks_spec.
    rewrite (dget_flat_map (fun k => match kept a k with
                                     | Some m => [(k, sel_of es k m)] | None => [] end)
                           (equations es) name); auto.
    - destruct (kept a name); cbn; [rewrite Nat.eqb_refl|]; reflexivity.
    - intros k kv H. destruct (kept a k); [|destruct H]. destruct H as [H|[]]. subst. reflexivity.
    - apply (ei_nodup es HI).
  Qed.

  Lemma dget_excl name gs :
    In name (map fst (equations es)) -> kept a name = Some (Some gs) ->
    dget (excl_spec es a) name =
    Some (Some (excl_rows (esize es name) (local_rows es a name))).
  Proof.
    intros Hn Hk. unfold excl_spec, rowsel.
    rewrite (dget_flat_map
               (fun k => match kept a k with
                         | Some (Some _) => [(k, Some (excl_rows (esize es k) (local_rows es a k)))]
                         | Some None => [(k, None)]
                         | None => [] end) (equations es) name); auto.
    - rewrite Hk. cbn. rewrite Nat.eqb_refl. reflexivity.
    - intros k kv H. destruct (kept a k) as [[g|]|]; [| |destruct H];
        destruct H as [H|[]]; subst; reflexivity.
    - apply (ei_nodup es HI).
  Qed.

  Lemma pick_all op name :
    length (eval op) = esize es name ->
    map (fun i => nth i (eval op) dflt) (seq 0 (esize es name)) = eval op.
  Proof.
    intro H. rewrite <- H. pose proof (map_nth_seq dflt (eval op) []) as Hm.
    cbn [app length] in Hm. exact Hm.
  Qed.

  Lemma take_rows {X} (f : @prow V -> X) op idx :
    Forall (fun i => i < length (eval op)) idx ->
    takeL (map f (eval op)) idx = Some (map f (map (fun i => nth i (eval op) dflt) idx)).
  Proof.
    intro H. rewrite (takeL_ok (f dflt)) by (rewrite map_length; exact H).
    f_equal. rewrite map_map. apply map_ext. intro i. apply map_nth.
  Qed.

  Lemma loop_primary_spec : forall l,
    (forall kv, In kv l -> In kv (equations es)) ->
    forall Ap bp As bs ns,
    loop_primary vzero vopp eval s es l (blocks_spec es a) (excl_spec es a) (Ap, bp, As, bs, ns) =
    inl (Ap ++ map Arow (flat_map (pickl locP) l), bp ++ map brow (flat_map (pickl locP) l),
         As ++ map Arow (flat_map (pickl locE) l), bs ++ map brow (flat_map (pickl locE) l),
         ns + nres l).
  Proof.
    induction l as [|[name op] r IH]; intros Hin Ap bp As bs ns.
    - cbn. rewrite !app_nil_r, Nat.add_0_r. reflexivity.
    - assert (Hmem : In (name, op) (equations es)) by (apply Hin; left; auto).
      assert (Hname : In name (map fst (equations es))).
      { apply in_map_iff. exists (name, op). auto. }
      assert (IH' := IH (fun kv H => Hin kv (or_intror H))).
      pose proof (Hsz name op Hmem) as Hlen.
      destruct (local_rows_bound es a name HI Hname) as [_ Hb].
      cbn [loop_primary]. rewrite (dget_prim name Hname).
      unfold nres, pickl, locP, locE. cbn [flat_map filter fst snd].
      unfold local_rows in *.
      destruct (kept a name) as [[gs|]|] eqn:Ek; cbn [option_map sel_of].
      + rewrite (assemble_one es name op HI Hmem).
        rewrite <- Hlen in Hb.
        rewrite (take_rows Arow op _ Hb), (take_rows brow op _ Hb).
        rewrite (dget_excl name gs Hname Ek).
        unfold local_rows. rewrite Ek.
        assert (He : Forall (fun i => i < length (eval op))
                            (excl_rows (esize es name) (restrict_img (img_of es name) gs))).
        { rewrite Hlen. apply excl_rows_bound. }
        rewrite (take_rows Arow op _ He), (take_rows brow op _ He).
        rewrite IH'. unfold nres, pickl, locP, locE, local_rows. cbn [length].
        rewrite !map_app, <- !app_assoc. f_equal. f_equal; try reflexivity; lia.
      + rewrite (assemble_one es name op HI Hmem). rewrite IH'.
        unfold nres, pickl, locP, locE, local_rows.
        rewrite (pick_all op name Hlen). cbn [map app].
        rewrite !map_app, <- !app_assoc. reflexivity.
      + cbn [map app]. apply IH'.
  Qed.

  Lemma loop_secondary_spec : forall l,
    (forall kv, In kv l -> In kv (equations es)) ->
    forall Ap bp As bs ns,
    loop_secondary vzero vopp eval s es l (blocks_spec es a) (Ap, bp, As, bs, ns) =
    inl (Ap, bp, As ++ map Arow (flat_map (pickl locS) l),
         bs ++ map brow (flat_map (pickl locS) l), ns + nsecq l).
  Proof.
    induction l as [|[name op] r IH]; intros Hin Ap bp As bs ns.
    - cbn. rewrite !app_nil_r, Nat.add_0_r. reflexivity.
    - assert (Hmem : In (name, op) (equations es)) by (apply Hin; left; auto).
      assert (Hname : In name (map fst (equations es))).
      { apply in_map_iff. exists (name, op). auto. }
      assert (IH' := IH (fun kv H => Hin kv (or_intror H))).
      pose proof (Hsz name op Hmem) as Hlen.
      cbn [loop_secondary]. rewrite (dget_prim name Hname).
      unfold nsecq, pickl, locS. cbn [flat_map filter fst snd].
      destruct (kept a name) as [m|] eqn:Ek; cbn [option_map].
      + cbn [map app]. apply IH'.
      + rewrite (assemble_one es name op HI Hmem). rewrite IH'.
        unfold nsecq, pickl, locS. rewrite (pick_all op name Hlen). cbn [length].
        rewrite !map_app, <- !app_assoc. f_equal. f_equal; try reflexivity; lia.
  Qed.

  (* ---------------- from local picks to rows of the full system ---------------- *)
  Fixpoint glob_from (loc : nat -> list nat) (eqs : list (nat * nat)) (off : nat) : list nat :=
    match eqs with
    | [] => []
    | (name, _) :: r => map (Nat.add off) (loc name) ++ glob_from loc r (off + esize es name)
    end.

  Lemma glob_sel loc : forall l pre post,
    (forall kv, In kv l -> In kv (equations es)) ->
    (forall kv, In kv l -> Forall (fun i => i < esize es (fst kv)) (loc (fst kv))) ->
    full eval es = pre ++ flat_map (fun kv => eval (snd kv)) l ++ post ->
    flat_map (pickl loc) l =
    map (fun i => nth i (full eval es) dflt) (glob_from loc l (length pre)).
  Proof.
    induction l as [|[name op] r IH]; intros pre post Hin Hb Hfull; [reflexivity|].
    assert (Hmem : In (name, op) (equations es)) by (apply Hin; left; auto).
    pose proof (Hsz name op Hmem) as Hlen.
    cbn [flat_map glob_from snd fst] in *.
    specialize (IH (pre ++ eval op) post (fun kv H => Hin kv (or_intror H))
                   (fun kv H => Hb kv (or_intror H))).
    rewrite app_length, Hlen in IH. rewrite <- !app_assoc in IH. rewrite <- app_assoc in Hfull.
    rewrite map_app, (IH Hfull). f_equal.
    unfold pickl. cbn [fst snd]. rewrite map_map. apply map_ext_in. intros i Hi.
    pose proof (Hb (name, op) (or_introl eq_refl)) as Hbn. cbn [fst] in Hbn.
    rewrite Forall_forall in Hbn. apply Hbn in Hi.
    rewrite Hfull. rewrite app_nth2 by lia. rewrite app_nth1 by lia. f_equal. lia.
  Qed.

  Lemma glob_P l off : glob_from locP l off = rows_from es a l off.
  Proof. revert off. induction l as [|[n o] r IH]; intro off; cbn; [|rewrite IH]; reflexivity. Qed.

  Lemma glob_E l off : glob_from locE l off = excl_from es a l off.
  Proof.
    revert off. induction l as [|[n o] r IH]; intro off; cbn [glob_from excl_from]; auto.
    rewrite IH. f_equal. unfold locE. destruct (kept a n) as [[g|]|]; reflexivity.
  Qed.

  Lemma glob_S l off : glob_from locS l off = sec_from es a l off.
  Proof.
    revert off. induction l as [|[n o] r IH]; intro off; cbn [glob_from sec_from]; auto.
    rewrite IH. f_equal. unfold locS. destruct (kept a n); [reflexivity|].
    rewrite map_add_seq, Nat.add_0_r. reflexivity.
  Qed.

  Lemma loc_bounds (loc : nat -> list nat) :
    (loc = locP \/ loc = locE \/ loc = locS) ->
    forall kv, In kv (equations es) -> Forall (fun i => i < esize es (fst kv)) (loc (fst kv)).
  Proof.
    intros Hl [name op] Hmem. cbn [fst].
    assert (Hname : In name (map fst (equations es))).
    { apply in_map_iff. exists (name, op). auto. }
    destruct Hl as [E|[E|E]]; subst loc.
    - apply (local_rows_bound es a name HI Hname).
    - unfold locE. destruct (kept a name) as [[g|]|]; try constructor. apply excl_rows_bound.
    - unfold locS. destruct (kept a name); [constructor|].
      apply Forall_forall. intros i Hi. apply in_seq in Hi. lia.
  Qed.

  (* selections of the full system *)
  Definition selA (rows : list nat) : list (list V) :=
    map (fun i => Arow (nth i (full eval es) dflt)) rows.
  Definition selb (rows : list nat) : list V :=
    map (fun i => brow (nth i (full eval es) dflt)) rows.

  (* both loops together: primary block = rows prim_rows, secondary block = rows sec_rows *)
  Theorem loops_spec :
    exists acc1,
      loop_primary vzero vopp eval s es (equations es) (blocks_spec es a) (excl_spec es a)
                   ([], [], [], [], 0) = inl acc1 /\
      loop_secondary vzero vopp eval s es (equations es) (blocks_spec es a) acc1 =
      inl (selA (prim_rows es a), selb (prim_rows es a),
           selA (sec_rows es a), selb (sec_rows es a),
           nres (equations es) + nsecq (equations es)).
  Proof.
    eexists. split; [apply loop_primary_spec; auto|].
    rewrite loop_secondary_spec by auto. cbn [app].
    assert (Hf : full eval es = [] ++ flat_map (fun kv => eval (snd kv)) (equations es) ++ []).
    { cbn. rewrite app_nil_r. reflexivity. }
    rewrite (glob_sel locP (equations es) [] [] (fun kv H => H)
                      (fun kv H => loc_bounds locP (or_introl eq_refl) kv H) Hf).
    rewrite (glob_sel locE (equations es) [] [] (fun kv H => H)
                      (fun kv H => loc_bounds locE (or_intror (or_introl eq_refl)) kv H) Hf).
    rewrite (glob_sel locS (equations es) [] [] (fun kv H => H)
                      (fun kv H => loc_bounds locS (or_intror (or_intror eq_refl)) kv H) Hf).
    cbn [length]. rewrite glob_P, glob_E, glob_S.
    unfold selA, selb, prim_rows, sec_rows, rows_spec. rewrite !map_map, !map_app.
    reflexivity.
  Qed.
End Blocks.

(* ------------------------------------------------------------------------------------ *)
(* assemble_schur_complement_system: the four blocks and the two right-hand sides are the
   rows prim_rows / sec_rows of the full system, cut to the primary / secondary columns *)
Theorem schur_blocks_spec {V : Type} (vzero : V) (vopp : V -> V) (eval : nat -> list (@prow V))
        (s : st) (es : est) (pe : eqarg) (pv : refs) allcols nall colsp colss :
  EInv es -> sized eval es -> arg_ok es pe = true -> restricted_nonempty es pe ->
  projection_to s (asm_vars s None) = OProjM allcols nall ->
  @proj_cols s (parse s pv) = inl colsp ->
  @proj_cols s (filter (fun id => negb (memb id (parse s pv))) (map vid (vars s))) = inl colss ->
  blocks_spec es pe <> [] -> colsp <> [] -> colss <> [] ->
  nres pe (equations es) + nsecq pe (equations es) <> 0 ->
  length (sec_rows es pe) = length colss ->
  let AP := selA vzero eval allcols es (prim_rows es pe) in
  let AS := selA vzero eval allcols es (sec_rows es pe) in
  schur_blocks vzero vopp eval s es pe pv =
  SOk (map (cut vzero colsp) AP) (map (cut vzero colss) AP)
      (map (cut vzero colsp) AS) (map (cut vzero colss) AS)
      (selb vzero vopp eval es (prim_rows es pe)) (selb vzero vopp eval es (sec_rows es pe))
      colsp colss.
Proof.
  intros HI Hsz Hok Hne Hall Hcp Hcs Hprim Hp Hs Hns Hsq AP AS.
  unfold schur_blocks.
  rewrite (parse_equations_spec es pe HI), Hok.
  rewrite (complement_spec es pe HI Hne).
  rewrite Hcp.
  destruct (blocks_spec es pe) as [|b0 bl] eqn:Eb; [congruence|]. cbn [length Nat.eqb].
  destruct colsp as [|c0 cl]; [congruence|]. cbn [length Nat.eqb].
  rewrite Hcs. destruct colss as [|d0 dl]; [congruence|]. cbn [length Nat.eqb].
  rewrite <- Eb.
  destruct (loops_spec vzero vopp eval s allcols nall Hall es pe HI Hsz) as [acc1 [H1 H2]].
  rewrite H1, H2.
  destruct (nres pe (equations es) + nsecq pe (equations es)) as [|k] eqn:En; [congruence|].
  cbn [Nat.eqb].
  assert (Hl : length (selA vzero eval allcols es (sec_rows es pe)) = length (d0 :: dl)).
  { unfold selA. rewrite map_length. exact Hsq. }
  rewrite Hl, Nat.eqb_refl. cbn [negb]. reflexivity.
Qed.

Lemma thm_schur_blocks (V : Type) (vzero : V) (vopp : V -> V) (eval : nat -> list (@prow V))
      g s ops pe pv allcols nall colsp colss :
  let es := efinal vzero vopp eval g s ops in
  sized eval es -> arg_ok es pe = true -> restricted_nonempty es pe ->
  projection_to s (asm_vars s None) = OProjM allcols nall ->
  @proj_cols s (parse s pv) = inl colsp ->
  @proj_cols s (filter (fun id => negb (memb id (parse s pv))) (map vid (vars s))) = inl colss ->
  blocks_spec es pe <> [] -> colsp <> [] -> colss <> [] ->
  nres pe (equations es) + nsecq pe (equations es) <> 0 ->
  length (sec_rows es pe) = length colss ->
  let AP := selA vzero eval allcols es (prim_rows es pe) in
  let AS := selA vzero eval allcols es (sec_rows es pe) in
  schur_blocks vzero vopp eval s es pe pv =
  SOk (map (cut vzero colsp) AP) (map (cut vzero colss) AP)
      (map (cut vzero colsp) AS) (map (cut vzero colss) AS)
      (selb vzero vopp eval es (prim_rows es pe)) (selb vzero vopp eval es (sec_rows es pe))
      colsp colss.
Proof. intro es. intros. apply schur_blocks_spec with (nall := nall); auto. apply efinal_EInv. Qed.
