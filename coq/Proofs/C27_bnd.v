(* C27 — lemmas: BoundaryProjection. *)
From Coq Require Import List ZArith QArith Bool Arith Lia Permutation.
Import ListNotations.
From PP Require Import Model.C27 Model.C27_spec Proofs.C27 Proofs.C27_mortar.
Local Open Scope nat_scope.

Lemma combine_seq_map : forall {B} (h : nat -> B) n a,
    combine (seq a n) (map h (seq 0 n)) = map (fun d => (a + d, h d)) (seq 0 n).
Proof.
  intros B h n; induction n as [|n IH]; intros a; [reflexivity|].
  rewrite !seq_S, map_app, combine_app by now rewrite seq_length, map_length, seq_length.
  rewrite map_app, IH. cbn. reflexivity.
Qed.

Lemma selents_map_seq : forall a (h : nat -> nat) n,
    selents a (map h (seq 0 n)) = map (fun d => (a + d, h d, 1%Q)) (seq 0 n).
Proof.
  intros. unfold selents. rewrite map_length, seq_length, combine_seq_map, map_map. reflexivity.
Qed.

(* kron(P_bg, I_nd) @ faceproj.T : rows k*nd+d, columns off + f_k*nd + d *)
Lemma kron_rows : forall (g : nat -> nat -> nat) nd bnd a,
    flat_map (fun p => map (fun d => (fst p * nd + d, g (snd p) d, 1%Q)) (seq 0 nd))
             (combine (seq a (length bnd)) bnd)
    = selents (a * nd) (flat_map (fun f => map (g f) (seq 0 nd)) bnd).
Proof.
  intros g nd bnd; induction bnd as [|f bnd IH]; intros a; [reflexivity|].
  cbn [length seq combine flat_map fst snd].
  rewrite selents_app, selents_map_seq, map_length, seq_length.
  f_equal. rewrite IH. f_equal. lia.
Qed.

Definition bcols (off nd : nat) (bnd : list nat) : list nat :=
  flat_map (fun f => map (fun d => off + (f * nd + d)) (seq 0 nd)) bnd.

Lemma bnd_block : forall bnd nf nd tot off,
    Forall (fun f => f < nf) bnd ->
    mul (kron_eye (bg_projections bnd nf) nd) (rmat tot off (nf * nd))
    = Ok (mkM (length (bcols off nd bnd)) tot (selents 0 (bcols off nd bnd))).
Proof.
  intros bnd nf nd tot off Hlt.
  rewrite (mul_rmat_r _ tot off (nf * nd)).
  - unfold kron_eye, bg_projections; cbn [nr nc ents]. f_equal. f_equal.
    + unfold bcols. clear. induction bnd as [|f bnd IH]; [reflexivity|].
      cbn [length flat_map]. rewrite app_length, map_length, seq_length, <- IH. lia.
    + rewrite map_flat_map, flat_map_map.
      erewrite flat_map_ext_in.
      * apply (kron_rows (fun f d => off + (f * nd + d)) nd bnd 0).
      * intros p _. rewrite map_map. apply map_ext. intros d.
        cbn [erow ecol evl fst snd]. now rewrite Qmult_1_r_eq.
  - reflexivity.
  - unfold kron_eye, bg_projections; cbn [ents].
    apply Forall_forall. intros e He. apply in_flat_map in He. destruct He as (e0 & He0 & He).
    apply in_map_iff in He. destruct He as (d & <- & Hd). apply in_seq in Hd.
    apply in_map_iff in He0. destruct He0 as (p & <- & Hp).
    destruct p as [k f]. apply in_combine_r in Hp. rewrite Forall_forall in Hlt.
    specialize (Hlt _ Hp). cbn [ecol fst snd]. nia.
Qed.

(* what one listed subdomain contributes *)
Definition bblock (sds : list grid) (nd tot : nat) (b : bgrid) : mat :=
  mkM (length (bnd_cols sds nd b)) tot (selents 0 (bnd_cols sds nd b)).

Lemma bnd_cols_bcols : forall sds nd b bnd,
    bg_bnd b = Some bnd -> (0 <? gdim (bg_grid b)) = true ->
    bnd_cols sds nd b = bcols (pre nfaces sds (gid (bg_grid b)) * nd) nd bnd.
Proof. intros sds nd b bnd E1 E2. unfold bnd_cols, bcols. now rewrite E1, E2. Qed.

Lemma bp_loop_spec : forall sds nd l prev acc,
    NoDup (map gid sds) -> Forall wf_bgrid l -> incl (map bg_grid l) sds ->
    let tot := total nfaces sds nd in
    bp_loop (pdict_spec nfaces tot nd sds 0 []) tot nd l prev acc
    = Ok (rev acc ++ map (bblock sds nd tot) l).
Proof.
  intros sds nd l; induction l as [|b r IH]; intros prev acc Hnd Hwf Hinc tot; subst tot;
    set (tot := total nfaces sds nd) in *.
  - cbn [bp_loop map]. now rewrite app_nil_r.
  - inversion Hwf as [|x xs Hb Hr]; subst. destruct Hb as (Hg & Hbnd).
    cbn [bp_loop map].
    assert (Hin : In (bg_grid b) sds) by (apply Hinc; now left).
    assert (Hinc' : incl (map bg_grid r) sds) by (intros x Hx; apply Hinc; now right).
    destruct (0 <? gdim (bg_grid b)) eqn:Ed.
    + apply Nat.ltb_lt in Ed. destruct (Hbnd Ed) as (bnd & Eb & Hndb & Hlt).
      rewrite Eb. rewrite lookup_pdict_in by assumption. cbn [bind plus].
      rewrite transpose_pmat, bnd_block by exact Hlt. cbn [bind].
      rewrite (IH _ _ Hnd Hr Hinc'). cbn [rev]. rewrite <- app_assoc. cbn [app].
      do 3 f_equal. unfold bblock.
      rewrite (bnd_cols_bcols sds nd b bnd Eb) by now apply Nat.ltb_lt. reflexivity.
    + rewrite (IH _ _ Hnd Hr Hinc'). cbn [rev]. rewrite <- app_assoc. cbn [app].
      do 3 f_equal. unfold bblock, bnd_cols. rewrite Ed.
      destruct (bg_bnd b); reflexivity.
Qed.

Lemma shift_selents : forall a cs, map (shift_row a) (selents 0 cs) = selents a cs.
Proof.
  intros. unfold selents. rewrite map_map.
  replace (seq a (length cs)) with (map (fun k => a + k) (seq 0 (length cs)))
    by (rewrite map_add_seq; f_equal; lia).
  generalize (seq 0 (length cs)) as ks. intros ks; revert cs.
  induction ks as [|k ks IH]; intros [|c cs]; try reflexivity.
  cbn [map combine]. f_equal. apply IH.
Qed.

Lemma vstack_bblocks : forall sds nd tot l a,
    vstack_ents (map (bblock sds nd tot) l) a = selents a (flat_map (bnd_cols sds nd) l)
    /\ forallb (fun B => nc B =? tot) (map (bblock sds nd tot) l) = true
    /\ sum_by nr (map (bblock sds nd tot) l) = length (flat_map (bnd_cols sds nd) l).
Proof.
  intros sds nd tot l; induction l as [|b r IH]; intros a; [repeat split; reflexivity|].
  destruct (IH (a + length (bnd_cols sds nd b))) as (H1 & H2 & H3).
  cbn [map vstack_ents flat_map forallb sum_by]. cbn [bblock nr nc ents].
  rewrite H1, H2, H3, shift_selents, selents_app, app_length, Nat.eqb_refl. repeat split.
Qed.

Lemma bp_projection_spec : forall bgs nd,
    1 <= nd -> Forall wf_bgrid bgs -> NoDup (map gid (map bg_grid bgs)) ->
    bp_projection bgs nd
    = Ok (selection (total nfaces (map bg_grid bgs) nd) (all_bnd_cols bgs nd)).
Proof.
  intros bgs nd Hnd Hwf Hnodup. unfold bp_projection.
  assert (Hwfg : Forall wf_grid (map bg_grid bgs)).
  { apply Forall_forall. intros g Hg. apply in_map_iff in Hg. destruct Hg as (b & <- & Hb).
    rewrite Forall_forall in Hwf. now destruct (Hwf b Hb). }
  pose proof (projections_spec Faces (map bg_grid bgs) nd Hnd Hwfg) as HP.
  cbn [projections_of sp_all sp_nd num_of] in HP. rewrite HP. cbn [bind].
  fold (total nfaces (map bg_grid bgs) nd).
  rewrite (bp_loop_spec (map bg_grid bgs) nd bgs None [] Hnodup Hwf (incl_refl _)).
  cbn [rev app bind].
  destruct (vstack_bblocks (map bg_grid bgs) nd (total nfaces (map bg_grid bgs) nd) bgs 0)
    as (H1 & H2 & H3).
  destruct bgs as [|b r] eqn:E; [reflexivity|]. rewrite <- E in *.
  destruct (map (bblock (map bg_grid bgs) nd (total nfaces (map bg_grid bgs) nd)) bgs)
    as [|B0 rb] eqn:EB.
  { rewrite E in EB. discriminate EB. }
  unfold vstack.
  assert (HB0 : nc B0 = total nfaces (map bg_grid bgs) nd).
  { pose proof H2 as H2'. cbn [forallb] in H2'. apply andb_prop in H2'. destruct H2' as (H2' & _).
    now apply Nat.eqb_eq in H2'. }
  rewrite HB0, H2, H3, H1. reflexivity.
Qed.

(* ------------------------------------------------------------------ distinctness of the columns *)
Lemma bcols_in : forall off nd bnd c,
    In c (bcols off nd bnd) <-> exists f d, In f bnd /\ d < nd /\ c = off + (f * nd + d).
Proof.
  intros. unfold bcols. rewrite in_flat_map. split.
  - intros (f & Hf & Hc). apply in_map_iff in Hc. destruct Hc as (d & <- & Hd).
    apply in_seq in Hd. exists f, d. repeat split; [exact Hf|lia].
  - intros (f & d & Hf & Hd & ->). exists f. split; [exact Hf|].
    apply in_map_iff. exists d. split; [reflexivity|]. apply in_seq. lia.
Qed.

Lemma bcols_NoDup : forall off nd bnd, NoDup bnd -> NoDup (bcols off nd bnd).
Proof.
  intros off nd bnd; induction bnd as [|f bnd IH]; intros H; [constructor|].
  inversion H as [|x xs Hf Hr]; subst.
  change (bcols off nd (f :: bnd))
    with (map (fun d => off + (f * nd + d)) (seq 0 nd) ++ bcols off nd bnd).
  apply NoDup_app_intro.
  - apply FinFun.Injective_map_NoDup; [|apply seq_NoDup]. intros x y E. lia.
  - now apply IH.
  - intros c Hc1 Hc2. apply in_map_iff in Hc1. destruct Hc1 as (d & <- & Hd). apply in_seq in Hd.
    apply bcols_in in Hc2. destruct Hc2 as (f' & d' & Hf' & Hd' & E).
    assert (f = f').
    { assert (E1 : f = (f * nd + d) / nd) by (apply Nat.div_unique with d; lia).
      assert (E2 : f' = (f' * nd + d') / nd) by (apply Nat.div_unique with d'; lia).
      rewrite E1, E2. f_equal. lia. }
    subst. contradiction.
Qed.

Lemma bnd_cols_in_block : forall sds nd b c,
    wf_bgrid b -> In c (bnd_cols sds nd b) -> In c (block nfaces sds nd (bg_grid b)).
Proof.
  intros sds nd b c (Hg & Hbnd) Hc. unfold bnd_cols in Hc.
  destruct (bg_bnd b) as [bnd|] eqn:Eb; [|destruct Hc].
  destruct (0 <? gdim (bg_grid b)) eqn:Ed; [|destruct Hc].
  apply Nat.ltb_lt in Ed. destruct (Hbnd Ed) as (bnd' & Eb' & _ & Hlt).
  injection Eb' as E'; subst bnd'.
  change (In c (bcols (pre nfaces sds (gid (bg_grid b)) * nd) nd bnd)) in Hc.
  apply bcols_in in Hc. destruct Hc as (f & d & Hf & Hd & ->).
  rewrite Forall_forall in Hlt. specialize (Hlt f Hf).
  unfold block. apply in_seq. nia.
Qed.

Lemma bnd_cols_NoDup : forall sds nd b, wf_bgrid b -> NoDup (bnd_cols sds nd b).
Proof.
  intros sds nd b (Hg & Hbnd). unfold bnd_cols.
  destruct (bg_bnd b) as [bnd|] eqn:Eb; [|constructor].
  destruct (0 <? gdim (bg_grid b)) eqn:Ed; [|constructor].
  apply Nat.ltb_lt in Ed. destruct (Hbnd Ed) as (bnd' & Eb' & Hnd & _).
  injection Eb' as E'; subst bnd'.
  apply (bcols_NoDup (pre nfaces sds (gid (bg_grid b)) * nd) nd bnd Hnd).
Qed.

Lemma all_bnd_cols_NoDup : forall bgs nd,
    Forall wf_bgrid bgs -> NoDup (map gid (map bg_grid bgs)) -> NoDup (all_bnd_cols bgs nd).
Proof.
  intros bgs nd Hwf Hnodup. unfold all_bnd_cols.
  set (sds := map bg_grid bgs).
  assert (Hblocks : NoDup (flat_map (block nfaces sds nd) sds)).
  { change (NoDup (blocks nfaces sds nd sds)). rewrite blocks_all by exact Hnodup. apply seq_NoDup. }
  assert (Hgen : forall l, incl l bgs -> NoDup (map gid (map bg_grid l)) ->
                           NoDup (flat_map (bnd_cols sds nd) l)).
  { induction l as [|b r IH]; intros Hinc Hnd; [constructor|].
    cbn [map] in Hnd. inversion Hnd as [|x xs Hx Hr]; subst.
    cbn [flat_map]. rewrite Forall_forall in Hwf.
    apply NoDup_app_intro.
    - apply bnd_cols_NoDup. apply Hwf, Hinc. now left.
    - apply IH; [intros y Hy; apply Hinc; now right|exact Hr].
    - intros c Hc1 Hc2. apply in_flat_map in Hc2. destruct Hc2 as (b' & Hb' & Hc2).
      apply bnd_cols_in_block in Hc1; [|apply Hwf, Hinc; now left].
      apply bnd_cols_in_block in Hc2; [|apply Hwf, Hinc; now right].
      apply (NoDup_flat_map_disjoint (block nfaces sds nd) sds (bg_grid b) (bg_grid b') c Hblocks).
      + unfold sds. apply in_map, Hinc. now left.
      + unfold sds. apply in_map, Hinc. now right.
      + intro E. apply Hx. rewrite E. apply in_map, in_map. exact Hb'.
      + exact Hc1.
      + exact Hc2. }
  apply Hgen; [apply incl_refl|exact Hnodup].
Qed.

Lemma boundary_compositions : forall bgs nd,
    1 <= nd -> Forall wf_bgrid bgs -> NoDup (map gid (map bg_grid bgs)) ->
    let tot := total nfaces (map bg_grid bgs) nd in
    let cs := all_bnd_cols bgs nd in
    subdomain_to_boundary bgs nd = Ok (selection tot cs) /\
    boundary_to_subdomain bgs nd = Ok (transpose (selection tot cs)) /\
    NoDup cs /\
    bind (subdomain_to_boundary bgs nd) (fun S =>
      bind (boundary_to_subdomain bgs nd) (fun B => mul S B)) = Ok (identity (length cs)) /\
    bind (subdomain_to_boundary bgs nd) (fun S =>
      bind (boundary_to_subdomain bgs nd) (fun B => mul B S)) = Ok (indicator tot cs).
Proof.
  intros bgs nd Hnd Hwf Hnodup tot cs.
  assert (HS : subdomain_to_boundary bgs nd = Ok (selection tot cs))
    by (apply bp_projection_spec; assumption).
  assert (HB : boundary_to_subdomain bgs nd = Ok (transpose (selection tot cs))).
  { unfold boundary_to_subdomain. unfold subdomain_to_boundary in HS. now rewrite HS. }
  assert (Hcs : NoDup cs) by now apply all_bnd_cols_NoDup.
  rewrite HS, HB. cbn [bind]. repeat split; try assumption.
  - now apply mul_sel_selT.
  - apply mul_selT_sel.
Qed.

(* a listed subdomain of dimension > 0 without boundary grid: UnboundLocalError when it is
   the first one *)
Lemma boundary_unbound : forall b r nd,
    1 <= nd -> Forall wf_grid (map bg_grid (b :: r)) ->
    0 < gdim (bg_grid b) -> bg_bnd b = None ->
    subdomain_to_boundary (b :: r) nd = Err UnboundErr.
Proof.
  intros b r nd Hnd Hwf Hd Hn. unfold subdomain_to_boundary, bp_projection.
  pose proof (projections_spec Faces (map bg_grid (b :: r)) nd Hnd Hwf) as HP.
  cbn [projections_of sp_all sp_nd num_of] in HP. rewrite HP. cbn [bind bp_loop].
  apply Nat.ltb_lt in Hd. rewrite Hd, Hn. reflexivity.
Qed.
