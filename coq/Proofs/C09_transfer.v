(* C09 — instance-independence of the polymorphic model, as a theorem.

   For any two instances of the operations record and any map h between their carriers that
   commutes with every operation and preserves every comparison (a "homomorphism of
   instances"), every function of the model commutes with h: running the model in the first
   instance and mapping the result equals running it in the second instance on the mapped
   input.  Instantiated with the exact rational instance (executable, Model/C09_ext.v) and
   the real instance (the one the theorems are about) via Q2R. *)
From Coq Require Import List ZArith Bool Arith Lia.
Import ListNotations.
From PP Require Import Model.C09 Model.C09_ext.

Section Morph.
  Variables (A B : Type) (OA : numops A) (OB : numops B) (h : A -> B).

  Record morph : Prop := {
    m_zero : h (n_zero A OA) = n_zero B OB;
    m_one : h (n_one A OA) = n_one B OB;
    m_milli : h (n_milli A OA) = n_milli B OB;
    m_tenth : h (n_tenth A OA) = n_tenth B OB;
    m_add : forall x y, h (n_add A OA x y) = n_add B OB (h x) (h y);
    m_sub : forall x y, h (n_sub A OA x y) = n_sub B OB (h x) (h y);
    m_mul : forall x y, h (n_mul A OA x y) = n_mul B OB (h x) (h y);
    m_abs : forall x, h (n_abs A OA x) = n_abs B OB (h x);
    m_leb : forall x y, n_leb B OB (h x) (h y) = n_leb A OA x y;
    m_ltb : forall x y, n_ltb B OB (h x) (h y) = n_ltb A OA x y;
    m_eqb : forall x y, n_eqb B OB (h x) (h y) = n_eqb A OA x y }.

  Hypothesis M : morph.

  Definition hargs (a : args A) : args B :=
    Build_args B (h (a_dt_init a)) (a_constant a)
      (option_map (fun p => (h (fst p), h (snd p))) (a_dt_min_max a))
      (a_iter_max a) (a_iter_low a) (a_iter_upp a) (h (a_under a)) (h (a_over a))
      (h (a_recomp_factor a)) (a_recomp_max a) (h (a_rtol a)) (h (a_atol a)).

  Definition hcfg (c : cfg A) : cfg B :=
    Build_cfg B (h (dt_init c)) (constant c) (h (dt_min c)) (h (dt_max c)) (iter_max c)
      (iter_low c) (iter_upp c) (h (under c)) (h (over c)) (h (recomp_factor c))
      (recomp_max c) (h (rtol c)) (h (atol c)).

  Definition hstate (s : state A) : state B :=
    Build_state B (h (time s)) (h (dt s)) (tidx s) (idx s) (recomp s) (about s).

  Definition hout (o : out A) : out B :=
    match o with
    | ONone => ONone | ODt x => ODt (h x) | OBool b => OBool b | OUnit => OUnit
    | OErr e => OErr e
    end.

  Definition hso (p : state A * out A) : state B * out B := (hstate (fst p), hout (snd p)).
  Definition hentry (p : event * state A * out A) : event * state B * out B :=
    (fst (fst p), hstate (snd (fst p)), hout (snd p)).

  (* ---------------- lists ---------------- *)
  Lemma h_last l d : last (map h l) (h d) = h (last l d).
  Proof. induction l as [|a [|b l] IH]; [reflexivity|reflexivity|exact IH]. Qed.

  Lemma h_hd l d : hd (h d) (map h l) = h (hd d l).
  Proof. destruct l; reflexivity. Qed.

  Lemma h_nth_error l i : nth_error (map h l) i = option_map h (nth_error l i).
  Proof. revert i; induction l; destruct i; cbn; auto. Qed.

  Lemma h_sget l i : sget B (map h l) i = option_map h (sget A l i).
  Proof.
    unfold sget. rewrite map_length.
    destruct (i <? 0)%Z; [destruct (i + Z.of_nat (length l) <? 0)%Z; [reflexivity|]|];
      apply h_nth_error.
  Qed.

  Lemma h_strictly_increasing l :
    strictly_increasing B OB (map h l) = strictly_increasing A OA l.
  Proof.
    induction l as [|a [|b l] IH]; [reflexivity|reflexivity|].
    change (n_ltb B OB (h a) (h b) && strictly_increasing B OB (map h (b :: l))
            = n_ltb A OA a b && strictly_increasing A OA (b :: l)).
    rewrite IH, (m_ltb M). reflexivity.
  Qed.

  Lemma h_existsb_neg l :
    existsb (fun t => n_ltb B OB t (n_zero B OB)) (map h l)
    = existsb (fun t => n_ltb A OA t (n_zero A OA)) l.
  Proof.
    induction l as [|a l IH]; [reflexivity|]. cbn [map existsb].
    rewrite IH, <- (m_zero M), (m_ltb M). reflexivity.
  Qed.

  (* ---------------- constructor ---------------- *)
  Lemma h_pymin a b : pymin B OB (h a) (h b) = h (pymin A OA a b).
  Proof. unfold pymin. rewrite (m_ltb M). destruct (n_ltb A OA b a); reflexivity. Qed.

  Lemma h_resolve a final :
    resolve_min_max B OB (hargs a) (h final)
    = (h (fst (resolve_min_max A OA a final)), h (snd (resolve_min_max A OA a final))).
  Proof.
    unfold resolve_min_max, hargs; cbn [a_dt_min_max a_dt_init].
    destruct (a_dt_min_max a) as [[x y]|]; cbn [option_map fst snd]; [reflexivity|].
    rewrite <- (m_milli M), <- (m_tenth M), <- !(m_mul M), h_pymin. reflexivity.
  Qed.

  Lemma h_construct a sched :
    construct B OB (hargs a) (map h sched)
    = match construct A OA a sched with inl c => inl (hcfg c) | inr e => inr e end.
  Proof.
    unfold construct. rewrite map_length, h_existsb_neg, h_strictly_increasing.
    rewrite <- (m_zero M), <- (m_one M), h_last, h_resolve.
    cbn [hargs a_dt_init a_constant a_iter_max a_iter_low a_iter_upp a_under a_over
         a_recomp_factor a_recomp_max a_rtol a_atol fst snd].
    rewrite <- !(m_mul M), !(m_leb M), !(m_ltb M).
    repeat match goal with
           | |- (if ?b then _ else _) = match (if ?b then _ else _) with _ => _ end =>
               destruct b; [reflexivity|]
           end.
    reflexivity.
  Qed.

  Lemma h_init_state c sched :
    init_state B OB (hcfg c) (map h sched) = hstate (init_state A OA c sched).
  Proof.
    unfold init_state, hstate; cbn [time dt tidx idx recomp about hcfg dt_init].
    rewrite <- (m_zero M), h_hd. reflexivity.
  Qed.

  (* ---------------- stepping ---------------- *)
  Lemma h_isclose c a b : isclose B OB (hcfg c) (h a) (h b) = isclose A OA c a b.
  Proof.
    unfold isclose; cbn [hcfg rtol atol].
    rewrite <- (m_sub M), <- !(m_abs M), <- (m_mul M), <- (m_add M), (m_leb M), (m_eqb M).
    reflexivity.
  Qed.

  Lemma h_final c sched s :
    final_time_reached B OB (hcfg c) (map h sched) (hstate s)
    = final_time_reached A OA c sched s.
  Proof.
    unfold final_time_reached, time_final; cbn [hstate time].
    rewrite <- (m_zero M), h_last, (m_ltb M), h_isclose. reflexivity.
  Qed.

  Lemma h_adapt_iterations c s it :
    adapt_iterations B OB (hcfg c) (hstate s) it
    = (hstate (fst (adapt_iterations A OA c s it)), snd (adapt_iterations A OA c s it)).
  Proof.
    unfold adapt_iterations. destruct it as [k|]; [|reflexivity].
    cbn [hcfg iter_low iter_upp over under hstate time dt tidx idx recomp about].
    destruct (k <=? iter_low c)%Z; [|destruct (iter_upp c <=? k)%Z];
      unfold set_dt, hstate; cbn [fst snd time dt tidx idx recomp about];
      rewrite ?(m_mul M); reflexivity.
  Qed.

  Lemma h_adapt_recomputation c s :
    adapt_recomputation B OB (hcfg c) (hstate s)
    = (hstate (fst (adapt_recomputation A OA c s)), snd (adapt_recomputation A OA c s)).
  Proof.
    unfold adapt_recomputation.
    cbn [hcfg recomp_max dt_min recomp_factor hstate time dt tidx idx recomp about].
    destruct (recomp s <? recomp_max c)%Z; [|reflexivity].
    rewrite (m_eqb M). destruct (n_eqb A OA (dt s) (dt_min c)); [reflexivity|].
    unfold hstate; cbn [fst snd time dt tidx idx recomp about].
    rewrite (m_sub M), (m_mul M). reflexivity.
  Qed.

  Lemma h_correct_min c s :
    correct_min B OB (hcfg c) (hstate s) = hstate (correct_min A OA c s).
  Proof.
    unfold correct_min; cbn [hcfg dt_min hstate dt]. rewrite (m_ltb M).
    destruct (n_ltb A OA (dt s) (dt_min c)); reflexivity.
  Qed.

  Lemma h_correct_max c s :
    correct_max B OB (hcfg c) (hstate s) = hstate (correct_max A OA c s).
  Proof.
    unfold correct_max; cbn [hcfg dt_max hstate dt]. rewrite (m_ltb M).
    destruct (n_ltb A OA (dt_max c) (dt s)); reflexivity.
  Qed.

  Lemma h_correct_schedule c sched s :
    correct_schedule B OB (hcfg c) (map h sched) (hstate s)
    = (hstate (fst (correct_schedule A OA c sched s)),
       snd (correct_schedule A OA c sched s)).
  Proof.
    unfold correct_schedule. cbn [hstate time dt tidx idx recomp about].
    rewrite h_sget, map_length. destruct (sget A sched (idx s)) as [st0|]; [|reflexivity].
    cbn [option_map]. rewrite h_isclose.
    destruct ((idx s <? Z.of_nat (length sched) - 1)%Z && isclose A OA c (time s) st0).
    - rewrite h_sget. destruct (sget A sched (idx s + 1)) as [st1|]; [|reflexivity].
      cbn [option_map]. rewrite <- (m_add M), (m_ltb M), h_isclose.
      destruct (n_ltb A OA st1 (n_add A OA (time s) (dt s))); [|reflexivity].
      destruct (isclose A OA c (time s) st1); [reflexivity|].
      unfold hstate; cbn [fst snd time dt tidx idx recomp about]. rewrite (m_sub M).
      reflexivity.
    - rewrite <- (m_add M), (m_ltb M), h_isclose.
      destruct (n_ltb A OA st0 (n_add A OA (time s) (dt s))); [|reflexivity].
      destruct (isclose A OA c (time s) st0); [reflexivity|].
      unfold hstate; cbn [fst snd time dt tidx idx recomp about]. rewrite (m_sub M).
      reflexivity.
  Qed.

  Lemma h_compute c sched s it re :
    compute_time_step B OB (hcfg c) (map h sched) (hstate s) it re
    = hso (compute_time_step A OA c sched s it re).
  Proof.
    unfold compute_time_step. rewrite h_final.
    destruct (negb re && final_time_reached A OA c sched s); [reflexivity|].
    change (constant (hcfg c)) with (constant c).
    destruct (constant c); [reflexivity|].
    assert (E : (if re then adapt_recomputation B OB (hcfg c) (hstate s)
                 else adapt_iterations B OB (hcfg c) (hstate s) it)
                = (hstate (fst (if re then adapt_recomputation A OA c s
                                else adapt_iterations A OA c s it)),
                   snd (if re then adapt_recomputation A OA c s
                        else adapt_iterations A OA c s it))).
    { destruct re; [apply h_adapt_recomputation|apply h_adapt_iterations]. }
    rewrite E.
    destruct (if re then adapt_recomputation A OA c s else adapt_iterations A OA c s it)
      as [s1 e]. cbn [fst snd].
    destruct e; [reflexivity|].
    rewrite h_correct_min, h_correct_max, h_correct_schedule.
    destruct (correct_schedule A OA c sched (correct_max A OA c (correct_min A OA c s1)))
      as [s2 e2]. cbn [fst snd].
    destruct e2; reflexivity.
  Qed.

  Lemma h_stepped s :
    increase_time_index B (increase_time B OB (hstate s))
    = hstate (increase_time_index A (increase_time A OA s)).
  Proof.
    unfold increase_time_index, increase_time, hstate; cbn [time dt tidx idx recomp about].
    rewrite (m_add M). reflexivity.
  Qed.

  Lemma h_do_call c sched s k :
    do_call B OB (hcfg c) (map h sched) (hstate s) k = hso (do_call A OA c sched s k).
  Proof.
    destruct k; cbn [do_call].
    - unfold hso, increase_time, hstate; cbn [fst snd time dt tidx idx recomp about hout].
      rewrite (m_add M). reflexivity.
    - reflexivity.
    - rewrite h_final. reflexivity.
    - apply h_compute.
  Qed.

  Lemma h_run_calls c sched ks : forall s,
    run_calls B OB (hcfg c) (map h sched) (hstate s) ks
    = map hso (run_calls A OA c sched s ks).
  Proof.
    induction ks as [|k r IH]; intros s; [reflexivity|].
    cbn [run_calls]. rewrite h_do_call.
    destruct (do_call A OA c sched s k) as [s' o]. cbn [hso fst snd map].
    rewrite IH. reflexivity.
  Qed.

  Lemma h_drive c sched evs : forall s,
    drive B OB (hcfg c) (map h sched) (hstate s) evs
    = (map hentry (fst (drive A OA c sched s evs)), snd (drive A OA c sched s evs)).
  Proof.
    induction evs as [|ev r IH]; intros s; cbn [drive]; rewrite h_final.
    - destruct (final_time_reached A OA c sched s); reflexivity.
    - destruct (final_time_reached A OA c sched s); [reflexivity|].
      rewrite h_stepped. change (constant (hcfg c)) with (constant c).
      set (s1 := increase_time_index A (increase_time A OA s)).
      assert (E : match ev with
                  | Converged k => if constant c then (hstate s1, OUnit)
                                   else compute_time_step B OB (hcfg c) (map h sched)
                                          (hstate s1) (Some k) false
                  | Failed => if constant c then (hstate s1, OErr E_not_converged)
                              else compute_time_step B OB (hcfg c) (map h sched)
                                     (hstate s1) None true
                  end
                  = hso match ev with
                        | Converged k => if constant c then (s1, OUnit)
                                         else compute_time_step A OA c sched s1 (Some k) false
                        | Failed => if constant c then (s1, OErr E_not_converged)
                                    else compute_time_step A OA c sched s1 None true
                        end).
      { destruct ev; destruct (constant c); try reflexivity; apply h_compute. }
      rewrite E.
      match goal with |- context[hso ?X] => destruct X as [s2 o] end.
      cbn [hso fst snd]. destruct o; cbn [hout]; try reflexivity;
        rewrite IH; destruct (drive A OA c sched s2 r) as [tr st]; reflexivity.
  Qed.

  Lemma h_accepted tr : accepted B (map hentry tr) = map h (accepted A tr).
  Proof.
    induction tr as [|[[ev s] o] tr IH]; [reflexivity|].
    cbn [map hentry fst snd accepted]. destruct ev; [|exact IH].
    destruct o; cbn [hout hstate time map]; rewrite IH; reflexivity.
  Qed.

  (* the whole simulation: constructor, then the loop *)
  Theorem h_simulate a sched evs :
    simulate B OB (hargs a) (map h sched) evs
    = match simulate A OA a sched evs with
      | inr e => inr e
      | inl (c, (tr, st)) => inl (hcfg c, (map hentry tr, st))
      end.
  Proof.
    unfold simulate. rewrite h_construct.
    destruct (construct A OA a sched) as [c|e]; [|reflexivity].
    rewrite h_init_state, h_drive.
    destruct (drive A OA c sched (init_state A OA c sched) evs) as [tr st]. reflexivity.
  Qed.
End Morph.

(* ---------------- the complete constructor (constant_dt compatibility test) ---------------- *)
Section MorphExt.
  Variables (A B : Type) (OA : numops A) (OB : numops B) (XA : numext A) (XB : numext B)
            (h : A -> B).
  Hypothesis M : morph A B OA OB h.

  Record morph_ext : Prop := {
    m_div : forall x y, h (x_div A XA x y) = x_div B XB (h x) (h y);
    m_ceil : forall x, x_ceil B XB (h x) = x_ceil A XA x;
    m_ofZ : forall z, h (x_ofZ A XA z) = x_ofZ B XB z }.

  Hypothesis MX : morph_ext.

  Lemma h_arange_item start step i :
    arange_item B OB XB (h start) (h step) i = h (arange_item A OA XA start step i).
  Proof.
    destruct i as [|[|i]]; cbn [arange_item]; [reflexivity|symmetry; apply (m_add _ _ _ _ _ M)|].
    rewrite (m_add _ _ _ _ _ M), (m_mul _ _ _ _ _ M), (m_ofZ MX), (m_sub _ _ _ _ _ M),
      (m_add _ _ _ _ _ M). reflexivity.
  Qed.

  Lemma h_arange start stop step :
    arange B OB XB (h start) (h stop) (h step) = map h (arange A OA XA start stop step).
  Proof.
    unfold arange, arange_len.
    rewrite <- (m_sub _ _ _ _ _ M), <- (m_div MX), (m_ceil MX), map_map.
    apply map_ext. intros i. apply h_arange_item.
  Qed.

  Lemma h_searchsorted l t :
    searchsorted_left B OB (map h l) (h t) = searchsorted_left A OA l t.
  Proof.
    unfold searchsorted_left. induction l as [|a l IH]; [reflexivity|].
    cbn [map filter]. rewrite (m_ltb _ _ _ _ _ M).
    destruct (n_ltb A OA a t); cbn [length]; rewrite IH; reflexivity.
  Qed.

  Lemma map_removelast (l : list A) : removelast (map h l) = map h (removelast l).
  Proof.
    induction l as [|a [|b l] IH]; [reflexivity|reflexivity|].
    change (h a :: removelast (map h (b :: l)) = h a :: map h (removelast (b :: l))).
    rewrite IH. reflexivity.
  Qed.

  Lemma h_matches c sched t :
    matches B OB (hcfg A B h c) (map h sched) (h t) = matches A OA c sched t.
  Proof.
    unfold matches.
    replace (tl (map h sched)) with (map h (tl sched)) by (destruct sched; reflexivity).
    rewrite map_removelast, h_searchsorted, <- (m_zero _ _ _ _ _ M), !map_nth,
      !(h_isclose _ _ _ _ _ M). reflexivity.
  Qed.

  Lemma h_compatible c sched :
    compatible B OB XB (hcfg A B h c) (map h sched) = compatible A OA XA c sched.
  Proof.
    unfold compatible, sim_times. rewrite map_length.
    change (dt_init (hcfg A B h c)) with (h (dt_init c)).
    rewrite <- (m_zero _ _ _ _ _ M), h_hd, h_last, <- (m_add _ _ _ _ _ M), h_arange.
    set (l := arange A OA XA _ _ _). clearbody l.
    assert (E : length (filter (matches B OB (hcfg A B h c) (map h sched)) (map h l))
                = length (filter (matches A OA c sched) l)).
    { induction l as [|t l IH]; [reflexivity|]. cbn [map filter]. rewrite h_matches.
      destruct (matches A OA c sched t); cbn [length]; rewrite IH; reflexivity. }
    rewrite E. reflexivity.
  Qed.

  Lemma h_construct_full a sched :
    construct_full B OB XB (hargs A B h a) (map h sched)
    = match construct_full A OA XA a sched with
      | inl c => inl (hcfg A B h c) | inr e => inr e end.
  Proof.
    unfold construct_full. rewrite (h_construct _ _ _ _ _ M).
    destruct (construct A OA a sched) as [c|e]; [|reflexivity].
    change (constant (hcfg A B h c)) with (constant c).
    destruct (constant c); [|reflexivity].
    rewrite h_compatible. destruct (compatible A OA XA c sched); reflexivity.
  Qed.

  Theorem h_simulate_full a sched evs :
    simulate_full B OB XB (hargs A B h a) (map h sched) evs
    = match simulate_full A OA XA a sched evs with
      | inr e => inr e
      | inl (c, (tr, st)) => inl (hcfg A B h c, (map (hentry A B h) tr, st))
      end.
  Proof.
    unfold simulate_full. rewrite h_construct_full.
    destruct (construct_full A OA XA a sched) as [c|e]; [|reflexivity].
    rewrite (h_init_state _ _ _ _ _ M), (h_drive _ _ _ _ _ M).
    destruct (drive A OA c sched (init_state A OA c sched) evs) as [tr st]. reflexivity.
  Qed.
End MorphExt.
