(* C12 — symmetry of Div * flux with Div = the STORED cell_faces^T on grids with a periodic
   face map (general theorem; the tie additionally evaluates it exactly on every periodic
   instance).  Stored entries are those whose geometry face is their row face. *)
From Coq Require Import List ZArith Bool Arith Lia Reals Lra.
Import ListNotations.
From PP Require Import Model.C12 Proofs.C12 Proofs.C12_vs.

Local Open Scope R_scope.

Section Periodic.
  Variable I : input R.

  Definition stored (e : inc) : bool := (tf e =? tg e)%nat.

  (* (cell_faces^T * flux)[i, j] *)
  Definition sdivflux (i j : nat) : R :=
    lsum (fun e => if (tc e =? i)%nat && stored e then IZR (ts e) * entry (rflux I) (tf e) j else 0)
         (cf I).

  (* contribution of one face *)
  Definition face_part (f i j : nat) : R :=
    lsum (fun e => if (tc e =? i)%nat && stored e then IZR (ts e) * entry (rflux I) f j else 0)
         (on_face I f).

  Lemma lsum_by_face (w : inc -> R) (faces : list nat) : forall L : list inc,
    NoDup faces -> (forall e, In e L -> In (tf e) faces) ->
    lsum w L = lsum (fun f => lsum w (filter (fun e => (tf e =? f)%nat) L)) faces.
  Proof.
    intros L Hnd. induction L as [|e L IH]; intros Hin.
    - cbn [filter]. symmetry. apply lsum_zero. reflexivity.
    - rewrite lsum_cons, IH by (intros; apply Hin; right; assumption).
      rewrite <- (lsum_diag_at (fun _ => w e) (tf e) faces Hnd (Hin e (or_introl eq_refl))).
      rewrite <- lsum_plus. apply lsum_ext. intros f _. cbn [filter].
      rewrite (Nat.eqb_sym f (tf e)).
      destruct (tf e =? f)%nat; [rewrite lsum_cons; reflexivity | lra].
  Qed.

  Lemma sdivflux_faces faces i j :
    NoDup faces -> (forall e, In e (cf I) -> In (tf e) faces) ->
    sdivflux i j = lsum (fun f => face_part f i j) faces.
  Proof.
    intros Hnd Hin. unfold sdivflux. rewrite (lsum_by_face _ faces (cf I) Hnd Hin).
    apply lsum_ext. intros f _. unfold face_part. fold (on_face I f).
    apply lsum_ext. intros e He. apply on_face_in in He. destruct He as [_ ->]. reflexivity.
  Qed.

  (* a face all of whose entries are stored ones (no periodic partner) *)
  Definition plain_face (f : nat) : Prop := forall e, In e (on_face I f) -> stored e = true.

  Lemma plain_symmetric f i j : plain_face f -> face_part f i j = face_part f j i.
  Proof.
    intros Hp.
    assert (E : forall a b, face_part f a b =
      lsum (fun e => lsum (fun x =>
        if (tc e =? a)%nat && (tc x =? b)%nat then rt_flux I f * IZR (ts e) * IZR (ts x) else 0)
        (on_face I f)) (on_face I f)).
    { intros a b. unfold face_part. apply lsum_ext. intros e He. rewrite (Hp e He), andb_true_r.
      destruct (tc e =? a)%nat; cbn [andb].
      - rewrite entry_flux, <- lsum_scal. apply lsum_ext. intros x _.
        destruct (tc x =? b)%nat; ring.
      - symmetry. apply lsum_zero. reflexivity. }
    rewrite !E, lsum_swap. apply lsum_ext. intros x _. apply lsum_ext. intros e _.
    destruct (tc e =? i)%nat, (tc x =? j)%nat; cbn [andb]; ring.
  Qed.

  Lemma pair_symmetric l r cl cr sl sr i j :
    periodic_pair I l r cl cr sl sr -> l <> r ->
    (sl = 1 \/ sl = -1)%Z -> (sr = 1 \/ sr = -1)%Z ->
    face_part l i j + face_part r i j = face_part l j i + face_part r j i.
  Proof.
    intros Hp Hlr Hsl Hsr.
    destruct (periodic_pair_theorem I l r cl cr sl sr Hp) as [_ [El [Er _]]].
    destruct Hp as [Hl [Hr _]].
    assert (Nlr : (l =? r)%nat = false) by (apply Nat.eqb_neq; exact Hlr).
    assert (Nrl : (r =? l)%nat = false) by (apply Nat.eqb_neq; congruence).
    unfold face_part. rewrite Hl, Hr, !lsum_cons, !lsum_nil.
    unfold stored, tf, tc, ts, tg, geo. cbn [fst snd]. rewrite !Nat.eqb_refl, Nlr, Nrl, !andb_true_r, !andb_false_r.
    rewrite !El, !Er.
    destruct Hsl as [-> | ->], Hsr as [-> | ->];
      destruct (cl =? i)%nat, (cl =? j)%nat, (cr =? i)%nat, (cr =? j)%nat; ring.
  Qed.

  (* every row face is a plain face or belongs to exactly one periodic pair *)
  Theorem periodic_symmetric (plain : list nat) (pairs : list (nat * nat)) :
    NoDup (plain ++ map fst pairs ++ map snd pairs) ->
    (forall e, In e (cf I) -> In (tf e) (plain ++ map fst pairs ++ map snd pairs)) ->
    (forall f, In f plain -> plain_face f) ->
    (forall p, In p pairs ->
       fst p <> snd p /\
       exists cl cr sl sr, periodic_pair I (fst p) (snd p) cl cr sl sr /\
                           (sl = 1 \/ sl = -1)%Z /\ (sr = 1 \/ sr = -1)%Z) ->
    forall i j, sdivflux i j = sdivflux j i.
  Proof.
    intros Hnd Hcov Hplain Hpairs i j.
    rewrite !(sdivflux_faces _ _ _ Hnd Hcov). rewrite !lsum_app, !lsum_map.
    f_equal.
    - apply lsum_ext. intros f Hf. apply plain_symmetric. apply Hplain. exact Hf.
    - rewrite <- !lsum_plus. apply lsum_ext. intros p Hp.
      destruct (Hpairs p Hp) as [Hne [cl [cr [sl [sr [Hpp [Hsl Hsr]]]]]]].
      apply (pair_symmetric _ _ cl cr sl sr); assumption.
  Qed.
End Periodic.
