(* C06 (second part) — the indices reported after a Schur assembly are the indices the plain
   restricted assembly of the primary equations reports. *)
From Coq Require Import List ZArith Bool Arith Lia Sorted Permutation.
Import ListNotations.
From PP Require Import Model.C05 Proofs.C05 Model.C06 Proofs.C06 Model.C07 Proofs.C07
     Proofs.C07_blocks Model.C06_schur.

Section SchurIndexProofs.
  Context {V : Type}.
  Variable vzero : V.
  Variable vopp : V -> V.
  Variable eval : nat -> list (@prow V).

  Lemma sidx_loop_spec es a : EInv es -> sized eval es ->
    forall l, (forall kv, In kv l -> In kv (equations es)) -> NoDup (map fst l) ->
    forall st acc, (forall kv, In kv l -> dget acc (fst kv) = None) ->
    sidx_loop eval l (blocks_spec es a) st acc = acc ++ ind_from es a l st.
  Proof.
    intros HI Hsz. induction l as [|[name op] r IH]; intros Hin Hnd st acc Hacc.
    - cbn. rewrite app_nil_r. reflexivity.
    - assert (Hmem : In (name, op) (equations es)) by (apply Hin; left; auto).
      assert (Hname : In name (map fst (equations es))).
      { apply in_map_iff. exists (name, op). auto. }
      inversion Hnd as [|? ? Hn Hr]. subst.
      cbn [sidx_loop ind_from]. rewrite (dget_prim es a HI name Hname).
      destruct (kept a name) as [m|] eqn:Ek; cbn [option_map].
      + assert (Hlen : (match sel_of es name m with
                        | Some ip => length ip | None => length (eval op) end)
                       = length (local_rows es a name)).
        { unfold local_rows. rewrite Ek. destruct m as [gs|]; cbn [sel_of]; auto.
          rewrite (Hsz name op Hmem), seq_length. reflexivity. }
        rewrite Hlen. rewrite IH; auto.
        * rewrite dset_absent by (apply (Hacc (name, op)); left; auto).
          rewrite <- app_assoc. reflexivity.
        * intros. apply Hin. right. auto.
        * intros kv Hkv. rewrite dget_dset. destruct (Nat.eqb name (fst kv)) eqn:E.
          -- apply Nat.eqb_eq in E. exfalso. apply Hn. rewrite E. apply in_map. auto.
          -- apply Hacc. right. auto.
      + apply IH; auto.
        * intros. apply Hin. right. auto.
        * intros. apply Hacc. right. auto.
  Qed.

  Theorem schur_indices_spec es a :
    EInv es -> sized eval es -> schur_indices eval es (blocks_spec es a) = ind_spec es a.
  Proof.
    intros HI Hsz. unfold schur_indices, ind_spec.
    rewrite (sidx_loop_spec es a HI Hsz (equations es) (fun kv H => H) (ei_nodup es HI) 0 []);
      auto.
  Qed.

  (* a successful Schur assembly reports what assemble(equations=primary_equations) reports *)
  Theorem schur_step_indices g s ops pe pv es' :
    let es := efinal vzero vopp eval g s ops in
    sized eval es ->
    schur_step vzero vopp eval s es pe pv = (es', XDone) ->
    arg_ok es pe = true /\ aei es' = ind_spec es pe /\
    equations es' = equations es /\ comp es' = comp es.
  Proof.
    intros es Hsz. pose proof (efinal_EInv vzero vopp eval g s ops) as HI. fold es in HI.
    unfold schur_step. rewrite (parse_equations_spec es pe HI).
    destruct (arg_ok es pe); [|discriminate].
    destruct (complement es (blocks_spec es pe)); [|discriminate].
    destruct (@proj_cols s (parse s pv)); [|discriminate].
    destruct (Nat.eqb (length (blocks_spec es pe)) 0); [discriminate|].
    destruct (Nat.eqb (length l0) 0); [discriminate|].
    destruct (@proj_cols s _); [|discriminate].
    destruct (Nat.eqb (length l1) 0); [discriminate|].
    destruct (schur_blocks vzero vopp eval s es pe pv).
    - intro H. inversion H. cbn. rewrite (schur_indices_spec es pe HI Hsz). auto.
    - destruct (failing_single eval es (blocks_spec es pe) l); discriminate.
  Qed.
End SchurIndexProofs.

(* ------------------------------------------------------------------------------------ *)
(* update_equation and histories that contain updates and Schur assemblies *)
Lemma update_equation_EInv g es name op grids info :
  EInv es -> EInv (fst (update_equation g es name op grids info)).
Proof.
  intro HI. unfold update_equation.
  destruct (match grids with Some gs => Some gs
                        | None => option_map (map fst) (dget (comp es) name) end); auto.
  destruct (match info with Some i => Some i | None => dget (sinfo es) name end); auto.
  pose proof (remove_equation_EInv es name HI) as Hr.
  destruct (remove_equation es name) as [es1 [e|]]; cbn [fst] in *; auto.
  apply set_equation_EInv. exact Hr.
Qed.

(* a successful update = remove + set: the equation moves to the end of the insertion order
   and gets the image set_equation stores for the (given or previous) grids and size info *)
Theorem update_equation_layout g es name op grids info es' :
  update_equation g es name op grids info = (es', None) ->
  exists gs i,
    (match grids with Some x => Some x | None => option_map (map fst) (dget (comp es) name) end)
      = Some gs /\
    (match info with Some x => Some x | None => dget (sinfo es) name end) = Some i /\
    equations es' = ddel (equations es) name ++ [(name, op)] /\
    img_of es' name = img_spec g i (filter (fun d => domin d gs) (grid_order g)) 0.
Proof.
  unfold update_equation.
  destruct (match grids with Some gs => Some gs
                        | None => option_map (map fst) (dget (comp es) name) end) as [gs|];
    [|discriminate].
  destruct (match info with Some i => Some i | None => dget (sinfo es) name end) as [i|];
    [|discriminate].
  destruct (remove_equation es name) as [es1 [e|]] eqn:Er; [discriminate|].
  intro Hs. exists gs, i. split; auto. split; auto.
  destruct (set_equation_layout g es1 name op gs i es' Hs) as [H1 [H2 _]].
  split; auto. rewrite H2. f_equal.
  unfold remove_equation in Er. destruct (dhas (equations es) name); [|discriminate].
  destruct (dhas (comp es) name); inversion Er; reflexivity.
Qed.

Section SHistories.
  Context {V : Type}.
  Variable vzero : V.
  Variable vopp : V -> V.
  Variable eval : nat -> list (@prow V).

  Lemma schur_step_keeps s es pe pv :
    equations (fst (schur_step vzero vopp eval s es pe pv)) = equations es /\
    comp (fst (schur_step vzero vopp eval s es pe pv)) = comp es.
  Proof.
    unfold schur_step.
    destruct (parse_equations es pe); auto. destruct (complement es l); auto.
    destruct (@proj_cols s (parse s pv)); auto.
    destruct (Nat.eqb (length l) 0); auto. destruct (Nat.eqb (length l1) 0); auto.
    destruct (@proj_cols s _); auto. destruct (Nat.eqb (length l2) 0); auto.
    destruct (schur_blocks vzero vopp eval s es pe pv); auto.
    destruct (failing_single eval es l l0); auto.
  Qed.

  Lemma sstep_EInv g s es o : EInv es -> EInv (fst (sstep vzero vopp eval g s es o)).
  Proof.
    intro HI. destruct o as [o|pe pv|name op grids info]; cbn [sstep].
    - apply estep_EInv. exact HI.
    - destruct (schur_step_keeps s es pe pv) as [H1 H2].
      destruct HI as [Hn Hc]. constructor; rewrite ?H1, ?H2; auto.
    - pose proof (update_equation_EInv g es name op grids info HI) as H.
      destruct (update_equation g es name op grids info) as [es' [e|]]; exact H.
  Qed.

  Lemma srun_EInv g s : forall ops es, EInv es -> EInv (fst (srun vzero vopp eval g s es ops)).
  Proof.
    induction ops as [|o r IH]; intros es HI; cbn [srun]; auto.
    pose proof (sstep_EInv g s es o HI) as H.
    destruct (sstep vzero vopp eval g s es o) as [es' x]. cbn [fst] in H.
    specialize (IH es' H). destruct (srun vzero vopp eval g s es' r) as [es'' xs]. exact IH.
  Qed.

  Definition sfinal (g : mdgrid) (s : st) (ops : list sop) : est :=
    fst (srun vzero vopp eval g s einit ops).

  Theorem sfinal_EInv g s ops : EInv (sfinal g s ops).
  Proof. apply srun_EInv. apply EInv_init. Qed.

  Let dflt : @prow V := ([], vzero).

  (* the slice theorem (C06_rows) for any state satisfying the bookkeeping invariant *)
  Lemma slice_general s es a r cols n :
    EInv es -> sized eval es -> arg_ok es a = true ->
    projection_to s (asm_vars s r) = OProjM cols n ->
    let Af := map (fun rw => cut vzero cols (fst rw)) (full eval es) in
    let bf := map (fun rw => vopp (snd rw)) (full eval es) in
    let R := rows_spec es a in
    assemble vzero vopp eval s es true ENone r =
      (with_aei es (ind_spec es ENone), AJac Af bf (length cols)) /\
    assemble vzero vopp eval s es true a r =
      (with_aei es (ind_spec es a),
       AJac (map (fun i => nth i Af []) R) (map (fun i => nth i bf (vopp vzero)) R)
            (length cols)) /\
    StronglySorted lt R /\ Forall (fun i => i < length Af) R /\ length bf = length Af.
  Proof.
    intros HI Hsz Hok Hp Af bf R.
    destruct (assemble_jac_spec vzero vopp eval s es ENone r cols n HI Hsz eq_refl Hp)
      as [Hf _].
    destruct (assemble_jac_spec vzero vopp eval s es a r cols n HI Hsz Hok Hp)
      as [Ha [Hs Hb]].
    fold R in Ha, Hs, Hb.
    assert (Hlen : length Af = length (full eval es)) by (unfold Af; apply map_length).
    split; [|split; [|split; [|split]]]; auto.
    - rewrite Hf. rewrite (rows_all eval es Hsz). f_equal. f_equal.
      + apply (map_seq_nth (fun rw : @prow V => cut vzero cols (fst rw))).
      + apply (map_seq_nth (fun rw : @prow V => vopp (snd rw))).
    - rewrite Ha. f_equal. f_equal.
      + apply map_ext_in. intros i Hi. rewrite Forall_forall in Hb. apply Hb in Hi.
        unfold Af. rewrite (nth_map_lt _ _ _ dflt) by exact Hi. reflexivity.
      + apply map_ext_in. intros i Hi. rewrite Forall_forall in Hb. apply Hb in Hi.
        unfold bf. rewrite (nth_map_lt _ _ _ dflt) by exact Hi. reflexivity.
    - rewrite Hlen. exact Hb.
    - unfold bf, Af. rewrite !map_length. reflexivity.
  Qed.

  (* C06_rows / C06_parse / C06_rejected over histories that also contain update_equation
     and Schur assemblies *)
  Theorem thm_slice_s g s ops a r cols n :
    let es := sfinal g s ops in
    sized eval es -> arg_ok es a = true ->
    projection_to s (asm_vars s r) = OProjM cols n ->
    let Af := map (fun rw => cut vzero cols (fst rw)) (full eval es) in
    let bf := map (fun rw => vopp (snd rw)) (full eval es) in
    let R := rows_spec es a in
    assemble vzero vopp eval s es true ENone r =
      (with_aei es (ind_spec es ENone), AJac Af bf (length cols)) /\
    assemble vzero vopp eval s es true a r =
      (with_aei es (ind_spec es a),
       AJac (map (fun i => nth i Af []) R) (map (fun i => nth i bf (vopp vzero)) R)
            (length cols)) /\
    StronglySorted lt R /\ Forall (fun i => i < length Af) R /\ length bf = length Af.
  Proof. intro es. intros. apply slice_general with (n := n); auto. apply sfinal_EInv. Qed.

  Theorem thm_parse_s g s ops a :
    let es := sfinal g s ops in
    parse_equations es a = if arg_ok es a then inl (blocks_spec es a) else inr ValueErr.
  Proof. intro es. apply parse_equations_spec. apply sfinal_EInv. Qed.

  Theorem thm_schur_indices_s g s ops pe pv es' :
    let es := sfinal g s ops in
    sized eval es ->
    schur_step vzero vopp eval s es pe pv = (es', XDone) ->
    arg_ok es pe = true /\ aei es' = ind_spec es pe.
  Proof.
    intros es Hsz. pose proof (sfinal_EInv g s ops) as HI. fold es in HI.
    unfold schur_step. rewrite (parse_equations_spec es pe HI).
    destruct (arg_ok es pe); [|discriminate].
    destruct (complement es (blocks_spec es pe)); [|discriminate].
    destruct (@proj_cols s (parse s pv)); [|discriminate].
    destruct (Nat.eqb (length (blocks_spec es pe)) 0); [discriminate|].
    destruct (Nat.eqb (length l0) 0); [discriminate|].
    destruct (@proj_cols s _); [|discriminate].
    destruct (Nat.eqb (length l1) 0); [discriminate|].
    destruct (schur_blocks vzero vopp eval s es pe pv).
    - intro H. inversion H. cbn. rewrite (schur_indices_spec eval es pe HI Hsz). auto.
    - destruct (failing_single eval es (blocks_spec es pe) l); discriminate.
  Qed.
End SHistories.

(* ------------------------------------------------------------------------------------ *)
(* the size hypothesis of the slice theorems as a decidable check (evaluated by the tie on
   the final state of every generated history) *)
Definition sizedb {V : Type} (eval : nat -> list (@prow V)) (es : est) : bool :=
  forallb (fun kv => Nat.eqb (length (eval (snd kv))) (esize es (fst kv))) (equations es).

Theorem sizedb_sound {V : Type} (eval : nat -> list (@prow V)) (es : est) :
  sizedb eval es = true <-> sized eval es.
Proof.
  unfold sizedb, sized. rewrite forallb_forall. split.
  - intros H name op Hin. specialize (H (name, op) Hin). apply Nat.eqb_eq in H. exact H.
  - intros H [name op] Hin. apply Nat.eqb_eq. apply H. exact Hin.
Qed.

Definition sized_final (g : mdgrid) (vops : list op) (t : evtab) (ops : list sop) : bool :=
  let s := final g vops in
  let n := num_dofs s in
  sizedb (eval_of n t) (sfinal 0%Z Z.opp (eval_of n t) g s ops).
