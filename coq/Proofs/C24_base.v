(* C24 — basic lemmas: grid ids, key lists, association lists. *)
From Coq Require Import List Arith Bool Lia Permutation Sorted.
Import ListNotations.
From PP Require Import Model.C24 Model.C24_spec.

(* ------------------------------------------------------------------ basics *)
Lemma geqb_eq a b : geqb a b = true <-> a = b.
Proof.
  unfold geqb. destruct a as [a1 a2], b as [b1 b2]; cbn [fst snd].
  rewrite andb_true_iff, !Nat.eqb_eq. split.
  - intros [H1 H2]; subst; reflexivity.
  - intros H; inversion H; auto.
Qed.

Lemma geqb_refl a : geqb a a = true.
Proof. apply geqb_eq; reflexivity. Qed.

Lemma geqb_neq a b : geqb a b = false <-> a <> b.
Proof.
  split.
  - intros H E. apply geqb_eq in E. congruence.
  - intros H. destruct (geqb a b) eqn:E; auto. apply geqb_eq in E. contradiction.
Qed.

Lemma geqb_sym a b : geqb a b = geqb b a.
Proof.
  destruct (geqb a b) eqn:E.
  - apply geqb_eq in E. subst. symmetry. apply geqb_refl.
  - apply geqb_neq in E. symmetry. apply geqb_neq. congruence.
Qed.

Ltac gcase a b :=
  let E := fresh "E" in
  destruct (geqb a b) eqn:E; [apply geqb_eq in E | apply geqb_neq in E].

Lemma gid_dec (a b : gid) : {a = b} + {a <> b}.
Proof. decide equality; apply Nat.eq_dec. Qed.

Lemma mem_In k l : mem k l = true <-> In k l.
Proof.
  induction l as [|x r IH]; cbn.
  - split; [discriminate | tauto].
  - rewrite orb_true_iff, IH, geqb_eq. tauto.
Qed.

Lemma mem_nIn k l : mem k l = false <-> ~ In k l.
Proof.
  rewrite <- mem_In. destruct (mem k l); split; congruence.
Qed.

Lemma neqb_true a b : neqb a b = true <-> a <> b.
Proof. unfold neqb. rewrite negb_true_iff. apply geqb_neq. Qed.

Lemma nodupb_NoDup l : nodupb l = true -> NoDup l.
Proof.
  induction l as [|x r IH]; cbn; intros H; constructor.
  - apply andb_true_iff in H. destruct H as [H _]. apply negb_true_iff in H.
    apply mem_nIn; exact H.
  - apply IH. apply andb_true_iff in H. tauto.
Qed.

Lemma nodup_app {A} (l1 l2 : list A) :
  NoDup l1 -> NoDup l2 -> (forall x, In x l1 -> ~ In x l2) -> NoDup (l1 ++ l2).
Proof.
  induction l1 as [|a r IH]; cbn; intros H1 H2 H; auto.
  inversion H1; subst. constructor.
  - rewrite in_app_iff. intros [HH|HH]; [contradiction | apply (H a); auto].
  - apply IH; auto.
Qed.

(* ------------------------------------------------------------------ kadd / kdel *)
Lemma kadd_fresh k l : ~ In k l -> kadd k l = l ++ [k].
Proof. intros H. unfold kadd. apply mem_nIn in H. rewrite H. reflexivity. Qed.

Lemma filter_all {A} (P : A -> bool) l : (forall y, In y l -> P y = true) -> filter P l = l.
Proof.
  induction l as [|y r IH]; cbn; intros H; auto.
  rewrite (H y) by auto. f_equal. apply IH. intros; apply H; auto.
Qed.

Lemma kdel_filter k l : NoDup l -> kdel k l = filter (fun x => neqb x k) l.
Proof.
  induction l as [|x r IH]; cbn; intros H; auto. inversion H; subst.
  unfold neqb at 1. gcase x k; cbn.
  - subst. symmetry. apply filter_all. intros y Hy. apply neqb_true. intros ->. contradiction.
  - f_equal. apply IH; auto.
Qed.

Lemma in_filter_neq k l x : In x (filter (fun y => neqb y k) l) <-> In x l /\ x <> k.
Proof. rewrite filter_In, neqb_true. tauto. Qed.

Lemma kdel_nodup k l : NoDup l -> NoDup (kdel k l).
Proof. intros H. rewrite kdel_filter by auto. apply NoDup_filter; auto. Qed.

Lemma kdel_In k l x : NoDup l -> (In x (kdel k l) <-> In x l /\ x <> k).
Proof. intros H. rewrite kdel_filter by auto. apply in_filter_neq. Qed.

(* ------------------------------------------------------------------ dictionaries *)
Section DictLemmas.
  Context {V : Type}.
  Implicit Types (m : list (gid * V)).

  Lemma lookup_In k m v : lookup k m = Some v -> In (k, v) m.
  Proof.
    induction m as [|[k' v'] r IH]; cbn; [discriminate|].
    gcase k' k; intros H.
    - inversion H; subst. auto.
    - right; auto.
  Qed.

  Lemma lookup_keys k m : lookup k m <> None <-> In k (map fst m).
  Proof.
    induction m as [|[k' v'] r IH]; cbn; [tauto|].
    gcase k' k.
    - split; [auto | discriminate].
    - rewrite IH. split; [auto | intros [?|?]; [contradiction | auto]].
  Qed.

  Lemma lookup_None k m : lookup k m = None <-> ~ In k (map fst m).
  Proof.
    rewrite <- lookup_keys. destruct (lookup k m); split; intro H.
    - discriminate.
    - exfalso; apply H; discriminate.
    - intro H2; apply H2; reflexivity.
    - reflexivity.
  Qed.

  Lemma In_lookup k v m : NoDup (map fst m) -> In (k, v) m -> lookup k m = Some v.
  Proof.
    induction m as [|[k' v'] r IH]; cbn; intros Hn Hi; [contradiction|].
    inversion Hn; subst. destruct Hi as [Hi|Hi].
    - inversion Hi; subst. rewrite geqb_refl. reflexivity.
    - gcase k' k.
      + subst. exfalso. apply H1. apply in_map_iff. exists (k, v); auto.
      + apply IH; auto.
  Qed.

  Lemma lookup_dset j k v m :
    lookup j (dset k v m) = if geqb k j then Some v else lookup j m.
  Proof.
    induction m as [|[k' v'] r IH]; cbn.
    - reflexivity.
    - gcase k' k; cbn.
      + subst. gcase k j; auto.
      + gcase k' j.
        * subst. gcase k j; [congruence | reflexivity].
        * exact IH.
  Qed.

  Lemma dset_fresh k v m : ~ In k (map fst m) -> dset k v m = m ++ [(k, v)].
  Proof.
    induction m as [|[k' v'] r IH]; cbn; intros H; auto.
    gcase k' k; [exfalso; apply H; auto|]. f_equal. apply IH. tauto.
  Qed.

  Lemma dset_keys_present k v m : In k (map fst m) -> map fst (dset k v m) = map fst m.
  Proof.
    induction m as [|[k' v'] r IH]; cbn; intros H; [contradiction|].
    gcase k' k; cbn; auto. f_equal. apply IH. destruct H; [contradiction|auto].
  Qed.

  Lemma ddel_keys k m : map fst (ddel k m) = kdel k (map fst m).
  Proof.
    induction m as [|[k' v'] r IH]; cbn; auto. gcase k' k; cbn; auto. f_equal; auto.
  Qed.

  Lemma lookup_ddel j k m :
    NoDup (map fst m) -> lookup j (ddel k m) = if geqb k j then None else lookup j m.
  Proof.
    induction m as [|[k' v'] r IH]; cbn; intros H.
    - destruct (geqb k j); reflexivity.
    - inversion H; subst. gcase k' k.
      + subst. gcase k j; auto. subst. apply lookup_None; auto.
      + cbn. gcase k' j.
        * subst. gcase k j; [congruence | reflexivity].
        * apply IH; auto.
  Qed.

  Lemma lookup_app j m k v :
    lookup j (m ++ [(k, v)]) =
    match lookup j m with Some w => Some w | None => if geqb k j then Some v else None end.
  Proof.
    induction m as [|[k' v'] r IH]; cbn; auto. gcase k' j; auto.
  Qed.

  Lemma lookup_filter j (P : gid * V -> bool) m :
    NoDup (map fst m) ->
    lookup j (filter P m) =
    match lookup j m with Some w => if P (j, w) then Some w else None | None => None end.
  Proof.
    induction m as [|[k' v'] r IH]; cbn; intros H; auto. inversion H; subst.
    destruct (P (k', v')) eqn:EP; cbn.
    - gcase k' j; [subst; rewrite EP; reflexivity | apply IH; auto].
    - gcase k' j.
      + subst. rewrite EP. rewrite IH by auto.
        assert (Hn : lookup j r = None) by (apply lookup_None; auto). rewrite Hn. reflexivity.
      + apply IH; auto.
  Qed.

  Lemma map_fst_filter (P : gid * V -> bool) (Q : gid -> bool) m :
    (forall e, In e m -> P e = Q (fst e)) -> map fst (filter P m) = filter Q (map fst m).
  Proof.
    induction m as [|e r IH]; cbn; intros H; auto.
    rewrite (H e) by auto. destruct (Q (fst e)); cbn; [f_equal|]; apply IH; intros; apply H; auto.
  Qed.
End DictLemmas.

Lemma lookup_map_val {V W} (f : V -> W) j (m : list (gid * V)) :
  lookup j (map (fun e => (fst e, f (snd e))) m) = option_map f (lookup j m).
Proof.
  induction m as [|[k v] r IH]; cbn; auto. gcase k j; auto.
Qed.
