(* C24 — argsort_grids: the listing is a sorted permutation. *)
From Coq Require Import List Arith Bool Lia Permutation Sorted.
Import ListNotations.
From PP Require Import Model.C24 Model.C24_spec Proofs.C24_base.

(* decreasing dimension, then increasing creation id *)
Definition glt (a b : gid) : Prop := fst b < fst a \/ (fst a = fst b /\ snd a < snd b).
Definition idle (a b : gid) : Prop := snd a <= snd b.

Lemma ins_id_perm x l : Permutation (ins_id x l) (x :: l).
Proof.
  induction l as [|y r IH]; cbn; auto.
  destruct (snd x <=? snd y); auto.
  eapply perm_trans; [apply perm_skip; exact IH | apply perm_swap].
Qed.

Lemma isort_perm l : Permutation (isort l) l.
Proof.
  induction l as [|x r IH]; cbn; auto.
  eapply perm_trans; [apply ins_id_perm | apply perm_skip; exact IH].
Qed.

Lemma ins_id_sorted x l : StronglySorted idle l -> StronglySorted idle (ins_id x l).
Proof.
  induction l as [|y r IH]; cbn; intros H.
  - constructor; auto.
  - inversion H as [|? ? Hr Hy]; subst. destruct (snd x <=? snd y) eqn:E.
    + apply Nat.leb_le in E. constructor; auto. constructor; auto.
      eapply Forall_impl; [|exact Hy]. unfold idle. intros; lia.
    + apply Nat.leb_gt in E. constructor; auto.
      eapply Permutation_Forall; [symmetry; apply ins_id_perm|].
      constructor; auto. unfold idle; lia.
Qed.

Lemma isort_sorted l : StronglySorted idle (isort l).
Proof. induction l; cbn; [constructor | apply ins_id_sorted; auto]. Qed.

Lemma sorted_strict d l :
  StronglySorted idle l -> NoDup l -> (forall x, In x l -> fst x = d) -> StronglySorted glt l.
Proof.
  induction 1 as [|x r Hs IH Hf]; intros Hn Hd; constructor.
  - inversion Hn; subst. apply IH; auto. intros; apply Hd; right; auto.
  - inversion Hn as [|? ? Hx Hn']; subst. rewrite Forall_forall in *. intros y Hy.
    right. split.
    + rewrite (Hd x), (Hd y); auto; [right|left]; auto.
    + specialize (Hf y Hy). unfold idle in Hf.
      assert (snd x <> snd y).
      { intros E. apply Hx. assert (fst x = fst y) by (rewrite (Hd x), (Hd y); auto; [right|left]; auto).
        destruct x, y; cbn in *; subst; auto. }
      lia.
Qed.

Lemma sorted_app {A} (R : A -> A -> Prop) l1 l2 :
  StronglySorted R l1 -> StronglySorted R l2 ->
  (forall x y, In x l1 -> In y l2 -> R x y) -> StronglySorted R (l1 ++ l2).
Proof.
  induction l1 as [|a r IH]; cbn; intros H1 H2 H; auto.
  inversion H1; subst. constructor.
  - apply IH; auto.
  - rewrite Forall_forall in *. intros y Hy. apply in_app_iff in Hy. destruct Hy; auto.
Qed.

Lemma sort_grids_S k l : sort_grids (S k) l = isort (of_dim (S k) l) ++ sort_grids k l.
Proof. reflexivity. Qed.

Lemma filter_split {A} (P Q PQ : A -> bool) l :
  (forall x, In x l -> PQ x = P x || Q x) -> (forall x, In x l -> P x && Q x = false) ->
  Permutation (filter P l ++ filter Q l) (filter PQ l).
Proof.
  induction l as [|a r IH]; cbn; intros H1 H2; auto.
  assert (IH' : Permutation (filter P r ++ filter Q r) (filter PQ r))
    by (apply IH; intros; [apply H1 | apply H2]; auto).
  specialize (H1 a (or_introl eq_refl)). specialize (H2 a (or_introl eq_refl)).
  destruct (P a), (Q a); cbn in *; try discriminate; rewrite H1; cbn; auto.
  eapply perm_trans; [symmetry; apply Permutation_middle | apply perm_skip; auto].
Qed.

(* the general statement: what argsort_grids keeps and in which order *)
Lemma sort_grids_spec k l :
  NoDup l ->
  Permutation (sort_grids k l) (filter (fun g => fst g <=? k) l) /\
  StronglySorted glt (sort_grids k l).
Proof.
  intros Hn. induction k as [|k [IHp IHs]].
  - unfold sort_grids; cbn [dims_down flat_map]. rewrite app_nil_r. split.
    + eapply perm_trans; [apply isort_perm|]. unfold of_dim.
      erewrite filter_ext; [reflexivity|]. intros a; cbn.
      destruct (fst a); reflexivity.
    + apply (sorted_strict 0).
      * apply isort_sorted.
      * eapply Permutation_NoDup; [symmetry; apply isort_perm|]. apply NoDup_filter; auto.
      * intros x Hx. eapply Permutation_in in Hx; [|apply isort_perm].
        unfold of_dim in Hx. apply filter_In in Hx. destruct Hx as [_ Hx].
        apply Nat.eqb_eq in Hx; auto.
  - rewrite sort_grids_S. split.
    + eapply perm_trans; [apply Permutation_app; [apply isort_perm | exact IHp]|].
      unfold of_dim. apply filter_split; intros x _.
      * destruct (fst x =? S k) eqn:E1, (fst x <=? k) eqn:E2, (fst x <=? S k) eqn:E3;
          try reflexivity;
          repeat match goal with
                 | H : (_ =? _) = true |- _ => apply Nat.eqb_eq in H
                 | H : (_ =? _) = false |- _ => apply Nat.eqb_neq in H
                 | H : (_ <=? _) = true |- _ => apply Nat.leb_le in H
                 | H : (_ <=? _) = false |- _ => apply Nat.leb_gt in H
                 end; lia.
      * destruct (fst x =? S k) eqn:E1, (fst x <=? k) eqn:E2; try reflexivity.
        apply Nat.eqb_eq in E1. apply Nat.leb_le in E2. lia.
    + apply sorted_app; auto.
      * apply (sorted_strict (S k)).
        -- apply isort_sorted.
        -- eapply Permutation_NoDup; [symmetry; apply isort_perm|]. apply NoDup_filter; auto.
        -- intros x Hx. eapply Permutation_in in Hx; [|apply isort_perm].
           unfold of_dim in Hx. apply filter_In in Hx. destruct Hx as [_ Hx].
           apply Nat.eqb_eq in Hx; auto.
      * intros x y Hx Hy. left.
        eapply Permutation_in in Hx; [|apply isort_perm].
        unfold of_dim in Hx. apply filter_In in Hx. destruct Hx as [_ Hx]. apply Nat.eqb_eq in Hx.
        eapply Permutation_in in Hy; [|exact IHp].
        apply filter_In in Hy. destruct Hy as [_ Hy]. apply Nat.leb_le in Hy. lia.
Qed.

Lemma dim_max_ge x s : In x s -> fst x <= dim_max s.
Proof.
  unfold dim_max. induction s as [|y r IH]; cbn; intros H; [contradiction|].
  destruct H as [->|H]; [lia | specialize (IH H); lia].
Qed.

Lemma sort_grids_full k l :
  NoDup l -> (forall x, In x l -> fst x <= k) ->
  Permutation (sort_grids k l) l /\ StronglySorted glt (sort_grids k l).
Proof.
  intros Hn Hd. destruct (sort_grids_spec k l Hn) as [Hp Hs]. split; auto.
  rewrite filter_all in Hp; auto. intros y Hy. apply Nat.leb_le. auto.
Qed.

Lemma sort_grids_In k l x : NoDup l -> In x (sort_grids k l) -> In x l.
Proof.
  intros Hn Hx. destruct (sort_grids_spec k l Hn) as [Hp _].
  eapply Permutation_in in Hx; [|exact Hp]. apply filter_In in Hx. tauto.
Qed.

Lemma sort_grids_In_iff k l x :
  NoDup l -> (In x (sort_grids k l) <-> In x l /\ fst x <= k).
Proof.
  intros Hn. destruct (sort_grids_spec k l Hn) as [Hp _]. split.
  - intros Hx. eapply Permutation_in in Hx; [|exact Hp]. apply filter_In in Hx.
    rewrite Nat.leb_le in Hx. exact Hx.
  - intros [H1 H2]. eapply Permutation_in; [symmetry; exact Hp|]. apply filter_In.
    rewrite Nat.leb_le. auto.
Qed.

(* argsort of a list of grids whose dimensions occur among the subdomains' *)
Lemma argsort_ok s l :
  NoDup l -> (l <> [] -> s <> []) -> (forall x, In x l -> fst x <= dim_max s) ->
  exists L, argsort s l = Ok L /\ Permutation L l /\ StronglySorted glt L.
Proof.
  intros Hn Hne Hd. unfold argsort. destruct s as [|s0 sr].
  - destruct l as [|x r].
    + exists []. repeat split; auto. constructor.
    + exfalso. apply Hne; [discriminate | reflexivity].
  - exists (sort_grids (dim_max (s0 :: sr)) l). split; auto. apply sort_grids_full; auto.
Qed.

Lemma glt_irrefl a : ~ glt a a.
Proof. unfold glt; lia. Qed.

Lemma glt_total a b : a <> b -> glt a b \/ glt b a.
Proof.
  intros H. unfold glt. destruct a as [a1 a2], b as [b1 b2]; cbn.
  destruct (Nat.lt_trichotomy a1 b1) as [?|[?|?]]; try lia.
  subst. destruct (Nat.lt_trichotomy a2 b2) as [?|[?|?]]; try lia. subst. congruence.
Qed.

(* sort_subdomain_tuple on two distinct present subdomains *)
Lemma sort_tuple_ok s a b :
  In a s -> In b s -> a <> b ->
  exists x y, sort_tuple s a b = Ok (x, y) /\ glt x y /\
              ((x, y) = (a, b) \/ (x, y) = (b, a)).
Proof.
  intros Ha Hb Hab. unfold sort_tuple.
  destruct (argsort_ok s [a; b]) as (L & HL & Hp & Hs).
  - constructor; [intros [?|[]]; congruence | constructor; [intros [] | constructor]].
  - intros _ ->. contradiction.
  - intros x [<-|[<-|[]]]; apply dim_max_ge; auto.
  - rewrite HL. apply Permutation_sym in Hp. apply Permutation_length_2_inv in Hp.
    destruct Hp as [-> | ->].
    + exists a, b. repeat split; auto. inversion Hs as [|? ? _ Hf]; subst.
      inversion Hf; auto.
    + exists b, a. repeat split; auto. inversion Hs as [|? ? _ Hf]; subst.
      inversion Hf; auto.
Qed.

(* ------------------------------------------------------------------ without NoDup *)
Lemma sort_grids_perm k l :
  Permutation (sort_grids k l) (filter (fun g => fst g <=? k) l).
Proof.
  induction k as [|k IHp].
  - unfold sort_grids; cbn [dims_down flat_map]. rewrite app_nil_r.
    eapply perm_trans; [apply isort_perm|]. unfold of_dim.
    erewrite filter_ext; [reflexivity|]. intros a; cbn. destruct (fst a); reflexivity.
  - rewrite sort_grids_S.
    eapply perm_trans; [apply Permutation_app; [apply isort_perm | exact IHp]|].
    unfold of_dim. apply filter_split; intros x _.
    + destruct (fst x =? S k) eqn:E1, (fst x <=? k) eqn:E2, (fst x <=? S k) eqn:E3;
        try reflexivity;
        repeat match goal with
               | H : (_ =? _) = true |- _ => apply Nat.eqb_eq in H
               | H : (_ =? _) = false |- _ => apply Nat.eqb_neq in H
               | H : (_ <=? _) = true |- _ => apply Nat.leb_le in H
               | H : (_ <=? _) = false |- _ => apply Nat.leb_gt in H
               end; lia.
    + destruct (fst x =? S k) eqn:E1, (fst x <=? k) eqn:E2; try reflexivity.
      apply Nat.eqb_eq in E1. apply Nat.leb_le in E2. lia.
Qed.

(* sort_subdomain_tuple on two present subdomains, possibly the same one *)
Lemma sort_tuple_gen s a b :
  In a s -> In b s ->
  exists x y, sort_tuple s a b = Ok (x, y) /\ (a <> b -> glt x y) /\
              ((x, y) = (a, b) \/ (x, y) = (b, a)).
Proof.
  intros Ha Hb. destruct (gid_dec a b) as [->|Hab].
  - exists b, b. split; [|split; [congruence | auto]].
    unfold sort_tuple, argsort. destruct s as [|s0 sr]; [destruct Hb|].
    pose proof (sort_grids_perm (dim_max (s0 :: sr)) [b; b]) as Hp.
    assert (E : (fst b <=? dim_max (s0 :: sr)) = true) by (apply Nat.leb_le; apply dim_max_ge; auto).
    cbn [filter] in Hp. rewrite E in Hp.
    apply Permutation_sym in Hp. apply Permutation_length_2_inv in Hp.
    destruct Hp as [-> | ->]; reflexivity.
  - destruct (sort_tuple_ok s a b Ha Hb Hab) as (x & y & H1 & H2 & H3).
    exists x, y. auto.
Qed.
