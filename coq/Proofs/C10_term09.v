(* C10 — termination measure of the C09 time loop (exact real arithmetic).  Used by
   Proofs/C10_term.v; imports only the C09 development.

   Every converged step either advances the clock by at least dt_min or lands exactly on the
   scheduled time it was shortened onto (and then aims at the next one), and at most
   recomp_max failed steps fit between two converged ones.  Hence the number of attempted
   time steps of ANY run is bounded by a number that depends only on the configuration. *)
From Coq Require Import List ZArith Bool Arith Lia Reals Lra.
Import ListNotations.
From PP Require Import Model.C09 Proofs.C09.
Local Open Scope R_scope.

Fixpoint count_conv (tr : list (event * state R * out R)) : nat :=
  match tr with
  | [] => 0
  | (Converged _, _, _) :: r => S (count_conv r)
  | (Failed, _, _) :: r => count_conv r
  end.

Fixpoint count_fail (tr : list (event * state R * out R)) : nat :=
  match tr with
  | [] => 0
  | (Converged _, _, _) :: r => count_fail r
  | (Failed, _, _) :: r => S (count_fail r)
  end.

Section Bound.
  Variable c : cfgR.
  Variable sched : list R.
  Hypothesis Hconst : constant c = false.
  Hypothesis Hmin : 0 < dt_min c.
  Hypothesis Hminmax : dt_min c <= dt_max c.
  Hypothesis Hrtol : 0 <= rtol c.
  Hypothesis Hatol : 0 <= atol c.
  Hypothesis Hlen : (2 <= length sched)%nat.
  Hypothesis Hnn : 0 <= s sched 0.
  Hypothesis Hsep : forall j, (S j <= n sched)%nat ->
                      s sched j + tol c (s sched (S j)) < s sched (S j).

  Notation sn := (s sched (n sched)).
  Notation dm := (dt_min c).

  (* the potential: remaining time in units of dt_min plus remaining scheduled times *)
  Definition phi (x : stateR) (j : nat) : R := (sn - time x) + (INR (n sched) - INR j) * dm.

  Lemma phi_nonneg x j : Inv c sched x j -> 0 <= phi x j.
  Proof.
    intros (Hj & _ & Hdt & Hle & _). unfold phi.
    pose proof (s_mono_le c sched Hrtol Hatol Hlen Hsep j (n sched) ltac:(lia) ltac:(lia)) as Hs.
    assert (INR j <= INR (n sched)) by (apply le_INR; lia).
    assert (0 <= (INR (n sched) - INR j) * dm) by (apply Rmult_le_pos; lra).
    lra.
  Qed.

  Lemma advance_ge j j' t : advance c sched j j' t -> INR j <= INR j'.
  Proof. intros [->|[-> _]]; [lra|]. rewrite S_INR. lra. Qed.

  Lemma bound evs : forall x j,
      Inv c sched x j -> (0 <= recomp x <= recomp_max c)%Z ->
      INR (count_conv (fst (driveR c sched x evs))) * dm <= phi x j + dm /\
      (Z.of_nat (count_fail (fst (driveR c sched x evs)))
       <= Z.of_nat (count_conv (fst (driveR c sched x evs))) * recomp_max c
          + (recomp_max c - recomp x) + 1)%Z.
  Proof.
    induction evs as [|ev r IH]; intros x j HI Hrc; pose proof (phi_nonneg x j HI) as Hphi.
    - cbn [drive]. destruct (finalR c sched x); cbn [fst count_conv count_fail INR];
        (split; [lra|lia]).
    - cbn [drive]. destruct (finalR c sched x) eqn:Hf; cbn [fst].
      { cbn [count_conv count_fail INR]. split; [lra|lia]. }
      rewrite Hconst. fold (stepped x).
      destruct ev as [k|].
      + destruct (finalR c sched (stepped x)) eqn:Hf1.
        * assert (E : computeR c sched (stepped x) (Some k) false = (stepped x, ONone)).
          { unfold compute_time_step. cbn [negb andb]. rewrite Hf1. reflexivity. }
          rewrite E. rewrite (drive_final c sched _ r Hf1). cbn [fst count_conv count_fail].
          change (INR 1) with 1. split; [lra|lia].
        * destruct (converged_step c sched Hconst Hmin Hminmax Hrtol Hatol Hlen Hnn Hsep
                                   x j k HI Hf1)
            as (x2 & j' & E & Et & _ & Erc & HI2 & Hadv).
          rewrite E. destruct (IH x2 j' HI2 ltac:(lia)) as [IH1 IH2].
          destruct (driveR c sched x2 r) as [tr st]. cbn [fst count_conv count_fail] in *.
          rewrite S_INR. split.
          -- (* the converged step pays for itself *)
             assert (Hpay : phi x2 j' + dm <= phi x j).
             { unfold phi. rewrite Et.
               pose proof (advance_ge _ _ _ Hadv) as Hge.
               destruct HI as (Hj & _ & Hdt & Hle & Hab & _ & Hcase).
               destruct Hcase as [Habout | Hlow].
               - (* shortened onto s j: the step lands on it and the cursor moves on *)
                 specialize (Hab Habout).
                 destruct Hadv as [-> | [-> _]].
                 + exfalso. destruct HI2 as (_ & _ & Hdt2 & Hle2 & _). lra.
                 + rewrite S_INR. nra.
               - assert ((INR (n sched) - INR j') * dm <= (INR (n sched) - INR j) * dm)
                   by (apply Rmult_le_compat_r; lra).
                 lra. }
             lra.
          -- rewrite Erc in IH2. nia.
      + destruct (failed_step c sched Hconst Hmin Hminmax Hrtol Hatol Hlen Hnn Hsep x j HI Hf)
          as [(e & E & He)|(x2 & j' & E & H1 & H2 & Et & _ & Erc & HI2 & Hadv)].
        * rewrite E. cbn [fst count_conv count_fail INR]. split; [lra|lia].
        * rewrite E. destruct (IH x2 j' HI2 ltac:(lia)) as [IH1 IH2].
          destruct (driveR c sched x2 r) as [tr st]. cbn [fst count_conv count_fail] in *.
          split.
          -- assert (Hpay : phi x2 j' <= phi x j).
             { unfold phi. rewrite Et. pose proof (advance_ge _ _ _ Hadv) as Hge.
               assert ((INR (n sched) - INR j') * dm <= (INR (n sched) - INR j) * dm)
                 by (apply Rmult_le_compat_r; lra).
               lra. }
             lra.
          -- rewrite Erc in IH2. lia.
  Qed.
End Bound.
