(* C47 — proofs: txt table round trip. (csv: Proofs/C47_csv.v) *)
From Coq Require Import List ZArith Bool Arith Lia.
Import ListNotations.
From PP Require Import Model.C47.

(* ------------------------------------------------------------------------------ *)
(* generic list facts                                                             *)
(* ------------------------------------------------------------------------------ *)
Lemma tabulate {A} (l : list A) (d : A) :
  map (fun i => nth i l d) (seq 0 (length l)) = l.
Proof.
  induction l as [|a l IH]; [reflexivity|].
  cbn [length seq map nth]. f_equal.
  rewrite <- seq_shift, map_map. exact IH.
Qed.

Lemma str_eqb_spec (a b : str) : str_eqb a b = true <-> a = b.
Proof.
  unfold str_eqb. revert b.
  induction a as [|x a IH]; intros [|y b]; cbn; split; intro H;
    try reflexivity; try discriminate.
  - apply andb_true_iff in H as [Hl H]. apply andb_true_iff in H as [Hxy H].
    apply Z.eqb_eq in Hxy. subst y. f_equal. apply IH.
    apply andb_true_iff. split; assumption.
  - injection H as -> ->. rewrite Z.eqb_refl. cbn.
    specialize (IH b). destruct IH as [_ IH]. specialize (IH eq_refl).
    apply andb_true_iff in IH as [Hl H]. rewrite Hl, H. reflexivity.
Qed.

Lemma str_eqb_refl a : str_eqb a a = true.
Proof. apply str_eqb_spec. reflexivity. Qed.

Lemma str_eqb_neq a b : a <> b -> str_eqb a b = false.
Proof.
  intro H. destruct (str_eqb a b) eqn:E; [|reflexivity].
  apply str_eqb_spec in E. contradiction.
Qed.

(* ------------------------------------------------------------------------------ *)
(* blank-separated tokens                                                         *)
(* ------------------------------------------------------------------------------ *)
Definition nows (t : str) : Prop := Forall (fun c => is_ws c = false) t.
Definition tok_ok (t : str) : Prop := t <> [] /\ nows t.

Lemma is_ws_SP : is_ws SP = true. Proof. reflexivity. Qed.
Lemma is_ws_NL : is_ws NL = true. Proof. reflexivity. Qed.

Lemma fold_nows t st :
  nows t -> fold_right split_step st t = (t ++ fst st, snd st).
Proof.
  intro H. induction H as [|c t Hc Ht IH]; cbn [fold_right app].
  - destruct st; reflexivity.
  - rewrite IH. unfold split_step at 1. rewrite Hc. reflexivity.
Qed.

Lemma split_tok t rest :
  tok_ok t ->
  fold_right split_step ([], []) (t ++ [SP] ++ rest)
  = (t, split_fin (fold_right split_step ([], []) rest)).
Proof.
  intros [Hne Hn]. rewrite fold_right_app. cbn [app fold_right].
  rewrite fold_nows by assumption.
  destruct (fold_right split_step ([], []) rest) as [cur tk].
  unfold split_step. rewrite is_ws_SP. cbn [fst snd split_fin].
  rewrite app_nil_r. reflexivity.
Qed.

Lemma split_flat toks rest :
  Forall tok_ok toks ->
  split_fin (fold_right split_step ([], []) (flat_sp toks ++ rest))
  = toks ++ split_fin (fold_right split_step ([], []) rest).
Proof.
  intro H. induction H as [|t toks Ht Hts IH]; [reflexivity|].
  unfold flat_sp in *. cbn [flat_map]. rewrite <- !app_assoc.
  rewrite (split_tok t _ Ht). cbn [split_fin].
  destruct t as [|c t]; [destruct Ht as [Hne _]; contradiction|].
  rewrite IH. reflexivity.
Qed.

Lemma split_ws_flat toks : Forall tok_ok toks -> split_ws (flat_sp toks) = toks.
Proof.
  intro H. unfold split_ws. rewrite <- (app_nil_r (flat_sp toks)).
  rewrite split_flat by assumption. cbn. apply app_nil_r.
Qed.

Lemma split_ws_flat_nl toks :
  Forall tok_ok toks -> split_ws (flat_sp toks ++ [NL]) = toks.
Proof.
  intro H. unfold split_ws. rewrite split_flat by assumption. cbn. apply app_nil_r.
Qed.

Lemma take_while_all p s : Forall (fun c => p c = true) s -> take_while p s = s.
Proof. intro H. induction H as [|c s Hc Hs IH]; cbn; [|rewrite Hc, IH]; reflexivity. Qed.

Lemma flat_sp_last toks : toks <> [] -> exists X, flat_sp toks = X ++ [SP].
Proof.
  induction toks as [|t toks IH]; [contradiction|]. intros _.
  unfold flat_sp in *. cbn [flat_map].
  destruct toks as [|t' toks].
  - exists t. cbn. rewrite app_nil_r. reflexivity.
  - destruct IH as [X HX]; [discriminate|]. rewrite HX.
    exists ((t ++ [SP]) ++ X). rewrite app_assoc. reflexivity.
Qed.

Lemma Forall_flat_sp (P : Z -> Prop) toks :
  P SP -> Forall (Forall P) toks -> Forall P (flat_sp toks).
Proof.
  intros HSP H. induction H as [|t toks Ht Hts IH]; [constructor|].
  unfold flat_sp in *. cbn [flat_map]. apply Forall_app. split; [|exact IH].
  apply Forall_app. split; [exact Ht|]. constructor; [exact HSP|constructor].
Qed.

(* ------------------------------------------------------------------------------ *)
(* txt                                                                            *)
(* ------------------------------------------------------------------------------ *)
Section Txt.
  Variable V : Type.
  Variable F : Type.
  Variable print : F -> V -> str.
  Variable parse : str -> option V.
  Variable v0 : V.

  Notation txtdata := (txtdata V F).

  (* one written value: a single non-empty blank-free token without '#' that parses
     back to the value (the value is exactly representable in its format) *)
  Definition value_ok (f : F) (v : V) : Prop :=
    tok_ok (print f v) /\ Forall (fun c => c <> HASH) (print f v)
    /\ parse (print f v) = Some v.

  Definition names_ok (names : list str) : Prop :=
    Forall tok_ok names /\ NoDup names /\
    match names with (c :: _) :: _ => c <> HASH | _ => False end.

  Definition table_ok (l : list txtdata) (n : nat) : Prop :=
    names_ok (map header l) /\
    Forall (fun d => length (array d) = n /\ Forall (value_ok (format d)) (array d)) l.

  Lemma export_ok l n :
    l <> [] -> Forall (fun d => length (array d) = n) l ->
    export_data_to_txt V F print v0 l
    = Ok (header_line V F l :: map (data_line V F print v0 l) (seq 0 n)).
  Proof.
    intros Hne Hl. unfold export_data_to_txt. destruct l as [|d0 l']; [contradiction|].
    assert (H0 : length (array d0) = n) by (inversion Hl; assumption).
    rewrite H0.
    replace (forallb _ (d0 :: l')) with true; [reflexivity|].
    symmetry. apply forallb_forall. intros d Hd.
    rewrite Forall_forall in Hl. rewrite (Hl d Hd). apply Nat.eqb_refl.
  Qed.

  Lemma read_header_ok l :
    names_ok (map header l) ->
    split_ws (rstrip (Z.eqb NL) (lstrip (fun c => Z.eqb c HASH || Z.eqb c SP) (header_line V F l)))
    = map header l.
  Proof.
    intros (Hok & _ & Hfirst). unfold header_line.
    remember (map header l) as names eqn:En.
    destruct names as [|[|c t] names']; try contradiction.
    assert (Hc : is_ws c = false).
    { inversion Hok as [|? ? [_ Hn] _]; subst. inversion Hn; assumption. }
    match goal with |- context [lstrip ?p ?s] =>
      assert (Hstrip : lstrip p s = flat_sp ((c :: t) :: names') ++ [NL]) end.
    { cbn [app lstrip]. change (Z.eqb HASH HASH) with true. cbn [orb].
      change (Z.eqb SP HASH || Z.eqb SP SP) with true. cbn iota.
      unfold flat_sp. cbn [flat_map app lstrip].
      replace (Z.eqb c HASH) with false by (symmetry; apply Z.eqb_neq; exact Hfirst).
      replace (Z.eqb c SP) with false; [reflexivity|].
      symmetry. apply Z.eqb_neq. intro; subst c. discriminate. }
    rewrite Hstrip.
    destruct (flat_sp_last ((c :: t) :: names')) as [X HX]; [discriminate|].
    unfold rstrip. rewrite HX. rewrite <- app_assoc. rewrite !rev_app_distr.
    cbn [rev app lstrip]. change (Z.eqb NL NL) with true. cbn iota.
    change (Z.eqb NL SP) with false. cbn iota.
    change (SP :: rev X) with (rev [SP] ++ rev X).
    rewrite <- rev_app_distr, rev_involutive, <- HX.
    apply split_ws_flat. exact Hok.
  Qed.

  Lemma parse_all_print (l : list txtdata) i :
    Forall (fun d => value_ok (format d) (nth i (array d) v0)) l ->
    parse_all V parse (map (fun d => print (format d) (nth i (array d) v0)) l)
    = Some (map (fun d => nth i (array d) v0) l).
  Proof.
    intro H. induction H as [|d l (_ & _ & Hp) Hl IH]; [reflexivity|].
    cbn [map parse_all]. rewrite Hp, IH. reflexivity.
  Qed.

  Lemma value_ok_nth (l : list txtdata) n i :
    i < n ->
    Forall (fun d => length (array d) = n /\ Forall (value_ok (format d)) (array d)) l ->
    Forall (fun d => value_ok (format d) (nth i (array d) v0)) l.
  Proof.
    intros Hi H. eapply Forall_impl; [|exact H]. intros d [Hlen Hv]. cbn beta.
    rewrite Forall_forall in Hv. apply Hv. apply nth_In. lia.
  Qed.

  Lemma line_tokens (l : list txtdata) n i :
    i < n ->
    Forall (fun d => length (array d) = n /\ Forall (value_ok (format d)) (array d)) l ->
    split_ws (take_while (fun c => negb (Z.eqb c HASH)) (data_line V F print v0 l i))
    = map (fun d => print (format d) (nth i (array d) v0)) l.
  Proof.
    intros Hi H. pose proof (value_ok_nth l n i Hi H) as Hv.
    unfold data_line. rewrite take_while_all.
    - apply split_ws_flat_nl. rewrite Forall_map.
      eapply Forall_impl; [|exact Hv]. intros d (Ht & _). exact Ht.
    - apply Forall_app. split; [|repeat constructor].
      apply Forall_flat_sp; [reflexivity|]. rewrite Forall_map.
      eapply Forall_impl; [|exact Hv]. intros d (_ & Hh & _). cbn beta.
      eapply Forall_impl; [|exact Hh]. intros c Hc. cbn beta.
      apply negb_true_iff. apply Z.eqb_neq. exact Hc.
  Qed.

  Lemma rows_ok (l : list txtdata) n :
    l <> [] ->
    Forall (fun d => length (array d) = n /\ Forall (value_ok (format d)) (array d)) l ->
    forall k m, k + m <= n ->
    filter (@nonempty str)
      (map (fun ln => split_ws (take_while (fun c => negb (Z.eqb c HASH)) ln))
           (map (data_line V F print v0 l) (seq k m)))
    = map (fun i => map (fun d => print (format d) (nth i (array d) v0)) l) (seq k m).
  Proof.
    intros Hne H k m. revert k. induction m as [|m IH]; intros k Hk; [reflexivity|].
    cbn [seq map filter]. rewrite (line_tokens l n k) by (assumption || lia).
    destruct l as [|d l']; [contradiction|]. cbn [map nonempty].
    f_equal. apply IH. lia.
  Qed.

  Lemma parse_rows_ok (l : list txtdata) n :
    Forall (fun d => length (array d) = n /\ Forall (value_ok (format d)) (array d)) l ->
    forall k m, k + m <= n ->
    parse_rows V parse
      (map (fun i => map (fun d => print (format d) (nth i (array d) v0)) l) (seq k m))
    = Some (map (fun i => map (fun d => nth i (array d) v0) l) (seq k m)).
  Proof.
    intros H k m. revert k. induction m as [|m IH]; intros k Hk; [reflexivity|].
    cbn [seq map parse_rows].
    rewrite parse_all_print by (apply (value_ok_nth l n); [lia|exact H]).
    rewrite IH by lia. reflexivity.
  Qed.

  (* transposing twice *)
  Lemma columns_back (cols : list (list V)) n :
    Forall (fun c => length c = n) cols ->
    map (fun j => map (fun r => nth j r v0)
                      (map (fun i => map (fun c => nth i c v0) cols) (seq 0 n)))
        (seq 0 (length cols))
    = cols.
  Proof.
    intro H.
    transitivity (map (fun j => nth j cols []) (seq 0 (length cols))); [|apply tabulate].
    apply map_ext_in. intros j Hj. apply in_seq in Hj.
    rewrite map_map.
    assert (Hlen : length (nth j cols []) = n).
    { rewrite Forall_forall in H. apply H. apply nth_In. lia. }
    transitivity (map (fun i => nth i (nth j cols []) v0) (seq 0 n));
      [|rewrite <- Hlen; apply tabulate].
    apply map_ext. intro i.
    replace v0 with ((fun c : list V => nth i c v0) []) at 1 by (destruct i; reflexivity).
    exact (map_nth (fun c : list V => nth i c v0) cols [] j).
  Qed.

  Lemma dset_fresh (d : list (str * list V)) k v :
    ~ In k (map fst d) -> dset V d k v = d ++ [(k, v)].
  Proof.
    induction d as [|[k' v'] d IH]; intro Hn; [reflexivity|].
    cbn [dset]. rewrite str_eqb_neq.
    - cbn [app]. f_equal. apply IH. intro Hi. apply Hn. right. exact Hi.
    - intro E. apply Hn. left. symmetry. exact E.
  Qed.

  Lemma dict_fold (kvs acc : list (str * list V)) :
    NoDup (map fst (acc ++ kvs)) ->
    fold_left (fun d nv => dset V d (fst nv) (snd nv)) kvs acc = acc ++ kvs.
  Proof.
    revert acc. induction kvs as [|[k v] kvs IH]; intros acc Hnd.
    - cbn. rewrite app_nil_r. reflexivity.
    - cbn [fold_left fst snd]. rewrite dset_fresh.
      + rewrite IH; rewrite <- app_assoc; [reflexivity|exact Hnd].
      + rewrite map_app in Hnd. cbn [map fst] in Hnd.
        apply NoDup_remove_2 in Hnd. intro Hi. apply Hnd. apply in_or_app. left. exact Hi.
  Qed.

  (* ---- the round trip ---- *)
  Theorem txt_roundtrip (l : list txtdata) n :
    l <> [] -> 1 <= n -> table_ok l n ->
    exists file,
      export_data_to_txt V F print v0 l = Ok file /\
      read_data_from_txt V parse v0 file = Ok (map (fun d => (header d, array d)) l).
  Proof.
    intros Hne Hn [Hnames Hcols].
    assert (Hlen : Forall (fun d => length (array d) = n) l).
    { eapply Forall_impl; [|exact Hcols]. intros d [H _]. exact H. }
    eexists. split; [apply (export_ok l n Hne Hlen)|].
    unfold read_data_from_txt.
    rewrite read_header_ok by exact Hnames.
    unfold loadtxt_unpack.
    rewrite (rows_ok l n Hne Hcols 0 n) by lia.
    destruct n as [|n]; [lia|].
    set (row := fun i => map (fun d => print (format d) (nth i (array d) v0)) l).
    assert (Hrows : map row (seq 0 (S n)) = row 0 :: map row (seq 1 n)) by reflexivity.
    cbv zeta. rewrite Hrows. cbv beta iota. rewrite <- Hrows.
    replace (forallb _ (map row (seq 0 (S n)))) with true.
    2:{ symmetry. apply forallb_forall. intros r Hr. apply in_map_iff in Hr as (i & <- & _).
        unfold row. rewrite !map_length. apply Nat.eqb_refl. }
    unfold row. rewrite (parse_rows_ok l (S n) Hcols 0 (S n)) by lia.
    rewrite map_length.
    assert (Hcolsback :
      map (fun j => map (fun r => nth j r v0)
                        (map (fun i => map (fun d => nth i (array d) v0) l) (seq 0 (S n))))
          (seq 0 (length l)) = map array l).
    { rewrite <- (map_length array l).
      rewrite <- (columns_back (map array l) (S n)) at 2.
      - apply map_ext. intro j. f_equal. apply map_ext. intro i.
        rewrite map_map. reflexivity.
      - rewrite Forall_map. exact Hlen. }
    rewrite Hcolsback.
    rewrite dict_fold.
    - cbn [app]. f_equal.
      clear. induction l as [|d l IH]; [reflexivity|]. cbn. f_equal. exact IH.
    - cbn [app]. destruct Hnames as (_ & Hnd & _).
      replace (map fst (combine (map header l) (map array l))) with (map header l); [exact Hnd|].
      clear. induction l as [|d l IH]; [reflexivity|]. cbn. f_equal. exact IH.
  Qed.

  (* a table without rows: numpy reports "no data" and hands back one empty column, so
     only the first name is returned (with an empty array) *)
  Theorem txt_no_rows (d0 : txtdata) (l' : list txtdata) :
    table_ok (d0 :: l') 0 ->
    exists file,
      export_data_to_txt V F print v0 (d0 :: l') = Ok file /\
      read_data_from_txt V parse v0 file = Ok [(header d0, [])].
  Proof.
    intros [Hnames Hcols].
    assert (Hlen : Forall (fun d => length (array d) = 0) (d0 :: l')).
    { eapply Forall_impl; [|exact Hcols]. intros d [H _]. exact H. }
    eexists. split; [apply (export_ok (d0 :: l') 0); [discriminate|exact Hlen]|].
    unfold read_data_from_txt.
    rewrite read_header_ok by exact Hnames.
    cbn [seq map loadtxt_unpack filter combine fold_left dset fst snd].
    destruct (map header l'); reflexivity.
  Qed.
End Txt.
