(* C25 — proofs.  Part A: the face split on the incidence model.  Part B: soundness of
   the boolean conformity certificate with respect to its Prop-level reading. *)
From Coq Require Import List QArith Qabs Bool Arith ZArith Lia.
Import ListNotations.
From PP Require Import Model.C29 Proofs.C29 Model.C25.
Open Scope Q_scope.

(* ================================================================== Part A *)
Definition tface (t : nat * nat * Z) : nat := fst (fst t).
Definition tcell (t : nat * nat * Z) : nat := snd (fst t).
Definition tsign (t : nat * nat * Z) : Z := snd t.

Lemma pos_nth : forall d f k, pos f d = Some k -> nth_error d k = Some f /\ (k < length d)%nat.
Proof.
  induction d as [|x r IH]; intros f k H; cbn [pos] in H; [discriminate|].
  destruct (f =? x)%nat eqn:E.
  - inversion H; subst. apply Nat.eqb_eq in E. subst. cbn. split; [reflexivity|lia].
  - destruct (pos f r) as [k'|] eqn:P; cbn in H; [|discriminate]. inversion H; subst.
    destruct (IH f k' P) as [H1 H2]. cbn. split; [exact H1|lia].
Qed.

Lemma pos_in : forall d f, In f d -> exists k, pos f d = Some k.
Proof.
  induction d as [|x r IH]; intros f H; [destruct H|]. cbn [pos].
  destruct (f =? x)%nat eqn:E; [exists 0%nat; reflexivity|].
  destruct H as [->|H]; [rewrite Nat.eqb_refl in E; discriminate|].
  destruct (IH f H) as [k P]. exists (S k). rewrite P. reflexivity.
Qed.

Lemma pos_none : forall d f, pos f d = None -> ~ In f d.
Proof.
  intros d f P H. destruct (pos_in d f H) as [k K]. congruence.
Qed.

Lemma nth_map_copy : forall (geom : list fgeom) d k f, nth_error d k = Some f ->
  nth k (map (fun f0 => nth f0 geom gdef) d) gdef = nth f geom gdef.
Proof.
  induction d as [|x r IH]; intros k f H; destruct k; cbn in *; try discriminate.
  - inversion H; subst. reflexivity.
  - apply IH. exact H.
Qed.

(* the new cell_faces of the Split branch *)
Definition relabel (nf0 : nat) (d : list nat) (left : nat -> bool) (cf : list (nat * nat * Z)) :=
  map (fun t => match pos (fst (fst t)) d with
                | Some k => if left (snd (fst t)) then ((nf0 + k)%nat, snd (fst t), snd t) else t
                | None => t
                end) cf.

Lemma ucc_split : forall g nf0 d left g2,
  update_cell_connectivity g nf0 d left = inr (g2, Split) ->
  g_cf g2 = relabel nf0 d left (g_cf g) /\ g_geom g2 = g_geom g /\ g_nf g2 = g_nf g /\
  g_tF g2 = g_tF g /\ g_tT g2 = g_tT g /\ g_tB g2 = g_tB g.
Proof.
  intros g nf0 d left g2 H. unfold update_cell_connectivity in H.
  destruct (_ || _); [inversion H|].
  destruct (negb _); [discriminate|]. destruct (negb _); [discriminate|].
  inversion H; subst. cbn. repeat split; reflexivity.
Qed.

(* A1: duplicate_faces appends exact copies of the geometry of the duplicated faces *)
Lemma dup_geometry : forall g fc g1 d k f,
  duplicate_faces g fc = (g1, d) -> length (g_geom g) = g_nf g ->
  nth_error d k = Some f ->
  nth (g_nf g + k) (g_geom g1) gdef = nth f (g_geom g) gdef /\
  (forall f', (f' < g_nf g)%nat -> nth f' (g_geom g1) gdef = nth f' (g_geom g) gdef) /\
  g_nf g1 = (g_nf g + length d)%nat /\ g_cf g1 = g_cf g.
Proof.
  intros g fc g1 d k f H L Hk. unfold duplicate_faces in H.
  destruct (filter (fun f0 => negb (has_tag g f0)) (usort (map snd fc))) as [|x r] eqn:E.
  - injection H as <- <-. destruct k; discriminate.
  - injection H as <- <-. cbn [g_geom g_nf g_cf]. split; [|split; [|split; reflexivity]].
    + rewrite app_nth2 by lia. rewrite L. replace (g_nf g + k - g_nf g)%nat with k by lia.
      apply (nth_map_copy (g_geom g) (x :: r) k f Hk).
    + intros f' Lf. rewrite app_nth1 by lia. reflexivity.
Qed.

(* A2: what the split does to the face-cell incidences *)
Lemma relabel_forward : forall nf0 d left cf f c s,
  In (f, c, s) cf ->
  (forall k, pos f d = Some k -> left c = true -> In ((nf0 + k)%nat, c, s) (relabel nf0 d left cf)) /\
  (pos f d = None \/ left c = false -> In (f, c, s) (relabel nf0 d left cf)).
Proof.
  intros nf0 d left cf f c s H. unfold relabel. split.
  - intros k P Lc. apply in_map_iff. exists (f, c, s). cbn [fst snd]. rewrite P, Lc. tauto.
  - intros Hc. apply in_map_iff. exists (f, c, s). cbn [fst snd]. split; [|exact H].
    destruct (pos f d) as [k|]; [|reflexivity]. destruct Hc as [Hc|Hc]; [discriminate|].
    rewrite Hc. reflexivity.
Qed.

Lemma relabel_backward : forall nf0 d left cf f' c s,
  (forall t, In t cf -> (tface t < nf0)%nat) ->
  In (f', c, s) (relabel nf0 d left cf) ->
  ((f' < nf0)%nat /\ In (f', c, s) cf /\ (In f' d -> left c = false)) \/
  (exists k f, f' = (nf0 + k)%nat /\ nth_error d k = Some f /\ In (f, c, s) cf /\ left c = true).
Proof.
  intros nf0 d left cf f' c s WF H. unfold relabel in H. apply in_map_iff in H.
  destruct H as [[[f0 c0] s0] [E Hin]]. cbn [fst snd] in E.
  pose proof (WF _ Hin) as Lf. unfold tface in Lf. cbn [fst] in Lf.
  destruct (pos f0 d) as [k|] eqn:P.
  - destruct (left c0) eqn:Lc; inversion E; subst.
    + right. exists k, f0. destruct (pos_nth _ _ _ P). tauto.
    + left. split; [exact Lf|]. split; [exact Hin|]. intros _. exact Lc.
  - inversion E; subst. left. split; [exact Lf|]. split; [exact Hin|].
    intro Hd. exfalso. apply (pos_none _ _ P Hd).
Qed.

(* the two faces of a duplicated pair keep neighbours on opposite sides, with the signs
   the undivided face had; on a well-formed grid (two neighbours of a face carry opposite
   signs) their outward normals sign * n are therefore opposite (same n by A1) *)
Lemma split_pair_opposite : forall nf0 d left cf k f c s c' s',
  (forall t, In t cf -> (tface t < nf0)%nat) ->
  (forall f c s c' s', In (f, c, s) cf -> In (f, c', s') cf -> c <> c' -> (s + s' = 0)%Z) ->
  nth_error d k = Some f -> NoDup d -> In f d ->
  In (f, c, s) (relabel nf0 d left cf) ->
  In ((nf0 + k)%nat, c', s') (relabel nf0 d left cf) ->
  left c = false /\ left c' = true /\ In (f, c, s) cf /\ In (f, c', s') cf /\ (s + s' = 0)%Z.
Proof.
  intros nf0 d left cf k f c s c' s' WF SG Hk ND Hf H1 H2.
  apply relabel_backward in H1; [|exact WF]. apply relabel_backward in H2; [|exact WF].
  destruct H1 as [[L1 [I1 N1]]|[k1 [f1 [E1 _]]]].
  2:{ exfalso. assert (f < nf0)%nat; [|lia].
      destruct H2 as [[L2 _]|[k2 [f2 [E2 [K2 [I2 _]]]]]]; [lia|].
      assert (k2 = k) by lia. subst. rewrite Hk in K2. inversion K2; subst.
      apply (WF _ I2). }
  destruct H2 as [[L2 _]|[k2 [f2 [E2 [K2 [I2 Lc2]]]]]]; [lia|].
  assert (k2 = k) by lia. subst k2. rewrite Hk in K2. inversion K2; subst f2.
  specialize (N1 Hf). split; [exact N1|]. split; [exact Lc2|]. split; [exact I1|]. split; [exact I2|].
  apply (SG f c s c' s' I1 I2). intro E. subst. congruence.
Qed.

Lemma filter_map_comm : forall {A} (p : A -> bool) (phi : A -> A) l,
  (forall x, p (phi x) = p x) -> filter p (map phi l) = map phi (filter p l).
Proof.
  intros A p phi l H. induction l as [|x r IH]; [reflexivity|]. cbn [map filter].
  rewrite H. destruct (p x); cbn [map]; rewrite IH; reflexivity.
Qed.

(* A3: every cell keeps its faces' geometry and signs (hence its volume and centre) *)
Lemma relabel_cells : forall nf0 d left geom0 cf c,
  length geom0 = nf0 ->
  (forall t, In t cf -> (tface t < nf0)%nat) ->
  let geom1 := geom0 ++ map (fun f => nth f geom0 gdef) d in
  map (fun t => (nth (tface t) geom1 gdef, tsign t))
      (filter (fun t => (tcell t =? c)%nat) (relabel nf0 d left cf)) =
  map (fun t => (nth (tface t) geom0 gdef, tsign t))
      (filter (fun t => (tcell t =? c)%nat) cf).
Proof.
  intros nf0 d left geom0 cf c L WF geom1. unfold relabel.
  rewrite filter_map_comm.
  2:{ intros [[f0 c0] s0]. unfold tcell. cbn [fst snd].
      destruct (pos f0 d); [destruct (left c0)|]; reflexivity. }
  rewrite map_map. apply map_ext_in. intros [[f0 c0] s0] Ht. apply filter_In in Ht.
  destruct Ht as [Ht _]. pose proof (WF _ Ht) as Lt. unfold tface in Lt. cbn [fst] in Lt.
  assert (Old : nth f0 geom1 gdef = nth f0 geom0 gdef)
    by (unfold geom1; rewrite app_nth1 by lia; reflexivity).
  cbn [fst snd]. destruct (pos f0 d) as [k|] eqn:P.
  - destruct (left c0).
    + unfold tface, tsign. cbn [fst snd]. f_equal.
      destruct (pos_nth _ _ _ P) as [Hk Lk]. unfold geom1. rewrite app_nth2 by lia.
      rewrite L. replace (nf0 + k - nf0)%nat with k by lia.
      apply (nth_map_copy geom0 d k f0 Hk).
    + unfold tface, tsign. cbn [fst snd]. rewrite Old. reflexivity.
  - unfold tface, tsign. cbn [fst snd]. rewrite Old. reflexivity.
Qed.

(* A4: the face-cell map couples every lower cell of a duplicated face to the face and
   to its copy, and to nothing else new *)
Lemma extend_fmap_spec : forall nf0 d fc c f',
  In (c, f') (extend_fmap nf0 d fc) <->
  In (c, f') fc \/ exists k f, f' = (nf0 + k)%nat /\ nth_error d k = Some f /\ In (c, f) fc.
Proof.
  intros nf0 d fc c f'. unfold extend_fmap. rewrite in_app_iff, in_flat_map. split.
  - intros [H|[[k f] [Hk H]]]; [left; exact H|right].
    apply in_map_iff in H. destruct H as [[c0 f0] [E H]]. apply filter_In in H.
    cbn [fst snd] in *. destruct H as [H Ef]. apply Nat.eqb_eq in Ef. subst f0.
    inversion E; subst. exists k, f. split; [reflexivity|]. split; [|exact H].
    apply (proj1 (in_indexed d k f)). exact Hk.
  - intros [H|[k [f [-> [Hk H]]]]]; [left; exact H|right].
    exists (k, f). split; [apply (proj2 (in_indexed d k f)); exact Hk|].
    apply in_map_iff. exists (c, f). cbn [fst snd]. split; [reflexivity|].
    apply filter_In. split; [exact H|]. cbn [snd]. apply Nat.eqb_refl.
Qed.

(* ================================================================== Part B *)
Definition QNear (x y : Q) : Prop := Qabs (x - y) <= ctol * (1 + Qabs y).

Inductive VNear : vec -> vec -> Prop :=
| VN_nil : VNear [] []
| VN_cons : forall x y a b, QNear x y -> VNear a b -> VNear (x :: a) (y :: b).

Definition VZero (a : vec) : Prop := Forall (fun x => Qabs x <= ctol) a.

Lemma qnear_sound : forall x y, qnear x y = true -> QNear x y.
Proof. intros x y H. apply Qle_bool_iff. exact H. Qed.

Lemma vnear_sound : forall a b, vnear a b = true -> VNear a b.
Proof.
  induction a as [|x a IH]; intros [|y b] H; cbn in H; try discriminate; [constructor|].
  apply andb_true_iff in H. destruct H as [H1 H2].
  constructor; [apply qnear_sound; exact H1|apply IH; exact H2].
Qed.

Lemma vzero_sound : forall a, vzero a = true -> VZero a.
Proof.
  induction a as [|x a IH]; intro H; [constructor|]. cbn in H.
  apply andb_true_iff in H. destruct H as [H1 H2].
  constructor; [apply Qle_bool_iff; exact H1|apply IH; exact H2].
Qed.

(* a lower-dimensional cell is conformingly coupled on [sides] sides *)
Definition LCellConf (sides : nat) (c : lcell) : Prop :=
  length (lc_faces c) = sides /\
  (forall f, In f (lc_faces c) ->
     VNear (hf_centre f) (lc_centre c) /\ QNear (hf_area f) (lc_vol c) /\
     hf_ncells f = 1%nat /\ hf_tag f = true) /\
  (sides = 2%nat -> exists f1 f2, lc_faces c = [f1; f2] /\ hf_id f1 <> hf_id f2 /\
                                  VZero (vadd (hf_nout f1) (hf_nout f2))).

Lemma lcell_sound : forall sides c, (sides = 1 \/ sides = 2)%nat ->
  lcell_ok sides c = true -> LCellConf sides c.
Proof.
  intros sides c Hs H. unfold lcell_ok in H.
  apply andb_true_iff in H. destruct H as [H H3]. apply andb_true_iff in H. destruct H as [H1 H2].
  apply Nat.eqb_eq in H1. split; [exact H1|]. split.
  - intros f Hf. rewrite forallb_forall in H2. specialize (H2 f Hf).
    apply andb_true_iff in H2. destruct H2 as [H2 T]. apply andb_true_iff in H2. destruct H2 as [H2 N].
    apply andb_true_iff in H2. destruct H2 as [V A]. apply Nat.eqb_eq in N.
    split; [apply vnear_sound; exact V|]. split; [apply qnear_sound; exact A|]. tauto.
  - intro E. rewrite E in H1. destruct (lc_faces c) as [|f1 [|f2 [|f3 r]]]; cbn in H1; try discriminate.
    apply andb_true_iff in H3. destruct H3 as [Z N]. exists f1, f2. split; [reflexivity|].
    split; [|apply vzero_sound; exact Z].
    intro E'. apply Nat.eqb_eq in E'. rewrite E' in N. discriminate.
Qed.

(* a mortar cell matches one lower cell and one of the host faces coupled to it *)
Definition MCellConf (cells : list lcell) (m : mcell) : Prop :=
  exists c f lc hf, mc_low m = [(c, 1)] /\ mc_face m = [(f, 1)] /\
    nth_error cells c = Some lc /\ In hf (lc_faces lc) /\ hf_id hf = f /\
    VNear (mc_centre m) (lc_centre lc) /\ QNear (mc_vol m) (lc_vol lc).

Lemma Qeq_bool_1 : forall w, Qeq_bool w 1 = true -> w == 1.
Proof. intros w H. apply Qeq_bool_iff. exact H. Qed.

Definition MCellConf' (cells : list lcell) (m : mcell) : Prop :=
  exists c wc f wf lc hf, mc_low m = [(c, wc)] /\ wc == 1 /\ mc_face m = [(f, wf)] /\ wf == 1 /\
    nth_error cells c = Some lc /\ In hf (lc_faces lc) /\ hf_id hf = f /\
    VNear (mc_centre m) (lc_centre lc) /\ QNear (mc_vol m) (lc_vol lc).

Lemma mcell_sound : forall cells m, mcell_ok cells m = true -> MCellConf' cells m.
Proof.
  intros cells m H. unfold mcell_ok in H.
  destruct (mc_low m) as [|[c wc] [|? ?]] eqn:EL; try discriminate.
  destruct (mc_face m) as [|[f wf] [|? ?]] eqn:EF; try discriminate.
  apply andb_true_iff in H. destruct H as [H H3]. apply andb_true_iff in H. destruct H as [W1 W2].
  destruct (nth_error cells c) as [lc|] eqn:EC; [|discriminate].
  apply andb_true_iff in H3. destruct H3 as [H3 Vv]. apply andb_true_iff in H3. destruct H3 as [Ex Vc].
  apply existsb_exists in Ex. destruct Ex as [hf [Hin Hid]]. apply Nat.eqb_eq in Hid.
  exists c, wc, f, wf, lc, hf. repeat split; try reflexivity; try assumption.
  - apply Qeq_bool_1; exact W1.
  - apply Qeq_bool_1; exact W2.
  - apply vnear_sound; exact Vc.
  - apply qnear_sound; exact Vv.
Qed.

Definition IfaceConf (it : iface) : Prop :=
  (if_sides it = 1 \/ if_sides it = 2)%nat /\
  (forall c, In c (if_cells it) -> LCellConf (if_sides it) c) /\
  (forall m, In m (if_mortar it) -> MCellConf' (if_cells it) m) /\
  length (if_mortar it) = (if_sides it * length (if_cells it))%nat /\
  (forall p, In p (if_pts it) -> on_fracture (if_frac it) p = true).

Definition TagsConf (tagged coupled : list nat) : Prop := forall f, In f tagged <-> In f coupled.

Definition Conforming (d : mdgdata) : Prop :=
  (forall it, In it (md_ifaces d) -> IfaceConf it) /\
  (forall h, In h (md_hosts d) -> TagsConf (fst h) (snd h)) /\
  QNear (qsum (md_vols d)) (md_domain d).

Lemma tags_sound : forall a b, tags_ok a b = true -> TagsConf a b.
Proof.
  intros a b H f. unfold tags_ok in H. apply andb_true_iff in H. destruct H as [H1 H2].
  rewrite forallb_forall in H1, H2. split; intro Hf.
  - specialize (H1 f Hf). apply existsb_exists in H1. destruct H1 as [x [Hx E]].
    apply Nat.eqb_eq in E. subst. exact Hx.
  - specialize (H2 f Hf). apply existsb_exists in H2. destruct H2 as [x [Hx E]].
    apply Nat.eqb_eq in E. subst. exact Hx.
Qed.

Lemma iface_sound : forall it, iface_ok it = true -> IfaceConf it.
Proof.
  intros it H. unfold iface_ok in H.
  apply andb_true_iff in H. destruct H as [H H5]. apply andb_true_iff in H. destruct H as [H H4].
  apply andb_true_iff in H. destruct H as [H H3]. apply andb_true_iff in H. destruct H as [H1 H2].
  assert (S : (if_sides it = 1 \/ if_sides it = 2)%nat).
  { apply orb_true_iff in H1. destruct H1 as [E|E]; apply Nat.eqb_eq in E; tauto. }
  split; [exact S|]. split; [|split; [|split]].
  - intros c Hc. rewrite forallb_forall in H2. apply lcell_sound; [exact S|apply H2; exact Hc].
  - intros m Hm. rewrite forallb_forall in H3. apply mcell_sound. apply H3. exact Hm.
  - unfold sides_ok in H4. apply andb_true_iff in H4. destruct H4 as [H4 _].
    apply andb_true_iff in H4. destruct H4 as [H4 _]. apply andb_true_iff in H4. destruct H4 as [H4 _].
    apply Nat.eqb_eq in H4. exact H4.
  - intros p Hp. rewrite forallb_forall in H5. apply H5. exact Hp.
Qed.

Lemma conform_sound : forall d, conform d = true -> Conforming d.
Proof.
  intros d H. unfold conform in H.
  apply andb_true_iff in H. destruct H as [H H3]. apply andb_true_iff in H. destruct H as [H1 H2].
  rewrite forallb_forall in H1, H2. split; [|split].
  - intros it Hit. apply iface_sound. apply H1. exact Hit.
  - intros h Hh. apply tags_sound. apply (H2 h Hh).
  - apply qnear_sound. exact H3.
Qed.

(* ------------------------------------------------------------------ requested geometry *)
Definition RequestConf (r : request) : Prop :=
  (forall m, In m (rq_meas r) -> QNear (qsum (fst m)) (snd m)) /\
  Forall2 (fun a b => QNear (fst a) (fst b) /\ QNear (snd a) (snd b)) (rq_span r) (rq_box r) /\
  rq_ngrids r = rq_nfracs r.

Lemma span_sound : forall a b, span_ok a b = true ->
  Forall2 (fun a b => QNear (fst a) (fst b) /\ QNear (snd a) (snd b)) a b.
Proof.
  induction a as [|x a IH]; intros [|y b] H; cbn in H; try discriminate; [constructor|].
  apply andb_true_iff in H. destruct H as [H H3]. apply andb_true_iff in H. destruct H as [H1 H2].
  constructor; [split; apply qnear_sound; assumption|apply IH; exact H3].
Qed.

Lemma conform_req_sound : forall d r, conform_req d r = true -> Conforming d /\ RequestConf r.
Proof.
  intros d r H. unfold conform_req in H. apply andb_true_iff in H. destruct H as [H1 H2].
  split; [apply conform_sound; exact H1|]. unfold request_ok in H2.
  apply andb_true_iff in H2. destruct H2 as [H2 N]. apply andb_true_iff in H2. destruct H2 as [M Sp].
  split; [|split].
  - intros m Hm. rewrite forallb_forall in M. apply qnear_sound. apply M. exact Hm.
  - apply span_sound. exact Sp.
  - apply Nat.eqb_eq. exact N.
Qed.

(* ------------------------------------------------------------------ fracture extents *)
Definition ExtentsConf (ext : list (list (Q * Q) * list (Q * Q))) : Prop :=
  forall e, In e ext ->
    Forall2 (fun a b => QNear (fst a) (fst b) /\ QNear (snd a) (snd b)) (fst e) (snd e).

Lemma conform_req2_sound : forall d r ext, conform_req2 d r ext = true ->
  Conforming d /\ RequestConf r /\ ExtentsConf ext.
Proof.
  intros d r ext H. unfold conform_req2 in H. apply andb_true_iff in H. destruct H as [H1 H2].
  destruct (conform_req_sound d r H1) as [A B]. split; [exact A|]. split; [exact B|].
  intros e He. unfold extents_ok in H2. rewrite forallb_forall in H2.
  apply span_sound. apply H2. exact He.
Qed.

(* ------------------------------------------------------------------ reduced sums *)
Lemma qsum_r_eq : forall l, qsum_r l == qsum l.
Proof.
  induction l as [|x r IH]; [reflexivity|]. cbn [qsum_r qsum fold_right].
  fold (qsum_r r). fold (qsum r). rewrite Qred_correct, IH. reflexivity.
Qed.

Lemma qnear_eq : forall x x' y, x == x' -> qnear x y = qnear x' y.
Proof.
  intros x x' y E. unfold qnear.
  destruct (Qle_bool (Qabs (x - y)) (ctol * (1 + Qabs y))) eqn:A;
    destruct (Qle_bool (Qabs (x' - y)) (ctol * (1 + Qabs y))) eqn:B; try reflexivity.
  - apply Qle_bool_iff in A. rewrite E in A. apply Qle_bool_iff in A. congruence.
  - apply Qle_bool_iff in B. rewrite <- E in B. apply Qle_bool_iff in B. congruence.
Qed.

Lemma conform_f_eq : forall d, conform_f d = conform d.
Proof. intro d. unfold conform_f, conform. rewrite (qnear_eq _ _ _ (qsum_r_eq (md_vols d))). reflexivity. Qed.

Lemma request_ok_f_eq : forall r, request_ok_f r = request_ok r.
Proof.
  intro r. unfold request_ok_f, request_ok. f_equal. f_equal.
  induction (rq_meas r) as [|m l IH]; [reflexivity|]. cbn [forallb].
  rewrite IH, (qnear_eq _ _ _ (qsum_r_eq (fst m))). reflexivity.
Qed.

Lemma conform_req3_eq : forall d r ext, conform_req3 d r ext = conform_req2 d r ext.
Proof.
  intros d r ext. unfold conform_req3, conform_req2, conform_req.
  rewrite conform_f_eq, request_ok_f_eq. reflexivity.
Qed.

Lemma conform_req3_sound : forall d r ext, conform_req3 d r ext = true ->
  Conforming d /\ RequestConf r /\ ExtentsConf ext.
Proof. intros d r ext H. rewrite conform_req3_eq in H. apply conform_req2_sound. exact H. Qed.

(* ------------------------------------------------------------------ coupling completeness *)
Definition IncidenceConf (inc : list (list nat * list nat)) : Prop :=
  forall p, In p inc -> TagsConf (fst p) (snd p).

Lemma conform_req4_sound : forall d r ext inc, conform_req4 d r ext inc = true ->
  Conforming d /\ RequestConf r /\ ExtentsConf ext /\ IncidenceConf inc.
Proof.
  intros d r ext inc H. unfold conform_req4 in H. apply andb_true_iff in H. destruct H as [H1 H2].
  destruct (conform_req3_sound d r ext H1) as [A [B C]].
  split; [exact A|]. split; [exact B|]. split; [exact C|].
  intros p Hp. unfold incidence_ok in H2. rewrite forallb_forall in H2.
  apply tags_sound. apply (H2 p Hp).
Qed.
