(* C35 — compressed-storage routines against the line / dense reference semantics. *)
From Coq Require Import List ZArith Bool Arith Lia.
Import ListNotations.
From PP Require Import Lib.Csr Model.C35 Proofs.C35.

(* ================================================================ segments *)

Lemma skipn_nth_cons : forall {E} (d : E) l a, a < length l -> skipn a l = nth a l d :: skipn (S a) l.
Proof.
  induction l as [|x l IH]; intros a H; simpl in H; [lia|].
  destruct a; [reflexivity|]. simpl. apply IH. lia.
Qed.

Lemma gather_seq : forall {E} (d : E) l n a, a + n <= length l ->
  gather d l (seq a n) = seg a (a + n) l.
Proof.
  intros E d l. unfold gather, seg. induction n as [|n IH]; intros a H.
  - replace (a + 0 - a) with 0 by lia. reflexivity.
  - replace (a + S n - a) with (S n) by lia. cbn [seq map].
    rewrite (skipn_nth_cons d l a) by lia. cbn [firstn]. f_equal.
    rewrite IH by lia. f_equal. lia.
Qed.

Lemma seg_length : forall {E} (l : list E) a b, a <= b -> b <= length l -> length (seg a b l) = b - a.
Proof. intros E l a b H1 H2. unfold seg. rewrite firstn_length, skipn_length. lia. Qed.

Lemma skipn_pre : forall {E} (pre l : list E), skipn (length pre) (pre ++ l) = l.
Proof. induction pre; simpl; auto. Qed.

Lemma firstn_pre : forall {E} (s l : list E), firstn (length s) (s ++ l) = s.
Proof. induction s; simpl; intros; [reflexivity|]. f_equal. auto. Qed.

Lemma rows_of_concat : forall {E} (segs : list (list E)) pre a, length pre = a ->
  rows_of (a :: cumsumN a (map (@length E) segs)) (pre ++ concat segs) = segs.
Proof.
  induction segs as [|s segs IH]; intros pre a H; [reflexivity|].
  cbn [map cumsumN concat].
  change (rows_of (a :: a + length s :: cumsumN (a + length s) (map (@length E) segs)) (pre ++ s ++ concat segs))
    with (seg a (a + length s) (pre ++ s ++ concat segs)
          :: rows_of (a + length s :: cumsumN (a + length s) (map (@length E) segs)) (pre ++ s ++ concat segs)).
  f_equal.
  - unfold seg. subst a. rewrite skipn_pre. replace (length pre + length s - length pre) with (length s) by lia.
    apply firstn_pre.
  - rewrite app_assoc. apply IH. rewrite app_length. lia.
Qed.

Lemma rows_of_nth : forall {E} (ip : list nat) (l : list E) i, S i < length ip ->
  nth i (rows_of ip l) [] = seg (nth i ip 0) (nth (S i) ip 0) l.
Proof.
  induction ip as [|a ip IH]; intros l i H; simpl in H; [lia|].
  destruct ip as [|b r]; simpl in H; [lia|].
  destruct i.
  - reflexivity.
  - change (rows_of (a :: b :: r) l) with (seg a b l :: rows_of (b :: r) l).
    cbn [nth]. apply IH. simpl. lia.
Qed.

Lemma rows_of_length : forall {E} (ip : list nat) (l : list E), length (rows_of ip l) = length ip - 1.
Proof.
  induction ip as [|a ip IH]; intros l; [reflexivity|].
  destruct ip as [|b r]; [reflexivity|].
  change (rows_of (a :: b :: r) l) with (seg a b l :: rows_of (b :: r) l).
  cbn [length]. rewrite IH. cbn [length]. generalize (length r). intros n. lia.
Qed.

(* ================================================================ well-formedness *)

Lemma mono_step : forall ip, monotone ip = true -> forall i, S i < length ip ->
  nth i ip 0 <= nth (S i) ip 0.
Proof.
  induction ip as [|a ip IH]; intros M i H; simpl in H; [lia|].
  destruct ip as [|b r]; simpl in H; [lia|].
  change (monotone (a :: b :: r)) with ((a <=? b) && monotone (b :: r)) in M.
  apply andb_true_iff in M. destruct M as [M1 M2]. apply Nat.leb_le in M1.
  destruct i; [exact M1|]. cbn [nth]. apply IH; [exact M2|simpl; lia].
Qed.

Lemma mono_last : forall ip, monotone ip = true -> forall i, i < length ip -> nth i ip 0 <= last ip 0.
Proof.
  induction ip as [|a ip IH]; intros M i H; simpl in H; [lia|].
  destruct ip as [|b r].
  - destruct i; simpl in *; lia.
  - change (monotone (a :: b :: r)) with ((a <=? b) && monotone (b :: r)) in M.
    apply andb_true_iff in M. destruct M as [M1 M2]. apply Nat.leb_le in M1.
    change (last (a :: b :: r) 0) with (last (b :: r) 0).
    destruct i.
    + cbn [nth]. specialize (IH M2 0). simpl in IH. simpl. lia.
    + cbn [nth]. apply IH; [exact M2|simpl in *; lia].
Qed.

Record wfP (A : csr) : Prop := {
  wf_len : length (indptr A) = S (nmaj A);
  wf_hd : hd 1 (indptr A) = 0;
  wf_mono : monotone (indptr A) = true;
  wf_last : last (indptr A) 0 = length (indices A);
  wf_data : length (data A) = length (indices A);
  wf_minor : forallb (fun j => j <? nmin A) (indices A) = true }.

Lemma wf_wfP : forall A, wf A = true -> wfP A.
Proof.
  intros A H. unfold wf in H.
  repeat (apply andb_true_iff in H; destruct H as [H ?]).
  constructor; try (apply Nat.eqb_eq; assumption); assumption.
Qed.

Lemma entries_length : forall A, wfP A -> length (entries A) = length (indices A).
Proof. intros A W. unfold entries. rewrite combine_length, (wf_data A W). lia. Qed.

Lemma line_bounds : forall A i, wfP A -> i < nmaj A ->
  nth i (indptr A) 0 <= nth (S i) (indptr A) 0 /\ nth (S i) (indptr A) 0 <= length (entries A).
Proof.
  intros A i W H. split.
  - apply mono_step; [apply (wf_mono A W)|rewrite (wf_len A W); lia].
  - rewrite (entries_length A W), <- (wf_last A W). apply mono_last; [apply (wf_mono A W)|rewrite (wf_len A W); lia].
Qed.

Lemma rows_length : forall A, wfP A -> length (rows A) = nmaj A.
Proof. intros A W. unfold rows. rewrite rows_of_length, (wf_len A W). lia. Qed.

(* ================================================================ slicing *)

Lemma gather_combine : forall {A B} (da : A) (db : B) l1 l2 ks, length l1 = length l2 ->
  combine (gather da l1 ks) (gather db l2 ks) = gather (da, db) (combine l1 l2) ks.
Proof.
  intros A B da db l1 l2 ks H. unfold gather. rewrite combine_map_same.
  apply map_ext. intros k. symmetry. apply combine_nth. exact H.
Qed.

Lemma gather_flat_map : forall {E X} (d : E) l (f : X -> list nat) xs,
  gather d l (flat_map f xs) = concat (map (fun x => gather d l (f x)) xs).
Proof.
  intros. induction xs as [|x xs IH]; simpl; [reflexivity|].
  unfold gather in *. rewrite map_app, IH. reflexivity.
Qed.

Lemma array_ind_spec : forall A ind,
  array_ind A ind
  = flat_map (fun i => seq (nth i (indptr A) 0) (nth (S i) (indptr A) 0 - nth i (indptr A) 0)) ind.
Proof.
  intros A ind. unfold array_ind. rewrite expand_nat_spec by (unfold gather; rewrite !map_length; reflexivity).
  unfold gather. rewrite map_map, combine_map_same.
  induction ind as [|i ind IH]; simpl; [reflexivity|]. rewrite IH. reflexivity.
Qed.

Lemma sliced_entries : forall A ind, wfP A -> Forall (fun i => i < nmaj A) ind ->
  gather (0, 0%Z) (entries A) (array_ind A ind) = concat (map (fun i => nth i (rows A) []) ind).
Proof.
  intros A ind W H. rewrite array_ind_spec, gather_flat_map. f_equal.
  apply map_ext_in. intros i Hi.
  rewrite Forall_forall in H. specialize (H i Hi).
  destruct (line_bounds A i W H) as [H1 H2].
  rewrite gather_seq by lia.
  unfold rows. rewrite rows_of_nth by (rewrite (wf_len A W); lia).
  f_equal. lia.
Qed.

Lemma sliced_lengths : forall A ind, wfP A -> Forall (fun i => i < nmaj A) ind ->
  map (fun p => snd p - fst p) (combine (gather 0 (indptr A) ind) (gather 0 (indptr A) (map S ind)))
  = map (@length _) (map (fun i => nth i (rows A) []) ind).
Proof.
  intros A ind W H. unfold gather. rewrite !map_map, combine_map_same, map_map.
  apply map_ext_in. intros i Hi. cbn [fst snd].
  rewrite Forall_forall in H. specialize (H i Hi).
  destruct (line_bounds A i W H) as [H1 H2].
  unfold rows. rewrite rows_of_nth by (rewrite (wf_len A W); lia).
  rewrite seg_length by lia. reflexivity.
Qed.

Lemma lines_ok_Forall : forall A ind, lines_ok A ind = true <-> Forall (fun i => i < nmaj A) ind.
Proof.
  intros A ind. unfold lines_ok. rewrite forallb_forall, Forall_forall.
  split; intros H i Hi; specialize (H i Hi); [apply Nat.ltb_lt|apply Nat.ltb_lt]; exact H.
Qed.

Theorem slice_rows : forall A ind, wf A = true -> Forall (fun i => i < nmaj A) ind ->
  exists S, slice_sparse_matrix A ind = Ok S /\
            nmaj S = length ind /\ nmin S = nmin A /\
            rows S = map (fun i => nth i (rows A) []) ind.
Proof.
  intros A ind Hwf H. pose proof (wf_wfP A Hwf) as W.
  unfold slice_sparse_matrix. rewrite (proj2 (lines_ok_Forall A ind) H). cbn [negb].
  eexists. split; [reflexivity|]. cbn [nmaj nmin]. split; [reflexivity|split; [reflexivity|]].
  unfold rows, entries. cbn [indptr indices data].
  rewrite gather_combine by (symmetry; apply (wf_data A W)).
  fold (entries A). rewrite sliced_entries, sliced_lengths by assumption.
  apply (rows_of_concat _ [] 0). reflexivity.
Qed.

Lemma slice_error : forall A ind, ~ Forall (fun i => i < nmaj A) ind ->
  slice_sparse_matrix A ind = Err IndexErr.
Proof.
  intros A ind H. unfold slice_sparse_matrix.
  destruct (lines_ok A ind) eqn:E; [|reflexivity].
  exfalso. apply H. apply lines_ok_Forall. exact E.
Qed.

Theorem slice_dense : forall A ind, wf A = true -> Forall (fun i => i < nmaj A) ind ->
  exists S, slice_sparse_matrix A ind = Ok S /\
            to_dense S = map (fun i => nth i (to_dense A) (dense_row (nmin A) [])) ind.
Proof.
  intros A ind Hwf H. destruct (slice_rows A ind Hwf H) as [S [E [_ [Hm Hr]]]].
  exists S. split; [exact E|]. unfold to_dense. rewrite Hr, Hm, map_map.
  apply map_ext. intros i. symmetry. apply (map_nth (dense_row (nmin A))).
Qed.

Theorem slice_indices_spec : forall A ind, wf A = true -> Forall (fun i => i < nmaj A) ind ->
  exists ix ai, slice_indices A ind = Ok (ix, ai) /\
    ix = map fst (concat (map (fun i => nth i (rows A) []) ind)) /\
    ai = flat_map (fun i => seq (nth i (indptr A) 0) (nth (S i) (indptr A) 0 - nth i (indptr A) 0)) ind.
Proof.
  intros A ind Hwf H. pose proof (wf_wfP A Hwf) as W.
  unfold slice_indices. rewrite (proj2 (lines_ok_Forall A ind) H). cbn [negb].
  eexists. eexists. split; [reflexivity|]. split; [|apply array_ind_spec].
  rewrite <- sliced_entries by assumption. unfold entries, gather. rewrite map_map.
  apply map_ext. intros k. rewrite combine_nth by (symmetry; apply (wf_data A W)). reflexivity.
Qed.

(* ================================================================ stacking *)

Lemma rows_of_shift : forall {E} (ip : list nat) (pre l : list E),
  rows_of (map (fun p => p + length pre) ip) (pre ++ l) = rows_of ip l.
Proof.
  induction ip as [|a ip IH]; intros pre l; [reflexivity|].
  destruct ip as [|b r]; [reflexivity|].
  change (rows_of (map (fun p => p + length pre) (a :: b :: r)) (pre ++ l))
    with (seg (a + length pre) (b + length pre) (pre ++ l)
          :: rows_of (map (fun p => p + length pre) (b :: r)) (pre ++ l)).
  change (rows_of (a :: b :: r) l) with (seg a b l :: rows_of (b :: r) l).
  rewrite IH. f_equal. unfold seg.
  rewrite skipn_app, skipn_all2 by lia. cbn [app].
  f_equal; [lia|f_equal; lia].
Qed.

Lemma seg_app_l : forall {E} (l1 l2 : list E) a b, b <= length l1 -> seg a b (l1 ++ l2) = seg a b l1.
Proof.
  intros E l1 l2 a b H. unfold seg. rewrite skipn_app, firstn_app, skipn_length.
  replace (b - a - (length l1 - a)) with 0 by lia. cbn [firstn]. apply app_nil_r.
Qed.

Lemma rows_of_app_l : forall {E} (ipA : list nat) (l1 l2 : list E) tail,
  ipA <> [] -> monotone ipA = true -> last ipA 0 <= length l1 ->
  rows_of (ipA ++ tail) (l1 ++ l2) = rows_of ipA l1 ++ rows_of (last ipA 0 :: tail) (l1 ++ l2).
Proof.
  induction ipA as [|a ip IH]; intros l1 l2 tail Hne M Hl; [congruence|].
  destruct ip as [|b r]; [reflexivity|].
  assert (Hb : b <= last (a :: b :: r) 0) by (apply (mono_last (a :: b :: r) M 1); simpl; lia).
  change (monotone (a :: b :: r)) with ((a <=? b) && monotone (b :: r)) in M.
  apply andb_true_iff in M. destruct M as [M1 M2].
  change ((a :: b :: r) ++ tail) with (a :: b :: (r ++ tail)).
  change (rows_of (a :: b :: r ++ tail) (l1 ++ l2))
    with (seg a b (l1 ++ l2) :: rows_of ((b :: r) ++ tail) (l1 ++ l2)).
  change (rows_of (a :: b :: r) l1) with (seg a b l1 :: rows_of (b :: r) l1).
  change (last (a :: b :: r) 0) with (last (b :: r) 0) in *.
  rewrite IH by (try discriminate; assumption).
  rewrite seg_app_l by lia. reflexivity.
Qed.

Lemma combine_app' : forall {A B} (a1 a2 : list A) (b1 b2 : list B), length a1 = length b1 ->
  combine (a1 ++ a2) (b1 ++ b2) = combine a1 b1 ++ combine a2 b2.
Proof.
  induction a1 as [|x a1 IH]; intros a2 [|y b1] b2 H; simpl in H; try discriminate; [reflexivity|].
  simpl. f_equal. apply IH. lia.
Qed.

Lemma stacked_rows : forall A B ents2, wfP A -> wfP B ->
  rows_of (indptr A ++ map (fun p => p + last (indptr A) 0) (tl (indptr B))) (entries A ++ ents2)
  = rows A ++ rows_of (indptr B) ents2.
Proof.
  intros A B ents2 WA WB.
  assert (HneA : indptr A <> []) by (pose proof (wf_len A WA) as L; destruct (indptr A); [discriminate|congruence]).
  rewrite rows_of_app_l; [|exact HneA|apply (wf_mono A WA)|rewrite (entries_length A WA), (wf_last A WA); lia].
  unfold rows. f_equal.
  pose proof (wf_len B WB) as LB. pose proof (wf_hd B WB) as HB.
  destruct (indptr B) as [|z ipB']; [discriminate|]. cbn [hd] in HB. subst z. cbn [tl].
  rewrite (wf_last A WA), <- (entries_length A WA).
  change (length (entries A) :: map (fun p => p + length (entries A)) ipB')
    with (map (fun p => p + length (entries A)) (0 :: ipB')).
  apply rows_of_shift.
Qed.

Theorem stack_mat_rows : forall A B, wf A = true -> wf B = true -> nmin A = nmin B ->
  exists C, stack_mat A B = Ok C /\ nmin C = nmin A /\ rows C = rows A ++ rows B.
Proof.
  intros A B HA HB Hn. pose proof (wf_wfP A HA) as WA. pose proof (wf_wfP B HB) as WB.
  unfold stack_mat. rewrite (proj2 (Nat.eqb_eq _ _) Hn). cbn [negb].
  destruct (length (indptr B) =? 1) eqn:E.
  - exists A. split; [reflexivity|split; [reflexivity|]].
    apply Nat.eqb_eq in E. unfold rows at 3.
    destruct (indptr B) as [|z [|z' r]]; try discriminate. cbn [rows_of]. symmetry. apply app_nil_r.
  - eexists. split; [reflexivity|]. cbn [nmin]. split; [reflexivity|].
    unfold rows at 1, entries at 1. cbn [indptr indices data].
    rewrite combine_app' by (symmetry; apply (wf_data A WA)).
    fold (entries A). fold (entries B). apply stacked_rows; assumption.
Qed.

Theorem stack_mat_dense : forall A B, wf A = true -> wf B = true -> nmin A = nmin B ->
  exists C, stack_mat A B = Ok C /\ to_dense C = to_dense A ++ to_dense B.
Proof.
  intros A B HA HB Hn. destruct (stack_mat_rows A B HA HB Hn) as [C [E [Hm Hr]]].
  exists C. split; [exact E|]. unfold to_dense. rewrite Hr, Hm, map_app, Hn. reflexivity.
Qed.

Lemma stack_mat_mismatch : forall A B, nmin A <> nmin B -> stack_mat A B = Err ValueErr.
Proof. intros A B H. unfold stack_mat. apply Nat.eqb_neq in H. rewrite H. reflexivity. Qed.

(* ---- stack_diag *)

Definition shift_entry (k : nat) (e : nat * Z) : nat * Z := (fst e + k, snd e).

Lemma combine_map_l : forall {A B C} (g : A -> C) (l1 : list A) (l2 : list B),
  combine (map g l1) l2 = map (fun e => (g (fst e), snd e)) (combine l1 l2).
Proof. induction l1 as [|x l1 IH]; intros [|y l2]; simpl; try reflexivity. f_equal. apply IH. Qed.

Lemma rows_of_map : forall {E F} (f : E -> F) ip l, rows_of ip (map f l) = map (map f) (rows_of ip l).
Proof.
  induction ip as [|a ip IH]; intros l; [reflexivity|].
  destruct ip as [|b r]; [reflexivity|].
  change (rows_of (a :: b :: r) (map f l)) with (seg a b (map f l) :: rows_of (b :: r) (map f l)).
  change (rows_of (a :: b :: r) l) with (seg a b l :: rows_of (b :: r) l).
  cbn [map]. rewrite IH. f_equal. unfold seg. rewrite skipn_map, firstn_map. reflexivity.
Qed.

Theorem stack_diag_rows : forall A B, wf A = true -> wf B = true ->
  rows (stack_diag A B) = rows A ++ map (map (shift_entry (nmin A))) (rows B).
Proof.
  intros A B HA HB. pose proof (wf_wfP A HA) as WA. pose proof (wf_wfP B HB) as WB.
  unfold rows at 1, entries at 1, stack_diag. cbn [indptr indices data].
  rewrite combine_app' by (symmetry; apply (wf_data A WA)).
  fold (entries A). rewrite stacked_rows by assumption. f_equal.
  rewrite combine_map_l. unfold rows, entries. apply (rows_of_map (shift_entry (nmin A))).
Qed.

(* dense lines of the two diagonal blocks *)
Lemma entry_sum_out : forall r j, Forall (fun e => fst e <> j) r -> entry_sum j r = 0%Z.
Proof.
  induction 1 as [|e r He _ IH]; [reflexivity|]. simpl.
  apply Nat.eqb_neq in He. rewrite He. exact IH.
Qed.

Lemma entry_sum_shift : forall r k j, entry_sum (j + k) (map (shift_entry k) r) = entry_sum j r.
Proof.
  induction r as [|e r IH]; intros k j; [reflexivity|]. simpl. rewrite IH.
  destruct (Nat.eqb (fst e) j) eqn:E.
  - apply Nat.eqb_eq in E. replace (fst e + k =? j + k) with true by (symmetry; apply Nat.eqb_eq; lia). reflexivity.
  - apply Nat.eqb_neq in E. replace (fst e + k =? j + k) with false by (symmetry; apply Nat.eqb_neq; lia). reflexivity.
Qed.

Lemma zero_tail : forall r n, Forall (fun e => fst e < n) r ->
  forall m s, n <= s -> map (fun j => entry_sum j r) (seq s m) = repeat 0%Z m.
Proof.
  intros r n H. induction m as [|m IH]; intros s Hs; [reflexivity|]. cbn [seq map repeat].
  rewrite IH by lia. f_equal. apply entry_sum_out.
  apply Forall_forall. intros e He. rewrite Forall_forall in H. specialize (H e He). lia.
Qed.

Lemma dense_row_pad_r : forall r n m, Forall (fun e => fst e < n) r ->
  dense_row (n + m) r = dense_row n r ++ repeat 0%Z m.
Proof.
  intros r n m H. unfold dense_row. rewrite seq_app, map_app. f_equal.
  apply (zero_tail r n H). lia.
Qed.

Lemma dense_row_pad_l : forall r n m,
  dense_row (n + m) (map (shift_entry n) r) = repeat 0%Z n ++ dense_row m r.
Proof.
  intros r n m. unfold dense_row. rewrite seq_app, map_app. f_equal.
  - assert (G : forall k s, s + k <= n ->
              map (fun j => entry_sum j (map (shift_entry n) r)) (seq s k) = repeat 0%Z k).
    { induction k as [|k IH]; intros s Hs; [reflexivity|]. cbn [seq map repeat].
      rewrite IH by lia. f_equal. apply entry_sum_out.
      apply Forall_forall. intros e He. apply in_map_iff in He. destruct He as [e' [E _]].
      subst e. unfold shift_entry. cbn [fst]. lia. }
    apply G. lia.
  - cbn [Nat.add].
    replace (seq n m) with (map (fun k => n + k) (seq 0 m)) by (rewrite map_add_seq; f_equal; lia).
    rewrite map_map. apply map_ext. intros j. rewrite Nat.add_comm. apply entry_sum_shift.
Qed.

Lemma seg_In : forall {E} (l : list E) a b x, In x (seg a b l) -> In x l.
Proof.
  intros E l a b x H. unfold seg in H.
  rewrite <- (firstn_skipn a l). apply in_or_app. right.
  rewrite <- (firstn_skipn (b - a) (skipn a l)). apply in_or_app. left. exact H.
Qed.

Lemma rows_of_In : forall {E} ip (l : list E) row x, In row (rows_of ip l) -> In x row -> In x l.
Proof.
  induction ip as [|a ip IH]; intros l row x Hr Hx; [contradiction|].
  destruct ip as [|b r]; [contradiction|].
  change (rows_of (a :: b :: r) l) with (seg a b l :: rows_of (b :: r) l) in Hr.
  destruct Hr as [Hr|Hr]; [subst row; eapply seg_In; exact Hx|eapply IH; eassumption].
Qed.

Lemma rows_minor : forall A, wfP A -> Forall (Forall (fun e => fst e < nmin A)) (rows A).
Proof.
  intros A W. apply Forall_forall. intros row Hr. apply Forall_forall. intros e He.
  pose proof (rows_of_In _ _ _ _ Hr He) as Hin. unfold entries in Hin.
  destruct e as [j v]. apply in_combine_l in Hin. pose proof (wf_minor A W) as Hm.
  rewrite forallb_forall in Hm. apply Nat.ltb_lt. apply Hm. exact Hin.
Qed.

Theorem stack_diag_dense : forall A B, wf A = true -> wf B = true ->
  to_dense (stack_diag A B)
  = map (fun row => row ++ repeat 0%Z (nmin B)) (to_dense A)
    ++ map (fun row => repeat 0%Z (nmin A) ++ row) (to_dense B).
Proof.
  intros A B HA HB. pose proof (wf_wfP A HA) as WA.
  unfold to_dense at 1. rewrite stack_diag_rows by assumption.
  change (nmin (stack_diag A B)) with (nmin A + nmin B).
  rewrite map_app. unfold to_dense. rewrite !map_map. f_equal.
  - apply map_ext_in. intros row Hr. apply dense_row_pad_r.
    pose proof (rows_minor A WA) as Hm. rewrite Forall_forall in Hm. apply Hm. exact Hr.
  - apply map_ext. intros row. apply dense_row_pad_l.
Qed.
