(* C27 (extension) — soundness of the tie's matrix comparison [mat_eqb]. *)
From Coq Require Import List ZArith QArith Bool Arith Lia.
Import ListNotations.
From PP Require Import Model.C27.
Local Open Scope nat_scope.

Definition at_ij (i j : nat) (e : entry) : bool := (erow e =? i) && (ecol e =? j).

Lemma get_absent : forall A i j,
    existsb (at_ij i j) (ents A) = false -> get A i j = 0%Q.
Proof.
  intros A i j. unfold get. induction (ents A) as [|e l IH]; intros H; [reflexivity|].
  cbn [existsb] in H. apply orb_false_iff in H. destruct H as (He & Hl).
  cbn [fold_right]. unfold at_ij in He. rewrite He. now apply IH.
Qed.

Lemma mat_eqb_sound : forall A B,
    mat_eqb A B = true ->
    nr A = nr B /\ nc A = nc B /\ forall i j, Qeq (get A i j) (get B i j).
Proof.
  intros A B H. unfold mat_eqb in H.
  repeat (apply andb_prop in H; destruct H as (H & ?)).
  apply Nat.eqb_eq in H. split; [exact H|]. split; [now apply Nat.eqb_eq|].
  intros i j.
  destruct (existsb (at_ij i j) (ents A)) eqn:EA.
  - apply existsb_exists in EA. destruct EA as (e & He & Hij).
    unfold at_ij in Hij. apply andb_prop in Hij. destruct Hij as (Hi & Hj).
    apply Nat.eqb_eq in Hi. apply Nat.eqb_eq in Hj. subst.
    rewrite forallb_forall in H2. apply Qeq_bool_iff. now apply H2.
  - destruct (existsb (at_ij i j) (ents B)) eqn:EB.
    + apply existsb_exists in EB. destruct EB as (e & He & Hij).
      unfold at_ij in Hij. apply andb_prop in Hij. destruct Hij as (Hi & Hj).
      apply Nat.eqb_eq in Hi. apply Nat.eqb_eq in Hj. subst.
      rewrite forallb_forall in H1. apply Qeq_bool_iff. now apply H1.
    + rewrite (get_absent A i j EA), (get_absent B i j EB). reflexivity.
Qed.
