(* C37 — algebra of dense matrices (PP.Lib.Dense) over an arbitrary commutative ring. *)
From Coq Require Import List Arith Bool Lia Ring Permutation.
Import ListNotations.
From PP Require Import Lib.Dense.

Section DenseAlg.
  Variable T : Type.
  Variables (zero one : T) (add mul sub : T -> T -> T) (opp : T -> T).
  Hypothesis Rth : ring_theory zero one add mul sub opp eq.
  Add Ring Tring : Rth.

  Notation zeros := (zeros zero).
  Notation vadd := (vadd add).
  Notation vscale := (vscale mul).
  Notation vecmat := (vecmat zero add mul).
  Notation mat_mul := (mat_mul zero add mul).
  Notation unit_row := (unit_row zero one).
  Notation identity := (identity zero one).
  Notation mget := (mget zero).
  Notation diag2 := (diag2 zero).
  Notation block_diag := (block_diag zero).
  Notation sum_list := (sum_list zero add).

  Definition width (p : nat) (M : list (list T)) : Prop := Forall (fun r => length r = p) M.
  Definition shaped (m p : nat) (M : list (list T)) : Prop := length M = m /\ width p M.

  Lemma width_cons : forall p row M, width p (row :: M) -> length row = p /\ width p M.
  Proof. intros p row M W. inversion W; auto. Qed.

  (* ------------------------------------------------------------ vectors *)

  Lemma zeros_length : forall n, length (zeros n) = n.
  Proof. intros n. apply repeat_length. Qed.

  Lemma vadd_length : forall u v, length u = length v -> length (vadd u v) = length u.
  Proof. induction u as [|x u IH]; intros [|y v] H; simpl in *; try lia. f_equal. apply IH. lia. Qed.

  Lemma vscale_length : forall a v, length (vscale a v) = length v.
  Proof. intros. apply map_length. Qed.

  Lemma vadd_zeros_r : forall u, vadd u (zeros (length u)) = u.
  Proof. induction u as [|x u IH]; simpl; [reflexivity|]. f_equal; [ring|exact IH]. Qed.

  Lemma vadd_zeros_l : forall u, vadd (zeros (length u)) u = u.
  Proof. induction u as [|x u IH]; simpl; [reflexivity|]. f_equal; [ring|exact IH]. Qed.

  Lemma vadd_zeros_r' : forall u n, length u = n -> vadd u (zeros n) = u.
  Proof. intros u n H. subst n. apply vadd_zeros_r. Qed.

  Lemma vadd_zeros_l' : forall u n, length u = n -> vadd (zeros n) u = u.
  Proof. intros u n H. subst n. apply vadd_zeros_l. Qed.

  Lemma vadd_app : forall u1 v1 u2 v2, length u1 = length v1 ->
    vadd (u1 ++ u2) (v1 ++ v2) = vadd u1 v1 ++ vadd u2 v2.
  Proof. induction u1 as [|x u IH]; intros [|y v] u2 v2 H; simpl in *; try lia; [reflexivity|]. f_equal. apply IH. lia. Qed.

  Lemma vadd_interchange : forall x y z w,
    vadd (vadd x y) (vadd z w) = vadd (vadd x z) (vadd y w).
  Proof.
    induction x as [|a x IH]; intros [|b y] [|c z] [|d w]; simpl; try reflexivity.
    f_equal; [ring|apply IH].
  Qed.

  Lemma vadd_assoc : forall x y z, vadd x (vadd y z) = vadd (vadd x y) z.
  Proof. induction x as [|a x IH]; intros [|b y] [|c z]; simpl; try reflexivity. f_equal; [ring|apply IH]. Qed.

  Lemma vscale_add : forall a b r, vscale (add a b) r = vadd (vscale a r) (vscale b r).
  Proof. induction r as [|x r IH]; simpl; [reflexivity|]. f_equal; [ring|exact IH]. Qed.

  Lemma vscale_vadd : forall a u v, vscale a (vadd u v) = vadd (vscale a u) (vscale a v).
  Proof. induction u as [|x u IH]; intros [|y v]; simpl; try reflexivity. f_equal; [ring|apply IH]. Qed.

  Lemma vscale_vscale : forall a b r, vscale a (vscale b r) = vscale (mul a b) r.
  Proof. induction r as [|x r IH]; simpl; [reflexivity|]. f_equal; [ring|exact IH]. Qed.

  Lemma vscale_zeros : forall a n, vscale a (zeros n) = zeros n.
  Proof. induction n; simpl; [reflexivity|]. f_equal; [ring|exact IHn]. Qed.

  Lemma vscale_zero : forall r, vscale zero r = zeros (length r).
  Proof. induction r as [|x r IH]; simpl; [reflexivity|]. f_equal; [ring|exact IH]. Qed.

  Lemma vscale_one : forall r, vscale one r = r.
  Proof. induction r as [|x r IH]; simpl; [reflexivity|]. f_equal; [ring|exact IH]. Qed.

  Lemma vscale_app : forall a u v, vscale a (u ++ v) = vscale a u ++ vscale a v.
  Proof. intros. apply map_app. Qed.

  Lemma zeros_app : forall m n, zeros (m + n) = zeros m ++ zeros n.
  Proof. intros. apply repeat_app. Qed.

  (* ------------------------------------------------------------ vector . matrix *)

  Lemma vecmat_length : forall p r M, width p M -> length (vecmat p r M) = p.
  Proof.
    induction r as [|a r IH]; intros M W; [apply zeros_length|].
    destruct M as [|row M]; [apply zeros_length|].
    destruct (width_cons _ _ _ W) as [Hr WM]. subst p. cbn [Dense.vecmat].
    rewrite vadd_length; rewrite vscale_length; [reflexivity|]. rewrite IH; auto.
  Qed.

  Lemma vadd_zeros_same : forall n, vadd (zeros n) (zeros n) = zeros n.
  Proof. induction n; simpl; [reflexivity|]. f_equal; [ring|exact IHn]. Qed.

  Lemma vecmat_zeros : forall p k M, width p M -> vecmat p (zeros k) M = zeros p.
  Proof.
    induction k as [|k IH]; intros M W; [reflexivity|].
    destruct M as [|row M]; [reflexivity|].
    destruct (width_cons _ _ _ W) as [Hr WM]. subst p. cbn [Dense.zeros repeat Dense.vecmat].
    change (repeat zero k) with (zeros k). rewrite IH by exact WM.
    rewrite vscale_zero. apply vadd_zeros_same.
  Qed.

  Lemma vecmat_nil_r : forall p r, vecmat p r [] = zeros p.
  Proof. destruct r; reflexivity. Qed.

  Lemma vecmat_app : forall p r1 M1 r2 M2, length r1 = length M1 -> width p M1 -> width p M2 ->
    vecmat p (r1 ++ r2) (M1 ++ M2) = vadd (vecmat p r1 M1) (vecmat p r2 M2).
  Proof.
    induction r1 as [|a r1 IH]; intros [|row M1] r2 M2 HL W1 W2; simpl in HL; try lia.
    - cbn [app Dense.vecmat]. rewrite <- (vecmat_length p r2 M2 W2) at 2. symmetry. apply vadd_zeros_l.
    - destruct (width_cons _ _ _ W1) as [Hr WM]. subst p. cbn [app Dense.vecmat].
      rewrite IH by (auto; lia).
      apply vadd_assoc.
  Qed.

  Lemma vecmat_pad_r : forall p q r C, width p C ->
    vecmat (p + q) r (map (fun x => x ++ zeros q) C) = vecmat p r C ++ zeros q.
  Proof.
    induction r as [|a r IH]; intros C W; [apply zeros_app|].
    destruct C as [|row C]; [apply zeros_app|].
    destruct (width_cons _ _ _ W) as [Hr WC]. subst p. cbn [map Dense.vecmat].
    rewrite IH by exact WC. rewrite vscale_app, vscale_zeros.
    rewrite vadd_app; [rewrite vadd_zeros_same; reflexivity|].
    rewrite vscale_length, vecmat_length; auto.
  Qed.

  Lemma vecmat_pad_l : forall p q r C, width p C ->
    vecmat (q + p) r (map (fun x => zeros q ++ x) C) = zeros q ++ vecmat p r C.
  Proof.
    induction r as [|a r IH]; intros C W; [apply zeros_app|].
    destruct C as [|row C]; [apply zeros_app|].
    destruct (width_cons _ _ _ W) as [Hr WC]. subst p. cbn [map Dense.vecmat].
    rewrite IH by exact WC. rewrite vscale_app, vscale_zeros.
    rewrite vadd_app; [rewrite vadd_zeros_same; reflexivity|].
    rewrite !zeros_length. reflexivity.
  Qed.

  Lemma vecmat_vadd : forall p u v B, length u = length v ->
    vecmat p (vadd u v) B = vadd (vecmat p u B) (vecmat p v B).
  Proof.
    induction u as [|a u IH]; intros [|b v] B H; simpl in H; try lia.
    - cbn. symmetry. apply vadd_zeros_same.
    - destruct B as [|row B]; [cbn; symmetry; apply vadd_zeros_same|].
      cbn [Dense.vadd Dense.vecmat]. rewrite IH by lia.
      rewrite vscale_add. apply vadd_interchange.
  Qed.

  Lemma vecmat_vscale : forall p a u B, width p B ->
    vecmat p (vscale a u) B = vscale a (vecmat p u B).
  Proof.
    induction u as [|b u IH]; intros B W; [cbn; symmetry; apply vscale_zeros|].
    destruct B as [|row B]; [cbn; symmetry; apply vscale_zeros|].
    destruct (width_cons _ _ _ W) as [Hr WB]. subst p.
    change (vscale a (b :: u)) with (mul a b :: vscale a u). cbn [Dense.vecmat].
    rewrite IH by exact WB. rewrite vscale_vadd, vscale_vscale. reflexivity.
  Qed.

  Lemma width_mat_mul : forall p A B, width p B -> width p (mat_mul p A B).
  Proof.
    intros p A B W. unfold width, Dense.mat_mul. apply Forall_forall. intros r Hr.
    apply in_map_iff in Hr. destruct Hr as [x [Hx _]]. subst. apply vecmat_length. exact W.
  Qed.

  (* (r . A) . B = r . (A . B) *)
  Lemma vecmat_assoc : forall p q r A B, width q A -> width p B ->
    vecmat p (vecmat q r A) B = vecmat p r (mat_mul p A B).
  Proof.
    induction r as [|a r IH]; intros A B WA WB.
    - cbn. apply vecmat_zeros. exact WB.
    - destruct A as [|row A]; [cbn; apply vecmat_zeros; exact WB|].
      destruct (width_cons _ _ _ WA) as [Hr WA'].
      cbn [Dense.vecmat Dense.mat_mul map].
      rewrite vecmat_vadd by (rewrite vscale_length, (vecmat_length q); auto).
      rewrite vecmat_vscale by exact WB. rewrite IH by auto. reflexivity.
  Qed.

  Lemma mat_mul_assoc : forall p q A B C, width q B -> width p C ->
    mat_mul p (mat_mul q A B) C = mat_mul p A (mat_mul p B C).
  Proof.
    intros p q A B C WB WC. unfold Dense.mat_mul. rewrite map_map. apply map_ext.
    intros r. apply vecmat_assoc; assumption.
  Qed.

  (* ------------------------------------------------------------ identity *)

  Lemma unit_row_length : forall n i, length (unit_row n i) = n.
  Proof. intros. unfold Dense.unit_row. rewrite map_length, seq_length. reflexivity. Qed.

  Lemma width_identity : forall n, width n (identity n).
  Proof.
    intros n. apply Forall_forall. intros r Hr. apply in_map_iff in Hr.
    destruct Hr as [i [Hi _]]. subst. apply unit_row_length.
  Qed.

  Lemma identity_length : forall n, length (identity n) = n.
  Proof. intros. unfold Dense.identity. rewrite map_length, seq_length. reflexivity. Qed.

  Lemma map_all_zero : forall (f : nat -> T) l, (forall j, In j l -> f j = zero) ->
    map f l = zeros (length l).
  Proof.
    induction l as [|x l IH]; intros H; [reflexivity|]. cbn [map length Dense.zeros repeat].
    f_equal; [apply H; left; reflexivity|]. apply IH. intros j Hj. apply H. right. exact Hj.
  Qed.

  Lemma seq_shift_k : forall k n, map (fun j => k + j) (seq 0 n) = seq k n.
  Proof.
    induction k as [|k IH]; intros n; [apply map_id|].
    rewrite <- seq_shift, <- IH, map_map. reflexivity.
  Qed.

  Lemma unit_row_lo : forall k m i, i < k -> unit_row (k + m) i = unit_row k i ++ zeros m.
  Proof.
    intros k m i H. unfold Dense.unit_row. rewrite seq_app, map_app. f_equal.
    rewrite map_all_zero; [rewrite seq_length; reflexivity|].
    intros j Hj. apply in_seq in Hj. destruct (Nat.eqb_spec i j); [lia|reflexivity].
  Qed.

  Lemma unit_row_hi : forall k m i, unit_row (k + m) (k + i) = zeros k ++ unit_row m i.
  Proof.
    intros k m i. unfold Dense.unit_row. rewrite seq_app, map_app. f_equal.
    - rewrite map_all_zero; [rewrite seq_length; reflexivity|].
      intros j Hj. apply in_seq in Hj. destruct (Nat.eqb_spec (k + i) j); [lia|reflexivity].
    - cbn [plus]. rewrite <- (seq_shift_k k m), map_map. apply map_ext. intros j.
      destruct (Nat.eqb_spec i j); destruct (Nat.eqb_spec (k + i) (k + j)); try reflexivity; lia.
  Qed.

  Lemma identity_diag2 : forall k m, identity (k + m) = diag2 k m (identity k) (identity m).
  Proof.
    intros k m. unfold Dense.identity, Dense.diag2. rewrite seq_app, map_app. f_equal.
    - rewrite map_map. apply map_ext_in. intros i Hi. apply in_seq in Hi. apply unit_row_lo. lia.
    - cbn [plus]. rewrite map_map. rewrite <- (seq_shift_k k m), map_map. apply map_ext. intros i. apply unit_row_hi.
  Qed.

  (* e_i . M = row i of M *)
  Lemma vecmat_unit_row : forall p M n i, width p M -> length M = n -> i < n ->
    vecmat p (unit_row n i) M = nth i M (zeros p).
  Proof.
    intros p M. induction M as [|row M IH]; intros n i W L H; simpl in L; [lia|].
    destruct (width_cons _ _ _ W) as [Hr WM].
    destruct n as [|n]; [lia|]. injection L as L.
    unfold Dense.unit_row. cbn [seq map Dense.vecmat].
    destruct i as [|i].
    - cbn [Nat.eqb nth]. rewrite vscale_one.
      rewrite <- seq_shift, map_map.
      rewrite map_all_zero by (intros j _; reflexivity). rewrite seq_length.
      rewrite vecmat_zeros by exact WM. subst p. apply vadd_zeros_r.
    - cbn [Nat.eqb nth]. rewrite vscale_zero.
      rewrite <- seq_shift, map_map. cbn [Nat.eqb].
      change (map (fun x => if Nat.eqb i x then one else zero) (seq 0 n)) with (unit_row n i).
      rewrite IH by (auto; lia). rewrite Hr.
      assert (HL : length (nth i M (zeros p)) = p).
      { assert (Hi : i < length M) by lia. clear - WM Hi. revert i Hi.
        induction WM as [|r M Hr WM IHM]; intros i Hi; simpl in Hi; [lia|].
        destruct i; [exact Hr|]. apply IHM. lia. }
      rewrite <- HL at 1. apply vadd_zeros_l.
  Qed.

  Lemma map_seq_nth : forall {E} (l : list E) d, map (fun i => nth i l d) (seq 0 (length l)) = l.
  Proof.
    induction l as [|x l IH]; intros d; [reflexivity|].
    cbn [length seq map nth]. f_equal. rewrite <- seq_shift, map_map. apply IH.
  Qed.

  Lemma mat_mul_identity_l : forall p M, width p M -> mat_mul p (identity (length M)) M = M.
  Proof.
    intros p M W. unfold Dense.mat_mul, Dense.identity. rewrite map_map.
    transitivity (map (fun i => nth i M (zeros p)) (seq 0 (length M))); [|apply map_seq_nth].
    apply map_ext_in. intros i Hi. apply in_seq in Hi. apply vecmat_unit_row; auto; lia.
  Qed.

  Lemma vecmat_identity : forall r, vecmat (length r) r (identity (length r)) = r.
  Proof.
    induction r as [|a r IH]; [reflexivity|].
    cbn [length]. change (S (length r)) with (1 + length r).
    rewrite identity_diag2.
    change (a :: r) with ([a] ++ r).
    unfold Dense.diag2. rewrite vecmat_app.
    - rewrite vecmat_pad_r, vecmat_pad_l, IH.
      + rewrite vadd_app by reflexivity. rewrite vadd_zeros_l. f_equal.
        cbn. f_equal. ring.
      + apply width_identity.
      + apply width_identity.
    - rewrite map_length, identity_length. reflexivity.
    - apply Forall_forall. intros x Hx. apply in_map_iff in Hx. destruct Hx as [y [Hy Hin]]. subst.
      rewrite app_length, zeros_length.
      pose proof (width_identity 1) as W1. unfold width in W1. rewrite Forall_forall in W1. rewrite (W1 y Hin). reflexivity.
    - apply Forall_forall. intros x Hx. apply in_map_iff in Hx. destruct Hx as [y [Hy Hin]]. subst.
      rewrite app_length, zeros_length.
      pose proof (width_identity (length r)) as W1. unfold width in W1. rewrite Forall_forall in W1. rewrite (W1 y Hin). reflexivity.
  Qed.

  Lemma mat_mul_identity_r : forall p M, width p M -> mat_mul p M (identity p) = M.
  Proof.
    intros p M W. unfold Dense.mat_mul. rewrite <- (map_id M) at 2. apply map_ext_in.
    intros r Hr. unfold width in W. rewrite Forall_forall in W. rewrite <- (W r Hr). apply vecmat_identity.
  Qed.

  (* ------------------------------------------------------------ block products *)

  Lemma width_pad_r : forall p q C, width p C -> width (p + q) (map (fun x => x ++ zeros q) C).
  Proof.
    intros p q C W. apply Forall_forall. intros x Hx. apply in_map_iff in Hx.
    destruct Hx as [y [Hy Hin]]. subst. unfold width in W. rewrite Forall_forall in W.
    rewrite app_length, zeros_length, (W y Hin). reflexivity.
  Qed.

  Lemma width_pad_l : forall p q C, width p C -> width (q + p) (map (fun x => zeros q ++ x) C).
  Proof.
    intros p q C W. apply Forall_forall. intros x Hx. apply in_map_iff in Hx.
    destruct Hx as [y [Hy Hin]]. subst. unfold width in W. rewrite Forall_forall in W.
    rewrite app_length, zeros_length, (W y Hin). reflexivity.
  Qed.

  (* [[A,0],[0,B]] . [[C,0],[0,D]] = [[A.C,0],[0,B.D]] *)
  Lemma diag2_mul : forall k m p q A B C D,
    width k A -> width m B -> length C = k -> length D = m -> width p C -> width q D ->
    mat_mul (p + q) (diag2 k m A B) (diag2 p q C D)
    = diag2 p q (mat_mul p A C) (mat_mul q B D).
  Proof.
    intros k m p q A B C D WA WB LC LD WC WD.
    unfold Dense.diag2, Dense.mat_mul. rewrite map_app, !map_map. f_equal.
    - apply map_ext_in. intros r Hr. unfold width in WA. rewrite Forall_forall in WA.
      rewrite vecmat_app.
      + rewrite vecmat_pad_r by exact WC.
        rewrite vecmat_zeros by (apply width_pad_l; exact WD).
        apply vadd_zeros_r'. rewrite app_length, zeros_length, (vecmat_length p r C WC). reflexivity.
      + rewrite map_length, (WA r Hr), LC. reflexivity.
      + apply width_pad_r. exact WC.
      + apply width_pad_l. exact WD.
    - apply map_ext_in. intros r Hr. unfold width in WB. rewrite Forall_forall in WB.
      rewrite vecmat_app.
      + rewrite vecmat_pad_l by exact WD.
        rewrite vecmat_zeros by (apply width_pad_r; exact WC).
        apply vadd_zeros_l'. rewrite app_length, zeros_length, (vecmat_length q r D WD). reflexivity.
      + rewrite zeros_length, map_length, LC. reflexivity.
      + apply width_pad_r. exact WC.
      + apply width_pad_l. exact WD.
  Qed.

  (* square blocks *)
  Definition square (B : list (list T)) : Prop := width (length B) B.

  Fixpoint total (Bs : list (list (list T))) : nat :=
    match Bs with [] => 0 | B :: r => length B + total r end.

  Lemma block_diag_length : forall Bs, length (block_diag Bs) = total Bs.
  Proof.
    induction Bs as [|B Bs IH]; [reflexivity|].
    cbn [Dense.block_diag total]. unfold Dense.diag2. rewrite app_length, !map_length, IH. reflexivity.
  Qed.

  Lemma block_diag_width : forall Bs, Forall square Bs -> width (total Bs) (block_diag Bs).
  Proof.
    induction Bs as [|B Bs IH]; intros H; [constructor|].
    inversion H as [|? ? HB HBs]; subst. cbn [Dense.block_diag total].
    rewrite block_diag_length. unfold Dense.diag2, width. apply Forall_app. split.
    - apply width_pad_r. exact HB.
    - apply width_pad_l. apply IH. exact HBs.
  Qed.

  (* block_diag(B_i) . block_diag(C_i) = block_diag(B_i . C_i) for conforming square blocks *)
  Lemma block_diag_mul : forall Bs Cs, Forall square Bs -> Forall square Cs ->
    Forall2 (fun B C => length B = length C) Bs Cs ->
    mat_mul (total Cs) (block_diag Bs) (block_diag Cs)
    = block_diag (map (fun BC => mat_mul (length (snd BC)) (fst BC) (snd BC)) (combine Bs Cs)).
  Proof.
    intros Bs Cs SB SC F. induction F as [|B C Bs Cs HL F IH]; [reflexivity|].
    inversion SB as [|? ? HB HBs]; subst. inversion SC as [|? ? HC HCs]; subst.
    cbn [Dense.block_diag total combine map fst snd].
    rewrite !block_diag_length.
    rewrite diag2_mul.
    - rewrite IH by assumption.
      assert (E1 : length (mat_mul (length C) B C) = length C).
      { unfold Dense.mat_mul. rewrite map_length. exact HL. }
      rewrite E1.
      assert (E2 : total (map (fun BC => mat_mul (length (snd BC)) (fst BC) (snd BC)) (combine Bs Cs)) = total Cs).
      { clear - F. induction F as [|B C Bs Cs HL F IH]; [reflexivity|].
        cbn [combine map total fst snd]. rewrite IH. unfold Dense.mat_mul. rewrite map_length, HL. reflexivity. }
      rewrite E2. reflexivity.
    - exact HB.
    - apply block_diag_width. exact HBs.
    - symmetry. exact HL.
    - rewrite block_diag_length. clear - F. induction F as [|B C Bs Cs HL F IH]; [reflexivity|].
      cbn [total]. rewrite HL, IH. reflexivity.
    - exact HC.
    - apply block_diag_width. exact HCs.
  Qed.

  Lemma block_diag_identity : forall ns, block_diag (map identity ns) = identity (fold_right plus 0 ns).
  Proof.
    induction ns as [|n ns IH]; [reflexivity|].
    cbn [map Dense.block_diag fold_right]. rewrite identity_diag2, IH, !identity_length. reflexivity.
  Qed.

  (* ------------------------------------------------------------ the block inverse *)

  Section Inv.
    Variable inv : list (list T) -> list (list T).

    Definition inv_ok (B : list (list T)) : Prop :=
      length (inv B) = length B /\ square (inv B) /\
      mat_mul (length B) B (inv B) = identity (length B) /\
      mat_mul (length B) (inv B) B = identity (length B).

    Lemma total_map_inv : forall Bs, Forall inv_ok Bs -> total (map inv Bs) = total Bs.
    Proof.
      induction Bs as [|B Bs IH]; intros H; [reflexivity|]. inversion H as [|? ? HB HBs]; subst.
      cbn [map total]. destruct HB as [L _]. rewrite L, IH by exact HBs. reflexivity.
    Qed.

    Theorem blocks_inverse_r : forall Bs, Forall square Bs -> Forall inv_ok Bs ->
      mat_mul (total Bs) (block_diag Bs) (block_diag (map inv Bs)) = identity (total Bs).
    Proof.
      intros Bs SB HI.
      rewrite <- (total_map_inv Bs HI) at 1.
      rewrite block_diag_mul.
      - assert (E : map (fun BC => mat_mul (length (snd BC)) (fst BC) (snd BC)) (combine Bs (map inv Bs))
                    = map identity (map (@length _) Bs)).
        { clear SB. induction HI as [|B Bs HB HBs IH]; [reflexivity|].
          cbn [map combine fst snd]. rewrite IH. f_equal.
          destruct HB as [L [_ [E _]]]. rewrite L. exact E. }
        rewrite E, block_diag_identity. f_equal.
        clear. induction Bs as [|B Bs IH]; [reflexivity|]. cbn [map fold_right total]. rewrite IH. reflexivity.
      - exact SB.
      - clear SB. induction HI as [|B Bs HB HBs IH]; [constructor|]. cbn [map]. constructor; [|exact IH].
        destruct HB as [_ [S _]]. exact S.
      - clear SB. induction HI as [|B Bs HB HBs IH]; [constructor|]. cbn [map]. constructor; [|exact IH].
        destruct HB as [L _]. symmetry. exact L.
    Qed.

    Theorem blocks_inverse_l : forall Bs, Forall square Bs -> Forall inv_ok Bs ->
      mat_mul (total Bs) (block_diag (map inv Bs)) (block_diag Bs) = identity (total Bs).
    Proof.
      intros Bs SB HI.
      rewrite block_diag_mul.
      - assert (E : map (fun BC => mat_mul (length (snd BC)) (fst BC) (snd BC)) (combine (map inv Bs) Bs)
                    = map identity (map (@length _) Bs)).
        { clear SB. induction HI as [|B Bs HB HBs IH]; [reflexivity|].
          cbn [map combine fst snd]. rewrite IH. f_equal.
          destruct HB as [L [_ [_ E]]]. exact E. }
        rewrite E, block_diag_identity. f_equal.
        clear. induction Bs as [|B Bs IH]; [reflexivity|]. cbn [map fold_right total]. rewrite IH. reflexivity.
      - clear SB. induction HI as [|B Bs HB HBs IH]; [constructor|]. cbn [map]. constructor; [|exact IH].
        destruct HB as [_ [S _]]. exact S.
      - exact SB.
      - clear SB. induction HI as [|B Bs HB HBs IH]; [constructor|]. cbn [map]. constructor; [|exact IH].
        destruct HB as [L _]. exact L.
    Qed.
  End Inv.
End DenseAlg.

Lemma blocks_inverse :
  forall (T : Type) (zero one : T) (add mul sub : T -> T -> T) (opp : T -> T),
    ring_theory zero one add mul sub opp eq ->
  forall (inv : list (list T) -> list (list T)) (Bs : list (list (list T))),
    Forall (square T) Bs -> Forall (inv_ok T zero one add mul inv) Bs ->
    mat_mul zero add mul (total T Bs) (block_diag zero Bs) (block_diag zero (map inv Bs))
      = identity zero one (total T Bs) /\
    mat_mul zero add mul (total T Bs) (block_diag zero (map inv Bs)) (block_diag zero Bs)
      = identity zero one (total T Bs).
Proof.
  intros T zero one add mul sub opp Rth inv Bs S H. split.
  - exact (blocks_inverse_r T zero one add mul sub opp Rth inv Bs S H).
  - exact (blocks_inverse_l T zero one add mul sub opp Rth inv Bs S H).
Qed.
