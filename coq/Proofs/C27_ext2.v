(* C27 (extension) — lemmas: Trace and Divergence place the per-grid operators at the
   offsets of the cell / face projections. *)
From Coq Require Import List ZArith QArith Bool Arith Lia.
Import ListNotations.
From PP Require Import Model.C27 Model.C27_spec Model.C27_ext.
From PP Require Import Proofs.C27 Proofs.C27_mortar.
Local Open Scope nat_scope.

Lemma pre_app_head : forall num (all : list grid) g r,
    NoDup (map gid (all ++ g :: r)) -> pre num (all ++ g :: r) (gid g) = sum_by num all.
Proof.
  intros num all g r; induction all as [|a all IH]; intros Hnd.
  - cbn. now rewrite Nat.eqb_refl.
  - cbn [app pre sum_by]. cbn in Hnd. inversion Hnd as [|x xs Hx Hnd' E]; subst.
    destruct (gid a =? gid g) eqn:E.
    + apply Nat.eqb_eq in E. exfalso. apply Hx. rewrite E, map_app. apply in_or_app.
      right. now left.
    + now rewrite IH.
Qed.

Lemma sum_by_snoc : forall (num : grid -> nat) all g,
    sum_by num (all ++ [g]) = sum_by num all + num g.
Proof. intros; induction all as [|a all IH]; cbn; [lia|]. rewrite IH. lia. Qed.

(* ------------------------------------------------------------------ Divergence *)
Lemma bdiag_from : forall rnum cnum nd l locs all,
    length l = length locs -> NoDup (map gid (all ++ l)) ->
    Forall (diag_fit rnum cnum nd) (combine l locs) ->
    bdiag_ents locs (sum_by rnum all * nd) (sum_by cnum all * nd)
    = placed_diag rnum cnum (all ++ l) nd (combine l locs).
Proof.
  intros rnum cnum nd l; induction l as [|g r IH]; intros [|T rl] all Hlen Hnd Hfit;
    try discriminate; [reflexivity|].
  cbn [combine] in Hfit. inversion Hfit as [|x xs Hg Hr]; subst.
  destruct Hg as (Hnr & Hnc & _). cbn [fst snd] in Hnr, Hnc.
  cbn [bdiag_ents combine]. unfold placed_diag. cbn [flat_map fst snd].
  rewrite !pre_app_head by exact Hnd. f_equal.
  rewrite Hnr, Hnc.
  replace (sum_by rnum all * nd + rnum g * nd) with (sum_by rnum (all ++ [g]) * nd)
    by (rewrite sum_by_snoc; lia).
  replace (sum_by cnum all * nd + cnum g * nd) with (sum_by cnum (all ++ [g]) * nd)
    by (rewrite sum_by_snoc; lia).
  assert (E : all ++ g :: r = (all ++ [g]) ++ r) by now rewrite <- app_assoc.
  rewrite E in *. apply IH; [cbn in Hlen; lia|exact Hnd|exact Hr].
Qed.

Lemma sum_shapes : forall rnum cnum nd l locs,
    length l = length locs -> Forall (diag_fit rnum cnum nd) (combine l locs) ->
    sum_by nr locs = sum_by rnum l * nd /\ sum_by nc locs = sum_by cnum l * nd.
Proof.
  intros rnum cnum nd l; induction l as [|g r IH]; intros [|T rl] Hlen Hfit;
    try discriminate; [split; reflexivity|].
  cbn [combine] in Hfit. inversion Hfit as [|x xs Hg Hr]; subst.
  destruct Hg as (Hnr & Hnc & _). cbn [fst snd] in Hnr, Hnc.
  destruct (IH rl) as (H1 & H2); [cbn in Hlen; lia|exact Hr|].
  cbn [sum_by]. rewrite H1, H2, Hnr, Hnc. split; lia.
Qed.

Lemma divergence_blocks : forall sds nd locs,
    sds <> [] -> length sds = length locs -> NoDup (map gid sds) ->
    Forall (diag_fit ncells nfaces nd) (combine sds locs) ->
    exists M, divergence_op locs = Ok M /\
              nr M = total ncells sds nd /\ nc M = total nfaces sds nd /\
              ents M = placed_diag ncells nfaces sds nd (combine sds locs).
Proof.
  intros sds nd locs Hne Hlen Hnd Hfit.
  pose proof (bdiag_from ncells nfaces nd sds locs [] Hlen Hnd Hfit) as HB.
  cbn [app sum_by Nat.mul] in HB.
  destruct (sum_shapes ncells nfaces nd sds locs Hlen Hfit) as (H1 & H2).
  unfold divergence_op, block_diag.
  destruct locs as [|A [|B rl]].
  - destruct sds; [congruence|discriminate Hlen].
  - exists A. split; [reflexivity|]. cbn [sum_by] in H1, H2. unfold total.
    split; [lia|]. split; [lia|].
    rewrite <- HB. cbn [bdiag_ents]. rewrite app_nil_r.
    rewrite <- (map_id (ents A)) at 1. apply map_ext. intros [[i j] v]. reflexivity.
  - eexists. split; [reflexivity|]. cbn [nr nc ents]. unfold total.
    split; [exact H1|]. split; [exact H2|exact HB].
Qed.

(* ------------------------------------------------------------------ Trace *)
Definition tblock (sds : list grid) (nd tot : nat) (p : grid * mat) : mat :=
  mkM (nr (snd p)) tot
      (map (fun e => (erow e, pre ncells sds (gid (fst p)) * nd + ecol e, evl e)) (ents (snd p))).

Lemma trace_blocks_spec : forall sds nd l locs,
    NoDup (map gid sds) -> incl l sds -> length l = length locs ->
    Forall (diag_fit nfaces ncells nd) (combine l locs) ->
    let tot := total ncells sds nd in
    trace_blocks (pdict_spec ncells tot nd sds 0 []) l locs
    = Ok (map (tblock sds nd tot) (combine l locs)).
Proof.
  intros sds nd l; induction l as [|g r IH]; intros [|T rl] Hnd Hinc Hlen Hfit tot;
    try discriminate; [reflexivity|]. subst tot. set (tot := total ncells sds nd) in *.
  cbn [combine] in Hfit. inversion Hfit as [|x xs Hg Hr]; subst.
  destruct Hg as (Hnr & Hnc & Hcols). cbn [fst snd] in Hnr, Hnc, Hcols.
  cbn [trace_blocks combine map].
  rewrite lookup_pdict_in; [|exact Hnd|apply Hinc; now left]. cbn [bind plus].
  rewrite transpose_pmat, (mul_rmat_r T tot _ (ncells g * nd) Hnc Hcols). cbn [bind].
  rewrite IH; [reflexivity|exact Hnd| |cbn in Hlen; lia|exact Hr].
  intros x Hx. apply Hinc. now right.
Qed.

Lemma vstack_tblocks_from : forall sds nd tot l locs all,
    sds = all ++ l -> length l = length locs -> NoDup (map gid sds) ->
    Forall (diag_fit nfaces ncells nd) (combine l locs) ->
    vstack_ents (map (tblock sds nd tot) (combine l locs)) (sum_by nfaces all * nd)
    = placed_diag nfaces ncells sds nd (combine l locs).
Proof.
  intros sds nd tot l; induction l as [|g r IH]; intros [|T rl] all Hs Hlen Hnd Hfit;
    try discriminate; [reflexivity|].
  cbn [combine] in Hfit. inversion Hfit as [|x xs Hg Hr]; subst.
  destruct Hg as (Hnr & _). cbn [fst snd] in Hnr.
  cbn [combine map vstack_ents]. unfold placed_diag. cbn [flat_map fst snd].
  f_equal.
  - unfold tblock. cbn [fst snd ents]. rewrite map_map.
    rewrite (pre_app_head nfaces all g r Hnd). reflexivity.
  - cbn [tblock nr fst snd]. rewrite Hnr.
    replace (sum_by nfaces all * nd + nfaces g * nd) with (sum_by nfaces (all ++ [g]) * nd)
      by (rewrite sum_by_snoc; lia).
    apply IH; [now rewrite <- app_assoc|cbn in Hlen; lia|exact Hnd|exact Hr].
Qed.

Lemma tblocks_shapes : forall sds nd tot l locs,
    length l = length locs -> Forall (diag_fit nfaces ncells nd) (combine l locs) ->
    forallb (fun B => nc B =? tot) (map (tblock sds nd tot) (combine l locs)) = true /\
    sum_by nr (map (tblock sds nd tot) (combine l locs)) = sum_by nfaces l * nd.
Proof.
  intros sds nd tot l; induction l as [|g r IH]; intros [|T rl] Hlen Hfit;
    try discriminate; [split; reflexivity|].
  cbn [combine] in Hfit. inversion Hfit as [|x xs Hg Hr]; subst.
  destruct Hg as (Hnr & _). cbn [fst snd] in Hnr.
  destruct (IH rl) as (H1 & H2); [cbn in Hlen; lia|exact Hr|].
  cbn [combine map forallb sum_by]. rewrite H1, H2. cbn [tblock nr nc fst snd].
  rewrite Nat.eqb_refl, Hnr. split; [reflexivity|lia].
Qed.

Lemma trace_blocks_placed : forall sds locs,
    Forall wf_grid sds -> NoDup (map gid sds) -> length sds = length locs ->
    Forall (diag_fit nfaces ncells 1) (combine sds locs) ->
    trace_op sds 1 locs
    = XOk (mkM (total nfaces sds 1) (total ncells sds 1)
               (placed_diag nfaces ncells sds 1 (combine sds locs))).
Proof.
  intros sds locs Hwf Hnd Hlen Hfit. unfold trace_op.
  pose proof (projections_spec Cells sds 1 (le_n 1) Hwf) as HP.
  cbn [projections_of sp_all sp_nd num_of] in HP. rewrite HP.
  destruct sds as [|g r] eqn:E; [destruct locs; [reflexivity|discriminate Hlen]|].
  rewrite <- E in *. cbn [Nat.eqb].
  rewrite (trace_blocks_spec sds 1 sds locs Hnd (incl_refl _) Hlen Hfit). cbn [bind].
  destruct (tblocks_shapes sds 1 (total ncells sds 1) sds locs Hlen Hfit) as (H1 & H2).
  pose proof (vstack_tblocks_from sds 1 (total ncells sds 1) sds locs [] eq_refl Hlen Hnd Hfit) as HV.
  cbn [sum_by Nat.mul] in HV.
  unfold vstack.
  destruct (map (tblock sds 1 (total ncells sds 1)) (combine sds locs)) as [|B0 rb] eqn:EB.
  { exfalso. rewrite E in EB, Hlen. destruct locs; [discriminate Hlen|discriminate EB]. }
  assert (HB0 : nc B0 = total ncells sds 1).
  { pose proof H1 as H1'. cbn [forallb] in H1'. apply andb_prop in H1'. destruct H1' as (H1' & _).
    now apply Nat.eqb_eq in H1'. }
  rewrite HB0, H1, H2, HV. reflexivity.
Qed.

Lemma trace_vector_not_implemented : forall sds nd locs d,
    sds <> [] -> nd <> 1 -> cell_projections sds nd = Ok d -> trace_op sds nd locs = XNotImpl.
Proof.
  intros sds nd locs d Hne Hnd Hd. unfold trace_op. rewrite Hd.
  destruct sds; [congruence|]. apply Nat.eqb_neq in Hnd. now rewrite Hnd.
Qed.

Lemma divergence_empty : divergence_op [] = Err ValueErr.
Proof. reflexivity. Qed.

Lemma nonlist_rejected : forall r, accessor_arg false r = Err ValueErr.
Proof. reflexivity. Qed.
