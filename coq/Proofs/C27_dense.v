(* C27 — lemmas: dense reading of the identity / indicator coordinate lists. *)
From Coq Require Import List ZArith QArith Bool Arith Lia.
Import ListNotations.
From PP Require Import Model.C27 Model.C27_spec.
Local Open Scope nat_scope.

Lemma existsb_eqb_false : forall i cs, ~ In i cs -> existsb (Nat.eqb i) cs = false.
Proof.
  intros i cs H. destruct (existsb (Nat.eqb i) cs) eqn:E; [|reflexivity].
  apply existsb_exists in E. destruct E as (x & Hx & Ex). apply Nat.eqb_eq in Ex. subst.
  contradiction.
Qed.

Lemma get_indicator : forall n cs i j, NoDup cs ->
    Qeq (get (indicator n cs) i j)
        (if (i =? j) && existsb (Nat.eqb i) cs then 1%Q else 0%Q).
Proof.
  intros n cs i j. unfold get, indicator; cbn [ents].
  induction cs as [|c cs IH]; intros Hnd.
  - cbn. rewrite andb_false_r. reflexivity.
  - inversion Hnd as [|x xs Hc Hr]; subst. specialize (IH Hr).
    cbn [map fold_right erow ecol evl fst snd existsb].
    destruct (Nat.eqb_spec c i) as [Eci|Eci]; destruct (Nat.eqb_spec c j) as [Ecj|Ecj];
      cbn [andb].
    + subst. rewrite Nat.eqb_refl in *. cbn [andb orb] in *.
      rewrite IH, existsb_eqb_false by exact Hc. reflexivity.
    + subst. rewrite IH. destruct (Nat.eqb_spec i j) as [E|E]; [congruence|]. reflexivity.
    + subst. rewrite IH. destruct (Nat.eqb_spec i j) as [E|E]; [congruence|]. reflexivity.
    + rewrite IH. destruct (Nat.eqb_spec i c) as [E|E]; [congruence|]. reflexivity.
Qed.

Lemma existsb_seq : forall i n, existsb (Nat.eqb i) (seq 0 n) = (i <? n).
Proof.
  intros i n. destruct (Nat.ltb_spec i n) as [H|H].
  - apply existsb_exists. exists i. split; [apply in_seq; lia|apply Nat.eqb_refl].
  - apply existsb_eqb_false. intro Hin. apply in_seq in Hin. lia.
Qed.

Lemma get_identity : forall n i j, i < n -> j < n ->
    Qeq (get (identity n) i j) (if i =? j then 1%Q else 0%Q).
Proof.
  intros n i j Hi Hj.
  change (identity n) with (indicator n (seq 0 n)).
  rewrite get_indicator by apply seq_NoDup.
  rewrite existsb_seq. apply Nat.ltb_lt in Hi. rewrite Hi, andb_true_r. reflexivity.
Qed.
