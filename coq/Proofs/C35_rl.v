(* C35 — rlencode / rldecode. *)
From Coq Require Import List ZArith Bool Arith Lia.
Import ListNotations.
From PP Require Import Lib.Csr Model.C35 Proofs.C35.

Lemma gather_opt_app : forall {E} (l : list E) a b,
  gather_opt l (a ++ b) = match gather_opt l a, gather_opt l b with
                          | Some x, Some y => Some (x ++ y)
                          | _, _ => None
                          end.
Proof.
  induction a as [|k a IH]; intros b; simpl.
  - destruct (gather_opt l b); reflexivity.
  - rewrite IH. destruct (nth_error l k); [|reflexivity].
    destruct (gather_opt l a); [|reflexivity].
    destruct (gather_opt l b); reflexivity.
Qed.

Lemma gather_opt_repeat : forall {E} (l : list E) k x c,
  nth_error l k = Some x -> gather_opt l (repeat k c) = Some (repeat x c).
Proof. induction c as [|c IH]; intros H; simpl; [reflexivity|]. rewrite H, IH by exact H. reflexivity. Qed.

Lemma nth_error_pre : forall {E} (pre : list E) x r, nth_error (pre ++ x :: r) (length pre) = Some x.
Proof. induction pre; simpl; auto. Qed.

Lemma map_repeat' : forall {A B} (f : A -> B) x n, map f (repeat x n) = repeat (f x) n.
Proof. induction n; simpl; congruence. Qed.

Lemma last_cumsum : forall cs a d, last (a :: cumsum_acc a cs) d = (a + sumZ cs)%Z.
Proof.
  induction cs as [|c cs IH]; intros a d.
  - simpl. lia.
  - change (last (a :: cumsum_acc a (c :: cs)) d) with (last ((a + c)%Z :: cumsum_acc (a + c)%Z cs) d).
    rewrite IH. simpl. lia.
Qed.

(* start positions of the blocks *)
Fixpoint excl (acc : Z) (cs : list Z) : list Z :=
  match cs with [] => [] | c :: r => acc :: excl (acc + c)%Z r end.

Fixpoint gblocks (d : Z) (cs vs : list Z) : list Z :=
  match cs, vs with
  | c :: r, v :: vs' => v :: repeat d (Z.to_nat (c - 1)) ++ gblocks d r vs'
  | _, _ => []
  end.

Lemma removelast_cumsum : forall rest a c0,
  removelast (cumsum_acc a (c0 :: rest)) = excl (a + c0)%Z rest.
Proof.
  induction rest as [|c rest IH]; intros a c0; [reflexivity|].
  change (cumsum_acc a (c0 :: c :: rest)) with ((a + c0)%Z :: cumsum_acc (a + c0)%Z (c :: rest)).
  change (removelast ((a + c0)%Z :: cumsum_acc (a + c0)%Z (c :: rest)))
    with ((a + c0)%Z :: removelast (cumsum_acc (a + c0)%Z (c :: rest))).
  rewrite IH. reflexivity.
Qed.

Lemma excl_length : forall cs a, length (excl a cs) = length cs.
Proof. induction cs; intros; simpl; auto. Qed.

Lemma sumZ_nonneg : forall cs, Forall (fun c => 1 <= c)%Z cs -> (0 <= sumZ cs)%Z.
Proof. induction 1; simpl; lia. Qed.

Lemma scatter_gen : forall cs vs d pre, length vs = length cs -> Forall (fun c => 1 <= c)%Z cs ->
  scatter (pre ++ repeat d (Z.to_nat (sumZ cs))) (map Z.to_nat (excl (Z.of_nat (length pre)) cs)) vs
  = pre ++ gblocks d cs vs.
Proof.
  induction cs as [|c cs IH]; intros vs d pre Hl H.
  - destruct vs; reflexivity.
  - destruct vs as [|v vs]; [discriminate|]. inversion H as [|c' r' Hc Hr]; subst.
    pose proof (sumZ_nonneg cs Hr) as Hs.
    cbn [excl map scatter gblocks]. rewrite Nat2Z.id.
    change (sumZ (c :: cs)) with (c + sumZ cs)%Z.
    replace (Z.to_nat (c + sumZ cs)) with (S (Z.to_nat (c - 1)) + Z.to_nat (sumZ cs)) by lia.
    rewrite repeat_app. cbn [repeat app].
    rewrite upd_app_len by reflexivity.
    set (pre' := pre ++ v :: repeat d (Z.to_nat (c - 1))).
    replace (Z.of_nat (length pre) + c)%Z with (Z.of_nat (length pre')).
    2:{ unfold pre'. rewrite app_length. simpl. rewrite repeat_length. lia. }
    replace (pre ++ v :: repeat d (Z.to_nat (c - 1)) ++ repeat d (Z.to_nat (sumZ cs)))
      with (pre' ++ repeat d (Z.to_nat (sumZ cs))).
    2:{ unfold pre'. rewrite <- app_assoc. reflexivity. }
    rewrite IH by (simpl in Hl; auto; lia). unfold pre'. rewrite <- app_assoc. reflexivity.
Qed.

Section RL.
  Variable T : Type.

  Definition rep (ac : T * Z) : list T := repeat (fst ac) (Z.to_nat (snd ac)).

  Lemma gather_blocks : forall (cs : list Z) (F pre : list T) acc,
    length F = length cs -> Forall (fun c => 1 <= c)%Z cs -> Z.of_nat (length pre) = (acc + 1)%Z ->
    gather_opt (pre ++ F) (map Z.to_nat (cumsum_acc acc (gblocks 0%Z cs (repeat 1%Z (length cs)))))
    = Some (flat_map rep (combine F cs)).
  Proof.
    induction cs as [|c cs IH]; intros F pre acc Hl H Hp.
    - destruct F; reflexivity.
    - destruct F as [|f F]; [discriminate|]. inversion H as [|c' r' Hc Hr]; subst.
      cbn [length repeat gblocks cumsum_acc combine flat_map].
      rewrite cumsum_acc_app, cumsum_acc_zeros, sumZ_repeat, Z.mul_0_l.
      cbn [map]. rewrite map_app, map_repeat'.
      replace (Z.to_nat (acc + 1)) with (length pre) by lia.
      change (length pre :: repeat (length pre) (Z.to_nat (c - 1)) ++
              map Z.to_nat (cumsum_acc (acc + 1 + 0) (gblocks 0%Z cs (repeat 1%Z (length cs)))))
        with (repeat (length pre) (S (Z.to_nat (c - 1))) ++
              map Z.to_nat (cumsum_acc (acc + 1 + 0) (gblocks 0%Z cs (repeat 1%Z (length cs))))).
      rewrite gather_opt_app.
      rewrite (gather_opt_repeat _ _ f) by apply nth_error_pre.
      replace (pre ++ f :: F) with ((pre ++ [f]) ++ F) by (rewrite <- app_assoc; reflexivity).
      rewrite IH.
      + unfold rep at 2. cbn [fst snd]. replace (S (Z.to_nat (c - 1))) with (Z.to_nat c) by lia. reflexivity.
      + simpl in Hl. lia.
      + exact Hr.
      + rewrite app_length. simpl. lia.
  Qed.

  (* flatnonzero(r)[cumsum(j)] *)
  Lemma decode_positions : forall (cs : list Z) (F : list T),
    length F = length cs -> Forall (fun c => 1 <= c)%Z cs ->
    let i := cumsum (0%Z :: cs) in
    let mid := removelast (tl i) in
    gather_opt F (map Z.to_nat (cumsum (scatter (repeat 0%Z (Z.to_nat (last i 0%Z)))
                                                (map Z.to_nat mid) (repeat 1%Z (length mid)))))
    = Some (flat_map rep (combine F cs)).
  Proof.
    intros cs F Hl H. unfold cumsum. cbn zeta.
    change (cumsum_acc 0 (0%Z :: cs)) with ((0 + 0)%Z :: cumsum_acc (0 + 0)%Z cs).
    rewrite last_cumsum. cbn [tl]. replace (0 + 0)%Z with 0%Z by lia.
    destruct cs as [|c0 rest].
    - destruct F; reflexivity.
    - destruct F as [|f F]; [discriminate|]. inversion H as [|c' r' Hc Hr]; subst.
      pose proof (sumZ_nonneg rest Hr) as Hs.
      rewrite removelast_cumsum.
      rewrite excl_length.
      change (sumZ (c0 :: rest)) with (c0 + sumZ rest)%Z.
      replace (Z.to_nat (0 + (c0 + sumZ rest))) with (Z.to_nat c0 + Z.to_nat (sumZ rest)) by lia.
      rewrite repeat_app.
      replace (0 + c0)%Z with (Z.of_nat (length (repeat 0%Z (Z.to_nat c0))))
        by (rewrite repeat_length; lia).
      rewrite scatter_gen by (try rewrite repeat_length; auto; simpl in Hl; lia).
      rewrite cumsum_acc_app, cumsum_acc_zeros, sumZ_repeat, Z.mul_0_l.
      rewrite map_app, map_repeat'. cbn [Z.to_nat].
      rewrite gather_opt_app. rewrite (gather_opt_repeat _ _ f) by reflexivity.
      change (f :: F) with ([f] ++ F).
      rewrite gather_blocks; auto; try (simpl in Hl; lia).
  Qed.

  Definition pos (c : Z) : bool := (0 <? c)%Z.

  Lemma mask_positive : forall n, Forall (fun c => 1 <= c)%Z (mask (map pos n) n).
  Proof.
    induction n as [|c n IH]; simpl; [constructor|].
    destruct (pos c) eqn:E; [constructor; [unfold pos in E; lia|exact IH]|exact IH].
  Qed.

  Lemma argwhere_mask_length : forall n s, length (argwhere_from s (map pos n)) = length (mask (map pos n) n).
  Proof. induction n as [|c n IH]; intros s; simpl; [reflexivity|]. destruct (pos c); simpl; rewrite IH; reflexivity. Qed.

  Lemma gather_positive : forall (n : list Z) (A pre : list T),
    length n <= length A ->
    gather_opt (pre ++ A)
      (flat_map (fun fc : nat * Z => repeat (fst fc) (Z.to_nat (snd fc)))
         (combine (argwhere_from (length pre) (map pos n)) (mask (map pos n) n)))
    = Some (flat_map rep (combine A n)).
  Proof.
    induction n as [|c n IH]; intros A pre Hl.
    - destruct A; reflexivity.
    - destruct A as [|a A]; [simpl in Hl; lia|]. simpl in Hl.
      cbn [map mask argwhere_from combine flat_map].
      replace (pre ++ a :: A) with ((pre ++ [a]) ++ A) by (rewrite <- app_assoc; reflexivity).
      specialize (IH A (pre ++ [a])). rewrite app_length in IH. simpl in IH.
      replace (length pre + 1) with (S (length pre)) in IH by lia.
      destruct (pos c) eqn:E.
      + cbn [combine flat_map fst snd]. rewrite gather_opt_app.
        rewrite (gather_opt_repeat _ _ a).
        2:{ rewrite <- app_assoc. apply nth_error_pre. }
        rewrite IH by lia. reflexivity.
      + rewrite IH by lia. unfold rep at 2. cbn [fst snd].
        unfold pos in E. replace (Z.to_nat c) with 0 by lia. reflexivity.
  Qed.

End RL.

Lemma rldecode_spec : forall (T : Type) (A : list T) (n : list Z),
  length n <= length A ->
  rldecode A n = Ok (flat_map (fun ac => repeat (fst ac) (Z.to_nat (snd ac))) (combine A n)).
Proof.
  intros T A n Hl. unfold rldecode.
  change (fun c : Z => (0 <? c)%Z) with pos.
  rewrite (decode_positions nat (mask (map pos n) n) (argwhere_from 0 (map pos n))).
  - pose proof (gather_positive T n A [] Hl) as G. simpl in G. unfold rep in *.
    rewrite G. reflexivity.
  - apply argwhere_mask_length.
  - apply mask_positive.
Qed.

(* ================================================================ rlencode *)

Section Encode.
  Variable T : Type.
  Variable eqb : T -> T -> bool.
  Hypothesis eqb_true : forall x y, eqb x y = true -> x = y.

  (* end positions and values of the maximal runs *)
  Fixpoint runs_end (s : nat) (l : list T) : list nat :=
    match l with
    | [] => []
    | x :: r => match r with
                | [] => [s]
                | y :: _ => if eqb x y then runs_end (S s) r else s :: runs_end (S s) r
                end
    end.

  Fixpoint runs_vals (l : list T) : list T :=
    match l with
    | [] => []
    | x :: r => match r with
                | [] => [x]
                | y :: _ => if eqb x y then runs_vals r else x :: runs_vals r
                end
    end.

  Lemma index_runs : forall l s, l <> [] ->
    argwhere_from s (neq_adj T eqb l) ++ [s + length l - 1] = runs_end s l.
  Proof.
    induction l as [|x l IH]; intros s H; [congruence|].
    destruct l as [|y r].
    - simpl. f_equal. lia.
    - specialize (IH (S s)). 
      change (neq_adj T eqb (x :: y :: r)) with (negb (eqb x y) :: neq_adj T eqb (y :: r)).
      change (runs_end s (x :: y :: r))
        with (if eqb x y then runs_end (S s) (y :: r) else s :: runs_end (S s) (y :: r)).
      replace (s + length (x :: y :: r) - 1) with (S s + length (y :: r) - 1) by (simpl; lia).
      destruct (eqb x y); cbn [negb argwhere_from].
      + apply IH. discriminate.
      + rewrite <- app_comm_cons. f_equal. apply IH. discriminate.
  Qed.

  Lemma gather_runs : forall l pre,
    gather_opt (pre ++ l) (runs_end (length pre) l) = Some (runs_vals l).
  Proof.
    induction l as [|x l IH]; intros pre; [reflexivity|].
    specialize (IH (pre ++ [x])). rewrite app_length, <- app_assoc in IH. simpl in IH.
    replace (length pre + 1) with (S (length pre)) in IH by lia.
    destruct l as [|y r].
    - simpl. rewrite nth_error_pre. reflexivity.
    - change (runs_end (length pre) (x :: y :: r))
        with (if eqb x y then runs_end (S (length pre)) (y :: r)
              else length pre :: runs_end (S (length pre)) (y :: r)).
      change (runs_vals (x :: y :: r)) with (if eqb x y then runs_vals (y :: r) else x :: runs_vals (y :: r)).
      destruct (eqb x y).
      + exact IH.
      + cbn [gather_opt]. rewrite nth_error_pre, IH. reflexivity.
  Qed.

  Lemma repeat_snoc : forall (x : T) n, repeat x (S n) = repeat x n ++ [x].
  Proof. induction n; simpl in *; congruence. Qed.

  Lemma decode_runs : forall l s prev, l <> [] -> (prev <= Z.of_nat s - 1)%Z ->
    flat_map (rep T) (combine (runs_vals l) (diffZ prev (map Z.of_nat (runs_end s l))))
    = match l with
      | [] => []
      | x :: _ => repeat x (Z.to_nat (Z.of_nat s - 1 - prev)) ++ l
      end.
  Proof.
    induction l as [|x l IH]; intros s prev H Hp; [congruence|].
    destruct l as [|y r].
    - simpl. unfold rep. cbn [fst snd]. rewrite app_nil_r.
      replace (Z.to_nat (Z.of_nat s - prev)) with (S (Z.to_nat (Z.of_nat s - 1 - prev))) by lia.
      apply repeat_snoc.
    - change (runs_end s (x :: y :: r))
        with (if eqb x y then runs_end (S s) (y :: r) else s :: runs_end (S s) (y :: r)).
      change (runs_vals (x :: y :: r)) with (if eqb x y then runs_vals (y :: r) else x :: runs_vals (y :: r)).
      destruct (eqb x y) eqn:E.
      + apply eqb_true in E. subst y.
        rewrite (IH (S s) prev) by (try discriminate; lia).
        replace (Z.to_nat (Z.of_nat (S s) - 1 - prev)) with (S (Z.to_nat (Z.of_nat s - 1 - prev))) by lia.
        rewrite repeat_snoc, <- app_assoc. reflexivity.
      + cbn [map diffZ combine flat_map]. rewrite (IH (S s) (Z.of_nat s)) by (try discriminate; lia).
        replace (Z.to_nat (Z.of_nat (S s) - 1 - Z.of_nat s)) with 0 by lia.
        cbn [repeat app]. unfold rep. cbn [fst snd].
        replace (Z.to_nat (Z.of_nat s - prev)) with (S (Z.to_nat (Z.of_nat s - 1 - prev))) by lia.
        rewrite repeat_snoc, <- app_assoc. reflexivity.
  Qed.

  Lemma runs_lengths : forall l s, length (runs_vals l) = length (runs_end s l).
  Proof.
    induction l as [|x l IH]; intros s; [reflexivity|].
    destruct l as [|y r]; [reflexivity|].
    change (runs_end s (x :: y :: r))
      with (if eqb x y then runs_end (S s) (y :: r) else s :: runs_end (S s) (y :: r)).
    change (runs_vals (x :: y :: r)) with (if eqb x y then runs_vals (y :: r) else x :: runs_vals (y :: r)).
    destruct (eqb x y); cbn [length]; rewrite (IH (S s)); reflexivity.
  Qed.

  Lemma diffZ_length : forall l p, length (diffZ p l) = length l.
  Proof. induction l; intros; simpl; auto. Qed.

  Lemma counts_positive : forall l s prev, (prev < Z.of_nat s)%Z ->
    Forall (fun c => 1 <= c)%Z (diffZ prev (map Z.of_nat (runs_end s l))).
  Proof.
    induction l as [|x l IH]; intros s prev H; [constructor|].
    destruct l as [|y r].
    - simpl. constructor; [lia|constructor].
    - change (runs_end s (x :: y :: r))
        with (if eqb x y then runs_end (S s) (y :: r) else s :: runs_end (S s) (y :: r)).
      destruct (eqb x y).
      + apply IH. lia.
      + cbn [map diffZ]. constructor; [lia|]. apply IH. lia.
  Qed.

  (* maximal compression: neighbouring encoded values differ *)
  Lemma hd_runs_vals : forall l d, hd d (runs_vals l) = hd d l.
  Proof.
    induction l as [|x l IH]; intros d; [reflexivity|].
    destruct l as [|y r]; [reflexivity|].
    change (runs_vals (x :: y :: r)) with (if eqb x y then runs_vals (y :: r) else x :: runs_vals (y :: r)).
    destruct (eqb x y) eqn:E; [|reflexivity].
    apply eqb_true in E. subst. rewrite IH. reflexivity.
  Qed.

  Lemma runs_vals_distinct : forall l, forallb (fun b => b) (neq_adj T eqb (runs_vals l)) = true.
  Proof.
    induction l as [|x l IH]; [reflexivity|].
    destruct l as [|y r]; [reflexivity|].
    change (runs_vals (x :: y :: r)) with (if eqb x y then runs_vals (y :: r) else x :: runs_vals (y :: r)).
    destruct (eqb x y) eqn:E; [exact IH|].
    pose proof (hd_runs_vals (y :: r) y) as Hh. change (hd y (y :: r)) with y in Hh.
    destruct (runs_vals (y :: r)) as [|z w] eqn:Ev.
    - reflexivity.
    - simpl in Hh. subst z.
      change (neq_adj T eqb (x :: y :: w)) with (negb (eqb x y) :: neq_adj T eqb (y :: w)).
      cbn [forallb]. rewrite E. exact IH.
  Qed.

  Lemma rlencode_spec : forall l, l <> [] ->
    rlencode eqb l = Ok (runs_vals l, diffZ (-1)%Z (map Z.of_nat (runs_end 0 l))).
  Proof.
    intros l H. unfold rlencode. destruct l as [|x r]; [congruence|].
    pose proof (index_runs (x :: r) 0 H) as Hi. cbn [Nat.add] in Hi. rewrite Hi.
    pose proof (gather_runs (x :: r) []) as Hg. cbn [app length] in Hg. rewrite Hg. reflexivity.
  Qed.

  Lemma rlencode_roundtrip : forall l, l <> [] ->
    exists v num, rlencode eqb l = Ok (v, num) /\ rldecode v num = Ok l /\
                  length v = length num /\ Forall (fun c => 1 <= c)%Z num /\
                  forallb (fun b => b) (neq_adj T eqb v) = true.
  Proof.
    intros l H. eexists. eexists. split; [apply rlencode_spec; exact H|].
    assert (Hlen : length (runs_vals l) = length (diffZ (-1)%Z (map Z.of_nat (runs_end 0 l)))).
    { rewrite diffZ_length, map_length. apply runs_lengths. }
    split; [|split; [exact Hlen|split; [apply counts_positive; lia|apply runs_vals_distinct]]].
    rewrite rldecode_spec by lia.
    f_equal. pose proof (decode_runs l 0 (-1)%Z H) as D. unfold rep in D. rewrite D by lia.
    destruct l; [congruence|]. reflexivity.
  Qed.
End Encode.
