(* C28 — segments_3d, the point branch: exact correctness under the guard [sep3]
   (the projected discriminant test does not fire, and the final |z1 - z2| < tol test
   answers like z1 == z2). *)
From Coq Require Import List QArith Qabs Bool ZArith Lia Lqa Nsatz.
Import ListNotations.
From PP Require Import Model.C28 Proofs.C28.
Open Scope Q_scope.

Definition sep3 (tol : Q) (s1 e1 s2 e2 : pt3) : bool :=
  let dl1 := map2 Qminus e1 s1 in
  let dl2 := map2 Qminus e2 s2 in
  let m1 := map (fun x => qltb tol (Qabs x)) dl1 in
  let m2 := map (fun x => qltb tol (Qabs x)) dl2 in
  let ms := map2 orb m1 m2 in
  let '(i0, i1, ni) := pick_axes ms in
  let discr := c3 dl1 i0 * c3 dl2 i1 - c3 dl1 i1 * c3 dl2 i0 in
  negb (qltb (Qabs discr) tol) &&
  let discr' := c3 dl1 i0 * (- c3 dl2 i1) - c3 dl1 i1 * (- c3 dl2 i0) in
  let t1 := ((c3 s2 i0 - c3 s1 i0) * (- c3 dl2 i1)
             - (c3 s2 i1 - c3 s1 i1) * (- c3 dl2 i0)) / discr' in
  let t2 := (c3 dl1 i0 * (c3 s2 i1 - c3 s1 i1)
             - c3 dl1 i1 * (c3 s2 i0 - c3 s1 i0)) / discr' in
  let z1 := c3 s1 ni + t1 * c3 dl1 ni in
  let z2 := c3 s2 ni + t2 * c3 dl2 ni in
  implb (qltb (Qabs (z1 - z2)) tol) (Qeq_bool z1 z2).

(* a common point of the two parametrised segments a + s u, c + t w *)
Definition meet (a u c w p : pt3) : Prop :=
  exists s t, 0 <= s /\ s <= 1 /\ 0 <= t /\ t <= 1 /\
    forall i, (i < 3)%nat -> c3 p i == c3 a i + s * c3 u i /\ c3 p i == c3 c i + t * c3 w i.

Lemma common3_meet : forall a0 a1 a2 b0 b1 b2 c0 c1 c2 d0 d1 d2 p,
  common3 p [a0; a1; a2] [b0; b1; b2] [c0; c1; c2] [d0; d1; d2] <->
  meet [a0; a1; a2] [b0 - a0; b1 - a1; b2 - a2] [c0; c1; c2] [d0 - c0; d1 - c1; d2 - c2] p.
Proof.
  intros. unfold common3, on_seg3, meet. split.
  - intros [[s [S0 [S1 Hs]]] [t [T0 [T1 Ht]]]]. exists s, t. repeat split; try assumption.
    + specialize (Hs i H). idx3 i H; unfold c3 in *; cbn [List.nth] in *; exact Hs.
    + specialize (Ht i H). idx3 i H; unfold c3 in *; cbn [List.nth] in *; exact Ht.
  - intros [s [t (S0 & S1 & T0 & T1 & H)]]. split.
    + exists s. repeat split; try assumption. intros i Hi. destruct (H i Hi) as [E _].
      idx3 i Hi; unfold c3 in *; cbn [List.nth] in *; exact E.
    + exists t. repeat split; try assumption. intros i Hi. destruct (H i Hi) as [_ E].
      idx3 i Hi; unfold c3 in *; cbn [List.nth] in *; exact E.
Qed.

Definition pt_correct (a u c w : pt3) (r : res3) : Prop :=
  match r with
  | R3None => forall p, ~ meet a u c w p
  | R3Cols [q] => forall p, meet a u c w p <-> peq3 p q
  | _ => False
  end.

Lemma qabs_lt_zero : forall x tol, 0 < tol -> x == 0 -> qltb (Qabs x) tol = true.
Proof. intros x tol Ht E. apply qltb_true. rewrite E. exact Ht. Qed.

Lemma seg3d_pt_correct : forall tol a0 a1 a2 c0 c1 c2 u0 u1 u2 w0 w1 w2 i0 i1 ni,
  0 < tol ->
  (i0, i1, ni) = (0, 1, 2)%nat \/ (i0, i1, ni) = (0, 2, 1)%nat \/ (i0, i1, ni) = (1, 2, 0)%nat ->
  let a := [a0; a1; a2] in let c := [c0; c1; c2] in
  let u := [u0; u1; u2] in let w := [w0; w1; w2] in
  ~ c3 u i0 * c3 w i1 - c3 u i1 * c3 w i0 == 0 ->
  (let discr' := c3 u i0 * (- c3 w i1) - c3 u i1 * (- c3 w i0) in
   let t1 := ((c3 c i0 - c3 a i0) * (- c3 w i1) - (c3 c i1 - c3 a i1) * (- c3 w i0)) / discr' in
   let t2 := (c3 u i0 * (c3 c i1 - c3 a i1) - c3 u i1 * (c3 c i0 - c3 a i0)) / discr' in
   let z1 := c3 a ni + t1 * c3 u ni in
   let z2 := c3 c ni + t2 * c3 w ni in
   implb (qltb (Qabs (z1 - z2)) tol) (Qeq_bool z1 z2) = true) ->
  pt_correct a u c w (seg3d_pt tol a c u w i0 i1 ni).
Proof.
  intros tol a0 a1 a2 c0 c1 c2 u0 u1 u2 w0 w1 w2 i0 i1 ni Ht Hax a c u w Hd G.
  unfold seg3d_pt. cbv zeta in *. unfold a, c, u, w in *. clear a c u w.
  destruct Hax as [E | [E | E]]; injection E as -> -> ->; unfold c3 in *; cbn [List.nth] in *.
  - (* axes (0,1), check on 2 *)
    assert (ND : ~ u0 * (- w1) - u1 * (- w0) == 0) by (intro Z0; apply Hd; lra).
    destruct (cramer_sound u0 u1 w0 w1 (c0 - a0) (c1 - a1) ND) as [Cx Cy].
    cbv zeta in Cx, Cy.
    pose proof (fun s t => cramer_unique u0 u1 w0 w1 (c0 - a0) (c1 - a1) s t ND) as CU.
    set (t1 := ((c0 - a0) * - w1 - (c1 - a1) * - w0) / (u0 * - w1 - u1 * - w0)) in *.
    set (t2 := (u0 * (c1 - a1) - u1 * (c0 - a0)) / (u0 * - w1 - u1 * - w0)) in *.
    destruct (qltb t1 0 || qltb 1 t1 || qltb t2 0 || qltb 1 t2) eqn:ER.
    + intros p [s [t (S0 & S1 & T0 & T1 & H)]].
      destruct (H 0%nat ltac:(lia)) as [Ex Ex']. destruct (H 1%nat ltac:(lia)) as [Ey Ey'].
      unfold c3 in *; cbn [List.nth] in *.
      destruct (CU s t ltac:(lra) ltac:(lra)) as [Es Et]. fold t1 in Es. fold t2 in Et.
      assert (R : qltb t1 0 || qltb 1 t1 || qltb t2 0 || qltb 1 t2 = false).
      { assert (qltb t1 0 = false) by (apply qltb_false; lra).
        assert (qltb 1 t1 = false) by (apply qltb_false; lra).
        assert (qltb t2 0 = false) by (apply qltb_false; lra).
        assert (qltb 1 t2 = false) by (apply qltb_false; lra).
        rewrite H0, H1, H2, H3. reflexivity. }
      congruence.
    + apply orb_false_iff in ER. destruct ER as [ER R4].
      apply orb_false_iff in ER. destruct ER as [ER R3].
      apply orb_false_iff in ER. destruct ER as [R1 R2].
      apply qltb_false in R1, R2, R3, R4.
      destruct (qltb (Qabs (a2 + t1 * u2 - (c2 + t2 * w2))) tol) eqn:EZ.
      * cbn [implb] in G. apply Qeq_bool_iff in G.
        cbn [pt_correct List.map Nat.eqb]. intro p. unfold meet, peq3. split.
        -- intros [s [t (S0 & S1 & T0 & T1 & H)]].
           destruct (H 0%nat ltac:(lia)) as [Ex Ex']. destruct (H 1%nat ltac:(lia)) as [Ey Ey'].
           unfold c3 in *; cbn [List.nth] in *.
           destruct (CU s t ltac:(lra) ltac:(lra)) as [Es Et]. fold t1 in Es. fold t2 in Et.
           intros i Hi. destruct (H i Hi) as [E _]. rewrite E.
           idx3 i Hi; unfold c3; cbn [List.nth]; rewrite Es; reflexivity.
        -- intro H. exists t1, t2. repeat split; try assumption;
             specialize (H i H0); idx3 i H0; unfold c3 in *; cbn [List.nth] in *; lra.
      * cbn [pt_correct]. intros p [s [t (S0 & S1 & T0 & T1 & H)]].
        destruct (H 0%nat ltac:(lia)) as [Ex Ex']. destruct (H 1%nat ltac:(lia)) as [Ey Ey'].
        destruct (H 2%nat ltac:(lia)) as [Ez Ez'].
        unfold c3 in *; cbn [List.nth] in *.
        destruct (CU s t ltac:(lra) ltac:(lra)) as [Es Et]. fold t1 in Es. fold t2 in Et.
        assert (Z0 : a2 + t1 * u2 - (c2 + t2 * w2) == 0) by (rewrite <- Es, <- Et; lra).
        rewrite (qabs_lt_zero _ _ Ht Z0) in EZ. discriminate.
  - (* axes (0,2), check on 1 *)
    assert (ND : ~ u0 * (- w2) - u2 * (- w0) == 0) by (intro Z0; apply Hd; lra).
    destruct (cramer_sound u0 u2 w0 w2 (c0 - a0) (c2 - a2) ND) as [Cx Cy].
    cbv zeta in Cx, Cy.
    pose proof (fun s t => cramer_unique u0 u2 w0 w2 (c0 - a0) (c2 - a2) s t ND) as CU.
    set (t1 := ((c0 - a0) * - w2 - (c2 - a2) * - w0) / (u0 * - w2 - u2 * - w0)) in *.
    set (t2 := (u0 * (c2 - a2) - u2 * (c0 - a0)) / (u0 * - w2 - u2 * - w0)) in *.
    destruct (qltb t1 0 || qltb 1 t1 || qltb t2 0 || qltb 1 t2) eqn:ER.
    + intros p [s [t (S0 & S1 & T0 & T1 & H)]].
      destruct (H 0%nat ltac:(lia)) as [Ex Ex']. destruct (H 2%nat ltac:(lia)) as [Ey Ey'].
      unfold c3 in *; cbn [List.nth] in *.
      destruct (CU s t ltac:(lra) ltac:(lra)) as [Es Et]. fold t1 in Es. fold t2 in Et.
      assert (R : qltb t1 0 || qltb 1 t1 || qltb t2 0 || qltb 1 t2 = false).
      { assert (qltb t1 0 = false) by (apply qltb_false; lra).
        assert (qltb 1 t1 = false) by (apply qltb_false; lra).
        assert (qltb t2 0 = false) by (apply qltb_false; lra).
        assert (qltb 1 t2 = false) by (apply qltb_false; lra).
        rewrite H0, H1, H2, H3. reflexivity. }
      congruence.
    + apply orb_false_iff in ER. destruct ER as [ER R4].
      apply orb_false_iff in ER. destruct ER as [ER R3].
      apply orb_false_iff in ER. destruct ER as [R1 R2].
      apply qltb_false in R1, R2, R3, R4.
      destruct (qltb (Qabs (a1 + t1 * u1 - (c1 + t2 * w1))) tol) eqn:EZ.
      * cbn [implb] in G. apply Qeq_bool_iff in G.
        cbn [pt_correct List.map Nat.eqb]. intro p. unfold meet, peq3. split.
        -- intros [s [t (S0 & S1 & T0 & T1 & H)]].
           destruct (H 0%nat ltac:(lia)) as [Ex Ex']. destruct (H 2%nat ltac:(lia)) as [Ey Ey'].
           unfold c3 in *; cbn [List.nth] in *.
           destruct (CU s t ltac:(lra) ltac:(lra)) as [Es Et]. fold t1 in Es. fold t2 in Et.
           intros i Hi. destruct (H i Hi) as [E _]. rewrite E.
           idx3 i Hi; unfold c3; cbn [List.nth]; rewrite Es; reflexivity.
        -- intro H. exists t1, t2. repeat split; try assumption;
             specialize (H i H0); idx3 i H0; unfold c3 in *; cbn [List.nth] in *; lra.
      * cbn [pt_correct]. intros p [s [t (S0 & S1 & T0 & T1 & H)]].
        destruct (H 0%nat ltac:(lia)) as [Ex Ex']. destruct (H 2%nat ltac:(lia)) as [Ey Ey'].
        destruct (H 1%nat ltac:(lia)) as [Ez Ez'].
        unfold c3 in *; cbn [List.nth] in *.
        destruct (CU s t ltac:(lra) ltac:(lra)) as [Es Et]. fold t1 in Es. fold t2 in Et.
        assert (Z0 : a1 + t1 * u1 - (c1 + t2 * w1) == 0) by (rewrite <- Es, <- Et; lra).
        rewrite (qabs_lt_zero _ _ Ht Z0) in EZ. discriminate.
  - (* axes (1,2), check on 0 *)
    assert (ND : ~ u1 * (- w2) - u2 * (- w1) == 0) by (intro Z0; apply Hd; lra).
    destruct (cramer_sound u1 u2 w1 w2 (c1 - a1) (c2 - a2) ND) as [Cx Cy].
    cbv zeta in Cx, Cy.
    pose proof (fun s t => cramer_unique u1 u2 w1 w2 (c1 - a1) (c2 - a2) s t ND) as CU.
    set (t1 := ((c1 - a1) * - w2 - (c2 - a2) * - w1) / (u1 * - w2 - u2 * - w1)) in *.
    set (t2 := (u1 * (c2 - a2) - u2 * (c1 - a1)) / (u1 * - w2 - u2 * - w1)) in *.
    destruct (qltb t1 0 || qltb 1 t1 || qltb t2 0 || qltb 1 t2) eqn:ER.
    + intros p [s [t (S0 & S1 & T0 & T1 & H)]].
      destruct (H 1%nat ltac:(lia)) as [Ex Ex']. destruct (H 2%nat ltac:(lia)) as [Ey Ey'].
      unfold c3 in *; cbn [List.nth] in *.
      destruct (CU s t ltac:(lra) ltac:(lra)) as [Es Et]. fold t1 in Es. fold t2 in Et.
      assert (R : qltb t1 0 || qltb 1 t1 || qltb t2 0 || qltb 1 t2 = false).
      { assert (qltb t1 0 = false) by (apply qltb_false; lra).
        assert (qltb 1 t1 = false) by (apply qltb_false; lra).
        assert (qltb t2 0 = false) by (apply qltb_false; lra).
        assert (qltb 1 t2 = false) by (apply qltb_false; lra).
        rewrite H0, H1, H2, H3. reflexivity. }
      congruence.
    + apply orb_false_iff in ER. destruct ER as [ER R4].
      apply orb_false_iff in ER. destruct ER as [ER R3].
      apply orb_false_iff in ER. destruct ER as [R1 R2].
      apply qltb_false in R1, R2, R3, R4.
      destruct (qltb (Qabs (a0 + t1 * u0 - (c0 + t2 * w0))) tol) eqn:EZ.
      * cbn [implb] in G. apply Qeq_bool_iff in G.
        cbn [pt_correct List.map Nat.eqb]. intro p. unfold meet, peq3. split.
        -- intros [s [t (S0 & S1 & T0 & T1 & H)]].
           destruct (H 1%nat ltac:(lia)) as [Ex Ex']. destruct (H 2%nat ltac:(lia)) as [Ey Ey'].
           unfold c3 in *; cbn [List.nth] in *.
           destruct (CU s t ltac:(lra) ltac:(lra)) as [Es Et]. fold t1 in Es. fold t2 in Et.
           intros i Hi. destruct (H i Hi) as [E _]. rewrite E.
           idx3 i Hi; unfold c3; cbn [List.nth]; rewrite Es; reflexivity.
        -- intro H. exists t1, t2. repeat split; try assumption;
             specialize (H i H0); idx3 i H0; unfold c3 in *; cbn [List.nth] in *; lra.
      * cbn [pt_correct]. intros p [s [t (S0 & S1 & T0 & T1 & H)]].
        destruct (H 1%nat ltac:(lia)) as [Ex Ex']. destruct (H 2%nat ltac:(lia)) as [Ey Ey'].
        destruct (H 0%nat ltac:(lia)) as [Ez Ez'].
        unfold c3 in *; cbn [List.nth] in *.
        destruct (CU s t ltac:(lra) ltac:(lra)) as [Es Et]. fold t1 in Es. fold t2 in Et.
        assert (Z0 : a0 + t1 * u0 - (c0 + t2 * w0) == 0) by (rewrite <- Es, <- Et; lra).
        rewrite (qabs_lt_zero _ _ Ht Z0) in EZ. discriminate.
Qed.

Lemma pt_correct_correct3 : forall a0 a1 a2 b0 b1 b2 c0 c1 c2 d0 d1 d2 r,
  pt_correct [a0; a1; a2] [b0 - a0; b1 - a1; b2 - a2] [c0; c1; c2] [d0 - c0; d1 - c1; d2 - c2] r ->
  correct3 [a0; a1; a2] [b0; b1; b2] [c0; c1; c2] [d0; d1; d2] r.
Proof.
  intros a0 a1 a2 b0 b1 b2 c0 c1 c2 d0 d1 d2 r H.
  destruct r as [|cols|e]; cbn [pt_correct correct3] in *.
  - intros p Hc. apply common3_meet in Hc. exact (H p Hc).
  - destruct cols as [|q [|q2 r]]; try contradiction.
    intro p. rewrite common3_meet. apply H.
  - contradiction.
Qed.

(* segments_3d, point branch: for arbitrary rational end points and tol > 0, under the
   guard [sep3] the result is exactly the intersection of the two segments. *)
Lemma seg3d_correct_sep : forall tol a0 a1 a2 b0 b1 b2 c0 c1 c2 d0 d1 d2,
  0 < tol ->
  sep3 tol [a0; a1; a2] [b0; b1; b2] [c0; c1; c2] [d0; d1; d2] = true ->
  correct3 [a0; a1; a2] [b0; b1; b2] [c0; c1; c2] [d0; d1; d2]
           (seg3d tol [a0; a1; a2] [b0; b1; b2] [c0; c1; c2] [d0; d1; d2]).
Proof.
  intros tol a0 a1 a2 b0 b1 b2 c0 c1 c2 d0 d1 d2 Ht S.
  apply pt_correct_correct3.
  unfold seg3d, sep3 in *. cbn [map2 List.map] in *. cbv zeta in *.
  match type of S with context [pick_axes ?m] => set (ms := m) in * end.
  assert (K : exists i0 i1 ni, pick_axes ms = (i0, i1, ni) /\
            ((i0, i1, ni) = (0, 1, 2)%nat \/ (i0, i1, ni) = (0, 2, 1)%nat \/
             (i0, i1, ni) = (1, 2, 0)%nat)).
  { destruct (pick_axes_cases ms) as [E | [E | E]]; rewrite E; eauto 10. }
  destruct K as (i0 & i1 & ni & E & Hax). rewrite E in *.
  apply andb_prop in S. destruct S as [S1 S2].
  apply negb_true_iff in S1. rewrite S1.
  apply seg3d_pt_correct; try assumption.
  apply qltb_false in S1. intro Z0. rewrite Z0 in S1. change (Qabs 0) with 0 in S1. lra.
Qed.

(* ------------------------------------------------------------------ integer inputs *)
(* for integer end points the guard reduces to: the projected discriminant is not 0 *)
Definition proj_discr (s1 e1 s2 e2 : pt3) : Q :=
  let dl1 := map2 Qminus e1 s1 in
  let dl2 := map2 Qminus e2 s2 in
  let m1 := map (fun x => qltb tol8 (Qabs x)) dl1 in
  let m2 := map (fun x => qltb tol8 (Qabs x)) dl2 in
  let '(i0, i1, ni) := pick_axes (map2 orb m1 m2) in
  c3 dl1 i0 * c3 dl2 i1 - c3 dl1 i1 * c3 dl2 i0.

Definition zpt3 (x y z : Z) : pt3 := [inject_Z x; inject_Z y; inject_Z z].

Lemma int_abs_ge1 : forall q z, q == inject_Z z -> ~ q == 0 -> 1 <= Qabs q.
Proof.
  intros q z E N. destruct (Qlt_le_dec q 0) as [L | L].
  - rewrite Qabs_neg by lra.
    assert (E' : - q == inject_Z (- z)) by (rewrite inject_Z_opp, E; reflexivity).
    apply (int_pos_ge1 _ _ E'). lra.
  - rewrite Qabs_pos by lra. apply (int_pos_ge1 _ _ E). lra.
Qed.

Definition isint (q : Q) : Prop := exists z : Z, q == inject_Z z.

Lemma isint_inj : forall z, isint (inject_Z z).
Proof. intro z. exists z. reflexivity. Qed.
Lemma isint_sub : forall x y, isint x -> isint y -> isint (x - y).
Proof. intros x y [a Ha] [b Hb]. exists (a - b)%Z. rewrite Ha, Hb. apply injZ_sub. Qed.
Lemma isint_mul : forall x y, isint x -> isint y -> isint (x * y).
Proof. intros x y [a Ha] [b Hb]. exists (a * b)%Z. rewrite Ha, Hb, inject_Z_mult. reflexivity. Qed.
Lemma isint_add : forall x y, isint x -> isint y -> isint (x + y).
Proof. intros x y [a Ha] [b Hb]. exists (a + b)%Z. rewrite Ha, Hb, inject_Z_plus. reflexivity. Qed.
Lemma isint_opp : forall x, isint x -> isint (- x).
Proof. intros x [a Ha]. exists (- a)%Z. rewrite Ha, inject_Z_opp. reflexivity. Qed.

Ltac isint_tac :=
  repeat first [apply isint_inj | apply isint_sub | apply isint_add | apply isint_mul | apply isint_opp].

Lemma z_sep_int : forall a c u w n1 n2 D,
  isint a -> isint c -> isint u -> isint w -> isint n1 -> isint n2 -> isint D ->
  ~ D == 0 -> - bigM <= D -> D <= bigM ->
  let z1 := a + n1 / D * u in let z2 := c + n2 / D * w in
  Qabs (z1 - z2) < tol8 -> z1 == z2.
Proof.
  intros a c u w n1 n2 D Ia Ic Iu Iw I1 I2 [zD ED] ND Lo Hi z1 z2 H.
  assert (G1 : on_grid D z1).
  { destruct (isint_add _ _ (isint_mul _ _ Ia (ex_intro _ zD ED)) (isint_mul _ _ I1 Iu)) as [k Hk].
    exists k. rewrite <- Hk. unfold z1. field. exact ND. }
  assert (G2 : on_grid D z2).
  { destruct (isint_add _ _ (isint_mul _ _ Ic (ex_intro _ zD ED)) (isint_mul _ _ I2 Iw)) as [k Hk].
    exists k. rewrite <- Hk. unfold z2. field. exact ND. }
  apply Qabs_Qlt_condition in H. destruct H as [H1 H2].
  assert (L1 : z1 <= z2) by (apply (grid_gap D zD z1 z2 ED ND Lo Hi G1 G2); lra).
  assert (L2 : z2 <= z1) by (apply (grid_gap D zD z2 z1 ED ND Lo Hi G2 G1); lra).
  lra.
Qed.

Lemma diff_bound : forall x y, inbox x -> inbox y ->
  isint (inject_Z x - inject_Z y) /\ -2000 <= inject_Z x - inject_Z y /\ inject_Z x - inject_Z y <= 2000.
Proof.
  intros x y Hx Hy. apply inbox_Q in Hx, Hy. split; [isint_tac|]. lra.
Qed.

Lemma det_bound : forall p q r s,
  -2000 <= p /\ p <= 2000 -> -2000 <= q /\ q <= 2000 ->
  -2000 <= r /\ r <= 2000 -> -2000 <= s /\ s <= 2000 ->
  - bigM <= p * (- q) - r * (- s) /\ p * (- q) - r * (- s) <= bigM.
Proof.
  intros p q r s Hp Hq Hr Hs.
  pose proof (prod_bound p q Hp Hq) as [A B]. pose proof (prod_bound r s Hr Hs) as [C D].
  unfold bigM. split; lra.
Qed.

Lemma seg3d_correct_int : forall ax ay az bx by_ bz cx cy cz dx dy dz : Z,
  inbox ax -> inbox ay -> inbox az -> inbox bx -> inbox by_ -> inbox bz ->
  inbox cx -> inbox cy -> inbox cz -> inbox dx -> inbox dy -> inbox dz ->
  let A := zpt3 ax ay az in let B := zpt3 bx by_ bz in
  let C := zpt3 cx cy cz in let D := zpt3 dx dy dz in
  ~ proj_discr A B C D == 0 ->
  correct3 A B C D (seg3d tol8 A B C D).
Proof.
  intros ax ay az bx by_ bz cx cy cz dx dy dz Bax Bay Baz Bbx Bby Bbz Bcx Bcy Bcz Bdx Bdy Bdz
         A B C D HP.
  unfold A, B, C, D, zpt3 in *. clear A B C D.
  apply seg3d_correct_sep; [unfold tol8; lra|].
  destruct (diff_bound bx ax Bbx Bax) as (Iu0 & Bu0).
  destruct (diff_bound by_ ay Bby Bay) as (Iu1 & Bu1).
  destruct (diff_bound bz az Bbz Baz) as (Iu2 & Bu2).
  destruct (diff_bound dx cx Bdx Bcx) as (Iw0 & Bw0).
  destruct (diff_bound dy cy Bdy Bcy) as (Iw1 & Bw1).
  destruct (diff_bound dz cz Bdz Bcz) as (Iw2 & Bw2).
  unfold sep3, proj_discr in *. cbn [map2 List.map] in *. cbv zeta in *.
  match goal with |- context [pick_axes ?m] => set (ms := m) in * end.
  set (u0 := inject_Z bx - inject_Z ax) in *. set (u1 := inject_Z by_ - inject_Z ay) in *.
  set (u2 := inject_Z bz - inject_Z az) in *. set (w0 := inject_Z dx - inject_Z cx) in *.
  set (w1 := inject_Z dy - inject_Z cy) in *. set (w2 := inject_Z dz - inject_Z cz) in *.
  destruct (pick_axes_cases ms) as [E | [E | E]]; rewrite E in *;
    unfold c3 in *; cbn [List.nth] in *.
  - apply andb_true_intro. split.
    + apply negb_true_iff. apply qltb_false.
      assert (I : isint (u0 * w1 - u1 * w0)) by isint_tac. destruct I as [z Hz].
      pose proof (int_abs_ge1 _ _ Hz HP). unfold tol8. lra.
    + match goal with |- implb ?b _ = true => destruct b eqn:EZ end; [|reflexivity].
      cbn [implb]. apply Qeq_bool_iff. apply qltb_true in EZ.
      apply z_sep_int; try assumption; try isint_tac.
      * intro Z0. apply HP. lra.
      * apply det_bound; assumption.
      * apply det_bound; assumption.
  - apply andb_true_intro. split.
    + apply negb_true_iff. apply qltb_false.
      assert (I : isint (u0 * w2 - u2 * w0)) by isint_tac. destruct I as [z Hz].
      pose proof (int_abs_ge1 _ _ Hz HP). unfold tol8. lra.
    + match goal with |- implb ?b _ = true => destruct b eqn:EZ end; [|reflexivity].
      cbn [implb]. apply Qeq_bool_iff. apply qltb_true in EZ.
      apply z_sep_int; try assumption; try isint_tac.
      * intro Z0. apply HP. lra.
      * apply det_bound; assumption.
      * apply det_bound; assumption.
  - apply andb_true_intro. split.
    + apply negb_true_iff. apply qltb_false.
      assert (I : isint (u1 * w2 - u2 * w1)) by isint_tac. destruct I as [z Hz].
      pose proof (int_abs_ge1 _ _ Hz HP). unfold tol8. lra.
    + match goal with |- implb ?b _ = true => destruct b eqn:EZ end; [|reflexivity].
      cbn [implb]. apply Qeq_bool_iff. apply qltb_true in EZ.
      apply z_sep_int; try assumption; try isint_tac.
      * intro Z0. apply HP. lra.
      * apply det_bound; assumption.
      * apply det_bound; assumption.
Qed.

(* ------------------------------------------------------------------ parallel, off-line *)
(* whatever the earlier tests say, a start-difference that is not parallel to segment 1
   (some component of (s2 - s1) x d1 beyond tol) makes the parallel branch return None *)
Lemma seg3d_par_offline : forall tol s1 e1 s2 e2 dl1 dl2 m1 m2,
  let ds := map2 Qminus s2 s1 in
  (qltb tol (Qabs (c3 ds 1 * c3 dl1 2 - c3 ds 2 * c3 dl1 1)) = true \/
   qltb tol (Qabs (c3 ds 2 * c3 dl1 0 - c3 ds 0 * c3 dl1 2)) = true \/
   qltb tol (Qabs (c3 ds 0 * c3 dl1 1 - c3 ds 1 * c3 dl1 0)) = true) ->
  seg3d_par tol s1 e1 s2 e2 dl1 dl2 m1 m2 = R3None.
Proof.
  intros tol s1 e1 s2 e2 dl1 dl2 m1 m2 ds H. unfold seg3d_par. cbv zeta. fold ds.
  destruct (negb (bools_eqb m1 m2)); [reflexivity|].
  match goal with |- (if ?b then _ else _) = _ => destruct b end; [reflexivity|].
  match goal with |- (if ?b then _ else _) = _ => destruct b end; [reflexivity|].
  destruct (qltb tol (Qabs (c3 ds 1 * c3 dl1 2 - c3 ds 2 * c3 dl1 1))) eqn:E1; [reflexivity|].
  destruct (qltb tol (Qabs (c3 ds 2 * c3 dl1 0 - c3 ds 0 * c3 dl1 2))) eqn:E2; [reflexivity|].
  destruct (qltb tol (Qabs (c3 ds 0 * c3 dl1 1 - c3 ds 1 * c3 dl1 0))) eqn:E3; [reflexivity|].
  destruct H as [H | [H | H]]; discriminate.
Qed.

(* parallel direction vectors and a start difference not parallel to them: no common point *)
Lemma parallel_offline_disjoint : forall a0 a1 a2 b0 b1 b2 c0 c1 c2 d0 d1 d2 p,
  let u0 := b0 - a0 in let u1 := b1 - a1 in let u2 := b2 - a2 in
  let w0 := d0 - c0 in let w1 := d1 - c1 in let w2 := d2 - c2 in
  u1 * w2 - u2 * w1 == 0 -> u2 * w0 - u0 * w2 == 0 -> u0 * w1 - u1 * w0 == 0 ->
  ~ ((c1 - a1) * u2 - (c2 - a2) * u1 == 0 /\ (c2 - a2) * u0 - (c0 - a0) * u2 == 0 /\
     (c0 - a0) * u1 - (c1 - a1) * u0 == 0) ->
  ~ common3 p [a0; a1; a2] [b0; b1; b2] [c0; c1; c2] [d0; d1; d2].
Proof.
  intros a0 a1 a2 b0 b1 b2 c0 c1 c2 d0 d1 d2 p u0 u1 u2 w0 w1 w2 P0 P1 P2 N
         [[s [_ [_ Hs]]] [t [_ [_ Ht]]]].
  pose proof (Hs 0%nat ltac:(lia)) as S0. pose proof (Hs 1%nat ltac:(lia)) as S1.
  pose proof (Hs 2%nat ltac:(lia)) as S2. pose proof (Ht 0%nat ltac:(lia)) as T0.
  pose proof (Ht 1%nat ltac:(lia)) as T1. pose proof (Ht 2%nat ltac:(lia)) as T2.
  unfold c3 in *. cbn [List.nth] in *.
  set (p0 := List.nth 0 p 0) in *. set (p1 := List.nth 1 p 0) in *. set (p2 := List.nth 2 p 0) in *.
  unfold u0, u1, u2, w0, w1, w2 in *.
  apply N. split; [|split].
  - clear - S1 S2 T1 T2 P0. nsatz.
  - clear - S0 S2 T0 T2 P1. nsatz.
  - clear - S0 S1 T0 T1 P2. nsatz.
Qed.

(* segments_3d on parallel lines that are not the same line (beyond tol): returns None, and
   that is the exact answer.  Any rational end points, any tol > 0. *)
Lemma seg3d_parallel_offline_correct : forall tol a0 a1 a2 b0 b1 b2 c0 c1 c2 d0 d1 d2,
  0 < tol ->
  let u0 := b0 - a0 in let u1 := b1 - a1 in let u2 := b2 - a2 in
  let w0 := d0 - c0 in let w1 := d1 - c1 in let w2 := d2 - c2 in
  u1 * w2 - u2 * w1 == 0 -> u2 * w0 - u0 * w2 == 0 -> u0 * w1 - u1 * w0 == 0 ->
  (tol < Qabs ((c1 - a1) * u2 - (c2 - a2) * u1) \/ tol < Qabs ((c2 - a2) * u0 - (c0 - a0) * u2) \/
   tol < Qabs ((c0 - a0) * u1 - (c1 - a1) * u0)) ->
  seg3d tol [a0; a1; a2] [b0; b1; b2] [c0; c1; c2] [d0; d1; d2] = R3None /\
  correct3 [a0; a1; a2] [b0; b1; b2] [c0; c1; c2] [d0; d1; d2]
           (seg3d tol [a0; a1; a2] [b0; b1; b2] [c0; c1; c2] [d0; d1; d2]).
Proof.
  intros tol a0 a1 a2 b0 b1 b2 c0 c1 c2 d0 d1 d2 Ht u0 u1 u2 w0 w1 w2 P0 P1 P2 Hoff.
  assert (E : seg3d tol [a0; a1; a2] [b0; b1; b2] [c0; c1; c2] [d0; d1; d2] = R3None).
  { unfold seg3d. cbn [map2 List.map]. cbv zeta.
    match goal with |- context [pick_axes ?m] => set (ms := m) end.
    assert (B : forall i0 i1 ni, pick_axes ms = (i0, i1, ni) ->
              qltb (Qabs (c3 [b0 - a0; b1 - a1; b2 - a2] i0 * c3 [d0 - c0; d1 - c1; d2 - c2] i1
                          - c3 [b0 - a0; b1 - a1; b2 - a2] i1 * c3 [d0 - c0; d1 - c1; d2 - c2] i0)) tol = true).
    { intros i0 i1 ni Ep. apply qabs_lt_zero; [exact Ht|].
      destruct (pick_axes_cases ms) as [E | [E | E]]; rewrite E in Ep; injection Ep as <- <- <-;
        unfold c3; cbn [List.nth]; unfold u0, u1, u2, w0, w1, w2 in *; lra. }
    destruct (pick_axes ms) as [[i0 i1] ni] eqn:Ep. rewrite (B i0 i1 ni eq_refl).
    apply seg3d_par_offline. unfold c3. cbn [map2 List.nth].
    unfold u0, u1, u2 in Hoff.
    destruct Hoff as [H | [H | H]]; [left|right; left|right; right]; apply qltb_true; exact H. }
  split; [exact E|]. rewrite E. cbn [correct3]. intro p.
  apply (parallel_offline_disjoint a0 a1 a2 b0 b1 b2 c0 c1 c2 d0 d1 d2 p P0 P1 P2).
  intros (Z0 & Z1 & Z2). fold u0 u1 u2 in Z0, Z1, Z2.
  destruct Hoff as [H | [H | H]]; [rewrite Z0 in H|rewrite Z1 in H|rewrite Z2 in H];
    change (Qabs 0) with 0 in H; lra.
Qed.
