(* C33 — lemmas and proofs about PP.Model.C33. *)
From Coq Require Import List QArith Bool Arith Lia Lqa Permutation.
Import ListNotations.
From PP Require Import Model.C33.
Open Scope Q_scope.

(* ---------------- comparison plumbing ---------------- *)
Lemma qle_bool_false : forall a b, Qle_bool a b = false -> b < a.
Proof.
  intros a b H. apply Qnot_le_lt. intro C. apply Qle_bool_iff in C. congruence.
Qed.

Lemma qeq_bool_false : forall a b, Qeq_bool a b = false -> ~ a == b.
Proof. intros a b H C. apply Qeq_bool_iff in C. congruence. Qed.

(* destruct every comparison in the goal, pruning contradictory branches *)
Ltac no_cmp t :=
  lazymatch t with
  | context [Qle_bool _ _] => fail
  | context [Qeq_bool _ _] => fail
  | _ => idtac
  end.

Ltac qcase :=
  repeat match goal with
  | |- context [Qle_bool ?a ?b] =>
      no_cmp a; no_cmp b;
      let H := fresh "Hc" in
      destruct (Qle_bool a b) eqn:H;
      [apply Qle_bool_iff in H | apply qle_bool_false in H];
      cbn [negb eqb andb orb nth insert fold_right fst snd];
      try (exfalso; lra)
  | |- context [Qeq_bool ?a ?b] =>
      no_cmp a; no_cmp b;
      let H := fresh "Hc" in
      destruct (Qeq_bool a b) eqn:H;
      [apply Qeq_bool_iff in H | apply qeq_bool_false in H];
      cbn [negb eqb andb orb nth insert fold_right fst snd];
      try (exfalso; lra)
  end.

Ltac qunf := unfold cmin, cmax, qltb, qmax, qmin, qabs in *.

Lemma cmin_le_cmax : forall c, cmin c <= cmax c.
Proof. intros [s e]. qunf. cbn [fst snd]. qcase; lra. Qed.

(* exact length of the intersection of two closed intervals given by their cells *)
Definition ilen (a b : cell) : Q :=
  qmax 0 (qmin (cmax a) (cmax b) - qmax (cmin a) (cmin b)).

Definition val (nrm : Q) (a b : cell) : Q :=
  match seg_overlap a b with OSeg x y => seg_len nrm x y | _ => 0 end.

Definition val1 (a b : cell) : Q :=
  match seg_overlap a b with OSeg x y => qabs (x - y) | _ => 0 end.

Lemma val1_ilen : forall a b, val1 a b == ilen a b.
Proof.
  intros [s1 e1] [s2 e2]. unfold val1, ilen, seg_overlap, isort.
  qunf. cbn [fst snd fold_right insert].
  qcase; lra.
Qed.

Lemma val_val1 : forall nrm a b, val nrm a b == val1 a b * nrm.
Proof.
  intros nrm a b. unfold val, val1, seg_len. destruct (seg_overlap a b); lra.
Qed.

Lemma val_ilen : forall nrm a b, val nrm a b == ilen a b * nrm.
Proof. intros. rewrite val_val1, val1_ilen. reflexivity. Qed.

Lemma ilen_sym : forall a b, ilen a b == ilen b a.
Proof.
  intros [s1 e1] [s2 e2]. unfold ilen. qunf. cbn [fst snd]. qcase; lra.
Qed.

Lemma ilen_nonneg : forall a b, 0 <= ilen a b.
Proof. intros a b. unfold ilen, qmax. qcase; lra. Qed.

Lemma val_sym : forall nrm a b, val nrm a b == val nrm b a.
Proof. intros. rewrite !val_ilen, ilen_sym. reflexivity. Qed.

Lemma val_nonneg : forall nrm a b, 0 <= nrm -> 0 <= val nrm a b.
Proof.
  intros nrm a b Hn. rewrite val_ilen. apply Qmult_le_0_compat; [apply ilen_nonneg | exact Hn].
Qed.

(* ---------------- sums ---------------- *)
Lemma qsum_cons : forall x l, qsum (x :: l) == x + qsum l.
Proof. intros. unfold qsum. cbn [fold_right]. apply Qred_correct. Qed.

Lemma qsum_nil : qsum [] == 0.
Proof. reflexivity. Qed.

Lemma qsum_app : forall l1 l2, qsum (l1 ++ l2) == qsum l1 + qsum l2.
Proof.
  induction l1 as [|x l1 IH]; intros l2.
  - cbn [app]. rewrite qsum_nil. lra.
  - cbn [app]. rewrite !qsum_cons, IH. lra.
Qed.

Lemma qsum_map_ext : forall (A : Type) (f g : A -> Q) l,
    (forall x, In x l -> f x == g x) -> qsum (map f l) == qsum (map g l).
Proof.
  induction l as [|x l IH]; intros H.
  - reflexivity.
  - cbn [map]. rewrite !qsum_cons, IH, (H x) by (intros; try apply H; cbn; auto). reflexivity.
Qed.

Lemma qsum_map_perm : forall (A : Type) (f : A -> Q) l l',
    Permutation l l' -> qsum (map f l) == qsum (map f l').
Proof.
  intros A f l l' P. induction P.
  - reflexivity.
  - cbn [map]. rewrite !qsum_cons, IHP. reflexivity.
  - cbn [map]. rewrite !qsum_cons. lra.
  - rewrite IHP1. exact IHP2.
Qed.

Lemma qsum_map_scale : forall (A : Type) (f : A -> Q) k l,
    qsum (map (fun x => f x * k) l) == qsum (map f l) * k.
Proof.
  induction l as [|x l IH]; cbn [map].
  - rewrite qsum_nil. lra.
  - rewrite !qsum_cons, IH. lra.
Qed.

Lemma qsum_nonneg : forall l, Forall (fun x => 0 <= x) l -> 0 <= qsum l.
Proof.
  induction 1 as [|x l Hx Hl IH].
  - rewrite qsum_nil. lra.
  - rewrite qsum_cons. lra.
Qed.

(* ---------------- tessellations of an interval ---------------- *)
(* cells listed from left to right: each starts where the previous one ended *)
Fixpoint chain (cs : list cell) (lo hi : Q) : Prop :=
  match cs with
  | [] => lo == hi
  | c :: r => cmin c == lo /\ chain r (cmax c) hi
  end.

(* the cells, in any order and orientation, tile [lo, hi] *)
Definition tessellates (cs : list cell) (lo hi : Q) : Prop :=
  exists cs', Permutation cs cs' /\ chain cs' lo hi.

Lemma chain_le : forall cs lo hi, chain cs lo hi -> lo <= hi.
Proof.
  induction cs as [|c r IH]; intros lo hi H; cbn [chain] in H.
  - lra.
  - destruct H as [H1 H2]. apply IH in H2. pose proof (cmin_le_cmax c). lra.
Qed.

Lemma chain_bounds : forall cs lo hi, chain cs lo hi ->
    forall c, In c cs -> lo <= cmin c /\ cmax c <= hi.
Proof.
  induction cs as [|c0 r IH]; intros lo hi H c Hin; cbn [chain] in H.
  - destruct Hin.
  - destruct H as [H1 H2]. pose proof (chain_le _ _ _ H2) as Hle.
    pose proof (cmin_le_cmax c0) as H0.
    destruct Hin as [->|Hin].
    + split; lra.
    + destruct (IH _ _ H2 c Hin) as [A B]. split; lra.
Qed.

Lemma ilen_step : forall u v cl cm L H S,
    u <= v -> cl == L -> cl <= cm -> cm <= H ->
    S == qmax 0 (qmin v H - qmax u cm) ->
    qmax 0 (qmin v cm - qmax u cl) + S == qmax 0 (qmin v H - qmax u L).
Proof.
  intros u v cl cm L H S H1 H2 H3 H4 H5. rewrite H5. clear H5 S.
  unfold qmax, qmin. qcase; lra.
Qed.

Lemma chain_sum : forall cs lo hi a, chain cs lo hi ->
    qsum (map (ilen a) cs) == qmax 0 (qmin (cmax a) hi - qmax (cmin a) lo).
Proof.
  induction cs as [|c r IH]; intros lo hi a H; cbn [chain] in H.
  - cbn [map]. rewrite qsum_nil. pose proof (cmin_le_cmax a) as Ha.
    revert Ha. generalize (cmin a) (cmax a). intros u v Ha.
    unfold qmax, qmin. qcase; lra.
  - destruct H as [H1 H2]. cbn [map]. rewrite qsum_cons.
    pose proof (chain_le _ _ _ H2) as Hle. pose proof (cmin_le_cmax c) as Hc.
    pose proof (cmin_le_cmax a) as Ha.
    unfold ilen at 1.
    apply ilen_step; try assumption. apply IH. exact H2.
Qed.

Lemma clen_abs : forall a : cell, cmax a - cmin a == qabs (fst a - snd a).
Proof. intros [s e]. qunf. cbn [fst snd]. qcase; lra. Qed.

Lemma tess_sum_inside : forall cs lo hi a, tessellates cs lo hi ->
    lo <= cmin a -> cmax a <= hi ->
    qsum (map (ilen a) cs) == qabs (fst a - snd a).
Proof.
  intros cs lo hi a [cs' [P C]] H1 H2.
  rewrite (qsum_map_perm _ (ilen a) _ _ P), (chain_sum _ _ _ a C), <- clen_abs.
  pose proof (cmin_le_cmax a) as Ha. revert H1 H2 Ha.
  generalize (cmin a) (cmax a). intros u v H1 H2 Ha.
  unfold qmax, qmin. qcase; lra.
Qed.

Lemma tess_bounds : forall cs lo hi c, tessellates cs lo hi -> In c cs ->
    lo <= cmin c /\ cmax c <= hi.
Proof.
  intros cs lo hi c [cs' [P C]] Hin. apply (chain_bounds _ _ _ C).
  apply (Permutation_in _ P Hin).
Qed.

(* for a cell of one tessellation, the exact overlaps with the cells of another
   tessellation of the same interval add up to its length *)
Lemma tess_cell_sum : forall nrm A B lo hi a,
    tessellates A lo hi -> tessellates B lo hi -> In a A ->
    qsum (map (val nrm a) B) == cell_vol nrm a.
Proof.
  intros nrm A B lo hi a TA TB Hin.
  destruct (tess_bounds _ _ _ _ TA Hin) as [H1 H2].
  rewrite (qsum_map_ext _ (val nrm a) (fun b => ilen a b * nrm))
    by (intros; apply val_ilen).
  rewrite qsum_map_scale, (tess_sum_inside _ _ _ _ TB H1 H2).
  unfold cell_vol. reflexivity.
Qed.

(* ---------------- the nested loops of line_tessellation ---------------- *)
Definition no_err (a b : cell) : Prop := seg_overlap a b <> OErr IndexErr.

Lemma lt_inner_rows : forall nrm i a bs j l,
    lt_inner nrm i a j bs = inr l -> Forall (fun e => erow e = i) l.
Proof.
  induction bs as [|b r IH]; intros j l H; cbn [lt_inner] in H.
  - inversion H. constructor.
  - destruct (seg_overlap a b) eqn:E; try discriminate.
    + eauto.
    + destruct (lt_inner nrm i a (S j) r) eqn:E2; try discriminate.
      inversion H; subst. constructor; [reflexivity | eauto].
Qed.

Lemma lt_inner_nonneg : forall nrm, 0 <= nrm -> forall i a bs j l,
    lt_inner nrm i a j bs = inr l -> Forall (fun e => 0 <= ewt e) l.
Proof.
  intros nrm Hn i a. induction bs as [|b r IH]; intros j l H; cbn [lt_inner] in H.
  - inversion H. constructor.
  - destruct (seg_overlap a b) eqn:E; try discriminate.
    + eauto.
    + destruct (lt_inner nrm i a (S j) r) eqn:E2; try discriminate.
      inversion H; subst. constructor; [|eauto].
      unfold ewt, seg_len. cbn [snd]. apply Qmult_le_0_compat; [|exact Hn].
      unfold qabs. qcase; lra.
Qed.

Lemma lt_inner_sum : forall nrm i a bs j l,
    lt_inner nrm i a j bs = inr l -> qsum (map ewt l) == qsum (map (val nrm a) bs).
Proof.
  induction bs as [|b r IH]; intros j l H; cbn [lt_inner] in H.
  - inversion H. reflexivity.
  - cbn [map]. rewrite qsum_cons. unfold val at 1.
    destruct (seg_overlap a b) eqn:E; try discriminate.
    + rewrite (IH _ _ H). lra.
    + destruct (lt_inner nrm i a (S j) r) eqn:E2; try discriminate.
      inversion H; subst. cbn [map]. rewrite qsum_cons, (IH _ _ E2).
      unfold ewt. cbn [snd]. reflexivity.
Qed.

(* column j0 of one row block *)
Lemma lt_inner_col : forall nrm i a bs j l j0,
    lt_inner nrm i a j bs = inr l ->
    col_sum l j0 ==
    if (j <=? j0)%nat && (j0 <? j + length bs)%nat
    then val nrm a (nth (j0 - j) bs (0, 0)) else 0.
Proof.
  induction bs as [|b r IH]; intros j l j0 H; cbn [lt_inner] in H.
  - inversion H. cbn [length]. replace (j + 0)%nat with j by lia.
    destruct (j <=? j0)%nat eqn:E1; destruct (j0 <? j)%nat eqn:E2; cbn [andb];
      try reflexivity.
    apply Nat.leb_le in E1. apply Nat.ltb_lt in E2. lia.
  - assert (Hrest : forall l', lt_inner nrm i a (S j) r = inr l' ->
        forall w, (w == val nrm a b) ->
        (if (ecol (i, j, w) =? j0)%nat then w + col_sum l' j0 else col_sum l' j0) ==
        if (j <=? j0)%nat && (j0 <? j + length (b :: r))%nat
        then val nrm a (nth (j0 - j) (b :: r) (0, 0)) else 0).
    { intros l' Hl' w Hw. pose proof (IH _ _ j0 Hl') as IHc. revert IHc.
      unfold ecol. cbn [fst snd length].
      destruct (j =? j0)%nat eqn:E0.
      - apply Nat.eqb_eq in E0. subst j0.
        replace (S j <=? j)%nat with false by (symmetry; apply Nat.leb_gt; lia).
        replace (j <=? j)%nat with true by (symmetry; apply Nat.leb_le; lia).
        replace (j <? j + S (length r))%nat with true by (symmetry; apply Nat.ltb_lt; lia).
        cbn [andb]. replace (j - j)%nat with 0%nat by lia. cbn [nth]. intros IHc. lra.
      - apply Nat.eqb_neq in E0.
        destruct (S j <=? j0)%nat eqn:E1.
        + apply Nat.leb_le in E1.
          replace (j <=? j0)%nat with true by (symmetry; apply Nat.leb_le; lia).
          replace (j0 <? j + S (length r))%nat with (j0 <? S j + length r)%nat
            by (f_equal; lia).
          cbn [andb]. replace (j0 - j)%nat with (S (j0 - S j)) by lia. cbn [nth].
          intros IHc; exact IHc.
        + apply Nat.leb_gt in E1.
          replace (j <=? j0)%nat with false by (symmetry; apply Nat.leb_gt; lia).
          cbn [andb]. intros IHc; exact IHc. }
    destruct (seg_overlap a b) eqn:E; try discriminate.
    + specialize (Hrest l H 0). rewrite <- Hrest.
      * destruct (Nat.eqb (ecol (i, j, 0)) j0); lra.
      * unfold val. rewrite E. reflexivity.
    + destruct (lt_inner nrm i a (S j) r) eqn:E2; try discriminate.
      inversion H; subst. specialize (Hrest l0 eq_refl (seg_len nrm x y)).
      rewrite <- Hrest.
      * unfold col_sum. cbn [filter].
        destruct (ecol (i, j, seg_len nrm x y) =? j0)%nat; cbn [map].
        -- rewrite qsum_cons. unfold ewt. cbn [snd]. reflexivity.
        -- reflexivity.
      * unfold val. rewrite E. reflexivity.
Qed.

Lemma row_sum_app : forall l1 l2 i, row_sum (l1 ++ l2) i == row_sum l1 i + row_sum l2 i.
Proof. intros. unfold row_sum. rewrite filter_app, map_app, qsum_app. reflexivity. Qed.

Lemma col_sum_app : forall l1 l2 j, col_sum (l1 ++ l2) j == col_sum l1 j + col_sum l2 j.
Proof. intros. unfold col_sum. rewrite filter_app, map_app, qsum_app. reflexivity. Qed.

Lemma row_sum_const_rows : forall l i i0, Forall (fun e => erow e = i) l ->
    row_sum l i0 == if (i =? i0)%nat then qsum (map ewt l) else 0.
Proof.
  intros l i i0 H. unfold row_sum. induction H as [|e l He Hl IH]; cbn [filter map].
  - destruct (i =? i0)%nat; reflexivity.
  - rewrite He. destruct (i =? i0)%nat eqn:E; cbn [map].
    + rewrite !qsum_cons, IH. reflexivity.
    + exact IH.
Qed.

Lemma lt_outer_row : forall nrm bs cs i l i0,
    lt_outer nrm i cs bs = inr l ->
    row_sum l i0 ==
    if (i <=? i0)%nat && (i0 <? i + length cs)%nat
    then qsum (map (val nrm (nth (i0 - i) cs (0, 0))) bs) else 0.
Proof.
  intros nrm bs. induction cs as [|a r IH]; intros i l i0 H; cbn [lt_outer] in H.
  - inversion H. cbn [length]. destruct ((i <=? i0)%nat && (i0 <? i + 0)%nat) eqn:E.
    + apply andb_prop in E. destruct E as [E1 E2].
      apply Nat.leb_le in E1. apply Nat.ltb_lt in E2. lia.
    + reflexivity.
  - destruct (lt_inner nrm i a 0 bs) as [|l1] eqn:E1; try discriminate.
    destruct (lt_outer nrm (S i) r bs) as [|l2] eqn:E2; try discriminate.
    inversion H; subst l. rewrite row_sum_app.
    pose proof (row_sum_const_rows _ _ i0 (lt_inner_rows _ _ _ _ _ _ E1)) as R1.
    pose proof (lt_inner_sum _ _ _ _ _ _ E1) as S1.
    pose proof (IH _ _ i0 E2) as IHc. revert R1 IHc. cbn [length].
    destruct (i =? i0)%nat eqn:E0.
    + apply Nat.eqb_eq in E0. subst i0.
      replace (S i <=? i)%nat with false by (symmetry; apply Nat.leb_gt; lia).
      replace (i <=? i)%nat with true by (symmetry; apply Nat.leb_le; lia).
      replace (i <? i + S (length r))%nat with true by (symmetry; apply Nat.ltb_lt; lia).
      cbn [andb]. replace (i - i)%nat with 0%nat by lia. cbn [nth]. intros R1 IHc. lra.
    + apply Nat.eqb_neq in E0.
      destruct (S i <=? i0)%nat eqn:E3.
      * apply Nat.leb_le in E3.
        replace (i <=? i0)%nat with true by (symmetry; apply Nat.leb_le; lia).
        replace (i0 <? i + S (length r))%nat with (i0 <? S i + length r)%nat
          by (f_equal; lia).
        cbn [andb]. replace (i0 - i)%nat with (S (i0 - S i)) by lia. cbn [nth].
        intros R1 IHc. lra.
      * apply Nat.leb_gt in E3.
        replace (i <=? i0)%nat with false by (symmetry; apply Nat.leb_gt; lia).
        cbn [andb]. intros R1 IHc. lra.
Qed.

Lemma lt_outer_col : forall nrm bs cs i l j0,
    lt_outer nrm i cs bs = inr l ->
    col_sum l j0 ==
    if (j0 <? length bs)%nat
    then qsum (map (fun a => val nrm a (nth j0 bs (0, 0))) cs) else 0.
Proof.
  intros nrm bs. induction cs as [|a r IH]; intros i l j0 H; cbn [lt_outer] in H.
  - inversion H. cbn [map]. destruct (j0 <? length bs)%nat; reflexivity.
  - destruct (lt_inner nrm i a 0 bs) as [|l1] eqn:E1; try discriminate.
    destruct (lt_outer nrm (S i) r bs) as [|l2] eqn:E2; try discriminate.
    inversion H; subst l. rewrite col_sum_app.
    pose proof (lt_inner_col _ _ _ _ _ _ j0 E1) as C1.
    pose proof (IH _ _ j0 E2) as C2. revert C1 C2.
    cbn [Nat.leb andb Nat.add]. replace (j0 - 0)%nat with j0 by lia.
    destruct (j0 <? length bs)%nat; intros C1 C2.
    + cbn [map]. rewrite qsum_cons. lra.
    + lra.
Qed.

Lemma lt_outer_nonneg : forall nrm, 0 <= nrm -> forall bs cs i l,
    lt_outer nrm i cs bs = inr l -> Forall (fun e => 0 <= ewt e) l.
Proof.
  intros nrm Hn bs. induction cs as [|a r IH]; intros i l H; cbn [lt_outer] in H.
  - inversion H. constructor.
  - destruct (lt_inner nrm i a 0 bs) as [|l1] eqn:E1; try discriminate.
    destruct (lt_outer nrm (S i) r bs) as [|l2] eqn:E2; try discriminate.
    inversion H; subst l. apply Forall_app. split.
    + eapply lt_inner_nonneg; eauto.
    + eauto.
Qed.

(* ---------------- the error branch ---------------- *)
Definition degenerate (c : cell) : Prop := fst c == snd c.

Lemma seg_overlap_err : forall a b e,
    seg_overlap a b = OErr e <-> degenerate a /\ degenerate b /\ fst a == fst b.
Proof.
  intros [s1 e1] [s2 e2] e. unfold seg_overlap, degenerate. cbn [fst snd].
  destruct (Qeq_bool s1 e1) eqn:E1; destruct (Qeq_bool s2 e2) eqn:E2;
    cbn [negb eqb].
  - destruct (Qeq_bool s1 s2) eqn:E3.
    + apply Qeq_bool_iff in E1, E2, E3. destruct e. split; auto.
    + apply qeq_bool_false in E3. split; [discriminate | tauto].
  - apply qeq_bool_false in E2. split; [discriminate | tauto].
  - apply qeq_bool_false in E1. split; [discriminate | tauto].
  - apply qeq_bool_false in E1. split; [|tauto].
    destruct (qltb (qmax s1 e1) (qmin s2 e2)); [discriminate|].
    destruct (qltb (qmax s2 e2) (qmin s1 e1)); discriminate.
Qed.

Lemma lt_inner_err : forall nrm i a bs j e,
    lt_inner nrm i a j bs = inl e <-> exists b, In b bs /\ seg_overlap a b = OErr e.
Proof.
  induction bs as [|b r IH]; intros j e; cbn [lt_inner].
  - split; [discriminate | intros [b [[] _]]].
  - destruct (seg_overlap a b) eqn:E.
    + rewrite IH. split.
      * intros [b' [H1 H2]]. exists b'. split; [right; exact H1 | exact H2].
      * intros [b' [[->|H1] H2]]; [congruence | exists b'; auto].
    + destruct (lt_inner nrm i a (S j) r) eqn:E2.
      * split.
        -- intros H. inversion H; subst. apply IH in E2. destruct E2 as [b' [H1 H2]].
           exists b'. split; [right; exact H1 | exact H2].
        -- intros _. destruct e, e0. reflexivity.
      * split; [discriminate|]. intros [b' [[->|H1] H2]]; [congruence|].
        assert (X : lt_inner nrm i a (S j) r = inl e) by (apply IH; exists b'; auto).
        congruence.
    + split.
      * intros H. inversion H; subst. exists b. split; [left; reflexivity | exact E].
      * intros _. destruct e, e0. reflexivity.
Qed.

Lemma lt_outer_err : forall nrm bs cs i e,
    lt_outer nrm i cs bs = inl e <->
    exists a b, In a cs /\ In b bs /\ seg_overlap a b = OErr e.
Proof.
  intros nrm bs. induction cs as [|a r IH]; intros i e; cbn [lt_outer].
  - split; [discriminate | intros [a [b [[] _]]]].
  - destruct (lt_inner nrm i a 0 bs) as [e1|l1] eqn:E1.
    + split.
      * intros H. inversion H; subst. apply lt_inner_err in E1.
        destruct E1 as [b [H1 H2]]. exists a, b. auto with datatypes.
      * intros _. destruct e, e1. reflexivity.
    + destruct (lt_outer nrm (S i) r bs) as [e2|l2] eqn:E2.
      * split.
        -- intros H. inversion H; subst. apply IH in E2.
           destruct E2 as [a' [b [H1 [H2 H3]]]]. exists a', b. auto with datatypes.
        -- intros _. destruct e, e2. reflexivity.
      * split; [discriminate|]. intros [a' [b [[->|H1] [H2 H3]]]].
        -- assert (X : lt_inner nrm i a' 0 bs = inl e)
             by (apply lt_inner_err; exists b; auto). congruence.
        -- assert (X : lt_outer nrm (S i) r bs = inl e)
             by (apply IH; exists a', b; auto). congruence.
Qed.

(* ---------------- line_tessellation : the theorems ---------------- *)
Definition lines_ok (p : list Q) (l : list (nat * nat)) : Prop :=
  Forall (fun ab => (fst ab < length p)%nat /\ (snd ab < length p)%nat) l.

Lemma cells_of_length : forall p l, length (cells_of p l) = length l.
Proof. intros. unfold cells_of. apply map_length. Qed.

Lemma line_tess_nonneg : forall nrm p1 p2 l1 l2 l,
    0 <= nrm -> line_tessellation nrm p1 p2 l1 l2 = inr l ->
    Forall (fun e => 0 <= ewt e) l.
Proof. intros nrm p1 p2 l1 l2 l Hn H. eapply lt_outer_nonneg; eauto. Qed.

Lemma cells_partition : forall nrm A B lo hi l,
    tessellates A lo hi -> tessellates B lo hi ->
    lt_outer nrm 0 A B = inr l ->
    (forall i, (i < length A)%nat -> row_sum l i == cell_vol nrm (nth i A (0, 0))) /\
    (forall j, (j < length B)%nat -> col_sum l j == cell_vol nrm (nth j B (0, 0))) /\
    (forall i, (length A <= i)%nat -> row_sum l i == 0) /\
    (forall j, (length B <= j)%nat -> col_sum l j == 0).
Proof.
  intros nrm A B lo hi l TA TB H. repeat split.
  - intros i Hi. pose proof (lt_outer_row _ _ _ _ _ i H) as R. revert R.
    cbn [Nat.leb Nat.add andb]. replace (i - 0)%nat with i by lia.
    replace (i <? length A)%nat with true by (symmetry; apply Nat.ltb_lt; lia).
    intros R. rewrite R. apply (tess_cell_sum nrm A B lo hi); auto. apply nth_In; lia.
  - intros j Hj. pose proof (lt_outer_col _ _ _ _ _ j H) as C. revert C.
    replace (j <? length B)%nat with true by (symmetry; apply Nat.ltb_lt; lia).
    intros C. rewrite C.
    rewrite (qsum_map_ext _ _ (val nrm (nth j B (0, 0)))) by (intros; apply val_sym).
    apply (tess_cell_sum nrm B A lo hi); auto. apply nth_In; lia.
  - intros i Hi. pose proof (lt_outer_row _ _ _ _ _ i H) as R. revert R.
    cbn [Nat.leb Nat.add andb].
    replace (i <? length A)%nat with false by (symmetry; apply Nat.ltb_ge; lia).
    auto.
  - intros j Hj. pose proof (lt_outer_col _ _ _ _ _ j H) as C. revert C.
    replace (j <? length B)%nat with false by (symmetry; apply Nat.ltb_ge; lia).
    auto.
Qed.

Lemma line_tess_partition : forall nrm p1 p2 l1 l2 lo hi l,
    lines_ok p1 l1 -> lines_ok p2 l2 ->
    tessellates (cells_of p1 l1) lo hi -> tessellates (cells_of p2 l2) lo hi ->
    line_tessellation nrm p1 p2 l1 l2 = inr l ->
    (forall i, (i < length l1)%nat ->
       row_sum l i == cell_vol nrm (nth i (cells_of p1 l1) (0, 0))) /\
    (forall j, (j < length l2)%nat ->
       col_sum l j == cell_vol nrm (nth j (cells_of p2 l2) (0, 0))) /\
    (forall i, (length l1 <= i)%nat -> row_sum l i == 0) /\
    (forall j, (length l2 <= j)%nat -> col_sum l j == 0).
Proof.
  intros nrm p1 p2 l1 l2 lo hi l _ _ T1 T2 H.
  rewrite <- (cells_of_length p1 l1), <- (cells_of_length p2 l2).
  apply (cells_partition nrm _ _ lo hi); assumption.
Qed.

Lemma line_tess_error_iff : forall nrm p1 p2 l1 l2,
    line_tessellation nrm p1 p2 l1 l2 = inl IndexErr <->
    exists a b, In a (cells_of p1 l1) /\ In b (cells_of p2 l2) /\
                degenerate a /\ degenerate b /\ fst a == fst b.
Proof.
  intros. unfold line_tessellation. rewrite lt_outer_err. split.
  - intros [a [b [H1 [H2 H3]]]]. exists a, b. apply seg_overlap_err in H3. tauto.
  - intros [a [b [H1 [H2 H3]]]]. exists a, b. repeat split; auto.
    apply seg_overlap_err. exact H3.
Qed.

(* ---------------- scalings ---------------- *)
Lemma scale_avg_row : forall vn vo tol l i,
    row_sum (scale_entries vn vo tol Averaged l) i == row_sum l i / vn i.
Proof.
  intros vn vo tol l i. unfold scale_entries, row_sum.
  induction l as [|e l IH]; cbn [map filter].
  - unfold Qdiv. rewrite qsum_nil. ring.
  - unfold erow at 1. cbn [fst].
    destruct (erow e =? i)%nat eqn:E; cbn [map].
    + apply Nat.eqb_eq in E. rewrite !qsum_cons, IH. unfold ewt at 1. cbn [snd].
      rewrite E. unfold Qdiv. ring.
    + exact IH.
Qed.

Lemma scale_int_col : forall vn vo tol l j,
    col_sum (scale_entries vn vo tol Integrated l) j == col_sum l j / vo j.
Proof.
  intros vn vo tol l j. unfold scale_entries, col_sum.
  induction l as [|e l IH]; cbn [map filter].
  - unfold Qdiv. rewrite qsum_nil. ring.
  - unfold ecol at 1. cbn [fst snd].
    destruct (ecol e =? j)%nat eqn:E; cbn [map].
    + apply Nat.eqb_eq in E. rewrite !qsum_cons, IH. unfold ewt at 1. cbn [snd].
      rewrite E. unfold Qdiv. ring.
    + exact IH.
Qed.

Lemma scale_nonneg : forall vn vo tol sc l,
    (forall i, 0 <= vn i) -> (forall j, 0 <= vo j) ->
    Forall (fun e => 0 <= ewt e) l ->
    Forall (fun e => 0 <= ewt e) (scale_entries vn vo tol sc l).
Proof.
  intros vn vo tol sc l Hn Ho H. destruct sc; unfold scale_entries.
  - induction H as [|e l He Hl IH]; cbn [map]; constructor; auto.
    unfold ewt at 1. cbn [snd]. unfold Qdiv. apply Qmult_le_0_compat; auto.
    apply Qinv_le_0_compat. apply Hn.
  - induction H as [|e l He Hl IH]; cbn [map]; constructor; auto.
    unfold ewt at 1. cbn [snd]. unfold Qdiv. apply Qmult_le_0_compat; auto.
    apply Qinv_le_0_compat. apply Ho.
  - induction l as [|e l IH]; cbn [filter map]; [constructor|].
    inversion H; subst. destruct (qltb tol (ewt e)); cbn [map]; auto.
    constructor; auto. unfold ewt. cbn [snd]. lra.
Qed.

Lemma unit_quotient : forall s v, s == v -> ~ v == 0 -> s / v == 1.
Proof. intros s v H Hv. rewrite H. field. exact Hv. Qed.

Lemma cell_vol_nonzero : forall nrm c, 0 < nrm -> ~ degenerate c -> ~ cell_vol nrm c == 0.
Proof.
  intros nrm [s e] Hn Hd. unfold degenerate in Hd. cbn [fst snd] in Hd.
  unfold cell_vol. cbn [fst snd]. intro C.
  assert (P : 0 < qabs (s - e)).
  { unfold qabs. qcase; lra. }
  assert (P2 : 0 < qabs (s - e) * nrm) by (apply Qmult_lt_0_compat; assumption).
  lra.
Qed.

Lemma cell_vol_nonneg : forall nrm c, 0 <= nrm -> 0 <= cell_vol nrm c.
Proof.
  intros nrm c Hn. unfold cell_vol. apply Qmult_le_0_compat; [|exact Hn].
  unfold qabs. qcase; lra.
Qed.

Lemma match_1d_ok : forall nrm tol sc p_new p_old l_new l_old m,
    match_1d nrm tol sc p_new p_old l_new l_old = inr m ->
    exists isect, line_tessellation nrm p_new p_old l_new l_old = inr isect /\
      m = scale_entries (fun i => cell_vol nrm (nth i (cells_of p_new l_new) (0, 0)))
                        (fun j => cell_vol nrm (nth j (cells_of p_old l_old) (0, 0)))
                        tol sc isect.
Proof.
  intros nrm tol sc p_new p_old l_new l_old m H. unfold match_1d in H.
  destruct (line_tessellation nrm p_new p_old l_new l_old) as [|isect]; [discriminate|].
  exists isect. split; [reflexivity|]. congruence.
Qed.

Lemma match_1d_sums : forall nrm tol p_new p_old l_new l_old lo hi,
    0 < nrm ->
    lines_ok p_new l_new -> lines_ok p_old l_old ->
    tessellates (cells_of p_new l_new) lo hi -> tessellates (cells_of p_old l_old) lo hi ->
    (forall m, match_1d nrm tol Averaged p_new p_old l_new l_old = inr m ->
       Forall (fun e => 0 <= ewt e) m /\
       forall i, (i < length l_new)%nat ->
         ~ degenerate (nth i (cells_of p_new l_new) (0, 0)) -> row_sum m i == 1) /\
    (forall m, match_1d nrm tol Integrated p_new p_old l_new l_old = inr m ->
       Forall (fun e => 0 <= ewt e) m /\
       forall j, (j < length l_old)%nat ->
         ~ degenerate (nth j (cells_of p_old l_old) (0, 0)) -> col_sum m j == 1).
Proof.
  intros nrm tol p_new p_old l_new l_old lo hi Hn O1 O2 T1 T2.
  assert (Hn' : 0 <= nrm) by lra.
  split; intros m H; apply match_1d_ok in H; destruct H as [isect [E ->]];
    destruct (line_tess_partition _ _ _ _ _ _ _ _ O1 O2 T1 T2 E) as [R [C _]];
    (split; [apply scale_nonneg;
             [intros; apply cell_vol_nonneg; exact Hn'
             |intros; apply cell_vol_nonneg; exact Hn'
             |eapply line_tess_nonneg; eauto]|]).
  - intros i Hi Hd. rewrite scale_avg_row. apply unit_quotient; [apply R; exact Hi|].
    apply cell_vol_nonzero; assumption.
  - intros j Hj Hd. rewrite scale_int_col. apply unit_quotient; [apply C; exact Hj|].
    apply cell_vol_nonzero; assumption.
Qed.

(* ---------------- 2-D: triangulations / match_2d around shapely ---------------- *)
Section Tri.
  Variables is_polygon candidate : nat -> nat -> bool.
  Variable isect_area : nat -> nat -> Q.
  Variables n1 n2 : nat.
  Variables area1 area2 : nat -> Q.

  (* contract of shapely + "two tessellations of one polygon":
     isect_area i j is the area of (triangle i of the first) ∩ (triangle j of the second) *)
  Definition tri_contract : Prop :=
    (forall i j, (i < n1)%nat -> (j < n2)%nat -> 0 <= isect_area i j) /\
    (* disjoint bounding boxes: no common area *)
    (forall i j, (i < n1)%nat -> (j < n2)%nat -> candidate i j = false -> isect_area i j == 0) /\
    (* an intersection that is not a Polygon (empty, point, line) has no area *)
    (forall i j, (i < n1)%nat -> (j < n2)%nat -> is_polygon i j = false -> isect_area i j == 0) /\
    (* additivity of area: the second tessellation covers every triangle of the first ... *)
    (forall i, (i < n1)%nat -> qsum (map (isect_area i) (seq 0 n2)) == area1 i) /\
    (* ... and vice versa *)
    (forall j, (j < n2)%nat -> qsum (map (fun i => isect_area i j) (seq 0 n1)) == area2 j).

  Let g (i j : nat) : Q := if candidate i j && is_polygon i j then isect_area i j else 0.

  Lemma tri_inner_rows : forall i js,
      Forall (fun e => erow e = i) (tri_inner is_polygon isect_area candidate i js).
  Proof.
    induction js as [|j r IH]; cbn [tri_inner]; [constructor|].
    destruct (candidate i j && is_polygon i j); [constructor; [reflexivity|]|]; exact IH.
  Qed.

  Lemma tri_inner_sum : forall i js,
      qsum (map ewt (tri_inner is_polygon isect_area candidate i js)) == qsum (map (g i) js).
  Proof.
    induction js as [|j r IH]; cbn [tri_inner map]; [reflexivity|].
    rewrite qsum_cons. unfold g at 1.
    destruct (candidate i j && is_polygon i j); cbn [map].
    - rewrite qsum_cons, IH. unfold ewt. cbn [snd]. reflexivity.
    - rewrite IH. lra.
  Qed.

  Lemma tri_inner_col : forall i n s j0,
      col_sum (tri_inner is_polygon isect_area candidate i (seq s n)) j0 ==
      if (s <=? j0)%nat && (j0 <? s + n)%nat then g i j0 else 0.
  Proof.
    induction n as [|n IH]; intros s j0; cbn [seq tri_inner].
    - replace (s + 0)%nat with s by lia.
      destruct (s <=? j0)%nat eqn:E1; destruct (j0 <? s)%nat eqn:E2; cbn [andb];
        try reflexivity.
      apply Nat.leb_le in E1. apply Nat.ltb_lt in E2. lia.
    - pose proof (IH (S s) j0) as IHc.
      assert (K : (if (s =? j0)%nat then g i s else 0) +
                  col_sum (tri_inner is_polygon isect_area candidate i (seq (S s) n)) j0 ==
                  if (s <=? j0)%nat && (j0 <? s + S n)%nat then g i j0 else 0).
      { revert IHc. destruct (s =? j0)%nat eqn:E0.
        - apply Nat.eqb_eq in E0. subst j0.
          replace (S s <=? s)%nat with false by (symmetry; apply Nat.leb_gt; lia).
          replace (s <=? s)%nat with true by (symmetry; apply Nat.leb_le; lia).
          replace (s <? s + S n)%nat with true by (symmetry; apply Nat.ltb_lt; lia).
          cbn [andb]. intros IHc. lra.
        - apply Nat.eqb_neq in E0. destruct (S s <=? j0)%nat eqn:E1.
          + apply Nat.leb_le in E1.
            replace (s <=? j0)%nat with true by (symmetry; apply Nat.leb_le; lia).
            replace (j0 <? s + S n)%nat with (j0 <? S s + n)%nat by (f_equal; lia).
            intros IHc. lra.
          + apply Nat.leb_gt in E1.
            replace (s <=? j0)%nat with false by (symmetry; apply Nat.leb_gt; lia).
            cbn [andb]. intros IHc. lra. }
      rewrite <- K. unfold g.
      destruct (candidate i s && is_polygon i s).
      + unfold col_sum. cbn [filter]. unfold ecol at 1. cbn [fst snd].
        destruct (s =? j0)%nat; cbn [map].
        * rewrite qsum_cons. unfold ewt at 1. cbn [snd]. reflexivity.
        * lra.
      + destruct (s =? j0)%nat; lra.
  Qed.

  Let block (i : nat) := tri_inner is_polygon isect_area candidate i (seq 0 n2).

  Lemma tri_row : forall n s i0,
      row_sum (flat_map block (seq s n)) i0 ==
      if (s <=? i0)%nat && (i0 <? s + n)%nat then qsum (map (g i0) (seq 0 n2)) else 0.
  Proof.
    induction n as [|n IH]; intros s i0; cbn [seq flat_map].
    - replace (s + 0)%nat with s by lia.
      destruct (s <=? i0)%nat eqn:E1; destruct (i0 <? s)%nat eqn:E2; cbn [andb];
        try reflexivity.
      apply Nat.leb_le in E1. apply Nat.ltb_lt in E2. lia.
    - rewrite row_sum_app.
      pose proof (row_sum_const_rows _ _ i0 (tri_inner_rows s (seq 0 n2))) as R1.
      pose proof (tri_inner_sum s (seq 0 n2)) as S1.
      pose proof (IH (S s) i0) as IHc. fold (block s) in R1, S1. revert R1 IHc.
      destruct (s =? i0)%nat eqn:E0.
      + apply Nat.eqb_eq in E0. subst i0.
        replace (S s <=? s)%nat with false by (symmetry; apply Nat.leb_gt; lia).
        replace (s <=? s)%nat with true by (symmetry; apply Nat.leb_le; lia).
        replace (s <? s + S n)%nat with true by (symmetry; apply Nat.ltb_lt; lia).
        cbn [andb]. intros R1 IHc. lra.
      + apply Nat.eqb_neq in E0. destruct (S s <=? i0)%nat eqn:E1.
        * apply Nat.leb_le in E1.
          replace (s <=? i0)%nat with true by (symmetry; apply Nat.leb_le; lia).
          replace (i0 <? s + S n)%nat with (i0 <? S s + n)%nat by (f_equal; lia).
          intros R1 IHc. lra.
        * apply Nat.leb_gt in E1.
          replace (s <=? i0)%nat with false by (symmetry; apply Nat.leb_gt; lia).
          cbn [andb]. intros R1 IHc. lra.
  Qed.

  Lemma tri_col : forall n s j0, (j0 < n2)%nat ->
      col_sum (flat_map block (seq s n)) j0 == qsum (map (fun i => g i j0) (seq s n)).
  Proof.
    induction n as [|n IH]; intros s j0 Hj; cbn [seq flat_map map].
    - reflexivity.
    - rewrite col_sum_app, qsum_cons, (IH (S s) j0 Hj). unfold block at 1.
      pose proof (tri_inner_col s n2 0%nat j0) as C. revert C.
      cbn [Nat.leb Nat.add andb].
      replace (j0 <? n2)%nat with true by (symmetry; apply Nat.ltb_lt; lia).
      intros C. lra.
  Qed.

  Lemma g_area : tri_contract -> forall i j, (i < n1)%nat -> (j < n2)%nat ->
      g i j == isect_area i j.
  Proof.
    intros [_ [Hc [Hp _]]] i j Hi Hj. unfold g.
    destruct (candidate i j) eqn:E1; destruct (is_polygon i j) eqn:E2; cbn [andb];
      try reflexivity; symmetry; auto.
  Qed.

  Lemma tri_entries_nonneg : tri_contract ->
      Forall (fun e => 0 <= ewt e) (triangulations is_polygon isect_area candidate n1 n2).
  Proof.
    intros [Hnn _]. unfold triangulations. apply Forall_flat_map. apply Forall_forall.
    intros i Hi. apply in_seq in Hi.
    assert (G : forall js, Forall (fun j => (j < n2)%nat) js ->
              Forall (fun e => 0 <= ewt e) (tri_inner is_polygon isect_area candidate i js)).
    { induction 1 as [|j r Hj Hr IH]; cbn [tri_inner]; [constructor|].
      destruct (candidate i j && is_polygon i j); [constructor|]; auto.
      unfold ewt. cbn [snd]. apply Hnn; lia. }
    apply G. apply Forall_forall. intros j Hj. apply in_seq in Hj. lia.
  Qed.

  Lemma tri_sums : tri_contract ->
      let l := triangulations is_polygon isect_area candidate n1 n2 in
      (forall i, (i < n1)%nat -> row_sum l i == area1 i) /\
      (forall j, (j < n2)%nat -> col_sum l j == area2 j).
  Proof.
    intros Hc l. pose proof Hc as [_ [_ [_ [A1 A2]]]]. split.
    - intros i Hi. unfold l, triangulations. fold block. rewrite tri_row.
      cbn [Nat.leb Nat.add andb].
      replace (i <? n1)%nat with true by (symmetry; apply Nat.ltb_lt; lia).
      rewrite <- (A1 i Hi). apply qsum_map_ext. intros j Hj. apply in_seq in Hj.
      apply g_area; auto; lia.
    - intros j Hj. unfold l, triangulations. fold block. rewrite (tri_col _ _ _ Hj).
      rewrite <- (A2 j Hj). apply qsum_map_ext. intros i Hi. apply in_seq in Hi.
      apply g_area; auto; lia.
  Qed.

  (* match_2d: new_g.cell_volumes / old_g.cell_volumes are the triangle areas *)
  Lemma match_2d_sums : tri_contract -> forall tol,
      let l := triangulations is_polygon isect_area candidate n1 n2 in
      (forall i, (i < n1)%nat -> ~ area1 i == 0 ->
         row_sum (scale_entries area1 area2 tol Averaged l) i == 1) /\
      (forall j, (j < n2)%nat -> ~ area2 j == 0 ->
         col_sum (scale_entries area1 area2 tol Integrated l) j == 1).
  Proof.
    intros Hc tol l. destruct (tri_sums Hc) as [R C]. split.
    - intros i Hi Hz. rewrite scale_avg_row. apply unit_quotient; auto.
    - intros j Hj Hz. rewrite scale_int_col. apply unit_quotient; auto.
  Qed.
End Tri.
