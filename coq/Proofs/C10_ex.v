(* C10 — a concrete TimeManager configuration over the reals accepted by the (modelled)
   constructor; used only by the non-vacuity examples of Props/C10.v. *)
From Coq Require Import List ZArith Bool Arith Lia Reals Lra.
Import ListNotations.
From PP Require Import Model.C09 Proofs.C09.
Local Open Scope R_scope.

Definition ex_args : args R :=
  Build_args R 1 false (Some (1 / 10, 1)) 15 4 7 (7 / 10) (13 / 10) (1 / 2) 10
             (1 / 10000000000) 0.
Definition ex_sched : list R := [0; 1; 3 / 2].

Lemma ex_construct :
  exists c, construct R ROps ex_args ex_sched = inl c /\ dt_min c = 1 / 10.
Proof.
  eexists. unfold construct, ex_args, ex_sched, resolve_min_max, strictly_increasing.
  cbn [length Nat.ltb Nat.leb existsb last negb orb andb fst snd a_dt_init a_constant
       a_dt_min_max a_iter_max a_iter_low a_iter_upp a_under a_over a_recomp_factor
       a_recomp_max a_rtol a_atol].
  rops. rdec. cbn [negb orb andb Z.leb Z.ltb Z.compare Pos.compare Pos.compare_cont].
  split; reflexivity.
Qed.

Lemma ex_guards :
  a_constant ex_args = false /\ 0 <= a_rtol ex_args /\ 0 <= a_atol ex_args /\
  well_separated (a_rtol ex_args) (a_atol ex_args) ex_sched /\
  a_dt_init ex_args <= nth 1 ex_sched 0 - nth 0 ex_sched 0.
Proof.
  unfold ex_args, ex_sched; cbn [a_constant a_rtol a_atol a_dt_init nth].
  repeat split; try lra.
  intros j Hj. cbn [length] in Hj.
  destruct j as [|[|j]]; cbn [nth]; [| |lia]; rewrite Rabs_pos_eq by lra; lra.
Qed.
