(* C19 — proofs about the geometry model (PP.Model.C19). *)
From Coq Require Import List ZArith QArith Qabs Qfield Bool Arith Lia Lqa Permutation.
Import ListNotations.
From PP Require Import Model.C19.
Open Scope Q_scope.

(* ------------------------------------------------------------------------------------ *)
(* sums *)
Lemma sumQ_cons a l : sumQ (a :: l) = a + sumQ l.
Proof. reflexivity. Qed.

Lemma sumQ_perm l l' : Permutation l l' -> sumQ l == sumQ l'.
Proof.
  induction 1 as [|x l l' H IH|x y l|l l' l'' H1 IH1 H2 IH2]; rewrite ?sumQ_cons.
  - reflexivity.
  - rewrite IH. reflexivity.
  - ring.
  - rewrite IH1. exact IH2.
Qed.

Lemma sumQ_map_ext {A} (f g : A -> Q) l :
  (forall x, In x l -> f x == g x) -> sumQ (map f l) == sumQ (map g l).
Proof.
  induction l as [|a l IH]; intro H; cbn [map]; rewrite ?sumQ_cons; [reflexivity|].
  rewrite (H a) by (left; reflexivity). rewrite IH by (intros; apply H; right; assumption).
  reflexivity.
Qed.

Lemma sumQ_map_sub {A} (f g : A -> Q) l :
  sumQ (map (fun x => f x - g x) l) == sumQ (map f l) - sumQ (map g l).
Proof.
  induction l as [|a l IH]; cbn [map]; rewrite ?sumQ_cons; [cbn; ring|]. rewrite IH. ring.
Qed.

Lemma sumQ_map_scale {A} (k : Q) (f : A -> Q) l :
  sumQ (map (fun x => k * f x) l) == k * sumQ (map f l).
Proof.
  induction l as [|a l IH]; cbn [map]; rewrite ?sumQ_cons; [cbn; ring|]. rewrite IH. ring.
Qed.

Lemma sumQ_nonneg l : (forall x, In x l -> 0 <= x) -> 0 <= sumQ l.
Proof.
  induction l as [|a l IH]; intro H; rewrite ?sumQ_cons; [cbn; apply Qle_refl|].
  apply (Qplus_le_compat 0 a 0 (sumQ l)); [apply H; left; reflexivity|].
  apply IH. intros; apply H; right; assumption.
Qed.

Lemma sumQ_pos l : l <> [] -> (forall x, In x l -> 0 < x) -> 0 < sumQ l.
Proof.
  destruct l as [|a l]; [congruence|]. intros _ H. rewrite sumQ_cons.
  apply (Qplus_lt_le_compat 0 a 0 (sumQ l)); [apply H; left; reflexivity|].
  apply sumQ_nonneg. intros x Hx. apply Qlt_le_weak. apply H. right. assumption.
Qed.

(* ------------------------------------------------------------------------------------ *)
(* oriented traversal of a face by its cell *)
Definition o_from (e : sface) : pt := if (snd e =? 1)%Z then f_start e else f_end e.
Definition o_to (e : sface) : pt := if (snd e =? 1)%Z then f_end e else f_start e.

Definition sign_ok (e : sface) : Prop := snd e = 1%Z \/ snd e = (-1)%Z.
Definition signs_ok (es : list sface) : Prop := forall e, In e es -> sign_ok e.
(* every node is as often the end as the start of a traversed face *)
Definition closed (es : list sface) : Prop := Permutation (map o_from es) (map o_to es).

(* sums of differences of a potential over a closed set of traversed faces vanish *)
Lemma telescope (D : sface -> Q) (Phi : pt -> Q) es :
  (forall e, sign_ok e -> D e == Phi (o_to e) - Phi (o_from e)) ->
  signs_ok es -> closed es -> sumQ (map D es) == 0.
Proof.
  intros HD Hs Hc.
  rewrite (sumQ_map_ext D (fun e => Phi (o_to e) - Phi (o_from e))) by (intros; apply HD; apply Hs; assumption).
  rewrite sumQ_map_sub.
  rewrite <- (map_map o_to Phi), <- (map_map o_from Phi).
  rewrite (sumQ_perm _ _ (Permutation_map Phi Hc)). ring.
Qed.

Ltac edge e :=
  let p := fresh "p" in let q := fresh "q" in let s := fresh "s" in
  destruct e as [[[p1 p2] [q1 q2]] s];
  unfold sign_ok in *; cbn [snd] in *;
  match goal with H : _ \/ _ |- _ => destruct H as [-> | ->] end;
  unfold o_from, o_to, subvol, subnormal, fnormal, fcenter, tangent, farea2, f_start, f_end, f_sgn,
         cross, dot, psub, padd, pscale, px, py; cbn [fst snd Z.eqb Pos.eqb inject_Z];
  try ring.

(* shoelace term of one traversed face *)
Definition shoe (sigma : Q) (e : sface) : Q := sigma * ((1 # 2) * cross (o_from e) (o_to e)).
Definition shoelace (sigma : Q) (es : list sface) : Q := sumQ (map (shoe sigma) es).

(* edge-wise identities *)
Lemma edge_normal_x sigma e : sign_ok e ->
  f_sgn e * px (fnormal sigma e) == py (o_to e) * sigma - py (o_from e) * sigma.
Proof. intro H. edge e. Qed.

Lemma edge_normal_y sigma e : sign_ok e ->
  f_sgn e * py (fnormal sigma e) == - (px (o_to e) * sigma) - - (px (o_from e) * sigma).
Proof. intro H. edge e. Qed.

Lemma edge_volume sigma t e : sign_ok e ->
  subvol sigma t e - shoe sigma e
  == - ((1 # 2) * sigma * cross t (o_to e)) - - ((1 # 2) * sigma * cross t (o_from e)).
Proof. intro H. unfold shoe. edge e. Qed.

Lemma edge_gauss sigma e : sign_ok e ->
  f_sgn e * dot (fcenter e) (fnormal sigma e) == 2 * shoe sigma e.
Proof. intro H. unfold shoe. edge e. Qed.

Definition phi_cx (sigma : Q) (t r : pt) : Q :=
  sigma * ((1 # 2) * px t * cross t r + (1 # 2) * px t * (px r * py r) - (1 # 2) * py t * (px r * px r)).
Definition phi_cy (sigma : Q) (t r : pt) : Q :=
  sigma * ((1 # 2) * py t * cross t r + (1 # 2) * px t * (py r * py r) - (1 # 2) * py t * (px r * py r)).

Lemma edge_centroid_x sigma t e : sign_ok e ->
  f_sgn e * dot (fcenter e) (fnormal sigma e) * px (fcenter e)
  - 3 * (subvol sigma t e * ((px t + 2 * px (fcenter e)) / 3))
  == phi_cx sigma t (o_to e) - phi_cx sigma t (o_from e).
Proof. intro H. unfold phi_cx. edge e; field. Qed.

Lemma edge_centroid_y sigma t e : sign_ok e ->
  f_sgn e * dot (fcenter e) (fnormal sigma e) * py (fcenter e)
  - 3 * (subvol sigma t e * ((py t + 2 * py (fcenter e)) / 3))
  == phi_cy sigma t (o_to e) - phi_cy sigma t (o_from e).
Proof. intro H. unfold phi_cy. edge e; field. Qed.

(* ------------------------------------------------------------------------------------ *)
(* cell-level identities (2-D) *)
Lemma normals_sum_zero sigma es : signs_ok es -> closed es ->
  sumQ (map (fun e => f_sgn e * px (fnormal sigma e)) es) == 0 /\
  sumQ (map (fun e => f_sgn e * py (fnormal sigma e)) es) == 0.
Proof.
  intros Hs Hc. split.
  - apply (telescope _ (fun r => py r * sigma)); auto. intros e He. apply edge_normal_x. exact He.
  - apply (telescope _ (fun r => - (px r * sigma))); auto. intros e He. apply edge_normal_y. exact He.
Qed.

Lemma volume_shoelace sigma t es : signs_ok es -> closed es ->
  cell_volume sigma t es == shoelace sigma es.
Proof.
  intros Hs Hc.
  assert (sumQ (map (fun e => subvol sigma t e - shoe sigma e) es) == 0) as H.
  { apply (telescope _ (fun r => - ((1 # 2) * sigma * cross t r))); auto.
    intros e He. apply edge_volume. exact He. }
  rewrite (sumQ_map_sub (subvol sigma t) (shoe sigma)) in H. unfold cell_volume, shoelace.
  assert (sumQ (map (subvol sigma t) es)
          == sumQ (map (subvol sigma t) es) - sumQ (map (shoe sigma) es) + sumQ (map (shoe sigma) es)) as E by ring.
  rewrite E, H. ring.
Qed.

Lemma volume_indep sigma t t' es : signs_ok es -> closed es ->
  cell_volume sigma t es == cell_volume sigma t' es.
Proof. intros Hs Hc. rewrite !volume_shoelace by assumption. reflexivity. Qed.

Lemma gauss sigma t es : signs_ok es -> closed es ->
  sumQ (map (fun e => f_sgn e * dot (fcenter e) (fnormal sigma e)) es) == 2 * cell_volume sigma t es.
Proof.
  intros Hs Hc. rewrite volume_shoelace by assumption. unfold shoelace.
  rewrite <- sumQ_map_scale. apply sumQ_map_ext. intros e He. apply edge_gauss. apply Hs. exact He.
Qed.

Lemma moment_x sigma t es : signs_ok es -> closed es ->
  sumQ (map (fun e => f_sgn e * dot (fcenter e) (fnormal sigma e) * px (fcenter e)) es)
  == 3 * sumQ (map (fun e => subvol sigma t e * ((px t + 2 * px (fcenter e)) / 3)) es).
Proof.
  intros Hs Hc.
  assert (sumQ (map (fun e => f_sgn e * dot (fcenter e) (fnormal sigma e) * px (fcenter e)
                             - 3 * (subvol sigma t e * ((px t + 2 * px (fcenter e)) / 3))) es) == 0) as H.
  { apply (telescope _ (phi_cx sigma t)); auto. intros e He. apply edge_centroid_x. exact He. }
  rewrite (sumQ_map_sub (fun e => f_sgn e * dot (fcenter e) (fnormal sigma e) * px (fcenter e))
             (fun e => 3 * (subvol sigma t e * ((px t + 2 * px (fcenter e)) / 3)))) in H.
  rewrite (sumQ_map_scale 3 (fun e => subvol sigma t e * ((px t + 2 * px (fcenter e)) / 3))) in H.
  remember (sumQ (map (fun e => f_sgn e * dot (fcenter e) (fnormal sigma e) * px (fcenter e)) es)) as A.
  remember (sumQ (map (fun e => subvol sigma t e * ((px t + 2 * px (fcenter e)) / 3)) es)) as B.
  assert (A == A - 3 * B + 3 * B) as E by ring. rewrite E, H. ring.
Qed.

Lemma moment_y sigma t es : signs_ok es -> closed es ->
  sumQ (map (fun e => f_sgn e * dot (fcenter e) (fnormal sigma e) * py (fcenter e)) es)
  == 3 * sumQ (map (fun e => subvol sigma t e * ((py t + 2 * py (fcenter e)) / 3)) es).
Proof.
  intros Hs Hc.
  assert (sumQ (map (fun e => f_sgn e * dot (fcenter e) (fnormal sigma e) * py (fcenter e)
                             - 3 * (subvol sigma t e * ((py t + 2 * py (fcenter e)) / 3))) es) == 0) as H.
  { apply (telescope _ (phi_cy sigma t)); auto. intros e He. apply edge_centroid_y. exact He. }
  rewrite (sumQ_map_sub (fun e => f_sgn e * dot (fcenter e) (fnormal sigma e) * py (fcenter e))
             (fun e => 3 * (subvol sigma t e * ((py t + 2 * py (fcenter e)) / 3)))) in H.
  rewrite (sumQ_map_scale 3 (fun e => subvol sigma t e * ((py t + 2 * py (fcenter e)) / 3))) in H.
  remember (sumQ (map (fun e => f_sgn e * dot (fcenter e) (fnormal sigma e) * py (fcenter e)) es)) as A.
  remember (sumQ (map (fun e => subvol sigma t e * ((py t + 2 * py (fcenter e)) / 3)) es)) as B.
  assert (A == A - 3 * B + 3 * B) as E by ring. rewrite E, H. ring.
Qed.

Lemma centroid_moment sigma t es : signs_ok es -> closed es ->
  sumQ (map (fun e => f_sgn e * dot (fcenter e) (fnormal sigma e) * px (fcenter e)) es)
    == 3 * px (cell_moment sigma t es) /\
  sumQ (map (fun e => f_sgn e * dot (fcenter e) (fnormal sigma e) * py (fcenter e)) es)
    == 3 * py (cell_moment sigma t es).
Proof.
  intros Hs Hc. split; [apply moment_x|apply moment_y]; assumption.
Qed.

Lemma centroid sigma t es : signs_ok es -> closed es -> ~ cell_volume sigma t es == 0 ->
  sumQ (map (fun e => f_sgn e * dot (fcenter e) (fnormal sigma e) * px (fcenter e)) es)
    == 3 * cell_volume sigma t es * px (cell_center sigma t es) /\
  sumQ (map (fun e => f_sgn e * dot (fcenter e) (fnormal sigma e) * py (fcenter e)) es)
    == 3 * cell_volume sigma t es * py (cell_center sigma t es).
Proof.
  intros Hs Hc Hv. destruct (centroid_moment sigma t es Hs Hc) as [Hx Hy].
  rewrite Hx, Hy. unfold cell_center.
  remember (cell_moment sigma t es) as m. remember (cell_volume sigma t es) as v.
  unfold px, py. cbn [fst snd]. split; field; exact Hv.
Qed.

Lemma normal_length sigma e : sigma * sigma == 1 ->
  dot (fnormal sigma e) (fnormal sigma e) == farea2 e.
Proof.
  intro H. destruct e as [[[p1 p2] [q1 q2]] s].
  unfold fnormal, farea2, tangent, dot, psub, f_start, f_end, px, py. cbn [fst snd].
  assert ((q2 - p2) * sigma * ((q2 - p2) * sigma) + - ((q1 - p1) * sigma) * - ((q1 - p1) * sigma)
          == (sigma * sigma) * ((q1 - p1) * (q1 - p1) + (q2 - p2) * (q2 - p2))) as E by ring.
  rewrite E, H. ring.
Qed.

Lemma volume_pos_star sigma t es : es <> [] -> (forall e, In e es -> 0 < subvol sigma t e) ->
  0 < cell_volume sigma t es.
Proof.
  intros Hne H. unfold cell_volume. apply sumQ_pos.
  - destruct es; [congruence|discriminate].
  - intros x Hx. apply in_map_iff in Hx. destruct Hx as (e & <- & He). apply H. exact He.
Qed.

(* ------------------------------------------------------------------------------------ *)
(* from the model's orientation check to closedness of every cell *)
Lemma entry_sign g c x : oriented1 g = true -> In x (cell_entries g c) ->
  snd x = 1%Z \/ snd x = (-1)%Z.
Proof.
  intros H Hx. unfold oriented1 in H. apply andb_true_iff in H. destruct H as [H _].
  rewrite forallb_forall in H. unfold cell_entries in Hx. apply in_map_iff in Hx.
  destruct Hx as (y & <- & Hy). apply filter_In in Hy. destruct Hy as [Hy _].
  specialize (H y Hy). cbn [snd]. apply orb_true_iff in H.
  destruct H as [H|H]; apply Z.eqb_eq in H; auto.
Qed.

Lemma oriented_signs g c : oriented1 g = true -> signs_ok (cell_sfaces g c).
Proof.
  intros H e He. unfold cell_sfaces in He. apply in_map_iff in He. destruct He as (x & <- & Hx).
  unfold sign_ok, face_of. cbn [snd]. eapply entry_sign; eauto.
Qed.

Lemma balanced_perm l1 l2 :
  forallb (fun n => Nat.eqb (count l1 n) (count l2 n)) (l1 ++ l2) = true -> Permutation l1 l2.
Proof.
  intro H. apply (Permutation_count_occ Nat.eq_dec). intro n. rewrite forallb_forall in H.
  destruct (in_dec Nat.eq_dec n (l1 ++ l2)) as [Hin|Hn].
  - apply Nat.eqb_eq. apply (H n Hin).
  - assert (~ In n l1) as N1 by (intro; apply Hn; apply in_or_app; auto).
    assert (~ In n l2) as N2 by (intro; apply Hn; apply in_or_app; auto).
    apply (count_occ_not_In Nat.eq_dec) in N1. apply (count_occ_not_In Nat.eq_dec) in N2. congruence.
Qed.

Lemma oriented_closed g c : oriented1 g = true -> (c < g_nc g)%nat -> closed (cell_sfaces g c).
Proof.
  intros H Hc. pose proof H as H0. unfold oriented1 in H. apply andb_true_iff in H. destruct H as [_ H].
  rewrite forallb_forall in H. specialize (H c). rewrite in_seq in H.
  assert (balanced g c = true) as Hb by (apply H; lia). clear H.
  unfold balanced in Hb. apply balanced_perm in Hb.
  apply (Permutation_map (node g)) in Hb. unfold closed, cell_sfaces.
  rewrite !map_map in Hb. rewrite !map_map.
  assert (forall x, In x (cell_entries g c) ->
            o_from (face_of g (fst x) (snd x)) = node g (fst (oedge_idx g x)) /\
            o_to (face_of g (fst x) (snd x)) = node g (snd (oedge_idx g x))) as E.
  { intros x Hx. unfold o_from, o_to, face_of, oedge_idx, f_start, f_end. cbn [fst snd].
    destruct (entry_sign g c x H0 Hx) as [-> | ->]; cbn [Z.eqb Z.ltb Z.compare Pos.eqb]; auto. }
  rewrite (map_ext_in _ (fun x => node g (fst (oedge_idx g x)))) by (intros x Hx; apply E; exact Hx).
  rewrite (map_ext_in (fun x => o_to _) (fun x => node g (snd (oedge_idx g x)))) by (intros x Hx; apply E; exact Hx).
  exact Hb.
Qed.

Lemma qsign_pm S : ~ S == 0 -> qsign S = 1 \/ qsign S = -1.
Proof.
  intro H. unfold qsign. destruct (Qlt_le_dec 0 S); auto. destruct (Qlt_le_dec S 0); auto.
  exfalso. apply H. apply Qle_antisym; assumption.
Qed.

(* what the oriented branch returns *)
Lemma geometry2_ok g r : geometry2 g = GOk r ->
  oriented1 g = true /\
  let sigma := qsign (plane_sum g) in
  let cs := fun c => cell_sfaces g c in
  (sigma = 1 \/ sigma = -1) /\
  o_vol r = map (fun c => cell_volume sigma (temp_center (cs c)) (cs c)) (seq 0 (g_nc g)) /\
  o_cc r = map (fun c => cell_center sigma (temp_center (cs c)) (cs c)) (seq 0 (g_nc g)) /\
  o_fn r = map (fun f => fnormal sigma (face_of g f 1%Z)) (seq 0 (length (g_faces g))) /\
  o_fc r = map (fun f => fcenter (face_of g f 1%Z)) (seq 0 (length (g_faces g))) /\
  o_area2 r = map (fun f => farea2 (face_of g f 1%Z)) (seq 0 (length (g_faces g))) /\
  (forall v, In v (o_vol r) -> 0 <= v).
Proof.
  unfold geometry2. destruct (oriented1 g); cbn [negb]; [|discriminate].
  destruct (Qeq_bool (plane_sum g) 0) eqn:ES; [discriminate|].
  destruct (existsb _ _) eqn:EV; [discriminate|].
  intro E. injection E as <-. cbn [o_vol o_cc o_fn o_fc o_area2]. rewrite !map_map.
  split; [reflexivity|]. split.
  { apply qsign_pm. intro Hq. apply Qeq_bool_iff in Hq. congruence. }
  repeat (split; [reflexivity|]).
  intros v Hv.
  assert (existsb (fun v => if Qlt_le_dec v 0 then true else false)
            (map (fun c => cell_volume (qsign (plane_sum g)) (temp_center (cell_sfaces g c)) (cell_sfaces g c))
                 (seq 0 (g_nc g))) = false) as EV' by exact EV.
  destruct (Qlt_le_dec v 0) as [Hlt|Hle]; [|exact Hle]. exfalso.
  assert (existsb (fun v => if Qlt_le_dec v 0 then true else false)
            (map (fun c => cell_volume (qsign (plane_sum g)) (temp_center (cell_sfaces g c)) (cell_sfaces g c))
                 (seq 0 (g_nc g))) = true) as ET.
  { apply existsb_exists. exists v. split; [exact Hv|]. destruct (Qlt_le_dec v 0); [reflexivity|].
    exfalso. apply (Qlt_not_le _ _ Hlt). assumption. }
  congruence.
Qed.

(* ------------------------------------------------------------------------------------ *)
(* 1-D *)
Lemma abs_elim x : (0 <= x /\ Qabs x == x) \/ (x <= 0 /\ Qabs x == - x).
Proof.
  destruct (Qlt_le_dec x 0) as [H|H].
  - right. split; [lra|apply Qabs_neg; lra].
  - left. split; [lra|apply Qabs_pos; lra].
Qed.

(* the flip rule makes sign * normal point from the cell centre to the face *)
Lemma flip_outward v n s : (n = 1 \/ n = -1) -> (s = 1%Z \/ s = (-1)%Z) -> ~ v == 0 ->
  0 < inject_Z s * (if flip_rule v n s then - n else n) * v.
Proof.
  intros Hn Hs Hv. unfold flip_rule.
  remember (Qabs v) as a eqn:Ea.
  remember (v + a * n * (1 # 1000)) as vn eqn:Evn.
  assert (vn == v + a * n * (1 # 1000)) as Hvn by (subst vn; reflexivity). clear Evn.
  assert (v < 0 \/ 0 < v) as Hsv.
  { destruct (Q_dec v 0) as [[H|H]|H]; auto. contradiction. }
  destruct (abs_elim v) as [[Sv Ev]|[Sv Ev]]; rewrite <- Ea in Ev;
  destruct (abs_elim vn) as [[Svn Eavn]|[Svn Eavn]];
  destruct (Qlt_le_dec (Qabs vn) a) as [L1|L1]; destruct (Qlt_le_dec a (Qabs vn)) as [L2|L2];
  rewrite Eavn in L1, L2;
  destruct Hn as [-> | ->]; destruct Hs as [-> | ->];
  cbn [Z.ltb Z.compare andb orb inject_Z]; unfold inject_Z; lra.
Qed.

Lemma ident_1d x1 x2 o1 o2 : ~ x1 == x2 -> (o1 == 1 \/ o1 == -1) -> (o2 == 1 \/ o2 == -1) ->
  0 < o1 * (x1 - (1 # 2) * (x1 + x2)) -> 0 < o2 * (x2 - (1 # 2) * (x1 + x2)) ->
  0 < Qabs (x1 - x2) /\ o1 + o2 == 0 /\
  o1 * x1 + o2 * x2 == 1 * Qabs (x1 - x2) /\
  o1 * x1 * x1 + o2 * x2 * x2 == 2 * Qabs (x1 - x2) * ((1 # 2) * (x1 + x2)).
Proof.
  intros Hne H1 H2 O1 O2.
  destruct (abs_elim (x1 - x2)) as [[S E]|[S E]]; rewrite E;
  destruct H1 as [H1|H1]; destruct H2 as [H2|H2]; rewrite H1, H2 in *;
  try (exfalso; lra);
  (split; [assert (~ x1 - x2 == 0) by (intro; apply Hne; lra); lra|]);
  (split; [lra|]); (split; [lra|ring]).
Qed.

Lemma cell1_form h c f1 s1 f2 s2 : cell_faces1 h c = [(f1, s1); (f2, s2)] ->
  vol1 h c = Qabs (xface h f1 - xface h f2) /\ cc1 h c = (1 # 2) * (xface h f1 + xface h f2).
Proof. intro H. unfold vol1, cc1. rewrite H. split; reflexivity. Qed.

Lemma normal1_form h f e c s : first_entry h f = Some (e, c, s) ->
  normal1 h f = if flip_rule (xface h f - cc1 h c) (tangent1 h) s then - tangent1 h else tangent1 h.
Proof. intro H. unfold normal1. rewrite H. reflexivity. Qed.

(* ------------------------------------------------------------------------------------ *)
(* convex cells are star-shaped w.r.t. the temporary centre (mean of the face centres) *)
Definition c0 (sigma : Q) (e : sface) : Q :=
  sigma * (1 # 2) * cross (fcenter e) (pscale (f_sgn e) (tangent e)).
Definition c1 (sigma : Q) (e : sface) : Q := - (sigma * (1 # 2) * py (pscale (f_sgn e) (tangent e))).
Definition c2 (sigma : Q) (e : sface) : Q := sigma * (1 # 2) * px (pscale (f_sgn e) (tangent e)).

Lemma subvol_affine sigma t e :
  subvol sigma t e == c0 sigma e + c1 sigma e * px t + c2 sigma e * py t.
Proof.
  unfold subvol, subnormal, c0, c1, c2, cross, psub, px, py. cbn [fst snd]. ring.
Qed.

Lemma sumQ_affine {A} (a b c : Q) (f g : A -> Q) l :
  sumQ (map (fun x => a + b * f x + c * g x) l)
  == inject_Z (Z.of_nat (length l)) * a + b * sumQ (map f l) + c * sumQ (map g l).
Proof.
  induction l as [|x l IH].
  - cbn. ring.
  - cbn [map length]. rewrite !sumQ_cons, IH. rewrite Nat2Z.inj_succ. unfold Z.succ.
    rewrite inject_Z_plus. ring.
Qed.

Lemma convex_star sigma es e : es <> [] ->
  (forall e', In e' es -> 0 <= subvol sigma (fcenter e') e) ->
  (exists e', In e' es /\ 0 < subvol sigma (fcenter e') e) ->
  0 < subvol sigma (temp_center es) e.
Proof.
  intros Hne Hall (e0 & Hin0 & Hpos).
  set (k := inject_Z (Z.of_nat (length es))).
  assert (0 < k) as Hk.
  { unfold k. destruct es; [congruence|]. cbn [length]. rewrite Nat2Z.inj_succ.
    rewrite <- (Zlt_Qlt 0). lia. }
  assert (0 < sumQ (map (fun e' => subvol sigma (fcenter e') e) es)) as Hsum.
  { clear Hne Hk k. induction es as [|x l IH]; [destruct Hin0|]. cbn [map]. rewrite sumQ_cons.
    destruct Hin0 as [->|Hin].
    - assert (0 <= sumQ (map (fun e' => subvol sigma (fcenter e') e) l)).
      { apply sumQ_nonneg. intros y Hy. apply in_map_iff in Hy. destruct Hy as (z & <- & Hz).
        apply Hall. right. exact Hz. }
      lra.
    - assert (0 <= subvol sigma (fcenter x) e) by (apply Hall; left; reflexivity).
      assert (0 < sumQ (map (fun e' => subvol sigma (fcenter e') e) l)).
      { apply IH; auto. intros; apply Hall; right; assumption. }
      lra. }
  rewrite (sumQ_map_ext _ (fun e' => c0 sigma e + c1 sigma e * px (fcenter e') + c2 sigma e * py (fcenter e')))
    in Hsum by (intros; apply subvol_affine).
  rewrite sumQ_affine in Hsum. fold k in Hsum.
  rewrite subvol_affine. unfold temp_center. fold k. unfold px at 1, py at 1. cbn [fst snd].
  remember (sumQ (map (fun e => px (fcenter e)) es)) as Sx.
  remember (sumQ (map (fun e => py (fcenter e)) es)) as Sy.
  remember (c0 sigma e) as a. remember (c1 sigma e) as b. remember (c2 sigma e) as c.
  assert (k * (a + b * (Sx / k) + c * (Sy / k)) == k * a + b * Sx + c * Sy) as E by (field; lra).
  rewrite <- E in Hsum.
  destruct (Qlt_le_dec 0 (a + b * (Sx / k) + c * (Sy / k))) as [H|H]; [exact H|].
  exfalso. assert (k * (a + b * (Sx / k) + c * (Sy / k)) <= 0); [|lra].
  rewrite <- (Qmult_0_r k). apply Qmult_le_l; [exact Hk|exact H].
Qed.

(* statements used by Props/C19.v *)
Lemma oriented_cells_closed g c : oriented1 g = true -> (c < g_nc g)%nat ->
  signs_ok (cell_sfaces g c) /\ closed (cell_sfaces g c).
Proof. intros H Hc. split; [apply oriented_signs; exact H|apply oriented_closed; assumption]. Qed.

Lemma output_1d h c f1 s1 f2 s2 : cell_faces1 h c = [(f1, s1); (f2, s2)] ->
  (vol1 h c = Qabs (xface h f1 - xface h f2) /\ cc1 h c = (1 # 2) * (xface h f1 + xface h f2)) /\
  forall f e c' s, first_entry h f = Some (e, c', s) ->
    normal1 h f = if flip_rule (xface h f - cc1 h c') (tangent1 h) s
                  then - tangent1 h else tangent1 h.
Proof.
  intro H. split; [eapply cell1_form; exact H|].
  intros f e c' s Hf. eapply normal1_form. exact Hf.
Qed.
