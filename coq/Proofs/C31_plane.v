(* C31 — sort_point_plane: the model's answer is a permutation of the indices in which no
   key precedes a strictly smaller one (exact arctan2 order by sectors and cross products). *)
From Coq Require Import List QArith Bool ZArith Arith Lia Lqa Permutation.
Import ListNotations.
From PP Require Import Model.C28 Model.C31 Proofs.C28.
Open Scope Q_scope.

Section By.
  Variable A : Type.
  Variable ltb : A -> A -> bool.
  Hypothesis ltb_asym : forall x y, ltb x y = true -> ltb y x = false.

  Lemma ins_by_perm : forall v i l, Permutation (ins_by ltb v i l) ((v, i) :: l).
  Proof.
    intros v i l. induction l as [|[w j] r IH]; cbn [ins_by]; [apply Permutation_refl|].
    destruct (ltb v w); [apply Permutation_refl|].
    eapply Permutation_trans; [apply perm_skip; exact IH|apply perm_swap].
  Qed.

  (* no element is strictly smaller than its predecessor *)
  Fixpoint sorted_by (l : list (A * nat)) : Prop :=
    match l with
    | [] => True
    | x :: r => match r with [] => True | y :: _ => ltb (fst y) (fst x) = false end /\ sorted_by r
    end.

  Lemma ins_by_head : forall v i l,
    match ins_by ltb v i l with
    | [] => False
    | x :: _ => x = (v, i) \/ match l with [] => False | y :: _ => x = y /\ ltb v (fst y) = false end
    end.
  Proof.
    intros v i [|[w j] r]; cbn [ins_by]; [left; reflexivity|].
    destruct (ltb v w) eqn:E; [left; reflexivity|right; split; [reflexivity|exact E]].
  Qed.

  Lemma ins_by_sorted : forall v i l, sorted_by l -> sorted_by (ins_by ltb v i l).
  Proof.
    intros v i l. induction l as [|[w j] r IH]; intro H; cbn [ins_by].
    - cbn. tauto.
    - destruct (ltb v w) eqn:E.
      + cbn [sorted_by fst]. split; [apply ltb_asym; exact E|exact H].
      + destruct H as [H1 H2]. specialize (IH H2). cbn [sorted_by]. split; [|exact IH].
        pose proof (ins_by_head v i r) as Hh.
        destruct (ins_by ltb v i r) as [|x t]; [exact I|].
        destruct Hh as [-> | Hh]; [cbn; exact E|].
        destruct r as [|y r']; [contradiction|]. destruct Hh as [-> _]. exact H1.
  Qed.

  Lemma argsort_by_aux_spec : forall (l0 r : list A) (i : nat) (acc : list (A * nat)) (d : A),
    (exists pre, l0 = pre ++ r /\ length pre = i) ->
    sorted_by acc -> Permutation (map snd acc) (seq 0 i) ->
    (forall v j, In (v, j) acc -> nth j l0 d = v) ->
    exists fin, argsort_by_aux ltb r i acc = map snd fin /\ sorted_by fin /\
                Permutation (map snd fin) (seq 0 (length l0)) /\
                (forall v j, In (v, j) fin -> nth j l0 d = v).
  Proof.
    intros l0 r. induction r as [|v r IH]; intros i acc d [pre [E L]] Hs Hp Hv; cbn [argsort_by_aux].
    - exists acc. rewrite app_nil_r in E. subst l0. rewrite L. repeat split; assumption.
    - apply IH.
      + exists (pre ++ [v]). rewrite <- app_assoc. split; [exact E|]. rewrite app_length. cbn. lia.
      + apply ins_by_sorted. exact Hs.
      + eapply Permutation_trans; [apply Permutation_map; apply ins_by_perm|].
        cbn [map snd]. rewrite seq_S. cbn [Nat.add].
        eapply Permutation_trans; [apply perm_skip; exact Hp|]. apply Permutation_cons_append.
      + intros w j Hin. apply (Permutation_in _ (ins_by_perm v i acc)) in Hin.
        destruct Hin as [Heq | Hin]; [|apply Hv; exact Hin].
        injection Heq as <- <-. subst l0. rewrite app_nth2 by lia.
        rewrite L, Nat.sub_diag. reflexivity.
  Qed.

  Fixpoint no_descent (l : list A) : Prop :=
    match l with
    | [] => True
    | x :: r => match r with [] => True | y :: _ => ltb y x = false end /\ no_descent r
    end.

  Lemma sorted_by_no_descent : forall l, sorted_by l -> no_descent (map fst l).
  Proof.
    induction l as [|x r IH]; intro H; cbn [map sorted_by no_descent] in *; [exact I|].
    destruct H as [H1 H2]. split; [|apply IH; exact H2]. destruct r as [|y r']; [exact I|exact H1].
  Qed.

  Lemma argsort_by_spec : forall (keys : list A) (d : A),
    Permutation (argsort_by ltb keys) (seq 0 (length keys)) /\
    no_descent (map (fun i => nth i keys d) (argsort_by ltb keys)).
  Proof.
    intros keys d. unfold argsort_by.
    destruct (argsort_by_aux_spec keys keys 0 [] d) as (fin & E & Hs & Hp & Hv).
    - exists []. split; reflexivity.
    - exact I.
    - apply Permutation_refl.
    - intros v j [].
    - rewrite E. split; [exact Hp|]. rewrite map_map.
      replace (map (fun x => nth (snd x) keys d) fin) with (map fst fin).
      + apply sorted_by_no_descent. exact Hs.
      + apply map_ext_in. intros [v j] Hin. cbn [fst snd]. symmetry. apply Hv. exact Hin.
  Qed.
End By.

Lemma atan2_ltb_asym : forall x y, atan2_ltb x y = true -> atan2_ltb y x = false.
Proof.
  intros x y. unfold atan2_ltb. cbv zeta.
  destruct (atan2_sector x <? atan2_sector y)%nat eqn:E1.
  - intros _. apply Nat.ltb_lt in E1.
    assert (E2 : (atan2_sector y <? atan2_sector x)%nat = false) by (apply Nat.ltb_ge; lia).
    rewrite E2. reflexivity.
  - destruct (atan2_sector y <? atan2_sector x)%nat eqn:E2; [discriminate|].
    apply Nat.ltb_ge in E1, E2. assert (Es : atan2_sector x = atan2_sector y) by lia.
    rewrite Es.
    destruct (Nat.eqb (atan2_sector y) 0 || Nat.eqb (atan2_sector y) 2); [|discriminate].
    intro H. apply qltb_true in H. apply qltb_false. lra.
Qed.

(* the model's order: a permutation of 0..n-1 along which the exact arctan2 key never
   strictly decreases *)
Lemma sort_point_plane_spec : forall n s pts centre,
  let idx := sort_point_plane n s pts centre in
  Permutation idx (seq 0 (length pts)) /\
  no_descent _ atan2_ltb (map (fun i => nth i (plane_keys n s pts centre) (0, 0)) idx).
Proof.
  intros n s pts centre. cbv zeta. unfold sort_point_plane.
  destruct (argsort_by_spec _ atan2_ltb atan2_ltb_asym (plane_keys n s pts centre) (0, 0)) as [P N].
  unfold plane_keys in P at 2. rewrite map_length in P. split; assumption.
Qed.
