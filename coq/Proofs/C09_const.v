(* C09 — constant time step (constant_dt=True): the constructor's compatibility test
   (np.arange + searchsorted + isclose, Model/C09_ext.v) and the time loop.  Exact reals. *)
From Coq Require Import List ZArith Bool Arith Lia Reals Lra Sorted FinFun.
Import ListNotations.
From PP Require Import Model.C09 Model.C09_ext Proofs.C09 Proofs.C09_transfer Proofs.C09_QR.

Local Open Scope R_scope.

Lemma Rceil_bounds x : IZR (Rceil x) - 1 < x <= IZR (Rceil x).
Proof.
  unfold Rceil. destruct (archimed (- x)) as [H1 H2].
  rewrite minus_IZR. simpl. lra.
Qed.

Lemma removelast_length (A : Type) (l : list A) : length (removelast l) = (length l - 1)%nat.
Proof.
  induction l as [|a [|b l] IH]; [reflexivity|reflexivity|].
  change (S (length (removelast (b :: l))) = (length (a :: b :: l) - 1)%nat).
  rewrite IH. cbn [length]. lia.
Qed.

Lemma filter_length_le (A : Type) (f : A -> bool) l : (length (filter f l) <= length l)%nat.
Proof. induction l as [|a l IH]; cbn; [lia|]. destruct (f a); cbn; lia. Qed.

Lemma NoDup_map_inj_on (A B : Type) (f : A -> B) (l : list A) :
  (forall x y, In x l -> In y l -> f x = f y -> x = y) -> NoDup l -> NoDup (map f l).
Proof.
  induction l as [|a l IH]; intros Hinj Hnd; [constructor|].
  inversion Hnd as [|? ? Hna Hnd']; subst. cbn [map]. constructor.
  - intros Hin. apply in_map_iff in Hin. destruct Hin as (y & Hy & Hyl).
    assert (y = a) by (apply Hinj; [right; exact Hyl|left; reflexivity|exact Hy]).
    subst. contradiction.
  - apply IH; [|exact Hnd']. intros x y Hx Hy. apply Hinj; right; assumption.
Qed.

Section Const.
  Variable c : cfgR.
  Variable sched : list R.

  Notation s := (s sched).
  Notation n := (n sched).
  Notation tol := (tol c).
  Let d := dt_init c.

  Hypothesis Hconst : constant c = true.
  Hypothesis Hrtol : 0 <= rtol c.
  Hypothesis Hatol : 0 <= atol c.
  Hypothesis Hlen : (2 <= length sched)%nat.
  Hypothesis Hnn : 0 <= s 0.
  Hypothesis Hinc : forall j, (S j <= n)%nat -> s j < s (S j).
  Hypothesis Hd : 0 < d.
  (* the isclose tolerance (at any simulated time) is small against the step *)
  Hypothesis Htau : 2 * tol (s n + d) < d.

  Definition T (i : nat) : R := s 0 + INR i * d.
  Definition L : nat := Z.to_nat (Rceil ((s n + d - s 0) / d)).

  Lemma iscl a b : iscloseR c a b = true <-> Rabs (a - b) <= tol b.
  Proof. apply isclose_iff; assumption. Qed.

  Lemma tol_mono' a b : 0 <= a -> a <= b -> tol a <= tol b.
  Proof.
    intros Ha Hab. unfold Proofs.C09.tol. rewrite !Rabs_pos_eq by lra.
    pose proof (Rmult_le_compat_l _ _ _ Hrtol Hab). lra.
  Qed.

  Lemma tol_nn b : 0 <= tol b.
  Proof.
    unfold Proofs.C09.tol. pose proof (Rabs_pos b).
    pose proof (Rmult_le_pos _ _ Hrtol H). lra.
  Qed.

  Lemma s_le j k : (j <= k)%nat -> (k <= n)%nat -> s j <= s k.
  Proof.
    induction k as [|k IH]; intros Hjk Hk.
    - replace j with 0%nat by lia. lra.
    - destruct (Nat.eq_dec j (S k)) as [->|Hne]; [lra|].
      pose proof (Hinc k Hk). assert (s j <= s k) by (apply IH; lia). lra.
  Qed.

  Lemma T_nonneg i : 0 <= T i.
  Proof. unfold T. pose proof (pos_INR i). pose proof (Rmult_le_pos _ _ H (Rlt_le _ _ Hd)). lra. Qed.

  Lemma T_step i : T (S i) = T i + d.
  Proof. unfold T. rewrite S_INR. ring. Qed.

  Lemma T_mono i k : (i < k)%nat -> T i + d <= T k.
  Proof.
    intros H. unfold T. apply lt_INR in H.
    assert (INR i + 1 <= INR k).
    { replace (INR i + 1) with (INR (S i)) by (rewrite S_INR; ring).
      apply le_INR. apply INR_lt in H. lia. }
    pose proof (Rmult_le_compat_r d _ _ (Rlt_le _ _ Hd) H0). lra.
  Qed.

  Lemma T_inj : Injective T.
  Proof.
    intros i k H. destruct (Nat.lt_trichotomy i k) as [Hlt|[Heq|Hgt]]; [|exact Heq|].
    - pose proof (T_mono _ _ Hlt). lra.
    - pose proof (T_mono _ _ Hgt). lra.
  Qed.

  Lemma T_below i : (i < L)%nat -> T i < s n + d.
  Proof.
    intros Hi. unfold L in Hi. set (q := (s n + d - s 0) / d) in *.
    destruct (Rceil_bounds q) as [Hq _].
    assert (Hz : (Z.of_nat i <= Rceil q - 1)%Z) by lia.
    apply IZR_le in Hz. rewrite minus_IZR, <- INR_IZR_INZ in Hz. simpl in Hz.
    assert (INR i < q) by lra.
    assert (INR i * d < q * d) by (apply Rmult_lt_compat_r; assumption).
    unfold q in H0. unfold Rdiv in H0. rewrite Rmult_assoc, Rinv_l in H0 by lra.
    unfold T. lra.
  Qed.

  Lemma tol_T i : (i < L)%nat -> tol (T i) <= tol (s n + d).
  Proof. intros Hi. apply tol_mono'; [apply T_nonneg|apply Rlt_le, T_below, Hi]. Qed.

  (* the simulated times of the constructor are t0 + i*dt, i < L *)
  Lemma sim_times_eq : sim_times R ROps RExt c sched = map T (seq 0 L).
  Proof.
    unfold sim_times, arange, arange_len, L.
    cbn [x_div x_ceil x_ofZ RExt n_add n_sub n_zero ROps]. fold d.
    assert (Hhd : hd 0 sched = s 0) by (unfold Proofs.C09.s; destruct sched; reflexivity).
    assert (Hla : last sched 0 = s n) by apply last_nth_R.
    rewrite Hhd, Hla. unfold Rdiv0. destruct (Req_EM_T d 0) as [H0|_]; [lra|].
    apply map_ext. intros i. unfold T.
    destruct i as [|[|i]]; cbn [arange_item n_add n_sub n_mul ROps x_ofZ RExt].
    - cbn [INR]. ring.
    - cbn [INR]. ring.
    - rewrite <- INR_IZR_INZ. ring.
  Qed.

  Definition phi (t : R) : nat :=
    let ss := searchsorted_left R ROps (removelast (tl sched)) t in
    if iscloseR c (nth ss sched 0) t then ss else S ss.

  Lemma phi_le t : (phi t <= n)%nat.
  Proof.
    unfold phi, searchsorted_left.
    pose proof (filter_length_le R (fun x => n_ltb R ROps x t) (removelast (tl sched))) as H.
    rewrite removelast_length in H.
    assert (length (tl sched) = (length sched - 1)%nat) by (destruct sched; cbn; lia).
    unfold Proofs.C09.n.
    destruct (iscloseR c _ t); lia.
  Qed.

  Lemma phi_close t : matches R ROps c sched t = true -> iscloseR c (s (phi t)) t = true.
  Proof.
    unfold matches, phi. cbn [n_zero ROps]. fold (Proofs.C09.s sched).
    destruct (iscloseR c (nth (searchsorted_left R ROps (removelast (tl sched)) t) sched 0) t)
      eqn:E; intros H.
    - exact E.
    - cbn [orb] in H. exact H.
  Qed.

  (* ---- the constructor's test implies: every scheduled time is matched by a simulated
          time (pigeonhole) ---- *)
  Lemma compat_hits :
    compatible R ROps RExt c sched = true ->
    forall j, (j <= n)%nat -> exists i, (i < L)%nat /\ iscloseR c (s j) (T i) = true.
  Proof.
    unfold compatible. intros Hc j Hj. apply Nat.eqb_eq in Hc. rewrite sim_times_eq in Hc.
    set (sims := map T (seq 0 L)) in *.
    set (M := filter (matches R ROps c sched) sims) in *.
    assert (HndS : NoDup sims) by (apply Injective_map_NoDup; [exact T_inj|apply seq_NoDup]).
    assert (HndM : NoDup M) by (apply NoDup_filter; exact HndS).
    assert (HinM : forall t, In t M -> exists i, (i < L)%nat /\ t = T i /\
                                      iscloseR c (s (phi t)) t = true).
    { intros t Ht. apply filter_In in Ht. destruct Ht as [Hs Hm].
      apply in_map_iff in Hs. destruct Hs as (i & <- & Hi). apply in_seq in Hi.
      exists i. split; [lia|]. split; [reflexivity|]. apply phi_close, Hm. }
    assert (Hinj : forall x y, In x M -> In y M -> phi x = phi y -> x = y).
    { intros x y Hx Hy Hxy.
      destruct (HinM x Hx) as (i & Hi & -> & Cx). destruct (HinM y Hy) as (k & Hk & -> & Cy).
      rewrite Hxy in Cx. apply iscl in Cx, Cy.
      pose proof (tol_T i Hi). pose proof (tol_T k Hk).
      assert (Hd' : Rabs (T i - T k) < d).
      { replace (T i - T k) with ((s (phi (T k)) - T k) - (s (phi (T k)) - T i)) by ring.
        eapply Rle_lt_trans; [apply Rabs_triang|]. rewrite Rabs_Ropp. lra. }
      destruct (Nat.lt_trichotomy i k) as [Hlt|[->|Hgt]]; [|reflexivity|].
      - pose proof (T_mono _ _ Hlt). rewrite Rabs_left in Hd' by lra. lra.
      - pose proof (T_mono _ _ Hgt). rewrite Rabs_pos_eq in Hd' by lra. lra. }
    assert (Hnd : NoDup (map phi M)) by (apply NoDup_map_inj_on; assumption).
    assert (Hincl : incl (map phi M) (seq 0 (S n))).
    { intros k Hk. apply in_map_iff in Hk. destruct Hk as (t & <- & _).
      apply in_seq. pose proof (phi_le t). lia. }
    assert (Hlen' : (length (seq 0 (S n)) <= length (map phi M))%nat).
    { rewrite seq_length, map_length, <- Hc. unfold Proofs.C09.n. lia. }
    pose proof (NoDup_length_incl Hnd Hlen' Hincl) as Hback.
    assert (Hjin : In j (map phi M)) by (apply Hback, in_seq; lia).
    apply in_map_iff in Hjin. destruct Hjin as (t & <- & Ht).
    destruct (HinM t Ht) as (i & Hi & -> & Cx). exists i. split; assumption.
  Qed.

  (* ---------------- the time loop with a constant step ---------------- *)
  Definition fin (t : R) : Prop := s n < t \/ iscloseR c t (s n) = true.

  Lemma final_fin x : finalR c sched x = true <-> fin (time x).
  Proof.
    unfold final_time_reached, time_final, fin. cbn [n_zero n_ltb ROps].
    rewrite (last_nth_R sched 0). fold (Proofs.C09.n sched). fold (Proofs.C09.s sched n).
    rewrite orb_true_iff, Rltb_true. tauto.
  Qed.

  Lemma const_drive evs : forall x tr st,
    dt x = d ->
    driveR c sched x evs = (tr, st) ->
    let acc := accepted R tr in
    (forall k, (k < length acc)%nat -> nth k acc 0 = time x + INR (S k) * d) /\
    (forall k, (k < length acc)%nat -> ~ fin (time x + INR k * d)) /\
    (st = Finished -> fin (time x + INR (length acc) * d)) /\
    (forall ev x' o, In (ev, x', o) tr ->
       (exists k, ev = Converged k /\ o = OUnit) \/
       (ev = Failed /\ o = OErr E_not_converged /\ st = Raised E_not_converged)) /\
    (forall e, st = Raised e -> e = E_not_converged) /\
    (forall pre x' o post, tr = pre ++ (Failed, x', o) :: post ->
       o = OErr E_not_converged /\ post = [] /\ st = Raised E_not_converged).
  Proof.
    induction evs as [|ev r IH]; intros x tr st Hdx H; cbn [drive] in H.
    - destruct (finalR c sched x) eqn:Hf; inversion H; subst; cbn [accepted length];
        (split; [intros k Hk; lia|split; [intros k Hk; lia|split; [|split; [|split]]]]).
      + intros _. apply final_fin in Hf. cbn [INR]. rewrite Rmult_0_l, Rplus_0_r. exact Hf.
      + intros ev x' o Hin. destruct Hin.
      + intros e He. discriminate.
      + intros pre x' o post E. destruct pre; discriminate.
      + intros He. discriminate.
      + intros ev x' o Hin. destruct Hin.
      + intros e He. discriminate.
      + intros pre x' o post E. destruct pre; discriminate.
    - destruct (finalR c sched x) eqn:Hf.
      { inversion H; subst; cbn [accepted length].
        split; [intros k Hk; lia|split; [intros k Hk; lia|split; [|split; [|split]]]].
        + intros _. apply final_fin in Hf. cbn [INR]. rewrite Rmult_0_l, Rplus_0_r. exact Hf.
        + intros ev' x' o Hin. destruct Hin.
        + intros e He. discriminate.
        + intros pre x' o post E. destruct pre; discriminate. }
      rewrite Hconst in H.
      set (x1 := increase_time_index R (increase_time R ROps x)) in *.
      assert (Ht1 : time x1 = time x + d).
      { unfold x1, increase_time_index, increase_time; cbn [time n_add ROps].
        rewrite Hdx. reflexivity. }
      assert (Hd1 : dt x1 = d) by exact Hdx.
      destruct ev as [k|].
      + destruct (driveR c sched x1 r) as [tr' st'] eqn:Hrec. inversion H; subst tr st.
        destruct (IH _ _ _ Hd1 Hrec) as (A & B & C & D & E & F).
        cbn [accepted length]. rewrite Ht1 in *.
        split; [|split; [|split; [|split; [|split]]]].
        * intros [|k'] Hk; cbn [nth].
          -- cbn [INR]. ring.
          -- rewrite A by lia. rewrite (S_INR (S k')). ring.
        * intros [|k'] Hk.
          -- cbn [INR]. rewrite Rmult_0_l, Rplus_0_r. intros Hfin. apply final_fin in Hfin.
             congruence.
          -- specialize (B k' ltac:(lia)). rewrite S_INR.
             replace (time x + (INR k' + 1) * d) with (time x + d + INR k' * d) by ring.
             exact B.
        * intros Hst. specialize (C Hst). rewrite S_INR.
          replace (time x + (INR (length (accepted R tr')) + 1) * d)
            with (time x + d + INR (length (accepted R tr')) * d) by ring.
          exact C.
        * intros ev x' o [Heq|Hin].
          -- inversion Heq; subst. left. exists k. split; reflexivity.
          -- exact (D _ _ _ Hin).
        * exact E.
        * intros pre x' o post Heq. destruct pre as [|p pre]; [discriminate|].
          cbn [app] in Heq. inversion Heq; subst. exact (F _ _ _ _ eq_refl).
      + inversion H; subst tr st. cbn [accepted length].
        split; [intros k Hk; lia|split; [intros k Hk; lia|split; [|split; [|split]]]].
        * intros; discriminate.
        * intros ev x' o [Heq|[]]. inversion Heq; subst. right. repeat split.
        * intros e He. inversion He. reflexivity.
        * intros pre x' o post Heq. destruct pre as [|p pre].
          -- cbn [app] in Heq. inversion Heq; subst. repeat split.
          -- cbn [app] in Heq. inversion Heq. destruct pre; discriminate.
  Qed.
End Const.

(* ---------------- assembling ---------------- *)
Lemma strictly_increasing_nth (l : list R) :
  strictly_increasing R ROps l = true ->
  forall j, (S j < length l)%nat -> nth j l 0 < nth (S j) l 0.
Proof.
  induction l as [|a [|b l] IH]; intros H j Hj; cbn [length] in Hj; try lia.
  change (n_ltb R ROps a b && strictly_increasing R ROps (b :: l) = true) in H.
  apply andb_true_iff in H. destruct H as [H1 H2]. cbn [n_ltb ROps] in H1.
  apply Rltb_true in H1. destruct j as [|j]; [exact H1|].
  change (nth j (b :: l) 0 < nth (S j) (b :: l) 0). apply IH; [exact H2|cbn [length]; lia].
Qed.

Lemma construct_ok_const (a : args R) (sched : list R) (c : cfgR) :
  construct R ROps a sched = inl c -> a_constant a = true ->
  constant c = true /\ dt_init c = a_dt_init a /\ rtol c = a_rtol a /\ atol c = a_atol a /\
  (2 <= length sched)%nat /\ 0 <= nth 0 sched 0 /\ 0 < dt_init c /\
  strictly_increasing R ROps sched = true.
Proof.
  unfold construct. intros H Hc. rewrite Hc in H. cbv zeta in H. revert H. rops.
  destruct (length sched <? 2)%nat eqn:E1; [discriminate|].
  destruct (existsb (fun t => Rltb t 0) sched) eqn:E2; [discriminate|].
  destruct (strictly_increasing R ROps sched) eqn:E3; cbn [negb]; [|discriminate].
  destruct (Rleb (a_dt_init a) 0) eqn:E4; [discriminate|].
  destruct (Rltb (last sched 0) (a_dt_init a)) eqn:E5; [discriminate|].
  intros H. injection H as <-. cbn [constant dt_init rtol atol].
  apply Nat.ltb_ge in E1. apply Rleb_false in E4.
  repeat split; auto.
  destruct sched as [|t0 r]; [cbn in E1; lia|]. cbn [nth].
  cbn [existsb] in E2. apply orb_false_iff in E2. destruct E2 as [E2 _].
  apply Rltb_false in E2. exact E2.
Qed.

Lemma sorted_of_steps (l : list R) :
  (forall k, (S k < length l)%nat -> nth k l 0 < nth (S k) l 0) -> Sorted Rlt l.
Proof.
  induction l as [|a [|b l] IH]; intros H; [constructor|repeat constructor|].
  constructor.
  - apply IH. intros k Hk. apply (H (S k)). cbn [length] in *. lia.
  - constructor. apply (H 0%nat). cbn [length]. lia.
Qed.

(* The constant-step analogue of C09_main. *)
Theorem constant_theorem :
  forall (a : args R) (sched : list R) (evs : list event)
         (c : cfgR) (tr : list (event * stateR * out R)) (st : stop),
    simulate_full R ROps RExt a sched evs = inl (c, (tr, st)) ->
    a_constant a = true ->
    0 <= a_rtol a -> 0 <= a_atol a ->
    2 * (a_atol a + a_rtol a * Rabs (last sched 0 + a_dt_init a)) < a_dt_init a ->
    let t0 := nth 0 sched 0 in
    let d := a_dt_init a in
    let acc := accepted R tr in
    (forall k, (k < length acc)%nat -> nth k acc 0 = t0 + INR (S k) * d) /\
    StronglySorted Rlt (t0 :: acc) /\
    (forall t, In t acc -> t <= last sched 0 \/ iscloseR c (last sched 0) t = true) /\
    (st = Finished ->
       forall sj, In sj sched -> exists t, In t (t0 :: acc) /\ iscloseR c sj t = true) /\
    (forall pre x o post, tr = pre ++ (Failed, x, o) :: post ->
       o = OErr E_not_converged /\ post = [] /\ st = Raised E_not_converged) /\
    (forall ev x o, In (ev, x, o) tr ->
       (exists k, ev = Converged k /\ o = OUnit) \/
       (ev = Failed /\ o = OErr E_not_converged /\ st = Raised E_not_converged)) /\
    (forall e, st = Raised e -> e = E_not_converged).
Proof.
  intros a sched evs c tr st Hsim Hc Hrt Hat Htau t0 d acc.
  unfold simulate_full, construct_full in Hsim.
  destruct (construct R ROps a sched) as [c'|e] eqn:Ec; [|discriminate].
  destruct (construct_ok_const a sched c' Ec Hc)
    as (Kc & Kdt & Krt & Kat & Klen & Knn & Kpos & Kinc).
  rewrite Kc in Hsim.
  destruct (compatible R ROps RExt c' sched) eqn:Ecomp; [|discriminate].
  injection Hsim as -> Hd.
  assert (Hrtol : 0 <= rtol c) by (rewrite Krt; exact Hrt).
  assert (Hatol : 0 <= atol c) by (rewrite Kat; exact Hat).
  assert (Hinc : forall j, (S j <= n sched)%nat -> s sched j < s sched (S j)).
  { intros j Hj. apply strictly_increasing_nth; [exact Kinc|]. unfold n in Hj. lia. }
  assert (Hlast : last sched 0 = s sched (n sched)) by apply last_nth_R.
  assert (Htau' : 2 * tol c (s sched (n sched) + dt_init c) < dt_init c).
  { unfold tol. rewrite Krt, Kat, Kdt, <- Hlast. exact Htau. }
  assert (Hx0 : dt (init_state R ROps c sched) = dt_init c) by reflexivity.
  assert (Ht0 : time (init_state R ROps c sched) = t0).
  { unfold init_state, t0; cbn [time]; rops. destruct sched; reflexivity. }
  destruct (const_drive c sched Kc Klen evs _ _ _ Hx0 Hd) as (A & B & C & D & E & F).
  rewrite Ht0 in A, B, C. fold acc in A, B, C. unfold d. rewrite <- Kdt.
  assert (HT : forall i, T c sched i = t0 + INR i * dt_init c) by reflexivity.
  pose proof (compat_hits c sched Hrtol Hatol Klen Knn Hinc Kpos Htau' Ecomp) as Hhits.
  assert (Htol_le : forall i, (i < L c sched)%nat ->
                       tol c (T c sched i) <= tol c (s sched (n sched) + dt_init c)).
  { intros i Hi. apply (tol_T c sched Hrtol Klen Knn Kpos i Hi). }
  assert (Hsn0 : s sched 0 <= s sched (n sched)).
  { apply (s_le sched Klen Hinc); lia. }
  assert (Htol_n : tol c (s sched (n sched)) <= tol c (s sched (n sched) + dt_init c)).
  { apply (tol_mono' c Hrtol); [|lra]. unfold s in *. lra. }
  split; [exact A|]. split; [|split; [|split; [|split; [exact F|split; [exact D|exact E]]]]].
  - (* strictly increasing *)
    apply Sorted_StronglySorted; [exact Rlt_Transitive|].
    apply sorted_of_steps. intros k Hk. cbn [length] in Hk.
    destruct k as [|k]; cbn [nth].
    + rewrite A by lia. cbn [INR]. lra.
    + rewrite !A by lia. rewrite (S_INR (S k)). lra.
  - (* never beyond the final time, up to the constructor's own tolerance *)
    intros t Hin. destruct (In_nth acc t 0 Hin) as (k & Hk & <-). rewrite A by exact Hk.
    destruct (Hhits (n sched) ltac:(lia)) as (i & Hi & Hcl).
    pose proof (Htol_le i Hi) as Hti.
    apply (iscl c Hrtol Hatol) in Hcl. rewrite HT in Hcl, Hti.
    destruct (Nat.lt_trichotomy i (S k)) as [Hlt|[Heq|Hgt]].
    + (* the matching simulated time is an earlier loop time: the loop would have stopped *)
      exfalso. apply (B i ltac:(lia)). right. apply (iscl c Hrtol Hatol).
      assert (Hnf : ~ s sched (n sched) < t0 + INR i * dt_init c).
      { intros Hgt. apply (B i ltac:(lia)). left. exact Hgt. }
      assert (Hle : t0 + INR i * dt_init c <= s sched (n sched)) by lra.
      rewrite Rabs_left1 by lra. rewrite Rabs_pos_eq in Hcl by lra.
      assert (tol c (t0 + INR i * dt_init c) <= tol c (s sched (n sched))).
      { apply (tol_mono' c Hrtol); [|exact Hle]. rewrite <- HT. apply (T_nonneg c sched Knn Kpos). }
      lra.
    + right. subst i. rewrite Hlast. apply (iscl c Hrtol Hatol). exact Hcl.
    + left. rewrite Hlast.
      pose proof (T_mono c sched Klen Kpos (S k) i Hgt) as Hm. rewrite !HT in Hm.
      revert Hcl. unfold Rabs. destruct (Rcase_abs _); intros; lra.
  - (* every scheduled time is matched by an accepted time *)
    intros Hst sj Hin. destruct (In_nth sched sj 0 Hin) as (j & Hj & <-).
    fold (s sched j).
    destruct (Hhits j ltac:(unfold n; lia)) as (i & Hi & Hcl).
    pose proof (Htol_le i Hi) as Hti.
    assert (Hik : (i <= length acc)%nat).
    { destruct (le_lt_dec i (length acc)) as [|Hgt]; [assumption|exfalso].
      specialize (C Hst).
      pose proof (T_mono c sched Klen Kpos (length acc) i Hgt) as Hm. rewrite !HT in Hm.
      apply (iscl c Hrtol Hatol) in Hcl. rewrite HT in Hcl, Hti.
      pose proof (s_le sched Klen Hinc j (n sched) ltac:(unfold n; lia) ltac:(lia)) as Hsj.
      assert (Hup : t0 + INR i * dt_init c <= s sched (n sched)
                                              + tol c (s sched (n sched) + dt_init c)).
      { revert Hcl. unfold Rabs. destruct (Rcase_abs _); intros; lra. }
      destruct C as [C|C].
      - lra.
      - apply (iscl c Hrtol Hatol) in C.
        revert C. unfold Rabs. destruct (Rcase_abs _); intros; lra. }
    destruct i as [|i].
    + exists t0. split; [left; reflexivity|].
      replace t0 with (T c sched 0) by (rewrite HT; cbn [INR]; ring). exact Hcl.
    + exists (nth i acc 0). split; [right; apply nth_In; lia|].
      rewrite A by lia. rewrite <- HT. exact Hcl.
Qed.
