(* C27 (extension) — lemmas: soundness of the conformity flags, the cached accessors
   without guard, BoundaryProjection for arbitrary lists (stale block). *)
From Coq Require Import List ZArith QArith Qabs Bool Arith Lia Permutation.
Import ListNotations.
From PP Require Import Model.C27 Model.C27_spec Model.C27_ext.
From PP Require Import Proofs.C27 Proofs.C27_mortar Proofs.C27_cache Proofs.C27_bnd.
Local Open Scope nat_scope.

(* ------------------------------------------------------------------ conformity flags *)
Lemma close1_iff : forall x, close1 x = true <-> within_tol x.
Proof. intros x. unfold close1, within_tol. apply Qle_bool_iff. Qed.

Lemma all_close1_iff : forall ms, all_close1 ms = true <-> all_within_tol ms.
Proof.
  intros ms. unfold all_close1, all_within_tol. rewrite forallb_forall, Forall_forall.
  split; intros H m Hm; specialize (H m Hm).
  - rewrite forallb_forall in H. apply Forall_forall. intros e He. apply close1_iff. now apply H.
  - rewrite Forall_forall in H. apply forallb_forall. intros e He. apply close1_iff. now apply H.
Qed.

Lemma conformity_flags_sound : forall sds ifs nd loc,
    (mp_conf_p (mp_init sds ifs nd loc) = true
     <-> all_within_tol (loc M2P_int) /\ all_within_tol (loc M2P_avg)) /\
    (mp_conf_s (mp_init sds ifs nd loc) = true
     <-> all_within_tol (loc M2S_int) /\ all_within_tol (loc M2S_avg)).
Proof.
  intros. cbn [mp_init mp_conf_p mp_conf_s]. rewrite !andb_true_iff, !all_close1_iff. tauto.
Qed.

(* ------------------------------------------------------------------ cached accessors, no guard *)
Lemma same_slot_cases : forall mp k k',
    slot_of mp k = slot_of mp k' -> k' = k \/ (k' = twin k /\ side_conf mp k = true).
Proof.
  intros mp k k'. unfold slot_of, side_conf.
  destruct (mp_conf_p mp); destruct (mp_conf_s mp); destruct k, k';
    cbn [k_is_primary k_to_mortar twin]; intros H;
    try (left; reflexivity); try discriminate H; right; split; reflexivity.
Qed.

Definition cache_ok2 (mp : mproj) : Prop :=
  forall s m, cache_get (mp_cache mp) s = Some m ->
              exists k0, slot_of mp k0 = s /\ answer mp k0 = Ok m.

Definition own_or_twin (mp : mproj) (k : pkind) (o : res mat) : Prop :=
  o = answer mp k \/ (side_conf mp k = true /\ o = answer mp (twin k)).

Lemma mp_call_spec2 : forall mp k,
    cache_ok2 mp ->
    own_or_twin mp k (snd (mp_call mp k)) /\
    exists c, fst (mp_call mp k) = with_cache mp c /\ cache_ok2 (with_cache mp c).
Proof.
  intros mp k Hok. unfold mp_call.
  destruct (cache_get (mp_cache mp) (slot_of mp k)) as [m|] eqn:Ec.
  - cbn [fst snd]. split.
    + destruct (Hok _ _ Ec) as (k0 & Hs & Ha).
      destruct (same_slot_cases mp k k0 (eq_sym Hs)) as [->|(-> & Hc)].
      * left. now symmetry.
      * right. split; [exact Hc|now symmetry].
    + exists (mp_cache mp). split; [now destruct mp|now destruct mp].
  - fold (answer mp k). destruct (answer mp k) as [m|e] eqn:Ea; cbn [fst snd].
    + split; [left; symmetry; exact Ea|]. exists ((slot_of mp k, m) :: mp_cache mp).
      split; [reflexivity|].
      intros s m' Hget. cbn [with_cache mp_cache cache_get] in Hget.
      destruct (slot_eqb (slot_of mp k) s) eqn:Es.
      * apply slot_eqb_eq in Es. injection Hget as <-. exists k. split; [exact Es|exact Ea].
      * destruct (Hok s m' Hget) as (k0 & Hs & Ha). exists k0. split; assumption.
    + split; [left; symmetry; exact Ea|]. exists (mp_cache mp). split; [now destruct mp|now destruct mp].
Qed.

Lemma mp_run_spec2 : forall ks mp,
    cache_ok2 mp -> Forall2 (own_or_twin mp) ks (mp_run mp ks).
Proof.
  induction ks as [|k ks IH]; intros mp Hok; [constructor|].
  cbn [mp_run].
  destruct (mp_call_spec2 mp k Hok) as (Ho & c & Hmp & Hok').
  destruct (mp_call mp k) as [mp' o] eqn:Ecall. cbn [fst snd] in Ho, Hmp. subst.
  constructor; [exact Ho|]. exact (IH _ Hok').
Qed.

(* any call history: every call answers with the construction of its own flavour, or -- only
   on a side classified as conforming -- with that of the twin flavour (int <-> avg) *)
Lemma cached_accessors_unguarded : forall sds ifs nd loc ks,
    let mp := mp_init sds ifs nd loc in
    Forall2 (own_or_twin mp) ks (mp_run mp ks).
Proof.
  intros sds ifs nd loc ks mp. apply mp_run_spec2. intros s m H. discriminate H.
Qed.

(* the first call of a history is always answered by its own construction *)
Lemma first_call_own : forall sds ifs nd loc k ks,
    hd_error (mp_run (mp_init sds ifs nd loc) (k :: ks))
    = Some (answer (mp_init sds ifs nd loc) k).
Proof.
  intros. cbn [mp_run]. unfold mp_call at 1. cbn [mp_init mp_cache cache_get].
  fold (answer (mp_init sds ifs nd loc) k).
  destruct (answer (mp_init sds ifs nd loc) k); reflexivity.
Qed.

(* ------------------------------------------------------------------ boundary, arbitrary lists *)
Definition cblock (tot : nat) (c : list nat) : mat := mkM (length c) tot (selents 0 c).

Lemma bp_loop_stale : forall sds nd l pc acc,
    NoDup (map gid sds) -> Forall bnd_in_range l -> incl (map bg_grid l) sds ->
    let tot := total nfaces sds nd in
    bp_loop (pdict_spec nfaces tot nd sds 0 []) tot nd l (option_map (cblock tot) pc) acc
    = match stale_blocks sds nd l pc with
      | Some cs => Ok (rev acc ++ map (cblock tot) cs)
      | None => Err UnboundErr
      end.
Proof.
  intros sds nd l; induction l as [|b r IH]; intros pc acc Hnd Hr Hinc tot; subst tot;
    set (tot := total nfaces sds nd) in *.
  - cbn [bp_loop stale_blocks map]. now rewrite app_nil_r.
  - inversion Hr as [|x xs Hb Hr']; subst.
    assert (Hin : In (bg_grid b) sds) by (apply Hinc; now left).
    assert (Hinc' : incl (map bg_grid r) sds) by (intros x Hx; apply Hinc; now right).
    cbn [bp_loop stale_blocks].
    destruct (0 <? gdim (bg_grid b)) eqn:Ed.
    + destruct (bg_bnd b) as [bnd|] eqn:Eb.
      * rewrite lookup_pdict_in by assumption. cbn [bind plus].
        rewrite transpose_pmat, bnd_block by (apply Hb; exact Eb). cbn [bind].
        rewrite <- (bnd_cols_bcols sds nd b bnd Eb Ed).
        change (mkM (length (bnd_cols sds nd b)) tot (selents 0 (bnd_cols sds nd b)))
          with (cblock tot (bnd_cols sds nd b)).
        specialize (IH (Some (bnd_cols sds nd b)) (cblock tot (bnd_cols sds nd b) :: acc) Hnd Hr' Hinc').
        cbn [option_map] in IH. rewrite IH.
        destruct (stale_blocks sds nd r (Some (bnd_cols sds nd b))); [|reflexivity].
        cbn [option_map map rev]. now rewrite <- app_assoc.
      * destruct pc as [c|]; cbn [option_map]; [|reflexivity].
        specialize (IH (Some c) (cblock tot c :: acc) Hnd Hr' Hinc').
        cbn [option_map] in IH. rewrite IH.
        destruct (stale_blocks sds nd r (Some c)); [|reflexivity].
        cbn [option_map map rev]. now rewrite <- app_assoc.
    + specialize (IH (Some []) (cblock tot [] :: acc) Hnd Hr' Hinc').
      cbn [option_map] in IH. change (zeros 0 tot) with (cblock tot []). rewrite IH.
      destruct (stale_blocks sds nd r (Some [])); [|reflexivity].
      cbn [option_map map rev]. now rewrite <- app_assoc.
Qed.

Lemma vstack_cblocks : forall tot cs a,
    vstack_ents (map (cblock tot) cs) a = selents a (concat cs)
    /\ forallb (fun B => nc B =? tot) (map (cblock tot) cs) = true
    /\ sum_by nr (map (cblock tot) cs) = length (concat cs).
Proof.
  intros tot cs; induction cs as [|c cs IH]; intros a; [repeat split; reflexivity|].
  destruct (IH (a + length c)) as (H1 & H2 & H3).
  cbn [map vstack_ents concat forallb sum_by]. cbn [cblock nr nc ents].
  rewrite H1, H2, H3, shift_selents, selents_app, app_length, Nat.eqb_refl. repeat split.
Qed.

Lemma vstack_cblocks_ok : forall tot cs,
    cs <> [] -> vstack (map (cblock tot) cs) = Ok (selection tot (concat cs)).
Proof.
  intros tot cs Hne. destruct cs as [|c0 cs']; [congruence|].
  destruct (vstack_cblocks tot (c0 :: cs') 0) as (H1 & H2 & H3).
  unfold vstack. cbn [map]. cbn [nc cblock].
  change (cblock tot c0 :: map (cblock tot) cs') with (map (cblock tot) (c0 :: cs')).
  rewrite H2, H3, H1. reflexivity.
Qed.

Lemma stale_blocks_nonempty : forall sds nd b r pc cs,
    stale_blocks sds nd (b :: r) pc = Some cs -> cs <> [].
Proof.
  intros sds nd b r pc cs H. cbn [stale_blocks] in H.
  destruct (if 0 <? gdim (bg_grid b) then _ else _) as [c|]; [|discriminate H].
  destruct (stale_blocks sds nd r (Some c)); cbn [option_map] in H; [|discriminate H].
  injection H as <-. discriminate.
Qed.

Lemma bp_projection_general : forall bgs nd,
    1 <= nd -> Forall wf_grid (map bg_grid bgs) -> NoDup (map gid (map bg_grid bgs)) ->
    Forall bnd_in_range bgs ->
    bp_projection bgs nd
    = match stale_blocks (map bg_grid bgs) nd bgs None with
      | Some cs => Ok (selection (total nfaces (map bg_grid bgs) nd) (concat cs))
      | None => Err UnboundErr
      end.
Proof.
  intros bgs nd Hnd Hwfg Hnodup Hr. unfold bp_projection.
  pose proof (projections_spec Faces (map bg_grid bgs) nd Hnd Hwfg) as HP.
  cbn [projections_of sp_all sp_nd num_of] in HP. rewrite HP. cbn [bind].
  fold (total nfaces (map bg_grid bgs) nd).
  pose proof (bp_loop_stale (map bg_grid bgs) nd bgs None [] Hnodup Hr (incl_refl _)) as HL.
  cbn [option_map] in HL. rewrite HL.
  destruct (stale_blocks (map bg_grid bgs) nd bgs None) as [cs|] eqn:Es; [|reflexivity].
  cbn [rev app bind].
  destruct bgs as [|b r].
  - cbn [stale_blocks] in Es. injection Es as <-. reflexivity.
  - pose proof (stale_blocks_nonempty _ _ _ _ _ _ Es) as Hne.
    destruct cs as [|c0 cs']; [congruence|].
    remember (total nfaces (map bg_grid (b :: r)) nd) as T eqn:ET. clear.
    change (map (cblock T) (c0 :: cs')) with (cblock T c0 :: map (cblock T) cs') at 1.
    cbv iota.
    apply vstack_cblocks_ok. discriminate.
Qed.

(* a stale block repeats boundary rows: claim (4) fails for such lists *)
Lemma boundary_stale_refuted :
  exists bgs nd S,
    NoDup (map gid (map bg_grid bgs)) /\ Forall wf_grid (map bg_grid bgs) /\
    subdomain_to_boundary bgs nd = Ok S /\
    mul S (transpose S) <> Ok (identity (nr S)).
Proof.
  exists [mkB (mkG 0 1 2 3) (Some [0; 2]); mkB (mkG 7 2 2 7) None], 1.
  eexists. split; [|split; [|split]].
  - cbn. repeat constructor; cbn; intuition lia.
  - repeat constructor; cbn; try lia; intros H; lia.
  - vm_compute. reflexivity.
  - vm_compute. intro H. discriminate H.
Qed.
