(* C31 — sort_points_on_line: the stable argsort of the model returns a permutation of the
   indices that lists the sort keys in non-decreasing order. *)
From Coq Require Import List QArith Bool ZArith Arith Lia Lqa Permutation.
Import ListNotations.
From PP Require Import Model.C28 Model.C31 Proofs.C28.
Open Scope Q_scope.

Fixpoint sortedq (l : list (Q * nat)) : Prop :=
  match l with
  | [] => True
  | x :: r => match r with [] => True | y :: _ => fst x <= fst y end /\ sortedq r
  end.

Lemma ins_sorted_perm : forall v i l, Permutation (ins_sorted v i l) ((v, i) :: l).
Proof.
  intros v i l. induction l as [|[w j] r IH]; cbn [ins_sorted]; [apply Permutation_refl|].
  destruct (qltb v w); [apply Permutation_refl|].
  eapply Permutation_trans; [apply perm_skip; exact IH|apply perm_swap].
Qed.

Lemma ins_sorted_head : forall v i l,
  match ins_sorted v i l with
  | [] => False
  | x :: _ => x = (v, i) \/ match l with [] => False | y :: _ => x = y /\ fst y <= v end
  end.
Proof.
  intros v i [|[w j] r]; cbn [ins_sorted]; [left; reflexivity|].
  destruct (qltb v w) eqn:E; [left; reflexivity|].
  right. split; [reflexivity|]. apply qltb_false in E. exact E.
Qed.

Lemma ins_sorted_sorted : forall v i l, sortedq l -> sortedq (ins_sorted v i l).
Proof.
  intros v i l. induction l as [|[w j] r IH]; intro H; cbn [ins_sorted].
  - cbn. tauto.
  - destruct (qltb v w) eqn:E.
    + apply qltb_true in E. cbn [sortedq fst]. split; [lra|exact H].
    + apply qltb_false in E. destruct H as [H1 H2]. specialize (IH H2).
      cbn [sortedq]. split; [|exact IH].
      pose proof (ins_sorted_head v i r) as Hh.
      destruct (ins_sorted v i r) as [|x t]; [exact I|].
      destruct Hh as [-> | Hh]; [cbn; exact E|].
      destruct r as [|y r']; [contradiction|]. destruct Hh as [-> _]. exact H1.
Qed.

(* invariant of argsort_aux *)
Lemma argsort_aux_spec : forall (l0 r : list Q) (i : nat) (acc : list (Q * nat)),
  (exists pre, l0 = pre ++ r /\ length pre = i) ->
  sortedq acc -> Permutation (map snd acc) (seq 0 i) ->
  (forall v j, In (v, j) acc -> nth j l0 0 = v) ->
  exists fin, argsort_aux r i acc = map snd fin /\ sortedq fin /\
              Permutation (map snd fin) (seq 0 (length l0)) /\
              (forall v j, In (v, j) fin -> nth j l0 0 = v).
Proof.
  intros l0 r. induction r as [|v r IH]; intros i acc [pre [E L]] Hs Hp Hv; cbn [argsort_aux].
  - exists acc. rewrite app_nil_r in E. subst l0. rewrite L. repeat split; assumption.
  - apply IH.
    + exists (pre ++ [v]). rewrite <- app_assoc. split; [exact E|]. rewrite app_length. cbn. lia.
    + apply ins_sorted_sorted. exact Hs.
    + eapply Permutation_trans; [apply Permutation_map; apply ins_sorted_perm|].
      cbn [map snd]. rewrite seq_S. cbn [Nat.add].
      eapply Permutation_trans; [apply perm_skip; exact Hp|].
      apply Permutation_cons_append.
    + intros w j Hin.
      apply (Permutation_in _ (ins_sorted_perm v i acc)) in Hin.
      destruct Hin as [Heq | Hin]; [|apply Hv; exact Hin].
      injection Heq as <- <-. subst l0. rewrite app_nth2 by lia.
      rewrite L, Nat.sub_diag. reflexivity.
Qed.

Fixpoint nondecr (l : list Q) : Prop :=
  match l with
  | [] => True
  | x :: r => match r with [] => True | y :: _ => x <= y end /\ nondecr r
  end.

Lemma sortedq_nondecr : forall l, sortedq l -> nondecr (map fst l).
Proof.
  induction l as [|x r IH]; intro H; cbn [map sortedq nondecr] in *; [exact I|].
  destruct H as [H1 H2]. split; [|apply IH; exact H2].
  destruct r as [|y r']; [exact I|exact H1].
Qed.

(* the model's answer for sort_points_on_line *)
Definition sort_points_on_line_idx (pts : list v3) : list nat := argsort (line_keys pts).

Lemma argsort_spec : forall keys,
  Permutation (argsort keys) (seq 0 (length keys)) /\
  nondecr (map (fun i => nth i keys 0) (argsort keys)).
Proof.
  intro keys. unfold argsort.
  destruct (argsort_aux_spec keys keys 0 []) as (fin & E & Hs & Hp & Hv).
  - exists []. split; reflexivity.
  - exact I.
  - apply Permutation_refl.
  - intros v j [].
  - rewrite E. split; [exact Hp|].
    rewrite map_map.
    replace (map (fun x => nth (snd x) keys 0) fin) with (map fst fin).
    + apply sortedq_nondecr. exact Hs.
    + apply map_ext_in. intros [v j] Hin. cbn [fst snd]. symmetry. apply Hv. exact Hin.
Qed.

Lemma line_keys_length : forall pts, length (line_keys pts) = length pts.
Proof.
  intro pts. unfold line_keys.
  destruct (nth _ (map (fun p => sub3 p (mean3 pts)) pts) (0, 0, 0)) as [[tx ty] tz].
  destruct (Qeq_bool tx 0 && Qeq_bool ty 0); rewrite !map_length; reflexivity.
Qed.

Lemma sort_points_on_line_spec : forall pts,
  let idx := sort_points_on_line_idx pts in
  Permutation idx (seq 0 (length pts)) /\
  nondecr (map (fun i => nth i (line_keys pts) 0) idx).
Proof.
  intro pts. cbv zeta. unfold sort_points_on_line_idx.
  destruct (argsort_spec (line_keys pts)) as [P N]. rewrite line_keys_length in P.
  split; assumption.
Qed.

(* ------------------------------------------------------------------ keys along a line *)
Definition eq3 (a b : v3) : Prop :=
  fst (fst a) == fst (fst b) /\ snd (fst a) == snd (fst b) /\ snd a == snd b.

Definition lpt (a v : v3) (s : Q) : v3 :=
  (fst (fst a) + s * fst (fst v), snd (fst a) + s * snd (fst v), snd a + s * snd v).

Definition qsum (l : list Q) : Q := fold_right Qplus 0 l.
Definition qlen (l : list Q) : Q := inject_Z (Z.of_nat (length l)).

Lemma qlen_cons : forall x l, qlen (x :: l) == qlen l + 1.
Proof.
  intros x l. unfold qlen. cbn [length]. rewrite Nat2Z.inj_succ. unfold Z.succ.
  rewrite inject_Z_plus. reflexivity.
Qed.

Lemma qlen_pos : forall l, l <> [] -> 0 < qlen l.
Proof.
  intros [|x l] H; [contradiction|]. unfold qlen. cbn [length].
  change 0 with (inject_Z 0). rewrite <- Zlt_Qlt. lia.
Qed.

Lemma sum3_line : forall a v ss,
  eq3 (sum3 (map (lpt a v) ss))
      (qlen ss * fst (fst a) + qsum ss * fst (fst v),
       qlen ss * snd (fst a) + qsum ss * snd (fst v),
       qlen ss * snd a + qsum ss * snd v).
Proof.
  intros [[ax ay] az] [[vx vy] vz] ss. induction ss as [|s ss IH].
  - unfold eq3, qlen, qsum. cbn. repeat split; ring.
  - cbn [map sum3 fold_right]. fold (sum3 (map (lpt (ax, ay, az) (vx, vy, vz)) ss)).
    destruct (sum3 (map (lpt (ax, ay, az) (vx, vy, vz)) ss)) as [[x y] z].
    unfold eq3 in *. cbn [fst snd lpt] in *. destruct IH as (Hx & Hy & Hz).
    rewrite qlen_cons. unfold qsum in *. cbn [fold_right].
    rewrite Hx, Hy, Hz. repeat split; ring.
Qed.

Lemma mean3_line : forall a v ss, ss <> [] ->
  eq3 (mean3 (map (lpt a v) ss)) (lpt a v (qsum ss / qlen ss)).
Proof.
  intros a v ss Hne. unfold mean3. pose proof (sum3_line a v ss) as H.
  destruct (sum3 (map (lpt a v) ss)) as [[x y] z]. rewrite map_length.
  fold (qlen ss). pose proof (qlen_pos ss Hne) as P.
  destruct a as [[ax ay] az], v as [[vx vy] vz]. unfold eq3, lpt in *. cbn [fst snd] in *.
  destruct H as (Hx & Hy & Hz). rewrite Hx, Hy, Hz.
  repeat split; field; lra.
Qed.

Lemma sub3_line : forall a v s m sb, eq3 m (lpt a v sb) ->
  eq3 (sub3 (lpt a v s) m) ((s - sb) * fst (fst v), (s - sb) * snd (fst v), (s - sb) * snd v).
Proof.
  intros [[ax ay] az] [[vx vy] vz] s [[mx my] mz] sb. unfold eq3, lpt, sub3. cbn [fst snd].
  intros (Hx & Hy & Hz). rewrite Hx, Hy, Hz. repeat split; ring.
Qed.

Lemma dot3_eq3 : forall a b a' b', eq3 a a' -> eq3 b b' -> dot3 a b == dot3 a' b'.
Proof.
  intros [[a0 a1] a2] [[b0 b1] b2] [[c0 c1] c2] [[d0 d1] d2]. unfold eq3, dot3. cbn [fst snd].
  intros (H0 & H1 & H2) (K0 & K1 & K2). rewrite H0, H1, H2, K0, K1, K2. reflexivity.
Qed.

Lemma nth_map_lt : forall {A B} (f : A -> B) l d d' i,
  (i < length l)%nat -> nth i (map f l) d' = f (nth i l d).
Proof.
  intros A B f l d d' i H. rewrite (nth_indep _ d' (f d)) by (rewrite map_length; exact H).
  apply map_nth.
Qed.

(* for points a + s_i v the sort key is c * (s_i - mean s) with one common factor c *)
Lemma line_keys_affine : forall a v ss, ss <> [] ->
  exists c, forall i, (i < length ss)%nat ->
    nth i (line_keys (map (lpt a v) ss)) 0 == c * (nth i ss 0 - qsum ss / qlen ss).
Proof.
  intros a v ss Hne. set (sb := qsum ss / qlen ss).
  pose proof (mean3_line a v ss Hne) as Hm. fold sb in Hm.
  unfold line_keys. set (m := mean3 (map (lpt a v) ss)) in *.
  set (rel := map (fun p => sub3 p m) (map (lpt a v) ss)).
  assert (Hrel : forall i, (i < length ss)%nat ->
            eq3 (nth i rel (0, 0, 0))
                ((nth i ss 0 - sb) * fst (fst v), (nth i ss 0 - sb) * snd (fst v), (nth i ss 0 - sb) * snd v)).
  { intros i Hi. unfold rel. rewrite map_map.
    rewrite (nth_map_lt _ ss 0 _ i Hi). apply sub3_line. exact Hm. }
  assert (Ht : forall k, exists sg,
            eq3 (nth k rel (0, 0, 0)) (sg * fst (fst v), sg * snd (fst v), sg * snd v)).
  { intro k. destruct (Nat.lt_ge_cases k (length ss)) as [L | L].
    - eexists. apply Hrel. exact L.
    - exists 0. rewrite nth_overflow by (unfold rel; rewrite !map_length; exact L).
      unfold eq3. cbn. repeat split; ring. }
  match goal with |- context [nth ?k rel (0, 0, 0)] => destruct (Ht k) as [sg Hsg];
    destruct (nth k rel (0, 0, 0)) as [[tx ty] tz] eqn:Et end.
  destruct (Qeq_bool tx 0 && Qeq_bool ty 0).
  - exists (snd v). intros i Hi.
    rewrite (nth_map_lt _ rel (0, 0, 0) _ i) by (unfold rel; rewrite !map_length; exact Hi).
    destruct (Hrel i Hi) as (_ & _ & Hz). cbn [fst snd] in Hz. rewrite Hz. ring.
  - destruct v as [[vx vy] vz]. cbn [fst snd] in *.
    exists (sg * (vx * vx + vy * vy + vz * vz)). intros i Hi.
    rewrite (nth_map_lt _ rel (0, 0, 0) _ i) by (unfold rel; rewrite !map_length; exact Hi).
    rewrite (dot3_eq3 _ _ _ _ (Hrel i Hi) Hsg). unfold dot3. ring.
Qed.

(* argmax_first returns a maximiser *)
Lemma argmax_first_spec : forall (L r : list Q) (i bi : nat) (best : Q),
  (exists pre, L = pre ++ r /\ length pre = i) ->
  (bi < i)%nat -> best = nth bi L 0 ->
  (forall j, (j < i)%nat -> nth j L 0 <= best) ->
  let k := argmax_first r i best bi in
  (k < length L)%nat /\ forall j, (j < length L)%nat -> nth j L 0 <= nth k L 0.
Proof.
  intros L r. induction r as [|x r IH]; intros i bi best [pre [E Lp]] Hb Hbest Hmax; cbn [argmax_first].
  - rewrite app_nil_r in E. subst L. rewrite Lp. split; [exact Hb|].
    intros j Hj. rewrite <- Hbest. apply Hmax. exact Hj.
  - assert (Ex : nth i L 0 = x).
    { subst L. rewrite app_nth2 by lia. rewrite Lp, Nat.sub_diag. reflexivity. }
    assert (Epre : exists pre', L = pre' ++ r /\ length pre' = S i).
    { exists (pre ++ [x]). rewrite <- app_assoc. split; [exact E|]. rewrite app_length. cbn. lia. }
    destruct (qltb best x) eqn:Q.
    + apply qltb_true in Q. apply IH; try assumption; try lia.
      * symmetry. exact Ex.
      * intros j Hj. destruct (Nat.eq_dec j i) as [-> | N]; [rewrite Ex; lra|].
        assert (nth j L 0 <= best) by (apply Hmax; lia). lra.
    + apply qltb_false in Q. apply IH; try assumption; try lia.
      intros j Hj. destruct (Nat.eq_dec j i) as [-> | N]; [rewrite Ex; exact Q|].
      apply Hmax. lia.
Qed.

Fixpoint all_eq (l : list Q) (x : Q) : Prop :=
  match l with [] => True | y :: r => y == x /\ all_eq r x end.

Lemma all_eq_nth : forall l x, (forall i, (i < length l)%nat -> nth i l 0 == x) -> all_eq l x.
Proof.
  induction l as [|y r IH]; intros x H; cbn; [exact I|]. split.
  - apply (H 0%nat). cbn. lia.
  - apply IH. intros i Hi. apply (H (S i)). cbn. lia.
Qed.

(* unless all points coincide, the common factor is not zero *)
Lemma line_keys_affine_nz : forall a v ss, ss <> [] ->
  ~ (fst (fst v) == 0 /\ snd (fst v) == 0 /\ snd v == 0) ->
  ~ all_eq ss (qsum ss / qlen ss) ->
  exists c, ~ c == 0 /\ forall i, (i < length ss)%nat ->
    nth i (line_keys (map (lpt a v) ss)) 0 == c * (nth i ss 0 - qsum ss / qlen ss).
Proof.
  intros a v ss Hne Hv Hns. set (sb := qsum ss / qlen ss) in *.
  pose proof (mean3_line a v ss Hne) as Hm. fold sb in Hm.
  unfold line_keys. set (m := mean3 (map (lpt a v) ss)) in *.
  set (rel := map (fun p => sub3 p m) (map (lpt a v) ss)).
  set (nv := fst (fst v) * fst (fst v) + snd (fst v) * snd (fst v) + snd v * snd v).
  assert (NV : 0 < nv).
  { unfold nv. destruct (Qeq_dec (fst (fst v)) 0) as [E0 | E0];
      destruct (Qeq_dec (snd (fst v)) 0) as [E1 | E1];
      destruct (Qeq_dec (snd v) 0) as [E2 | E2]; try (exfalso; apply Hv; tauto); nra. }
  assert (Lrel : length rel = length ss) by (unfold rel; rewrite !map_length; reflexivity).
  assert (Hrel : forall i, (i < length ss)%nat ->
            eq3 (nth i rel (0, 0, 0))
                ((nth i ss 0 - sb) * fst (fst v), (nth i ss 0 - sb) * snd (fst v), (nth i ss 0 - sb) * snd v)).
  { intros i Hi. unfold rel. rewrite map_map.
    rewrite (nth_map_lt _ ss 0 _ i Hi). apply sub3_line. exact Hm. }
  set (norms := map (fun w : v3 => dot3 w w) rel).
  assert (Hnorm : forall i, (i < length ss)%nat ->
            nth i norms 0 == (nth i ss 0 - sb) * (nth i ss 0 - sb) * nv).
  { intros i Hi. unfold norms. rewrite (nth_map_lt _ rel (0, 0, 0) _ i) by lia.
    rewrite (dot3_eq3 _ _ _ _ (Hrel i Hi) (Hrel i Hi)). unfold dot3, nv. ring. }
  (* the chosen index *)
  assert (Hk : exists k, (k < length ss)%nat /\
            match norms with [] => 0%nat | x :: r => argmax_first r 1 x 0 end = k /\
            forall j, (j < length ss)%nat -> nth j norms 0 <= nth k norms 0).
  { assert (Ln : length norms = length ss) by (unfold norms; rewrite map_length; exact Lrel).
    destruct norms as [|x r] eqn:En.
    - destruct ss; [contradiction|discriminate].
    - destruct (argmax_first_spec (x :: r) r 1 0 x) as [K1 K2].
      + exists [x]. split; reflexivity.
      + lia.
      + reflexivity.
      + intros j Hj. assert (j = 0)%nat by lia. subst j. cbn. lra.
      + eexists. split; [rewrite <- Ln; exact K1|]. split; [reflexivity|].
        intros j Hj. apply K2. rewrite Ln. exact Hj. }
  destruct Hk as (k & Hk1 & Hk2 & Hk3). rewrite Hk2.
  set (sg := nth k ss 0 - sb).
  assert (SG : ~ sg == 0).
  { intro Z0. apply Hns. apply all_eq_nth. intros i Hi.
    pose proof (Hk3 i Hi) as Hle. rewrite (Hnorm i Hi), (Hnorm k Hk1) in Hle. fold sg in Hle.
    rewrite Z0 in Hle.
    assert (S0 : (nth i ss 0 - sb) * (nth i ss 0 - sb) * nv <= 0) by lra.
    assert (S1 : (nth i ss 0 - sb) * (nth i ss 0 - sb) <= 0) by nra.
    assert (S2 : nth i ss 0 - sb == 0) by nra. lra. }
  pose proof (Hrel k Hk1) as Hsg. fold sg in Hsg.
  destruct (nth k rel (0, 0, 0)) as [[tx ty] tz] eqn:Et.
  destruct Hsg as (Hx & Hy & Hz). cbn [fst snd] in Hx, Hy, Hz.
  destruct (Qeq_bool tx 0 && Qeq_bool ty 0) eqn:EB.
  - apply andb_prop in EB. destruct EB as [E1 E2]. apply Qeq_bool_iff in E1, E2.
    exists (snd v). split.
    + intro Z0. apply Hv.
      assert (P1 : sg * fst (fst v) == 0) by lra. assert (P2 : sg * snd (fst v) == 0) by lra.
      destruct (Qmult_integral _ _ P1) as [F | F]; [contradiction|].
      destruct (Qmult_integral _ _ P2) as [F' | F']; [contradiction|]. tauto.
    + intros i Hi.
      rewrite (nth_map_lt _ rel (0, 0, 0) _ i) by lia.
      destruct (Hrel i Hi) as (_ & _ & Hz'). cbn [fst snd] in Hz'. rewrite Hz'. ring.
  - exists (sg * nv). split.
    + intro Z0. destruct (Qmult_integral _ _ Z0) as [F | F]; [contradiction|lra].
    + intros i Hi.
      rewrite (nth_map_lt _ rel (0, 0, 0) _ i) by lia.
      assert (Ht : eq3 (tx, ty, tz) (sg * fst (fst v), sg * snd (fst v), sg * snd v))
        by (unfold eq3; cbn [fst snd]; tauto).
      rewrite (dot3_eq3 _ _ _ _ (Hrel i Hi) Ht). unfold dot3, nv. ring.
Qed.

Lemma nondecr_shift : forall (f g : nat -> Q) (k : Q) (idx : list nat),
  (forall i, In i idx -> f i == g i - k) ->
  nondecr (map f idx) -> nondecr (map g idx).
Proof.
  intros f g k idx. induction idx as [|x r IH]; intros H N; cbn [map nondecr] in *; [exact I|].
  destruct N as [N1 N2]. split.
  - destruct r as [|y r']; [exact I|]. cbn [map] in *.
    rewrite (H x (or_introl eq_refl)), (H y (or_intror (or_introl eq_refl))) in N1. lra.
  - apply IH; [|exact N2]. intros i Hi. apply H. right. exact Hi.
Qed.

(* sort_points_on_line on points a + s_i v (v <> 0, not all equal): the returned order is a
   permutation along which the line parameter is monotone (c * s non-decreasing, c <> 0) *)
Lemma sort_on_line_monotone : forall a v ss, ss <> [] ->
  ~ (fst (fst v) == 0 /\ snd (fst v) == 0 /\ snd v == 0) ->
  ~ all_eq ss (qsum ss / qlen ss) ->
  let idx := sort_points_on_line_idx (map (lpt a v) ss) in
  Permutation idx (seq 0 (length ss)) /\
  exists c, ~ c == 0 /\ nondecr (map (fun i => c * nth i ss 0) idx).
Proof.
  intros a v ss Hne Hv Hns idx.
  destruct (sort_points_on_line_spec (map (lpt a v) ss)) as [P N]. cbv zeta in P, N.
  fold idx in P, N. rewrite map_length in P. split; [exact P|].
  destruct (line_keys_affine_nz a v ss Hne Hv Hns) as (c & Hc & Hk).
  exists c. split; [exact Hc|].
  apply (nondecr_shift (fun i => nth i (line_keys (map (lpt a v) ss)) 0)
                       (fun i => c * nth i ss 0) (c * (qsum ss / qlen ss)) idx); [|exact N].
  intros i Hi. apply (Permutation_in _ P) in Hi. apply in_seq in Hi.
  rewrite (Hk i ltac:(lia)). ring.
Qed.
