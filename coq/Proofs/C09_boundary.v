(* C09 — the boundary of C09_main: what goes wrong when exactly one of its explicit guards
   is dropped, although the constructor accepts the input.  Witness runs are computed in the
   exact rational instance (vm_compute) and carried to the real instance by the transfer
   theorem, so they are statements about the same function as C09_main. *)
From Coq Require Import List ZArith Bool QArith Qabs Qround Reals Qreals Lra Lia Sorted.
Import ListNotations.
From PP Require Import Model.C09 Model.C09_ext Proofs.C09 Proofs.C09_transfer Proofs.C09_QR.

Local Open Scope R_scope.

Ltac q2r := unfold Q2R; cbn [Qnum Qden]; try rewrite !Rabs_pos_eq by lra; try lra.

(* a run of the real instance obtained from a concrete rational run *)
Lemma run_from_Q (aq : args Q) (sq : list Q) evs cq trq st :
  simulate Q QOps aq sq evs = inl (cq, (trq, st)) ->
  simulate R ROps (hargs Q R Q2R aq) (map Q2R sq) evs
  = inl (hcfg Q R Q2R cq, (map (hentry Q R Q2R) trq, st)) /\
  accepted R (map (hentry Q R Q2R) trq) = map Q2R (accepted Q trq).
Proof.
  intros H. split.
  - rewrite transfer_simulate_Q_R, H. reflexivity.
  - apply h_accepted.
Qed.

(* ---- guard "dt_init <= schedule[1] - schedule[0]" ----
   schedule [0; 1; 2], dt_init = 3/2 (dt_max = 2): the first step passes the first scheduled
   time, the schedule correction then produces the NEGATIVE step 1 - 3/2 and the clock
   runs backwards: accepted times 3/2, 1. *)
Definition w1_args : args Q :=
  Build_args Q (3 # 2)%Q false (Some ((1 # 10)%Q, 2%Q)) 15 4 7 (7 # 10)%Q (13 # 10)%Q (1 # 2)%Q 10
             (1 # 10000000000)%Q 0%Q.
Definition w1_sched : list Q := [0; 1; 2]%Q.
Definition w1_evs : list event := [Converged 5; Converged 5].

Theorem first_interval_guard_refuted :
  exists (a : args R) (sched : list R) (evs : list event) c tr st,
    simulate R ROps a sched evs = inl (c, (tr, st)) /\
    a_constant a = false /\ 0 < dt_min c /\ 0 <= a_rtol a /\ 0 <= a_atol a /\
    well_separated (a_rtol a) (a_atol a) sched /\
    ~ (a_dt_init a <= nth 1 sched 0 - nth 0 sched 0) /\
    ~ StronglySorted Rlt (nth 0 sched 0 :: accepted R tr) /\
    exists ev x o, In (ev, x, o) tr /\ dt x < 0.
Proof.
  assert (E : exists cq trq, simulate Q QOps w1_args w1_sched w1_evs = inl (cq, (trq, OutOfEvents))
              /\ accepted Q trq = [3 # 2; 1]%Q /\ dt_min cq = (1 # 10)%Q
              /\ exists x o, nth_error trq 0 = Some (Converged 5, x, o) /\ dt x = (-1 # 2)%Q).
  { vm_compute. eexists _, _. split; [reflexivity|]. split; [reflexivity|].
    split; [reflexivity|]. eexists _, _. split; reflexivity. }
  destruct E as (cq & trq & Hs & Hacc & Hmin & x & o & Hx & Hdx).
  destruct (run_from_Q _ _ _ _ _ _ Hs) as [HR HA].
  eexists _, _, _, _, _, _. split; [exact HR|].
  cbn [hargs a_constant a_rtol a_atol a_dt_init w1_args hcfg dt_min map w1_sched nth].
  rewrite Hmin, HA, Hacc. cbn [map].
  repeat split; try q2r.
  - intros j Hj. cbn [length] in Hj. destruct j as [|[|j]]; cbn [nth]; [| |lia]; q2r.
  - intros H. inversion H as [|? ? HS _]; subst. inversion HS as [|? ? _ HF']; subst.
    inversion HF' as [|? ? H1 _]; subst. revert H1. q2r.
  - exists (Converged 5), (hstate Q R Q2R x), (hout Q R Q2R o). split.
    + apply nth_error_In with (n := 0%nat). rewrite nth_error_map, Hx. reflexivity.
    + cbn [hstate dt]. rewrite Hdx. q2r.
Qed.

(* ---- guard "well_separated" ----
   schedule [0; 1; 51/50; 3/2] with rtol = 1/20: the scheduled times 1 and 51/50 are within
   tolerance of each other.  After landing on 1 the cursor skips to 51/50, takes the
   "already there" early return with the uncorrected step 1, and the next accepted time is 2:
   beyond the final time 3/2, which is never hit. *)
Definition w2_args : args Q :=
  Build_args Q 1%Q false (Some ((1 # 10)%Q, 1%Q)) 15 4 7 (7 # 10)%Q (13 # 10)%Q (1 # 2)%Q 10
             (1 # 20)%Q 0%Q.
Definition w2_sched : list Q := [0; 1; 51 # 50; 3 # 2]%Q.
Definition w2_evs : list event := [Converged 5; Converged 5; Converged 5].

Theorem separation_guard_refuted :
  exists (a : args R) (sched : list R) (evs : list event) c tr,
    simulate R ROps a sched evs = inl (c, (tr, Finished)) /\
    a_constant a = false /\ 0 < dt_min c /\ 0 <= a_rtol a /\ 0 <= a_atol a /\
    a_dt_init a <= nth 1 sched 0 - nth 0 sched 0 /\
    ~ well_separated (a_rtol a) (a_atol a) sched /\
    (exists t, In t (accepted R tr) /\ last sched 0 < t) /\
    (forall t, In t (nth 0 sched 0 :: accepted R tr) ->
       isclose R ROps c t (last sched 0) = false).
Proof.
  assert (E : exists cq trq, simulate Q QOps w2_args w2_sched w2_evs = inl (cq, (trq, Finished))
              /\ accepted Q trq = [1; 2]%Q /\ dt_min cq = (1 # 10)%Q
              /\ rtol cq = (1 # 20)%Q /\ atol cq = 0%Q).
  { vm_compute. eexists _, _. repeat split; reflexivity. }
  destruct E as (cq & trq & Hs & Hacc & Hmin & Hrt & Hat).
  destruct (run_from_Q _ _ _ _ _ _ Hs) as [HR HA].
  eexists _, _, _, _, _. split; [exact HR|].
  cbn [hargs a_constant a_rtol a_atol a_dt_init w2_args hcfg dt_min map w2_sched nth last].
  rewrite Hmin, HA, Hacc. cbn [map].
  repeat split; try q2r.
  - intros H. specialize (H 1%nat ltac:(cbn; lia)). cbn [nth] in H. revert H. q2r.
  - exists (Q2R 2). split; [right; left; reflexivity|q2r].
  - intros t Ht. unfold isclose; cbn [n_leb n_eqb n_abs n_sub n_add n_mul ROps hcfg rtol atol].
    rewrite Hrt, Hat.
    assert (Hne : forall u, u <> Q2R (3 # 2) -> Reqb u (Q2R (3 # 2)) = false).
    { intros u Hu. unfold Reqb. destruct (Req_EM_T u (Q2R (3 # 2))); [contradiction|reflexivity]. }
    destruct Ht as [<-|[<-|[<-|[]]]].
    + rewrite Hne by q2r. rewrite orb_false_r. apply Rleb_false.
      unfold Q2R; cbn [Qnum Qden]. rewrite (Rabs_left (_ - _)) by lra.
      rewrite (Rabs_pos_eq (3 * / 2)) by lra. lra.
    + rewrite Hne by q2r. rewrite orb_false_r. apply Rleb_false.
      unfold Q2R; cbn [Qnum Qden]. rewrite (Rabs_left (_ - _)) by lra.
      rewrite (Rabs_pos_eq (3 * / 2)) by lra. lra.
    + rewrite Hne by q2r. rewrite orb_false_r. apply Rleb_false.
      unfold Q2R; cbn [Qnum Qden]. rewrite (Rabs_pos_eq (_ - _)) by lra.
      rewrite (Rabs_pos_eq (3 * / 2)) by lra. lra.
Qed.

(* ---- guard "0 < dt_min" ----
   dt_min_max = (0, 1) with the (accepted) under-relaxation factor 0: after a step that
   needed many iterations dt becomes 0 = dt_min, the clock stops advancing, and the next
   accepted time equals the previous one. *)
Definition w3_args : args Q :=
  Build_args Q (1 # 2)%Q false (Some (0%Q, 1%Q)) 15 4 7 0%Q (13 # 10)%Q (1 # 2)%Q 10
             (1 # 10000000000)%Q 0%Q.
Definition w3_sched : list Q := [0; 1]%Q.
Definition w3_evs : list event := [Converged 9; Converged 9].

Theorem dt_min_guard_refuted :
  exists (a : args R) (sched : list R) (evs : list event) c tr st,
    simulate R ROps a sched evs = inl (c, (tr, st)) /\
    a_constant a = false /\ dt_min c = 0 /\ 0 <= a_rtol a /\ 0 <= a_atol a /\
    well_separated (a_rtol a) (a_atol a) sched /\
    a_dt_init a <= nth 1 sched 0 - nth 0 sched 0 /\
    ~ StronglySorted Rlt (nth 0 sched 0 :: accepted R tr).
Proof.
  assert (E : exists cq trq, simulate Q QOps w3_args w3_sched w3_evs = inl (cq, (trq, OutOfEvents))
              /\ accepted Q trq = [1 # 2; 1 # 2]%Q /\ dt_min cq = 0%Q).
  { vm_compute. eexists _, _. repeat split; reflexivity. }
  destruct E as (cq & trq & Hs & Hacc & Hmin).
  destruct (run_from_Q _ _ _ _ _ _ Hs) as [HR HA].
  eexists _, _, _, _, _, _. split; [exact HR|].
  cbn [hargs a_constant a_rtol a_atol a_dt_init w3_args hcfg dt_min map w3_sched nth].
  rewrite Hmin, HA, Hacc. cbn [map].
  repeat split; try q2r.
  - intros j Hj. cbn [length] in Hj. destruct j as [|j]; cbn [nth]; [|lia]. q2r.
  - intros H. inversion H as [|? ? HS _]; subst. inversion HS as [|? ? _ HF']; subst.
    inversion HF' as [|? ? H1 _]; subst. revert H1. q2r.
Qed.

(* ---- guard "tolerances >= 0" ----
   With non-positive tolerances np.isclose degenerates to exact equality (its "a == b"
   disjunct): the manager then behaves exactly as one with zero tolerances, which C09_main
   covers (0 <= 0).  No refutation exists on this side of the boundary for rtol, atol <= 0;
   mixed signs (one tolerance negative, the other positive) are NOT characterised. *)
Theorem nonpositive_tolerances_mean_equality :
  forall (c : cfg R) (a b : R),
    rtol c <= 0 -> atol c <= 0 -> isclose R ROps c a b = Reqb a b.
Proof.
  intros c a b Hr Ha. unfold isclose; cbn [n_leb n_eqb n_abs n_sub n_add n_mul ROps].
  destruct (Reqb a b) eqn:E; [apply orb_true_r|]. rewrite orb_false_r.
  apply Rleb_false.
  assert (Hab : a <> b).
  { intros ->. unfold Reqb in E. destruct (Req_EM_T b b); [discriminate|contradiction]. }
  pose proof (Rabs_pos_lt (a - b) ltac:(lra)) as H1.
  pose proof (Rabs_pos b) as H2.
  assert (rtol c * Rabs b <= 0).
  { replace (rtol c * Rabs b) with (- ((- rtol c) * Rabs b)) by ring.
    pose proof (Rmult_le_pos (- rtol c) (Rabs b) ltac:(lra) H2). lra. }
  lra.
Qed.
