(* C03 — the assembled Jacobian is the derivative of the assembled residual: corollary of
   the C01 composition theorem, row by row through the stacking. *)
From Coq Require Import Reals List Arith Lra Lia.
From Coquelicot Require Import Coquelicot.
From PP Require Import Model.C01 Model.C01R Model.C03 Proofs.C01 Proofs.C01_fun Proofs.C01_comp.
Import ListNotations.
Open Scope R_scope.

Lemma compose_thm (eqs : system (T:=R)) : forall (x v : env (T:=R)) (r : nat) e i,
  locate eqs r = Some (e, i) -> smooth e x i ->
  is_derive (fun t => residual ROps eqs (shift x v t) r) 0 (snd (assembled ROps eqs x v r)).
Proof.
  unfold residual, assembled.
  induction eqs as [|[n e0] rest IH]; intros x v r e i Hl Hs; cbn [locate map stack_get fst snd] in *.
  - discriminate.
  - destruct (Nat.ltb r n).
    + inversion Hl; subst e0 i. apply jacobian_thm. exact Hs.
    + apply (IH x v (r - n)%nat e i Hl Hs).
Qed.

Lemma residual_value (eqs : system (T:=R)) : forall (x v : env (T:=R)) (r : nat),
  fst (assembled ROps eqs x v r) = residual ROps eqs x r.
Proof.
  unfold residual, assembled.
  induction eqs as [|[n e0] rest IH]; intros x v r; cbn [map stack_get fst snd].
  - reflexivity.
  - destruct (Nat.ltb r n).
    + apply value_thm.
    + apply IH.
Qed.

Lemma locate_total (eqs : system (T:=R)) : forall r,
  (r < fold_right (fun ne acc => fst ne + acc) 0 eqs)%nat -> exists e i, locate eqs r = Some (e, i).
Proof.
  induction eqs as [|[n e0] rest IH]; intros r Hr; cbn [locate fold_right fst] in *.
  - inversion Hr.
  - destruct (Nat.ltb r n) eqn:E.
    + eauto.
    + apply Nat.ltb_ge in E. apply IH.
      set (m := fold_right (fun (ne : nat * expr R) (acc : nat) => (fst ne + acc)%nat) 0%nat rest) in *.
      lia.
Qed.
