(* C24 — the invariant relating the container model to the abstract container, and the
   loop lemmas of remove_subdomain / replace_subdomains_and_interfaces. *)
From Coq Require Import List Arith Bool Lia Permutation Sorted.
Import ListNotations.
From PP Require Import Model.C24 Model.C24_spec Proofs.C24_base Proofs.C24_sort.

(* the same two subdomains, in either order *)
Definition unord (p q : gid * gid) : Prop :=
  (fst p = fst q /\ snd p = snd q) \/ (fst p = snd q /\ snd p = fst q).

Definition orel (x y : option (gid * gid)) : Prop :=
  match x, y with
  | Some p, Some q => unord p q
  | None, None => True
  | _, _ => False
  end.

Lemma unord_refl p : unord p p.
Proof. left; auto. Qed.
Lemma unord_sym p q : unord p q -> unord q p.
Proof. unfold unord; intuition congruence. Qed.
Lemma unord_trans p q r : unord p q -> unord q r -> unord p r.
Proof. unfold unord; intuition congruence. Qed.

Lemma touches_iff s p : touches s p = true <-> fst p = s \/ snd p = s.
Proof. unfold touches. rewrite orb_true_iff, !geqb_eq. tauto. Qed.

Lemma touches_unord s p q : unord p q -> touches s p = touches s q.
Proof.
  intros H. destruct (touches s p) eqn:E1, (touches s q) eqn:E2; auto.
  - apply touches_iff in E1. assert (touches s q = true); [|congruence].
    apply touches_iff. unfold unord in H. intuition congruence.
  - apply touches_iff in E2. assert (touches s p = true); [|congruence].
    apply touches_iff. unfold unord in H. intuition congruence.
Qed.

(* well-formedness of the interfaces that should be present *)
Definition WfI (sp : spec) : Prop :=
  forall i a b, lookup i (pI sp) = Some (a, b) ->
    In a (pS sp) /\ In b (pS sp) /\ fst i <= fst a /\ fst i <= fst b /\
    (forall j c d, lookup j (pI sp) = Some (c, d) -> unord (a, b) (c, d) -> i = j).

(* the two boundary-grid dictionaries *)
Definition BI (m : list (gid * gid)) (b : list gid) (n : nat) : Prop :=
  NoDup (map fst m) /\ b = map snd m /\ NoDup b /\ (forall x, In x b -> snd x < n) /\
  (forall s v, lookup s m = Some v -> fst v = fst s - 1).

Record Inv (g : st) (sp : spec) : Prop := {
  inv_sds : sds g = pS sp;
  inv_nd : NoDup (pS sp);
  inv_intfs : intfs g = map fst (pI sp);
  inv_ndI : NoDup (map fst (pI sp));
  inv_keys : map fst (i2s g) = intfs g;
  inv_rel : forall i, orel (lookup i (pI sp)) (lookup i (i2s g));
  inv_wf : WfI sp;
  inv_bi : BI (s2b g) (bgs g) (nbg g);
  inv_bk : forall s, In s (map fst (s2b g)) <-> In s (sds g) /\ 0 < fst s
}.

(* ------------------------------------------------------------------ boundary grids *)
Lemma BI_add m b n k :
  BI m b n -> ~ In k (map fst m) ->
  BI (dset k (fst k - 1, n) m) (kadd (fst k - 1, n) b) (S n) /\
  (forall z, In z (map fst (dset k (fst k - 1, n) m)) <-> In z (map fst m) \/ z = k).
Proof.
  intros (H1 & H2 & H3 & H4 & H5) Hk.
  assert (Hbg : ~ In (fst k - 1, n) b).
  { intros Hi. apply H4 in Hi. cbn in Hi. lia. }
  rewrite dset_fresh, kadd_fresh by auto. unfold BI. rewrite !map_app. cbn [map fst snd].
  split; [|intros z; rewrite in_app_iff; cbn [In]; intuition congruence].
  repeat split.
  - apply nodup_app; auto.
    + constructor; [intros [] | constructor].
    + intros x Hx [<-|[]]. contradiction.
  - rewrite H2. reflexivity.
  - apply nodup_app; auto.
    + constructor; [intros [] | constructor].
    + intros x Hx [<-|[]]. contradiction.
  - intros x Hx. apply in_app_iff in Hx. destruct Hx as [Hx|[<-|[]]].
    + apply H4 in Hx. lia.
    + cbn. lia.
  - intros s v. rewrite lookup_app. destruct (lookup s m) eqn:E.
    + intros Hv; inversion Hv; subst. apply H5; auto.
    + gcase k s; [|discriminate]. intros Hv; inversion Hv; subst. reflexivity.
Qed.

Lemma map_snd_ddel (m : list (gid * gid)) k v :
  NoDup (map snd m) -> lookup k m = Some v -> map snd (ddel k m) = kdel v (map snd m).
Proof.
  induction m as [|[k' v'] r IH]; cbn; intros Hn Hl; [discriminate|].
  inversion Hn; subst. gcase k' k.
  - inversion Hl; subst. rewrite geqb_refl. reflexivity.
  - cbn. gcase v' v.
    + subst. exfalso. apply H1. apply lookup_In in Hl.
      apply in_map_iff. exists (k, v); auto.
    + f_equal. apply IH; auto.
Qed.

Lemma BI_del m b n k v :
  BI m b n -> lookup k m = Some v -> BI (ddel k m) (kdel v b) n.
Proof.
  intros (H1 & H2 & H3 & H4 & H5) Hl. repeat split.
  - rewrite ddel_keys. apply kdel_nodup; auto.
  - subst b. symmetry. apply map_snd_ddel; auto.
  - apply kdel_nodup; auto.
  - intros x Hx. apply kdel_In in Hx; auto. apply H4; tauto.
  - intros s w. rewrite lookup_ddel by auto. gcase k s; [discriminate|]. apply H5.
Qed.

(* ------------------------------------------------------------------ argsort, general *)
Lemma argsort_gen s l :
  NoDup l -> (l <> [] -> s <> []) ->
  exists L, argsort s l = Ok L /\ NoDup L /\
            (forall x, In x L <-> In x l /\ fst x <= dim_max s).
Proof.
  intros Hn Hne. unfold argsort. destruct s as [|s0 sr].
  - destruct l as [|x r].
    + exists []. repeat split; try constructor; cbn; tauto.
    + exfalso. apply Hne; [discriminate | reflexivity].
  - exists (sort_grids (dim_max (s0 :: sr)) l). split; auto. split.
    + destruct (sort_grids_spec (dim_max (s0 :: sr)) l Hn) as [Hp _].
      eapply Permutation_NoDup; [symmetry; exact Hp|]. apply NoDup_filter; auto.
    + intros x. apply sort_grids_In_iff; auto.
Qed.

(* ------------------------------------------------------------------ loops *)
Definition tch (m : list (gid * (gid * gid))) (s i : gid) : bool :=
  match lookup i m with Some p => touches s p | None => false end.

Lemma collect_spec m s L :
  (forall i, In i L -> In i (map fst m)) -> collect m s L = Ok (filter (tch m s) L).
Proof.
  induction L as [|i r IH]; cbn; intros H; auto.
  assert (Hi : lookup i m <> None) by (apply lookup_keys; apply H; auto).
  unfold tch at 1. destruct (lookup i m) as [p|] eqn:E; [|congruence].
  rewrite IH by (intros; apply H; auto). reflexivity.
Qed.

Lemma filter_filter' {A} (P Q : A -> bool) l :
  filter P (filter Q l) = filter (fun x => Q x && P x) l.
Proof.
  induction l as [|a r IH]; cbn; auto.
  destruct (Q a) eqn:EQ; cbn.
  - destruct (P a); cbn; rewrite IH; reflexivity.
  - exact IH.
Qed.

Lemma del_intfs_spec rm : forall k m,
  NoDup k -> map fst m = k ->
  fst (del_intfs rm k m) = filter (fun x => negb (mem x rm)) k /\
  map fst (snd (del_intfs rm k m)) = fst (del_intfs rm k m) /\
  (forall j, lookup j (snd (del_intfs rm k m)) = if mem j rm then None else lookup j m).
Proof.
  induction rm as [|i r IH]; intros k m Hn Hk; cbn [del_intfs fst snd].
  - repeat split; auto. symmetry. apply filter_all. reflexivity.
  - destruct (IH (kdel i k) (ddel i m)) as (H1 & H2 & H3).
    + apply kdel_nodup; auto.
    + rewrite ddel_keys. congruence.
    + repeat split; auto.
      * rewrite H1, kdel_filter, filter_filter' by auto. apply filter_ext. intros x. cbn [mem].
        unfold neqb. rewrite (geqb_sym i x). destruct (geqb x i), (mem x r); reflexivity.
      * intros j. rewrite H3, lookup_ddel by (rewrite Hk; auto). cbn [mem].
        destruct (geqb i j), (mem j r); reflexivity.
Qed.

(* what one pass of the loop in replace writes for an interface of the old grid *)
Lemma rename_loop_spec s o n : forall L m,
  NoDup L ->
  (forall i, In i L -> exists a b, lookup i m = Some (a, b) /\ In a s /\ In b s /\
                                   touches o (a, b) = true) ->
  exists m', rename_loop s o n L m = (m', None) /\ map fst m' = map fst m /\
    (forall j, ~ In j L -> lookup j m' = lookup j m) /\
    (forall j, In j L -> exists a b q, lookup j m = Some (a, b) /\ lookup j m' = Some q /\
                                       unord q (ren o n a, ren o n b)).
Proof.
  induction L as [|i r IH]; intros m Hn Hp.
  - exists m. cbn. repeat split; auto. intros j [].
  - inversion Hn as [|? ? Hir Hnr]; subst.
    destruct (Hp i (or_introl eq_refl)) as (a & b & Hl & Ha & Hb & Ht).
    cbn [rename_loop]. rewrite Hl.
    destruct (sort_tuple_gen s a b Ha Hb) as (hi & lo & Hst & _ & Hor). rewrite Hst.
    cbv zeta.
    apply touches_iff in Ht. cbn [fst snd] in Ht.
    set (v := (ren o n hi, ren o n lo)).
    assert (Hv : unord v (ren o n a, ren o n b)).
    { unfold v, unord. cbn [fst snd].
      destruct Hor as [E|E]; inversion E; subst; [left | right]; auto. }
    assert (Hik : In i (map fst m)).
    { apply lookup_keys. congruence. }
    set (m2 := (if geqb lo o
                then dset i (if geqb hi o then n else hi, n)
                          (if geqb hi o then dset i (n, lo) m else m)
                else if geqb hi o then dset i (n, lo) m else m)).
    assert (Hm2 : (forall j, lookup j m2 = if geqb i j then Some v else lookup j m) /\
                  map fst m2 = map fst m).
    { unfold m2, v, ren. split.
      - intros j. gcase lo o; gcase hi o; rewrite ?lookup_dset; gcase i j; subst; auto.
        exfalso. destruct Hor as [E'|E']; inversion E'; subst; destruct Ht; congruence.
      - gcase lo o; gcase hi o; auto.
        + rewrite dset_keys_present; [apply dset_keys_present; auto|].
          rewrite dset_keys_present; auto.
        + apply dset_keys_present; auto.
        + apply dset_keys_present; auto. }
    destruct Hm2 as [Hm2 Hk2].
    destruct (IH m2 Hnr) as (m' & Hr & Hk & Hout & Hin).
    + intros i' Hi'. destruct (Hp i' (or_intror Hi')) as (a' & b' & Hl' & Hrest).
      exists a', b'. split; auto. rewrite Hm2. gcase i i'; [subst; contradiction | auto].
    + exists m'. split; auto. split; [congruence|]. split.
      * intros j Hj. rewrite Hout by (intros ?; apply Hj; right; auto).
        rewrite Hm2. gcase i j; [subst; exfalso; apply Hj; left; auto | auto].
      * intros j [<-|Hj].
        -- exists a, b, v. split; auto. split; auto. rewrite Hout by auto.
           rewrite Hm2, geqb_refl. reflexivity.
        -- destruct (Hin j Hj) as (a' & b' & q & Hl' & Hq & Hu).
           exists a', b', q. split; auto. rewrite Hm2 in Hl'.
           gcase i j; [subst; contradiction | auto].
Qed.

(* ------------------------------------------------------------------ renaming *)
Lemma ren_id o n x : x <> o -> ren o n x = x.
Proof. intros H. unfold ren. apply geqb_neq in H. rewrite H. reflexivity. Qed.

Lemma ren_old o n : ren o n o = n.
Proof. unfold ren. rewrite geqb_refl. reflexivity. Qed.

Lemma ren_inj o n S x y :
  In x S -> In y S -> ~ In n S -> ren o n x = ren o n y -> x = y.
Proof.
  unfold ren. intros Hx Hy Hn. gcase x o; gcase y o; intros H; subst; auto; contradiction.
Qed.

Lemma ren_in o n S x : In x S -> In (ren o n x) (filter (fun y => neqb y o) S ++ [n]).
Proof.
  intros Hx. unfold ren. apply in_app_iff. gcase x o.
  - right; left; reflexivity.
  - left. apply in_filter_neq. auto.
Qed.

Lemma ren_dim o n x : fst n = fst o -> fst (ren o n x) = fst x.
Proof. intros H. unfold ren. gcase x o; subst; auto. Qed.
