(* C35 — block matrices from sparse blocks. *)
From Coq Require Import List ZArith Bool Arith Lia.
Import ListNotations.
From PP Require Import Lib.Csr Model.C35 Proofs.C35 Proofs.C35_csr.

(* reference: the lines of the blocks one after the other, minor indices shifted by the
   total minor extent of the earlier blocks *)
Fixpoint bd_rows (off : nat) (bs : list csr) : list (list (nat * Z)) :=
  match bs with
  | [] => []
  | b :: r => map (map (shift_entry off)) (rows b) ++ bd_rows (off + nmin b) r
  end.

(* dense reference: block diagonal matrix of (rectangular) dense blocks, total width N *)
Fixpoint bd_dense (off N : nat) (bs : list csr) : list (list Z) :=
  match bs with
  | [] => []
  | b :: r => map (fun row => repeat 0%Z off ++ row ++ repeat 0%Z (N - off - nmin b)) (to_dense b)
              ++ bd_dense (off + nmin b) N r
  end.

Lemma monotone_map_add : forall ip k, monotone ip = true -> monotone (map (fun p => p + k) ip) = true.
Proof.
  induction ip as [|a ip IH]; intros k M; [reflexivity|].
  destruct ip as [|b r]; [reflexivity|].
  change (monotone (a :: b :: r)) with ((a <=? b) && monotone (b :: r)) in M.
  apply andb_true_iff in M. destruct M as [M1 M2]. apply Nat.leb_le in M1.
  change (monotone (map (fun p => p + k) (a :: b :: r)))
    with ((a + k <=? b + k) && monotone (map (fun p => p + k) (b :: r))).
  apply andb_true_iff. split; [apply Nat.leb_le; lia|apply IH; exact M2].
Qed.

Lemma last_map_add : forall ip k, ip <> [] -> last (map (fun p => p + k) ip) 0 = last ip 0 + k.
Proof.
  induction ip as [|a ip IH]; intros k H; [congruence|].
  destruct ip as [|b r]; [reflexivity|].
  change (last (map (fun p => p + k) (a :: b :: r)) 0) with (last (map (fun p => p + k) (b :: r)) 0).
  change (last (a :: b :: r) 0) with (last (b :: r) 0). apply IH. discriminate.
Qed.

Lemma blocks_rows_gen : forall bs io po pre, Forall wfP bs -> length pre = po ->
  rows_of (po :: concat (map2 (fun m o => map (fun p => p + o) (tl (indptr m))) bs
                              (po :: cumsumN po (map (fun m => last (indptr m) 0) bs))))
          (pre ++ combine (concat (map2 (fun m o => map (fun j => j + o) (indices m)) bs
                                        (io :: cumsumN io (map nmin bs))))
                          (concat (map data bs)))
  = bd_rows io bs.
Proof.
  induction bs as [|b r IH]; intros io po pre HW Hp; [reflexivity|].
  inversion HW as [|b' r' W Wr]; subst b' r'.
  assert (Hne : indptr b <> []) by (pose proof (wf_len b W); destruct (indptr b); [discriminate|congruence]).
  cbn [map cumsumN map2 concat bd_rows].
  (* the index pointer of this block, shifted *)
  assert (Hip : po :: map (fun p => p + po) (tl (indptr b)) = map (fun p => p + po) (indptr b)).
  { pose proof (wf_hd b W) as Hh. destruct (indptr b) as [|z t]; [congruence|]. cbn [hd] in Hh. subst z. reflexivity. }
  rewrite app_comm_cons, Hip.
  rewrite combine_app' by (rewrite map_length; symmetry; apply (wf_data b W)).
  rewrite combine_map_l. fold (entries b).
  change (fun e : nat * Z => (fst e + io, snd e)) with (shift_entry io).
  rewrite app_assoc.
  rewrite rows_of_app_l.
  - f_equal.
    + rewrite <- Hp, rows_of_shift. apply (rows_of_map (shift_entry io)).
    + rewrite last_map_add by exact Hne. rewrite (Nat.add_comm (last (indptr b) 0) po).
      apply IH; [exact Wr|].
      rewrite app_length, map_length, (entries_length b W), (wf_last b W). lia.
  - destruct (indptr b); [congruence|discriminate].
  - apply monotone_map_add. apply (wf_mono b W).
  - rewrite last_map_add by exact Hne.
    rewrite app_length, map_length, (entries_length b W), (wf_last b W). lia.
Qed.

Lemma shift_entry_0 : forall r, map (shift_entry 0) r = r.
Proof.
  induction r as [|[j v] r IH]; [reflexivity|]. cbn [map]. rewrite IH.
  unfold shift_entry. cbn [fst snd]. rewrite Nat.add_0_r. reflexivity.
Qed.

Theorem blocks_rows : forall bs, bs <> [] -> Forall (fun b => wf b = true) bs ->
  exists C, csx_from_sparse_blocks bs = Ok C /\
            nmaj C = sum_nat (map nmaj bs) /\ nmin C = sum_nat (map nmin bs) /\
            rows C = bd_rows 0 bs.
Proof.
  intros bs Hne Hwf.
  assert (HW : Forall wfP bs) by (eapply Forall_impl; [|exact Hwf]; intros b; apply wf_wfP).
  destruct bs as [|b1 [|b2 r]]; [congruence| |].
  - exists b1. split; [reflexivity|]. cbn [map sum_nat fold_right bd_rows].
    rewrite !Nat.add_0_r, app_nil_r. repeat split.
    rewrite (map_ext _ (fun x => x)) by apply shift_entry_0. symmetry. apply map_id.
  - eexists. split; [reflexivity|]. cbn [nmaj nmin]. split; [reflexivity|split; [reflexivity|]].
    unfold rows, entries. cbn [indptr indices data].
    apply (blocks_rows_gen (b1 :: b2 :: r) 0 0 [] HW). reflexivity.
Qed.

Lemma bd_dense_rows : forall bs off N, Forall wfP bs -> off + sum_nat (map nmin bs) = N ->
  map (dense_row N) (bd_rows off bs) = bd_dense off N bs.
Proof.
  induction bs as [|b r IH]; intros off N HW HN; [reflexivity|].
  inversion HW as [|b' r' W Wr]; subst b' r'. cbn [map sum_nat fold_right] in HN.
  cbn [bd_rows bd_dense]. rewrite map_app. f_equal.
  - unfold to_dense. rewrite !map_map. apply map_ext_in. intros row Hr.
    replace N with (off + (nmin b + (N - off - nmin b))) at 1 by lia.
    rewrite dense_row_pad_l, dense_row_pad_r; [reflexivity|].
    pose proof (rows_minor b W) as Hm. rewrite Forall_forall in Hm. apply Hm. exact Hr.
  - apply IH; [exact Wr|]. unfold sum_nat in *. lia.
Qed.

Theorem blocks_dense : forall bs, bs <> [] -> Forall (fun b => wf b = true) bs ->
  exists C, csx_from_sparse_blocks bs = Ok C /\
            to_dense C = bd_dense 0 (sum_nat (map nmin bs)) bs.
Proof.
  intros bs Hne Hwf. destruct (blocks_rows bs Hne Hwf) as [C [E [_ [Hm Hr]]]].
  exists C. split; [exact E|]. unfold to_dense. rewrite Hr, Hm.
  apply bd_dense_rows; [|reflexivity]. eapply Forall_impl; [|exact Hwf]. intros b. apply wf_wfP.
Qed.

Lemma blocks_empty : csx_from_sparse_blocks [] = Err ValueErr.
Proof. reflexivity. Qed.
