(* C12 — transfer of the K-orthogonality checker from the executed rational instance to the
   real instance used in the theorems: if the boolean checker evaluated by the harness on the
   exact rational geometry returns true, the hypothesis [korth] of the exactness / M-matrix
   theorems holds for the same data read as real numbers. *)
From Coq Require Import List ZArith Bool Arith QArith Qreals Reals Lra.
Import ListNotations.
From PP Require Import Model.C12 Proofs.C12.

Local Open Scope R_scope.

Definition v2r (v : vec Q) : vec R := (Q2R (vx Q v), Q2R (vy Q v), Q2R (vz Q v)).
Definition m2r (K : mat Q) : mat R := (v2r (fst (fst K)), v2r (snd (fst K)), v2r (snd K)).

(* the same input, rationals read as reals *)
Definition in2r (I : input Q) : input R :=
  {| dim := dim I; nf := nf I; nc := nc I; cf := cf I;
     normal := fun f => v2r (normal I f); fcen := fun f => v2r (fcen I f);
     ccen := fun c => v2r (ccen I c); perm := fun c => m2r (perm I c);
     is_dir := is_dir I; is_neu := is_neu I; is_int := is_int I; bnd := bnd I |}.

Lemma Q2R_qadd a b : Q2R (qadd a b) = Q2R a + Q2R b.
Proof. unfold qadd. rewrite (Qeq_eqR _ _ (Qred_correct _)). apply Q2R_plus. Qed.
Lemma Q2R_qsub a b : Q2R (qsub a b) = Q2R a - Q2R b.
Proof. unfold qsub. rewrite (Qeq_eqR _ _ (Qred_correct _)). apply Q2R_minus. Qed.
Lemma Q2R_qmul a b : Q2R (qmul a b) = Q2R a * Q2R b.
Proof. unfold qmul. rewrite (Qeq_eqR _ _ (Qred_correct _)). apply Q2R_mult. Qed.
Lemma Q2R_inject z : Q2R (inject_Z z) = IZR z.
Proof. unfold Q2R, inject_Z. cbn. rewrite Rinv_1. ring. Qed.
Lemma Q2R_zero : Q2R 0 = 0.
Proof. unfold Q2R. cbn. lra. Qed.

Lemma knvec_transfer I e :
  v2r (knvec Q qadd qmul inject_Z I e) = rknvec (in2r I) e.
Proof.
  unfold knvec, nvec, mulmv, vscale, v2r, in2r, m2r. cbn [normal perm].
  destruct (perm I (tc e)) as [[[[k11 k12] k13] [[k21 k22] k23]] [[k31 k32] k33]].
  destruct (normal I (tg e)) as [[n1 n2] n3].
  unfold v2r. unfold dot, vx, vy, vz. cbn [fst snd].
  rewrite !Q2R_qadd, !Q2R_qmul, !Q2R_inject. reflexivity.
Qed.

Lemma dvec_transfer I e : v2r (dvec Q qsub I e) = rdvec (in2r I) e.
Proof.
  unfold dvec, vsub, v2r, in2r. cbn [fcen ccen].
  destruct (fcen I (tg e)) as [[x1 x2] x3]. destruct (ccen I (tc e)) as [[y1 y2] y3].
  unfold v2r, vx, vy, vz. cbn [fst snd]. rewrite !Q2R_qsub. reflexivity.
Qed.

Lemma qzero_R x : qzero x = true -> Q2R x = 0.
Proof.
  unfold qzero. intros H. apply Qeq_bool_eq in H. rewrite (Qeq_eqR _ _ H). apply Q2R_zero.
Qed.

Theorem korth_entry_transfer I e : korth_entry_b I e = true -> korth (in2r I) e.
Proof.
  unfold korth_entry_b, korth. rewrite <- knvec_transfer, <- dvec_transfer.
  generalize (knvec Q qadd qmul inject_Z I e) as k, (dvec Q qsub I e) as d.
  intros [[k1 k2] k3] [[d1 d2] d3]. unfold v2r, cross, dot, vx, vy, vz. cbn [fst snd].
  intros H. apply andb_true_iff in H. destruct H as [H Hp].
  apply andb_true_iff in H. destruct H as [H H3]. apply andb_true_iff in H. destruct H as [H1 H2].
  apply qzero_R in H1, H2, H3. rewrite Q2R_qsub, !Q2R_qmul in H1, H2, H3.
  split.
  - rewrite H1, H2, H3. reflexivity.
  - apply negb_true_iff in Hp.
    assert (L : (0 < qadd (qadd (qmul k1 d1) (qmul k2 d2)) (qmul k3 d3))%Q).
    { apply Qnot_le_lt. intros C. apply Qle_bool_iff in C. congruence. }
    apply Qlt_Rlt in L. rewrite Q2R_zero, !Q2R_qadd, !Q2R_qmul in L. exact L.
Qed.

(* what the tie evaluates on every generated grid *)
Theorem korth_transfer I :
  korth_b I = true -> forall e, In e (cf (in2r I)) -> korth (in2r I) e.
Proof.
  unfold korth_b. intros H e He. rewrite forallb_forall in H.
  apply korth_entry_transfer. apply H. exact He.
Qed.

(* ====================================================================================== *)
(* Transfer of the whole discretisation: the matrices computed by the executed rational    *)
(* instance, read as reals, ARE the matrices of the real instance the theorems speak of.   *)
(* (Division by zero is total on both sides: Qinv 0 = 0 and Rinv 0 = 0.)                  *)
(* ====================================================================================== *)
Lemma Q2R_one : Q2R 1 = 1.
Proof. unfold Q2R. cbn. lra. Qed.

Lemma Q2R_qopp a : Q2R (qopp a) = - Q2R a.
Proof. unfold qopp. rewrite (Qeq_eqR _ _ (Qred_correct _)). apply Q2R_opp. Qed.

Lemma Q2R_qdiv a b : Q2R (qdiv a b) = Q2R a / Q2R b.
Proof.
  unfold qdiv. rewrite (Qeq_eqR _ _ (Qred_correct _)).
  destruct (Qeq_dec b 0) as [E|E].
  - assert (H : (a / b == 0)%Q).
    { unfold Qdiv. rewrite E. unfold Qinv. cbn. ring. }
    rewrite (Qeq_eqR _ _ H), (Qeq_eqR _ _ E), Q2R_zero. unfold Rdiv. rewrite Rinv_0. ring.
  - apply Q2R_div. exact E.
Qed.

Lemma dot_transfer u v : Q2R (dot Q qadd qmul u v) = rdot (v2r u) (v2r v).
Proof.
  destruct u as [[u1 u2] u3], v as [[w1 w2] w3]. unfold dot, v2r, vx, vy, vz. cbn [fst snd].
  rewrite !Q2R_qadd, !Q2R_qmul. reflexivity.
Qed.

Lemma half_transfer I e :
  Q2R (half_trans Q qadd qsub qmul qdiv inject_Z I e) = rhalf (in2r I) e.
Proof.
  unfold half_trans. rewrite Q2R_qdiv, !dot_transfer, knvec_transfer, dvec_transfer. reflexivity.
Qed.

Lemma inv_sum_transfer I f :
  Q2R (inv_sum Q 0%Q 1%Q qadd qsub qmul qdiv inject_Z I f) = rinv_sum (in2r I) f.
Proof.
  unfold inv_sum. cbn [cf in2r]. induction (cf I) as [|e l IH]; cbn [fold_right].
  - apply Q2R_zero.
  - destruct (tf e =? f)%nat; [|exact IH].
    rewrite Q2R_qadd, Q2R_qdiv, Q2R_one, half_transfer, IH. reflexivity.
Qed.

Lemma t_full_transfer I f :
  Q2R (t_full Q 0%Q 1%Q qadd qsub qmul qdiv inject_Z I f) = rt_full (in2r I) f.
Proof. unfold t_full. rewrite Q2R_qdiv, Q2R_one, inv_sum_transfer. reflexivity. Qed.

Lemma t_flux_transfer I f :
  Q2R (t_flux Q 0%Q 1%Q qadd qsub qmul qdiv inject_Z I f) = rt_flux (in2r I) f.
Proof.
  unfold t_flux. change (neu' R (in2r I) f) with (neu' Q I f).
  destruct (neu' Q I f); [apply Q2R_zero | apply t_full_transfer].
Qed.

Lemma t_b_transfer I f :
  Q2R (t_b Q 0%Q 1%Q qadd qsub qmul qdiv qopp inject_Z I f) = rt_b (in2r I) f.
Proof.
  unfold t_b. change (neu' R (in2r I) f) with (neu' Q I f). change (dir' R (in2r I) f) with (dir' Q I f).
  destruct (neu' Q I f); [apply Q2R_one|]. destruct (dir' Q I f); [|apply Q2R_zero].
  rewrite Q2R_qopp, t_full_transfer. reflexivity.
Qed.

Lemma bsgn_transfer I f : Q2R (bsgn Q 0%Q inject_Z I f) = rbsgn (in2r I) f.
Proof.
  unfold bsgn. cbn [cf in2r]. destruct (filter _ (cf I)) as [|e l]; [apply Q2R_zero | apply Q2R_inject].
Qed.

Lemma v_face_transfer I f :
  Q2R (v_face Q 0%Q 1%Q qadd qsub qmul qdiv qopp inject_Z I f) = rv_face (in2r I) f.
Proof.
  unfold v_face. cbn [is_neu is_dir in2r]. destruct (is_neu I f).
  - rewrite Q2R_qopp, Q2R_qdiv, Q2R_one, t_full_transfer. reflexivity.
  - destruct (is_dir I f); [apply Q2R_one | apply Q2R_zero].
Qed.

(* a rational coordinate list read as a real one *)
Definition c2r (M : coo Q) : coo R := map (fun t => (fst (fst t), snd (fst t), Q2R (snd t))) M.

Theorem discretize_transfer I :
  let '(a, b, c, d) := qdiscretize I in
  rdiscretize (in2r I) = (c2r a, c2r b, c2r c, c2r d).
Proof.
  unfold qdiscretize, discretize. cbn [dim in2r]. destruct (dim I =? 0)%nat; [reflexivity|].
  unfold flux, bound_flux, bound_pressure_cell, bound_pressure_face, c2r.
  cbn [cf bnd nf is_neu in2r]. rewrite !map_map. cbn [fst snd].
  f_equal; [f_equal; [f_equal|]|].
  - apply map_ext. intros e. rewrite Q2R_qmul, t_flux_transfer, Q2R_inject. reflexivity.
  - apply map_ext. intros f. rewrite Q2R_qmul, t_b_transfer, bsgn_transfer. reflexivity.
  - apply map_ext. intros e. destruct (is_neu I (tg e)); [rewrite Q2R_one | rewrite Q2R_zero]; reflexivity.
  - apply map_ext. intros f. rewrite v_face_transfer. reflexivity.
Qed.
