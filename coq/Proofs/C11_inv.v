(* C11 / C13 — an approximate left inverse certifies that a local system determines its
   solution: if B A = I + E with every row of E of 1-norm <= q < 1, then A is injective,
   so a system A x = r has at most one solution.  (The code's float inverse is never an exact
   inverse; what the run-time certificate can establish exactly, in rational arithmetic, is
   the row bound on E = B A - I for the captured matrices A and B.) *)
From Coq Require Import List ZArith Bool Arith Lia Reals Lra.
Import ListNotations.
From PP Require Import Model.C11 Model.C13 Proofs.C11 Proofs.C13.
Local Open Scope R_scope.

Lemma sumn_plus n (f g : nat -> R) : rsumn n (fun j => f j + g j) = rsumn n f + rsumn n g.
Proof. induction n as [|n IH]; cbn [sumn]; ro; [ring|]. rewrite IH. ring. Qed.

Lemma sumn_scal_l n (f : nat -> R) (c : R) : rsumn n (fun j => c * f j) = c * rsumn n f.
Proof. induction n as [|n IH]; cbn [sumn]; ro; [ring|]. rewrite IH. ring. Qed.

Lemma sumn_le n (f g : nat -> R) : (forall j, (j < n)%nat -> f j <= g j) -> rsumn n f <= rsumn n g.
Proof.
  induction n as [|n IH]; intros H; cbn [sumn]; ro; [lra|].
  pose proof (IH (fun j Hj => H j ltac:(lia))). pose proof (H n ltac:(lia)). lra.
Qed.

Lemma sumn_abs n (f : nat -> R) : Rabs (rsumn n f) <= rsumn n (fun j => Rabs (f j)).
Proof.
  induction n as [|n IH]; cbn [sumn]; ro; [rewrite Rabs_R0; lra|].
  pose proof (Rabs_triang (rsumn n f) (f n)). lra.
Qed.

Lemma sumn_swap n m (f : nat -> nat -> R) :
  rsumn n (fun i => rsumn m (fun j => f i j)) = rsumn m (fun j => rsumn n (fun i => f i j)).
Proof.
  induction n as [|n IH]; cbn [sumn]; ro.
  - symmetry. apply sumn_zero. reflexivity.
  - rewrite IH. rewrite <- sumn_plus. reflexivity.
Qed.

Lemma sumn_delta n (x : nat -> R) i :
  (i < n)%nat -> rsumn n (fun j => (if (i =? j)%nat then 1 else 0) * x j) = x i.
Proof.
  induction n as [|n IH]; intros Hi; [lia|]. cbn [sumn]; ro.
  destruct (Nat.eq_dec i n) as [E|NE].
  - subst i. rewrite Nat.eqb_refl. rewrite sumn_zero; [ring|].
    intros j Hj. destruct (n =? j)%nat eqn:Ej; [apply Nat.eqb_eq in Ej; lia | ring].
  - rewrite IH by lia. destruct (i =? n)%nat eqn:Ei; [apply Nat.eqb_eq in Ei; lia | ring].
Qed.

(* maximum of f over 0 .. n-1 (0 for n = 0) *)
Fixpoint maxn (n : nat) (f : nat -> R) : R :=
  match n with O => 0 | S n' => Rmax (maxn n' f) (f n') end.

Lemma maxn_ge n f j : (j < n)%nat -> f j <= maxn n f.
Proof.
  induction n as [|n IH]; intros Hj; [lia|]. cbn [maxn].
  destruct (Nat.eq_dec j n) as [E|NE]; [subst; apply Rmax_r|].
  eapply Rle_trans; [apply IH; lia | apply Rmax_l].
Qed.

Lemma maxn_le n f c : 0 <= c -> (forall j, (j < n)%nat -> f j <= c) -> maxn n f <= c.
Proof.
  induction n as [|n IH]; intros Hc H; cbn [maxn]; [exact Hc|].
  apply Rmax_lub; [apply IH; auto | apply H; lia].
Qed.

Lemma maxn_nonneg n f : 0 <= maxn n f.
Proof.
  induction n as [|n IH]; cbn [maxn]; [lra|]. eapply Rle_trans; [exact IH | apply Rmax_l].
Qed.

Section ApproxInverse.
  Variables (n : nat) (A B : nat -> nat -> R) (q : R).
  Definition prodBA (i j : nat) : R := rsumn n (fun k => B i k * A k j).
  Definition idn (i j : nat) : R := if (i =? j)%nat then 1 else 0.
  Definition mulv (M : nat -> nat -> R) (x : nat -> R) (i : nat) : R := rsumn n (fun j => M i j * x j).

  Hypothesis Hq : q < 1.
  Hypothesis Hrow : forall i, (i < n)%nat -> rsumn n (fun j => Rabs (prodBA i j - idn i j)) <= q.

  Lemma kernel_trivial :
    forall x : nat -> R, (forall i, (i < n)%nat -> mulv A x i = 0) -> forall j, (j < n)%nat -> x j = 0.
  Proof.
    intros x HAx.
    set (M := maxn n (fun j => Rabs (x j))).
    assert (HM0 : 0 <= M) by apply maxn_nonneg.
    assert (Hbound : forall i, (i < n)%nat -> Rabs (x i) <= q * M).
    { intros i Hi.
      assert (HBA : mulv prodBA x i = 0).
      { unfold mulv, prodBA.
        rewrite (sumn_ext n _ (fun j => rsumn n (fun k => B i k * (A k j * x j)))).
        2:{ intros j _. rewrite <- sumn_scal_r. apply sumn_ext. intros k _. ring. }
        rewrite sumn_swap.
        rewrite (sumn_ext n _ (fun k => B i k * mulv A x k)).
        2:{ intros k _. unfold mulv. rewrite <- sumn_scal_l. reflexivity. }
        apply sumn_zero. intros k Hk. rewrite HAx by assumption. ring. }
      assert (Hx : x i = - rsumn n (fun j => (prodBA i j - idn i j) * x j)).
      { rewrite (sumn_ext n _ (fun j => prodBA i j * x j - idn i j * x j)) by (intros; ring).
        rewrite sumn_minus. fold (mulv prodBA x i). rewrite HBA.
        unfold idn. rewrite sumn_delta by assumption. ring. }
      rewrite Hx, Rabs_Ropp.
      eapply Rle_trans; [apply sumn_abs|].
      eapply Rle_trans.
      - apply (sumn_le n _ (fun j => Rabs (prodBA i j - idn i j) * M)).
        intros j Hj. rewrite Rabs_mult. apply Rmult_le_compat_l; [apply Rabs_pos|].
        apply (maxn_ge n (fun j => Rabs (x j)) j Hj).
      - rewrite sumn_scal_r. apply Rmult_le_compat_r; [exact HM0 | apply Hrow; assumption]. }
    assert (HMq : M <= q * M).
    { unfold M at 1. destruct (Rle_dec 0 (q * M)) as [H|H].
      - apply maxn_le; [exact H | exact Hbound].
      - (* q * M < 0 is impossible when some index exists; for n = 0, M = 0 *)
        destruct n as [|n']; [unfold M; cbn [maxn]; cbn [maxn] in H; lra|].
        pose proof (Hbound 0%nat ltac:(lia)). pose proof (Rabs_pos (x 0%nat)). lra. }
    assert (M = 0) by nra.
    intros j Hj. pose proof (maxn_ge n (fun j => Rabs (x j)) j Hj) as H1. cbn beta in H1.
    fold M in H1. pose proof (Rabs_pos (x j)).
    assert (Rabs (x j) = 0) by lra.
    destruct (Req_dec (x j) 0) as [E|NE]; [exact E|]. apply Rabs_no_R0 in NE. contradiction.
  Qed.

  (* at most one solution *)
  Lemma unique_solution :
    forall (r x y : nat -> R),
      (forall i, (i < n)%nat -> mulv A x i = r i) ->
      (forall i, (i < n)%nat -> mulv A y i = r i) ->
      forall j, (j < n)%nat -> x j = y j.
  Proof.
    intros r x y Hx Hy j Hj.
    assert (H : forall j, (j < n)%nat -> (fun j => x j - y j) j = 0).
    { apply (kernel_trivial (fun j => x j - y j)). intros i Hi. unfold mulv.
      rewrite (sumn_ext n _ (fun j => A i j * x j - A i j * y j)) by (intros; ring).
      rewrite sumn_minus. fold (mulv A x i). fold (mulv A y i). rewrite Hx, Hy by assumption. ring. }
    specialize (H j Hj).
    cbn beta in H. lra.
  Qed.
End ApproxInverse.

(* non-vacuity: A = [[2,1],[1,3]], B = [[0.6,-0.2],[-0.2,0.4]] (the exact inverse, so E = 0) *)
Definition exA2 (i j : nat) : R :=
  match i, j with O, O => 2 | O, S O => 1 | S O, O => 1 | S O, S O => 3 | _, _ => 0 end.
Definition exB2 (i j : nat) : R :=
  match i, j with O, O => 3/5 | O, S O => -1/5 | S O, O => -1/5 | S O, S O => 2/5 | _, _ => 0 end.
Lemma example_approx_inverse :
  (1/2 < 1) /\
  forall i, (i < 2)%nat -> rsumn 2 (fun j => Rabs (prodBA 2 exA2 exB2 i j - idn i j)) <= 1/2.
Proof.
  split; [lra|]. intros i Hi. destruct i as [|[|i]]; [| |lia];
    unfold prodBA, idn, exA2, exB2; cbn [sumn Nat.eqb]; ro;
    repeat match goal with |- context [Rabs ?t] =>
      replace t with 0 by field; rewrite Rabs_R0 end; lra.
Qed.
