(* C13 — the admissibility condition of the weakly symmetric scheme (#Neumann sub-faces at
   a node <= #sub-cells at the node, mpsa.py:_eliminate_ncasym / Model.C13.keep_asym) follows
   from the property's restriction "no two Neumann boundary faces share an edge" on grids
   whose cells are simple polytopes at their vertices (two faces of one cell that meet in a
   vertex share an edge: tetrahedra, hexahedra, prisms; NOT pyramids at the apex).

   Setting, for one node v: neu = the Neumann boundary faces containing v (each has exactly
   one sub-face at v), cell_of f = the cell of the boundary face f (a boundary face has one
   cell; its sub-cell at v is one of the m sub-cells of the interaction region). *)
From Coq Require Import List Arith Lia Bool Reals.
Import ListNotations.
From PP Require Import Model.C11 Model.C13.

Section Admissible.
  Variable share_edge : nat -> nat -> Prop.
  Variable cell_of : nat -> nat.

  Lemma NoDup_map_in {A B} (f : A -> B) (l : list A) :
    NoDup l -> (forall x y, In x l -> In y l -> f x = f y -> x = y) -> NoDup (map f l).
  Proof.
    induction l as [|a l IH]; intros Hnd Hinj; [constructor|].
    inversion Hnd as [|? ? Hna Hnd']; subst. cbn [map]. constructor.
    - intros Hin. apply in_map_iff in Hin. destruct Hin as [x [Hfx Hx]].
      assert (x = a) by (apply Hinj; [right; exact Hx | left; reflexivity | exact Hfx]).
      subst x. contradiction.
    - apply IH; [exact Hnd'|]. intros x y Hx Hy. apply Hinj; right; assumption.
  Qed.

  Lemma neumann_count_le_cells :
    forall (neu cells : list nat),
      NoDup neu ->
      (forall f, In f neu -> In (cell_of f) cells) ->
      (* simple polytopes: two boundary faces of one cell that meet in v share an edge *)
      (forall f g, In f neu -> In g neu -> f <> g -> cell_of f = cell_of g -> share_edge f g) ->
      (* the property's restriction *)
      (forall f g, In f neu -> In g neu -> f <> g -> ~ share_edge f g) ->
      length neu <= length cells.
  Proof.
    intros neu cells Hnd Hin Hsimple Hrestr.
    rewrite <- (map_length cell_of neu). apply NoDup_incl_length.
    - apply NoDup_map_in; [exact Hnd|]. intros f g Hf Hg Heq.
      destruct (Nat.eq_dec f g) as [E|NE]; [exact E|]. exfalso.
      exact (Hrestr f g Hf Hg NE (Hsimple f g Hf Hg NE Heq)).
    - intros c Hc. apply in_map_iff in Hc. destruct Hc as [f [Hf Hfin]]. subst c. apply Hin. exact Hfin.
  Qed.

  (* hence the averaged part of Hooke's law is kept in every such interaction region *)
  Lemma edge_disjoint_admissible :
    forall (F : Type) (neu cells : list nat) (faces : list (subfaceV F)),
      NoDup neu ->
      (forall f, In f neu -> In (cell_of f) cells) ->
      (forall f g, In f neu -> In g neu -> f <> g -> cell_of f = cell_of g -> share_edge f g) ->
      (forall f g, In f neu -> In g neu -> f <> g -> ~ share_edge f g) ->
      length (filter (is_neuV F) faces) = length neu ->
      keep_asym F (length cells) faces = true.
  Proof.
    intros F neu cells faces Hnd Hin Hs Hr Hlen. unfold keep_asym. rewrite Hlen.
    apply Nat.leb_le. eapply neumann_count_le_cells; eassumption.
  Qed.
End Admissible.

(* non-vacuity: a boundary-edge node of a hexahedral grid: two sub-cells (cells 10, 11), four
   boundary faces 0,1 (cell 10) and 2,3 (cell 11); faces of the same cell share an edge, so
   do the coplanar neighbours 0-2 and 1-3; the Neumann set {0, 3} is edge disjoint. *)
Definition ex_share (f g : nat) : Prop :=
  match f, g with
  | 0, 1 | 1, 0 | 2, 3 | 3, 2 | 0, 2 | 2, 0 | 1, 3 | 3, 1 => True
  | _, _ => False
  end.
Definition ex_cell_of (f : nat) : nat := if f <? 2 then 10 else 11.

Lemma example_admissible :
  NoDup [0; 3] /\
  (forall f, In f [0; 3] -> In (ex_cell_of f) [10; 11]) /\
  (forall f g, In f [0; 3] -> In g [0; 3] -> f <> g -> ex_cell_of f = ex_cell_of g -> ex_share f g) /\
  (forall f g, In f [0; 3] -> In g [0; 3] -> f <> g -> ~ ex_share f g).
Proof.
  repeat split.
  - repeat constructor; cbn; intuition lia.
  - intros f [H|[H|[]]]; subst f; cbn; auto.
  - intros f g [H|[H|[]]] [H'|[H'|[]]]; subst f g; cbn; intros; try congruence; try lia; discriminate.
  - intros f g [H|[H|[]]] [H'|[H'|[]]]; subst f g; cbn; intros; try congruence; auto.
Qed.
