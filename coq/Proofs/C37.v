(* C37 — block location in compressed storage (searchsorted boundaries), the repair
   (eliminate_zeros keeps the matrix and restores the premise). *)
From Coq Require Import List ZArith Bool Arith Lia.
Import ListNotations.
From PP Require Import Lib.Csr Lib.Dense Model.C35 Proofs.C35 Proofs.C35_csr Model.C37.

(* ================================================================ binary search *)

Lemma half_lt : forall d, 0 < d -> d / 2 < d.
Proof. intros d H. apply Nat.div_lt; lia. Qed.

Lemma bsearch_spec : forall fuel lo hi a key p,
  (forall i, i < p -> nth i a 0 < key) ->
  (forall i, p <= i -> i < length a -> key <= nth i a 0) ->
  lo <= p -> p <= hi -> hi <= length a -> hi - lo < fuel ->
  bsearch fuel lo hi a key = p.
Proof.
  induction fuel as [|f IH]; intros lo hi a key p Hlt Hge H1 H2 H3 H4; [lia|].
  cbn [bsearch]. destruct (lo <? hi) eqn:E.
  - apply Nat.ltb_lt in E. pose proof (half_lt (hi - lo)) as HH.
    set (mid := lo + (hi - lo) / 2) in *.
    assert (Hm1 : lo <= mid) by (unfold mid; lia).
    assert (Hm2 : mid < hi) by (unfold mid; lia).
    destruct (nth mid a 0 <? key) eqn:C.
    + apply Nat.ltb_lt in C. apply IH; auto; try lia.
      destruct (le_lt_dec p mid) as [L|L]; [|lia].
      specialize (Hge mid L). lia.
    + apply Nat.ltb_ge in C. apply IH; auto; try lia.
      destruct (le_lt_dec p mid) as [L|L]; [lia|].
      specialize (Hlt mid L). lia.
  - apply Nat.ltb_ge in E. lia.
Qed.

(* np.searchsorted on an array that is partitioned by the key returns the partition point *)
Lemma searchsorted_partition : forall l1 l2 key,
  Forall (fun x => x < key) l1 -> Forall (fun x => key <= x) l2 ->
  searchsorted (l1 ++ l2) key = length l1.
Proof.
  intros l1 l2 key F1 F2. unfold searchsorted. apply bsearch_spec.
  - intros i Hi. rewrite app_nth1 by exact Hi. rewrite Forall_forall in F1. apply F1. apply nth_In. exact Hi.
  - intros i Hi Hl. rewrite app_nth2 by exact Hi. rewrite Forall_forall in F2. apply F2. apply nth_In.
    rewrite app_length in Hl. lia.
  - lia.
  - rewrite app_length. lia.
  - lia.
  - lia.
Qed.

(* ================================================================ lines of a well-formed matrix *)

Lemma firstn_add : forall {E} m n (l : list E), firstn (m + n) l = firstn m l ++ firstn n (skipn m l).
Proof.
  induction m as [|m IH]; intros n l; [reflexivity|].
  destruct l as [|x l]; [cbn; rewrite firstn_nil; reflexivity|].
  cbn [plus firstn skipn app]. f_equal. apply IH.
Qed.

Lemma skipn_skipn' : forall {E} m n (l : list E), skipn m (skipn n l) = skipn (m + n) l.
Proof.
  intros E m n. revert m. induction n as [|n IH]; intros m l; [rewrite Nat.add_0_r; reflexivity|].
  destruct l as [|x l]; [rewrite !skipn_nil; reflexivity|].
  rewrite Nat.add_succ_r. cbn [skipn]. apply IH.
Qed.

Lemma seg_seg : forall {E} (l : list E) a b c, a <= b -> b <= c -> c <= length l ->
  seg a b l ++ seg b c l = seg a c l.
Proof.
  intros E l a b c H1 H2 H3. unfold seg.
  replace (c - a) with ((b - a) + (c - b)) by lia.
  rewrite firstn_add. f_equal. rewrite skipn_skipn'. replace (b - a + a) with b by lia. reflexivity.
Qed.

Lemma mono_nth_le : forall ip, monotone ip = true -> forall i j, i <= j -> j < length ip ->
  nth i ip 0 <= nth j ip 0.
Proof.
  intros ip M i j H. induction H as [|j H IH]; intros L; [lia|].
  pose proof (mono_step ip M j L). specialize (IH ltac:(lia)). lia.
Qed.

Lemma concat_firstn_rows_of : forall {E} (ip : list nat) (l : list E) k,
  monotone ip = true -> last ip 0 <= length l -> k < length ip ->
  concat (firstn k (rows_of ip l)) = seg (nth 0 ip 0) (nth k ip 0) l.
Proof.
  induction ip as [|a ip IH]; intros l k M L H; simpl in H; [lia|].
  destruct k as [|k].
  - cbn. unfold seg. rewrite Nat.sub_diag. reflexivity.
  - destruct ip as [|b r]; [simpl in H; lia|].
    change (rows_of (a :: b :: r) l) with (seg a b l :: rows_of (b :: r) l).
    cbn [firstn concat]. change (nth 0 (a :: b :: r) 0) with a.
    change (nth (S k) (a :: b :: r) 0) with (nth k (b :: r) 0).
    pose proof (mono_step (a :: b :: r) M 0 ltac:(simpl; lia)) as Hab. cbn [nth] in Hab.
    change (monotone (a :: b :: r)) with ((a <=? b) && monotone (b :: r)) in M.
    apply andb_true_iff in M. destruct M as [_ M2].
    change (last (a :: b :: r) 0) with (last (b :: r) 0) in L.
    rewrite IH by (auto; simpl in *; lia). change (nth 0 (b :: r) 0) with b.
    assert (Hk : nth k (b :: r) 0 <= last (b :: r) 0) by (apply mono_last; [exact M2|simpl in *; lia]).
    assert (Hb : b <= nth k (b :: r) 0).
    { apply (mono_nth_le (b :: r) M2 0 k); [lia|simpl in *; lia]. }
    apply seg_seg; lia.
Qed.

Lemma firstn_all_rows : forall {E} (ip : list nat) (l : list E),
  firstn (length ip - 1) (rows_of ip l) = rows_of ip l.
Proof. intros. rewrite <- (rows_of_length ip l). apply firstn_all. Qed.

Lemma concat_rows : forall A, wfP A -> concat (rows A) = entries A.
Proof.
  intros A W. unfold rows. rewrite <- firstn_all_rows.
  rewrite concat_firstn_rows_of.
  - rewrite (wf_len A W). replace (S (nmaj A) - 1) with (nmaj A) by lia.
    assert (H0 : nth 0 (indptr A) 0 = 0).
    { pose proof (wf_hd A W) as H. pose proof (wf_len A W) as HL. destruct (indptr A); simpl in *; [lia|exact H]. }
    assert (HN : nth (nmaj A) (indptr A) 0 = length (entries A)).
    { rewrite (entries_length A W), <- (wf_last A W).
      pose proof (wf_len A W) as HL. clear - HL. revert HL. generalize (nmaj A). generalize (indptr A).
      induction l as [|x l IH]; intros n HL; simpl in HL; [lia|].
      destruct l as [|y l]; [simpl in *; injection HL as HL; subst; reflexivity|].
      destruct n; [simpl in HL; lia|]. change (last (x :: y :: l) 0) with (last (y :: l) 0). cbn [nth].
      apply IH. simpl in *. lia. }
    rewrite H0, HN. unfold seg. rewrite Nat.sub_0_r. cbn [skipn]. apply firstn_all.
  - apply (wf_mono A W).
  - rewrite (wf_last A W), (entries_length A W). lia.
  - rewrite (wf_len A W). lia.
Qed.

Lemma concat_firstn_rows : forall A k, wfP A -> k <= nmaj A ->
  concat (firstn k (rows A)) = firstn (nth k (indptr A) 0) (entries A).
Proof.
  intros A k W H. unfold rows. rewrite concat_firstn_rows_of.
  - assert (H0 : nth 0 (indptr A) 0 = 0).
    { pose proof (wf_hd A W) as Hh. pose proof (wf_len A W) as HL. destruct (indptr A); simpl in *; [lia|exact Hh]. }
    rewrite H0. unfold seg. rewrite Nat.sub_0_r. reflexivity.
  - apply (wf_mono A W).
  - rewrite (wf_last A W), (entries_length A W). lia.
  - rewrite (wf_len A W). lia.
Qed.

Lemma indptr_bound : forall A k, wfP A -> k <= nmaj A -> nth k (indptr A) 0 <= length (entries A).
Proof.
  intros A k W H. rewrite (entries_length A W), <- (wf_last A W).
  apply mono_last; [apply (wf_mono A W)|rewrite (wf_len A W); lia].
Qed.

Lemma map_fst_entries : forall A, wfP A -> map fst (entries A) = indices A.
Proof.
  intros A W. unfold entries. pose proof (wf_data A W) as H. revert H.
  generalize (data A). generalize (indices A). induction l as [|x l IH]; intros [|d ds] H; simpl in *; try lia; [reflexivity|].
  f_equal. apply IH. lia.
Qed.

(* ================================================================ the premise, unfolded *)

Lemma in_firstn_combine : forall {E} (l : list E) b s r, In r (firstn b l) ->
  exists k, k < b /\ In (s + k, r) (combine (seq s (length l)) l).
Proof.
  induction l as [|x l IH]; intros b s r H; [destruct b; simpl in H; contradiction|].
  destruct b as [|b]; [simpl in H; contradiction|]. cbn [firstn] in H. destruct H as [H|H].
  - subst. exists 0. split; [lia|]. cbn [length seq combine]. left. f_equal. lia.
  - destruct (IH b (S s) r H) as [k [Hk Hin]]. exists (S k). split; [lia|].
    cbn [length seq combine]. right. replace (s + S k) with (S s + k) by lia. exact Hin.
Qed.

Lemma in_skipn_combine : forall {E} (l : list E) b s r, In r (skipn b l) ->
  exists k, b <= k /\ In (s + k, r) (combine (seq s (length l)) l).
Proof.
  induction l as [|x l IH]; intros b s r H; [destruct b; simpl in H; contradiction|].
  destruct b as [|b].
  - cbn [skipn] in H. destruct H as [H|H].
    + subst. exists 0. split; [lia|]. cbn [length seq combine]. left. f_equal. lia.
    + destruct (IH 0 (S s) r) as [k [Hk Hin]]; [cbn [skipn]; destruct l; exact H|].
      exists (S k). split; [lia|]. cbn [length seq combine]. right.
      replace (s + S k) with (S s + k) by lia. exact Hin.
  - cbn [skipn] in H. destruct (IH b (S s) r H) as [k [Hk Hin]]. exists (S k). split; [lia|].
    cbn [length seq combine]. right. replace (s + S k) with (S s + k) by lia. exact Hin.
Qed.

(* The searchsorted boundaries are the index pointers of the block starts:
   idx_nnz[k] = indptr[idx_blocks[k]], for any well-formed storage none of whose stored
   entries straddles a block boundary. *)
Theorem block_boundaries : forall A sz, wf A = true -> block_monotone A sz = true ->
  Forall (fun b => b <= nmaj A) (idx_blocks sz) ->
  idx_nnz A sz = map (fun b => nth b (indptr A) 0) (idx_blocks sz).
Proof.
  intros A sz WF BM FB. apply wf_wfP in WF. unfold idx_nnz. apply map_ext_in. intros b Hb.
  rewrite Forall_forall in FB. specialize (FB b Hb).
  unfold block_monotone in BM. rewrite forallb_forall in BM. specialize (BM b Hb).
  rewrite forallb_forall in BM.
  rewrite <- (map_fst_entries A WF). rewrite <- (concat_rows A WF).
  rewrite <- (firstn_skipn b (rows A)) at 1. rewrite concat_app, map_app.
  rewrite searchsorted_partition.
  - rewrite map_length, concat_firstn_rows by assumption. rewrite firstn_length.
    pose proof (indptr_bound A b WF FB). lia.
  - apply Forall_forall. intros j Hj. apply in_map_iff in Hj. destruct Hj as [e [He Hin]]. subst j.
    apply in_concat in Hin. destruct Hin as [r [Hr He]].
    destruct (in_firstn_combine (rows A) b 0 r Hr) as [k [Hk Hin]].
    rewrite (rows_length A WF) in Hin. specialize (BM (0 + k, r) Hin).
    unfold line_respects in BM. rewrite forallb_forall in BM. specialize (BM e He). cbn [fst snd] in BM.
    apply eqb_prop in BM. assert (E : (0 + k <? b) = true) by (apply Nat.ltb_lt; lia).
    rewrite E in BM. symmetry in BM. apply Nat.ltb_lt in BM. exact BM.
  - apply Forall_forall. intros j Hj. apply in_map_iff in Hj. destruct Hj as [e [He Hin]]. subst j.
    apply in_concat in Hin. destruct Hin as [r [Hr He]].
    destruct (in_skipn_combine (rows A) b 0 r Hr) as [k [Hk Hin]].
    rewrite (rows_length A WF) in Hin. specialize (BM (0 + k, r) Hin).
    unfold line_respects in BM. rewrite forallb_forall in BM. specialize (BM e He). cbn [fst snd] in BM.
    apply eqb_prop in BM. assert (E : (0 + k <? b) = false) by (apply Nat.ltb_ge; lia).
    rewrite E in BM. symmetry in BM. apply Nat.ltb_ge in BM. exact BM.
Qed.

(* hence the slice of the entry list taken for block k is exactly the concatenation of the
   lines b_k .. b_{k+1}-1 *)
Theorem block_slice : forall A b0 b1, wf A = true -> b0 <= b1 -> b1 <= nmaj A ->
  seg (nth b0 (indptr A) 0) (nth b1 (indptr A) 0) (entries A)
  = concat (seg b0 b1 (rows A)).
Proof.
  intros A b0 b1 WF H1 H2. apply wf_wfP in WF.
  assert (M : nth b0 (indptr A) 0 <= nth b1 (indptr A) 0).
  { clear - WF H1 H2. induction H1 as [|b1 H1 IH]; [lia|].
    pose proof (mono_step (indptr A) (wf_mono A WF) b1) as S. rewrite (wf_len A WF) in S.
    specialize (S ltac:(lia)). specialize (IH ltac:(lia)). lia. }
  pose proof (indptr_bound A b1 WF H2) as B1.
  assert (E : concat (firstn b1 (rows A)) = concat (firstn b0 (rows A)) ++ concat (seg b0 b1 (rows A))).
  { rewrite <- concat_app. f_equal. unfold seg.
    rewrite <- (firstn_skipn b0 (firstn b1 (rows A))) at 1. f_equal.
    - rewrite firstn_firstn. f_equal. lia.
    - rewrite skipn_firstn_comm. reflexivity. }
  rewrite !concat_firstn_rows in E by (auto; lia).
  assert (E2 : firstn (nth b1 (indptr A) 0) (entries A)
               = firstn (nth b0 (indptr A) 0) (entries A)
                 ++ seg (nth b0 (indptr A) 0) (nth b1 (indptr A) 0) (entries A)).
  { unfold seg. rewrite <- (firstn_skipn (nth b0 (indptr A) 0) (firstn (nth b1 (indptr A) 0) (entries A))) at 1.
    f_equal.
    - rewrite firstn_firstn. f_equal. lia.
    - rewrite skipn_firstn_comm. reflexivity. }
  rewrite E2 in E. apply app_inv_head in E. exact E.
Qed.

(* ================================================================ eliminate_zeros *)

Lemma combine_fst_snd : forall {X Y} (l : list (X * Y)), combine (map fst l) (map snd l) = l.
Proof. induction l as [|[x y] l IH]; simpl; [reflexivity|]. f_equal. exact IH. Qed.

Lemma rows_eliminate : forall A, rows (eliminate_zeros A) = map (filter nonzero_entry) (rows A).
Proof.
  intros A. unfold rows at 1, entries, eliminate_zeros. cbn [indptr indices data].
  rewrite combine_fst_snd.
  apply (rows_of_concat (map (filter nonzero_entry) (rows A)) [] 0). reflexivity.
Qed.

Lemma entry_sum_filter : forall j r, entry_sum j (filter nonzero_entry r) = entry_sum j r.
Proof.
  induction r as [|e r IH]; [reflexivity|]. cbn [filter]. unfold nonzero_entry at 1.
  destruct (Z.eqb_spec (snd e) 0) as [Z0|Z0]; cbn [negb].
  - cbn [entry_sum fold_right]. fold (entry_sum j r). rewrite IH. destruct (Nat.eqb (fst e) j); [lia|reflexivity].
  - cbn [entry_sum fold_right]. fold (entry_sum j r). fold (entry_sum j (filter nonzero_entry r)). rewrite IH. reflexivity.
Qed.

(* the repair does not change the matrix ... *)
Theorem eliminate_zeros_dense : forall A, to_dense (eliminate_zeros A) = to_dense A.
Proof.
  intros A. unfold to_dense. rewrite rows_eliminate, map_map. cbn [nmin eliminate_zeros].
  apply map_ext. intros r. unfold dense_row. apply map_ext. intros j. apply entry_sum_filter.
Qed.

(* ... and leaves no stored zero *)
Theorem eliminate_zeros_nonzero : forall A,
  Forall (Forall (fun e => snd e <> 0%Z)) (rows (eliminate_zeros A)).
Proof.
  intros A. rewrite rows_eliminate. apply Forall_forall. intros r Hr. apply in_map_iff in Hr.
  destruct Hr as [r0 [E _]]. subst r. apply Forall_forall. intros e He. apply filter_In in He.
  destruct He as [_ He]. unfold nonzero_entry in He. destruct (Z.eqb_spec (snd e) 0); [discriminate|assumption].
Qed.

(* A matrix all of whose NON-ZERO stored entries respect the block boundaries satisfies
   the premise of [block_boundaries] after the repair, whatever zeros are stored. *)
Theorem eliminate_zeros_restores_premise : forall A sz,
  (forall b, In b (idx_blocks sz) -> forall i r, In (i, r) (combine (seq 0 (nmaj A)) (rows A)) ->
     forall e, In e r -> snd e <> 0%Z -> (i <? b) = (fst e <? b)) ->
  block_monotone (eliminate_zeros A) sz = true.
Proof.
  intros A sz H. unfold block_monotone. apply forallb_forall. intros b Hb.
  apply forallb_forall. intros [i r] Hir. rewrite rows_eliminate in Hir. cbn [nmaj eliminate_zeros] in Hir.
  assert (exists r0, In (i, r0) (combine (seq 0 (nmaj A)) (rows A)) /\ r = filter nonzero_entry r0) as [r0 [Hin Er]].
  { clear - Hir. revert Hir. generalize (seq 0 (nmaj A)). generalize (rows A).
    induction l as [|x l IH]; intros [|s ss] Hir; simpl in Hir; try contradiction.
    destruct Hir as [Hir|Hir].
    - injection Hir as E1 E2. subst. exists x. split; [left; reflexivity|reflexivity].
    - destruct (IH ss Hir) as [r0 [Hin Er]]. exists r0. split; [right; exact Hin|exact Er]. }
  subst r. unfold line_respects. cbn [fst snd]. apply forallb_forall. intros e He.
  apply filter_In in He. destruct He as [He Hnz].
  rewrite (H b Hb i r0 Hin e He).
  - apply eqb_reflx.
  - unfold nonzero_entry in Hnz. destruct (Z.eqb_spec (snd e) 0); [discriminate|assumption].
Qed.

(* ================================================================ the regression witness *)

Lemma stored_zero_witness :
  exists A sz, wf A = true /\ to_dense A = [[2; 0]; [0; 4]]%Z /\
    block_monotone A sz = false /\
    extract_blocks_unrepaired Numba A sz = Err AssertErr /\
    extract_blocks_unrepaired Python A sz = Err IndexErr /\
    extract_blocks Numba A sz = Ok [[[2]]; [[4]]]%Z /\
    extract_blocks Python A sz = Ok [[[2]]; [[4]]]%Z.
Proof.
  exists {| nmaj := 2; nmin := 2; indptr := [0; 1; 3]; indices := [0; 0; 1]; data := [2; 0; 4]%Z |}, [1; 1].
  vm_compute. repeat split; reflexivity.
Qed.
