(* C42 — uniqueness of the solution of the assembled n-phase system, the n-phase call and the saturated-phase shortcut. *)
From Coq Require Import List Reals Lra Lia Arith Bool.
Import ListNotations.
From PP Require Import Model.C42 Proofs.C42.
Open Scope R_scope.

Definition cterm (r a : R) : R := r * (a - 1).

Lemma phases_le1 y rho : phases y rho -> rsum y <= 1 ->
  rsum (map2 cterm rho y) <= 0.
Proof.
  induction 1 as [|a r y rho Ha Hr Hp IH]; intros Hs; cbn [map2 tsum] in *; [lra|].
  destruct (phases_sums _ _ Hp) as [Hy0 _].
  assert (rsum (map2 cterm rho y) <= 0) by (apply IH; lra).
  unfold cterm at 1. assert (r * (a - 1) <= 0) by nra. lra.
Qed.

(* C = sum_j rho_j (y_j - 1) < 0 for at least two phases on the simplex *)
Lemma C_negative y rho : phases y rho -> rsum y = 1 -> (2 <= length y)%nat ->
  rsum (map2 cterm rho y) < 0.
Proof.
  intros H Hs Hl. destruct H as [|a1 r1 y rho Ha1 Hr1 H]; [cbn in Hl; lia|].
  destruct H as [|a2 r2 y rho Ha2 Hr2 H]; [cbn in Hl; lia|].
  cbn [map2 tsum] in *. destruct (phases_sums _ _ H) as [Hy0 _].
  assert (Hrest : rsum (map2 cterm rho y) <= 0) by (apply phases_le1; [assumption|lra]).
  unfold cterm at 1 2.
  destruct (Rlt_le_dec a1 1) as [Hlt|Hge].
  - assert (r1 * (a1 - 1) < 0) by nra. assert (r2 * (a2 - 1) <= 0) by nra. lra.
  - assert (a2 = 0) by lra. subst a2. assert (r1 * (a1 - 1) <= 0) by nra. lra.
Qed.

Lemma rsum_lin k B : forall y rho, phases y rho ->
  rsum (map2 (fun r a => cterm r a * k + a * B) rho y) = k * rsum (map2 cterm rho y) + B * rsum y.
Proof.
  induction 1 as [|a r y rho Ha Hr _ IH]; cbn [map2 tsum]; [ring|]. rewrite IH. ring.
Qed.

Lemma s_from_products B : forall y rho, phases y rho -> forall s, length s = length y ->
  map2 Rmult rho s = map (fun a => a * B) y ->
  s = map (fun q => q * B) (map2 Rdiv y rho).
Proof.
  induction 1 as [|a r y rho Ha Hr _ IH]; intros s Hl He.
  - destruct s; [reflexivity|discriminate].
  - destruct s as [|x s]; [discriminate|]. cbn [map2 map] in *. injection He as H1 H2.
    f_equal; [|apply IH; [cbn in Hl; lia|exact H2]].
    apply (Rmult_eq_reg_l r); [|lra]. rewrite H1. field. lra.
Qed.

Lemma rsum_scale_r B l : rsum (map (fun q => q * B) l) = rsum l * B.
Proof. induction l as [|a l IH]; cbn [map tsum]; [ring|rewrite IH; ring]. Qed.

Lemma map2_length_eq {A B C} (g : A -> B -> C) : forall l m, length l = length m ->
  length (map2 g l m) = length l.
Proof. induction l as [|a l IH]; intros [|b m] H; cbn in *; try lia. rewrite IH; lia. Qed.

Lemma L2_aux B : forall y rho, length rho = length y ->
  map2 (fun r a => cterm r a * (1 - 1) + a * B) rho y = map (fun a => a * B) y.
Proof.
  induction y as [|a y IH]; intros [|r rho] Hl; cbn [map2 map] in *; try reflexivity; try discriminate.
  f_equal; [ring|apply IH; cbn in Hl; lia].
Qed.

(* THEOREM: every solution of the assembled system is the closed form *)
Lemma system_unique y rho s : phases y rho -> rsum y = 1 -> (2 <= length y)%nat ->
  length s = length y ->
  (forall j, (j < length y)%nat ->
     nth j (mat_vecR (build_matR y rho) s) 0 = nth j (build_rhsR y rho) 0) ->
  s = closedR y rho.
Proof.
  intros H Hy Hn Hls Hsys. pose proof (phases_length _ _ H) as Hlen.
  destruct (phases_sums _ _ H) as [_ [_ HD]]. specialize (HD ltac:(lra)).
  set (A := rsum s). set (B := rdot rho s).
  (* the system, as a list equation *)
  assert (L : map2 Rmult rho s = map2 (fun r a => cterm r a * (1 - A) + a * B) rho y).
  { apply (nth_ext _ _ 0 0).
    - rewrite !map2_length_eq by lia. reflexivity.
    - intros j Hj. rewrite map2_length_eq in Hj by lia.
      assert (Hjy : (j < length y)%nat) by lia.
      specialize (Hsys j Hjy). destruct (phases_nth _ _ H j Hjy) as [Hyj Hrj].
      assert (Hlc : length (combine y rho) = length y) by (rewrite combine_length; lia).
      unfold mat_vecR, mat_vec in Hsys.
      assert (Hlm : length (build_matR y rho) = length y).
      { unfold build_matR, build_mat. rewrite <- Hlc. apply map2_seq_length. }
      rewrite (nth_indep _ 0 (rdot [] s)) in Hsys by (rewrite map_length; lia).
      rewrite (map_nth (fun row => rdot row s)) in Hsys.
      unfold build_matR, build_mat in Hsys. rewrite <- Hlc in Hsys.
      rewrite (nth_map2_seq' _ (combine y rho) 0%nat j (0, 0) []) in Hsys by lia. cbn [plus] in Hsys.
      rewrite combine_nth in Hsys by lia. cbn [fst snd] in Hsys. unfold mat_row in Hsys.
      rewrite (dot_row_ge _ _ j rho s 0%nat) in Hsys by lia. rewrite Nat.sub_0_r in Hsys.
      unfold build_rhsR, build_rhs in Hsys. rewrite (nth_map2 _ rho y j 0 0 0) in Hsys by lia.
      fold A in Hsys. fold B in Hsys.
      rewrite (nth_map2 Rmult rho s j 0 0 0) by lia.
      rewrite (nth_map2 _ rho y j 0 0 0) by lia. unfold cterm. lra. }
  (* summing: (1 - A) C = 0, hence A = 1 *)
  assert (HA : A = 1).
  { pose proof (f_equal rsum L) as Hsum. rewrite (rsum_lin (1 - A) B y rho H), Hy in Hsum.
    change (rsum (map2 Rmult rho s)) with B in Hsum.
    pose proof (C_negative y rho H Hy Hn) as HC.
    assert (Hk : (1 - A) * rsum (map2 cterm rho y) = 0) by lra.
    apply Rmult_integral in Hk. destruct Hk; lra. }
  (* then rho_j s_j = y_j B *)
  assert (L2 : map2 Rmult rho s = map (fun a => a * B) y).
  { rewrite L, HA. apply L2_aux. exact Hlen. }
  pose proof (s_from_products B y rho H s Hls L2) as Hs.
  assert (HB : B * rsum (map2 Rdiv y rho) = 1).
  { rewrite <- HA. unfold A. rewrite Hs at 1. rewrite rsum_scale_r. ring. }
  rewrite Hs. unfold closedR, closed. apply map_ext. intros q.
  replace B with (1 / rsum (map2 Rdiv y rho)); [field; lra|].
  apply (Rmult_eq_reg_r (rsum (map2 Rdiv y rho))); [|lra]. rewrite HB. field. lra.
Qed.
(* the n-phase call *)
Lemma inner_ge3 solve y rho eps : (3 <= length y)%nat -> length rho = length y ->
  compute_saturations_inner R 0 1 Rplus Rminus Rmult Rdiv Rltb Rleb solve y rho eps =
  let saturated := map (fun a => Rleb (1 - eps) a) y in
  if existsb (fun b => b) saturated && negb (Nat.eqb (count saturated) 1) then inl AssertErr
  else if existsb (fun b => b) saturated
       then inr (map (fun b : bool => if b then 1 else 0) saturated)
       else let nv := map (fun a => Rltb eps a) y in
            inr (scatter R 0 nv (solve (build_matR (select nv y) (select nv rho))
                                       (build_rhsR (select nv y) (select nv rho)))).
Proof.
  intros Hl Hr. destruct y as [|a [|b [|c y']]]; cbn in Hl; try lia.
  destruct rho as [|r1 [|r2 [|r3 rho']]]; cbn in Hr; try lia. reflexivity.
Qed.

Lemma no_saturated eps y : Forall (fun a => a < 1 - eps) y ->
  existsb (fun b => b) (map (fun a => Rleb (1 - eps) a) y) = false /\
  count (map (fun a => Rltb (1 - eps) a) y) = 0%nat.
Proof.
  induction 1 as [|a y Ha _ [IH1 IH2]]; [split; reflexivity|].
  unfold count in *. cbn [map existsb filter]. unfold Rleb at 1, Rltb at 1.
  destruct (Rle_dec (1 - eps) a); [lra|]. destruct (Rlt_dec (1 - eps) a); [lra|].
  cbn [orb]. split; assumption.
Qed.

(* present phases: selection by y > eps when every fraction is 0 or > eps *)
Lemma select_present eps : 0 < eps -> forall y rho, phases y rho ->
  Forall (fun a => a = 0 \/ eps < a) y ->
  let nv := map (fun a => Rltb eps a) y in
  phases (select nv y) (select nv rho) /\
  rsum (select nv y) = rsum y /\
  rsum (map2 Rdiv (select nv y) (select nv rho)) = rsum (map2 Rdiv y rho) /\
  (forall P : R -> Prop, Forall P y -> Forall P (select nv y)) /\
  forall D, scatter R 0 nv (map (fun q => q / D) (map2 Rdiv (select nv y) (select nv rho)))
            = map (fun q => q / D) (map2 Rdiv y rho).
Proof.
  intros He y rho H. induction H as [|a r y rho Ha Hr Hp IH]; intros Hf; cbn zeta in *.
  - repeat split; try constructor.
  - inversion Hf as [|? ? Hfa Hf']; subst. destruct (IH Hf') as [I1 [I2 [I3 [I4 I5]]]].
    cbn [map]. destruct (Rltb eps a) eqn:E; unfold Rltb in E; destruct (Rlt_dec eps a) as [Hgt|Hle]; try discriminate; clear E.
    + cbn [select map2 map tsum scatter]. split; [constructor; assumption|].
      split; [rewrite I2; reflexivity|]. split; [rewrite I3; reflexivity|]. split.
      * intros P HP. inversion HP; subst. constructor; [assumption|apply I4; assumption].
      * intros D. rewrite I5. reflexivity.
    + assert (a = 0) by (destruct Hfa; lra). subst a.
      cbn [select map2 map tsum scatter]. split; [assumption|].
      split; [rewrite I2; ring|]. split; [rewrite I3; unfold Rdiv; ring|]. split.
      * intros P HP. inversion HP; subst. apply I4; assumption.
      * intros D. rewrite I5. f_equal. unfold Rdiv. ring.
Qed.

Lemma count_bound t : 0 <= t -> forall s, Forall (fun a => 0 <= a) s ->
  INR (count (map (fun a => Rltb t a) s)) * t <= rsum s.
Proof.
  intros Ht. induction 1 as [|a s Ha _ IH]; unfold count in *; cbn [map filter length tsum]; [cbn; lra|].
  unfold Rltb at 1. destruct (Rlt_dec t a).
  - cbn [filter length]. rewrite S_INR. lra.
  - lra.
Qed.

Lemma at_most_one_large eps s : eps < 1 / 2 -> Forall (fun a => 0 <= a) s -> rsum s = 1 ->
  Nat.ltb 1 (count (map (fun a => Rltb (1 - eps) a) s)) = false.
Proof.
  intros He Hs H1. apply Nat.ltb_ge.
  pose proof (count_bound (1 - eps) ltac:(lra) s Hs) as Hb. rewrite H1 in Hb.
  destruct (le_lt_dec (count (map (fun a => Rltb (1 - eps) a) s)) 1) as [|Hgt]; [assumption|].
  exfalso. unfold lt in Hgt. apply le_INR in Hgt. cbn [INR] in Hgt.
  assert (2 * (1 - eps) <= 1) by nra. lra.
Qed.

Lemma closed_length y rho : length rho = length y -> length (closedR y rho) = length y.
Proof.
  intros H. unfold closedR, closed. rewrite map_length. apply map2_length_eq. lia.
Qed.

Lemma closed_solves_list y rho : phases y rho -> rsum y = 1 ->
  mat_vecR (build_matR y rho) (closedR y rho) = build_rhsR y rho.
Proof.
  intros H Hy. pose proof (phases_length _ _ H) as Hlen.
  assert (Hlm : length (build_matR y rho) = length y).
  { unfold build_matR, build_mat.
    assert (Hlc : length (combine y rho) = length y) by (rewrite combine_length; lia).
    rewrite <- Hlc. apply map2_seq_length. }
  apply (nth_ext _ _ 0 0).
  - unfold mat_vecR, mat_vec, build_rhsR, build_rhs. rewrite map_length, Hlm, map2_length_eq; lia.
  - intros j Hj. unfold mat_vecR, mat_vec in Hj. rewrite map_length, Hlm in Hj.
    apply closed_solves_system; assumption.
Qed.

Section NPhase.
  Variable solve : list (list R) -> list R -> list R.
  (* contract of np.linalg.solve: whenever the system has a solution, a solution is returned *)
  Hypothesis solve_spec : forall M b s, length s = length b -> mat_vecR M s = b ->
    mat_vecR M (solve M b) = b /\ length (solve M b) = length b.

  Lemma n_phase_call y rho eps : phases y rho -> rsum y = 1 -> (3 <= length y)%nat ->
    0 < eps -> eps < 1 / 2 ->
    Forall (fun a => a = 0 \/ eps < a) y -> Forall (fun a => a < 1 - eps) y ->
    satR solve y rho eps = inr (closedR y rho).
  Proof.
    intros H Hy Hn He He2 Hpres Hunsat. pose proof (phases_length _ _ H) as Hlen.
    destruct (no_saturated eps y Hunsat) as [Hex Hcnt].
    destruct (select_present eps He y rho H Hpres) as [Hp' [Hs' [HD' [Hsel Hsc]]]]. cbn zeta in *.
    set (nv := map (fun a => Rltb eps a) y) in *.
    set (y_ := select nv y) in *. set (rho_ := select nv rho) in *.
    pose proof (phases_length _ _ Hp') as Hlen'.
    (* at least two present phases *)
    assert (Hn' : (2 <= length y_)%nat).
    { pose proof (Hsel _ Hunsat) as Hlt. destruct y_ as [|a [|b y'']]; cbn [length]; try lia.
      - cbn in Hs'. lra.
      - cbn in Hs'. inversion Hlt; subst. lra. }
    (* the solver returns the closed form of the present phases *)
    assert (Hsolve : solve (build_matR y_ rho_) (build_rhsR y_ rho_) = closedR y_ rho_).
    { assert (Hlb : length (build_rhsR y_ rho_) = length y_)
        by (unfold build_rhsR, build_rhs; rewrite map2_length_eq by lia; lia).
      destruct (solve_spec (build_matR y_ rho_) (build_rhsR y_ rho_) (closedR y_ rho_)) as [Hsol Hsl].
      - rewrite closed_length, Hlb by lia. reflexivity.
      - apply closed_solves_list; [assumption|lra].
      - apply system_unique; try assumption; try lra; [lia|].
        intros j Hj. rewrite Hsol. reflexivity. }
    assert (Hscat : scatter R 0 nv (closedR y_ rho_) = closedR y rho).
    { unfold closedR, closed. rewrite Hsc, HD'. reflexivity. }
    pose proof (at_most_one_large eps (closedR y rho) He2 (closed_nonneg y rho H Hy)
                  (closed_sum_one y rho H Hy)) as Hfinal.
    unfold satR, compute_saturations.
    rewrite Hlen, Nat.eqb_refl. cbn [negb]. rewrite Hcnt.
    change (Nat.ltb 1 0) with false. cbn iota.
    fold (compute_saturations_inner R 0 1 Rplus Rminus Rmult Rdiv Rltb Rleb solve y rho eps).
    rewrite (inner_ge3 solve y rho eps Hn Hlen). cbn zeta. rewrite Hex. cbn [andb].
    fold nv. fold y_. fold rho_. rewrite Hsolve, Hscat, Hfinal. reflexivity.
  Qed.
End NPhase.
(* ------------------------------------------------------------ the saturated-phase shortcut *)
Definition ind (b : list bool) : list R := map (fun b : bool => if b then 1 else 0) b.
Definition satmask (eps : R) (y : list R) : list bool := map (fun a => Rleb (1 - eps) a) y.

Lemma zero_mask : forall b rho c, length rho = length b -> count b = 0%nat ->
  rsum (map2 Rmult rho (ind b)) = 0 /\
  map (fun a => a / c) (map2 Rmult rho (ind b)) = ind b.
Proof.
  unfold count, ind. induction b as [|[|] b IH]; intros [|r rho] c Hl Hc; cbn in Hl; try lia.
  - split; reflexivity.
  - cbn in Hc. lia.
  - cbn [filter] in Hc. destruct (IH rho c ltac:(lia) Hc) as [I1 I2].
    cbn [map map2 tsum]. rewrite I1, I2. split; [ring|f_equal; unfold Rdiv; ring].
Qed.

Lemma one_mask : forall b rho, length rho = length b -> Forall (fun r => 0 < r) rho ->
  count b = 1%nat -> fractions_ofR (ind b) rho = ind b /\ rsum (ind b) = 1 /\
                     Forall (fun s => 0 <= s) (ind b).
Proof.
  unfold fractions_ofR, fractions_of.
  induction b as [|[|] b IH]; intros [|r rho] Hl Hp Hc; cbn in Hl; try lia.
  - cbn in Hc. lia.
  - inversion Hp as [|? ? Hr Hp']; subst. unfold count in Hc. cbn [filter length] in Hc.
    assert (Hc0 : count b = 0%nat) by (unfold count; lia).
    destruct (zero_mask b rho (r * 1 + 0) ltac:(lia) Hc0) as [Z1 Z2].
    change (ind (true :: b)) with (1 :: ind b). cbn [map2 map tsum]. rewrite Z1, Z2.
    split; [f_equal; field; lra|]. split.
    + clear - Hc0. unfold count, ind in *. induction b as [|[|] b IHb]; cbn in *; try lia; [lra|].
      specialize (IHb Hc0). lra.
    + constructor; [lra|]. clear - Hc0. unfold count, ind in *.
      induction b as [|[|] b IHb]; cbn in *; try lia; constructor; try lra. apply IHb. exact Hc0.
  - inversion Hp as [|? ? Hr Hp']; subst. unfold count in Hc. cbn [filter] in Hc.
    destruct (IH rho ltac:(lia) Hp' Hc) as [I1 [I2 I3]].
    change (ind (false :: b)) with (0 :: ind b). cbn [map2 map tsum].
    replace (r * 0 + rsum (map2 Rmult rho (ind b))) with (rsum (map2 Rmult rho (ind b))) by ring.
    rewrite I1, I2. split; [f_equal; unfold Rdiv; ring|]. split; [ring|constructor; [lra|exact I3]].
Qed.

Lemma count_bound_le t : 0 <= t -> forall s, Forall (fun a => 0 <= a) s ->
  INR (count (map (fun a => Rleb t a) s)) * t <= rsum s.
Proof.
  intros Ht. induction 1 as [|a s Ha _ IH]; unfold count in *; cbn [map filter length tsum]; [cbn; lra|].
  unfold Rleb at 1. destruct (Rle_dec t a).
  - cbn [filter length]. rewrite S_INR. lra.
  - lra.
Qed.

Lemma phases_nonneg y rho : phases y rho -> Forall (fun a => 0 <= a) y /\ Forall (fun r => 0 < r) rho.
Proof. induction 1 as [|a r y rho Ha Hr _ [I1 I2]]; split; constructor; assumption. Qed.

Lemma sat_count eps y j : Forall (fun a => 0 <= a) y -> rsum y = 1 -> eps < 1 / 2 ->
  (j < length y)%nat -> 1 - eps <= nth j y 0 ->
  count (satmask eps y) = 1%nat /\ existsb (fun b => b) (satmask eps y) = true.
Proof.
  intros Hnn Hs He Hj Hsat.
  assert (Hge : (1 <= count (satmask eps y))%nat /\ existsb (fun b => b) (satmask eps y) = true).
  { clear Hs Hnn. revert j Hj Hsat. unfold satmask, count.
    induction y as [|a y IH]; intros j Hj Hsat; [cbn in Hj; lia|].
    cbn [map filter existsb]. destruct j as [|j]; cbn [nth] in Hsat.
    - assert (E : Rleb (1 - eps) a = true) by (unfold Rleb; destruct (Rle_dec (1 - eps) a); [reflexivity|lra]).
      rewrite E. cbn. split; [lia|reflexivity].
    - destruct (IH j ltac:(cbn in Hj; lia) Hsat) as [I1 I2]. rewrite I2, orb_true_r.
      split; [|reflexivity]. destruct (Rleb (1 - eps) a); cbn [length]; lia. }
  destruct Hge as [Hge Hex]. split; [|exact Hex].
  pose proof (count_bound_le (1 - eps) ltac:(lra) y Hnn) as Hb. rewrite Hs in Hb.
  fold (satmask eps y) in Hb.
  destruct (le_lt_dec (count (satmask eps y)) 1) as [|Hgt]; [lia|].
  exfalso. unfold lt in Hgt. apply le_INR in Hgt. cbn [INR] in Hgt.
  assert (2 * (1 - eps) <= 1) by nra. lra.
Qed.

Lemma inner_sat solve y rho eps : (2 <= length y)%nat -> length rho = length y ->
  existsb (fun b => b) (satmask eps y) = true -> count (satmask eps y) = 1%nat ->
  compute_saturations_inner R 0 1 Rplus Rminus Rmult Rdiv Rltb Rleb solve y rho eps
  = inr (ind (satmask eps y)).
Proof.
  intros Hl Hr Hex Hc. destruct y as [|a [|b y']]; cbn in Hl; try lia.
  destruct rho as [|r1 [|r2 rho']]; cbn in Hr; try lia.
  destruct y' as [|c y'']; destruct rho' as [|r3 rho'']; cbn in Hr; try lia.
  - unfold compute_saturations_inner. fold (satmask eps [a; b]). rewrite Hex, Hc. reflexivity.
  - rewrite inner_ge3 by (cbn; lia). cbn zeta. fold (satmask eps (a :: b :: c :: y'')).
    rewrite Hex, Hc. reflexivity.
Qed.

Lemma pair_le_sum : forall y j k, Forall (fun a => 0 <= a) y -> j <> k ->
  (j < length y)%nat -> (k < length y)%nat -> nth j y 0 + nth k y 0 <= rsum y.
Proof.
  assert (single : forall y k, Forall (fun a => 0 <= a) y -> nth k y 0 <= rsum y).
  { induction y as [|a y IH]; intros k Hn; [destruct k; cbn; lra|].
    inversion Hn as [|? ? Ha Hn']; subst. destruct k as [|k]; cbn [nth tsum].
    - assert (0 <= rsum y) by (clear - Hn'; induction Hn'; cbn; lra). lra.
    - specialize (IH k Hn'). lra. }
  induction y as [|a y IH]; intros j k Hn Hne Hj Hk; [cbn in Hj; lia|].
  inversion Hn as [|? ? Ha Hn']; subst.
  destruct j as [|j]; destruct k as [|k]; try lia; cbn [nth tsum].
  - pose proof (single y k Hn'). lra.
  - pose proof (single y j Hn'). lra.
  - specialize (IH j k Hn' ltac:(lia) ltac:(cbn in Hj; lia) ltac:(cbn in Hk; lia)). lra.
Qed.

(* THEOREM: a phase with y_j >= 1 - eps: the call returns the indicator vector of that phase;
   it is non-negative, sums to one, is reproduced exactly by the density-weighted ratios, and
   differs from y by at most eps in every component *)
Lemma saturated_call solve y rho eps j : phases y rho -> rsum y = 1 -> (2 <= length y)%nat ->
  0 < eps -> eps < 1 / 2 -> (j < length y)%nat -> 1 - eps <= nth j y 0 ->
  let s := ind (satmask eps y) in
  satR solve y rho eps = inr s /\
  Forall (fun a => 0 <= a) s /\ rsum s = 1 /\ fractions_ofR s rho = s /\
  forall k, (k < length y)%nat -> Rabs (nth k s 0 - nth k y 0) <= eps.
Proof.
  intros H Hy Hn He He2 Hj Hsat. cbn zeta. pose proof (phases_length _ _ H) as Hlen.
  destruct (phases_nonneg _ _ H) as [Hnn Hpos].
  destruct (sat_count eps y j Hnn Hy He2 Hj Hsat) as [Hc Hex].
  assert (Hlm : length rho = length (satmask eps y)) by (unfold satmask; rewrite map_length; exact Hlen).
  destruct (one_mask (satmask eps y) rho Hlm Hpos Hc) as [Hfr [Hsum Hsnn]].
  split; [|split; [exact Hsnn|split; [exact Hsum|split; [exact Hfr|]]]].
  - unfold satR, compute_saturations. rewrite Hlen, Nat.eqb_refl. cbn [negb].
    rewrite (at_most_one_large eps y He2 Hnn Hy).
    fold (compute_saturations_inner R 0 1 Rplus Rminus Rmult Rdiv Rltb Rleb solve y rho eps).
    rewrite (inner_sat solve y rho eps Hn Hlen Hex Hc).
    rewrite (at_most_one_large eps _ He2 Hsnn Hsum). reflexivity.
  - intros k Hk. unfold ind, satmask. rewrite map_map.
    rewrite (nth_indep _ 0 ((fun a => if Rleb (1 - eps) a then 1 else 0) 0)) by (rewrite map_length; exact Hk).
    rewrite (map_nth (fun a => if Rleb (1 - eps) a then 1 else 0)).
    assert (Hk1 : nth k y 0 <= 1).
    { destruct (Nat.eq_dec j k) as [->|Hne].
      - destruct (Nat.eq_dec k 0) as [->|]; [pose proof (pair_le_sum y 0 1 Hnn ltac:(lia) ltac:(lia) ltac:(lia))|
                                              pose proof (pair_le_sum y k 0 Hnn ltac:(lia) Hk ltac:(lia))];
        rewrite Hy in *;
        [assert (0 <= nth 1 y 0) by (rewrite Forall_forall in Hnn; apply Hnn, nth_In; lia)|
         assert (0 <= nth 0 y 0) by (rewrite Forall_forall in Hnn; apply Hnn, nth_In; lia)]; lra.
      - pose proof (pair_le_sum y j k Hnn Hne Hj Hk). rewrite Hy in *. lra. }
    assert (Hk0 : 0 <= nth k y 0) by (rewrite Forall_forall in Hnn; apply Hnn, nth_In; exact Hk).
    unfold Rleb. destruct (Rle_dec (1 - eps) (nth k y 0)) as [Hs|Hs].
    + apply Rabs_le. lra.
    + destruct (Nat.eq_dec j k) as [->|Hne]; [lra|].
      pose proof (pair_le_sum y j k Hnn Hne Hj Hk). rewrite Hy in *. apply Rabs_le. lra.
Qed.
