(* C42 — proofs about the R instance of the polymorphic model PP.Model.C42 (algebra). *)
From Coq Require Import List Reals Lra Lia Arith Bool.
Import ListNotations.
From PP Require Import Model.C42.
Open Scope R_scope.


(* ------------------------------------------------------------ the R instance *)
Definition Rltb (a b : R) : bool := if Rlt_dec a b then true else false.
Definition Rleb (a b : R) : bool := if Rle_dec a b then true else false.

Notation rsum := (tsum R 0 Rplus).
Notation rdot := (dot R 0 Rplus Rmult).
Definition closedR := closed R 0 Rplus Rdiv.
Definition fractions_ofR := fractions_of R 0 Rplus Rmult Rdiv.
Definition build_matR := build_mat R 0 1 Rminus Rmult.
Definition build_rhsR := build_rhs R 1 Rminus Rmult.
Definition mat_vecR := mat_vec R 0 Rplus Rmult.
Definition dxnR := dxn R 0 1 Rplus Rminus Rmult Rdiv.
Definition normalizeR := normalize R 0 Rplus Rdiv.
Definition normalize_rowsR := normalize_rows R 0 Rplus Rdiv.
Definition chainruleR := chainrule R 0 1 Rplus Rminus Rmult Rdiv.
Definition satR (solve : list (list R) -> list R -> list R) :=
  compute_saturations R 0 1 Rplus Rminus Rmult Rdiv Rltb Rleb solve.

(* hypotheses on the data: equal lengths, positive densities, non-negative fractions *)
Inductive phases : list R -> list R -> Prop :=
| ph_nil : phases [] []
| ph_cons a r y rho : 0 <= a -> 0 < r -> phases y rho -> phases (a :: y) (r :: rho).

Lemma rsum_scale c l : rsum (map (fun a => a / c) l) = rsum l / c.
Proof. induction l as [|a l IH]; cbn [tsum map]; [unfold Rdiv; ring|rewrite IH; unfold Rdiv; ring]. Qed.

Lemma phases_sums y rho : phases y rho ->
  0 <= rsum y /\ 0 <= rsum (map2 Rdiv y rho) /\ (0 < rsum y -> 0 < rsum (map2 Rdiv y rho)).
Proof.
  induction 1 as [|a r y rho Ha Hr _ [IH1 [IH2 IH3]]]; cbn [tsum map2].
  - repeat split; lra.
  - assert (Hq : 0 <= a / r) by (apply Rmult_le_pos; [lra|left; apply Rinv_0_lt_compat; lra]).
    split; [lra|]. split; [lra|]. intros Hs.
    destruct (Rle_lt_or_eq_dec 0 a Ha) as [Hpos|<-].
    + assert (0 < a / r) by (apply Rmult_lt_0_compat; [lra|apply Rinv_0_lt_compat; lra]). lra.
    + assert (0 < rsum (map2 Rdiv y rho)) by (apply IH3; lra). lra.
Qed.

Lemma phases_q_nonneg y rho : phases y rho -> Forall (fun q => 0 <= q) (map2 Rdiv y rho).
Proof.
  induction 1 as [|a r y rho Ha Hr _ IH]; cbn [map2]; constructor; [|exact IH].
  apply Rmult_le_pos; [lra|left; apply Rinv_0_lt_compat; lra].
Qed.

(* THEOREM 1a: saturations are non-negative *)
Lemma closed_nonneg y rho : phases y rho -> rsum y = 1 -> Forall (fun s => 0 <= s) (closedR y rho).
Proof.
  intros H Hy. destruct (phases_sums _ _ H) as [_ [_ HD]]. specialize (HD ltac:(lra)).
  unfold closedR, closed. apply Forall_forall. intros s Hin. apply in_map_iff in Hin.
  destruct Hin as [q [<- Hq]]. pose proof (phases_q_nonneg _ _ H) as Hnn.
  rewrite Forall_forall in Hnn. specialize (Hnn q Hq).
  apply Rmult_le_pos; [lra|left; apply Rinv_0_lt_compat; lra].
Qed.

(* THEOREM 1b: saturations sum to one *)
Lemma closed_sum_one y rho : phases y rho -> rsum y = 1 -> rsum (closedR y rho) = 1.
Proof.
  intros H Hy. destruct (phases_sums _ _ H) as [_ [_ HD]]. specialize (HD ltac:(lra)).
  unfold closedR, closed. rewrite rsum_scale. field. lra.
Qed.

Lemma rho_s_is_y_over_D D : forall y rho, phases y rho ->
  map2 Rmult rho (map (fun a => a / D) (map2 Rdiv y rho)) = map (fun a => a / D) y.
Proof.
  induction 1 as [|a r y rho Ha Hr _ IH]; cbn [map2 map]; [reflexivity|].
  rewrite IH. f_equal.
  replace (r * (a / r / D)) with ((r * / r) * (a / D)) by (unfold Rdiv; ring).
  rewrite Rinv_r by lra. ring.
Qed.

(* THEOREM 1c: the fractions are reproduced as density-weighted saturation ratios *)
Lemma closed_reproduces y rho : phases y rho -> rsum y = 1 ->
  fractions_ofR (closedR y rho) rho = y.
Proof.
  intros H Hy. destruct (phases_sums _ _ H) as [_ [_ HD]]. specialize (HD ltac:(lra)).
  unfold fractions_ofR, fractions_of, closedR, closed.
  set (D := rsum (map2 Rdiv y rho)) in *.
  rewrite (rho_s_is_y_over_D D y rho H), rsum_scale, Hy, map_map.
  rewrite <- (map_id y) at 2. apply map_ext. intros a. field. lra.
Qed.

(* THEOREM 2: the analytic two-phase branch of the code is the closed form *)
Lemma two_phase y0 y1 rho0 rho1 : 0 < rho0 -> 0 < rho1 -> 0 <= y1 -> y1 < 1 -> y0 + y1 = 1 ->
  let s0 := 1 / (1 + y1 / (1 - y1) * (rho0 / rho1)) in
  closedR [y0; y1] [rho0; rho1] = [s0; 1 - s0].
Proof.
  intros H0 H1 Hy1 Hy1' Hs. cbn zeta.
  assert (Hy0 : y0 = 1 - y1) by lra. subst y0.
  assert (Hden : 0 < 1 + y1 / (1 - y1) * (rho0 / rho1)).
  { assert (0 <= y1 / (1 - y1)) by (apply Rmult_le_pos; [lra|left; apply Rinv_0_lt_compat; lra]).
    assert (0 < rho0 / rho1) by (apply Rmult_lt_0_compat; [lra|apply Rinv_0_lt_compat; lra]).
    nra. }
  assert (HD : 0 < (1 - y1) / rho0 + (y1 / rho1 + 0)).
  { assert (0 < (1 - y1) / rho0) by (apply Rmult_lt_0_compat; [lra|apply Rinv_0_lt_compat; lra]).
    assert (0 <= y1 / rho1) by (apply Rmult_le_pos; [lra|left; apply Rinv_0_lt_compat; lra]). lra. }
  unfold closedR, closed. cbn [map2 map tsum].
  assert (Hd2 : (1 - y1) * rho1 + y1 * rho0 <> 0) by nra.
  f_equal; [|f_equal]; field; repeat split; try lra.
Qed.

(* THEOREM 5: normalised rows sum to one *)
Lemma normalize_sum_one x : rsum x <> 0 -> rsum (normalizeR x) = 1.
Proof. intros H. unfold normalizeR, normalize. rewrite rsum_scale. field. exact H. Qed.

Lemma normalize_rows_sum_one m : Forall (fun row => rsum row <> 0) m ->
  Forall (fun row => rsum row = 1) (normalize_rowsR m).
Proof.
  intros H. unfold normalize_rowsR, normalize_rows. apply Forall_forall. intros row Hin.
  apply in_map_iff in Hin. destruct Hin as [r [<- Hr]]. rewrite Forall_forall in H.
  apply (normalize_sum_one r (H r Hr)).
Qed.

Lemma nth_map2 {A B C} (g : A -> B -> C) : forall (l : list A) (m : list B) i da db dc,
  (i < length l)%nat -> (i < length m)%nat ->
  nth i (map2 g l m) dc = g (nth i l da) (nth i m db).
Proof.
  induction l as [|a l IH]; intros m i da db dc Hl Hm; [cbn in Hl; lia|].
  destruct m as [|b m]; [cbn in Hm; lia|]. destruct i as [|i]; cbn [map2 nth]; [reflexivity|].
  apply IH; cbn in Hl, Hm; lia.
Qed.

Lemma nth_map2_seq' {A B} (g : nat -> A -> B) (l : list A) : forall a i d d', (i < length l)%nat ->
  nth i (map2 g (seq a (length l)) l) d' = g (a + i)%nat (nth i l d).
Proof.
  induction l as [|x l IH]; intros a i d d' Hi; [cbn in Hi; lia|].
  cbn [length seq map2]. destruct i as [|i]; cbn [nth].
  - f_equal. lia.
  - rewrite (IH (S a) i d d') by (cbn in Hi; lia). f_equal. lia.
Qed.

Lemma map2_seq_length {A B} (g : nat -> A -> B) (l : list A) : forall a,
  length (map2 g (seq a (length l)) l) = length l.
Proof. induction l as [|x l IH]; intros a; [reflexivity|]. cbn [length seq map2]. rewrite IH. reflexivity. Qed.

(* a row of the assembled matrix times a vector *)
Lemma dot_row_lt c yj j : forall rho s a, (j < a)%nat -> length s = length rho ->
  rdot (map2 (fun k rk => if Nat.eqb k j then 0 else c - rk * yj) (seq a (length rho)) rho) s
  = c * rsum s - yj * rdot rho s.
Proof.
  unfold dot. induction rho as [|r rho IH]; intros s a Hj Hl.
  - destruct s; [cbn; ring|discriminate].
  - destruct s as [|x s]; [discriminate|]. cbn [length seq map2 tsum].
    destruct (Nat.eqb_spec a j); [lia|]. rewrite (IH s (S a)) by (cbn in Hl; lia). ring.
Qed.

Lemma dot_row_ge c yj j : forall rho s a, (a <= j < a + length rho)%nat -> length s = length rho ->
  rdot (map2 (fun k rk => if Nat.eqb k j then 0 else c - rk * yj) (seq a (length rho)) rho) s
  = c * rsum s - yj * rdot rho s - (c - nth (j - a) rho 0 * yj) * nth (j - a) s 0.
Proof.
  induction rho as [|r rho IH]; intros s a Hj Hl; [cbn in Hj; lia|].
  destruct s as [|x s]; [discriminate|].
  unfold dot in *. cbn [length seq map2 tsum].
  destruct (Nat.eqb_spec a j) as [->|Hne].
  - rewrite Nat.sub_diag. cbn [nth].
    pose proof (dot_row_lt c yj j rho s (S j) ltac:(lia) ltac:(cbn in Hl; lia)) as H.
    unfold dot in H. rewrite H. ring.
  - rewrite (IH s (S a)) by (cbn in Hj, Hl; lia).
    replace (j - a)%nat with (S (j - S a)) by lia. cbn [nth]. ring.
Qed.

Lemma phases_length y rho : phases y rho -> length rho = length y.
Proof. induction 1; cbn; lia. Qed.

Lemma phases_nth y rho : phases y rho -> forall j, (j < length y)%nat ->
  0 <= nth j y 0 /\ 0 < nth j rho 0.
Proof.
  induction 1 as [|a r y rho Ha Hr _ IH]; intros j Hj; [cbn in Hj; lia|].
  destruct j as [|j]; cbn [nth]; [split; assumption|]. apply IH. cbn in Hj. lia.
Qed.

(* THEOREM 3: the closed form solves the linear system assembled by the code, row by row *)
Lemma closed_solves_system y rho : phases y rho -> rsum y = 1 ->
  forall j, (j < length y)%nat ->
  nth j (mat_vecR (build_matR y rho) (closedR y rho)) 0 = nth j (build_rhsR y rho) 0.
Proof.
  intros H Hy j Hj. pose proof (phases_length _ _ H) as Hlen.
  destruct (phases_sums _ _ H) as [_ [_ HD]]. specialize (HD ltac:(lra)).
  destruct (phases_nth _ _ H j Hj) as [Hyj Hrj].
  assert (Hlc : length (combine y rho) = length y) by (rewrite combine_length; lia).
  (* left-hand side: row j *)
  unfold mat_vecR, mat_vec.
  assert (Hlm : length (build_matR y rho) = length y).
  { unfold build_matR, build_mat. rewrite <- Hlc. apply map2_seq_length. }
  rewrite (nth_indep _ 0 (rdot [] (closedR y rho))) by (rewrite map_length; lia).
  rewrite (map_nth (fun row => rdot row (closedR y rho))).
  unfold build_matR, build_mat. rewrite <- Hlc.
  rewrite (nth_map2_seq' _ (combine y rho) 0%nat j (0, 0) []) by lia. cbn [plus].
  rewrite combine_nth by lia. cbn [fst snd]. unfold mat_row.
  assert (Hls : length (closedR y rho) = length rho).
  { unfold closedR, closed. rewrite map_length. clear - Hlen. revert rho Hlen.
    induction y as [|a y IH]; intros [|r rho] Hl; cbn in *; try lia. rewrite IH; lia. }
  rewrite (dot_row_ge _ _ j rho (closedR y rho) 0%nat) by lia. rewrite Nat.sub_0_r.
  (* the three quantities *)
  rewrite (closed_sum_one y rho H Hy).
  assert (HB : rdot rho (closedR y rho) = 1 / rsum (map2 Rdiv y rho)).
  { unfold dot, closedR, closed. rewrite (rho_s_is_y_over_D _ y rho H), rsum_scale, Hy. reflexivity. }
  rewrite HB.
  assert (Hsj : nth j (closedR y rho) 0 = nth j y 0 / nth j rho 0 / rsum (map2 Rdiv y rho)).
  { unfold closedR, closed.
    rewrite (nth_indep _ 0 (0 / rsum (map2 Rdiv y rho)))
      by (fold (closed R 0 Rplus Rdiv y rho); fold (closedR y rho); lia).
    rewrite (map_nth (fun a => a / rsum (map2 Rdiv y rho))).
    rewrite (nth_map2 Rdiv y rho j 0 0 0) by lia. reflexivity. }
  rewrite Hsj.
  unfold build_rhsR, build_rhs. rewrite (nth_map2 _ rho y j 0 0 0) by lia.
  field. split; lra.
Qed.

(* the code path for two phases, none saturated: the R instance returns the closed form *)
Lemma two_phase_code solve y0 y1 rho0 rho1 eps :
  0 < eps -> eps < 1 / 2 -> 0 < rho0 -> 0 < rho1 -> 0 <= y1 -> y0 + y1 = 1 ->
  y0 < 1 - eps -> y1 < 1 - eps ->
  satR solve [y0; y1] [rho0; rho1] eps = inr (closedR [y0; y1] [rho0; rho1]).
Proof.
  intros He He2 H0 H1 Hy1 Hs Hy0s Hy1s.
  rewrite (two_phase y0 y1 rho0 rho1 H0 H1 Hy1 ltac:(lra) Hs). cbn zeta.
  set (s0 := 1 / (1 + y1 / (1 - y1) * (rho0 / rho1))).
  assert (Hs0 : 0 < s0 <= 1).
  { assert (0 <= y1 / (1 - y1)) by (apply Rmult_le_pos; [lra|left; apply Rinv_0_lt_compat; lra]).
    assert (0 < rho0 / rho1) by (apply Rmult_lt_0_compat; [lra|apply Rinv_0_lt_compat; lra]).
    assert (Hden : 1 <= 1 + y1 / (1 - y1) * (rho0 / rho1)) by nra.
    set (den := 1 + y1 / (1 - y1) * (rho0 / rho1)) in *.
    assert (Hi1 : / den <= / 1) by (apply Rinv_le_contravar; lra). rewrite Rinv_1 in Hi1.
    assert (Hi2 : 0 < / den) by (apply Rinv_0_lt_compat; lra).
    unfold s0. fold den. unfold Rdiv. lra. }
  unfold satR, compute_saturations, compute_saturations_inner.
  cbn [length Nat.eqb negb map count filter existsb].
  unfold Rltb, Rleb.
  destruct (Rlt_dec (1 - eps) y0); [lra|]. destruct (Rlt_dec (1 - eps) y1); [lra|].
  cbn [filter length Nat.ltb Nat.leb].
  destruct (Rle_dec (1 - eps) y0); [lra|]. destruct (Rle_dec (1 - eps) y1); [lra|].
  cbn [existsb orb andb filter length].
  fold s0. unfold count. cbn [map].
  destruct (Rlt_dec (1 - eps) s0) as [Ha|Ha]; destruct (Rlt_dec (1 - eps) (1 - s0)) as [Hb|Hb];
    cbn [filter length Nat.ltb Nat.leb]; try reflexivity.
  lra.
Qed.
