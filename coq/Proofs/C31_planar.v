(* C31 — points_are_planar with the normal computed by compute_normal: exactly coplanar
   point sets are accepted (or rejected by compute_normal's own errors). *)
From Coq Require Import List QArith Qabs Bool ZArith Arith Lia Lqa Nsatz.
Import ListNotations.
From PP Require Import Model.C28 Model.C31 Proofs.C28.
Open Scope Q_scope.

Definition nonzero3 (m : v3) : Prop :=
  ~ (fst (fst m) == 0 /\ snd (fst m) == 0 /\ snd m == 0).

(* three vectors orthogonal to a non-zero vector have zero triple product *)
Lemma det_perp : forall m a b c, nonzero3 m ->
  dot3 m a == 0 -> dot3 m b == 0 -> dot3 m c == 0 -> dot3 (crs3 a b) c == 0.
Proof.
  intros [[m0 m1] m2] [[a0 a1] a2] [[b0 b1] b2] [[c0 c1] c2]. unfold nonzero3, dot3, crs3.
  cbn [fst snd]. intros Hm Ha Hb Hc.
  set (D := (a1 * b2 - a2 * b1) * c0 + (a2 * b0 - a0 * b2) * c1 + (a0 * b1 - a1 * b0) * c2).
  assert (E0 : D * m0 == 0) by (unfold D; nsatz).
  assert (E1 : D * m1 == 0) by (unfold D; nsatz).
  assert (E2 : D * m2 == 0) by (unfold D; nsatz).
  destruct (Qmult_integral _ _ E0) as [F | F0]; [exact F|].
  destruct (Qmult_integral _ _ E1) as [F | F1]; [exact F|].
  destruct (Qmult_integral _ _ E2) as [F | F2]; [exact F|].
  exfalso. apply Hm. tauto.
Qed.

Definition nlen (l : list v3) : Q := inject_Z (Z.of_nat (length l)).

Lemma dot_sum3 : forall m k pts,
  (forall p, In p pts -> dot3 m p == k) -> dot3 m (sum3 pts) == nlen pts * k.
Proof.
  intros [[m0 m1] m2] k pts. induction pts as [|[[x y] z] r IH]; intro H.
  - unfold nlen. cbn. ring.
  - assert (Hp := H (x, y, z) (or_introl eq_refl)).
    specialize (IH (fun p Hin => H p (or_intror Hin))).
    unfold nlen in *. cbn [length]. rewrite Nat2Z.inj_succ. unfold Z.succ. rewrite inject_Z_plus.
    cbn [sum3 fold_right]. fold (sum3 r). destruct (sum3 r) as [[sx sy] sz].
    unfold dot3 in *. change (inject_Z 1) with 1. lra.
Qed.

Lemma dot_mean3 : forall m k pts, pts <> [] ->
  (forall p, In p pts -> dot3 m p == k) -> dot3 m (mean3 pts) == k.
Proof.
  intros m k pts Hne H. pose proof (dot_sum3 m k pts H) as S.
  unfold mean3. destruct (sum3 pts) as [[sx sy] sz]. fold (nlen pts).
  assert (P : 0 < nlen pts).
  { unfold nlen. destruct pts; [contradiction|]. cbn [length].
    change 0 with (inject_Z 0). rewrite <- Zlt_Qlt. lia. }
  destruct m as [[m0 m1] m2]. unfold dot3 in *.
  assert (E : m0 * (sx / nlen pts) + m1 * (sy / nlen pts) + m2 * (sz / nlen pts)
              == (m0 * sx + m1 * sy + m2 * sz) / nlen pts) by (field; lra).
  rewrite E, S. field. lra.
Qed.

Lemma dot_sub3 : forall m a b, dot3 m (sub3 a b) == dot3 m a - dot3 m b.
Proof. intros [[m0 m1] m2] [[a0 a1] a2] [[b0 b1] b2]. unfold dot3, sub3. ring. Qed.

Lemma dot3_comm : forall a b, dot3 a b == dot3 b a.
Proof. intros [[a0 a1] a2] [[b0 b1] b2]. unfold dot3. ring. Qed.

Lemma sumsq_zero : forall (g : v3 -> Q) pts,
  (forall p, In p pts -> g p == 0) ->
  fold_right (fun p acc => g p * g p + acc) 0 pts == 0.
Proof.
  intros g pts. induction pts as [|p r IH]; intro H; cbn [fold_right]; [reflexivity|].
  rewrite (H p (or_introl eq_refl)), (IH (fun q Hq => H q (or_intror Hq))). ring.
Qed.

Lemma dot3_sq_nonneg : forall n, 0 <= dot3 n n.
Proof. intros [[a b] c]. unfold dot3. nra. Qed.

(* points in a common plane m.p = k (m <> 0): whatever normal compute_normal picks, the
   planarity test accepts *)
Lemma planar_auto_accepts : forall tn tol pts m k,
  nonzero3 m -> (forall p, In p pts -> dot3 m p == k) ->
  match points_are_planar_auto tn tol pts with POk b => b = true | _ => True end.
Proof.
  intros tn tol pts m k Hm Hp. unfold points_are_planar_auto, compute_normal.
  destruct (length pts <=? 2)%nat eqn:EL; [exact I|]. cbv zeta.
  assert (Hne : pts <> []) by (intro E; subst pts; discriminate).
  set (c := mean3 pts). set (v := map (fun p => sub3 p c) pts).
  assert (Hv : forall w, In w v \/ w = (0, 0, 0) -> dot3 m w == 0).
  { intros w [Hin | ->].
    - unfold v in Hin. apply in_map_iff in Hin. destruct Hin as [p [<- Hin]].
      rewrite dot_sub3, (Hp p Hin). unfold c. rewrite (dot_mean3 m k pts Hne Hp). ring.
    - destruct m as [[m0 m1] m2]. unfold dot3. ring. }
  set (i1 := argmax_list (map (fun w => dot3 w w) v)).
  set (v1 := List.nth i1 v (0, 0, 0)).
  assert (H1 : dot3 m v1 == 0).
  { apply Hv. unfold v1. destruct (nth_in_or_default i1 v (0, 0, 0)); [left|right]; assumption. }
  set (crosses := map (fun w => crs3 v1 w) v).
  set (ic := argmax_list (map (fun w => dot3 w w) crosses)).
  set (normal := List.nth ic crosses (0, 0, 0)).
  assert (HN : forall p, In p pts -> dot3 normal (sub3 p c) == 0).
  { intros p Hin.
    assert (Hpc : dot3 m (sub3 p c) == 0).
    { apply Hv. left. unfold v. apply in_map_iff. exists p. split; [reflexivity|exact Hin]. }
    destruct (nth_in_or_default ic crosses (0, 0, 0)) as [Hc | Hc].
    - change (In normal crosses) in Hc. unfold crosses in Hc. apply in_map_iff in Hc.
      destruct Hc as [w [Ew Hw]]. rewrite <- Ew.
      apply (det_perp m v1 w (sub3 p c) Hm H1); [|exact Hpc]. apply Hv. left. exact Hw.
    - change (normal = (0, 0, 0)) in Hc. rewrite Hc.
      destruct (sub3 p c) as [[x y] z]. unfold dot3. ring. }
  clearbody normal. destruct normal as [[n0 n1] n2]. cbv beta iota.
  match goal with |- match (match (if ?b then _ else _) with _ => _ end) with _ => _ end =>
    destruct b end; [exact I|].
  unfold points_are_planar. cbv zeta. fold c. apply Qle_bool_iff.
  rewrite (sumsq_zero (fun p => dot3 (n0, n1, n2) (sub3 p c)) pts HN).
  pose proof (dot3_sq_nonneg (n0, n1, n2)). nra.
Qed.

Lemma planar_auto_too_few : forall tn tol pts,
  (length pts <= 2)%nat <-> points_are_planar_auto tn tol pts = PValueErr.
Proof.
  intros tn tol pts. unfold points_are_planar_auto, compute_normal. split.
  - intro H. apply Nat.leb_le in H. rewrite H. reflexivity.
  - destruct (length pts <=? 2)%nat eqn:E; [intros _; apply Nat.leb_le; exact E|].
    cbv zeta.
    match goal with |- context [List.nth ?i (map (fun w => crs3 ?a w) ?l) ?d] =>
      destruct (List.nth i (map (fun w => crs3 a w) l) d) as [[x y] z] end.
    match goal with |- context [if ?b then NRuntimeErr else _] => destruct b end; discriminate.
Qed.
