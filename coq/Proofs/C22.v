(* C22 — lemmas and proofs about PP.Model.C22. *)
From Coq Require Import List ZArith Bool Arith Lia Sorted Permutation.
Import ListNotations.
From PP Require Import Model.C22.

(* ------------------------------------------------------------------------------------ *)
(* generic list helpers *)
Lemma nth_map_lt {A B} (f : A -> B) (l : list A) (i : nat) (da : A) (db : B) :
  i < length l -> nth i (map f l) db = f (nth i l da).
Proof.
  intros H. rewrite nth_indep with (d' := f da) by (rewrite map_length; exact H).
  apply map_nth.
Qed.

Lemma nth_map_seq {A} (f : nat -> A) (n c : nat) (d : A) :
  c < n -> nth c (map f (seq 0 n)) d = f c.
Proof.
  intros H. rewrite (nth_map_lt f (seq 0 n) c 0 d) by (rewrite seq_length; exact H).
  rewrite seq_nth by exact H. reflexivity.
Qed.

Lemma flat_map_length_const {A B} (f : A -> list B) (l : list A) (n : nat) :
  (forall y, In y l -> length (f y) = n) -> length (flat_map f l) = length l * n.
Proof.
  induction l as [|a t IH]; intros H; cbn; [reflexivity|].
  rewrite app_length, H by (left; reflexivity).
  rewrite IH by (intros y Hy; apply H; right; exact Hy). reflexivity.
Qed.

(* ------------------------------------------------------------------------------------ *)
(* A. extraction *)
Lemma ins_In x l y : In y (ins x l) <-> x = y \/ In y l.
Proof.
  induction l as [|a t IH]; cbn [ins In].
  - tauto.
  - destruct (x <? a) eqn:E1; cbn [In]; [tauto|].
    destruct (x =? a) eqn:E2; cbn [In].
    + apply Nat.eqb_eq in E2. subst. tauto.
    + rewrite IH. tauto.
Qed.

Lemma ins_Forall (P : nat -> Prop) x l : P x -> Forall P l -> Forall P (ins x l).
Proof.
  intros Hx Hl. apply Forall_forall. intros y Hy. apply ins_In in Hy.
  destruct Hy as [<-|Hy]; [exact Hx|]. rewrite Forall_forall in Hl. apply Hl, Hy.
Qed.

Lemma ins_sorted x l : StronglySorted lt l -> StronglySorted lt (ins x l).
Proof.
  induction 1 as [|a t Hs IH Hf]; cbn [ins].
  - constructor; constructor.
  - destruct (x <? a) eqn:E1.
    + apply Nat.ltb_lt in E1. constructor.
      * constructor; assumption.
      * constructor; [exact E1|]. eapply Forall_impl; [|exact Hf]. cbn; intros; lia.
    + destruct (x =? a) eqn:E2.
      * constructor; assumption.
      * apply Nat.ltb_ge in E1. apply Nat.eqb_neq in E2. constructor; [exact IH|].
        apply ins_Forall; [lia|exact Hf].
Qed.

Lemma usort_In l y : In y (usort l) <-> In y l.
Proof.
  induction l as [|a t IH]; cbn; [tauto|]. rewrite ins_In, IH. tauto.
Qed.

Lemma usort_sorted l : StronglySorted lt (usort l).
Proof. induction l as [|a t IH]; cbn; [constructor|apply ins_sorted, IH]. Qed.

Lemma index_of_spec u r :
  In r u -> index_of u r < length u /\ nth (index_of u r) u 0 = r.
Proof.
  induction u as [|x t IH]; cbn; [tauto|]. intros H. destruct (x =? r) eqn:E.
  - apply Nat.eqb_eq in E. split; [lia|exact E].
  - apply Nat.eqb_neq in E. destruct H as [H|H]; [congruence|].
    destruct (IH H) as [H1 H2]. split; [lia|exact H2].
Qed.

Lemma relabel_renumber u (c : col) :
  (forall e, In e c -> In (fst e) u) -> relabel u (renumber u c) = c.
Proof.
  intros H. unfold relabel, renumber. rewrite map_map. rewrite <- (map_id c) at 2.
  apply map_ext_in. intros [r v] He. cbn. f_equal.
  apply (index_of_spec u r). apply (H (r, v) He).
Qed.

Lemma renumber_lt u (c : col) e :
  (forall e, In e c -> In (fst e) u) -> In e (renumber u c) -> fst e < length u.
Proof.
  intros H He. unfold renumber in He. apply in_map_iff in He.
  destruct He as [[r v] [<- Hin]]. cbn. apply (index_of_spec u r), (H (r, v) Hin).
Qed.

Lemma slice_ok m ind s :
  slice m ind = Ok s ->
  s = map (fun j => nth j m []) ind /\ Forall (fun j => j < length m) ind.
Proof.
  unfold slice. destruct (forallb (fun j => j <? length m) ind) eqn:E; [|discriminate].
  intros H; inversion H; subst. split; [reflexivity|].
  rewrite forallb_forall in E. apply Forall_forall. intros j Hj.
  apply E in Hj. apply Nat.ltb_lt in Hj. exact Hj.
Qed.

Lemma slice_total m ind :
  Forall (fun j => j < length m) ind -> slice m ind = Ok (map (fun j => nth j m []) ind).
Proof.
  intros H. unfold slice.
  replace (forallb (fun j => j <? length m) ind) with true; [reflexivity|].
  symmetry. apply forallb_forall. intros j Hj. rewrite Forall_forall in H.
  apply Nat.ltb_lt, H, Hj.
Qed.

Lemma slice_err m ind e :
  slice m ind = Err e -> e = IndexErr /\ exists j, In j ind /\ length m <= j.
Proof.
  unfold slice. destruct (forallb (fun j => j <? length m) ind) eqn:E; [discriminate|].
  intros H; inversion H; subst. split; [reflexivity|].
  assert (Hn : ~ Forall (fun j => j < length m) ind).
  { intros HF. rewrite Forall_forall in HF.
    assert (forallb (fun j => j <? length m) ind = true) as HT.
    { apply forallb_forall. intros j Hj. apply Nat.ltb_lt, HF, Hj. }
    congruence. }
  apply neg_Forall_Exists_neg in Hn; [|intros j; apply lt_dec].
  apply Exists_exists in Hn. destruct Hn as [j [Hj Hlt]]. exists j. split; [exact Hj|lia].
Qed.

Lemma all_rows_In (s : csc) r :
  In r (all_rows s) <-> exists c, In c s /\ In r (map fst c).
Proof. unfold all_rows. apply in_flat_map. Qed.

(* rows of the selected columns *)
Definition rows_of (m : csc) (ind : list nat) (r : nat) : Prop :=
  exists j, In j ind /\ In r (map fst (nth j m [])).

Lemma extract_submatrix_spec m ind sub u :
  extract_submatrix m ind = Ok (sub, u) ->
  Forall (fun j => j < length m) ind /\
  StronglySorted lt u /\
  (forall r, In r u <-> rows_of m ind r) /\
  sub = map (fun j => renumber u (nth j m [])) ind.
Proof.
  unfold extract_submatrix. destruct (slice m ind) as [s|e] eqn:E; [|discriminate].
  apply slice_ok in E. destruct E as [-> HF]. intros H; inversion H; subst; clear H.
  split; [exact HF|]. split; [apply usort_sorted|]. split.
  - intros r. rewrite usort_In, all_rows_In. unfold rows_of. split.
    + intros [c [Hc Hr]]. apply in_map_iff in Hc. destruct Hc as [j [<- Hj]].
      exists j. split; assumption.
    + intros [j [Hj Hr]]. exists (nth j m []). split; [|exact Hr].
      apply in_map_iff. exists j. split; [reflexivity|exact Hj].
  - rewrite map_map. reflexivity.
Qed.

Lemma extract_submatrix_total m ind :
  Forall (fun j => j < length m) ind -> exists sub u, extract_submatrix m ind = Ok (sub, u).
Proof.
  intros H. unfold extract_submatrix. rewrite (slice_total m ind H). eexists; eexists; reflexivity.
Qed.

Lemma extract_submatrix_err m ind e :
  extract_submatrix m ind = Err e -> e = IndexErr /\ exists j, In j ind /\ length m <= j.
Proof.
  unfold extract_submatrix. destruct (slice m ind) as [s|e'] eqn:E; [discriminate|].
  intros H; inversion H; subst. apply (slice_err m ind e E).
Qed.

(* consequences used below, per local column *)
Lemma submatrix_columns m ind u i :
  (forall r, In r u <-> rows_of m ind r) -> i < length ind ->
  let sub := map (fun j => renumber u (nth j m [])) ind in
  nth i sub [] = renumber u (nth (nth i ind 0) m []) /\
  relabel u (nth i sub []) = nth (nth i ind 0) m [] /\
  (forall e, In e (nth i sub []) -> fst e < length u).
Proof.
  intros Hu Hi sub. unfold sub.
  rewrite (nth_map_lt (fun j => renumber u (nth j m [])) ind i 0 []) by exact Hi.
  assert (Hin : forall e, In e (nth (nth i ind 0) m []) -> In (fst e) u).
  { intros e He. apply Hu. exists (nth i ind 0). split; [apply nth_In, Hi|].
    apply in_map, He. }
  split; [reflexivity|]. split.
  - apply relabel_renumber, Hin.
  - intros e He. eapply renumber_lt; [exact Hin|exact He].
Qed.

(* np.sort *)
Lemma insd_perm x l : Permutation (insd x l) (x :: l).
Proof.
  induction l as [|a t IH]; cbn [insd]; [reflexivity|].
  destruct (x <=? a); [reflexivity|].
  rewrite IH. apply perm_swap.
Qed.

Lemma isort_perm l : Permutation (isort l) l.
Proof.
  induction l as [|a t IH]; cbn; [constructor|]. rewrite insd_perm. constructor. exact IH.
Qed.

Lemma insd_sorted x l : StronglySorted le l -> StronglySorted le (insd x l).
Proof.
  induction 1 as [|a t Hs IH Hf]; cbn [insd].
  - constructor; constructor.
  - destruct (x <=? a) eqn:E.
    + apply Nat.leb_le in E. constructor; [constructor; assumption|].
      constructor; [exact E|]. eapply Forall_impl; [|exact Hf]. cbn; intros; lia.
    + apply Nat.leb_gt in E. constructor; [exact IH|].
      eapply Permutation_Forall; [symmetry; apply insd_perm|].
      constructor; [lia|exact Hf].
Qed.

Lemma isort_sorted l : StronglySorted le (isort l).
Proof. induction l as [|a t IH]; cbn; [constructor|apply insd_sorted, IH]. Qed.

(* np.where(mask)[0] *)
Lemma mask_idx_from_In k b j :
  In j (mask_idx_from k b) <-> k <= j /\ nth (j - k) b false = true.
Proof.
  revert k. induction b as [|x t IH]; intros k; cbn.
  - split; [tauto|]. intros [_ H]. destruct (j - k); discriminate.
  - destruct x; cbn; rewrite ?IH.
    + split.
      * intros [->|[H1 H2]]; [rewrite Nat.sub_diag; split; [lia|reflexivity]|].
        split; [lia|]. replace (j - k) with (S (j - S k)) by lia. exact H2.
      * intros [H1 H2]. destruct (Nat.eq_dec k j) as [->|Hne]; [left; reflexivity|].
        right. split; [lia|]. replace (j - k) with (S (j - S k)) in H2 by lia. exact H2.
    + split.
      * intros [H1 H2]. split; [lia|]. replace (j - k) with (S (j - S k)) by lia. exact H2.
      * intros [H1 H2]. destruct (Nat.eq_dec k j) as [->|Hne].
        { rewrite Nat.sub_diag in H2. discriminate. }
        split; [lia|]. replace (j - k) with (S (j - S k)) in H2 by lia. exact H2.
Qed.

Lemma mask_idx_In b j : In j (mask_idx b) <-> nth j b false = true.
Proof.
  unfold mask_idx. rewrite mask_idx_from_In, Nat.sub_0_r. split; [tauto|]. split; [lia|assumption].
Qed.

Lemma mask_idx_from_sorted k b : StronglySorted lt (mask_idx_from k b).
Proof.
  revert k. induction b as [|x t IH]; intros k; cbn; [constructor|].
  destruct x; [|apply IH]. constructor; [apply IH|].
  apply Forall_forall. intros j Hj. apply mask_idx_from_In in Hj. lia.
Qed.

Lemma mask_idx_lt b j : In j (mask_idx b) -> j < length b.
Proof.
  intros H. apply mask_idx_In in H. destruct (lt_dec j (length b)) as [Hl|Hl]; [exact Hl|].
  rewrite nth_overflow in H by lia. discriminate.
Qed.

(* the cells asked for *)
Definition requested (c : cells) : list nat :=
  match c with CIdx l => l | CMask b => mask_idx b end.

Definition faces_of (cf : csc) (cs : list nat) (f : nat) : Prop := rows_of cf cs f.
Definition nodes_of (fn : csc) (fs : list nat) (n : nat) : Prop := rows_of fn fs n.

Record maps_ok (cf fn : csc) (sg : subgrid) : Prop := {
  mo_cells_in : Forall (fun c => c < length cf) (sg_cells sg);
  mo_faces_in : Forall (fun f => f < length fn) (sg_faces sg);
  mo_ncells : length (sg_cf sg) = length (sg_cells sg);
  mo_nfaces : length (sg_fn sg) = length (sg_faces sg);
  mo_faces_sorted : StronglySorted lt (sg_faces sg);
  mo_nodes_sorted : StronglySorted lt (sg_nodes sg);
  mo_faces_exact : forall f, In f (sg_faces sg) <-> faces_of cf (sg_cells sg) f;
  mo_nodes_exact : forall n, In n (sg_nodes sg) <-> nodes_of fn (sg_faces sg) n;
  mo_cell_cols : forall i, i < length (sg_cells sg) ->
      relabel (sg_faces sg) (nth i (sg_cf sg) []) = nth (nth i (sg_cells sg) 0) cf [];
  mo_face_cols : forall j, j < length (sg_faces sg) ->
      relabel (sg_nodes sg) (nth j (sg_fn sg) []) = nth (nth j (sg_faces sg) 0) fn [];
  mo_local_faces : forall i e, i < length (sg_cells sg) -> In e (nth i (sg_cf sg) []) ->
      fst e < length (sg_faces sg);
  mo_local_nodes : forall j e, j < length (sg_faces sg) -> In e (nth j (sg_fn sg) []) ->
      fst e < length (sg_nodes sg)
}.

Lemma extract_idx_maps cf fn c sg : extract_idx cf fn c = Ok sg -> sg_cells sg = c /\ maps_ok cf fn sg.
Proof.
  unfold extract_idx.
  destruct (extract_submatrix cf c) as [[cf_sub uf]|e] eqn:E1; [|discriminate].
  destruct (extract_submatrix fn uf) as [[fn_sub un]|e] eqn:E2; [|discriminate].
  intros H; inversion H; subst; clear H. cbn.
  apply extract_submatrix_spec in E1. destruct E1 as [Hc [Hsf [Hf ->]]].
  apply extract_submatrix_spec in E2. destruct E2 as [Hfin [Hsn [Hn ->]]].
  split; [reflexivity|].
  constructor; cbn; try assumption.
  - apply map_length.
  - apply map_length.
  - intros i Hi. apply (submatrix_columns cf c uf i Hf Hi).
  - intros j Hj. apply (submatrix_columns fn uf un j Hn Hj).
  - intros i e Hi. apply (submatrix_columns cf c uf i Hf Hi).
  - intros j e Hj. apply (submatrix_columns fn uf un j Hn Hj).
Qed.

Lemma extract_subgrid_cells cf fn c sort sg :
  extract_subgrid cf fn c sort = Ok sg ->
  Permutation (sg_cells sg) (requested c) /\
  (sort = true -> StronglySorted le (sg_cells sg)) /\
  (forall b, c = CMask b -> length b = length cf /\ StronglySorted lt (requested c)) /\
  maps_ok cf fn sg.
Proof.
  unfold extract_subgrid. destruct c as [l|b]; cbn [requested].
  - intros H. apply extract_idx_maps in H. destruct H as [Hc Hm]. rewrite Hc.
    split; [|split; [|split]].
    + destruct sort; [apply isort_perm|reflexivity].
    + intros ->. apply isort_sorted.
    + intros b Hb; discriminate.
    + exact Hm.
  - destruct (length b =? length cf) eqn:El; [|discriminate].
    apply Nat.eqb_eq in El.
    intros H. apply extract_idx_maps in H. destruct H as [Hc Hm]. rewrite Hc.
    split; [|split; [|split]].
    + destruct sort; [apply isort_perm|reflexivity].
    + intros ->. apply isort_sorted.
    + intros b' Hb'. inversion Hb'; subst. split; [exact El|apply mask_idx_from_sorted].
    + exact Hm.
Qed.

(* totality on valid input and the error branch *)
Definition wf_grid (cf fn : csc) : Prop :=
  forall c e, In e (nth c cf []) -> fst e < length fn.

Definition valid_cells (cf : csc) (c : cells) : Prop :=
  match c with
  | CIdx l => Forall (fun j => j < length cf) l
  | CMask b => length b = length cf
  end.

Lemma extract_idx_total cf fn c :
  wf_grid cf fn -> Forall (fun j => j < length cf) c -> exists sg, extract_idx cf fn c = Ok sg.
Proof.
  intros Hwf Hc. unfold extract_idx.
  destruct (extract_submatrix_total cf c Hc) as [sub [uf E1]]. rewrite E1.
  apply extract_submatrix_spec in E1. destruct E1 as [_ [_ [Hf _]]].
  assert (Hfin : Forall (fun j => j < length fn) uf).
  { apply Forall_forall. intros f Hin. apply Hf in Hin. destruct Hin as [j [Hj Hr]].
    apply in_map_iff in Hr. destruct Hr as [e [<- He]]. apply (Hwf j e He). }
  destruct (extract_submatrix_total fn uf Hfin) as [sub2 [un E2]]. rewrite E2.
  eexists; reflexivity.
Qed.

Lemma extract_subgrid_total cf fn c sort :
  wf_grid cf fn -> valid_cells cf c -> exists sg, extract_subgrid cf fn c sort = Ok sg.
Proof.
  intros Hwf Hv. unfold extract_subgrid. destruct c as [l|b]; cbn in Hv.
  - apply extract_idx_total; [exact Hwf|]. destruct sort; [|exact Hv].
    eapply Permutation_Forall; [symmetry; apply isort_perm|exact Hv].
  - rewrite Hv, Nat.eqb_refl. apply extract_idx_total; [exact Hwf|].
    assert (H : Forall (fun j => j < length cf) (mask_idx b)).
    { apply Forall_forall. intros j Hj. rewrite <- Hv. apply mask_idx_lt, Hj. }
    destruct sort; [|exact H]. eapply Permutation_Forall; [symmetry; apply isort_perm|exact H].
Qed.

Lemma extract_idx_err cf fn c e :
  wf_grid cf fn -> extract_idx cf fn c = Err e ->
  e = IndexErr /\ exists j, In j c /\ length cf <= j.
Proof.
  intros Hwf. unfold extract_idx.
  destruct (extract_submatrix cf c) as [[cf_sub uf]|e1] eqn:E1.
  - destruct (extract_submatrix fn uf) as [[fn_sub un]|e2] eqn:E2; [discriminate|].
    intros H; inversion H; subst. exfalso.
    apply extract_submatrix_err in E2. destruct E2 as [_ [f [Hf Hge]]].
    apply extract_submatrix_spec in E1. destruct E1 as [_ [_ [Hu _]]].
    apply Hu in Hf. destruct Hf as [j [Hj Hr]]. apply in_map_iff in Hr.
    destruct Hr as [en [<- He]]. specialize (Hwf j en He). lia.
  - intros H; inversion H; subst. apply (extract_submatrix_err cf c e E1).
Qed.

Lemma extract_subgrid_err cf fn c sort e :
  wf_grid cf fn -> extract_subgrid cf fn c sort = Err e ->
  e = IndexErr /\ ~ valid_cells cf c.
Proof.
  intros Hwf. unfold extract_subgrid. destruct c as [l|b]; cbn [valid_cells].
  - intros H. apply (extract_idx_err cf fn _ e Hwf) in H. destruct H as [-> [j [Hj Hge]]].
    split; [reflexivity|]. intros HF. rewrite Forall_forall in HF.
    assert (In j l) as Hl.
    { destruct sort; [|exact Hj]. eapply Permutation_in; [apply isort_perm|exact Hj]. }
    specialize (HF j Hl). lia.
  - destruct (length b =? length cf) eqn:El.
    + apply Nat.eqb_eq in El. intros H. exfalso.
      apply (extract_idx_err cf fn _ e Hwf) in H. destruct H as [_ [j [Hj Hge]]].
      assert (In j (mask_idx b)) as Hl.
      { destruct sort; [|exact Hj]. eapply Permutation_in; [apply isort_perm|exact Hj]. }
      apply mask_idx_lt in Hl. lia.
    + apply Nat.eqb_neq in El. intros H; inversion H; subst. split; [reflexivity|exact El].
Qed.

(* geometry views *)
Section ViewProofs.
  Variable X : Type.
  Variable d : X.

  Lemma take_nodes_nth (nodes : list X) un k :
    k < length un -> nth k (take_nodes d nodes un) d = nth (nth k un 0) nodes d.
  Proof. intros H. unfold take_nodes. apply (nth_map_lt (fun n => nth n nodes d) un k 0 d H). Qed.

  Lemma face_view_relabel (nodes : list X) un (c : col) :
    (forall e, In e c -> fst e < length un) ->
    map (fun e => nth (fst e) (take_nodes d nodes un) d) c
    = map (fun e => nth (fst e) nodes d) (relabel un c).
  Proof.
    intros H. unfold relabel. rewrite map_map. apply map_ext_in. intros e He. cbn.
    apply take_nodes_nth, H, He.
  Qed.

  Lemma views_equal cf fn sg (nodes : list X) :
    maps_ok cf fn sg ->
    let sub_nodes := take_nodes d nodes (sg_nodes sg) in
    (forall j, j < length (sg_faces sg) ->
       face_view d sub_nodes (sg_fn sg) j = face_view d nodes fn (nth j (sg_faces sg) 0)) /\
    (forall i, i < length (sg_cells sg) ->
       cell_view d sub_nodes (sg_cf sg) (sg_fn sg) i
       = cell_view d nodes cf fn (nth i (sg_cells sg) 0)).
  Proof.
    intros Hm sub_nodes.
    assert (HF : forall j, j < length (sg_faces sg) ->
       face_view d sub_nodes (sg_fn sg) j = face_view d nodes fn (nth j (sg_faces sg) 0)).
    { intros j Hj. unfold face_view, sub_nodes.
      rewrite face_view_relabel by (intros e He; apply (mo_local_nodes _ _ _ Hm j e Hj He)).
      rewrite (mo_face_cols _ _ _ Hm j Hj). reflexivity. }
    split; [exact HF|].
    intros i Hi. unfold cell_view.
    rewrite <- (mo_cell_cols _ _ _ Hm i Hi). unfold relabel. rewrite map_map.
    apply map_ext_in. intros e He. cbn. f_equal.
    apply HF. apply (mo_local_faces _ _ _ Hm i e Hi He).
  Qed.
End ViewProofs.

(* ------------------------------------------------------------------------------------ *)
(* B. partition_structured *)
Open Scope Z_scope.

Fixpoint sumZ (l : list Z) : Z := match l with [] => 0 | x :: t => x + sumZ t end.
Definition bit (x : Z) : Prop := 0 <= x <= 1.

Lemma sumZ_nonneg l : Forall (fun x => 0 <= x) l -> 0 <= sumZ l.
Proof. induction 1; cbn; lia. Qed.

Lemma set_one_length l i : length (set_one l i) = length l.
Proof. revert i. induction l as [|x t IH]; intros [|i]; cbn; auto. Qed.

Lemma set_one_bits l i : Forall bit l -> Forall bit (set_one l i).
Proof.
  revert i. induction l as [|x t IH]; intros [|i] H; cbn; auto.
  - inversion H; subst. constructor; [unfold bit; lia|assumption].
  - inversion H; subst. constructor; [assumption|apply IH; assumption].
Qed.

Lemma set_one_sum l i : Forall bit l -> sumZ (set_one l i) <= sumZ l + 1.
Proof.
  revert i. induction l as [|x t IH]; intros [|i] H; cbn [set_one sumZ]; try lia.
  - inversion H as [|? ? Hx Ht]; subst. unfold bit in Hx. lia.
  - inversion H as [|? ? Hx Ht]; subst. specialize (IH i Ht). lia.
Qed.

Lemma set_one_hd_keep l i : hd 0 l = 1 -> hd 0 (set_one l i) = 1.
Proof. destruct l as [|x t]; destruct i; cbn; auto. Qed.

Definition paint (l : list Z) (is : list Z) : list Z :=
  fold_left (fun l i => set_one l (Z.to_nat i)) is l.

Lemma paint_inv is : forall l, Forall bit l ->
  length (paint l is) = length l /\ Forall bit (paint l is) /\
  sumZ (paint l is) <= sumZ l + Z.of_nat (length is) /\
  (hd 0 l = 1 -> hd 0 (paint l is) = 1).
Proof.
  induction is as [|i t IH]; intros l Hl; cbn.
  - repeat split; auto; lia.
  - destruct (IH (set_one l (Z.to_nat i)) (set_one_bits l _ Hl)) as [H1 [H2 [H3 H4]]].
    unfold paint in *. rewrite H1, set_one_length. repeat split; auto.
    + pose proof (set_one_sum l (Z.to_nat i) Hl). lia.
    + intros Hh. apply H4, set_one_hd_keep, Hh.
Qed.

Lemma cumsum_length l acc : length (cumsum_from acc l) = length l.
Proof. revert acc. induction l; intros; cbn; auto. Qed.

Lemma cumsum_bounds l : Forall (fun x => 0 <= x) l -> forall acc,
  Forall (fun y => acc + hd 0 l <= y <= acc + sumZ l) (cumsum_from acc l).
Proof.
  induction 1 as [|x t Hx Ht IH]; intros acc; cbn; [constructor|].
  pose proof (sumZ_nonneg t Ht) as Hs. constructor; [lia|].
  eapply Forall_impl; [|apply (IH (acc + x))]. cbn. intros y Hy.
  assert (0 <= hd 0 t) by (destruct Ht; cbn; lia). lia.
Qed.

Lemma repeat_bits n : Forall bit (repeat 0 n).
Proof. induction n; cbn; constructor; auto. unfold bit; lia. Qed.

Lemma sumZ_repeat0 n : sumZ (repeat 0 n) = 0.
Proof. induction n; cbn; lia. Qed.

Lemma start_indices_spec fine coarse :
  1 <= coarse <= fine ->
  exists rest, start_indices fine coarse = 0 :: rest /\
               Z.of_nat (length (start_indices fine coarse)) <= coarse.
Proof.
  intros H. unfold start_indices.
  set (fpc := fine / coarse).
  assert (Hf : 1 <= fpc) by (apply Z.div_le_lower_bound; lia).
  unfold arange0.
  set (n := Z.to_nat ((fine + fpc - 1) / fpc)).
  assert (Hn : (1 <= n)%nat).
  { assert (1 <= (fine + fpc - 1) / fpc) by (apply Z.div_le_lower_bound; lia).
    unfold n. lia. }
  destruct n as [|n']; [lia|]. cbn [seq map].
  replace (Z.of_nat 0 * fpc) with 0 by lia.
  set (tl := map (fun k => Z.of_nat k * fpc) (seq 1 n')).
  destruct (Z.of_nat (length (0 :: tl)) >? coarse) eqn:E.
  - destruct (Z.to_nat coarse) as [|c'] eqn:Ec; [lia|]. cbn [firstn].
    eexists. split; [reflexivity|]. cbn [length]. rewrite firstn_length. lia.
  - eexists. split; [reflexivity|]. lia.
Qed.

Lemma dim_index_ok fine coarse :
  1 <= coarse <= fine ->
  exists l, dim_index fine coarse = Ok l /\ length l = Z.to_nat fine /\
            Forall (fun x => 0 <= x < coarse) l.
Proof.
  intros H. unfold dim_index.
  assert (Hf : 1 <= fine / coarse) by (apply Z.div_le_lower_bound; lia).
  destruct (coarse <=? 0) eqn:E1; [lia|].
  destruct (fine / coarse =? 0) eqn:E2; [lia|].
  eexists. split; [reflexivity|].
  destruct (start_indices_spec fine coarse H) as [rest [Hs Hl]].
  fold (paint (repeat 0 (Z.to_nat fine)) (start_indices fine coarse)).
  rewrite Hs in *. unfold paint. cbn [fold_left]. fold (paint (set_one (repeat 0 (Z.to_nat fine)) (Z.to_nat 0)) rest).
  set (z := repeat 0 (Z.to_nat fine)).
  assert (Hz : Forall bit z) by apply repeat_bits.
  destruct (paint_inv rest (set_one z (Z.to_nat 0)) (set_one_bits z _ Hz)) as [H1 [H2 [H3 H4]]].
  rewrite set_one_length in H1.
  split.
  - rewrite map_length, cumsum_length, H1. unfold z. apply repeat_length.
  - assert (Hh : hd 0 (paint (set_one z (Z.to_nat 0)) rest) = 1).
    { apply H4. unfold z. destruct (Z.to_nat fine) eqn:Ef; [lia|]. reflexivity. }
    pose proof (set_one_sum z (Z.to_nat 0) Hz) as Hs1.
    unfold z in Hs1 at 2. rewrite sumZ_repeat0 in Hs1.
    cbn [length] in Hl.
    assert (Hnn : Forall (fun x => 0 <= x) (paint (set_one z (Z.to_nat 0)) rest)).
    { eapply Forall_impl; [|exact H2]. unfold bit; cbn; intros; lia. }
    pose proof (cumsum_bounds _ Hnn 0) as Hb.
    apply Forall_forall. intros y Hy. apply in_map_iff in Hy. destruct Hy as [w [<- Hw]].
    rewrite Forall_forall in Hb. specialize (Hb w Hw). cbn beta in Hb. rewrite Hh in Hb. lia.
Qed.

Lemma dim_index_err fine coarse :
  1 <= fine -> fine < coarse -> dim_index fine coarse = Err ValueErr.
Proof.
  intros H1 H2. unfold dim_index. destruct (coarse <=? 0) eqn:E1; [lia|].
  rewrite Z.div_small by lia. reflexivity.
Qed.

Lemma prodZ_cons a l : prodZ (a :: l) = a * prodZ l.
Proof. reflexivity. Qed.

Definition dims_ok (fine coarse : list Z) : Prop :=
  Forall2 (fun f c => 1 <= c <= f) fine coarse.

Theorem structured_partition fine coarse :
  (1 <= length fine <= 3)%nat -> dims_ok fine coarse ->
  exists ids, partition_structured fine coarse = Ok ids /\
              Z.of_nat (length ids) = prodZ fine /\
              Forall (fun p => 0 <= p < prodZ coarse) ids.
Proof.
  intros Hlen Hd. unfold dims_ok in Hd.
  destruct fine as [|f0 [|f1 [|f2 [|f3 fr]]]]; cbn in Hlen; try lia.
  - (* 1-D *)
    inversion Hd as [|? c0 ? cr H0 Hr]; subst. inversion Hr; subst.
    destruct (dim_index_ok f0 c0 H0) as [l [E [Hl Hb]]].
    exists l. cbn [partition_structured]. split; [exact E|]. split.
    + rewrite Hl. unfold prodZ; cbn. lia.
    + unfold prodZ; cbn. eapply Forall_impl; [|exact Hb]. cbn; intros; lia.
  - (* 2-D *)
    inversion Hd as [|? c0 ? cr H0 Hr]; subst. inversion Hr as [|? c1 ? cr' H1 Hr']; subst.
    inversion Hr'; subst.
    destruct (dim_index_ok f0 c0 H0) as [i0 [E0 [Hl0 Hb0]]].
    destruct (dim_index_ok f1 c1 H1) as [i1 [E1 [Hl1 Hb1]]].
    cbn [partition_structured]. rewrite E0, E1. cbn [bind2].
    eexists. split; [reflexivity|]. split.
    + rewrite (flat_map_length_const _ i1 (length i0)) by (intros; apply map_length).
      rewrite Nat2Z.inj_mul, Hl0, Hl1. unfold prodZ; cbn. lia.
    + apply Forall_forall. intros p Hp. apply in_flat_map in Hp.
      destruct Hp as [y [Hy Hp]]. apply in_map_iff in Hp. destruct Hp as [x [<- Hx]].
      rewrite Forall_forall in Hb0, Hb1. specialize (Hb0 x Hx). specialize (Hb1 y Hy).
      unfold prodZ; cbn. nia.
  - (* 3-D *)
    inversion Hd as [|? c0 ? cr H0 Hr]; subst. inversion Hr as [|? c1 ? cr' H1 Hr']; subst.
    inversion Hr' as [|? c2 ? cr'' H2 Hr'']; subst. inversion Hr''; subst.
    destruct (dim_index_ok f0 c0 H0) as [i0 [E0 [Hl0 Hb0]]].
    destruct (dim_index_ok f1 c1 H1) as [i1 [E1 [Hl1 Hb1]]].
    destruct (dim_index_ok f2 c2 H2) as [i2 [E2 [Hl2 Hb2]]].
    cbn [partition_structured]. rewrite E0, E1, E2. cbn [bind2].
    eexists. split; [reflexivity|]. split.
    + rewrite (flat_map_length_const _ i2 (length i1 * length i0)%nat).
      2:{ intros z _. apply flat_map_length_const. intros; apply map_length. }
      rewrite !Nat2Z.inj_mul, Hl0, Hl1, Hl2. unfold prodZ; cbn. lia.
    + apply Forall_forall. intros p Hp. apply in_flat_map in Hp.
      destruct Hp as [z [Hz Hp]]. apply in_flat_map in Hp.
      destruct Hp as [y [Hy Hp]]. apply in_map_iff in Hp. destruct Hp as [x [<- Hx]].
      rewrite Forall_forall in Hb0, Hb1, Hb2.
      specialize (Hb0 x Hx). specialize (Hb1 y Hy). specialize (Hb2 z Hz).
      unfold prodZ; cbn.
      assert (0 <= x + y * c0 < c0 * c1) by nia.
      nia.
Qed.

(* error branch: some coarse dimension exceeds the fine one *)
Theorem structured_partition_error fine coarse :
  (1 <= length fine <= 3)%nat ->
  Forall2 (fun f c => 1 <= c /\ 1 <= f) fine coarse ->
  Exists (fun fc => fst fc < snd fc) (combine fine coarse) ->
  partition_structured fine coarse = Err ValueErr.
Proof.
  intros Hlen Hd Hex.
  assert (Hcase : forall f c, 1 <= c -> 1 <= f ->
            (exists l, dim_index f c = Ok l) \/ (f < c /\ dim_index f c = Err ValueErr)).
  { intros f c Hc Hf. destruct (Z_lt_dec f c) as [Hlt|Hge].
    - right. split; [exact Hlt|apply dim_index_err; lia].
    - left. destruct (dim_index_ok f c) as [l [E _]]; [lia|]. exists l; exact E. }
  assert (Hno : forall f c l, dim_index f c = Ok l -> 1 <= f -> f < c -> False).
  { intros f c l E Hf Hlt. rewrite dim_index_err in E by lia. discriminate. }
  destruct fine as [|f0 [|f1 [|f2 [|f3 fr]]]]; cbn in Hlen; try lia.
  - inversion Hd as [|? c0 ? cr [H0 H0'] Hr]; subst. inversion Hr; subst.
    cbn [combine] in Hex. rewrite Exists_cons, Exists_nil in Hex. destruct Hex as [Hh|[]].
    cbn [fst snd] in Hh. cbn [partition_structured]. apply dim_index_err; lia.
  - inversion Hd as [|? c0 ? cr [H0 H0'] Hr]; subst.
    inversion Hr as [|? c1 ? cr' [H1 H1'] Hr']; subst. inversion Hr'; subst.
    cbn [partition_structured].
    destruct (Hcase f0 c0 H0 H0') as [[l0 E0]|[L0 E0]]; rewrite E0; cbn [bind2]; [|reflexivity].
    destruct (Hcase f1 c1 H1 H1') as [[l1 E1]|[L1 E1]]; rewrite E1; [|reflexivity].
    exfalso. cbn [combine] in Hex. rewrite !Exists_cons, Exists_nil in Hex. cbn [fst snd] in Hex.
    destruct Hex as [Hh|[Hh|[]]];
      [apply (Hno f0 c0 l0 E0 H0' Hh)|apply (Hno f1 c1 l1 E1 H1' Hh)].
  - inversion Hd as [|? c0 ? cr [H0 H0'] Hr]; subst.
    inversion Hr as [|? c1 ? cr' [H1 H1'] Hr']; subst.
    inversion Hr' as [|? c2 ? cr'' [H2 H2'] Hr'']; subst. inversion Hr''; subst.
    cbn [partition_structured].
    destruct (Hcase f0 c0 H0 H0') as [[l0 E0]|[L0 E0]]; rewrite E0; [|reflexivity].
    destruct (Hcase f1 c1 H1 H1') as [[l1 E1]|[L1 E1]]; rewrite E1; cbn [bind2]; [|reflexivity].
    destruct (Hcase f2 c2 H2 H2') as [[l2 E2]|[L2 E2]]; rewrite E2; [|reflexivity].
    exfalso. cbn [combine] in Hex. rewrite !Exists_cons, Exists_nil in Hex. cbn [fst snd] in Hex.
    destruct Hex as [Hh|[Hh|[Hh|[]]]];
      [apply (Hno f0 c0 l0 E0 H0' Hh)|apply (Hno f1 c1 l1 E1 H1' Hh)|apply (Hno f2 c2 l2 E2 H2' Hh)].
Qed.

Close Scope Z_scope.

(* ------------------------------------------------------------------------------------ *)
(* C. overlap *)
Lemma mem_In r l : mem r l = true <-> In r l.
Proof.
  unfold mem. rewrite existsb_exists. split.
  - intros [x [Hx E]]. apply Nat.eqb_eq in E. subst. exact Hx.
  - intros H. exists r. split; [exact H|apply Nat.eqb_refl].
Qed.

Lemma row_hit_spec cols ac r :
  row_hit cols ac r = true <->
  exists a, a < length cols /\ nth a ac false = true /\ In r (nth a cols []).
Proof.
  unfold row_hit. rewrite existsb_exists. split.
  - intros [a [Ha E]]. apply in_seq in Ha. apply andb_true_iff in E. destruct E as [E1 E2].
    apply mem_In in E2. exists a. repeat split; [lia|exact E1|exact E2].
  - intros [a [Ha [E1 E2]]]. exists a. split; [apply in_seq; lia|].
    apply andb_true_iff. split; [exact E1|apply mem_In, E2].
Qed.

Lemma col_hit_spec ar cl :
  col_hit ar cl = true <-> exists r, In r cl /\ nth r ar false = true.
Proof. unfold col_hit. apply existsb_exists. Qed.

Section Overlap.
  Variable cols : list (list nat).
  Variable nrows : nat.
  Variable cell_ind : list nat.

  Let ncells := length cols.
  Definition ov (n : nat) := ov_state cols nrows (init_cells (length cols) cell_ind) n.
  Definition act (n c : nat) : bool := nth c (fst (ov n)) false.
  Definition ract (n r : nat) : bool := nth r (snd (ov n)) false.

  (* cells a and c have a common row (node / face) *)
  Definition share (a c : nat) : Prop :=
    exists r, In r (nth a cols []) /\ In r (nth c cols []).

  Definition rows_in_range : Prop :=
    forall c r, In r (nth c cols []) -> r < nrows.

  Lemma ov_S n : ov (S n) = ov_step cols nrows (ov n).
  Proof. reflexivity. Qed.

  Lemma ov_lengths n : length (fst (ov n)) = length cols /\ length (snd (ov n)) = nrows.
  Proof.
    induction n as [|n IH].
    - unfold ov; cbn. unfold init_cells. rewrite map_length, seq_length, repeat_length. auto.
    - rewrite ov_S. destruct (ov n) as [ac ar]. cbn.
      rewrite !map_length, !seq_length. auto.
  Qed.

  Lemma ract_S n r : r < nrows -> ract (S n) r = ract n r || row_hit cols (fst (ov n)) r.
  Proof.
    intros H. unfold ract. rewrite ov_S. destruct (ov n) as [ac ar]. cbn.
    apply (nth_map_seq (fun r => nth r ar false || row_hit cols ac r) nrows r false H).
  Qed.

  Lemma act_S n c : c < length cols ->
    act (S n) c = act n c || col_hit (snd (ov (S n))) (nth c cols []).
  Proof.
    intros H. unfold act. rewrite ov_S. destruct (ov n) as [ac ar]. cbn.
    apply (nth_map_seq (fun c => nth c ac false || col_hit _ (nth c cols [])) (length cols) c false H).
  Qed.

  Lemma act_range n c : act n c = true -> c < length cols.
  Proof.
    intros H. destruct (lt_dec c (length cols)) as [Hl|Hl]; [exact Hl|].
    unfold act in H. rewrite nth_overflow in H; [discriminate|].
    destruct (ov_lengths n) as [L _]. lia.
  Qed.

  Lemma ract_range n r : ract n r = true -> r < nrows.
  Proof.
    intros H. destruct (lt_dec r nrows) as [Hl|Hl]; [exact Hl|].
    unfold ract in H. rewrite nth_overflow in H; [discriminate|].
    destruct (ov_lengths n) as [_ L]. lia.
  Qed.

  Lemma act_0 c : c < length cols -> act 0 c = mem c cell_ind.
  Proof.
    intros H. unfold act, ov; cbn. unfold init_cells.
    apply (nth_map_seq (fun c => mem c cell_ind) (length cols) c false H).
  Qed.

  Lemma act_mono n c : act n c = true -> act (S n) c = true.
  Proof.
    intros H. rewrite act_S by (apply (act_range n), H). rewrite H. reflexivity.
  Qed.

  Lemma act_mono_le n m c : n <= m -> act n c = true -> act m c = true.
  Proof. intros Hle Ha. induction Hle as [|m Hle IH]; [exact Ha|apply act_mono, IH]. Qed.

  Lemma act_neighbours n a c :
    rows_in_range -> c < length cols -> act n a = true -> share a c -> act (S n) c = true.
  Proof.
    intros Hr Hc Ha [r [Hra Hrc]]. rewrite act_S by exact Hc.
    apply orb_true_iff. right. apply col_hit_spec. exists r. split; [exact Hrc|].
    fold (ract (S n) r). rewrite ract_S by (apply (Hr a), Hra).
    apply orb_true_iff. right. apply row_hit_spec.
    exists a. split; [apply (act_range n), Ha|]. split; [exact Ha|exact Hra].
  Qed.

  (* every active row belongs to an active cell *)
  Lemma ract_inv n r : ract n r = true -> exists a, act n a = true /\ In r (nth a cols []).
  Proof.
    revert r. induction n as [|n IH]; intros r H.
    - unfold ract, ov in H; cbn in H.
      assert (nth r (repeat false nrows) false = false) as E.
      { destruct (lt_dec r nrows) as [Hl|Hl].
        - apply nth_repeat.
        - apply nth_overflow. rewrite repeat_length. lia. }
      congruence.
    - pose proof (ract_range _ _ H) as Hl. rewrite ract_S in H by exact Hl.
      apply orb_true_iff in H. destruct H as [H|H].
      + destruct (IH r H) as [a [Ha Hin]]. exists a. split; [apply act_mono, Ha|exact Hin].
      + apply row_hit_spec in H. destruct H as [a [_ [Ha Hin]]].
        exists a. split; [apply act_mono; exact Ha|exact Hin].
  Qed.

  Lemma act_exact n c :
    act (S n) c = true -> act n c = true \/ exists a, act n a = true /\ share a c.
  Proof.
    intros H. pose proof (act_range _ _ H) as Hc. rewrite act_S in H by exact Hc.
    apply orb_true_iff in H. destruct H as [H|H]; [left; exact H|].
    apply col_hit_spec in H. destruct H as [r [Hrc Hr]].
    fold (ract (S n) r) in Hr.
    pose proof (ract_range _ _ Hr) as Hl. rewrite ract_S in Hr by exact Hl.
    apply orb_true_iff in Hr. destruct Hr as [Hr|Hr].
    - destruct (ract_inv n r Hr) as [a [Ha Hin]]. right. exists a. split; [exact Ha|].
      exists r. split; assumption.
    - apply row_hit_spec in Hr. destruct Hr as [a [_ [Ha Hin]]]. right. exists a.
      split; [exact Ha|]. exists r. split; assumption.
  Qed.

  Lemma filter_seq_sorted (p : nat -> bool) s n : StronglySorted lt (filter p (seq s n)).
  Proof.
    revert s. induction n as [|n IH]; intros s; cbn; [constructor|].
    destruct (p s); [|apply IH]. constructor; [apply IH|].
    apply Forall_forall. intros x Hx. apply filter_In in Hx. destruct Hx as [Hx _].
    apply in_seq in Hx. lia.
  Qed.

  Lemma overlap_spec n l :
    overlap cols nrows cell_ind n = Ok l ->
    Forall (fun c => c < length cols) cell_ind /\
    StronglySorted lt l /\ (forall c, In c l <-> act n c = true).
  Proof.
    unfold overlap. destruct (forallb (fun c => c <? length cols) cell_ind) eqn:E; [|discriminate].
    intros H; inversion H; subst; clear H. split; [|split].
    - rewrite forallb_forall in E. apply Forall_forall. intros c Hc.
      apply Nat.ltb_lt, E, Hc.
    - apply filter_seq_sorted.
    - intros c. rewrite filter_In, in_seq. fold (ov n). fold (act n c). split; [tauto|].
      intros Ha. split; [|exact Ha]. pose proof (act_range _ _ Ha). lia.
  Qed.

  Lemma overlap_total n :
    Forall (fun c => c < length cols) cell_ind -> exists l, overlap cols nrows cell_ind n = Ok l.
  Proof.
    intros H. unfold overlap.
    replace (forallb (fun c => c <? length cols) cell_ind) with true; [eexists; reflexivity|].
    symmetry. apply forallb_forall. intros c Hc. rewrite Forall_forall in H.
    apply Nat.ltb_lt, H, Hc.
  Qed.

  Lemma overlap_err n e :
    overlap cols nrows cell_ind n = Err e ->
    e = IndexErr /\ ~ Forall (fun c => c < length cols) cell_ind.
  Proof.
    unfold overlap. destruct (forallb (fun c => c <? length cols) cell_ind) eqn:E; [discriminate|].
    intros H; inversion H; subst. split; [reflexivity|]. intros HF.
    assert (forallb (fun c => c <? length cols) cell_ind = true) as HT.
    { apply forallb_forall. intros c Hc. rewrite Forall_forall in HF. apply Nat.ltb_lt, HF, Hc. }
    congruence.
  Qed.
End Overlap.

(* ------------------------------------------------------------------------------------ *)
(* statements in the form used by Props/C22.v *)
Lemma maps_theorem (cf fn : csc) (c : cells) (sort : bool) (sg : subgrid) :
  extract_subgrid cf fn c sort = Ok sg ->
  let cs := sg_cells sg in let uf := sg_faces sg in let un := sg_nodes sg in
  (* the cells: those asked for, sorted when asked (a mask always gives increasing cells) *)
  Permutation cs (requested c) /\ (sort = true -> StronglySorted le cs) /\
  Forall (fun k => k < length cf) cs /\
  (* sizes *)
  length (sg_cf sg) = length cs /\ length (sg_fn sg) = length uf /\
  (* the maps are strictly increasing (hence injective) *)
  StronglySorted lt uf /\ StronglySorted lt un /\
  (* they consist exactly of the faces of the cells / the nodes of those faces *)
  (forall f, In f uf <-> exists k, In k cs /\ In f (map fst (nth k cf []))) /\
  (forall n, In n un <-> exists f, In f uf /\ In n (map fst (nth f fn []))) /\
  (* local cell i is parent cell cs[i]: same faces (through the face map), same signs,
     same stored order; all its local face numbers are valid *)
  (forall i, i < length cs ->
     relabel uf (nth i (sg_cf sg) []) = nth (nth i cs 0) cf [] /\
     Forall (fun e => fst e < length uf) (nth i (sg_cf sg) [])) /\
  (* local face j is parent face uf[j]: same nodes (through the node map), same order *)
  (forall j, j < length uf ->
     relabel un (nth j (sg_fn sg) []) = nth (nth j uf 0) fn [] /\
     Forall (fun e => fst e < length un) (nth j (sg_fn sg) [])).
Proof.
  intros H cs uf un. apply extract_subgrid_cells in H. destruct H as [Hp [Hs [_ Hm]]].
  split; [exact Hp|]. split; [exact Hs|]. split; [apply (mo_cells_in _ _ _ Hm)|].
  split; [apply (mo_ncells _ _ _ Hm)|]. split; [apply (mo_nfaces _ _ _ Hm)|].
  split; [apply (mo_faces_sorted _ _ _ Hm)|]. split; [apply (mo_nodes_sorted _ _ _ Hm)|].
  split; [apply (mo_faces_exact _ _ _ Hm)|]. split; [apply (mo_nodes_exact _ _ _ Hm)|].
  split.
  - intros i Hi. split; [apply (mo_cell_cols _ _ _ Hm i Hi)|].
    apply Forall_forall. intros e He. apply (mo_local_faces _ _ _ Hm i e Hi He).
  - intros j Hj. split; [apply (mo_face_cols _ _ _ Hm j Hj)|].
    apply Forall_forall. intros e He. apply (mo_local_nodes _ _ _ Hm j e Hj He).
Qed.

Lemma extract_total_theorem (cf fn : csc) (c : cells) (sort : bool) :
  wf_grid cf fn ->
  (valid_cells cf c -> exists sg, extract_subgrid cf fn c sort = Ok sg) /\
  (forall e, extract_subgrid cf fn c sort = Err e -> e = IndexErr /\ ~ valid_cells cf c).
Proof.
  intros Hwf. split.
  - apply extract_subgrid_total, Hwf.
  - intros e. apply extract_subgrid_err, Hwf.
Qed.

Lemma geometry_theorem (X : Type) (d : X) (nodes : list X) (cf fn : csc) (c : cells)
      (sort : bool) (sg : subgrid) :
  extract_subgrid cf fn c sort = Ok sg ->
  let sub_nodes := take_nodes d nodes (sg_nodes sg) in
  (forall j, j < length (sg_faces sg) ->
     face_view d sub_nodes (sg_fn sg) j = face_view d nodes fn (nth j (sg_faces sg) 0)) /\
  (forall i, i < length (sg_cells sg) ->
     cell_view d sub_nodes (sg_cf sg) (sg_fn sg) i
     = cell_view d nodes cf fn (nth i (sg_cells sg) 0)) /\
  (* hence every per-face / per-cell functional agrees *)
  (forall (T : Type) (F : list X -> T) j, j < length (sg_faces sg) ->
     F (face_view d sub_nodes (sg_fn sg) j) = F (face_view d nodes fn (nth j (sg_faces sg) 0))) /\
  (forall (T : Type) (G : list (Z * list X) -> T) i, i < length (sg_cells sg) ->
     G (cell_view d sub_nodes (sg_cf sg) (sg_fn sg) i)
     = G (cell_view d nodes cf fn (nth i (sg_cells sg) 0))).
Proof.
  intros H sub_nodes. apply extract_subgrid_cells in H. destruct H as [_ [_ [_ Hm]]].
  destruct (views_equal X d cf fn sg nodes Hm) as [HF HC].
  split; [exact HF|]. split; [exact HC|]. split.
  - intros T F j Hj. f_equal. apply HF, Hj.
  - intros T G i Hi. f_equal. apply HC, Hi.
Qed.

Lemma overlap_theorem (cols : list (list nat)) (nrows : nat) (cell_ind : list nat) :
  rows_in_range cols nrows ->
  Forall (fun c => c < length cols) cell_ind ->
  forall n, exists l,
    overlap cols nrows cell_ind n = Ok l /\
    StronglySorted lt l /\ Forall (fun c => c < length cols) l /\
    (* layer 0 is the initial set *)
    (n = 0 -> forall c, In c l <-> In c cell_ind) /\
    (* the next layer: contains this one, contains every cell sharing a row (node/face)
       with a cell of this one, and nothing else *)
    forall l', overlap cols nrows cell_ind (S n) = Ok l' ->
      incl l l' /\
      (forall a c, In a l -> c < length cols -> share cols a c -> In c l') /\
      (forall c, In c l' -> In c l \/ exists a, In a l /\ share cols a c).
Proof.
  intros Hr Hv n. destruct (overlap_total cols nrows cell_ind n Hv) as [l E].
  exists l. split; [exact E|]. apply overlap_spec in E. destruct E as [_ [Hs Hl]].
  split; [exact Hs|]. split.
  { apply Forall_forall. intros c Hc. apply Hl in Hc. apply (act_range _ _ _ _ _ Hc). }
  split.
  { intros -> c. rewrite Hl. split.
    - intros Ha. pose proof (act_range _ _ _ _ _ Ha) as Hc.
      rewrite act_0 in Ha by exact Hc. apply mem_In, Ha.
    - intros Hin. rewrite Forall_forall in Hv. rewrite act_0 by (apply Hv, Hin).
      apply mem_In, Hin. }
  intros l' E'. apply overlap_spec in E'. destruct E' as [_ [_ Hl']]. split; [|split].
  - intros c Hc. apply Hl'. apply act_mono. apply Hl, Hc.
  - intros a c Ha Hc Hsh. apply Hl'. eapply act_neighbours; eauto. apply Hl, Ha.
  - intros c Hc. apply Hl' in Hc. apply act_exact in Hc. destruct Hc as [Hc|[a [Ha Hsh]]].
    + left. apply Hl, Hc.
    + right. exists a. split; [apply Hl, Ha|exact Hsh].
Qed.

Lemma overlap_monotone_theorem (cols : list (list nat)) (nrows : nat) (cell_ind : list nat)
      (n m : nat) (l l' : list nat) :
  n <= m -> overlap cols nrows cell_ind n = Ok l -> overlap cols nrows cell_ind m = Ok l' ->
  incl cell_ind l /\ incl l l'.
Proof.
  intros Hle E E'. apply overlap_spec in E. destruct E as [Hv [_ Hl]].
  apply overlap_spec in E'. destruct E' as [_ [_ Hl']]. split.
  - intros c Hc. apply Hl. apply (act_mono_le cols nrows cell_ind 0 n c); [lia|].
    rewrite Forall_forall in Hv. rewrite act_0 by (apply Hv, Hc). apply mem_In, Hc.
  - intros c Hc. apply Hl'. apply (act_mono_le cols nrows cell_ind n m c Hle). apply Hl, Hc.
Qed.

Lemma overlap_error_theorem (cols : list (list nat)) (nrows : nat) (cell_ind : list nat) (n : nat) :
  (Forall (fun c => c < length cols) cell_ind -> exists l, overlap cols nrows cell_ind n = Ok l) /\
  (forall e, overlap cols nrows cell_ind n = Err e ->
     e = IndexErr /\ ~ Forall (fun c => c < length cols) cell_ind).
Proof.
  split; [apply overlap_total|]. intros e. apply overlap_err.
Qed.
