(* C29 — proofs about the splitting model (PP.Model.C29).
   Part 1: list utilities (indexing, np.unique, argsort, consecutive pairs, edge
   uniquification), geometry on a segment (parameters, convexity, chains), greedy
   point uniquification under the "equal or at least tol apart" guard. *)
From Coq Require Import List QArith Qabs Bool Arith ZArith Lia Lqa Permutation Sorted.
Import ListNotations.
From PP Require Import Model.C28 Proofs.C28 Model.C29.
Open Scope Q_scope.

(* ------------------------------------------------------------------ indexed lists *)
Lemma in_indexed_from : forall {A} (l : list A) s k x,
  In (k, x) (indexed_from s l) <-> (s <= k)%nat /\ nth_error l (k - s) = Some x.
Proof.
  induction l as [|y r IH]; intros s k x; cbn [indexed_from].
  - split; [intros []|]. intros [_ H]. destruct (k - s)%nat; discriminate.
  - split.
    + intros [E|H].
      * inversion E; subst. split; [lia|]. replace (k - k)%nat with 0%nat by lia. reflexivity.
      * apply IH in H. destruct H as [L H]. split; [lia|].
        replace (k - s)%nat with (S (k - S s)) by lia. exact H.
    + intros [L H]. destruct (Nat.eq_dec k s) as [->|N].
      * replace (s - s)%nat with 0%nat in H by lia. cbn in H. inversion H. left. reflexivity.
      * right. apply IH. split; [lia|].
        replace (k - s)%nat with (S (k - S s)) in H by lia. exact H.
Qed.

Lemma in_indexed : forall {A} (l : list A) k x,
  In (k, x) (indexed l) <-> nth_error l k = Some x.
Proof.
  intros A l k x. unfold indexed. rewrite in_indexed_from. rewrite Nat.sub_0_r.
  split; [intros [_ H]; exact H|intro H; split; [lia|exact H]].
Qed.

Lemma indexed_fun : forall {A} (l : list A) k x y,
  In (k, x) (indexed l) -> In (k, y) (indexed l) -> x = y.
Proof.
  intros A l k x y H1 H2. apply in_indexed in H1, H2. congruence.
Qed.

(* ------------------------------------------------------------------ np.unique of indices *)
Lemma uins_in : forall x l y, In y (uins x l) <-> y = x \/ In y l.
Proof.
  intros x l y. induction l as [|z r IH]; cbn [uins].
  - cbn. intuition.
  - destruct (x <? z)%nat eqn:E1; [cbn; intuition|].
    destruct (x =? z)%nat eqn:E2.
    + apply Nat.eqb_eq in E2. subst. cbn. intuition.
    + cbn [In]. rewrite IH. intuition.
Qed.

Lemma usort_in : forall l y, In y (usort l) <-> In y l.
Proof.
  induction l as [|x r IH]; intro y; cbn [usort fold_right]; [tauto|].
  fold (usort r). rewrite uins_in, IH. cbn. intuition.
Qed.

Lemma uins_sorted : forall x l, StronglySorted lt l -> StronglySorted lt (uins x l).
Proof.
  intros x l S. induction S as [|z r S IH F]; cbn [uins].
  - constructor; constructor.
  - destruct (x <? z)%nat eqn:E1.
    + apply Nat.ltb_lt in E1. constructor; [constructor; assumption|].
      constructor; [exact E1|]. eapply Forall_impl; [|exact F]. intros a Ha. cbn in Ha. lia.
    + apply Nat.ltb_ge in E1. destruct (x =? z)%nat eqn:E2.
      * constructor; assumption.
      * apply Nat.eqb_neq in E2. constructor; [exact IH|].
        apply Forall_forall. intros a Ha. apply uins_in in Ha. destruct Ha as [->|Ha].
        -- lia.
        -- rewrite Forall_forall in F. apply F. exact Ha.
Qed.

Lemma usort_sorted : forall l, StronglySorted lt (usort l).
Proof.
  induction l as [|x r IH]; cbn [usort fold_right]; [constructor|].
  apply uins_sorted. exact IH.
Qed.

Lemma ssorted_lt_nodup : forall l, StronglySorted lt l -> NoDup l.
Proof.
  intros l S. induction S as [|z r S IH F]; constructor; [|exact IH].
  intro H. rewrite Forall_forall in F. apply F in H. lia.
Qed.

(* ------------------------------------------------------------------ argsort *)
Lemma qins_perm : forall key x l, Permutation (qins key x l) (x :: l).
Proof.
  intros key x l. induction l as [|y r IH]; cbn [qins]; [apply Permutation_refl|].
  destruct (Qle_bool (key x) (key y)); [apply Permutation_refl|].
  eapply perm_trans; [apply perm_skip; exact IH|apply perm_swap].
Qed.

Lemma qsort_perm : forall key l, Permutation (qsort key l) l.
Proof.
  intros key l. induction l as [|x r IH]; cbn [qsort fold_right]; [constructor|].
  fold (qsort key r). eapply perm_trans; [apply qins_perm|]. apply perm_skip. exact IH.
Qed.

Lemma qsort_in : forall key l y, In y (qsort key l) <-> In y l.
Proof.
  intros key l y. split; intro H.
  - eapply Permutation_in; [apply qsort_perm|exact H].
  - eapply Permutation_in; [apply Permutation_sym; apply qsort_perm|exact H].
Qed.

Definition kle (key : nat -> Q) (a b : nat) : Prop := key a <= key b.

Lemma qins_sorted : forall key x l,
  StronglySorted (kle key) l -> StronglySorted (kle key) (qins key x l).
Proof.
  intros key x l S. induction S as [|y r S IH F]; cbn [qins].
  - constructor; constructor.
  - destruct (Qle_bool (key x) (key y)) eqn:E.
    + apply Qle_bool_iff in E. constructor; [constructor; assumption|].
      constructor; [exact E|]. eapply Forall_impl; [|exact F].
      intros a Ha. unfold kle in *. lra.
    + apply qleb_false in E. constructor; [exact IH|].
      apply Forall_forall. intros a Ha.
      eapply Permutation_in in Ha; [|apply qins_perm]. destruct Ha as [<-|Ha].
      * unfold kle. lra.
      * rewrite Forall_forall in F. apply F. exact Ha.
Qed.

Lemma qsort_sorted : forall key l, StronglySorted (kle key) (qsort key l).
Proof.
  intros key l. induction l as [|x r IH]; cbn [qsort fold_right]; [constructor|].
  apply qins_sorted. exact IH.
Qed.

Lemma ssorted_weaken_in : forall {A} (R R' : A -> A -> Prop) l,
  StronglySorted R l ->
  (forall a b, In a l -> In b l -> R a b -> R' a b) ->
  StronglySorted R' l.
Proof.
  intros A R R' l S. induction S as [|x r S IH F]; intro H; constructor.
  - apply IH. intros a b Ha Hb. apply H; right; assumption.
  - rewrite Forall_forall in *. intros b Hb. apply H; [left; reflexivity|right; exact Hb|].
    apply F. exact Hb.
Qed.

(* ------------------------------------------------------------------ consecutive pairs *)
Lemma cpairs_in : forall {A} (l : list A) a b, In (a, b) (cpairs l) -> In a l /\ In b l.
Proof.
  induction l as [|x r IH]; intros a b H; cbn [cpairs] in H; [destruct H|].
  destruct r as [|y r']; [destruct H|].
  destruct H as [E|H].
  - inversion E; subst. split; [left; reflexivity|right; left; reflexivity].
  - apply IH in H. destruct H. split; right; assumption.
Qed.

Lemma cpairs_neq : forall (l : list nat) a b, NoDup l -> In (a, b) (cpairs l) -> a <> b.
Proof.
  induction l as [|x r IH]; intros a b N H; cbn [cpairs] in H; [destruct H|].
  destruct r as [|y r']; [destruct H|].
  inversion N as [|? ? Nx Nr]; subst.
  destruct H as [E|H].
  - inversion E; subst. intro E'. subst. apply Nx. left. reflexivity.
  - apply IH; assumption.
Qed.

(* ------------------------------------------------------------------ edge uniquification *)
Lemma same_key_refl : forall c, same_key c c = true.
Proof. intro c. unfold same_key. rewrite !Nat.eqb_refl. reflexivity. Qed.

Lemma same_key_iff : forall c d, same_key c d = true <-> cA c = cA d /\ cB c = cB d.
Proof.
  intros c d. unfold same_key. rewrite andb_true_iff, !Nat.eqb_eq. tauto.
Qed.

Lemma dedup_in : forall l c, In c (dedup l) -> In c l.
Proof.
  induction l as [|x r IH]; intros c H; cbn [dedup] in H; [destruct H|].
  destruct H as [->|H]; [left; reflexivity|]. apply filter_In in H. right. apply IH. apply H.
Qed.

Lemma dedup_cover : forall l c, In c l -> exists d, In d (dedup l) /\ same_key d c = true.
Proof.
  induction l as [|x r IH]; intros c H; [destruct H|]. cbn [dedup].
  destruct H as [->|H].
  - exists c. split; [left; reflexivity|apply same_key_refl].
  - destruct (IH c H) as [d [Hd K]].
    destruct (same_key x d) eqn:E.
    + exists x. split; [left; reflexivity|].
      apply same_key_iff in E. apply same_key_iff in K. apply same_key_iff.
      destruct E, K. split; congruence.
    + exists d. split; [|exact K]. right. apply filter_In. split; [exact Hd|].
      rewrite E. reflexivity.
Qed.

Lemma fop_filter : forall {A} (R : A -> A -> Prop) f l,
  ForallOrdPairs R l -> ForallOrdPairs R (filter f l).
Proof.
  intros A R f l H. induction H as [|x r F H IH]; cbn [filter]; [constructor|].
  destruct (f x); [|exact IH]. constructor; [|exact IH].
  rewrite Forall_forall in *. intros y Hy. apply filter_In in Hy. apply F. apply Hy.
Qed.

Lemma dedup_distinct : forall l, ForallOrdPairs (fun c d => same_key c d = false) (dedup l).
Proof.
  induction l as [|x r IH]; cbn [dedup]; constructor.
  - apply Forall_forall. intros d Hd. apply filter_In in Hd. destruct Hd as [_ Hd].
    destruct (same_key x d); [discriminate|reflexivity].
  - apply fop_filter. exact IH.
Qed.

Lemma fop_map : forall {A B} (f : A -> B) (R : B -> B -> Prop) l,
  ForallOrdPairs (fun a b => R (f a) (f b)) l -> ForallOrdPairs R (map f l).
Proof.
  intros A B f R l H. induction H as [|x r F H IH]; cbn [map]; constructor; [|exact IH].
  rewrite Forall_forall in *. intros y Hy. apply in_map_iff in Hy.
  destruct Hy as [a [<- Ha]]. apply F. exact Ha.
Qed.

Lemma fop_impl_in : forall {A} (R R' : A -> A -> Prop) l,
  ForallOrdPairs R l -> (forall a b, In a l -> In b l -> R a b -> R' a b) ->
  ForallOrdPairs R' l.
Proof.
  intros A R R' l H. induction H as [|x r F H IH]; intro K; constructor.
  - rewrite Forall_forall in *. intros y Hy. apply K; [left; reflexivity|right; exact Hy|].
    apply F. exact Hy.
  - apply IH. intros a b Ha Hb. apply K; right; assumption.
Qed.

(* ------------------------------------------------------------------ points *)
Lemma peq_sym : forall p q, peq p q -> peq q p.
Proof. intros p q [H1 H2]. split; symmetry; assumption. Qed.

Lemma peq_trans : forall p q r, peq p q -> peq q r -> peq p r.
Proof. intros p q r [H1 H2] [H3 H4]. split; [rewrite H1|rewrite H2]; assumption. Qed.

Lemma peqb_iff : forall p q, peqb p q = true <-> peq p q.
Proof.
  intros p q. unfold peqb, peq. rewrite andb_true_iff, !Qeq_bool_iff. tauto.
Qed.

Lemma on_seg_peq : forall p p' a a' b b',
  peq p p' -> peq a a' -> peq b b' -> on_seg p a b -> on_seg p' a' b'.
Proof.
  intros p p' a a' b b' [P1 P2] [A1 A2] [B1 B2] [t [H0 [H1 [Hx Hy]]]].
  exists t. split; [exact H0|]. split; [exact H1|].
  rewrite <- P1, <- P2, <- A1, <- A2, <- B1, <- B2. split; assumption.
Qed.

Lemma on_seg_convex : forall p a b s e,
  on_seg a s e -> on_seg b s e -> on_seg p a b -> on_seg p s e.
Proof.
  intros p a b s e [ta [A0 [A1 [Ax Ay]]]] [tb [B0 [B1 [Bx By]]]] [u [U0 [U1 [Ux Uy]]]].
  exists (ta + u * (tb - ta)).
  split; [nra|]. split; [nra|].
  split; [rewrite Ux, Ax, Bx|rewrite Uy, Ay, By]; ring.
Qed.

Lemma sq_pos : forall x : Q, ~ x == 0 -> 0 < x * x.
Proof.
  intros x N. destruct (Qlt_le_dec 0 x) as [H|H]; [nra|].
  destruct (Qlt_le_dec x 0) as [H'|H']; [nra|]. exfalso. apply N. lra.
Qed.

Definition dirv (s e : pt2) : pt2 := sub2 e s.

Lemma nrm2_pos : forall s e, ~ peq s e -> 0 < nrm2 (dirv s e).
Proof.
  intros s e N. unfold nrm2, dirv, sub2. cbn [fst snd].
  destruct (Qeq_dec (fst e - fst s) 0) as [E1|E1].
  - destruct (Qeq_dec (snd e - snd s) 0) as [E2|E2].
    + exfalso. apply N. split; lra.
    + pose proof (sq_pos _ E2). pose proof (sq_nonneg (fst e - fst s)). lra.
  - pose proof (sq_pos _ E1). pose proof (sq_nonneg (snd e - snd s)). lra.
Qed.

(* parameter of a point along the segment (s, e) *)
Definition par (s e q : pt2) : Q :=
  ((fst q - fst s) * (fst e - fst s) + (snd q - snd s) * (snd e - snd s)) / nrm2 (dirv s e).

Definition at_par (s e q : pt2) (t : Q) : Prop :=
  fst q == fst s + t * (fst e - fst s) /\ snd q == snd s + t * (snd e - snd s).

Lemma par_of_at : forall s e q t, ~ peq s e -> at_par s e q t -> par s e q == t.
Proof.
  intros s e q t N [Hx Hy]. pose proof (nrm2_pos s e N) as P.
  unfold par. rewrite Hx, Hy. unfold nrm2, dirv, sub2 in *. cbn [fst snd] in *.
  field. lra.
Qed.

Lemma on_seg_par : forall s e q, ~ peq s e -> on_seg q s e ->
  0 <= par s e q /\ par s e q <= 1 /\ at_par s e q (par s e q).
Proof.
  intros s e q N [t [H0 [H1 [Hx Hy]]]].
  assert (E : par s e q == t) by (apply par_of_at; [exact N|split; assumption]).
  split; [lra|]. split; [lra|]. unfold at_par. rewrite E. split; assumption.
Qed.

Lemma par_peq : forall s e q q', peq q q' -> par s e q == par s e q'.
Proof.
  intros s e q q' [H1 H2]. unfold par. rewrite H1, H2. reflexivity.
Qed.

Lemma dist2_at : forall s e q st t, at_par s e q t -> peq st s ->
  dist2 q st == t * t * nrm2 (dirv s e).
Proof.
  intros s e q st t [Hx Hy] [S1 S2]. unfold dist2, nrm2, dirv, sub2. cbn [fst snd].
  rewrite Hx, Hy, S1, S2. ring.
Qed.

Lemma sq_mono_inv : forall ta tb n : Q, 0 <= ta -> 0 <= tb -> 0 < n ->
  ta * ta * n <= tb * tb * n -> ta <= tb.
Proof.
  intros ta tb n A B N H. destruct (Qlt_le_dec tb ta) as [L|L]; [|exact L].
  exfalso. assert (tb * tb < ta * ta) by nra. nra.
Qed.

(* a point between two points of the same line lies on the segment between them *)
Lemma between_on_seg : forall s e a b p ta tb t,
  at_par s e a ta -> at_par s e b tb -> at_par s e p t -> ta <= t -> t <= tb ->
  on_seg p a b.
Proof.
  intros s e a b p ta tb t [Ax Ay] [Bx By] [Px Py] L1 L2.
  destruct (Qeq_dec ta tb) as [E|E].
  - exists 0. split; [lra|]. split; [lra|].
    assert (t == ta) by lra.
    split; [rewrite Px, Ax|rewrite Py, Ay]; rewrite H; ring.
  - set (u := (t - ta) / (tb - ta)).
    assert (Hu : u * (tb - ta) == t - ta) by (unfold u; field; lra).
    exists u. split; [nra|]. split; [nra|].
    split; [rewrite Px, Ax, Bx|rewrite Py, Ay, By].
    + setoid_replace (fst s + ta * (fst e - fst s) +
                      u * (fst s + tb * (fst e - fst s) - (fst s + ta * (fst e - fst s))))
        with (fst s + (ta + u * (tb - ta)) * (fst e - fst s)) by ring.
      rewrite Hu. ring.
    + setoid_replace (snd s + ta * (snd e - snd s) +
                      u * (snd s + tb * (snd e - snd s) - (snd s + ta * (snd e - snd s))))
        with (snd s + (ta + u * (tb - ta)) * (snd e - snd s)) by ring.
      rewrite Hu. ring.
Qed.

(* a chain of points of one line, sorted by parameter, covers everything between its
   first parameter and any later one *)
Lemma chain_cover : forall (pts : nat -> pt2) (tp : nat -> Q) s e p t,
  at_par s e p t ->
  forall r x,
    (forall i, In i (x :: r) -> at_par s e (pts i) (tp i)) ->
    StronglySorted (kle tp) (x :: r) ->
    tp x <= t -> (exists z, In z r /\ t <= tp z) ->
    exists a b, In (a, b) (cpairs (x :: r)) /\ on_seg p (pts a) (pts b).
Proof.
  intros pts tp s e p t Hp. induction r as [|y r IH]; intros x Hat S Lx [z [Hz Lz]].
  - destruct Hz.
  - destruct (Qlt_le_dec (tp y) t) as [Lt|Le].
    + assert (Hz' : In z r).
      { destruct Hz as [<-|Hz]; [exfalso; lra|exact Hz]. }
      inversion S as [|? ? S' F]; subst.
      destruct (IH y) as [a [b [Hab On]]].
      * intros i Hi. apply Hat. right. exact Hi.
      * exact S'.
      * lra.
      * exists z. split; assumption.
      * exists a, b. split; [|exact On]. cbn [cpairs]. right. exact Hab.
    + exists x, y. split; [cbn [cpairs]; left; reflexivity|].
      apply (between_on_seg s e (pts x) (pts y) p (tp x) (tp y) t); try assumption.
      * apply Hat. left. reflexivity.
      * apply Hat. right. left. reflexivity.
Qed.

(* ------------------------------------------------------------------ closeness *)
Lemma close_iff : forall tol a b, close tol a b = true <-> dist2 a b < tol * tol.
Proof. intros. unfold close. apply qltb_true. Qed.

Lemma dist2_peq0 : forall a b, peq a b -> dist2 a b == 0.
Proof.
  intros a b [H1 H2]. unfold dist2, nrm2, sub2. cbn [fst snd]. rewrite H1, H2. ring.
Qed.

Lemma close_peq : forall tol a b, 0 < tol -> peq a b -> close tol a b = true.
Proof.
  intros tol a b T P. apply close_iff. rewrite (dist2_peq0 a b P). nra.
Qed.

(* ------------------------------------------------------------------ greedy uniquification *)
Section Uniq.
  Variable tol : Q.
  Hypothesis tol_pos : 0 < tol.

  Lemma idx_spec : forall U p,
    (exists u, In u U /\ close tol p u = true) ->
    (idx tol U p < length U)%nat /\ close tol p (upt U (idx tol U p)) = true.
  Proof.
    induction U as [|v r IH]; intros p [u [Hu C]]; [destruct Hu|].
    cbn [idx]. destruct (close tol p v) eqn:E.
    - split; [cbn; lia|]. unfold upt. cbn. exact E.
    - destruct Hu as [<-|Hu]; [congruence|].
      destruct (IH p) as [L C']; [exists u; split; assumption|].
      split; [cbn; lia|]. unfold upt in *. cbn. exact C'.
  Qed.

  (* kept points are pairwise not close (later against earlier) *)
  Definition pw (U : list pt2) : Prop :=
    forall i j, (i < j)%nat -> (j < length U)%nat -> close tol (upt U j) (upt U i) = false.

  Lemma step_mono : forall U q u, In u U -> In u (uniq_step tol U q).
  Proof.
    intros U q u H. unfold uniq_step.
    destruct (existsb (close tol q) U); [exact H|apply in_or_app; left; exact H].
  Qed.

  Lemma step_new : forall U q, existsb (close tol q) U = false -> In q (uniq_step tol U q).
  Proof.
    intros U q E. unfold uniq_step. rewrite E. apply in_or_app. right. left. reflexivity.
  Qed.

  Lemma uniq_inv : forall l U,
    pw U ->
    let U' := fold_left (uniq_step tol) l U in
    pw U' /\
    (forall u, In u U' -> In u U \/ In u l) /\
    (forall u, In u U -> In u U') /\
    (forall p, In p l -> exists u, In u U' /\ close tol p u = true).
  Proof.
    induction l as [|q r IH]; intros U P; cbn [fold_left].
    - split; [exact P|]. split; [intros u H; left; exact H|]. split; [tauto|intros p []].
    - destruct (IH (uniq_step tol U q)) as [P' [Sub [Mono Cov]]].
      + unfold uniq_step. destruct (existsb (close tol q) U) eqn:E; [exact P|].
        intros i j Lij Lj. rewrite app_length in Lj. cbn in Lj.
        unfold upt. destruct (Nat.eq_dec j (length U)) as [->|Nj].
        * rewrite app_nth2 by lia. rewrite Nat.sub_diag. cbn [nth].
          rewrite app_nth1 by lia.
          destruct (close tol q (nth i U pdef)) eqn:C; [|reflexivity].
          exfalso. assert (existsb (close tol q) U = true).
          { apply existsb_exists. exists (nth i U pdef). split; [apply nth_In; lia|exact C]. }
          congruence.
        * rewrite !app_nth1 by lia. apply P; lia.
      + split; [exact P'|]. split; [|split].
        * intros u Hu. apply Sub in Hu. destruct Hu as [Hu|Hu]; [|right; right; exact Hu].
          unfold uniq_step in Hu. destruct (existsb (close tol q) U); [left; exact Hu|].
          apply in_app_or in Hu. destruct Hu as [Hu|[<-|[]]]; [left; exact Hu|right; left; reflexivity].
        * intros u Hu. apply Mono. apply step_mono. exact Hu.
        * intros p [<-|Hp]; [|apply Cov; exact Hp].
          destruct (existsb (close tol q) U) eqn:E.
          -- apply existsb_exists in E. destruct E as [u [Hu C]]. exists u.
             split; [apply Mono; apply step_mono; exact Hu|exact C].
          -- exists q. split; [apply Mono; apply step_new; exact E|].
             apply close_peq; [exact tol_pos|apply peq_refl].
  Qed.

  Variable l : list pt2.
  Hypothesis sep : sep_pts tol l = true.

  Lemma sep_close_peq : forall p q, In p l -> In q l -> close tol p q = true -> peq p q.
  Proof.
    intros p q Hp Hq C. unfold sep_pts in sep. rewrite forallb_forall in sep.
    specialize (sep p Hp). rewrite forallb_forall in sep. specialize (sep q Hq).
    unfold eq_or_far in sep. rewrite C in sep. cbn in sep. rewrite orb_false_r in sep.
    apply peqb_iff. exact sep.
  Qed.

  Let U := uniqU tol l.

  Lemma pw_nil : pw [].
  Proof. intros i j _ H. cbn in H. lia. Qed.

  Lemma U_sub : forall u, In u U -> In u l.
  Proof.
    intros u H. destruct (uniq_inv l [] pw_nil) as [_ [Sub _]]. apply Sub in H.
    destruct H as [[]|H]. exact H.
  Qed.

  (* F1: every input point is represented by a kept point with the same coordinates *)
  Lemma rep_peq : forall p, In p l ->
    (idx tol U p < length U)%nat /\ peq (upt U (idx tol U p)) p.
  Proof.
    intros p Hp. destruct (uniq_inv l [] pw_nil) as [_ [_ [_ Cov]]].
    destruct (idx_spec U p (Cov p Hp)) as [L C]. split; [exact L|].
    apply peq_sym. apply sep_close_peq; [exact Hp| |exact C].
    apply U_sub. apply nth_In. exact L.
  Qed.

  (* F2: kept points have pairwise different coordinates *)
  Lemma U_inj : forall i j, (i < length U)%nat -> (j < length U)%nat ->
    peq (upt U i) (upt U j) -> i = j.
  Proof.
    destruct (uniq_inv l [] pw_nil) as [P _]. fold (uniqU tol l) in P. fold U in P.
    assert (K : forall i j, (i < j)%nat -> (j < length U)%nat -> ~ peq (upt U i) (upt U j)).
    { intros i j Lij Lj E. specialize (P i j Lij Lj).
      rewrite (close_peq tol _ _ tol_pos (peq_sym _ _ E)) in P. discriminate. }
    intros i j Li Lj E. destruct (Nat.lt_trichotomy i j) as [H|[H|H]]; [|exact H|].
    - exfalso. apply (K i j H Lj E).
    - exfalso. apply (K j i H Li). apply peq_sym. exact E.
  Qed.
End Uniq.

(* ------------------------------------------------------------------ strictly sorted chains *)
Definition klt (key : nat -> Q) (a b : nat) : Prop := key a < key b.

Lemma ssorted_strict : forall key l,
  StronglySorted (kle key) l -> NoDup l ->
  (forall a b, In a l -> In b l -> a <> b -> ~ key a == key b) ->
  StronglySorted (klt key) l.
Proof.
  intros key l S. induction S as [|x r S IH F]; intros N Inj; constructor.
  - inversion N; subst. apply IH; [assumption|]. intros a b Ha Hb. apply Inj; right; assumption.
  - inversion N as [|? ? Nx Nr]; subst. rewrite Forall_forall in *. intros b Hb.
    specialize (F b Hb). unfold kle, klt in *.
    assert (x <> b) by (intro; subst; contradiction).
    pose proof (Inj x b (or_introl eq_refl) (or_intror Hb) H).
    destruct (Qlt_le_dec (key x) (key b)) as [L|L]; [exact L|]. exfalso. apply H0. lra.
Qed.

Lemma cpairs_lt : forall key l a b,
  StronglySorted (klt key) l -> In (a, b) (cpairs l) -> key a < key b.
Proof.
  intros key l a b S. induction S as [|x r S IH F]; intro H; cbn [cpairs] in H; [destruct H|].
  destruct r as [|y r']; [destruct H|]. destruct H as [E|H].
  - inversion E; subst. rewrite Forall_forall in F. apply F. left. reflexivity.
  - apply IH. exact H.
Qed.

Lemma cpairs_sep : forall key l a b c d,
  StronglySorted (klt key) l -> In (a, b) (cpairs l) -> In (c, d) (cpairs l) ->
  (a = c /\ b = d) \/ key b <= key c \/ key d <= key a.
Proof.
  intros key l a b c d S. induction S as [|x r S IH F]; intros H1 H2; cbn [cpairs] in *; [destruct H1|].
  destruct r as [|y r']; [destruct H1|].
  inversion S as [|? ? S' F']; subst. rewrite Forall_forall in F'.
  assert (T : forall u v, In (u, v) (cpairs (y :: r')) -> key y <= key u).
  { intros u v H. apply cpairs_in in H. destruct H as [[<-|H] _]; [lra|].
    specialize (F' u H). unfold klt in F'. lra. }
  destruct H1 as [E1|H1]; destruct H2 as [E2|H2].
  - inversion E1; inversion E2; subst. left. split; reflexivity.
  - inversion E1; subst. right. left. apply (T c d H2).
  - inversion E2; subst. right. right. apply (T a b H1).
  - apply IH; assumption.
Qed.

Lemma chain_member_endpoint : forall key l a b z,
  StronglySorted (klt key) l -> In (a, b) (cpairs l) -> In z l ->
  key a <= key z -> key z <= key b -> z = a \/ z = b.
Proof.
  intros key l a b z S. induction S as [|x r S IH F]; intros H Hz L1 L2; cbn [cpairs] in H; [destruct H|].
  destruct r as [|y r']; [destruct H|].
  inversion S as [|? ? S' F']; subst. rewrite Forall_forall in F, F'.
  destruct H as [E|H].
  - inversion E; subst. destruct Hz as [<-|[<-|Hz]]; [left; reflexivity|right; reflexivity|].
    exfalso. specialize (F' z Hz). unfold klt in F'. lra.
  - destruct Hz as [<-|Hz]; [|apply IH; assumption].
    exfalso. apply cpairs_in in H. destruct H as [Ha _].
    specialize (F a Ha). unfold klt in F. lra.
Qed.

(* two points of the line with the same parameter coincide *)
Lemma at_par_peq : forall s e a b t t', at_par s e a t -> at_par s e b t' -> t == t' -> peq a b.
Proof.
  intros s e a b t t' [Ax Ay] [Bx By] E. split; [rewrite Ax, Bx|rewrite Ay, By]; rewrite E; reflexivity.
Qed.

(* a point of the segment between two points of the line has its parameter between theirs *)
Lemma on_seg_between : forall s e a b p ta tb,
  at_par s e a ta -> at_par s e b tb -> ta <= tb -> on_seg p a b ->
  exists t, at_par s e p t /\ ta <= t /\ t <= tb.
Proof.
  intros s e a b p ta tb [Ax Ay] [Bx By] L [u [U0 [U1 [Px Py]]]].
  exists (ta + u * (tb - ta)). split; [|split; nra].
  split; [rewrite Px, Ax, Bx|rewrite Py, Ay, By]; ring.
Qed.
