(* C17 — the explicit transport step for k interleaved components (value of component j in
   cell i at index i*k+j, as the Kronecker-expanded matrices expect): every component is
   transported by the one-component step, hence conserved and bounded. *)
From Coq Require Import List ZArith Bool Arith Lia Reals Lra.
Import ListNotations.
From PP Require Import Model.C17 Proofs.C17.

Local Open Scope R_scope.

Section StepK.
  Variable I : input R.
  Variable o : output.
  Variable b : nat -> R.        (* boundary values, interleaved: face f, component j at f*k+j *)
  Variable vol : nat -> R.
  Variable dt : R.

  Notation k := (ncomp I).

  (* component j of an interleaved vector *)
  Definition comp (j : nat) (x : nat -> R) : nat -> R := fun i => x (i * k + j)%nat.

  (* advective flux of component j through face f: the flux array is expanded per component
     (index / k is the face) *)
  Definition face_flux_k (c : nat -> R) (j f : nat) : R :=
    q I f * row_apply (upwind o) c (f * k + j)
    + row_apply (bound_dir o) (fun i => q I (i / k) * b i) (f * k + j)
    + row_apply (bound_neu o) b (f * k + j).

  Definition step_k (c : nat -> R) : nat -> R :=
    fun idx => c idx - dt / vol (idx / k) * div_cell I (face_flux_k c (idx mod k)) (idx / k).

  Fixpoint steps_k (n : nat) (c : nat -> R) : nat -> R :=
    match n with O => c | S n' => step_k (steps_k n' c) end.

  Definition total_k (j : nat) (c : nat -> R) : R := rsum (fun i => vol i * c (i * k + j)%nat) (nc I).

  Definition noflow_k (f : nat) : Prop :=
    (q I f = 0 /\ forall j, (j < k)%nat -> b (f * k + j)%nat = 0) \/
    (is_neu I f = false /\ is_dir I f = false /\ sgn_div (cf I) f = 0%Z).

  Hypothesis Hok : discretize R nonnegR I = Ok o.
  Hypothesis Hdim : dim I <> 0%nat.

  Let I1 := set_ncomp R I 1.

  Lemma idx_div i j : (j < k)%nat -> ((i * k + j) / k = i)%nat.
  Proof. intros Hj. rewrite Nat.add_comm, Nat.div_add by lia. rewrite Nat.div_small by exact Hj. reflexivity. Qed.

  Lemma idx_mod i j : (j < k)%nat -> ((i * k + j) mod k = j)%nat.
  Proof. intros Hj. rewrite Nat.add_comm, Nat.mod_add by lia. apply Nat.mod_small. exact Hj. Qed.

  (* the one-component run that the k-component matrices expand *)
  Lemma one_component :
    exists o1, discretize R nonnegR I1 = Ok o1 /\
      forall c j f, (j < k)%nat ->
        face_flux_k c j f = face_flux I1 o1 (comp j b) (comp j c) f.
  Proof.
    destruct (components_theorem R nonnegR I o Hok Hdim) as [o1 [H1 [_ [_ [_ [_ [_ [_ Happ]]]]]]]].
    exists o1. split; [exact H1|]. intros c j f Hj.
    destruct (Happ c f j Hj) as [A _].
    destruct (Happ (fun i => q I (i / k) * b i) f j Hj) as [_ [B _]].
    destruct (Happ b f j Hj) as [_ [_ C]].
    unfold face_flux_k, face_flux. rewrite A, B, C. unfold comp. cbn [q I1 set_ncomp].
    f_equal. f_equal.
    (* the boundary flux vector of component j *)
    assert (E : forall M x y r, (forall g, x g = y g) -> row_apply M x r = row_apply M y r).
    { intros M x y r Hxy. induction M as [|t M IH]; [reflexivity|].
      rewrite !row_apply_cons, IH, Hxy. reflexivity. }
    apply E. intros g. rewrite idx_div by exact Hj. reflexivity.
  Qed.

  Lemma step_k_comp o1 :
    discretize R nonnegR I1 = Ok o1 ->
    (forall c j f, (j < k)%nat -> face_flux_k c j f = face_flux I1 o1 (comp j b) (comp j c) f) ->
    forall c j i, (j < k)%nat ->
      comp j (step_k c) i = step I1 o1 (comp j b) vol dt (comp j c) i.
  Proof.
    intros _ Hff c j i Hj. unfold comp, step_k, step. rewrite idx_div, idx_mod by exact Hj.
    f_equal. f_equal. unfold div_cell, div_list. cbn [cf I1 set_ncomp].
    induction (cf I) as [|t l IH]; [reflexivity|]. cbn [fold_right]. rewrite IH.
    destruct (tc t =? i)%nat; [|reflexivity]. rewrite Hff by exact Hj. reflexivity.
  Qed.

  Lemma noflow_comp j f : (j < k)%nat -> noflow_k f -> noflow I1 (comp j b) f.
  Proof.
    intros Hj [[Hq Hb]|H]; [left|right; exact H].
    split; [exact Hq | unfold comp; apply Hb; exact Hj].
  Qed.

  (* ---------------- conservation, k components ---------------- *)
  Theorem conservative_k :
    wf_inc I -> (forall f, (f < nf I)%nat -> noflow_k f) ->
    (forall i, (i < nc I)%nat -> vol i <> 0) ->
    forall n c j, (j < k)%nat -> total_k j (steps_k n c) = total_k j c.
  Proof.
    intros Hwf Hnf Hv. destruct one_component as [o1 [H1 Hff]].
    induction n as [|n IH]; intros c j Hj; [reflexivity|].
    cbn [steps_k]. rewrite <- (IH c j Hj). set (c' := steps_k n c).
    unfold total_k.
    transitivity (total I1 vol (step I1 o1 (comp j b) vol dt (comp j c'))).
    - unfold total. cbn [nc I1 set_ncomp]. apply rsum_ext. intros i _.
      rewrite <- (step_k_comp o1 H1 Hff c' j i Hj). reflexivity.
    - rewrite (conservative_theorem I1 o1 (comp j b) vol dt H1 Hdim eq_refl (comp j c')).
      + reflexivity.
      + exact Hwf.
      + intros f Hf. apply noflow_comp; [exact Hj | apply Hnf; exact Hf].
      + exact Hv.
  Qed.

  (* ---------------- maximum principle, k components ---------------- *)
  Theorem max_principle_k :
    one_sided (cf I) -> wf_inc I -> (forall f, (f < nf I)%nat -> noflow_k f) ->
    0 <= dt ->
    (forall i, (i < nc I)%nat -> 0 < vol i /\ dt * outflow I i <= vol i) ->
    (forall i, (i < nc I)%nat -> div_cell I (q I) i = 0) ->
    forall j, (j < k)%nat ->
    forall c m M, (forall i, (i < nc I)%nat -> m <= c (i * k + j)%nat <= M) ->
    forall n i, (i < nc I)%nat -> m <= steps_k n c (i * k + j)%nat <= M.
  Proof.
    intros Hw Hwf Hnf Hdt Hcfl Hdiv j Hj c m M Hb. destruct one_component as [o1 [H1 Hff]].
    induction n as [|n IH]; intros i Hi; [apply Hb; exact Hi|].
    cbn [steps_k]. set (c' := steps_k n c) in *.
    change (step_k c' (i * k + j)%nat) with (comp j (step_k c') i).
    rewrite (step_k_comp o1 H1 Hff c' j i Hj).
    apply (max_principle_theorem I1 o1 (comp j b) vol dt H1 Hdim eq_refl (comp j c') m M Hw Hwf).
    - intros f Hf. apply noflow_comp; [exact Hj | apply Hnf; exact Hf].
    - exact Hdt.
    - exact Hcfl.
    - exact Hdiv.
    - intros i' Hi'. unfold comp. apply IH. exact Hi'.
    - exact Hi.
  Qed.
End StepK.
