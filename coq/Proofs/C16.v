(* C16 — proofs.  Everything is over exact rationals (every binary64 value is one). *)
From Coq Require Import List ZArith QArith Qabs Bool Arith Lia Lqa.
Import ListNotations.
From PP Require Lib.RowLin Lib.RowInv.
From PP Require Import Model.C16.
Local Open Scope Q_scope.

(* ------------------------------------------------------------------ sums over components *)
Lemma tsum_ext : forall t m f g,
  (forall k, (m <= k < m + length t)%nat -> f k == g k) -> tsum m t f == tsum m t g.
Proof.
  induction t as [|x t IH]; intros m f g H; cbn [tsum]; [reflexivity|].
  rewrite (H m) by (cbn [length]; lia).
  rewrite (IH (S m) f g); [reflexivity|].
  intros k Hk. apply H. cbn [length]. lia.
Qed.

Lemma tsum_zero : forall t m, tsum m t (fun _ => 0) == 0.
Proof. induction t as [|x t IH]; intros m; cbn [tsum]; [reflexivity|]. rewrite IH. ring. Qed.

Lemma tsum_plus : forall t m f g,
  tsum m t (fun k => f k + g k) == tsum m t f + tsum m t g.
Proof. induction t as [|x t IH]; intros; cbn [tsum]; [ring|]. rewrite IH. ring. Qed.

Lemma tsum_minus : forall t m f g,
  tsum m t (fun k => f k - g k) == tsum m t f - tsum m t g.
Proof. induction t as [|x t IH]; intros; cbn [tsum]; [ring|]. rewrite IH. ring. Qed.

Lemma nth_nil_Q : forall n, nth n (@nil Q) 0 = 0.
Proof. destruct n; reflexivity. Qed.

Lemma tsum_pick : forall t m k' a,
  tsum m t (fun k => if Nat.eqb k' k then a else 0)
  == if (m <=? k')%nat then a * nth (k' - m) t 0 else 0.
Proof.
  induction t as [|x t IH]; intros m k' a; cbn [tsum].
  - rewrite nth_nil_Q. destruct (m <=? k')%nat; ring.
  - rewrite IH.
    destruct (Nat.eqb_spec k' m) as [->|Hne].
    + rewrite Nat.leb_refl, Nat.sub_diag. cbn [nth].
      destruct (Nat.leb_spec (S m) m); [lia|]. ring.
    + destruct (Nat.leb_spec m k'); destruct (Nat.leb_spec (S m) k'); try lia.
      * replace (k' - m)%nat with (S (k' - S m)) by lia. cbn [nth]. ring.
      * ring.
Qed.

Lemma tsum_unit : forall t k',
  tsum 0 t (fun k => if Nat.eqb k k' then 1 else 0) == nth k' t 0.
Proof.
  intros t k'.
  rewrite (tsum_ext t 0%nat _ (fun k => if Nat.eqb k' k then 1 else 0)).
  - rewrite tsum_pick. cbn [Nat.leb]. rewrite Nat.sub_0_r. ring.
  - intros k _. rewrite Nat.eqb_sym. reflexivity.
Qed.

(* ------------------------------------------------------------------ a row on the translation state *)
Lemma rdot_csum : forall cls t r,
  rdot r (sv cls t) == tsum 0 t (fun k => csum cls k r).
Proof.
  intros cls t. induction r as [|[j a] r IH]; cbn [rdot csum fst snd].
  - symmetry. apply tsum_zero.
  - rewrite (tsum_plus t 0%nat (fun k => pick cls k j a) (fun k => csum cls k r)), <- IH.
    apply Qplus_comp; [|reflexivity].
    unfold sv, pick. destruct (cls j) as [k'|].
    + rewrite tsum_pick. cbn [Nat.leb]. rewrite Nat.sub_0_r. reflexivity.
    + rewrite tsum_zero. ring.
Qed.

Lemma row_exact : forall cls t r g,
  (forall k, (k < length t)%nat -> csum cls k r == g k) ->
  rdot r (sv cls t) == tsum 0 t g.
Proof.
  intros cls t r g H. rewrite rdot_csum. apply tsum_ext. intros k Hk. apply H. lia.
Qed.

Lemma stress_zero : forall cls t r,
  (forall k, (k < length t)%nat -> csum cls k r == 0) -> rdot r (sv cls t) == 0.
Proof. intros cls t r H. rewrite (row_exact cls t r (fun _ => 0) H). apply tsum_zero. Qed.

Lemma averages_reproduce_const : forall cls t r k,
  (k < length t)%nat ->
  (forall k', (k' < length t)%nat -> csum cls k' r == if Nat.eqb k k' then 1 else 0) ->
  rdot r (sv cls t) == nth k t 0.
Proof.
  intros cls t r k Hk H.
  rewrite (row_exact cls t r (fun k' => if Nat.eqb k k' then 1 else 0) H), tsum_pick.
  cbn [Nat.leb]. rewrite Nat.sub_0_r. ring.
Qed.

Lemma stress_zero_differences : forall cls t ws i,
  (forall jw, In jw ws -> cls (fst jw) = cls i) -> diffsum ws i (sv cls t) == 0.
Proof.
  intros cls t ws i. induction ws as [|[j w] ws IH]; intros H; cbn [diffsum fst snd]; [reflexivity|].
  rewrite IH by (intros jw Hin; apply H; right; exact Hin).
  assert (E : sv cls t j = sv cls t i).
  { unfold sv. pose proof (H (j, w) (or_introl eq_refl)) as E0. cbn [fst] in E0.
    rewrite E0. reflexivity. }
  rewrite E. ring.
Qed.

(* ------------------------------------------------------------------ quantitative versions *)
Lemma tsum_abs_bound : forall t m h eps,
  (forall k, (m <= k < m + length t)%nat -> Qabs (h k) <= eps) ->
  Qabs (tsum m t h) <= eps * tabs t.
Proof.
  induction t as [|x t IH]; intros m h eps H; cbn [tsum tabs].
  - setoid_replace (eps * 0) with 0 by ring. cbn. apply Qle_refl.
  - eapply Qle_trans; [apply Qabs_triangle|].
    rewrite Qabs_Qmult.
    assert (H1 : Qabs (h m) <= eps) by (apply H; cbn [length]; lia).
    assert (H2 : Qabs (tsum (S m) t h) <= eps * tabs t).
    { apply IH. intros k Hk. apply H. cbn [length]. lia. }
    pose proof (Qabs_nonneg x) as H3.
    pose proof (Qabs_nonneg (h m)) as H4.
    revert H1 H2 H3 H4.
    generalize (Qabs x) (Qabs (h m)) (Qabs (tsum (S m) t h)) (tabs t).
    intros ax ah ar at' H1 H2 H3 H4.
    assert (H5 : ax * ah <= ax * eps) by nra.
    lra.
Qed.

Lemma row_quant : forall cls t r g eps,
  (forall k, (k < length t)%nat -> Qabs (csum cls k r - g k) <= eps) ->
  Qabs (rdot r (sv cls t) - tsum 0 t g) <= eps * tabs t.
Proof.
  intros cls t r g eps H.
  rewrite rdot_csum, <- tsum_minus.
  apply tsum_abs_bound. intros k Hk. apply H. lia.
Qed.

(* ------------------------------------------------------------------ assembling rows *)
Lemma pick_scale : forall cls k j s a, pick cls k j (s * a) == s * pick cls k j a.
Proof. intros. unfold pick. destruct (cls j) as [k'|]; [destruct (Nat.eqb k' k)|]; ring. Qed.

Lemma csum_app : forall cls k r1 r2, csum cls k (r1 ++ r2) == csum cls k r1 + csum cls k r2.
Proof.
  intros cls k r1 r2. induction r1 as [|ja r1 IH]; cbn [app csum]; [ring|]. rewrite IH. ring.
Qed.

Lemma csum_scale : forall cls k s r, csum cls k (scale s r) == s * csum cls k r.
Proof.
  intros cls k s r. induction r as [|ja r IH]; cbn [scale map csum fst snd]; [ring|].
  fold (scale s r). rewrite IH, pick_scale. ring.
Qed.

Lemma csum_gather : forall cls k rows stride off ic,
  csum cls k (gather rows stride off ic)
  == isum ic (fun f => csum cls k (nth (f * stride + off) rows [])).
Proof.
  intros cls k rows stride off ic. unfold gather.
  induction ic as [|fs ic IH]; cbn [flat_map isum csum]; [reflexivity|].
  rewrite csum_app, csum_scale, IH. reflexivity.
Qed.

Lemma isum_ext : forall ic g h,
  (forall fs, In fs ic -> g (fst fs) == h (fst fs)) -> isum ic g == isum ic h.
Proof.
  induction ic as [|fs ic IH]; intros g h H; cbn [isum]; [reflexivity|].
  rewrite (H fs) by (left; reflexivity).
  rewrite (IH g h) by (intros fs' Hin; apply H; right; exact Hin). reflexivity.
Qed.

Lemma isum_zero : forall ic, isum ic (fun _ => 0) == 0.
Proof. induction ic as [|fs ic IH]; cbn [isum]; [reflexivity|]. rewrite IH. ring. Qed.

Lemma isum_scal : forall ic s g, isum ic (fun f => s * g f) == s * isum ic g.
Proof. induction ic as [|fs ic IH]; intros; cbn [isum]; [ring|]. rewrite IH. ring. Qed.

Lemma isum_tgt : forall ic co (n : nat -> nat -> Q),
  isum ic (fun f => tgt co (n f)) == tgt co (fun j => isum ic (fun f => n f j)).
Proof.
  intros ic co n. destruct co as [[j s]|]; cbn [tgt fst snd].
  - apply isum_scal.
  - apply isum_zero.
Qed.

Lemma rot_coef_lt : forall nd i k j s, rot_coef nd i k = Some (j, s) -> (j < nd)%nat.
Proof.
  intros nd i k j s H.
  destruct nd as [|[|[|[|nd]]]]; cbn in H; try discriminate.
  - destruct k as [|[|k]]; inversion H; lia.
  - destruct i as [|[|[|i]]]; destruct k as [|[|[|k]]]; inversion H; lia.
Qed.

Lemma cls_of_none : forall I j,
  (i_nd I * i_nc I <= j < ndof I)%nat -> cls_of I j = None.
Proof.
  intros I j [H1 H2]. unfold cls_of.
  destruct (Nat.ltb_spec j (i_nd I * i_nc I)); [lia|].
  destruct (Nat.ltb_spec j (ndof I)); [reflexivity|lia].
Qed.

Lemma csum_single_none : forall cls k j a, cls j = None -> csum cls k [(j, a)] == 0.
Proof. intros cls k j a H. cbn [csum fst snd]. unfold pick. rewrite H. ring. Qed.

(* The exact hypotheses of the system theorem (the certificates, exactly). *)
Record certified (I : inst) : Prop := {
  cert_stress : forall f k k', (f < i_nf I)%nat -> (k < i_nd I)%nat -> (k' < i_nd I)%nat ->
      csum (cls_of I) k' (nth (f * i_nd I + k) (i_srows I) []) == 0;
  cert_mass : forall f k, (f < i_nf I)%nat -> (k < i_nd I)%nat ->
      csum (cls_of I) k (nth f (i_mrows I) []) == ncomp I f k;
  cert_rot : forall f i k, (f < i_nf I)%nat -> (i < i_rd I)%nat -> (k < i_nd I)%nat ->
      csum (cls_of I) k (nth (f * i_rd I + i) (i_rrows I) [])
      == tgt (rot_coef (i_nd I) i k) (ncomp I f);
  cert_normals : forall c j, (c < i_nc I)%nat -> (j < i_nd I)%nat ->
      isum (nth c (i_inc I) []) (fun f => ncomp I f j) == 0;
  cert_faces : forall c fs, (c < i_nc I)%nat -> In fs (nth c (i_inc I) []) -> (fst fs < i_nf I)%nat
}.

Lemma gather_target_zero : forall I rows stride off c co k,
  certified I -> (c < i_nc I)%nat ->
  (forall j s, co = Some (j, s) -> (j < i_nd I)%nat) ->
  (forall f, (f < i_nf I)%nat ->
     csum (cls_of I) k (nth (f * stride + off) rows []) == tgt co (ncomp I f)) ->
  csum (cls_of I) k (gather rows stride off (nth c (i_inc I) [])) == 0.
Proof.
  intros I rows stride off c co k HC Hc Hco Hrow.
  rewrite csum_gather.
  rewrite (isum_ext _ _ (fun f => tgt co (ncomp I f))).
  2:{ intros fs Hin. apply Hrow. eapply cert_faces; eauto. }
  rewrite (isum_tgt _ co (ncomp I)).
  destruct co as [[j s]|]; cbn [tgt fst snd]; [|reflexivity].
  rewrite (cert_normals I HC c j Hc (Hco j s eq_refl)). ring.
Qed.

Lemma in_system_rows : forall I r, In r (system_rows I) ->
  exists c, (c < i_nc I)%nat /\
    ((exists k, (k < i_nd I)%nat /\ r = momentum_row I c k)
     \/ (exists i, (i < i_rd I)%nat /\ r = rotation_row I c i)
     \/ r = mass_row I c).
Proof.
  intros I r H. unfold system_rows in H. apply in_flat_map in H. destruct H as [c [Hc Hr]].
  apply in_seq in Hc. exists c. split; [lia|].
  unfold cell_rows in Hr. apply in_app_or in Hr. destruct Hr as [Hr|Hr].
  - left. apply in_map_iff in Hr. destruct Hr as [k [E Hk]]. apply in_seq in Hk.
    exists k. split; [lia|symmetry; exact E].
  - apply in_app_or in Hr. destruct Hr as [Hr|Hr].
    + right; left. apply in_map_iff in Hr. destruct Hr as [i [E Hi]]. apply in_seq in Hi.
      exists i. split; [lia|symmetry; exact E].
    + right; right. destruct Hr as [E|[]]. symmetry; exact E.
Qed.

Lemma system_csum_zero : forall I r k,
  certified I -> In r (system_rows I) -> (k < i_nd I)%nat -> csum (cls_of I) k r == 0.
Proof.
  intros I r k HC Hin Hk.
  destruct (in_system_rows I r Hin) as [c [Hc [[k0 [Hk0 ->]]|[[i [Hi ->]]| ->]]]].
  - unfold momentum_row.
    apply (gather_target_zero I (i_srows I) (i_nd I) k0 c None k HC Hc).
    + intros j s E; discriminate.
    + intros f Hf. cbn [tgt]. apply (cert_stress I HC); assumption.
  - unfold rotation_row. rewrite csum_app.
    rewrite (gather_target_zero I (i_rrows I) (i_rd I) i c (rot_coef (i_nd I) i k) k HC Hc).
    + rewrite csum_single_none; [ring|]. apply cls_of_none. unfold ndof. nia.
    + intros j s E. eapply rot_coef_lt; eauto.
    + intros f Hf. apply (cert_rot I HC); assumption.
  - unfold mass_row. rewrite csum_app.
    rewrite (gather_target_zero I (i_mrows I) 1%nat 0%nat c (mass_coef k) k HC Hc).
    + rewrite csum_single_none; [ring|]. apply cls_of_none. unfold ndof. nia.
    + intros j s E. unfold mass_coef in E. inversion E. subst. exact Hk.
    + intros f Hf. rewrite Nat.mul_1_r, Nat.add_0_r.
      rewrite (cert_mass I HC f k Hf Hk). unfold mass_coef, tgt. cbn [fst snd]. ring.
Qed.

Lemma system_solution : forall I t,
  certified I -> length t = i_nd I ->
  forall r, In r (system_rows I) -> rdot r (sv (cls_of I) t) == 0.
Proof.
  intros I t HC Hlen r Hin. apply stress_zero. intros k Hk.
  apply system_csum_zero; [exact HC|exact Hin|lia].
Qed.

(* ------------------------------------------------------------------ uniqueness *)
Lemma rdot_sub : forall r (x y : vec),
  rdot r (fun j => x j - y j) == rdot r x - rdot r y.
Proof. induction r as [|[j a] r IH]; intros; cbn [rdot fst snd]; [ring|]. rewrite IH. ring. Qed.

Lemma unique_solution : forall (A : list row) (n : nat) (x y : vec),
  (forall v : vec, (forall j, (n <= j)%nat -> v j == 0) -> (forall r, In r A -> rdot r v == 0) ->
                   forall j, (j < n)%nat -> v j == 0) ->
  (forall j, (n <= j)%nat -> x j == y j) ->
  (forall r, In r A -> rdot r x == rdot r y) ->
  forall j, (j < n)%nat -> x j == y j.
Proof.
  intros A n x y Hker Hbnd Hres j Hj.
  assert (E : x j - y j == 0).
  { apply (Hker (fun j => x j - y j)); [| |exact Hj].
    - intros j' Hj'. cbn beta. rewrite (Hbnd j' Hj'). ring.
    - intros r Hr. rewrite rdot_sub, (Hres r Hr). ring. }
  lra.
Qed.

Lemma sv_cells : forall I t j,
  sv (cls_of I) t j = if (j <? i_nd I * i_nc I)%nat then nth (j mod i_nd I) t 0
                      else if (j <? ndof I)%nat then 0
                      else if nth (j - ndof I) (i_dir I) false then nth ((j - ndof I) mod i_nd I) t 0
                      else 0.
Proof.
  intros I t j. unfold sv, cls_of.
  destruct (j <? i_nd I * i_nc I)%nat; [reflexivity|].
  destruct (j <? ndof I)%nat; [reflexivity|].
  destruct (nth (j - ndof I) (i_dir I) false); reflexivity.
Qed.

Lemma tpsa_unique_solution : forall I t (x : vec),
  certified I -> length t = i_nd I ->
  (* the system matrix has a trivial kernel (non-singular) *)
  (forall v : vec, (forall j, (ndof I <= j)%nat -> v j == 0) ->
                   (forall r, In r (system_rows I) -> rdot r v == 0) ->
                   forall j, (j < ndof I)%nat -> v j == 0) ->
  (* x is a solution for the same boundary data *)
  (forall j, (ndof I <= j)%nat -> x j == sv (cls_of I) t j) ->
  (forall r, In r (system_rows I) -> rdot r x == 0) ->
  forall j, (j < ndof I)%nat ->
    x j == if (j <? i_nd I * i_nc I)%nat then nth (j mod i_nd I) t 0 else 0.
Proof.
  intros I t x HC Hlen Hker Hbnd Hres j Hj.
  rewrite (unique_solution (system_rows I) (ndof I) x (sv (cls_of I) t) Hker Hbnd) by
    (try exact Hj; intros r Hr; rewrite (Hres r Hr), (system_solution I t HC Hlen r Hr); reflexivity).
  rewrite sv_cells.
  destruct (j <? i_nd I * i_nc I)%nat; [reflexivity|].
  destruct (Nat.ltb_spec j (ndof I)); [reflexivity|lia].
Qed.

(* ------------------------------------------------------------------ soundness of the checkers *)
Definition bound (tol : Q) (r : row) (t : list Q) : Q := tol * (1 + rowabs r) * tabs t.

Lemma row_ok_sound : forall tol cls nd target r t,
  row_ok tol cls nd target r = true -> length t = nd ->
  Qabs (rdot r (sv cls t) - tsum 0 t target) <= bound tol r t.
Proof.
  intros tol cls nd target r t H Hlen. unfold bound.
  apply row_quant. intros k Hk.
  unfold row_ok in H. rewrite forallb_forall in H.
  assert (Hin : In k (seq 0 nd)) by (apply in_seq; lia).
  specialize (H k Hin). unfold near in H. apply Qle_bool_iff in H. exact H.
Qed.

Lemma row_ok_zero_sound : forall tol cls nd r t,
  row_ok tol cls nd (fun _ => 0) r = true -> length t = nd ->
  Qabs (rdot r (sv cls t)) <= bound tol r t.
Proof.
  intros tol cls nd r t H Hlen.
  pose proof (row_ok_sound tol cls nd (fun _ => 0) r t H Hlen) as H1.
  rewrite tsum_zero in H1.
  setoid_replace (rdot r (sv cls t)) with (rdot r (sv cls t) - 0) by ring. exact H1.
Qed.

Lemma certificate_sound : forall tol I t,
  check tol I = true -> length t = i_nd I ->
  (forall r, In r (i_srows I) -> Qabs (rdot r (sv (cls_of I) t)) <= bound tol r t)
  /\ (forall q, (q < i_nd I * i_nf I)%nat ->
        Qabs (rdot (nth q (i_arows I) []) (sv (cls_of I) t) - nth (q mod i_nd I) t 0)
        <= bound tol (nth q (i_arows I) []) t)
  /\ (forall r, In r (system_rows I) -> Qabs (rdot r (sv (cls_of I) t)) <= bound tol r t).
Proof.
  intros tol I t H Hlen. unfold check in H.
  apply andb_prop in H. destruct H as [H Hinv].
  apply andb_prop in H. destruct H as [H Hsys].
  apply andb_prop in H. destruct H as [H Hnorm].
  apply andb_prop in H. destruct H as [H Hrot].
  apply andb_prop in H. destruct H as [H Hmass].
  apply andb_prop in H. destruct H as [H Havg].
  apply andb_prop in H. destruct H as [Hshape Hstress].
  split; [|split].
  - intros r Hr. unfold stress_ok in Hstress. rewrite forallb_forall in Hstress.
    apply (row_ok_zero_sound tol (cls_of I) (i_nd I) r t (Hstress r Hr) Hlen).
  - intros q Hq. unfold avg_ok in Havg. rewrite forallb_forall in Havg.
    assert (Hin : In q (seq 0 (i_nd I * i_nf I))) by (apply in_seq; lia).
    pose proof (row_ok_sound tol (cls_of I) (i_nd I) _ _ t (Havg q Hin) Hlen) as H1.
    rewrite tsum_unit in H1. exact H1.
  - intros r Hr. unfold system_ok in Hsys. rewrite forallb_forall in Hsys.
    apply (row_ok_zero_sound tol (cls_of I) (i_nd I) r t (Hsys r Hr) Hlen).
Qed.

(* ------------------------------------------------------------------ exact checkers (tol = 0) give the exact hypotheses *)
Lemma near_zero : forall r x y, near 0 r x y = true -> x == y.
Proof.
  intros r x y H. unfold near in H. apply Qle_bool_iff in H.
  apply Qabs_Qle_condition in H. destruct H as [H1 H2].
  setoid_replace (0 * (1 + rowabs r)) with 0 in H1 by ring.
  setoid_replace (0 * (1 + rowabs r)) with 0 in H2 by ring.
  lra.
Qed.

Lemma row_ok_zero_exact : forall cls nd target r,
  row_ok 0 cls nd target r = true -> forall k, (k < nd)%nat -> csum cls k r == target k.
Proof.
  intros cls nd target r H k Hk. unfold row_ok in H. rewrite forallb_forall in H.
  apply (near_zero r). apply H. apply in_seq. lia.
Qed.

Lemma exact_certified : forall I,
  shape_ok I = true -> stress_ok 0 I = true -> mass_ok 0 I = true -> rot_ok 0 I = true ->
  normals_ok 0 I = true -> certified I.
Proof.
  intros I Hshape Hs Hm Hr Hn. unfold shape_ok in Hshape.
  apply andb_prop in Hshape. destruct Hshape as [Hshape Hfaces].
  apply andb_prop in Hshape. destruct Hshape as [Hshape Lacc].
  apply andb_prop in Hshape. destruct Hshape as [Hshape La].
  apply andb_prop in Hshape. destruct Hshape as [Hshape Lm].
  apply andb_prop in Hshape. destruct Hshape as [Hshape Lr].
  apply andb_prop in Hshape. destruct Hshape as [Hshape Ls].
  apply andb_prop in Hshape. destruct Hshape as [Hshape Ldir].
  apply andb_prop in Hshape. destruct Hshape as [Hshape Lnorm].
  apply andb_prop in Hshape. destruct Hshape as [Hdims Linc].
  apply Nat.eqb_eq in Linc, Ls, Lr, Lm.
  constructor.
  - intros f k k' Hf Hk Hk'.
    unfold stress_ok in Hs. rewrite forallb_forall in Hs.
    apply (row_ok_zero_exact (cls_of I) (i_nd I) (fun _ => 0)); [|exact Hk'].
    apply Hs. apply nth_In. rewrite Ls. nia.
  - intros f k Hf Hk.
    unfold mass_ok in Hm. rewrite forallb_forall in Hm.
    assert (Hin : In f (seq 0 (i_nf I))) by (apply in_seq; lia).
    rewrite (row_ok_zero_exact _ _ _ _ (Hm f Hin) k Hk).
    unfold mass_coef, tgt. cbn [fst snd]. ring.
  - intros f i k Hf Hi Hk.
    unfold rot_ok in Hr. rewrite forallb_forall in Hr.
    assert (Hin : In (f * i_rd I + i)%nat (seq 0 (i_rd I * i_nf I))) by (apply in_seq; nia).
    pose proof (row_ok_zero_exact _ _ _ _ (Hr _ Hin) k Hk) as E. cbn beta in E.
    replace ((f * i_rd I + i) mod i_rd I)%nat with i in E.
    2:{ apply (Nat.mod_unique _ _ f i); [exact Hi|lia]. }
    replace ((f * i_rd I + i) / i_rd I)%nat with f in E.
    2:{ apply (Nat.div_unique _ _ f i); [exact Hi|lia]. }
    exact E.
  - intros c j Hc Hj.
    unfold normals_ok in Hn. rewrite forallb_forall in Hn.
    assert (Hin : In (nth c (i_inc I) []) (i_inc I)) by (apply nth_In; lia).
    specialize (Hn _ Hin). rewrite forallb_forall in Hn.
    assert (Hinj : In j (seq 0 (i_nd I))) by (apply in_seq; lia).
    specialize (Hn j Hinj). apply Qle_bool_iff in Hn.
    apply Qabs_Qle_condition in Hn. destruct Hn as [H1 H2].
    revert H1 H2. generalize (iabs (nth c (i_inc I) []) (fun f : nat => ncomp I f j)).
    intros q H1 H2.
    setoid_replace (0 * (1 + q)) with 0 in H1 by ring.
    setoid_replace (0 * (1 + q)) with 0 in H2 by ring. lra.
  - intros c fs Hc Hin.
    rewrite forallb_forall in Hfaces.
    assert (Hic : In (nth c (i_inc I) []) (i_inc I)) by (apply nth_In; lia).
    specialize (Hfaces _ Hic). rewrite forallb_forall in Hfaces.
    apply Nat.ltb_lt. apply Hfaces. exact Hin.
Qed.

(* ------------------------------------------------------------------ a concrete instance:
   the real matrices of pp.Tpsa on CartGrid([2, 1]) (2 cells, 7 faces), mu = 1, lambda = 2,
   Dirichlet everywhere except face 3 (both components Neumann) and face 6 (y-component
   Neumann); all entries are dyadic, so the certificates hold exactly (tolerance 0). *)
Definition ex_inst : inst :=
(mk_inst 2%nat 1%nat 2%nat 7%nat [[(0%nat, ((-1) # 1)); (1%nat, (1 # 1)); (3%nat, ((-1) # 1));
(5%nat, (1 # 1))]; [(1%nat, ((-1) # 1)); (2%nat, (1 # 1)); (4%nat, ((-1) # 1)); (6%nat, (1 # 1))]]
[[(1 # 1); (0 # 1)]; [(1 # 1); (0 # 1)]; [(1 # 1); (0 # 1)]; [(0 # 1); (1 # 1)]; [(0 # 1); (1 # 1)];
[(0 # 1); (1 # 1)]; [(0 # 1); (1 # 1)]] [true; true; false; false; true; true; false; false; true;
true; true; true; true; false] [[(0%nat, (4 # 1)); (6%nat, (1 # 1)); (8%nat, ((-4) # 1))]; [(1%nat,
(4 # 1)); (4%nat, (1 # 1)); (9%nat, ((-4) # 1))]; [(0%nat, ((-2) # 1)); (2%nat, (2 # 1)); (6%nat, (1
# 2)); (7%nat, (1 # 2))]; [(1%nat, ((-2) # 1)); (3%nat, (2 # 1)); (4%nat, (1 # 2)); (5%nat, (1 #
2))]; [(2%nat, ((-4) # 1)); (7%nat, (1 # 1)); (12%nat, (4 # 1))]; [(3%nat, ((-4) # 1)); (5%nat, (1 #
1)); (13%nat, (4 # 1))]; [(14%nat, ((-1) # 1))]; [(15%nat, ((-1) # 1))]; [(2%nat, (4 # 1)); (5%nat,
((-1) # 1)); (16%nat, ((-4) # 1))]; [(3%nat, (4 # 1)); (7%nat, (1 # 1)); (17%nat, ((-4) # 1))];
[(0%nat, ((-4) # 1)); (4%nat, ((-1) # 1)); (18%nat, (4 # 1))]; [(1%nat, ((-4) # 1)); (6%nat, (1 #
1)); (19%nat, (4 # 1))]; [(2%nat, ((-4) # 1)); (5%nat, ((-1) # 1)); (20%nat, (4 # 1))]; [(21%nat, (1
# 1))]] [[(9%nat, ((-1) # 1))]; [(1%nat, ((-1) # 2)); (3%nat, ((-1) # 2))]; [(13%nat, ((-1) # 1))];
[(0%nat, (1 # 1)); (4%nat, ((-1) # 4)); (14%nat, (1 # 4))]; [(16%nat, (1 # 1))]; [(18%nat, (1 #
1))]; [(20%nat, (1 # 1))]] [[(8%nat, (1 # 1))]; [(0%nat, (1 # 2)); (2%nat, (1 # 2)); (6%nat, ((-1) #
8)); (7%nat, (1 # 8))]; [(12%nat, (1 # 1))]; [(1%nat, (1 # 1)); (6%nat, (1 # 4)); (15%nat, (1 #
4))]; [(17%nat, (1 # 1))]; [(19%nat, (1 # 1))]; [(3%nat, (1 # 1)); (7%nat, ((-1) # 4)); (21%nat, (1
# 4))]] [[(8%nat, (1 # 1))]; [(9%nat, (1 # 1))]; [(0%nat, (1 # 2)); (2%nat, (1 # 2))]; [(1%nat, (1 #
2)); (3%nat, (1 # 2))]; [(12%nat, (1 # 1))]; [(13%nat, (1 # 1))]; [(0%nat, (1 # 1)); (14%nat, ((-1)
# 4))]; [(1%nat, (1 # 1)); (15%nat, ((-1) # 4))]; [(16%nat, (1 # 1))]; [(17%nat, (1 # 1))];
[(18%nat, (1 # 1))]; [(19%nat, (1 # 1))]; [(20%nat, (1 # 1))]; [(3%nat, (1 # 1)); (21%nat, (1 #
4))]] [(1 # 1); (1 # 1); (1 # 2); (1 # 2)] (Some ([[((-6785) # 1); ((-1060) # 1); (10460 # 1); (2720
# 1); ((-775) # 1); ((-1060) # 1); ((-1060) # 1); ((-2720) # 1)]; [((-1060) # 1); ((-6116) # 1);
(6640 # 1); ((-6128) # 1); ((-380) # 1); ((-1724) # 1); ((-3920) # 1); (272 # 1)]; [((-775) # 1);
((-380) # 1); (1540 # 1); (2080 # 1); ((-4145) # 1); ((-380) # 1); ((-380) # 1); ((-2080) # 1)];
[((-1060) # 1); ((-1724) # 1); (6640 # 1); ((-272) # 1); ((-380) # 1); ((-6116) # 1); ((-3920) # 1);
(6128 # 1)]; [(10460 # 1); (6640 # 1); ((-100880) # 1); (640 # 1); (1540 # 1); (6640 # 1); (6640 #
1); ((-640) # 1)]; [((-1060) # 1); ((-3920) # 1); (6640 # 1); ((-3200) # 1); ((-380) # 1); ((-3920)
# 1); ((-62480) # 1); (3200 # 1)]; [((-2720) # 1); (6128 # 1); ((-640) # 1); ((-58816) # 1);
((-2080) # 1); (272 # 1); (3200 # 1); ((-11456) # 1)]; [(2720 # 1); ((-272) # 1); (640 # 1);
((-11456) # 1); (2080 # 1); ((-6128) # 1); ((-3200) # 1); ((-58816) # 1)]], (58560 # 1)))).

Lemma ex_inst_check : check 0 ex_inst = true.
Proof. vm_compute. reflexivity. Qed.

Lemma ex_inst_certified : certified ex_inst.
Proof. apply exact_certified; vm_compute; reflexivity. Qed.

(* ------------------------------------------------------------------ non-singularity per instance *)
Lemma rdot_same : forall r v, RowLin.rdot r v = rdot r v.
Proof. induction r as [|ja r IH]; intros v; cbn [RowLin.rdot rdot]; [reflexivity|]. rewrite IH. reflexivity. Qed.

Lemma nonsingular_certificate : forall I N d,
  RowInv.inv_ok (ndof I) (system_rows I) N d = true ->
  forall v : vec, (forall j, (ndof I <= j)%nat -> v j == 0) ->
                  (forall r, In r (system_rows I) -> rdot r v == 0) ->
                  forall j, (j < ndof I)%nat -> v j == 0.
Proof.
  intros I N d H v Hv Hres.
  apply (RowInv.left_inverse_kernel (ndof I) (system_rows I) N d v H Hv).
  intros r Hr. rewrite rdot_same. apply Hres. exact Hr.
Qed.

Lemma check_inv : forall tol I N d,
  check tol I = true -> i_inv I = Some (N, d) ->
  RowInv.inv_ok (ndof I) (system_rows I) N d = true.
Proof.
  intros tol I N d H E. unfold check in H. apply andb_prop in H. destruct H as [_ H].
  unfold inv_cert_ok in H. rewrite E in H. exact H.
Qed.

(* the translation is THE solution on a certified, exactly certified instance *)
Lemma unique_solution_certified : forall I N d t (x : vec),
  certified I -> RowInv.inv_ok (ndof I) (system_rows I) N d = true -> length t = i_nd I ->
  (forall j, (ndof I <= j)%nat -> x j == sv (cls_of I) t j) ->
  (forall r, In r (system_rows I) -> rdot r x == 0) ->
  forall j, (j < ndof I)%nat ->
    x j == if (j <? i_nd I * i_nc I)%nat then nth (j mod i_nd I) t 0 else 0.
Proof.
  intros I N d t x HC Hinv Hlen. apply (tpsa_unique_solution I t x HC Hlen).
  exact (nonsingular_certificate I N d Hinv).
Qed.
