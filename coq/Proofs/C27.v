(* C27 — lemmas: list/offset bookkeeping, SubdomainProjections. *)
From Coq Require Import List ZArith QArith Bool Arith Lia Permutation.
Import ListNotations.
From PP Require Import Model.C27 Model.C27_spec.
Local Open Scope nat_scope.

(* ------------------------------------------------------------------ lists *)
Lemma map_add_seq : forall a s n, map (fun d => a + d) (seq s n) = seq (a + s) n.
Proof.
  intros a s n; revert s; induction n as [|n IH]; intros s; cbn; [reflexivity|].
  f_equal. rewrite IH. f_equal. lia.
Qed.

Lemma flat_map_ext_in : forall {A B} (f g : A -> list B) l,
    (forall a, In a l -> f a = g a) -> flat_map f l = flat_map g l.
Proof.
  intros A B f g l; induction l as [|a l IH]; intros H; cbn; [reflexivity|].
  rewrite (H a (or_introl eq_refl)), IH; [reflexivity|].
  intros b Hb; apply H; right; exact Hb.
Qed.

Lemma flat_map_single : forall {A B} (f : A -> B) l, flat_map (fun a => [f a]) l = map f l.
Proof. intros A B f l; induction l as [|a l IH]; cbn; [reflexivity|now rewrite IH]. Qed.

Lemma flat_map_map : forall {A B C} (f : A -> B) (g : B -> list C) l,
    flat_map g (map f l) = flat_map (fun a => g (f a)) l.
Proof. intros A B C f g l; induction l as [|a l IH]; cbn; [reflexivity|now rewrite IH]. Qed.

Lemma filter_map_comm : forall {A B} (f : A -> B) (p : B -> bool) l,
    filter p (map f l) = map f (filter (fun a => p (f a)) l).
Proof.
  intros A B f p l; induction l as [|a l IH]; cbn; [reflexivity|].
  destruct (p (f a)); cbn; now rewrite IH.
Qed.

Lemma filter_none : forall {A} (p : A -> bool) l,
    (forall a, In a l -> p a = false) -> filter p l = [].
Proof.
  intros A p l; induction l as [|a l IH]; intros H; cbn; [reflexivity|].
  rewrite (H a (or_introl eq_refl)). apply IH. intros b Hb; apply H; right; exact Hb.
Qed.

(* in a list of pairs with distinct second components, the second component is a key *)
Lemma filter_snd_key : forall (L : list (nat * nat)) p,
    NoDup (map snd L) -> In p L -> filter (fun q => snd q =? snd p) L = [p].
Proof.
  induction L as [|q L IH]; intros p Hnd Hin; [destruct Hin|].
  cbn in Hnd. inversion Hnd as [|x xs Hx Hnd' E]; subst.
  destruct Hin as [->|Hin].
  - cbn. rewrite Nat.eqb_refl. f_equal. apply filter_none.
    intros a Ha. apply Nat.eqb_neq. intro E. apply Hx. rewrite <- E. now apply in_map.
  - cbn. destruct (snd q =? snd p) eqn:E.
    + apply Nat.eqb_eq in E. exfalso. apply Hx. rewrite E. now apply in_map.
    + now apply IH.
Qed.

Lemma combine_map_l : forall {A B} (f : A -> B) l,
    combine (map f l) l = map (fun a => (f a, a)) l.
Proof. intros A B f l; induction l as [|a l IH]; cbn; [reflexivity|now rewrite IH]. Qed.

Lemma combine_seq_seq : forall n a b,
    combine (seq a n) (seq b n) = map (fun k => (a + k, b + k)) (seq 0 n).
Proof.
  induction n as [|n IH]; intros a b; cbn; [reflexivity|].
  rewrite !Nat.add_0_r. f_equal.
  rewrite IH. rewrite <- seq_shift, map_map. apply map_ext. intros k. f_equal; lia.
Qed.

Lemma map_fst_combine : forall {A B} (l : list A) (m : list B),
    length l = length m -> map fst (combine l m) = l.
Proof.
  intros A B l; induction l as [|a l IH]; intros [|b m] H; cbn in *; try reflexivity; try discriminate.
  f_equal. apply IH. lia.
Qed.

Lemma map_snd_combine : forall {A B} (l : list A) (m : list B),
    length l = length m -> map snd (combine l m) = m.
Proof.
  intros A B l; induction l as [|a l IH]; intros [|b m] H; cbn in *; try reflexivity; try discriminate.
  f_equal. apply IH. lia.
Qed.

Lemma combine_app : forall {A B} (l1 l2 : list A) (m1 m2 : list B),
    length l1 = length m1 -> combine (l1 ++ l2) (m1 ++ m2) = combine l1 m1 ++ combine l2 m2.
Proof.
  intros A B l1; induction l1 as [|a l1 IH]; intros l2 [|b m1] m2 H; cbn in *;
    try reflexivity; try discriminate.
  f_equal. apply IH. lia.
Qed.

(* ------------------------------------------------------------------ values *)
Lemma Qmult_1_r_eq : forall v : Q, (v * 1)%Q = v.
Proof.
  intros [n d]. unfold Qmult; cbn [Qnum Qden]. now rewrite Z.mul_1_r, Pos.mul_1_r.
Qed.

Lemma Qmult_1_l_eq : forall v : Q, (1 * v)%Q = v.
Proof.
  intros [n d]. unfold Qmult; cbn [Qnum Qden].
  now destruct n.
Qed.

(* ------------------------------------------------------------------ expand_indices_nd *)
Lemma expand_arange : forall n nd, 1 <= nd -> expand_indices_nd (seq 0 n) nd = seq 0 (n * nd).
Proof.
  intros n nd Hnd. unfold expand_indices_nd.
  destruct (nd =? 1) eqn:E.
  - apply Nat.eqb_eq in E; subst. now rewrite Nat.mul_1_r.
  - induction n as [|n IH]; [reflexivity|].
    rewrite seq_S, flat_map_app, IH. cbn [flat_map plus]. rewrite app_nil_r.
    rewrite map_add_seq, Nat.add_0_r.
    replace (S n * nd) with (n * nd + nd) by lia.
    rewrite seq_app. cbn [plus]. f_equal. f_equal. lia.
Qed.

(* ------------------------------------------------------------------ projection dictionaries *)
(* prolongation of one grid: rows = global indices (tot), columns = local indices *)
Definition pmat (tot off s : nat) : mat :=
  mkM tot s (map (fun k => (off + k, k, 1%Q)) (seq 0 s)).

(* its transpose *)
Definition rmat (tot off s : nat) : mat :=
  mkM s tot (map (fun k => (k, off + k, 1%Q)) (seq 0 s)).

Lemma transpose_pmat : forall tot off s, transpose (pmat tot off s) = rmat tot off s.
Proof.
  intros. unfold transpose, pmat, rmat; cbn [nr nc ents]. f_equal.
  rewrite map_map. apply map_ext. reflexivity.
Qed.

Lemma coo_ones_seq : forall tot off s,
    coo_ones tot s (map (fun i => off + i) (seq 0 s)) = Ok (pmat tot off s).
Proof.
  intros. unfold coo_ones. rewrite map_length, seq_length, Nat.eqb_refl.
  unfold pmat. do 2 f_equal. rewrite combine_map_l, map_map. reflexivity.
Qed.

Definition advancing (always : bool) (g : grid) : bool := always || (0 <? gdim g).

Fixpoint pdict_spec (num : grid -> nat) (tot nd : nat) (l : list grid) (off : nat)
         (acc : pdict) : pdict :=
  match l with
  | [] => acc
  | g :: r => pdict_spec num tot nd r (off + num g * nd)
                         ((gid g, pmat tot off (num g * nd)) :: acc)
  end.

(* the grids that advance the offset are non-empty; the others contribute nothing *)
Definition loop_ok (num : grid -> nat) (always : bool) (g : grid) : Prop :=
  if advancing always g then 0 < num g else num g = 0.

Lemma proj_loop_spec : forall num always tot nd l off acc,
    1 <= nd -> Forall (loop_ok num always) l ->
    proj_loop num always tot nd l off acc = Ok (pdict_spec num tot nd l off acc).
Proof.
  intros num always tot nd l; induction l as [|g r IH]; intros off acc Hnd Hok; [reflexivity|].
  inversion Hok as [|x xs Hg Hr]; subst.
  cbn [proj_loop pdict_spec]. rewrite expand_arange by exact Hnd.
  rewrite coo_ones_seq. cbn [bind].
  unfold loop_ok, advancing in Hg.
  destruct (always || (0 <? gdim g)) eqn:Eadv.
  - assert (Hs : exists s', num g * nd = S s') by (exists (num g * nd - 1); nia).
    destruct Hs as [s' Hs]. rewrite Hs.
    rewrite seq_S, map_app, rev_app_distr. cbn [map rev app].
    rewrite IH by assumption. do 2 f_equal. lia.
  - rewrite Hg. cbn [Nat.mul]. rewrite IH by assumption. rewrite Nat.add_0_r. reflexivity.
Qed.

Lemma lookup_pdict_notin : forall num tot nd l off acc k,
    ~ In k (map gid l) -> lookup (pdict_spec num tot nd l off acc) k = lookup acc k.
Proof.
  intros num tot nd l; induction l as [|g r IH]; intros off acc k Hk; [reflexivity|].
  cbn [pdict_spec]. rewrite IH.
  - cbn [lookup]. destruct (gid g =? k) eqn:E; [|reflexivity].
    apply Nat.eqb_eq in E. exfalso. apply Hk. left. exact E.
  - intro H. apply Hk. right. exact H.
Qed.

Lemma lookup_pdict_in : forall num tot nd l off acc g,
    NoDup (map gid l) -> In g l ->
    lookup (pdict_spec num tot nd l off acc) (gid g)
    = Ok (pmat tot (off + pre num l (gid g) * nd) (num g * nd)).
Proof.
  intros num tot nd l; induction l as [|g0 r IH]; intros off acc g Hnd Hin; [destruct Hin|].
  cbn in Hnd. inversion Hnd as [|x xs Hx Hnd' E]; subst.
  cbn [pdict_spec pre].
  destruct Hin as [->|Hin].
  - rewrite lookup_pdict_notin by exact Hx. cbn [lookup]. rewrite Nat.eqb_refl.
    do 2 f_equal. lia.
  - assert (Hne : gid g0 <> gid g).
    { intro E. apply Hx. rewrite E. now apply in_map. }
    apply Nat.eqb_neq in Hne. rewrite Hne.
    rewrite IH by assumption. do 2 f_equal. lia.
Qed.

Lemma lookup_pdict_missing : forall num tot nd l off k,
    ~ In k (map gid l) -> lookup (pdict_spec num tot nd l off []) k = Err KeyErr.
Proof. intros. rewrite lookup_pdict_notin by assumption. reflexivity. Qed.

(* the per-entity well-formedness needed by the two loops *)
Lemma wf_loop_cells : forall l, Forall wf_grid l -> Forall (loop_ok ncells true) l.
Proof.
  intros l H. eapply Forall_impl; [|exact H]. intros g (Hc & _). exact Hc.
Qed.

Lemma wf_loop_faces : forall l, Forall wf_grid l -> Forall (loop_ok nfaces false) l.
Proof.
  intros l H. eapply Forall_impl; [|exact H]. intros g (_ & H0 & H1).
  unfold loop_ok, advancing. cbn [orb].
  destruct (0 <? gdim g) eqn:E.
  - apply Nat.ltb_lt in E. now apply H1.
  - apply Nat.ltb_ge in E. apply H0. lia.
Qed.

Lemma projections_spec : forall e all nd,
    1 <= nd -> Forall wf_grid all ->
    projections_of e (mkSP all nd)
    = Ok (pdict_spec (num_of e) (total (num_of e) all nd) nd all 0 []).
Proof.
  intros e all nd Hnd Hwf. destruct e; cbn [projections_of sp_all sp_nd num_of];
    unfold cell_projections, face_projections, total.
  - apply proj_loop_spec; [exact Hnd|now apply wf_loop_cells].
  - apply proj_loop_spec; [exact Hnd|now apply wf_loop_faces].
Qed.

Lemma lookups_spec : forall num tot nd all req,
    NoDup (map gid all) -> incl req all ->
    lookups (pdict_spec num tot nd all 0 []) req
    = Ok (map (fun g => pmat tot (pre num all (gid g) * nd) (num g * nd)) req).
Proof.
  intros num tot nd all req Hnd; induction req as [|g r IH]; intros Hinc; [reflexivity|].
  cbn [lookups map]. rewrite lookup_pdict_in; [|exact Hnd|apply Hinc; now left].
  cbn [bind plus]. rewrite IH; [reflexivity|]. intros x Hx. apply Hinc. now right.
Qed.

(* ------------------------------------------------------------------ stacking *)
(* rows a, a+1, ... select the columns cs *)
Definition selents (a : nat) (cs : list nat) : list entry :=
  map (fun p => (fst p, snd p, 1%Q)) (combine (seq a (length cs)) cs).

Lemma selents_app : forall a cs1 cs2,
    selents a (cs1 ++ cs2) = selents a cs1 ++ selents (a + length cs1) cs2.
Proof.
  intros. unfold selents. rewrite app_length, seq_app, combine_app, map_app.
  - reflexivity.
  - now rewrite seq_length.
Qed.

Lemma shift_rmat_ents : forall a tot off s,
    map (shift_row a) (ents (rmat tot off s)) = selents a (seq off s).
Proof.
  intros. unfold rmat, selents; cbn [ents]. rewrite seq_length, combine_seq_seq, !map_map.
  apply map_ext. intros k. reflexivity.
Qed.

Lemma vstack_ents_rmats : forall tot (off sz : grid -> nat) req a,
    vstack_ents (map (fun g => rmat tot (off g) (sz g)) req) a
    = selents a (flat_map (fun g => seq (off g) (sz g)) req).
Proof.
  intros tot off sz req; induction req as [|g r IH]; intros a; [reflexivity|].
  cbn [map vstack_ents flat_map]. rewrite shift_rmat_ents, IH, selents_app, seq_length.
  reflexivity.
Qed.

Lemma sum_nr_rmats : forall tot (off sz : grid -> nat) req,
    sum_by nr (map (fun g => rmat tot (off g) (sz g)) req)
    = length (flat_map (fun g => seq (off g) (sz g)) req).
Proof.
  intros; induction req as [|g r IH]; [reflexivity|].
  cbn [map sum_by flat_map]. rewrite app_length, seq_length, IH. reflexivity.
Qed.

Lemma forallb_nc_rmats : forall tot (off sz : grid -> nat) req,
    forallb (fun B => nc B =? tot) (map (fun g => rmat tot (off g) (sz g)) req) = true.
Proof.
  intros; induction req as [|g r IH]; [reflexivity|].
  cbn [map forallb]. rewrite IH. cbn [rmat nc]. now rewrite Nat.eqb_refl.
Qed.

Lemma vstack_rmats : forall tot (off sz : grid -> nat) req,
    req <> [] ->
    vstack (map (fun g => rmat tot (off g) (sz g)) req)
    = Ok (selection tot (flat_map (fun g => seq (off g) (sz g)) req)).
Proof.
  intros tot off sz req Hne. destruct req as [|g r]; [congruence|].
  unfold vstack. cbn [map]. cbn [nc rmat].
  change (rmat tot (off g) (sz g) :: map (fun g0 => rmat tot (off g0) (sz g0)) r)
    with (map (fun g0 => rmat tot (off g0) (sz g0)) (g :: r)).
  rewrite forallb_nc_rmats, sum_nr_rmats, vstack_ents_rmats. reflexivity.
Qed.

(* hstack is vstack of the transposes, transposed *)
Definition tr_ents (l : list entry) : list entry := map (fun e => (ecol e, erow e, evl e)) l.

Lemma hstack_ents_tr : forall l a,
    hstack_ents l a = tr_ents (vstack_ents (map transpose l) a).
Proof.
  induction l as [|A l IH]; intros a; [reflexivity|].
  cbn [map hstack_ents vstack_ents]. unfold tr_ents in *. rewrite map_app, IH.
  f_equal. cbn [transpose ents nr]. rewrite !map_map. apply map_ext. reflexivity.
Qed.

Lemma sum_by_nr_transpose : forall m, sum_by nr (map transpose m) = sum_by nc m.
Proof. induction m as [|B m IH]; [reflexivity|]. cbn [map sum_by]. now rewrite IH. Qed.

Lemma forallb_transpose : forall A m,
    forallb (fun B => nc B =? nc (transpose A)) (map transpose m)
    = forallb (fun B => nr B =? nr A) m.
Proof. intros A m; induction m as [|B m IH]; [reflexivity|]. cbn [map forallb]. now rewrite IH. Qed.

Lemma hstack_as_vstack : forall l,
    hstack l = bind (vstack (map transpose l)) (fun m => Ok (transpose m)).
Proof.
  intros [|A l]; [reflexivity|].
  unfold hstack, vstack.
  change (map transpose (A :: l)) with (transpose A :: map transpose l).
  cbv iota.
  change (transpose A :: map transpose l) with (map transpose (A :: l)).
  rewrite forallb_transpose.
  destruct (forallb (fun B => nr B =? nr A) (A :: l)); [|reflexivity].
  cbn [bind]. rewrite hstack_ents_tr, sum_by_nr_transpose. reflexivity.
Qed.

(* prolongation = transpose of restriction, unconditionally (errors included) *)
Lemma prolongation_is_transpose : forall e sp req,
    prolongation e sp req = bind (restriction e sp req) (fun m => Ok (transpose m)).
Proof.
  intros. unfold prolongation, restriction.
  destruct (projections_of e sp) as [d|er]; [|reflexivity]. cbn [bind].
  destruct req as [|g r]; [reflexivity|].
  destruct (lookups d (g :: r)) as [ms|er]; [|reflexivity]. cbn [bind].
  rewrite hstack_as_vstack. reflexivity.
Qed.

(* ------------------------------------------------------------------ restriction selects *)
Lemma map_transpose_pmats : forall tot (off sz : grid -> nat) req,
    map transpose (map (fun g => pmat tot (off g) (sz g)) req)
    = map (fun g => rmat tot (off g) (sz g)) req.
Proof.
  intros. rewrite map_map. apply map_ext. intros g. apply transpose_pmat.
Qed.

Lemma restriction_selects : forall e all nd req,
    1 <= nd -> Forall wf_grid all -> NoDup (map gid all) -> incl req all ->
    restriction e (mkSP all nd) req
    = Ok (selection (total (num_of e) all nd) (blocks (num_of e) all nd req)).
Proof.
  intros e all nd req Hnd Hwf Hnodup Hinc.
  unfold restriction. rewrite projections_spec by assumption. cbn [bind].
  destruct req as [|g r] eqn:Ereq; [reflexivity|]. rewrite <- Ereq in *.
  assert (Hne : req <> []) by (rewrite Ereq; discriminate).
  replace (match req with [] => Ok (zeros 0 (sum_by (num_of e) (sp_all (mkSP all nd)) * sp_nd (mkSP all nd)))
                        | _ :: _ => bind (lookups (pdict_spec (num_of e) (total (num_of e) all nd) nd all 0 []) req)
                                     (fun ms => vstack (map transpose ms)) end)
    with (bind (lookups (pdict_spec (num_of e) (total (num_of e) all nd) nd all 0 []) req)
               (fun ms => vstack (map transpose ms))) by (rewrite Ereq; reflexivity).
  rewrite lookups_spec by assumption. cbn [bind].
  rewrite (map_transpose_pmats _ (fun g => pre (num_of e) all (gid g) * nd) (fun g => num_of e g * nd)).
  rewrite vstack_rmats by exact Hne. reflexivity.
Qed.

Lemma nodupb_true : forall l, NoDup l -> nodupb l = true.
Proof.
  induction l as [|x l IH]; intros H; [reflexivity|].
  inversion H as [|y ys Hx Hl]; subst. cbn [nodupb]. rewrite IH by exact Hl.
  rewrite andb_true_r. apply negb_true_iff.
  destruct (existsb (Nat.eqb x) l) eqn:E; [|reflexivity].
  apply existsb_exists in E. destruct E as (y & Hy & Exy). apply Nat.eqb_eq in Exy. subst.
  contradiction.
Qed.

Lemma nodupb_false : forall l, ~ NoDup l -> nodupb l = false.
Proof.
  induction l as [|x l IH]; intros H; [exfalso; apply H; constructor|].
  cbn [nodupb]. destruct (existsb (Nat.eqb x) l) eqn:E; [reflexivity|].
  cbn [negb andb]. apply IH. intro Hl. apply H. constructor; [|exact Hl].
  intro Hx. assert (existsb (Nat.eqb x) l = true).
  { apply existsb_exists. exists x. split; [exact Hx|apply Nat.eqb_refl]. }
  congruence.
Qed.

(* ------------------------------------------------------------------ products of selections *)
Definition fwd (p : nat * nat) : entry := (fst p, snd p, 1%Q).
Definition bwd (p : nat * nat) : entry := (snd p, fst p, 1%Q).

Definition mul_ents (A B : list entry) : list entry :=
  flat_map (fun a => map (fun b => (erow a, ecol b, (evl a * evl b)%Q))
                         (filter (fun b => erow b =? ecol a) B)) A.

Lemma mul_fwd_bwd : forall L : list (nat * nat),
    NoDup (map snd L) ->
    mul_ents (map fwd L) (map bwd L) = map (fun p => (fst p, fst p, 1%Q)) L.
Proof.
  intros L Hnd. unfold mul_ents. rewrite flat_map_map.
  rewrite <- (flat_map_single (fun p : nat * nat => (fst p, fst p, 1%Q)) L).
  apply flat_map_ext_in. intros p Hp.
  rewrite filter_map_comm. cbn [fwd bwd erow ecol evl fst snd].
  rewrite (filter_snd_key L p Hnd Hp). reflexivity.
Qed.

Definition swap (p : nat * nat) : nat * nat := (snd p, fst p).

Lemma mul_bwd_fwd : forall L : list (nat * nat),
    NoDup (map fst L) ->
    mul_ents (map bwd L) (map fwd L) = map (fun p => (snd p, snd p, 1%Q)) L.
Proof.
  intros L Hnd.
  assert (E1 : map bwd L = map fwd (map swap L)) by (rewrite map_map; reflexivity).
  assert (E2 : map fwd L = map bwd (map swap L)) by (rewrite map_map; apply map_ext; intros []; reflexivity).
  rewrite E1, E2, mul_fwd_bwd.
  - rewrite map_map. reflexivity.
  - rewrite map_map. cbn [swap snd]. exact Hnd.
Qed.

Lemma selection_ents : forall tot cs,
    ents (selection tot cs) = map fwd (combine (seq 0 (length cs)) cs).
Proof. reflexivity. Qed.

Lemma transpose_selection_ents : forall tot cs,
    ents (transpose (selection tot cs)) = map bwd (combine (seq 0 (length cs)) cs).
Proof.
  intros. unfold transpose, selection; cbn [ents]. rewrite map_map. reflexivity.
Qed.

Lemma mul_sel_selT : forall tot cs,
    NoDup cs ->
    mul (selection tot cs) (transpose (selection tot cs)) = Ok (identity (length cs)).
Proof.
  intros tot cs Hnd. unfold mul. cbn [nc nr selection transpose]. rewrite Nat.eqb_refl.
  unfold identity. do 2 f_equal.
  change (mul_ents (ents (selection tot cs)) (ents (transpose (selection tot cs)))
          = map (fun k => (k, k, 1%Q)) (seq 0 (length cs))).
  rewrite selection_ents, transpose_selection_ents, mul_fwd_bwd.
  - rewrite <- (map_map fst (fun k => (k, k, 1%Q))).
    rewrite map_fst_combine by now rewrite seq_length. reflexivity.
  - rewrite map_snd_combine by now rewrite seq_length. exact Hnd.
Qed.

Lemma mul_selT_sel : forall tot cs,
    mul (transpose (selection tot cs)) (selection tot cs) = Ok (indicator tot cs).
Proof.
  intros tot cs. unfold mul. cbn [nc nr selection transpose]. rewrite Nat.eqb_refl.
  unfold indicator. do 2 f_equal.
  change (mul_ents (ents (transpose (selection tot cs))) (ents (selection tot cs))
          = map (fun c => (c, c, 1%Q)) cs).
  rewrite selection_ents, transpose_selection_ents, mul_bwd_fwd.
  - rewrite <- (map_map snd (fun c => (c, c, 1%Q))).
    rewrite map_snd_combine by now rewrite seq_length. reflexivity.
  - rewrite map_fst_combine by now rewrite seq_length. apply seq_NoDup.
Qed.

(* ------------------------------------------------------------------ blocks *)
Lemma blocks_all_from : forall num nd (l all : list grid) (base : nat),
    NoDup (map gid (all ++ l)) ->
    flat_map (fun g => seq (pre num (all ++ l) (gid g) * nd) (num g * nd)) l
    = seq (sum_by num all * nd) (sum_by num l * nd).
Proof.
  intros num nd l; induction l as [|g r IH]; intros all base Hnd.
  - cbn. reflexivity.
  - cbn [flat_map sum_by].
    assert (Hpre : pre num (all ++ g :: r) (gid g) = sum_by num all).
    { clear IH. induction all as [|a all IHa].
      - cbn. now rewrite Nat.eqb_refl.
      - cbn [app pre sum_by]. cbn in Hnd. inversion Hnd as [|x xs Hx Hnd' E]; subst.
        destruct (gid a =? gid g) eqn:E.
        + apply Nat.eqb_eq in E. exfalso. apply Hx. rewrite E, map_app. apply in_or_app.
          right. now left.
        + now rewrite IHa. }
    rewrite Hpre.
    replace (all ++ g :: r) with ((all ++ [g]) ++ r) in * by now rewrite <- app_assoc.
    rewrite (IH (all ++ [g]) base Hnd).
    replace (sum_by num (all ++ [g])) with (sum_by num all + num g).
    + replace ((num g + sum_by num r) * nd) with (num g * nd + sum_by num r * nd) by lia.
      rewrite seq_app. f_equal. f_equal. lia.
    + clear. induction all as [|a all IHa]; cbn; [lia|]. rewrite <- IHa. lia.
Qed.

Lemma blocks_all : forall num all nd,
    NoDup (map gid all) -> blocks num all nd all = seq 0 (total num all nd).
Proof.
  intros num all nd Hnd. unfold blocks, block, total.
  exact (blocks_all_from num nd all [] 0 Hnd).
Qed.

Lemma blocks_length : forall num all nd req,
    length (blocks num all nd req) = sum_by (fun g => num g * nd) req.
Proof.
  intros; induction req as [|g r IH]; [reflexivity|].
  unfold blocks in *. cbn [flat_map sum_by]. rewrite app_length, IH. unfold block.
  now rewrite seq_length.
Qed.

Lemma nodup_drop_l : forall {A} (l m : list A), NoDup (l ++ m) -> NoDup m.
Proof.
  intros A l; induction l as [|a l IH]; intros m H; [exact H|].
  cbn [app] in H. inversion H; subst. now apply IH.
Qed.

Lemma nodup_drop_r : forall {A} (l m : list A), NoDup (l ++ m) -> NoDup l.
Proof.
  intros A l; induction l as [|a l IH]; intros m H; [constructor|].
  cbn [app] in H. inversion H as [|x xs Hx Hr E]; subst. constructor.
  - intro Ha. apply Hx. apply in_or_app. now left.
  - now apply (IH m).
Qed.

(* sub-lists without repetition of a list whose blocks are disjoint have disjoint blocks *)
Lemma NoDup_flat_map_disjoint : forall {A B} (f : A -> list B) l a b x,
    NoDup (flat_map f l) -> In a l -> In b l -> a <> b -> In x (f a) -> In x (f b) -> False.
Proof.
  intros A B f l; induction l as [|c l IH]; intros a b x Hnd Ha Hb Hab Hxa Hxb; [destruct Ha|].
  cbn [flat_map] in Hnd.
  assert (Hsplit := Hnd). apply nodup_drop_l in Hsplit.
  destruct Ha as [->|Ha], Hb as [->|Hb].
  - congruence.
  - (* x in f a (head) and in flat_map f l *)
    assert (Hx2 : In x (flat_map f l)) by (apply in_flat_map; exists b; tauto).
    clear - Hnd Hxa Hx2. induction (f a) as [|y ys IHy]; [destruct Hxa|].
    cbn [app] in Hnd. inversion Hnd as [|z zs Hz Hnd' E]; subst.
    destruct Hxa as [->|Hxa].
    + apply Hz. apply in_or_app. now right.
    + now apply IHy.
  - assert (Hx2 : In x (flat_map f l)) by (apply in_flat_map; exists a; tauto).
    clear - Hnd Hxb Hx2. induction (f b) as [|y ys IHy]; [destruct Hxb|].
    cbn [app] in Hnd. inversion Hnd as [|z zs Hz Hnd' E]; subst.
    destruct Hxb as [->|Hxb].
    + apply Hz. apply in_or_app. now right.
    + now apply IHy.
  - exact (IH a b x Hsplit Ha Hb Hab Hxa Hxb).
Qed.

Lemma NoDup_flat_map_in : forall {A B} (f : A -> list B) l a,
    NoDup (flat_map f l) -> In a l -> NoDup (f a).
Proof.
  intros A B f l; induction l as [|c l IH]; intros a Hnd Ha; [destruct Ha|].
  cbn [flat_map] in Hnd. destruct Ha as [->|Ha].
  - now apply nodup_drop_r in Hnd.
  - apply IH; [|exact Ha]. now apply nodup_drop_l in Hnd.
Qed.

Lemma NoDup_app_intro : forall {A} (l m : list A),
    NoDup l -> NoDup m -> (forall x, In x l -> In x m -> False) -> NoDup (l ++ m).
Proof.
  intros A l; induction l as [|a l IH]; intros m Hl Hm Hd; [exact Hm|].
  cbn [app]. inversion Hl as [|x xs Ha Hl' E]; subst. constructor.
  - intro H. apply in_app_or in H. destruct H as [H|H]; [contradiction|].
    apply (Hd a); [now left|exact H].
  - apply IH; [exact Hl'|exact Hm|]. intros x Hx Hxm. apply (Hd x); [now right|exact Hxm].
Qed.

Lemma NoDup_flat_map_sub : forall {A B} (f : A -> list B) l r,
    NoDup (flat_map f l) -> NoDup r -> incl r l -> NoDup (flat_map f r).
Proof.
  intros A B f l r Hnd; induction r as [|a r IH]; intros Hr Hinc; [constructor|].
  cbn [flat_map]. inversion Hr as [|x xs Ha Hr' E]; subst.
  apply NoDup_app_intro.
  - apply (NoDup_flat_map_in f l a Hnd). apply Hinc. now left.
  - apply IH; [exact Hr'|]. intros x Hx. apply Hinc. now right.
  - intros x Hxa Hxr. apply in_flat_map in Hxr. destruct Hxr as (b & Hb & Hxb).
    apply (NoDup_flat_map_disjoint f l a b x Hnd).
    + apply Hinc. now left.
    + apply Hinc. now right.
    + intro E. subst. contradiction.
    + exact Hxa.
    + exact Hxb.
Qed.

Lemma blocks_NoDup : forall num all nd req,
    NoDup (map gid all) -> NoDup req -> incl req all -> NoDup (blocks num all nd req).
Proof.
  intros num all nd req Hnd Hr Hinc. unfold blocks.
  apply (NoDup_flat_map_sub (block num all nd) all req); [|exact Hr|exact Hinc].
  change (NoDup (blocks num all nd all)). rewrite blocks_all by exact Hnd. apply seq_NoDup.
Qed.

Lemma blocks_Permutation : forall num all nd req,
    NoDup (map gid all) -> Permutation req all ->
    Permutation (blocks num all nd req) (seq 0 (total num all nd)).
Proof.
  intros num all nd req Hnd Hp. rewrite <- (blocks_all num all nd Hnd).
  unfold blocks. now apply Permutation_flat_map.
Qed.

Lemma in_blocks : forall num all nd req c,
    In c (blocks num all nd req) <->
    exists g, In g req /\ pre num all (gid g) * nd <= c < pre num all (gid g) * nd + num g * nd.
Proof.
  intros. unfold blocks, block. rewrite in_flat_map. split.
  - intros (g & Hg & Hc). exists g. split; [exact Hg|]. apply in_seq in Hc. exact Hc.
  - intros (g & Hg & Hc). exists g. split; [exact Hg|]. apply in_seq. exact Hc.
Qed.

(* ------------------------------------------------------------------ the main statements *)
Lemma sp_init_ok : forall all nd, NoDup (map gid all) -> sp_init all nd = Ok (mkSP all nd).
Proof. intros. unfold sp_init. now rewrite nodupb_true. Qed.

Lemma sp_init_duplicate : forall all nd, ~ NoDup (map gid all) -> sp_init all nd = Err ValueErr.
Proof. intros. unfold sp_init. now rewrite nodupb_false. Qed.

Lemma operators_select : forall e all nd req,
    1 <= nd -> Forall wf_grid all -> NoDup (map gid all) -> incl req all ->
    let sel := selection (total (num_of e) all nd) (blocks (num_of e) all nd req) in
    sp_init all nd = Ok (mkSP all nd) /\
    restriction e (mkSP all nd) req = Ok sel /\
    prolongation e (mkSP all nd) req = Ok (transpose sel).
Proof.
  intros e all nd req Hnd Hwf Hnodup Hinc sel. split; [now apply sp_init_ok|]. split.
  - now apply restriction_selects.
  - rewrite prolongation_is_transpose, restriction_selects by assumption. reflexivity.
Qed.

Lemma restrict_prolong_id : forall e all nd req,
    1 <= nd -> Forall wf_grid all -> NoDup (map gid all) -> incl req all -> NoDup req ->
    let sp := mkSP all nd in
    bind (restriction e sp req) (fun R => bind (prolongation e sp req) (fun P => mul R P))
    = Ok (identity (sum_by (fun g => num_of e g * nd) req)) /\
    bind (restriction e sp req) (fun R => bind (prolongation e sp req) (fun P => mul P R))
    = Ok (indicator (total (num_of e) all nd) (blocks (num_of e) all nd req)).
Proof.
  intros e all nd req Hnd Hwf Hnodup Hinc Hreq sp.
  destruct (operators_select e all nd req Hnd Hwf Hnodup Hinc) as (_ & HR & HP).
  unfold sp. rewrite HR, HP. cbn [bind]. split.
  - rewrite mul_sel_selT by now apply blocks_NoDup. now rewrite blocks_length.
  - apply mul_selT_sel.
Qed.

Lemma prolong_permutation : forall e all nd req,
    1 <= nd -> Forall wf_grid all -> NoDup (map gid all) -> Permutation req all ->
    let cs := blocks (num_of e) all nd req in
    prolongation e (mkSP all nd) req = Ok (transpose (selection (total (num_of e) all nd) cs)) /\
    Permutation cs (seq 0 (total (num_of e) all nd)) /\ NoDup cs /\
    length cs = total (num_of e) all nd /\
    blocks (num_of e) all nd all = seq 0 (total (num_of e) all nd).
Proof.
  intros e all nd req Hnd Hwf Hnodup Hp cs.
  assert (Hinc : incl req all) by (intros x Hx; eapply Permutation_in; eassumption).
  destruct (operators_select e all nd req Hnd Hwf Hnodup Hinc) as (_ & _ & HP).
  assert (Hperm : Permutation cs (seq 0 (total (num_of e) all nd)))
    by now apply blocks_Permutation.
  split; [exact HP|]. split; [exact Hperm|]. split.
  - eapply Permutation_NoDup; [apply Permutation_sym; exact Hperm|apply seq_NoDup].
  - split; [|now apply blocks_all].
    rewrite (Permutation_length Hperm). apply seq_length.
Qed.

Lemma unknown_grid_keyerror : forall e all nd req,
    1 <= nd -> Forall wf_grid all ->
    (exists g, In g req /\ ~ In (gid g) (map gid all)) ->
    (forall g, In g req -> In (gid g) (map gid all) -> In g all) -> NoDup (map gid all) ->
    restriction e (mkSP all nd) req = Err KeyErr /\
    prolongation e (mkSP all nd) req = Err KeyErr.
Proof.
  intros e all nd req Hnd Hwf (g0 & Hg0 & Hmiss) Hcons Hnodup.
  assert (HR : restriction e (mkSP all nd) req = Err KeyErr).
  { unfold restriction. rewrite projections_spec by assumption. cbn [bind].
    destruct req as [|g r] eqn:Ereq; [destruct Hg0|]. rewrite <- Ereq in *.
    assert (HL : lookups (pdict_spec (num_of e) (total (num_of e) all nd) nd all 0 []) req
                 = Err KeyErr).
    { clear Ereq. induction req as [|x xs IH]; [destruct Hg0|].
      cbn [lookups].
      destruct (in_dec Nat.eq_dec (gid x) (map gid all)) as [Hin|Hnin].
      - rewrite lookup_pdict_in; [|exact Hnodup|apply Hcons; [now left|exact Hin]].
        cbn [bind]. destruct Hg0 as [->|Hg0]; [contradiction|].
        rewrite IH; [reflexivity|exact Hg0|].
        intros y Hy. apply Hcons. now right.
      - rewrite lookup_pdict_missing by exact Hnin. reflexivity. }
    rewrite Ereq in HL |- *. rewrite HL. reflexivity. }
  split; [exact HR|]. rewrite prolongation_is_transpose, HR. reflexivity.
Qed.
