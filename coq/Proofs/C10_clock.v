(* C10 — the clock of the product run.  Proofs.C10.simulate_ok shows that the clock trace of
   the product model IS the C09 time loop on the events derived from the solver verdicts;
   here C09's main theorem (exact real arithmetic) is applied to it. *)
From Coq Require Import List ZArith Bool Arith Lia Reals Lra Sorted.
Import ListNotations.
From PP Require Model.C08 Model.C09 Proofs.C09.
From PP Require Import Model.C10 Proofs.C10.

Local Open Scope R_scope.

Section Generic.
  Variable T : Type.
  Variable O : C09.numops T.
  Variable c : C09.cfg T.
  Variable sched : list T.

  (* a finished time loop ended in a state where final_time_reached() holds, and no event of
     it raised *)
  Lemma drive_finished : forall evs s tr,
      C09.drive T O c sched s evs = (tr, C09.Finished) ->
      C09.final_time_reached T O c sched (last (map (fun x => snd (fst x)) tr) s) = true /\
      Forall (fun x => forall e, snd x <> C09.OErr e) tr.
  Proof.
    induction evs as [|ev evs IH]; intros s tr H; cbn [C09.drive] in H.
    - destruct (C09.final_time_reached T O c sched s) eqn:Efin; inversion H; subst.
      split; [exact Efin|constructor].
    - destruct (C09.final_time_reached T O c sched s) eqn:Efin.
      { inversion H; subst. split; [exact Efin|constructor]. }
      match type of H with (let (s2, o) := ?X in _) = _ => destruct X as [s2 o] end.
      destruct o as [| x | b | | e];
        try (destruct (C09.drive T O c sched s2 evs) as [tr' st'] eqn:Erec;
             inversion H; subst; clear H;
             destruct (IH _ _ Erec) as [IH1 IH2];
             cbn [map fst snd]; rewrite last_cons; split;
             [exact IH1|constructor; [cbn [snd]; intros e; discriminate|exact IH2]]).
      inversion H.
  Qed.
End Generic.

Lemma accepted_app (l1 l2 : list (C09.event * C09.state R * C09.out R)) :
  C09.accepted R (l1 ++ l2) = C09.accepted R l1 ++ C09.accepted R l2.
Proof.
  induction l1 as [|[[ev s] o] l1 IH]; [reflexivity|].
  cbn [app C09.accepted]. destruct ev; destruct o; cbn [app]; rewrite IH; reflexivity.
Qed.

Lemma last_In_cons (A : Type) (l : list A) (d : A) : In (last l d) (d :: l).
Proof.
  revert d. induction l as [|x l IH]; intros d; [left; reflexivity|].
  rewrite last_cons. right. apply IH.
Qed.

Lemma snoc_cases (A : Type) (l : list A) : l = [] \/ exists l' x, l = l' ++ [x].
Proof.
  induction l as [|x l _] using rev_ind; [left; reflexivity|].
  right. exists l, x. reflexivity.
Qed.

Theorem ends_at_final_time :
  forall (V : Type) (vadd : V -> V -> V) (dI dT : nat) (maxit : Z)
         (a : C09.args R) (sched : list R) (v0 : V) (solves : list (list (V * bool * bool)))
         (c : C09.cfg R) (st0 : store V) (tr : list (entry V R)) (sp : stop),
    (1 <= dI)%nat -> (1 <= dT)%nat ->
    simulate V vadd R C09.ROps maxit a sched (map Z.of_nat (seq 0 dI)) (map Z.of_nat (seq 0 dT))
             v0 solves = inl (c, st0, (tr, sp)) ->
    C09.a_constant a = false ->
    0 < C09.dt_min c -> 0 <= C09.a_rtol a -> 0 <= C09.a_atol a ->
    C09.well_separated (C09.a_rtol a) (C09.a_atol a) sched ->
    C09.a_dt_init a <= nth 1 sched 0 - nth 0 sched 0 ->
    let t_end := C09.time (final_clock (C09.init_state R C09.ROps c sched) tr) in
    (forall e, sp <> RaisedStore e) /\
    (forall e, sp = RaisedClock e -> e = C09.E_recomp_exhausted \/ e = C09.E_dt_at_min) /\
    (sp = Finished ->
       t_end <= last sched 0 /\ C09.isclose R C09.ROps c t_end (last sched 0) = true).
Proof.
  intros V vadd dI dT maxit a sched v0 solves c st0 tr sp HdI HdT Hs Hc Hmin Hrt Hat Hsep Hinit
         t_end.
  destruct (simulate_ok V vadd R C09.ROps dI dT HdI HdT maxit v0 _ _ _ _ _ _ _ Hs)
    as [_ [_ [Hsp [_ H09]]]].
  destruct (C09.main_theorem a sched _ c _ _ H09 Hc Hmin Hrt Hat Hsep Hinit)
    as [_ [Hle [_ [_ [Hrew [_ Hraise]]]]]].
  split; [exact Hsp|split].
  - intros e He. subst sp. apply Hraise. reflexivity.
  - intros He. subst sp. cbn [stop_of] in *.
    unfold C09.simulate in H09.
    destruct (C09.construct R C09.ROps a sched) as [c'|e]; [|discriminate].
    assert (Hd : C09.drive R C09.ROps c sched (C09.init_state R C09.ROps c sched)
                           (map ev_of tr) = (map clock_of tr, C09.Finished)) by congruence.
    clear H09. destruct (drive_finished _ _ _ _ _ _ _ Hd) as [Hfin Hnoerr].
    set (s0 := C09.init_state R C09.ROps c sched) in *.
    assert (Hclk : last (map (fun x => snd (fst x)) (map clock_of tr)) s0 = final_clock s0 tr).
    { unfold final_clock. rewrite map_map. reflexivity. }
    rewrite Hclk in Hfin. fold t_end in Hfin.
    assert (Hend : t_end <= last sched 0).
    { rewrite Forall_forall in Hle. apply Hle. unfold t_end. rewrite <- Hclk.
      destruct (snoc_cases _ (map clock_of tr)) as [El | [l [x El]]]; rewrite El in *.
      - cbn [map last]. left. unfold s0. cbn [C09.init_state C09.time].
        destruct sched; reflexivity.
      - destruct x as [[ev x] o]. rewrite map_app. cbn [map]. rewrite last_last. cbn [map fst snd].
        assert (Ho : forall e, o <> C09.OErr e).
        { rewrite Forall_forall in Hnoerr. apply (Hnoerr (ev, x, o)).
          apply in_or_app. right. left. reflexivity. }
        destruct ev as [k|].
        + right. rewrite accepted_app. apply in_or_app. right. cbn [C09.accepted].
          destruct o; try (left; reflexivity). exfalso. exact (Ho _ eq_refl).
        + destruct (Hrew l x o [] eq_refl) as [Ht | [e [Eo _]]].
          * rewrite Ht.
            destruct (last_In_cons _ (C09.accepted R l) (nth 0 sched 0)) as [Hin|Hin].
            -- left. exact Hin.
            -- right. rewrite accepted_app. apply in_or_app. left. exact Hin.
          * exfalso. exact (Ho _ Eo). }
    split; [exact Hend|].
    unfold C09.final_time_reached in Hfin. apply orb_true_iff in Hfin.
    destruct Hfin as [Hlt|Hcl]; [|exact Hcl].
    exfalso. unfold C09.time_final in Hlt. cbn [C09.n_ltb C09.n_zero C09.ROps] in Hlt.
    apply C09.Rltb_true in Hlt. fold t_end in Hlt. lra.
Qed.
