(* C30 — proofs over the real instance of the model (instance RO of Proofs/C32.v). *)
From Coq Require Import Reals Lra List Bool Arith.
Import ListNotations.
From PP Require Import Model.C32 Model.C30 Proofs.C32.
Open Scope R_scope.

Notation vaddR := (vadd R RO).

Ltac rsimp30 :=
  cbv [point_point_sq normsq vadd vsub vscale dot vx vy vz
       n_zero n_one n_add n_sub n_mul n_div n_opp RO fst snd] in *.

(* |p - (a + t (b-a))|^2 as a quadratic in t *)
Lemma expand_quadratic (p a b : V) (t : R) :
  normsqR (vsubR p (vaddR a (vscaleR t (vsubR b a))))
  = normsqR (vsubR p a) - 2 * t * dotR (vsubR p a) (vsubR b a)
    + t * t * dotR (vsubR b a) (vsubR b a).
Proof.
  destruct p as [[p0 p1] p2], a as [[a0 a1] a2], b as [[b0 b1] b2]. rsimp30. ring.
Qed.

Lemma at_b (p a b : V) :
  normsqR (vsubR p b)
  = normsqR (vsubR p a) - 2 * dotR (vsubR p a) (vsubR b a) + dotR (vsubR b a) (vsubR b a).
Proof.
  destruct p as [[p0 p1] p2], a as [[a0 a1] a2], b as [[b0 b1] b2]. rsimp30. ring.
Qed.

Lemma seg_at_0 (a b : V) : vaddR a (vscaleR 0 (vsubR b a)) = a.
Proof. destruct a as [[a0 a1] a2], b as [[b0 b1] b2]. rsimp30. apply v3_ext; ring. Qed.
Lemma seg_at_1 (a b : V) : vaddR a (vscaleR 1 (vsubR b a)) = b.
Proof. destruct a as [[a0 a1] a2], b as [[b0 b1] b2]. rsimp30. apply v3_ext; ring. Qed.

Lemma point_segment_spec (p a b : V) (d2 : R) (cp : V) :
  point_segment R RO p a b = Ok (d2, cp) ->
  (exists s, 0 <= s <= 1 /\ cp = vaddR a (vscaleR s (vsubR b a))) /\
  d2 = normsqR (vsubR p cp) /\
  forall t, 0 <= t <= 1 -> d2 <= normsqR (vsubR p (vaddR a (vscaleR t (vsubR b a)))).
Proof.
  unfold point_segment. cbv zeta. cbn [n_leb n_zero n_one n_div RO].
  set (L := dotR (vsubR b a) (vsubR b a)).
  set (K := dotR (vsubR p a) (vsubR b a)).
  destruct (Rleb L 0) eqn:EL; [discriminate|]. apply Rleb_false in EL.
  assert (HK : K / L * L = K) by (field; lra).
  remember (K / L) as pr eqn:Epr.
  destruct (Rleb pr 0) eqn:E0; [apply Rleb_true in E0|apply Rleb_false in E0].
  - intros H. injection H as <- <-. split; [|split].
    + exists 0. split; [lra|]. symmetry. apply seg_at_0.
    + reflexivity.
    + intros t Ht. rewrite expand_quadratic. fold K L.
      assert (K <= 0) by nra. assert (t * K <= 0) by nra.
      assert (0 <= t * t * L) by (apply Rmult_le_pos; nra).
      assert (HH : forall X, X <= X - 2 * t * K + t * t * L) by (intro; nra). apply HH.
  - destruct (Rleb 1 pr) eqn:E1; [apply Rleb_true in E1|apply Rleb_false in E1].
    + intros H. injection H as <- <-. split; [|split].
      * exists 1. split; [lra|]. symmetry. apply seg_at_1.
      * reflexivity.
      * intros t Ht. rewrite expand_quadratic. fold K L.
        assert (L <= K) by nra. assert (0 <= (1 - t) * (K - L)) by nra.
        assert (0 <= (1 - t) * (1 - t) * L) by (apply Rmult_le_pos; nra).
        assert (HH : forall X Y, Y = X - 2 * K + L -> Y <= X - 2 * t * K + t * t * L)
          by (intros; nra).
        apply HH. apply at_b.
    + intros H. injection H as <- <-. split; [|split].
      * exists pr. split; [lra|reflexivity].
      * reflexivity.
      * intros t Ht. rewrite expand_quadratic. fold K L.
        assert (Hq : 0 <= (t - pr) * (t - pr)) by exact (Rle_0_sqr (t - pr)).
        assert (0 <= L * ((t - pr) * (t - pr))) by (apply Rmult_le_pos; lra).
        assert (HH : forall X Y, Y = X - 2 * pr * K + pr * pr * L
                                 -> Y <= X - 2 * t * K + t * t * L)
          by (intros; rewrite <- HK in *; nra).
        apply HH. apply expand_quadratic.
Qed.

Lemma point_segment_total (p a b : V) :
  0 < dotR (vsubR b a) (vsubR b a) -> exists r, point_segment R RO p a b = Ok r.
Proof.
  intros H. unfold point_segment. cbv zeta. cbn [n_leb n_zero n_one n_div RO].
  replace (Rleb (dotR (vsubR b a) (vsubR b a)) 0) with false
    by (symmetry; apply Rleb_false; lra).
  destruct (Rleb _ 0); [eexists; reflexivity|].
  destruct (Rleb 1 _); eexists; reflexivity.
Qed.

(* ------------------------------------------------------------ segment-segment *)
Definition inv_s (q : quad R) : Prop :=
  let '(sN, sD, tN, tD) := q in 0 <= sN <= sD /\ 0 < sD /\ 0 < tD.

Lemma stage1_inv small d11 d12 d22 d1s d2s :
  0 < small -> 0 < d22 -> inv_s (stage1 R RO small d11 d12 d22 d1s d2s).
Proof.
  intros Hs H22. unfold stage1, inv_s. cbv zeta.
  cbn [n_ltb n_zero n_one n_add n_sub n_mul RO].
  destruct (Rltb _ small) eqn:E; [lra|]. apply Rltb_false in E.
  destruct (Rltb _ 0) eqn:E0; [lra|]. apply Rltb_false in E0.
  destruct (Rltb _ _) eqn:E1; [lra|]. apply Rltb_false in E1. lra.
Qed.

Lemma stage2_inv d11 d1s q :
  0 < d11 -> inv_s q ->
  inv_s (stage2 R RO d11 d1s q) /\
  (let '(_, _, tN, _) := stage2 R RO d11 d1s q in 0 <= tN).
Proof.
  intros H11. destruct q as [[[sN sD] tN] tD]. unfold inv_s, stage2.
  cbn [n_ltb n_zero n_opp RO]. intros (Hs & HD & HT).
  destruct (Rltb tN 0) eqn:E; [|apply Rltb_false in E; lra].
  destruct (Rltb 0 d1s) eqn:E1; [lra|]. apply Rltb_false in E1.
  destruct (Rltb d11 (- d1s)) eqn:E2; [lra|]. apply Rltb_false in E2. lra.
Qed.

Lemma stage3_inv d11 d12 d1s q :
  0 < d11 -> inv_s q -> (let '(_, _, tN, _) := q in 0 <= tN) ->
  inv_s (stage3 R RO d11 d12 d1s q) /\
  (let '(_, _, tN, tD) := stage3 R RO d11 d12 d1s q in 0 <= tN <= tD).
Proof.
  intros H11. destruct q as [[[sN sD] tN] tD]. unfold inv_s, stage3. cbv zeta.
  cbn [n_ltb n_zero n_opp n_add RO]. intros (Hs & HD & HT) HN.
  destruct (Rltb tD tN) eqn:E; [|apply Rltb_false in E; lra].
  destruct (Rltb _ 0) eqn:E1; [lra|]. apply Rltb_false in E1.
  destruct (Rltb d11 _) eqn:E2; [lra|]. apply Rltb_false in E2. lra.
Qed.

Lemma ratio_unit small n d :
  0 <= n <= d -> 0 < d -> exists r, ratio R RO small n d = Ok r /\ 0 <= r <= 1.
Proof.
  intros Hn Hd. unfold ratio. cbn [n_ltb n_leb n_zero n_div RO].
  destruct (Rltb n small); [exists 0; split; [reflexivity|lra]|].
  replace (Rleb d 0) with false by (symmetry; apply Rleb_false; lra). cbn [andb].
  exists (n / d). split; [reflexivity|].
  split; [apply Rmult_le_pos; [lra|left; apply Rinv_0_lt_compat; lra]|].
  apply Rmult_le_reg_r with d; [lra|]. unfold Rdiv. rewrite Rmult_assoc, Rinv_l by lra. lra.
Qed.

Lemma seg_seg_sound (a b c d : V) :
  0 < dotR (vsubR b a) (vsubR b a) -> 0 < dotR (vsubR d c) (vsubR d c) ->
  exists dist2 cp1 cp2 sc tc,
    seg_seg R RO a b c d = Ok (dist2, cp1, cp2, sc, tc) /\
    0 <= sc <= 1 /\ 0 <= tc <= 1 /\
    cp1 = vaddR a (vscaleR sc (vsubR b a)) /\
    cp2 = vaddR c (vscaleR tc (vsubR d c)) /\
    dist2 = normsqR (vsubR cp1 cp2).
Proof.
  intros H11 H22. unfold seg_seg. cbv zeta.
  set (d1 := vsubR b a) in *. set (d2 := vsubR d c) in *. set (ds := vsubR a c).
  assert (Hs : 0 < n_mul R RO (n_mul R RO (n_atol R RO) (dotR d1 d1)) (dotR d2 d2)).
  { cbn [n_mul n_atol RO]. apply Rmult_lt_0_compat; [apply Rmult_lt_0_compat; lra | lra]. }
  pose proof (stage1_inv _ (dotR d1 d1) (dotR d1 d2) (dotR d2 d2) (dotR d1 ds) (dotR d2 ds)
                Hs H22) as I1.
  destruct (stage2_inv (dotR d1 d1) (dotR d1 ds) _ H11 I1) as [I2 N2].
  destruct (stage3_inv (dotR d1 d1) (dotR d1 d2) (dotR d1 ds) _ H11 I2 N2) as [I3 N3].
  destruct (stage3 R RO _ _ _ _) as [[[sN sD] tN] tD].
  unfold inv_s in I3. destruct I3 as (Hsn & HsD & HtD).
  destruct (ratio_unit (n_mul R RO (n_atol R RO) sD) sN sD Hsn HsD) as (sc & Esc & Hsc).
  destruct (ratio_unit (n_mul R RO (n_atol R RO) tD) tN tD N3 HtD) as (tc & Etc & Htc).
  rewrite Esc, Etc.
  do 5 eexists. split; [reflexivity|]. split; [exact Hsc|]. split; [exact Htc|].
  split; [reflexivity|]. split; [reflexivity|].
  subst d1 d2 ds. destruct a as [[a0 a1] a2], b as [[b0 b1] b2], c as [[c0 c1] c2],
    d as [[e0 e1] e2]. rsimp30. ring.
Qed.

Definition proper (s : V * V) : Prop := 0 < dotR (vsubR (snd s) (fst s)) (vsubR (snd s) (fst s)).

Lemma seg_seg_set_sound (a b : V) (set : list (V * V)) :
  proper (a, b) -> Forall proper set ->
  seg_seg_set R RO a b set = map (fun s => seg_seg R RO a b (fst s) (snd s)) set /\
  forall s, In s set ->
    exists dist2 cp1 cp2 sc tc,
      seg_seg R RO a b (fst s) (snd s) = Ok (dist2, cp1, cp2, sc, tc) /\
      0 <= sc <= 1 /\ 0 <= tc <= 1 /\
      cp1 = vaddR a (vscaleR sc (vsubR b a)) /\
      cp2 = vaddR (fst s) (vscaleR tc (vsubR (snd s) (fst s))) /\
      dist2 = normsqR (vsubR cp1 cp2).
Proof.
  intros Ha Hall. split; [reflexivity|]. intros s Hs.
  apply seg_seg_sound.
  - exact Ha.
  - rewrite Forall_forall in Hall. exact (Hall s Hs).
Qed.

Lemma point_point_nonneg (p q : V) : 0 <= point_point_sq R RO p q.
Proof. unfold point_point_sq. apply dot_self_nonneg. Qed.
