(* C02 — proofs about the parser model. *)
From Coq Require Import List ZArith QArith Qabs Qcanon Bool Arith Lia.
Import ListNotations.
From PP Require Import Model.C02.
Local Open Scope Qc_scope.

(* ---------------------------------------------------------------------------------- *)
(* list algebra over Qc                                                                 *)
(* ---------------------------------------------------------------------------------- *)
Lemma same_len_sym : forall (A B : Type) (a : list A) (b : list B), same_len a b = same_len b a.
Proof. intros; unfold same_len; apply Nat.eqb_sym. Qed.

Lemma same_len_repeat : forall (A : Type) (w : list A) (c : Qc),
    same_len (repeat c (length w)) w = true.
Proof. intros; unfold same_len; rewrite repeat_length; apply Nat.eqb_refl. Qed.

Lemma same_len_repeat' : forall (A : Type) (w : list A) (c : Qc),
    same_len w (repeat c (length w)) = true.
Proof. intros; rewrite same_len_sym; apply same_len_repeat. Qed.

Lemma same_len_vneg : forall (A : Type) (v : list A) (w : vec), same_len v (vneg w) = same_len v w.
Proof. intros; unfold same_len, vneg; now rewrite map_length. Qed.

Lemma map2_comm : forall (f : Qc -> Qc -> Qc), (forall x y, f x y = f y x) ->
  forall a b, map2 f a b = map2 f b a.
Proof.
  intros f Hf; induction a as [| x a IH]; intros [| y b]; cbn; try reflexivity.
  now rewrite Hf, IH.
Qed.

Lemma vadd_comm : forall a b, vadd a b = vadd b a.
Proof. apply map2_comm; intros; apply Qcplus_comm. Qed.

Lemma vmul_comm : forall a b, vmul a b = vmul b a.
Proof. apply map2_comm; intros; apply Qcmult_comm. Qed.

Lemma vneg_vsub : forall a b, vneg (vsub a b) = vsub b a.
Proof.
  induction a as [| x a IH]; intros [| y b]; cbn; try reflexivity.
  rewrite IH. f_equal. ring.
Qed.

Lemma vneg_vadd_vneg : forall v w, vneg (vadd v (vneg w)) = vsub w v.
Proof.
  induction v as [| x v IH]; intros [| y w]; cbn; try reflexivity.
  rewrite IH. f_equal. ring.
Qed.

Lemma scale_rows_compose : forall a b j,
    scale_rows a (scale_rows b j) = scale_rows (vmul a b) j.
Proof.
  induction a as [| x a IH]; intros [| y b] [| r j]; cbn; try reflexivity.
  rewrite IH. f_equal. unfold vscale. rewrite map_map. apply map_ext. intros; ring.
Qed.

Lemma Qc_eq_bool_refl' : forall x : Qc, Qc_eq_bool x x = true.
Proof. intros x. unfold Qc_eq_bool. destruct (Qc_eq_dec x x); [reflexivity | contradiction]. Qed.

Lemma has_zero_cons : forall x v, has_zero (x :: v) = false -> x <> 0 /\ has_zero v = false.
Proof.
  intros x v H. unfold has_zero in *. cbn [existsb] in H. apply orb_false_iff in H as [Hx Hv].
  split; [|exact Hv]. unfold is_zero in Hx. intros ->. now rewrite Qc_eq_bool_refl' in Hx.
Qed.

Lemma minus_one : Q2Qc (-1) = - (1).
Proof. apply Qc_is_canon. reflexivity. Qed.

Lemma as_int_minus_one : as_int (Q2Qc (-1)) = Some (-1)%Z.
Proof. vm_compute. reflexivity. Qed.

Lemma qpowz_m1 : forall x, qpowz x (-1) = / x.
Proof. intros x. unfold qpowz. change (Pos.to_nat 1) with 1%nat. cbn [Qcpower]. now rewrite Qcmult_1_r. Qed.

Lemma qpowz_m2 : forall x, qpowz x (-1 - 1) = / (x * x).
Proof.
  intros x. change (-1 - 1)%Z with (-2)%Z. unfold qpowz. change (Pos.to_nat 2) with 2%nat.
  cbn [Qcpower]. now rewrite Qcmult_1_r.
Qed.

(* value part of  w / v  computed as  v**(-1) * w *)
Lemma div_val : forall v w, has_zero v = false ->
    vmul (map (fun x => qpowz x (-1)) v) w = map2 Qcdiv w v.
Proof.
  unfold vmul.
  induction v as [| x v IH]; intros [| y w] Hz; cbn [map map2]; try reflexivity.
  apply has_zero_cons in Hz as [Hx Hv]. rewrite (IH w Hv). f_equal.
  rewrite qpowz_m1. unfold Qcdiv. ring.
Qed.

(* Jacobian scaling of  w / v  computed as  w * ((-1) * v**(-2)) *)
Lemma div_jac : forall v w, has_zero v = false ->
    vmul w (map (fun x => Q2Qc (-1) * qpowz x (-1 - 1)) v)
    = map2 (fun wi vi => - wi / (vi * vi)) w v.
Proof.
  unfold vmul.
  induction v as [| x v IH]; intros [| y w] Hz; cbn [map map2]; try reflexivity.
  apply has_zero_cons in Hz as [Hx Hv].
  f_equal; [| apply IH; exact Hv].
  rewrite minus_one, qpowz_m2. unfold Qcdiv. ring.
Qed.

(* ---------------------------------------------------------------------------------- *)
(* node-wise refinement: the parser's operand flips / redirections are sound            *)
(* ---------------------------------------------------------------------------------- *)
Lemma bind_ok : forall (r : res value), bind r (fun x => Ok x) = r.
Proof. intros [a | e]; reflexivity. Qed.

Ltac red_node :=
  cbn [parse_node math_node direct_node pyop ad_add ad_sub ad_rsub ad_mul ad_rpow ad_rmatmul
       bind neg is_rop].

Lemma vec_op_add_comm : forall a b, vec_op Add a b = vec_op Add b a.
Proof.
  intros a b. unfold vec_op. rewrite (same_len_sym _ _ a b).
  destruct (same_len b a); cbn [negb]; [now rewrite vadd_comm | reflexivity].
Qed.

Lemma vec_op_sub_flip : forall a b, bind (vec_op Sub b a) neg = vec_op Sub a b.
Proof.
  intros a b. unfold vec_op. rewrite (same_len_sym _ _ a b).
  destruct (same_len b a); cbn [negb bind neg]; [now rewrite vneg_vsub | reflexivity].
Qed.

Lemma node_add_flip : forall w b, pyop Add b (VVec w) = math_node Add (VVec w) b.
Proof.
  intros w b; destruct b as [c | u | nc m | v j | s | l]; red_node; try reflexivity.
  - apply vec_op_add_comm.
  - apply vec_op_add_comm.
  - destruct (same_len v w); [now rewrite vadd_comm | reflexivity].
Qed.

Lemma node_sub_flip : forall w b, bind (pyop Sub b (VVec w)) neg = math_node Sub (VVec w) b.
Proof.
  intros w b; destruct b as [c | u | nc m | v j | s | l]; red_node; try reflexivity.
  - apply vec_op_sub_flip.
  - apply vec_op_sub_flip.
  - rewrite same_len_vneg. destruct (same_len v w); cbn [bind neg]; [| reflexivity].
    now rewrite vneg_vadd_vneg.
Qed.

Lemma node_div_flip : forall w v j, ad_rtruediv v j (VVec w) = math_node Div (VVec w) (VAd v j).
Proof.
  intros w v j. unfold ad_rtruediv, ad_pow. rewrite as_int_minus_one.
  change (Z.ltb (-1) 1) with true. cbn [andb math_node].
  destruct (has_zero v) eqn:Hz; cbn [bind]; [reflexivity|].
  unfold ad_mul.
  assert (same_len (map (fun x : Qc => qpowz x (-1)) v) w = same_len v w) as ->
      by (unfold same_len; now rewrite map_length).
  destruct (same_len v w); [| reflexivity].
  rewrite scale_rows_compose, (div_val v w Hz), (div_jac v w Hz). reflexivity.
Qed.

Lemma node_refines :
  forall o a b, is_rop o = false -> parse_node o a b = direct_node o a b.
Proof.
  intros o a b Ho. destruct o; try discriminate Ho; clear Ho.
  - (* Add *) destruct a; try reflexivity.
    cbn [parse_node direct_node]. rewrite bind_ok. apply node_add_flip.
  - (* Sub *) destruct a; try reflexivity.
    cbn [parse_node direct_node]. apply node_sub_flip.
  - (* Mul *) destruct a; try reflexivity. destruct b; try reflexivity.
    cbn [parse_node direct_node math_node pyop ad_mul].
    destruct (same_len v0 v); [now rewrite vmul_comm | reflexivity].
  - (* Div *) destruct a; try reflexivity. destruct b; try reflexivity.
    cbn [parse_node direct_node]. apply node_div_flip.
  - (* Pow *) destruct a; try reflexivity; destruct b; reflexivity.
  - (* Matmul *) destruct a; try reflexivity; destruct b; reflexivity.
Qed.

Lemma refines : forall t e, no_rops t = true -> parse t e = direct t e.
Proof.
  induction t as [l | o a IHa b IHb]; intros e H; [reflexivity|].
  cbn [no_rops] in H. apply andb_true_iff in H as [H Hb]. apply andb_true_iff in H as [Ho Ha].
  cbn [parse direct]. rewrite (IHa e Ha), (IHb e Hb).
  destruct (direct a e) as [va | ea]; [| reflexivity]. cbn [bind].
  destruct (direct b e) as [vb | eb]; [| reflexivity]. cbn [bind].
  apply node_refines. now apply negb_true_iff in Ho.
Qed.

(* ---------------------------------------------------------------------------------- *)
(* "Encountered unknown operation" is raised only for reverse-operation nodes            *)
(* ---------------------------------------------------------------------------------- *)
Definition nu (r : res value) : Prop := r <> Err EUnknownOp.

Lemma bind_nu : forall r f, nu r -> (forall a, nu (f a)) -> nu (bind r f).
Proof. intros [a | e] f Hr Hf; cbn [bind]; [apply Hf | exact Hr]. Qed.

Ltac crush_nu :=
  unfold nu;
  repeat match goal with
         | |- context [if ?c then _ else _] => destruct c
         | |- context [match ?x with _ => _ end] => destruct x
         end; discriminate.

Lemma neg_nu : forall a, nu (neg a).
Proof. intros a; unfold neg; crush_nu. Qed.
Lemma ad_add_nu : forall v j o, nu (ad_add v j o).
Proof. intros; unfold ad_add; crush_nu. Qed.
Lemma ad_sub_nu : forall v j o, nu (ad_sub v j o).
Proof. intros; unfold ad_sub; apply bind_nu; [apply neg_nu | intros; apply ad_add_nu]. Qed.
Lemma ad_rsub_nu : forall v j o, nu (ad_rsub v j o).
Proof. intros; unfold ad_rsub; apply bind_nu; [apply ad_sub_nu | intros; apply neg_nu]. Qed.
Lemma ad_mul_nu : forall v j o, nu (ad_mul v j o).
Proof. intros; unfold ad_mul; crush_nu. Qed.
Lemma ad_pow_nu : forall v j o, nu (ad_pow v j o).
Proof. intros; unfold ad_pow; crush_nu. Qed.
Lemma ad_rpow_nu : forall v j o, nu (ad_rpow v j o).
Proof. intros; unfold ad_rpow; crush_nu. Qed.
Lemma ad_truediv_nu : forall v j o, nu (ad_truediv v j o).
Proof.
  intros v j o; unfold ad_truediv; destruct o; try crush_nu.
  destruct (same_len v v0 && same_len j j0); [| unfold nu; discriminate].
  apply bind_nu; [apply ad_pow_nu | intros; apply ad_mul_nu].
Qed.
Lemma ad_rtruediv_nu : forall v j o, nu (ad_rtruediv v j o).
Proof.
  intros v j o; unfold ad_rtruediv; destruct o; try (unfold nu; discriminate);
    try (apply bind_nu; [apply ad_pow_nu | intros a; destruct a; try (unfold nu; discriminate);
                                           apply ad_mul_nu]).
  destruct (same_len v v0 && same_len j j0); [| unfold nu; discriminate].
  apply bind_nu; [apply ad_pow_nu | intros; apply ad_mul_nu].
Qed.
Lemma ad_rmatmul_nu : forall v j o, nu (ad_rmatmul v j o).
Proof. intros; unfold ad_rmatmul; crush_nu. Qed.
Lemma vec_op_nu : forall o a b, nu (vec_op o a b).
Proof. intros; unfold vec_op; crush_nu. Qed.
Lemma slicer_matmul_nu : forall s b, nu (slicer_matmul s b).
Proof. intros; unfold slicer_matmul; crush_nu. Qed.
Lemma num_op_nu : forall o x y, num_op o x y <> Err EUnknownOp.
Proof. intros; unfold num_op;
  repeat match goal with
         | |- context [if ?c then _ else _] => destruct c
         | |- context [match ?x with _ => _ end] => destruct x
         end; discriminate. Qed.

Lemma pyop_nu : forall o a b, nu (pyop o a b).
Proof.
  intros o a b.
  destruct a as [x | u | nc m | v j | s | l]; destruct b as [y | w | nc' m' | v' j' | s' | l'];
    destruct o; cbn [pyop];
    first [ apply ad_add_nu | apply ad_sub_nu | apply ad_rsub_nu | apply ad_mul_nu
          | apply ad_pow_nu | apply ad_rpow_nu | apply ad_truediv_nu | apply ad_rtruediv_nu
          | apply ad_rmatmul_nu | apply vec_op_nu | apply slicer_matmul_nu
          | (unfold nu; discriminate)
          | idtac ].
  all: try (unfold nu; destruct (num_op _ x y) eqn:E; [discriminate | intros H; injection H as ->;
            eapply num_op_nu; exact E]).
  all: try crush_nu.
Qed.

Lemma sum_slices_nu : forall l x, nu (sum_slices l x).
Proof.
  intros l x. unfold sum_slices.
  assert (forall acc, nu acc ->
            nu (fold_left (fun acc s => bind acc (fun a => bind (slicer_matmul s x)
                                                         (fun y => pyop Add a y))) l acc)) as H.
  { induction l as [| s l IH]; intros acc Hacc; cbn [fold_left]; [exact Hacc|].
    apply IH. apply bind_nu; [exact Hacc|]. intros a. apply bind_nu; [apply slicer_matmul_nu|].
    intros y. apply pyop_nu. }
  apply H. unfold nu; discriminate.
Qed.

Lemma parse_node_nu : forall o a b, is_rop o = false -> nu (parse_node o a b).
Proof.
  intros o a b Ho. destruct o; try discriminate Ho; clear Ho.
  - destruct a; cbn [parse_node]; try apply pyop_nu.
    apply bind_nu; [apply pyop_nu | intros; unfold nu; discriminate].
  - destruct a; cbn [parse_node]; try apply pyop_nu.
    apply bind_nu; [apply pyop_nu | intros; apply neg_nu].
  - destruct a; try apply pyop_nu. destruct b; try apply pyop_nu.
  - destruct a; try apply pyop_nu. destruct b; try apply pyop_nu. apply ad_rtruediv_nu.
  - destruct a; try apply pyop_nu. destruct b; try apply pyop_nu. apply ad_rpow_nu.
  - destruct a; try apply pyop_nu.
    + destruct b; try apply pyop_nu. apply ad_rmatmul_nu.
    + apply sum_slices_nu.
Qed.

Lemma lookup_bind_nu : forall l k (f : vec -> res value),
    (forall v, nu (f v)) -> nu (bind (lookup l k) f).
Proof.
  intros l k f Hf. unfold lookup. destruct (Z.ltb k 0); [unfold nu; discriminate|].
  destruct (nth_error l (Z.to_nat k)); cbn [bind]; [apply Hf | unfold nu; discriminate].
Qed.

Lemma parse_leaf_nu : forall l e, nu (parse_leaf l e).
Proof.
  intros l e; destruct l; cbn [parse_leaf]; try (unfold nu; discriminate).
  - destruct (Z.leb 0 t); [apply lookup_bind_nu; intros; unfold nu; discriminate|].
    destruct (Z.leb 0 i); [apply lookup_bind_nu; intros; unfold nu; discriminate|].
    unfold getitem, ad_base. destruct (deriv e); unfold nu; discriminate.
  - destruct (Z.leb 0 t); [apply lookup_bind_nu; intros; unfold nu; discriminate|].
    unfold nu; discriminate.
Qed.

Lemma parse_nu : forall t e, no_rops t = true -> nu (parse t e).
Proof.
  induction t as [l | o a IHa b IHb]; intros e H; [apply parse_leaf_nu|].
  cbn [no_rops] in H. apply andb_true_iff in H as [H Hb]. apply andb_true_iff in H as [Ho Ha].
  cbn [parse]. apply bind_nu; [apply IHa; exact Ha|]. intros va.
  apply bind_nu; [apply IHb; exact Hb|]. intros vb.
  apply parse_node_nu. now apply negb_true_iff in Ho.
Qed.

(* a reverse-operation node is never evaluated: the parser raises whatever the children are *)
Lemma rop_node_unknown : forall o a b e va vb,
    is_rop o = true -> parse a e = Ok va -> parse b e = Ok vb ->
    parse (Bin o a b) e = Err EUnknownOp.
Proof.
  intros o a b e va vb Ho Ha Hb. cbn [parse]. rewrite Ha, Hb. cbn [bind].
  destruct o; try discriminate Ho; reflexivity.
Qed.

(* ---------------------------------------------------------------------------------- *)
(* the overloads                                                                        *)
(* ---------------------------------------------------------------------------------- *)
Definition operand_ok (x : operand) : bool := match x with OTree t => no_rops t | _ => true end.

Lemma wrap_no_rops : forall x, operand_ok x = true -> no_rops (wrap x) = true.
Proof. intros [t | c | v | nc m] H; cbn in *; auto. Qed.

Lemma overload_no_rops : forall o x y,
    is_rop o = false -> operand_ok x = true -> operand_ok y = true ->
    no_rops (overload o x y) = true.
Proof.
  intros o x y Ho Hx Hy. pose proof (wrap_no_rops x Hx) as Wx. pose proof (wrap_no_rops y Hy) as Wy.
  destruct x as [t | c | v | nc m]; cbn [overload wrap] in *;
    destruct o; try discriminate Ho; cbn [no_rops is_rop negb andb]; cbn [wrap] in *;
    rewrite ?Wx, ?Wy, ?Hx; reflexivity.
Qed.

(* ---------------------------------------------------------------------------------- *)
(* previous time step / iterate leaves                                                  *)
(* ---------------------------------------------------------------------------------- *)
(* a variable at a previous time step (first) or iterate evaluates to the values stored at
   that index, taken at its dofs in the order of its sub-variables: no AdArray, whatever the
   state and whether or not derivatives are requested *)
Lemma stored_leaf : forall dofs t i e v,
    ((0 <= t)%Z /\ lookup (ts e) t = Ok v) \/
    ((t < 0)%Z /\ (0 <= i)%Z /\ lookup (its e) i = Ok v) ->
    parse (Leaf (LVar dofs t i)) e = Ok (VVec (take 0 v dofs)) /\
    evaluate (Leaf (LVar dofs t i)) e
    = if deriv e then Ok (VAd (take 0 v dofs) (zero_mat (length (take 0 v dofs)) (length (state e))))
      else Ok (VVec (take 0 v dofs)).
Proof.
  intros dofs t i e v H.
  assert (parse (Leaf (LVar dofs t i)) e = Ok (VVec (take 0 v dofs))) as P.
  { cbn [parse parse_leaf]. destruct H as [[Ht L] | [Ht [Hi L]]].
    - apply Z.leb_le in Ht. rewrite Ht, L. reflexivity.
    - apply Z.leb_gt in Ht. apply Z.leb_le in Hi. rewrite Ht, Hi, L. reflexivity. }
  split; [exact P|]. unfold evaluate. rewrite P. cbn [bind]. unfold finish. destruct (deriv e); reflexivity.
Qed.

Lemma stored_tdda : forall pos t e v,
    (0 <= t)%Z -> lookup (src_ts e) t = Ok v ->
    parse (Leaf (LTdda pos t)) e = Ok (VVec (take 0 v pos)).
Proof.
  intros pos t e v Ht L. cbn [parse parse_leaf]. apply Z.leb_le in Ht. rewrite Ht, L. reflexivity.
Qed.

(* adding / subtracting a stored vector, or multiplying / dividing by it, leaves the
   Jacobian's dependence to the other operand: no derivative is contributed *)
Lemma stored_no_derivative_add : forall x j v r,
    parse_node Add (VAd x j) (VVec v) = Ok r -> exists w, r = VAd w j.
Proof.
  intros x j v r H. cbn [parse_node pyop ad_add] in H.
  destruct (same_len x v); [injection H as <-; eauto | discriminate H].
Qed.

Lemma stored_no_derivative_add_flipped : forall x j v r,
    parse_node Add (VVec v) (VAd x j) = Ok r -> exists w, r = VAd w j.
Proof.
  intros x j v r H. cbn [parse_node pyop ad_add bind] in H.
  destruct (same_len x v); cbn [bind] in H; [injection H as <-; eauto | discriminate H].
Qed.

(* ---------------------------------------------------------------------------------- *)
(* previous_timestep / previous_iteration of whole trees                                *)
(* ---------------------------------------------------------------------------------- *)
Lemma shift_leaf_compose : forall p a b l l' l'',
    (0 < a)%Z -> (0 < b)%Z ->
    shift_leaf p a l = Ok l' -> shift_leaf p b l' = Ok l'' -> shift_leaf p (a + b) l = Ok l''.
Proof.
  intros p a b l l' l'' Ha Hb H1 H2. destruct l; cbn [shift_leaf] in *;
    try (injection H1 as <-; cbn [shift_leaf] in H2; exact H2).
  - destruct p.
    + destruct (Z.leb 0 i) eqn:Hi; [discriminate H1|]. injection H1 as <-.
      cbn [shift_leaf] in H2. rewrite Hi in H2. injection H2 as <-. now rewrite Z.add_assoc.
    + destruct (Z.leb 0 t) eqn:Ht; [discriminate H1|]. injection H1 as <-.
      cbn [shift_leaf] in H2. rewrite Ht in H2. injection H2 as <-. now rewrite Z.add_assoc.
  - destruct p; injection H1 as <-; cbn [shift_leaf] in H2; injection H2 as <-;
      [now rewrite Z.add_assoc | reflexivity].
Qed.

Lemma shift_tree_compose : forall p a b t t' t'',
    (0 < a)%Z -> (0 < b)%Z ->
    shift_tree p a t = Ok t' -> shift_tree p b t' = Ok t'' -> shift_tree p (a + b) t = Ok t''.
Proof.
  intros p a b t. induction t as [l | o x IHx y IHy]; intros t' t'' Ha Hb H1 H2.
  - cbn [shift_tree] in *. destruct (shift_leaf p a l) as [l1 |] eqn:E1; [| discriminate H1].
    cbn [bind] in H1. injection H1 as <-. cbn [shift_tree] in H2.
    destruct (shift_leaf p b l1) as [l2 |] eqn:E2; [| discriminate H2].
    cbn [bind] in H2. injection H2 as <-.
    now rewrite (shift_leaf_compose p a b l l1 l2 Ha Hb E1 E2).
  - cbn [shift_tree] in H1.
    destruct (shift_tree p a x) as [x1 |] eqn:Ex; [| discriminate H1]. cbn [bind] in H1.
    destruct (shift_tree p a y) as [y1 |] eqn:Ey; [| discriminate H1]. cbn [bind] in H1.
    injection H1 as <-. cbn [shift_tree] in H2.
    destruct (shift_tree p b x1) as [x2 |] eqn:Ex2; [| discriminate H2]. cbn [bind] in H2.
    destruct (shift_tree p b y1) as [y2 |] eqn:Ey2; [| discriminate H2]. cbn [bind] in H2.
    injection H2 as <-. cbn [shift_tree].
    rewrite (IHx x1 x2 Ha Hb eq_refl Ex2), (IHy y1 y2 Ha Hb eq_refl Ey2). reflexivity.
Qed.

(* evaluation of a time-shifted tree whose time-dependent leaves are all at previous time
   steps already = evaluation of the tree against the stores with the [s] most recent time
   steps dropped: every such leaf reads [s] steps further back *)
Fixpoint all_prev_time (t : tree) : bool :=
  match t with
  | Leaf (LVar _ t _) => Z.leb 0 t
  | Leaf (LTdda _ t) => Z.leb 0 t
  | Leaf _ => true
  | Bin _ a b => all_prev_time a && all_prev_time b
  end.

Definition drop_steps (s : nat) (e : env) : env :=
  {| state := state e; deriv := deriv e; ts := skipn s (ts e); its := its e;
     src_it0 := src_it0 e; src_ts := skipn s (src_ts e) |}.

Lemma lookup_skipn : forall (l : list vec) (s : nat) (k : Z),
    (0 <= k)%Z -> lookup (skipn s l) k = lookup l (k + Z.of_nat s).
Proof.
  intros l s k Hk. unfold lookup.
  assert (Z.ltb k 0 = false) as -> by (apply Z.ltb_ge; exact Hk).
  assert (Z.ltb (k + Z.of_nat s) 0 = false) as -> by (apply Z.ltb_ge; lia).
  replace (Z.to_nat (k + Z.of_nat s)) with (s + Z.to_nat k)%nat by lia.
  generalize (Z.to_nat k) as n. clear Hk k. revert l.
  induction s as [| s IH]; intros l n; [reflexivity|].
  destruct l as [| x l]; cbn [skipn plus nth_error]; [destruct n; reflexivity | apply IH].
Qed.

Lemma shift_time_semantics : forall (s : nat) t t' e,
    (0 < s)%nat -> all_prev_time t = true ->
    shift_tree true (Z.of_nat s) t = Ok t' ->
    parse t' e = parse t (drop_steps s e).
Proof.
  intros s t. induction t as [l | o a IHa b IHb]; intros t' e Hs Hp H.
  - cbn [shift_tree] in H. destruct l; cbn [shift_leaf bind] in H;
      try (injection H as <-; reflexivity).
    + cbn [all_prev_time] in Hp. destruct (Z.leb 0 i) eqn:Hi; [discriminate H|].
      cbn [bind] in H. injection H as <-. cbn [parse parse_leaf drop_steps ts].
      apply Z.leb_le in Hp. assert (Z.leb 0 (t + Z.of_nat s) = true) as -> by (apply Z.leb_le; lia).
      assert (Z.leb 0 t = true) as -> by (apply Z.leb_le; exact Hp).
      now rewrite lookup_skipn.
    + cbn [all_prev_time] in Hp. injection H as <-. cbn [parse parse_leaf drop_steps src_ts].
      apply Z.leb_le in Hp. assert (Z.leb 0 (t + Z.of_nat s) = true) as -> by (apply Z.leb_le; lia).
      assert (Z.leb 0 t = true) as -> by (apply Z.leb_le; exact Hp).
      now rewrite lookup_skipn.
  - cbn [all_prev_time] in Hp. apply andb_true_iff in Hp as [Hpa Hpb].
    cbn [shift_tree] in H.
    destruct (shift_tree true (Z.of_nat s) a) as [a1 |] eqn:Ea; [| discriminate H]. cbn [bind] in H.
    destruct (shift_tree true (Z.of_nat s) b) as [b1 |] eqn:Eb; [| discriminate H]. cbn [bind] in H.
    injection H as <-. cbn [parse].
    now rewrite (IHa a1 e Hs Hpa eq_refl), (IHb b1 e Hs Hpb eq_refl).
Qed.
