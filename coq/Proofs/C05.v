(* C05 — proofs about the model PP.Model.C05 (EquationSystem dof layout). *)
From Coq Require Import List ZArith Bool Arith Lia Sorted Permutation.
Import ListNotations.
From PP Require Import Model.C05.

(* ------------------------------------------------------------------------------------ *)
(* equality tests *)
Lemma dom_eqb_eq a b : dom_eqb a b = true <-> a = b.
Proof.
  destruct a as [i|i], b as [j|j]; cbn [dom_eqb].
  - rewrite Nat.eqb_eq. split; intro H; [subst; reflexivity | inversion H; reflexivity].
  - split; intro H; discriminate.
  - split; intro H; discriminate.
  - rewrite Nat.eqb_eq. split; intro H; [subst; reflexivity | inversion H; reflexivity].
Qed.

Lemma dom_eqb_refl a : dom_eqb a a = true.
Proof. apply dom_eqb_eq. reflexivity. Qed.

Lemma dom_eqb_neq a b : dom_eqb a b = false <-> a <> b.
Proof.
  split.
  - intros H E. apply dom_eqb_eq in E. congruence.
  - intro H. destruct (dom_eqb a b) eqn:E; [|reflexivity]. apply dom_eqb_eq in E. contradiction.
Qed.

(* ------------------------------------------------------------------------------------ *)
(* the order prescribed by the property, as a function of the registered variables *)
Definition on_grid (d : dom) (vs : list var) : list var :=
  filter (fun v => dom_eqb (vdom v) d) vs.
Definition order (g : mdgrid) (vs : list var) : list var :=
  flat_map (fun d => on_grid d vs) (grid_order g).
Definition ndofv (g : mdgrid) (v : var) : nat := ndof g (vdom v) (vdof v).

Definition consistent (g : mdgrid) (vs : list var) (nums : list (nat * nat)) (szs : list nat) :=
  forall v, In v vs ->
    exists k, lookup nums (vid v) = Some k /\ nth_error szs k = Some (ndofv g v).

Lemma cluster_grid_ok g d nums szs : forall vs cnt nn bs,
  consistent g vs nums szs ->
  cluster_grid d vs nums szs (cnt, nn, bs) =
  inl (cnt + length (on_grid d vs),
       nn ++ combine (map vid (on_grid d vs)) (seq cnt (length (on_grid d vs))),
       bs ++ map (ndofv g) (on_grid d vs)).
Proof.
  induction vs as [|v r IH]; intros cnt nn bs Hc.
  - cbn. rewrite Nat.add_0_r, !app_nil_r. reflexivity.
  - unfold on_grid. cbn [cluster_grid filter].
    destruct (dom_eqb (vdom v) d) eqn:E.
    + destruct (Hc v (or_introl eq_refl)) as [k [Hk Hs]]. rewrite Hk, Hs.
      rewrite IH by (intros w Hw; apply Hc; right; exact Hw).
      unfold on_grid. cbn [length map combine seq].
      rewrite <- !app_assoc. cbn [app].
      f_equal. f_equal. f_equal. lia.
    + rewrite IH by (intros w Hw; apply Hc; right; exact Hw). reflexivity.
Qed.

Lemma seq_app' a n m : seq a (n + m) = seq a n ++ seq (a + n) m.
Proof. apply seq_app. Qed.

Lemma combine_app {A B} (l1 l2 : list A) (m1 m2 : list B) :
  length l1 = length m1 -> combine (l1 ++ l2) (m1 ++ m2) = combine l1 m1 ++ combine l2 m2.
Proof.
  revert m1. induction l1 as [|a l1 IH]; intros [|b m1] H; cbn in *; try discriminate.
  - reflexivity.
  - f_equal. apply IH. lia.
Qed.

Lemma cluster_grids_ok g nums szs vs : forall ds cnt nn bs,
  consistent g vs nums szs ->
  let sel := flat_map (fun d => on_grid d vs) ds in
  cluster_grids ds vs nums szs (cnt, nn, bs) =
  inl (cnt + length sel, nn ++ combine (map vid sel) (seq cnt (length sel)),
       bs ++ map (ndofv g) sel).
Proof.
  induction ds as [|d r IH]; intros cnt nn bs Hc; cbn [cluster_grids flat_map].
  - cbn. rewrite Nat.add_0_r, !app_nil_r. reflexivity.
  - rewrite (cluster_grid_ok g) by exact Hc.
    rewrite IH by exact Hc. cbn zeta.
    rewrite !app_length, !map_app, seq_app', <- !app_assoc.
    rewrite combine_app by (rewrite map_length, seq_length; reflexivity).
    f_equal. f_equal. f_equal. lia.
Qed.

Definition clustered (g : mdgrid) (s : st) : Prop :=
  numbers s = combine (map vid (order g (vars s))) (seq 0 (length (order g (vars s)))) /\
  sizes s = map (ndofv g) (order g (vars s)).

Lemma cluster_ok g s :
  consistent g (vars s) (numbers s) (sizes s) ->
  exists s', cluster g s = inl s' /\ clustered g s' /\ vars s' = vars s /\
             next_id s' = next_id s /\ store s' = store s.
Proof.
  intro Hc. unfold cluster.
  rewrite (cluster_grids_ok g) by exact Hc. cbn zeta. cbn [app Nat.add].
  eexists. split; [reflexivity|].
  unfold clustered. cbn [vars numbers sizes next_id store]. fold (order g (vars s)).
  repeat split; reflexivity.
Qed.

(* ------------------------------------------------------------------------------------ *)
(* generic list facts *)
Lemma SS_app {A} (R : A -> A -> Prop) l1 l2 :
  StronglySorted R l1 -> StronglySorted R l2 ->
  (forall a b, In a l1 -> In b l2 -> R a b) -> StronglySorted R (l1 ++ l2).
Proof.
  induction l1 as [|x l1 IH]; cbn; intros H1 H2 H; auto.
  inversion H1 as [|? ? Hs Hf]; subst. constructor.
  - apply IH; auto.
  - apply Forall_app. split; auto. apply Forall_forall. intros b Hb. apply H; auto.
Qed.

Lemma SS_filter {A} (R : A -> A -> Prop) p l :
  StronglySorted R l -> StronglySorted R (filter p l).
Proof.
  induction 1 as [|a l Hs IH Hf]; cbn; [constructor|].
  destruct (p a); auto. constructor; auto.
  apply Forall_forall. intros x Hx. apply filter_In in Hx. destruct Hx as [Hx _].
  rewrite Forall_forall in Hf. auto.
Qed.

Lemma SS_weaken {A} (R R' : A -> A -> Prop) l :
  StronglySorted R l -> (forall a b, In a l -> In b l -> R a b -> R' a b) ->
  StronglySorted R' l.
Proof.
  induction 1 as [|a l Hs IH Hf]; intro H; constructor.
  - apply IH. intros x y Hx Hy. apply H; right; auto.
  - rewrite Forall_forall in *. intros x Hx. apply H; [left; auto|right; auto|auto].
Qed.

Lemma SS_map {A B} (f : A -> B) (R : B -> B -> Prop) l :
  StronglySorted R (map f l) <-> StronglySorted (fun a b => R (f a) (f b)) l.
Proof.
  induction l as [|a l IH]; cbn; split; intro H; try constructor;
    inversion H as [|? ? Hs Hf]; subst.
  - apply IH; auto.
  - rewrite Forall_forall in *. intros x Hx. apply Hf. apply in_map. auto.
  - apply IH; auto.
  - rewrite Forall_forall in *. intros x Hx. apply in_map_iff in Hx.
    destruct Hx as [y [E Hy]]. subst. auto.
Qed.

Lemma SS_seq a n : StronglySorted lt (seq a n).
Proof.
  revert a. induction n as [|n IH]; intro a; cbn; constructor; auto.
  apply Forall_forall. intros x Hx. apply in_seq in Hx. lia.
Qed.

Lemma SS_irrefl_NoDup {A} (R : A -> A -> Prop) l :
  StronglySorted R l -> (forall a, ~ R a a) -> NoDup l.
Proof.
  induction 1 as [|a l Hs IH Hf]; intro Hi; constructor; auto.
  intro Hin. rewrite Forall_forall in Hf. apply (Hi a). auto.
Qed.

Lemma NoDup_map_inj {A B} (f : A -> B) l a b :
  NoDup (map f l) -> In a l -> In b l -> f a = f b -> a = b.
Proof.
  induction l as [|x l IH]; cbn; intros Hnd Ha Hb E; [contradiction|].
  inversion Hnd as [|? ? Hn Hnd']; subst.
  destruct Ha as [Ha|Ha], Hb as [Hb|Hb]; subst; auto.
  - exfalso. apply Hn. rewrite E. apply in_map. auto.
  - exfalso. apply Hn. rewrite <- E. apply in_map. auto.
Qed.

Lemma NoDup_map_of_inj {A B} (f : A -> B) l :
  NoDup l -> (forall a b, In a l -> In b l -> f a = f b -> a = b) -> NoDup (map f l).
Proof.
  induction 1 as [|x l Hn Hnd IH]; intro Hi; cbn; constructor.
  - intro Hin. apply in_map_iff in Hin. destruct Hin as [y [E Hy]].
    assert (y = x) by (apply Hi; [right; auto|left; auto|auto]). subst. contradiction.
  - apply IH. intros a b Ha Hb. apply Hi; right; auto.
Qed.

Lemma nth_error_ext {A} (l1 l2 : list A) :
  (forall k, nth_error l1 k = nth_error l2 k) -> l1 = l2.
Proof.
  revert l2. induction l1 as [|a l1 IH]; intros [|b l2] H; auto.
  - specialize (H 0). discriminate.
  - specialize (H 0). discriminate.
  - f_equal. { specialize (H 0). cbn in H. congruence. }
    apply IH. intro k. apply (H (S k)).
Qed.

(* ------------------------------------------------------------------------------------ *)
(* the prescribed order *)
Definition dom_ok (g : mdgrid) (d : dom) : Prop :=
  match d with Sd i => i < length (sds g) | Intf i => i < length (intfs g) end.

Definition rank (g : mdgrid) (d : dom) : nat :=
  match d with Sd i => i | Intf i => length (sds g) + i end.

(* subdomain order, then interface order, then creation order (ids increase with creation) *)
Definition lexlt (g : mdgrid) (a b : var) : Prop :=
  rank g (vdom a) < rank g (vdom b) \/ (rank g (vdom a) = rank g (vdom b) /\ vid a < vid b).

Lemma in_grid_order g d : In d (grid_order g) <-> dom_ok g d.
Proof.
  unfold grid_order. rewrite in_app_iff, !in_map_iff. destruct d as [i|i]; cbn [dom_ok]; split.
  - intros [[x [E H]]|[x [E H]]]; try discriminate. inversion E; subst.
    apply in_seq in H. lia.
  - intro H. left. exists i. split; auto. apply in_seq. lia.
  - intros [[x [E H]]|[x [E H]]]; try discriminate. inversion E; subst.
    apply in_seq in H. lia.
  - intro H. right. exists i. split; auto. apply in_seq. lia.
Qed.

Lemma grid_order_sorted g : StronglySorted (fun d e => rank g d < rank g e) (grid_order g).
Proof.
  unfold grid_order. apply SS_app.
  - apply SS_map. cbn [rank]. apply SS_seq.
  - apply SS_map. cbn [rank]. eapply SS_weaken; [apply SS_seq|]. intros; cbn; lia.
  - intros a b Ha Hb. apply in_map_iff in Ha. apply in_map_iff in Hb.
    destruct Ha as [x [Ea Hx]], Hb as [y [Eb Hy]]. subst. cbn [rank].
    apply in_seq in Hx. lia.
Qed.

Lemma in_order g vs v : In v (order g vs) <-> In v vs /\ dom_ok g (vdom v).
Proof.
  unfold order, on_grid. rewrite in_flat_map. split.
  - intros [d [Hd Hv]]. apply filter_In in Hv. destruct Hv as [Hv E].
    apply dom_eqb_eq in E. subst d. split; auto. apply in_grid_order; auto.
  - intros [Hv Hd]. exists (vdom v). split; [apply in_grid_order; auto|].
    apply filter_In. split; auto. apply dom_eqb_refl.
Qed.

Lemma order_sorted_gen g vs ds :
  StronglySorted (fun a b => vid a < vid b) vs ->
  StronglySorted (fun d e => rank g d < rank g e) ds ->
  StronglySorted (lexlt g) (flat_map (fun d => on_grid d vs) ds).
Proof.
  intros Hv Hd. induction Hd as [|d r Hr IH Hall]; cbn [flat_map]; [constructor|].
  apply SS_app; auto.
  - eapply SS_weaken; [apply SS_filter; exact Hv|].
    intros a b Ha Hb Hab. apply filter_In in Ha. apply filter_In in Hb.
    destruct Ha as [_ Ea], Hb as [_ Eb]. apply dom_eqb_eq in Ea. apply dom_eqb_eq in Eb.
    right. rewrite Ea, Eb. auto.
  - intros a b Ha Hb. apply filter_In in Ha. destruct Ha as [_ Ea]. apply dom_eqb_eq in Ea.
    apply in_flat_map in Hb. destruct Hb as [e [He Hb]].
    apply filter_In in Hb. destruct Hb as [_ Eb]. apply dom_eqb_eq in Eb.
    left. rewrite Ea, Eb. rewrite Forall_forall in Hall. auto.
Qed.

Lemma order_sorted g vs :
  StronglySorted lt (map vid vs) -> StronglySorted (lexlt g) (order g vs).
Proof.
  intro H. apply order_sorted_gen; [apply (proj1 (SS_map vid lt vs)); exact H|apply grid_order_sorted].
Qed.

Lemma lexlt_irrefl g a : ~ lexlt g a a.
Proof. unfold lexlt. lia. Qed.

Lemma SS_lt_NoDup l : StronglySorted lt l -> NoDup l.
Proof. intro H. eapply SS_irrefl_NoDup; [exact H|]. intros a. lia. Qed.

Lemma order_NoDup_ids g vs :
  StronglySorted lt (map vid vs) -> NoDup (map vid (order g vs)).
Proof.
  intro H. apply NoDup_map_of_inj.
  - eapply SS_irrefl_NoDup; [apply order_sorted; exact H|apply lexlt_irrefl].
  - intros a b Ha Hb. apply in_order in Ha. apply in_order in Hb.
    apply (NoDup_map_inj vid vs); [apply SS_lt_NoDup; auto|tauto|tauto].
Qed.

(* ------------------------------------------------------------------------------------ *)
(* dictionaries *)
Lemma lookup_combine ids : forall a k id,
  NoDup ids -> nth_error ids k = Some id ->
  lookup (combine ids (seq a (length ids))) id = Some (a + k).
Proof.
  induction ids as [|x r IH]; intros a k id Hnd Hk; [destruct k; discriminate|].
  cbn [length seq combine lookup]. inversion Hnd as [|? ? Hn Hnd']; subst.
  destruct k as [|k]; cbn in Hk.
  - inversion Hk; subst. rewrite Nat.eqb_refl. f_equal. lia.
  - destruct (Nat.eqb x id) eqn:E.
    + apply Nat.eqb_eq in E. subst. exfalso. apply Hn. eapply nth_error_In; eauto.
    + rewrite (IH (S a) k id); auto. f_equal. lia.
Qed.

Lemma lookup_In d k v : lookup d k = Some v -> In (k, v) d.
Proof.
  induction d as [|[k' v'] r IH]; cbn; [discriminate|].
  destruct (Nat.eqb k' k) eqn:E; intro H.
  - apply Nat.eqb_eq in E. inversion H; subst. auto.
  - right. auto.
Qed.

Lemma lookup_None d k : lookup d k = None <-> ~ In k (map fst d).
Proof.
  induction d as [|[k' v'] r IH]; cbn; [tauto|].
  destruct (Nat.eqb k' k) eqn:E.
  - apply Nat.eqb_eq in E. subst. split; [discriminate|]. intro H. exfalso. apply H. auto.
  - apply Nat.eqb_neq in E. rewrite IH. tauto.
Qed.

Lemma lookup_app d1 d2 k :
  lookup (d1 ++ d2) k = match lookup d1 k with Some v => Some v | None => lookup d2 k end.
Proof.
  induction d1 as [|[k' v'] r IH]; cbn; auto. destruct (Nat.eqb k' k); auto.
Qed.

Lemma lookup_pop d k k' : k' <> k -> lookup (dict_pop d k) k' = lookup d k'.
Proof.
  intro Hne. unfold dict_pop. induction d as [|[a v] r IH]; cbn; auto.
  destruct (Nat.eqb a k) eqn:E; cbn.
  - apply Nat.eqb_eq in E. subst. destruct (Nat.eqb k k') eqn:E'.
    + apply Nat.eqb_eq in E'. congruence.
    + auto.
  - destruct (Nat.eqb a k'); auto.
Qed.

(* ------------------------------------------------------------------------------------ *)
(* the invariant *)
Record Inv (g : mdgrid) (s : st) : Prop := {
  inv_cl : clustered g s;
  inv_dom : Forall (fun v => dom_ok g (vdom v)) (vars s);
  inv_sorted : StronglySorted lt (map vid (vars s));
  inv_next : Forall (fun v => vid v < next_id s) (vars s)
}.

Lemma Inv_init g : Inv g init.
Proof.
  constructor; cbn; try constructor.
  - unfold order. cbn. induction (grid_order g); cbn; auto.
  - unfold order. cbn. induction (grid_order g); cbn; auto.
Qed.

Lemma order_nth g s v :
  Inv g s -> In v (vars s) ->
  exists k, nth_error (order g (vars s)) k = Some v /\
            lookup (numbers s) (vid v) = Some k /\ nth_error (sizes s) k = Some (ndofv g v).
Proof.
  intros [[Hn Hs] Hd Hso _] Hv.
  assert (Hin : In v (order g (vars s))).
  { apply in_order. split; auto. rewrite Forall_forall in Hd. auto. }
  apply In_nth_error in Hin. destruct Hin as [k Hk]. exists k. split; auto. split.
  - rewrite Hn. rewrite <- (map_length vid).
    rewrite (lookup_combine _ 0 k (vid v)); auto.
    + apply order_NoDup_ids; auto.
    + apply map_nth_error; auto.
  - rewrite Hs. apply map_nth_error; auto.
Qed.

Lemma Inv_consistent g s : Inv g s -> consistent g (vars s) (numbers s) (sizes s).
Proof.
  intros HI v Hv. destruct (order_nth g s v HI Hv) as [k [_ [H1 H2]]]. eauto.
Qed.

Lemma cluster_Inv g s :
  consistent g (vars s) (numbers s) (sizes s) ->
  Forall (fun v => dom_ok g (vdom v)) (vars s) ->
  StronglySorted lt (map vid (vars s)) ->
  Forall (fun v => vid v < next_id s) (vars s) ->
  exists s', cluster g s = inl s' /\ Inv g s' /\ vars s' = vars s /\
             next_id s' = next_id s /\ store s' = store s.
Proof.
  intros Hc Hd Hs Hn. destruct (cluster_ok g s Hc) as [s' [E [Hcl [Ev [En Est]]]]].
  exists s'. split; auto. split; [|auto].
  constructor; auto; rewrite ?Ev, ?En; auto.
Qed.

(* ------------------------------------------------------------------------------------ *)
(* the weaker invariant that holds inside create_variables (between _append_dofs calls) *)
Record Pre (g : mdgrid) (s : st) : Prop := {
  pre_cons : consistent g (vars s) (numbers s) (sizes s);
  pre_len : length (numbers s) = length (sizes s);
  pre_keys : Forall (fun kv => fst kv < next_id s) (numbers s);
  pre_dom : Forall (fun v => dom_ok g (vdom v)) (vars s);
  pre_sorted : StronglySorted lt (map vid (vars s));
  pre_next : Forall (fun v => vid v < next_id s) (vars s)
}.

Lemma Inv_Pre g s : Inv g s -> Pre g s.
Proof.
  intro HI. pose proof (Inv_consistent g s HI) as Hc.
  destruct HI as [[Hn Hs] Hd Hso Hnx]. constructor; auto.
  - rewrite Hn, Hs, combine_length, !map_length, seq_length. lia.
  - rewrite Hn. apply Forall_forall. intros [k v] Hin. apply in_combine_l in Hin.
    apply in_map_iff in Hin. destruct Hin as [w [E Hw]]. apply in_order in Hw.
    rewrite Forall_forall in Hnx. cbn. subst k. apply Hnx. tauto.
Qed.

Lemma create_loop_Pre g name dof : forall grids s,
  Pre g s -> Forall (dom_ok g) grids ->
  Pre g (create_loop g s name dof grids) /\
  store (create_loop g s name dof grids) = store s /\
  next_id (create_loop g s name dof grids) = next_id s + length grids /\
  exists news, vars (create_loop g s name dof grids) = vars s ++ news /\
               map vdom news = grids /\ Forall (fun v => vname v = name) news.
Proof.
  induction grids as [|d r IH]; intros s HP Hg.
  - cbn. repeat split; auto; try apply HP. exists []. rewrite app_nil_r. auto.
  - inversion Hg as [|? ? Hd Hr]; subst. cbn [create_loop].
    set (v := {| vid := next_id s; vname := name; vdom := d; vdof := dof |}).
    set (s1 := append_dofs g _ v).
    assert (HP1 : Pre g s1).
    { destruct HP as [Hc Hl Hk Hdm Hso Hnx]. subst s1. unfold append_dofs.
      constructor; cbn [vars numbers sizes next_id store].
      - intros w Hw. apply in_app_iff in Hw. destruct Hw as [Hw|[Hw|[]]].
        + destruct (Hc w Hw) as [k [H1 H2]]. exists k. rewrite lookup_app, H1. split; auto.
          rewrite nth_error_app1; auto. apply nth_error_Some. congruence.
        + subst w. exists (length (numbers s)). rewrite lookup_app.
          assert (Hnone : lookup (numbers s) (vid v) = None).
          { apply lookup_None. intro Hin. apply in_map_iff in Hin.
            destruct Hin as [kv [E Hkv]]. rewrite Forall_forall in Hk.
            specialize (Hk kv Hkv). subst v. cbn in E. lia. }
          rewrite Hnone. cbn [lookup]. rewrite Nat.eqb_refl. split; auto.
          rewrite nth_error_app2 by lia. rewrite Hl, Nat.sub_diag. reflexivity.
      - rewrite !app_length. cbn. lia.
      - apply Forall_app. split.
        + eapply Forall_impl; [|exact Hk]. cbn. intros; lia.
        + constructor; [cbn; lia|constructor].
      - apply Forall_app. split; auto.
      - rewrite map_app. apply SS_app; auto.
        + cbn. constructor; constructor.
        + intros a b Ha [Hb|[]]. subst b. apply in_map_iff in Ha.
          destruct Ha as [w [E Hw]]. rewrite Forall_forall in Hnx. specialize (Hnx w Hw).
          subst a. cbn. lia.
      - apply Forall_app. split.
        + eapply Forall_impl; [|exact Hnx]. cbn. intros; lia.
        + constructor; [cbn; lia|constructor]. }
    destruct (IH s1 HP1 Hr) as [H1 [H2 [H3 [news [H4 [H5 H6]]]]]].
    split; [exact H1|]. split; [rewrite H2; reflexivity|].
    split; [rewrite H3; subst s1; cbn; lia|].
    exists (v :: news). rewrite H4. subst s1. cbn [append_dofs vars].
    rewrite <- app_assoc. cbn [app map]. rewrite H5. repeat split; auto.
Qed.

(* ------------------------------------------------------------------------------------ *)
(* well-formed operations: variables are created on grids of the md-grid *)
Definition grids_ok (n : nat) (o : option (list nat)) : Prop :=
  match o with None => True | Some l => Forall (fun i => i < n) l end.

Definition wf_op (g : mdgrid) (o : op) : Prop :=
  match o with
  | OpCreate _ _ _ sub intf => grids_ok (length (sds g)) sub /\ grids_ok (length (intfs g)) intf
  | _ => True
  end.

Lemma with_store_Inv g s sto : Inv g s -> Inv g (with_store s sto).
Proof. intros [[H1 H2] H3 H4 H5]. constructor; auto. split; auto. Qed.

Lemma create_grids_ok g sub intf :
  grids_ok (length (sds g)) sub -> grids_ok (length (intfs g)) intf ->
  Forall (dom_ok g) (match sub, intf with
                     | Some l, _ => map Sd l
                     | _, Some l => map Intf l
                     | _, _ => [] end).
Proof.
  intros H1 H2. destruct sub as [l|]; [|destruct intf as [l|]]; cbn in *; auto;
    apply Forall_forall; intros d Hd; apply in_map_iff in Hd; destruct Hd as [i [E Hi]];
    subst d; cbn; rewrite Forall_forall in *; auto.
Qed.

Lemma create_Inv g s name dof badkey sub intf :
  grids_ok (length (sds g)) sub -> grids_ok (length (intfs g)) intf ->
  Inv g s -> Inv g (fst (create g s name dof badkey sub intf)).
Proof.
  intros Hs Hi HI. unfold create.
  destruct badkey; [exact HI|].
  pose proof (create_grids_ok g sub intf Hs Hi) as Hg.
  set (grids := match sub, intf with
                | Some l, _ => map Sd l | _, Some l => map Intf l | _, _ => [] end) in *.
  set (dof' := match dof with None => (1, 0, 0) | Some d => d end).
  assert (Hmain : Inv g (fst (
      if negb (nodup_doms grids) then (s, OErr ValueErr) else
      if existsb (fun v => Nat.eqb (vname v) name && existsb (dom_eqb (vdom v)) grids) (vars s)
      then (s, OErr KeyErr)
      else let s1 := create_loop g s name dof' grids in
           let ids := seq (next_id s) (length grids) in
           match cluster g s1 with
           | inr e => (s1, OErr e)
           | inl s2 => (s2, OCreated ids)
           end))).
  { destruct (negb (nodup_doms grids)); [exact HI|].
    destruct (existsb _ (vars s)); [exact HI|]. cbn zeta.
    destruct (create_loop_Pre g name dof' grids s (Inv_Pre g s HI) Hg) as [HP _].
    destruct HP as [Hc Hl Hk Hd Hso Hn].
    destruct (cluster_Inv g _ Hc Hd Hso Hn) as [s2 [E [HI2 _]]]. rewrite E. exact HI2. }
  destruct sub as [l1|], intf as [l2|]; try exact HI; exact Hmain.
Qed.

Lemma filter_Forall {A} (P : A -> Prop) p l : Forall P l -> Forall P (filter p l).
Proof.
  intro H. apply Forall_forall. intros x Hx. apply filter_In in Hx.
  rewrite Forall_forall in H. apply H. tauto.
Qed.

Lemma memb_In x l : memb x l = true <-> In x l.
Proof.
  unfold memb. rewrite existsb_exists. split.
  - intros [y [Hy E]]. apply Nat.eqb_eq in E. subst. auto.
  - intro H. exists x. split; auto. apply Nat.eqb_refl.
Qed.

Lemma remove1_cluster_Inv g s id :
  Inv g s -> exists s', cluster g (remove1 s id) = inl s' /\ Inv g s' /\
    vars s' = filter (fun v => negb (Nat.eqb (vid v) id)) (vars s) /\
    next_id s' = next_id s /\ store s' = store s.
Proof.
  intro HI. pose proof (Inv_consistent g s HI) as Hc. destruct HI as [_ Hd Hso Hn].
  apply (cluster_Inv g (remove1 s id)); unfold remove1; cbn [vars numbers sizes next_id].
  - intros w Hw. apply filter_In in Hw. destruct Hw as [Hw E].
    destruct (Hc w Hw) as [k [H1 H2]]. exists k. split; auto.
    rewrite lookup_pop; auto. apply negb_true_iff, Nat.eqb_neq in E. auto.
  - apply filter_Forall; auto.
  - apply SS_map. apply SS_filter. apply SS_map. exact Hso.
  - apply filter_Forall; auto.
Qed.

Lemma remove_loop_Inv g : forall ids s, Inv g s -> Inv g (fst (remove_loop g s ids)).
Proof.
  induction ids as [|id r IH]; intros s HI; cbn [remove_loop]; [exact HI|].
  destruct (memb id (map vid (vars s))) eqn:Em; [|exact HI].
  apply memb_In in Em. apply in_map_iff in Em. destruct Em as [v [Ev Hv]].
  destruct (order_nth g s v HI Hv) as [k [_ [Hk _]]]. rewrite Ev in Hk. rewrite Hk.
  destruct (remove1_cluster_Inv g s id HI) as [s' [E [HI' _]]]. rewrite E.
  apply IH. exact HI'.
Qed.

Lemma step_Inv g s o : wf_op g o -> Inv g s -> Inv g (fst (step g s o)).
Proof.
  intros Hw HI. destruct o; cbn [step fst]; auto.
  - destruct Hw as [H1 H2]. apply create_Inv; auto.
  - apply remove_loop_Inv; auto.
  - unfold set_values.
    destruct (set_loop s (numbers s) (parse s r) values w additive 0 0 (store s))
      as [[sto de] [e|]]; cbn [fst]; apply with_store_Inv; auto.
Qed.

Lemma run_cons g s o r :
  fst (run g s (o :: r)) = fst (run g (fst (step g s o)) r).
Proof.
  cbn [run]. destruct (step g s o) as [s' x]. cbn [fst].
  destruct (run g s' r) as [s'' xs]. reflexivity.
Qed.

Lemma run_Inv g : forall ops s, Forall (wf_op g) ops -> Inv g s -> Inv g (fst (run g s ops)).
Proof.
  induction ops as [|o r IH]; intros s Hw HI; [exact HI|].
  inversion Hw; subst. rewrite run_cons. apply IH; auto. apply step_Inv; auto.
Qed.

Theorem final_Inv g ops : Forall (wf_op g) ops -> Inv g (final g ops).
Proof. intro H. apply run_Inv; auto. apply Inv_init. Qed.

(* ------------------------------------------------------------------------------------ *)
(* blocks *)
Definition sum (l : list nat) : nat := fold_right Nat.add 0 l.
Definition offs (l : list nat) (k : nat) : nat := sum (firstn k l).

(* dict iteration order of _variable_numbers = block order *)
Definition block_ids (s : st) : list nat := map fst (numbers s).
(* the index set of one Variable object *)
Definition block_of (s : st) (id : nat) : list nat :=
  match dofs_of s (Some [ById id]) with inl l => l | inr _ => [] end.

Fixpoint blocks_from (a : nat) (l : list nat) : list (list nat) :=
  match l with [] => [] | x :: r => seq a x :: blocks_from (a + x) r end.

Lemma concat_blocks_from : forall l a, concat (blocks_from a l) = seq a (sum l).
Proof.
  induction l as [|x r IH]; intro a; cbn; auto. rewrite IH, seq_app. reflexivity.
Qed.

Lemma nth_blocks_from : forall l a k x,
  nth_error l k = Some x -> nth_error (blocks_from a l) k = Some (seq (a + offs l k) x).
Proof.
  induction l as [|y r IH]; intros a k x H; [destruct k; discriminate|].
  destruct k as [|k]; cbn in *.
  - inversion H; subst. unfold offs. cbn. rewrite Nat.add_0_r. reflexivity.
  - rewrite (IH (a + y) k x H). unfold offs. cbn. f_equal. f_equal. unfold sum. lia.
Qed.

Lemma length_blocks_from : forall l a, length (blocks_from a l) = length l.
Proof. induction l as [|x r IH]; intro a; cbn; auto. Qed.

Lemma nth_cumsum : forall l a k,
  k < length l -> nth_error (cumsum_from a l) k = Some (a + offs l (S k)).
Proof.
  induction l as [|x r IH]; intros a k H; cbn in H; [lia|].
  destruct k as [|k]; cbn [cumsum_from nth_error].
  - unfold offs, sum. cbn. f_equal. lia.
  - rewrite IH by lia. unfold offs, sum. cbn. f_equal. lia.
Qed.

Lemma nth_gvd s k : k <= length (sizes s) -> nth_error (gvd s) k = Some (offs (sizes s) k).
Proof.
  intro H. unfold gvd. destruct k as [|k]; [reflexivity|].
  cbn [nth_error]. rewrite nth_cumsum by lia. reflexivity.
Qed.

Lemma offs_S l k x : nth_error l k = Some x -> offs l (S k) = offs l k + x.
Proof.
  revert k. induction l as [|y r IH]; intros k H; [destruct k; discriminate|].
  destruct k as [|k]; cbn in H.
  - inversion H; subst. unfold offs, sum. cbn. lia.
  - specialize (IH k H). unfold offs, sum in *. cbn in *. lia.
Qed.

Lemma offs_all l : offs l (length l) = sum l.
Proof. unfold offs. rewrite firstn_all. reflexivity. Qed.

Lemma num_dofs_sum s : num_dofs s = sum (sizes s).
Proof. reflexivity. Qed.

Lemma map_fst_combine {A B} (l1 : list A) (l2 : list B) :
  length l1 = length l2 -> map fst (combine l1 l2) = l1.
Proof.
  revert l2. induction l1 as [|a l1 IH]; intros [|b l2] H; cbn in *; try discriminate; auto.
  f_equal. apply IH. lia.
Qed.

Lemma map_snd_combine {A B} (l1 : list A) (l2 : list B) :
  length l1 = length l2 -> map snd (combine l1 l2) = l2.
Proof.
  revert l2. induction l1 as [|a l1 IH]; intros [|b l2] H; cbn in *; try discriminate; auto.
  f_equal. apply IH. lia.
Qed.

Lemma block_ids_order g s : Inv g s -> block_ids s = map vid (order g (vars s)).
Proof.
  intros [[Hn _] _ _ _]. unfold block_ids. rewrite Hn.
  apply map_fst_combine. rewrite map_length, seq_length. reflexivity.
Qed.

Lemma numbers_snd g s : Inv g s -> map snd (numbers s) = seq 0 (length (numbers s)).
Proof.
  intros [[Hn _] _ _ _]. rewrite Hn at 1. rewrite map_snd_combine.
  - rewrite Hn, combine_length, map_length, seq_length, Nat.min_id. reflexivity.
  - rewrite map_length, seq_length. reflexivity.
Qed.

Lemma sizes_length g s : Inv g s -> length (sizes s) = length (order g (vars s)).
Proof. intros [[_ Hs] _ _ _]. rewrite Hs, map_length. reflexivity. Qed.

Lemma dofs_of_one g s v k :
  Inv g s -> nth_error (order g (vars s)) k = Some v ->
  dofs_of s (Some [ById (vid v)]) = inl (seq (offs (sizes s) k) (ndofv g v)).
Proof.
  intros HI Hk.
  assert (Hv : In v (vars s)).
  { apply nth_error_In in Hk. apply in_order in Hk. tauto. }
  destruct (order_nth g s v HI Hv) as [k' [Hk' [Hl Hs]]].
  assert (k' = k).
  { pose proof (order_NoDup_ids g (vars s) (inv_sorted g s HI)) as Hnd.
    apply (proj1 (NoDup_nth_error _) Hnd).
    - apply nth_error_Some. rewrite (map_nth_error vid k' _ Hk'). discriminate.
    - rewrite (map_nth_error vid k' _ Hk'), (map_nth_error vid k _ Hk). reflexivity. }
  subst k'.
  assert (Hlt : k < length (sizes s)) by (apply nth_error_Some; congruence).
  unfold dofs_of. cbn [parse flat_map parse1 app dofs_loop]. rewrite Hl.
  rewrite !nth_gvd by lia. rewrite (offs_S _ _ _ Hs).
  unfold arange. rewrite app_nil_r. f_equal. f_equal. lia.
Qed.

Lemma blocks_eq g s :
  Inv g s -> map (block_of s) (block_ids s) = blocks_from 0 (sizes s).
Proof.
  intro HI. rewrite (block_ids_order g s HI). apply nth_error_ext. intro k.
  destruct (nth_error (order g (vars s)) k) as [v|] eqn:Hk.
  - rewrite map_map. rewrite (map_nth_error _ k _ Hk).
    unfold block_of. rewrite (dofs_of_one g s v k HI Hk).
    destruct HI as [[_ Hs] _ _ _].
    assert (Hx : nth_error (sizes s) k = Some (ndofv g v)).
    { rewrite Hs. apply map_nth_error. auto. }
    rewrite (nth_blocks_from _ 0 k _ Hx). reflexivity.
  - apply nth_error_None in Hk.
    replace (nth_error (map (block_of s) (map vid (order g (vars s)))) k) with (@None (list nat)).
    + symmetry. apply nth_error_None. rewrite length_blocks_from, (sizes_length g s HI). auto.
    + symmetry. apply nth_error_None. rewrite !map_length. auto.
Qed.

(* blocks are contiguous, pairwise disjoint and cover 0..num_dofs-1 in block order *)
Lemma partition_cover g s :
  Inv g s -> concat (map (block_of s) (block_ids s)) = seq 0 (num_dofs s).
Proof. intro HI. rewrite (blocks_eq g s HI), concat_blocks_from. reflexivity. Qed.

Lemma find_var_In s v : NoDup (map vid (vars s)) -> In v (vars s) -> find_var s (vid v) = Some v.
Proof.
  unfold find_var. induction (vars s) as [|w r IH]; cbn; intros Hnd Hin; [contradiction|].
  inversion Hnd as [|? ? Hn Hnd']; subst. destruct Hin as [E|Hin].
  - subst. rewrite Nat.eqb_refl. reflexivity.
  - destruct (Nat.eqb (vid w) (vid v)) eqn:E.
    + apply Nat.eqb_eq in E. exfalso. apply Hn. rewrite E. apply in_map. auto.
    + auto.
Qed.

(* the full layout statement *)
Lemma layout g s :
  Inv g s ->
  let ord := order g (vars s) in
  block_ids s = map vid ord /\
  map snd (numbers s) = seq 0 (length (numbers s)) /\
  (forall v, In v ord <-> In v (vars s)) /\
  NoDup (block_ids s) /\
  StronglySorted (lexlt g) ord /\
  concat (map (block_of s) (block_ids s)) = seq 0 (num_dofs s) /\
  (forall v, In v (vars s) -> find_var s (vid v) = Some v /\
                              length (block_of s (vid v)) = ndofv g v).
Proof.
  intro HI. cbn zeta. split; [apply block_ids_order; auto|].
  split; [apply (numbers_snd g); auto|].
  split.
  { intro v. rewrite in_order. pose proof (inv_dom g s HI) as Hd.
    rewrite Forall_forall in Hd. split; [tauto|]. intro H. split; auto. }
  split; [rewrite (block_ids_order g s HI); apply order_NoDup_ids; apply HI|].
  split; [apply order_sorted; apply HI|].
  split; [apply (partition_cover g); auto|].
  intros v Hv. split.
  - apply find_var_In; auto. apply SS_lt_NoDup. apply HI.
  - destruct (order_nth g s v HI Hv) as [k [Hk _]].
    unfold block_of. rewrite (dofs_of_one g s v k HI Hk). apply seq_length.
Qed.

(* ------------------------------------------------------------------------------------ *)
(* identify_dof *)
Lemma argmax_first : forall l j,
  nth_error l j = Some true -> (forall j', j' < j -> nth_error l j' = Some false) ->
  argmax_true l = j.
Proof.
  induction l as [|b r IH]; intros j Hj Hlt; [destruct j; discriminate|].
  destruct b; cbn [argmax_true].
  - destruct j as [|j]; auto. specialize (Hlt 0 (Nat.lt_0_succ j)). discriminate.
  - destruct j as [|j]; [discriminate|]. cbn in Hj.
    assert (He : existsb (fun b => b) r = true).
    { apply existsb_exists. exists true. split; auto. eapply nth_error_In; eauto. }
    rewrite He. f_equal. apply IH; auto. intros j' Hj'. apply (Hlt (S j')). lia.
Qed.

Lemma find_block : forall l i, i < sum l ->
  exists k x, nth_error l k = Some x /\ offs l k <= i < offs l k + x.
Proof.
  induction l as [|x r IH]; intros i Hi; [cbn in Hi; lia|].
  destruct (Nat.ltb_spec i x) as [Hlt|Hge].
  - exists 0, x. split; auto. unfold offs, sum. cbn. lia.
  - assert (Hi' : i - x < sum r) by (unfold sum in *; cbn in Hi; lia).
    destruct (IH (i - x) Hi') as [k [y [Hk Hr]]].
    exists (S k), y. split; auto. unfold offs, sum in *. cbn. lia.
Qed.

Lemma offs_mono : forall l a b, a <= b -> offs l a <= offs l b.
Proof.
  induction l as [|x r IH]; intros a b H.
  - unfold offs. rewrite !firstn_nil. lia.
  - destruct a as [|a], b as [|b]; unfold offs, sum in *; cbn; try lia.
    specialize (IH a b). cbn in IH. lia.
Qed.

Lemma Zeqb_nat p q : (Z.of_nat p =? Z.of_nat q)%Z = Nat.eqb p q.
Proof.
  destruct (Nat.eqb_spec p q) as [E|E].
  - subst. apply Z.eqb_refl.
  - apply Z.eqb_neq. lia.
Qed.

Lemma filter_combine_none {A} (ids : list A) : forall b m,
  m < b -> filter (fun kv : A * nat => Nat.eqb (snd kv) m) (combine ids (seq b (length ids))) = [].
Proof.
  induction ids as [|x r IH]; intros b m H; cbn; auto.
  destruct (Nat.eqb_spec b m); [lia|]. apply IH. lia.
Qed.

Lemma filter_combine_seq {A} (ids : list A) : forall a k id,
  nth_error ids k = Some id ->
  filter (fun kv : A * nat => Nat.eqb (snd kv) (a + k)) (combine ids (seq a (length ids)))
  = [(id, a + k)].
Proof.
  induction ids as [|x r IH]; intros a k id H; [destruct k; discriminate|].
  cbn [length seq combine filter snd]. destruct k as [|k]; cbn in H.
  - inversion H; subst. rewrite Nat.add_0_r, Nat.eqb_refl.
    rewrite filter_combine_none by lia. reflexivity.
  - destruct (Nat.eqb_spec a (a + S k)); [lia|].
    replace (a + S k) with (S a + k) by lia. apply IH. auto.
Qed.

Lemma filter_unique vs v :
  NoDup (map vid vs) -> In v vs -> filter (fun w => Nat.eqb (vid w) (vid v)) vs = [v].
Proof.
  induction vs as [|w r IH]; cbn; intros Hnd Hin; [contradiction|].
  inversion Hnd as [|? ? Hn Hnd']; subst. destruct Hin as [E|Hin].
  - subst. rewrite Nat.eqb_refl. f_equal.
    assert (Hnone : forall l, ~ In (vid v) (map vid l) ->
                              filter (fun w => Nat.eqb (vid w) (vid v)) l = []).
    { induction l as [|y l IHl]; cbn; intro Hni; auto.
      destruct (Nat.eqb_spec (vid y) (vid v)) as [E|E].
      - exfalso. apply Hni. auto.
      - apply IHl. intro. apply Hni. auto. }
    apply Hnone. auto.
  - destruct (Nat.eqb_spec (vid w) (vid v)) as [E|E].
    + exfalso. apply Hn. rewrite E. apply in_map. auto.
    + auto.
Qed.

Lemma identify_ok g s i :
  Inv g s -> i < num_dofs s ->
  exists v, In v (vars s) /\ identify_dof s (Z.of_nat i) = OVarId (vid v) /\
            In i (block_of s (vid v)).
Proof.
  intros HI Hi. rewrite num_dofs_sum in Hi.
  destruct (find_block (sizes s) i Hi) as [k [x [Hk Hr]]].
  assert (Hlt : k < length (sizes s)) by (apply nth_error_Some; congruence).
  rewrite (sizes_length g s HI) in Hlt.
  destruct (nth_error (order g (vars s)) k) as [v|] eqn:Hv;
    [|apply nth_error_None in Hv; lia].
  assert (Hin : In v (vars s)).
  { apply nth_error_In in Hv. apply in_order in Hv. tauto. }
  assert (Hx : x = ndofv g v).
  { destruct HI as [[_ Hs] _ _ _]. rewrite Hs, (map_nth_error _ k _ Hv) in Hk. congruence. }
  exists v. split; auto. split.
  - unfold identify_dof.
    replace ((0 <=? Z.of_nat i)%Z && (Z.of_nat i <? Z.of_nat (num_dofs s))%Z) with true.
    2:{ symmetry. apply andb_true_iff. split; [apply Z.leb_le; lia|apply Z.ltb_lt].
        rewrite num_dofs_sum. lia. }
    assert (Ha : argmax_true (map (fun x => (Z.of_nat i <? Z.of_nat x)%Z) (gvd s)) = S k).
    { rewrite <- (sizes_length g s HI) in Hlt. apply argmax_first.
      - rewrite (map_nth_error _ (S k) (gvd s) (nth_gvd s (S k) ltac:(lia))).
        f_equal. apply Z.ltb_lt. rewrite (offs_S _ _ _ Hk). lia.
      - intros j' Hj'. rewrite (map_nth_error _ j' (gvd s) (nth_gvd s j' ltac:(lia))).
        f_equal. apply Z.ltb_ge. pose proof (offs_mono (sizes s) j' k ltac:(lia)). lia. }
    rewrite Ha.
    replace (Z.of_nat (S k) - 1)%Z with (Z.of_nat k) by lia.
    rewrite (filter_ext _ (fun kv : nat * nat => Nat.eqb (snd kv) (0 + k)))
      by (intros kv; apply Zeqb_nat).
    destruct HI as [[Hn Hs] Hd Hso Hnx]. rewrite Hn. rewrite <- (map_length vid).
    rewrite (filter_combine_seq _ 0 k (vid v)) by (apply map_nth_error; auto).
    rewrite filter_unique; auto. apply SS_lt_NoDup; auto.
  - unfold block_of. rewrite (dofs_of_one g s v k HI Hv). apply in_seq. lia.
Qed.

Lemma identify_out_of_range s z :
  (z < 0 \/ Z.of_nat (num_dofs s) <= z)%Z -> identify_dof s z = OErr KeyErr.
Proof.
  intro H. unfold identify_dof.
  replace ((0 <=? z)%Z && (z <? Z.of_nat (num_dofs s))%Z) with false; auto.
  symmetry. apply andb_false_iff. destruct H as [H|H].
  - left. apply Z.leb_gt. lia.
  - right. apply Z.ltb_ge. lia.
Qed.

(* ------------------------------------------------------------------------------------ *)
(* dofs_of for registered variables, projection_to *)
Lemma dofs_loop_cons s id r :
  dofs_loop s (id :: r) =
  match dofs_loop s [id] with
  | inr e => inr e
  | inl a => match dofs_loop s r with inr e => inr e | inl b => inl (a ++ b) end
  end.
Proof.
  cbn [dofs_loop]. destruct (lookup (numbers s) id) as [k|]; auto.
  destruct (nth_error (gvd s) k); auto. destruct (nth_error (gvd s) (S k)); auto.
  rewrite app_nil_r. reflexivity.
Qed.

Lemma dofs_loop_registered g s : forall ids,
  Inv g s -> (forall id, In id ids -> In id (block_ids s)) ->
  dofs_loop s ids = inl (concat (map (block_of s) ids)).
Proof.
  intros ids HI. induction ids as [|id r IH]; intro Hreg; [reflexivity|].
  rewrite dofs_loop_cons.
  assert (Hid : In id (block_ids s)) by (apply Hreg; left; auto).
  rewrite (block_ids_order g s HI) in Hid. apply in_map_iff in Hid.
  destruct Hid as [v [Ev Hv]]. apply In_nth_error in Hv. destruct Hv as [k Hk].
  pose proof (dofs_of_one g s v k HI Hk) as Hone.
  unfold dofs_of in Hone. cbn [parse flat_map parse1 app] in Hone. rewrite Ev in Hone.
  rewrite Hone. rewrite IH by (intros; apply Hreg; right; auto).
  cbn [map concat]. unfold block_of at 2. unfold dofs_of. cbn [parse flat_map parse1 app].
  rewrite Hone. reflexivity.
Qed.

Lemma insert_perm x l : Permutation (insert x l) (x :: l).
Proof.
  induction l as [|y r IH]; cbn; auto. destruct (x <=? y); auto.
  eapply perm_trans; [apply perm_skip; exact IH|apply perm_swap].
Qed.

Lemma sort_perm l : Permutation (sort l) l.
Proof.
  induction l as [|x r IH]; cbn; auto.
  eapply perm_trans; [apply insert_perm|apply perm_skip; auto].
Qed.

Lemma insert_sorted x l : StronglySorted le l -> StronglySorted le (insert x l).
Proof.
  induction 1 as [|y r Hs IH Hf]; cbn; [constructor; constructor|].
  destruct (Nat.leb_spec x y) as [Hle|Hgt].
  - constructor; [constructor; auto|]. constructor; auto.
    eapply Forall_impl; [|exact Hf]. cbn. intros; lia.
  - constructor; auto. apply Forall_forall. intros z Hz.
    apply (Permutation_in _ (insert_perm x r)) in Hz. destruct Hz as [E|Hz]; [lia|].
    rewrite Forall_forall in Hf. auto.
Qed.

Lemma sort_sorted l : StronglySorted le (sort l).
Proof. induction l; cbn; [constructor|apply insert_sorted; auto]. Qed.

Lemma projection_ok g s r :
  Inv g s -> truthy r = true -> (forall id, In id (parse s r) -> In id (block_ids s)) ->
  exists cols, projection_to s r = OProjM cols (num_dofs s) /\
    StronglySorted le cols /\
    Permutation cols (concat (map (block_of s) (parse s r))) /\
    (forall i, In i cols <-> exists id, In id (parse s r) /\ In i (block_of s id)) /\
    (forall x, proj_apply cols x = map (fun c => nth c x 0%Z) cols).
Proof.
  intros HI Ht Hreg. unfold projection_to. rewrite Ht. unfold dofs_of.
  rewrite (dofs_loop_registered g s _ HI Hreg).
  eexists. split; [reflexivity|]. split; [apply sort_sorted|]. split; [apply sort_perm|].
  split; [|reflexivity].
  intro i. split.
  - intro Hi. apply (Permutation_in _ (sort_perm _)) in Hi. apply in_concat in Hi.
    destruct Hi as [b [Hb Hi]]. apply in_map_iff in Hb. destruct Hb as [id [E Hid]].
    subst b. eauto.
  - intros [id [Hid Hi]]. apply (Permutation_in _ (Permutation_sym (sort_perm _))).
    apply in_concat. exists (block_of s id). split; auto. apply in_map. auto.
Qed.

Lemma projection_null s r : truthy r = false -> projection_to s r = OProjM [] (num_dofs s).
Proof. intro H. unfold projection_to. rewrite H. reflexivity. Qed.

(* ------------------------------------------------------------------------------------ *)
(* the value store *)
Lemma loc_eqb_eq a b : loc_eqb a b = true <-> a = b.
Proof. destruct a, b; cbn; split; intro H; auto; discriminate. Qed.

Lemma skey_eqb_eq a b : skey_eqb a b = true <-> a = b.
Proof.
  destruct a as [[la na] da], b as [[lb nb] db]. cbn [skey_eqb].
  rewrite !andb_true_iff, loc_eqb_eq, Nat.eqb_eq, dom_eqb_eq. split.
  - intros [[H1 H2] H3]. subst. reflexivity.
  - intro H. inversion H. auto.
Qed.

Lemma skey_eqb_refl a : skey_eqb a a = true.
Proof. apply skey_eqb_eq. reflexivity. Qed.

Lemma skey_eqb_neq a b : a <> b -> skey_eqb a b = false.
Proof.
  intro H. destruct (skey_eqb a b) eqn:E; auto. apply skey_eqb_eq in E. contradiction.
Qed.

Lemma slookup_supdate_same d k v : slookup (supdate d k v) k = Some v.
Proof.
  induction d as [|[k' v'] r IH]; cbn.
  - rewrite skey_eqb_refl. reflexivity.
  - destruct (skey_eqb k' k) eqn:E; cbn; rewrite E; auto.
Qed.

Lemma slookup_supdate_other d k k' v : k' <> k -> slookup (supdate d k v) k' = slookup d k'.
Proof.
  intro Hne. induction d as [|[k0 v0] r IH]; cbn.
  - rewrite skey_eqb_neq; auto.
  - destruct (skey_eqb k0 k) eqn:E; cbn.
    + apply skey_eqb_eq in E. subst k0. rewrite (skey_eqb_neq k k'); auto.
    + destruct (skey_eqb k0 k'); auto.
Qed.

Lemma loc_eq_dec (a b : loc) : {a = b} + {a <> b}.
Proof. decide equality. Qed.

Lemma set_solution_nonadd name d v : forall ls sto,
  exists sto', set_solution sto ls name d v false = (sto', None) /\
    (forall l, In l ls -> slookup sto' (l, name, d) = Some v) /\
    (forall k, (forall l, In l ls -> k <> (l, name, d)) -> slookup sto' k = slookup sto k).
Proof.
  induction ls as [|l r IH]; intro sto; cbn [set_solution].
  - exists sto. split; auto. split; [intros l []|auto].
  - destruct (IH (supdate sto (l, name, d) v)) as [sto' [E [H1 H2]]].
    exists sto'. split; auto. split.
    + intros l' [El|Hl'].
      * subst l'. destruct (in_dec loc_eq_dec l r) as [Hin|Hnin]; auto.
        rewrite H2.
        -- apply slookup_supdate_same.
        -- intros l'' Hl'' Ek. inversion Ek. subst. contradiction.
      * auto.
    + intros k Hk. rewrite H2 by (intros; apply Hk; right; auto).
      apply slookup_supdate_other. apply Hk. left. auto.
Qed.

Lemma firstn_add {A} : forall p q (y : list A),
  firstn (p + q) y = firstn p y ++ firstn q (skipn p y).
Proof.
  induction p as [|p IH]; intros q y; cbn; auto.
  destruct y as [|a y]; cbn.
  - rewrite firstn_nil. reflexivity.
  - f_equal. apply IH.
Qed.

Lemma skipn_add {A} : forall p q (y : list A), skipn q (skipn p y) = skipn (p + q) y.
Proof.
  induction p as [|p IH]; intros q y; cbn; auto.
  destruct y as [|a y]; cbn; [apply skipn_nil|apply IH].
Qed.

Lemma slice_app x a b c : a <= b -> b <= c -> slice x a b ++ slice x b c = slice x a c.
Proof.
  intros H1 H2. unfold slice.
  replace (c - a) with ((b - a) + (c - b)) by lia.
  rewrite firstn_add. f_equal. f_equal.
  rewrite skipn_add. f_equal. lia.
Qed.

Lemma slice_all x : slice x 0 (length x) = x.
Proof. unfold slice. cbn [skipn]. rewrite Nat.sub_0_r. apply firstn_all. Qed.

(* ------------------------------------------------------------------------------------ *)
(* set_variable_values / get_variable_values *)
Definition vkey (v : var) : nat * dom := (vname v, vdom v).

Section SetGet.
  Variable g : mdgrid.
  Variable s : st.
  Variable pids : list nat.
  Variable xs : list Z.
  Variable w : wloc.

  Definition item_rel (it : nat * nat) (v : var) : Prop :=
    fst it = vid v /\ find_var s (vid v) = Some v /\
    nth_error (sizes s) (snd it) = Some (ndofv g v).

  Definition selv (vs : list var) : list var := filter (fun v => memb (vid v) pids) vs.
  Definition total (vs : list var) : nat := sum (map (ndofv g) (selv vs)).

  Lemma set_get_loop : forall items vs, Forall2 item_rel items vs -> forall a sto,
    NoDup (map vkey (selv vs)) ->
    exists sto',
      set_loop s items pids xs w false a a sto = (sto', a + total vs, None) /\
      (forall l, In l (wlocs w) ->
         get_loop (with_store s sto') items pids l = inl (slice xs a (a + total vs))) /\
      (forall k, (forall v l, In v (selv vs) -> In l (wlocs w) -> k <> (l, vname v, vdom v)) ->
         slookup sto' k = slookup sto k).
  Proof.
    induction 1 as [|[id num] v items vs [Hid [Hf Hn]] HF IH]; intros a sto Hnd.
    - exists sto. unfold total. cbn. rewrite Nat.add_0_r. split; auto. split; auto.
      intros l _. unfold slice. rewrite Nat.sub_diag. reflexivity.
    - cbn [fst snd] in *. subst id. cbn [set_loop get_loop].
      unfold total, selv in *. cbn [filter] in *.
      destruct (memb (vid v) pids) eqn:Em.
      + cbn [map sum fold_right] in *. inversion Hnd as [|? ? Hnin Hnd']; subst.
        rewrite Hn, Hf.
        destruct (set_solution_nonadd (vname v) (vdom v)
                    (slice xs a (a + ndofv g v)) (wlocs w) sto) as [sto1 [E1 [G1 F1]]].
        rewrite E1.
        destruct (IH (a + ndofv g v) sto1 Hnd') as [sto' [E2 [G2 F2]]].
        exists sto'. split; [|split].
        * rewrite E2. f_equal. f_equal. unfold sum. lia.
        * intros l Hl.
          change (find_var (with_store s sto') (vid v)) with (find_var s (vid v)).
          change (store (with_store s sto')) with sto'.
          rewrite Hf.
          assert (Hk : slookup sto' (l, vname v, vdom v) = Some (slice xs a (a + ndofv g v))).
          { rewrite F2; auto. intros v' l' Hv' Hl' Ek. inversion Ek. apply Hnin.
            apply in_map_iff. exists v'. unfold vkey. split; [congruence|auto]. }
          rewrite Hk. specialize (G2 l Hl). rewrite G2.
          f_equal.
          match goal with |- _ = slice xs a ?e =>
            replace e with (a + ndofv g v +
                            sum (map (ndofv g) (filter (fun v0 => memb (vid v0) pids) vs)))
              by (unfold sum; lia) end.
          apply slice_app; lia.
        * intros k Hk. rewrite F2 by (intros; apply Hk; auto; right; auto).
          apply F1. intros l Hl. apply Hk; auto. left. auto.
      + destruct (IH a sto Hnd) as [sto' [E2 [G2 F2]]]. exists sto'. auto.
  Qed.
End SetGet.

Lemma items_rel_gen g s : forall vs b,
  (forall j v, nth_error vs j = Some v ->
     find_var s (vid v) = Some v /\ nth_error (sizes s) (b + j) = Some (ndofv g v)) ->
  Forall2 (item_rel g s) (combine (map vid vs) (seq b (length vs))) vs.
Proof.
  induction vs as [|v r IH]; intros b H; cbn; constructor.
  - destruct (H 0 v eq_refl) as [H1 H2]. rewrite Nat.add_0_r in H2.
    unfold item_rel. cbn. auto.
  - apply IH. intros j v' Hj. specialize (H (S j) v' Hj).
    replace (S b + j) with (b + S j) by lia. exact H.
Qed.

Lemma items_rel g s : Inv g s -> Forall2 (item_rel g s) (numbers s) (order g (vars s)).
Proof.
  intro HI. pose proof HI as [[Hn Hs] Hd Hso Hnx]. rewrite Hn.
  apply items_rel_gen. intros j v Hj. split.
  - apply find_var_In; [apply SS_lt_NoDup; auto|].
    apply nth_error_In in Hj. apply in_order in Hj. tauto.
  - cbn. rewrite Hs. apply map_nth_error. auto.
Qed.

Lemma NoDup_map_filter {A B} (f : A -> B) p l : NoDup (map f l) -> NoDup (map f (filter p l)).
Proof.
  induction l as [|a l IH]; cbn; intro H; auto. inversion H as [|? ? Hn Hnd]; subst.
  destruct (p a); cbn; auto. constructor; auto.
  intro Hin. apply Hn. apply in_map_iff in Hin. destruct Hin as [y [E Hy]].
  apply filter_In in Hy. rewrite <- E. apply in_map. tauto.
Qed.

Lemma order_keys_NoDup g s :
  Inv g s -> NoDup (map vkey (vars s)) -> NoDup (map vkey (order g (vars s))).
Proof.
  intros HI Hk. apply NoDup_map_of_inj.
  - eapply SS_irrefl_NoDup; [apply order_sorted; apply HI|apply lexlt_irrefl].
  - intros a b Ha Hb. apply in_order in Ha. apply in_order in Hb.
    apply (NoDup_map_inj vkey (vars s)); tauto.
Qed.

(* the number of values a write to / read of [r] handles: the dofs of the registered
   variables selected by [r], each counted once *)
Definition selected_ids (s : st) (r : refs) : list nat :=
  filter (fun id => memb id (parse s r)) (block_ids s).
Definition need (s : st) (r : refs) : nat :=
  length (concat (map (block_of s) (selected_ids s r))).

Lemma filter_map {A B} (f : A -> B) p l : filter p (map f l) = map f (filter (fun x => p (f x)) l).
Proof. induction l as [|a l IH]; cbn; auto. destruct (p (f a)); cbn; rewrite IH; auto. Qed.

Lemma length_concat' {A} (ls : list (list A)) : length (concat ls) = sum (map (@length A) ls).
Proof. induction ls as [|l r IH]; cbn; auto. rewrite app_length, IH. reflexivity. Qed.

Lemma need_total g s r : Inv g s -> need s r = total g (parse s r) (order g (vars s)).
Proof.
  intro HI. unfold need, selected_ids, total, selv.
  rewrite (block_ids_order g s HI), filter_map, length_concat', !map_map.
  f_equal. apply map_ext_in. intros v Hv. apply filter_In in Hv. destruct Hv as [Hv _].
  apply in_order in Hv. destruct (layout g s HI) as [_ [_ [_ [_ [_ [_ H]]]]]].
  apply H. tauto.
Qed.

Lemma set_values_spec g s r xs w :
  Inv g s -> NoDup (map vkey (vars s)) ->
  exists sto',
    set_values s r xs w false =
      (with_store s sto', if Nat.eqb (need s r) (length xs) then ODone else OErr AssertErr) /\
    forall l, In l (wlocs w) ->
      get_values (with_store s sto') r l = OVals (slice xs 0 (need s r)).
Proof.
  intros HI Hk.
  assert (Hnd : NoDup (map vkey (selv (parse s r) (order g (vars s))))).
  { unfold selv. apply NoDup_map_filter. apply order_keys_NoDup; auto. }
  destruct (set_get_loop g s (parse s r) xs w _ _ (items_rel g s HI) 0 (store s) Hnd)
    as [sto' [E [G _]]].
  exists sto'. unfold set_values. rewrite E. cbn [Nat.add].
  rewrite (need_total g s r HI). split; auto.
  intros l Hl. unfold get_values.
  change (numbers (with_store s sto')) with (numbers s).
  change (parse (with_store s sto') r) with (parse s r).
  rewrite (G l Hl). reflexivity.
Qed.

(* write then read *)
Lemma set_get_roundtrip g s r xs w :
  Inv g s -> NoDup (map vkey (vars s)) -> length xs = need s r ->
  exists s', set_values s r xs w false = (s', ODone) /\
             vars s' = vars s /\ numbers s' = numbers s /\ sizes s' = sizes s /\
             forall l, In l (wlocs w) -> get_values s' r l = OVals xs.
Proof.
  intros HI Hk Hlen. destruct (set_values_spec g s r xs w HI Hk) as [sto' [E G]].
  exists (with_store s sto'). rewrite E, <- Hlen, Nat.eqb_refl. repeat split; auto.
  intros l Hl. rewrite (G l Hl), <- Hlen, slice_all. reflexivity.
Qed.

Lemma set_wrong_size g s r xs w :
  Inv g s -> NoDup (map vkey (vars s)) -> length xs <> need s r ->
  snd (set_values s r xs w false) = OErr AssertErr.
Proof.
  intros HI Hk Hlen. destruct (set_values_spec g s r xs w HI Hk) as [sto' [E _]].
  rewrite E. cbn [snd]. destruct (Nat.eqb_spec (need s r) (length xs)); [lia|reflexivity].
Qed.

(* ------------------------------------------------------------------------------------ *)
(* at most one registered variable per (name, grid): needed for the write/read round trip.
   create_variables rejects a name that is already defined on one of the grids; the
   remaining way to break it -- the same grid twice in ONE call -- is excluded by wf2_op. *)
Definition nodup_opt (o : option (list nat)) : Prop :=
  match o with None => True | Some l => NoDup l end.

Definition wf2_op (g : mdgrid) (o : op) : Prop :=
  wf_op g o /\
  match o with
  | OpCreate _ _ _ sub intf => nodup_opt sub /\ nodup_opt intf
  | _ => True
  end.

Definition Inv2 (g : mdgrid) (s : st) : Prop := Inv g s /\ NoDup (map vkey (vars s)).

Lemma NoDup_app' {A} (l1 l2 : list A) :
  NoDup l1 -> NoDup l2 -> (forall x, In x l1 -> In x l2 -> False) -> NoDup (l1 ++ l2).
Proof.
  induction l1 as [|a l1 IH]; cbn; intros H1 H2 H; auto.
  inversion H1 as [|? ? Hn Hnd]; subst. constructor.
  - intro Hin. apply in_app_iff in Hin. destruct Hin as [Hin|Hin]; [contradiction|].
    apply (H a); auto.
  - apply IH; auto. intros x Hx. apply H. auto.
Qed.

Lemma NoDup_map_factor {A B C} (f : A -> B) (h : B -> C) l :
  NoDup (map (fun x => h (f x)) l) -> NoDup (map f l).
Proof.
  induction l as [|a l IH]; cbn; intro H; [constructor|].
  inversion H as [|? ? Hn Hnd]; subst. constructor; auto.
  intro Hin. apply Hn. apply in_map_iff in Hin. destruct Hin as [y [E Hy]].
  apply in_map_iff. exists y. split; auto. rewrite E. reflexivity.
Qed.

Lemma nodup_doms_NoDup l : nodup_doms l = true -> NoDup l.
Proof.
  induction l as [|d r IH]; cbn; intro H; [constructor|].
  apply andb_true_iff in H. destruct H as [H1 H2]. constructor; auto.
  intro Hin. apply negb_true_iff in H1.
  assert (Ht : existsb (dom_eqb d) r = true).
  { apply existsb_exists. exists d. split; auto. apply dom_eqb_refl. }
  congruence.
Qed.

Lemma create_keys_wf g s name dof badkey sub intf :
  grids_ok (length (sds g)) sub -> grids_ok (length (intfs g)) intf ->
  Inv g s -> NoDup (map vkey (vars s)) ->
  NoDup (map vkey (vars (fst (create g s name dof badkey sub intf)))).
Proof.
  intros Hs Hi HI Hk. unfold create.
  destruct badkey; [exact Hk|].
  pose proof (create_grids_ok g sub intf Hs Hi) as Hg.
  set (grids := match sub, intf with
                | Some l, _ => map Sd l | _, Some l => map Intf l | _, _ => [] end) in *.
  set (dof' := match dof with None => (1, 0, 0) | Some d => d end).
  assert (Hmain : NoDup (map vkey (vars (fst (
      if negb (nodup_doms grids) then (s, OErr ValueErr) else
      if existsb (fun v => Nat.eqb (vname v) name && existsb (dom_eqb (vdom v)) grids) (vars s)
      then (s, OErr KeyErr)
      else let s1 := create_loop g s name dof' grids in
           let ids := seq (next_id s) (length grids) in
           match cluster g s1 with
           | inr e => (s1, OErr e)
           | inl s2 => (s2, OCreated ids)
           end))))).
  { destruct (nodup_doms grids) eqn:End; cbn [negb]; [|exact Hk].
    pose proof (nodup_doms_NoDup grids End) as Hndg.
    destruct (existsb _ (vars s)) eqn:Ex; [exact Hk|]. cbn zeta.
    destruct (create_loop_Pre g name dof' grids s (Inv_Pre g s HI) Hg)
      as [HP [_ [_ [news [Hv [Hdm Hnm]]]]]].
    destruct HP as [Hc Hl Hks Hd Hso Hn].
    destruct (cluster_Inv g _ Hc Hd Hso Hn) as [s2 [E [_ [Ev _]]]]. rewrite E. cbn [fst].
    rewrite Ev, Hv, map_app. apply NoDup_app'; auto.
    - apply (NoDup_map_factor vkey snd). cbn. change (fun x => vdom x) with vdom.
      rewrite Hdm. exact Hndg.
    - intros x Hx1 Hx2. apply in_map_iff in Hx1. apply in_map_iff in Hx2.
      destruct Hx1 as [v [E1 Hv1]], Hx2 as [v' [E2 Hv2]]. subst x.
      unfold vkey in E2. inversion E2 as [[En Ed]].
      rewrite Forall_forall in Hnm. specialize (Hnm v' Hv2).
      assert (Ht : existsb (fun v => Nat.eqb (vname v) name &&
                                     existsb (dom_eqb (vdom v)) grids) (vars s) = true).
      { apply existsb_exists. exists v. split; auto. apply andb_true_iff. split.
        - apply Nat.eqb_eq. congruence.
        - apply existsb_exists. exists (vdom v'). split.
          + rewrite <- Hdm. apply in_map. auto.
          + apply dom_eqb_eq. auto. }
      congruence. }
  destruct sub as [l1|], intf as [l2|]; try exact Hk; exact Hmain.
Qed.

Lemma create_keys g s name dof badkey sub intf :
  grids_ok (length (sds g)) sub -> grids_ok (length (intfs g)) intf ->
  nodup_opt sub -> nodup_opt intf ->
  Inv g s -> NoDup (map vkey (vars s)) ->
  NoDup (map vkey (vars (fst (create g s name dof badkey sub intf)))).
Proof. intros Hs Hi _ _. apply create_keys_wf; auto. Qed.

Lemma remove_loop_keys g : forall ids s,
  Inv g s -> NoDup (map vkey (vars s)) ->
  NoDup (map vkey (vars (fst (remove_loop g s ids)))).
Proof.
  induction ids as [|id r IH]; intros s HI Hk; cbn [remove_loop]; [exact Hk|].
  destruct (memb id (map vid (vars s))) eqn:Em; [|exact Hk].
  apply memb_In in Em. apply in_map_iff in Em. destruct Em as [v [Ev Hv]].
  destruct (order_nth g s v HI Hv) as [k [_ [Hkk _]]]. rewrite Ev in Hkk. rewrite Hkk.
  destruct (remove1_cluster_Inv g s id HI) as [s' [E [HI' [Evars _]]]]. rewrite E.
  apply IH; auto. rewrite Evars. apply NoDup_map_filter. auto.
Qed.

Lemma step_Inv2 g s o : wf2_op g o -> Inv2 g s -> Inv2 g (fst (step g s o)).
Proof.
  intros [Hw Hw2] [HI Hk]. split; [apply step_Inv; auto|].
  destruct o; cbn [step fst]; auto.
  - destruct Hw as [H1 H2], Hw2 as [H3 H4]. apply create_keys; auto.
  - apply remove_loop_keys; auto.
  - unfold set_values.
    destruct (set_loop s (numbers s) (parse s r) values w additive 0 0 (store s))
      as [[sto de] [e|]]; cbn [fst]; exact Hk.
Qed.

Lemma run_Inv2 g : forall ops s, Forall (wf2_op g) ops -> Inv2 g s -> Inv2 g (fst (run g s ops)).
Proof.
  induction ops as [|o r IH]; intros s Hw HI; [exact HI|].
  inversion Hw; subst. rewrite run_cons. apply IH; auto. apply step_Inv2; auto.
Qed.

Theorem final_Inv2 g ops : Forall (wf2_op g) ops -> Inv2 g (final g ops).
Proof. intro H. apply run_Inv2; auto. split; [apply Inv_init|constructor]. Qed.

(* since create_variables rejects a grid listed twice, wf_op alone suffices *)
Lemma step_Inv2_wf g s o : wf_op g o -> Inv2 g s -> Inv2 g (fst (step g s o)).
Proof.
  intros Hw [HI Hk]. split; [apply step_Inv; auto|].
  destruct o; cbn [step fst]; auto.
  - destruct Hw as [H1 H2]. apply create_keys_wf; auto.
  - apply remove_loop_keys; auto.
  - unfold set_values.
    destruct (set_loop s (numbers s) (parse s r) values w additive 0 0 (store s))
      as [[sto de] [e|]]; cbn [fst]; exact Hk.
Qed.

Lemma run_Inv2_wf g : forall ops s, Forall (wf_op g) ops -> Inv2 g s -> Inv2 g (fst (run g s ops)).
Proof.
  induction ops as [|o r IH]; intros s Hw HI; [exact HI|].
  inversion Hw; subst. rewrite run_cons. apply IH; auto. apply step_Inv2_wf; auto.
Qed.

Theorem final_Inv2_wf g ops : Forall (wf_op g) ops -> Inv2 g (final g ops).
Proof. intro H. apply run_Inv2_wf; auto. split; [apply Inv_init|constructor]. Qed.

(* ------------------------------------------------------------------------------------ *)
(* statements over arbitrary histories *)
Lemma thm_partition g ops :
  Forall (wf_op g) ops ->
  let s := final g ops in
  exists ord : list var,
    block_ids s = map vid ord /\
    map snd (numbers s) = seq 0 (length (numbers s)) /\
    (forall v, In v ord <-> In v (vars s)) /\
    NoDup (block_ids s) /\
    StronglySorted (lexlt g) ord /\
    StronglySorted lt (map vid (vars s)) /\
    concat (map (block_of s) (block_ids s)) = seq 0 (num_dofs s) /\
    (forall v, In v (vars s) ->
       find_var s (vid v) = Some v /\ length (block_of s (vid v)) = ndofv g v).
Proof.
  intro Hw. cbn zeta. pose proof (final_Inv g ops Hw) as HI.
  destruct (layout g _ HI) as [H1 [H2 [H3 [H4 [H5 [H6 H7]]]]]].
  exists (order g (vars (final g ops))).
  split; [exact H1|]. split; [exact H2|]. split; [exact H3|]. split; [exact H4|].
  split; [exact H5|]. split; [apply HI|]. split; [exact H6|exact H7].
Qed.

Lemma thm_identify g ops i :
  Forall (wf_op g) ops ->
  let s := final g ops in
  i < num_dofs s ->
  exists v, In v (vars s) /\ identify_dof s (Z.of_nat i) = OVarId (vid v) /\
            In i (block_of s (vid v)).
Proof. intros Hw s Hi. apply (identify_ok g); auto. apply final_Inv; auto. Qed.

Lemma thm_projection g ops r :
  Forall (wf_op g) ops ->
  let s := final g ops in
  truthy r = true -> (forall id, In id (parse s r) -> In id (block_ids s)) ->
  exists cols, projection_to s r = OProjM cols (num_dofs s) /\
    StronglySorted le cols /\
    Permutation cols (concat (map (block_of s) (parse s r))) /\
    (forall i, In i cols <-> exists id, In id (parse s r) /\ In i (block_of s id)) /\
    (forall x, proj_apply cols x = map (fun c => nth c x 0%Z) cols).
Proof. intros Hw s Ht Hr. apply (projection_ok g); auto. apply final_Inv; auto. Qed.

Lemma thm_set_get g ops r xs w :
  Forall (wf2_op g) ops ->
  let s := final g ops in
  length xs = need s r ->
  exists s', step g s (OpSet r xs w false) = (s', ODone) /\
    vars s' = vars s /\ numbers s' = numbers s /\ sizes s' = sizes s /\
    forall l, In l (wlocs w) -> snd (step g s' (OpGet r l)) = OVals xs.
Proof.
  intros Hw s Hlen. destruct (final_Inv2 g ops Hw) as [HI Hk].
  destruct (set_get_roundtrip g s r xs w HI Hk Hlen) as [s' [E [H1 [H2 [H3 H4]]]]].
  exists s'. cbn [step snd]. auto.
Qed.

Lemma thm_set_wrong_size g ops r xs w :
  Forall (wf2_op g) ops ->
  let s := final g ops in
  length xs <> need s r -> snd (step g s (OpSet r xs w false)) = OErr AssertErr.
Proof.
  intros Hw s Hlen. destruct (final_Inv2 g ops Hw) as [HI Hk].
  cbn [step]. apply (set_wrong_size g); auto.
Qed.

(* ------------------------------------------------------------------------------------ *)
(* additive writes *)
Definition vadd (a v : list Z) : list Z := map (fun p => (fst p + snd p)%Z) (combine a v).

Lemma np_iadd_same a v : length v = length a -> np_iadd a v = Some (vadd a v).
Proof. intro H. unfold np_iadd. rewrite H, Nat.eqb_refl. reflexivity. Qed.

Lemma vadd_app a1 a2 v1 v2 :
  length a1 = length v1 -> vadd (a1 ++ a2) (v1 ++ v2) = vadd a1 v1 ++ vadd a2 v2.
Proof. intro H. unfold vadd. rewrite combine_app by auto. apply map_app. Qed.

Lemma slice_length x a b : a <= b -> b <= length x -> length (slice x a b) = b - a.
Proof. intros. unfold slice. rewrite firstn_length, skipn_length. lia. Qed.

Lemma set_solution_add name d v : forall ls sto,
  NoDup ls ->
  (forall l, In l ls -> exists a, slookup sto (l, name, d) = Some a /\ length v = length a) ->
  exists sto', set_solution sto ls name d v true = (sto', None) /\
    (forall l, In l ls -> exists a, slookup sto (l, name, d) = Some a /\
                                    slookup sto' (l, name, d) = Some (vadd a v)) /\
    (forall k, (forall l, In l ls -> k <> (l, name, d)) -> slookup sto' k = slookup sto k).
Proof.
  induction ls as [|l r IH]; intros sto Hnd Hpre; cbn [set_solution].
  - exists sto. split; auto. split; [intros l []|auto].
  - inversion Hnd as [|? ? Hnin Hnd']; subst.
    destruct (Hpre l (or_introl eq_refl)) as [a [Ha Hlen]].
    rewrite Ha, (np_iadd_same a v Hlen).
    set (sto1 := supdate sto (l, name, d) (vadd a v)).
    assert (Hother : forall l', In l' r -> slookup sto1 (l', name, d) = slookup sto (l', name, d)).
    { intros l' Hl'. apply slookup_supdate_other. intro E. inversion E. subst. contradiction. }
    destruct (IH sto1 Hnd') as [sto' [E [H1 H2]]].
    { intros l' Hl'. rewrite Hother by auto. apply Hpre. right; auto. }
    exists sto'. split; auto. split.
    + intros l' [El|Hl'].
      * subst l'. exists a. split; auto. rewrite H2; [apply slookup_supdate_same|].
        intros l'' Hl'' Ek. inversion Ek. subst. contradiction.
      * destruct (H1 l' Hl') as [a' [Ha' Hs']]. exists a'. rewrite <- Hother by auto. auto.
    + intros k Hk. rewrite H2 by (intros; apply Hk; right; auto).
      apply slookup_supdate_other. apply Hk. left; auto.
Qed.

Lemma wlocs_NoDup w : NoDup (wlocs w).
Proof.
  destruct w; cbn; repeat constructor; cbn; intuition discriminate.
Qed.

Section SetAdd.
  Variable g : mdgrid.
  Variable pids : list nat.
  Variable xs ys : list Z.
  Variable w : wloc.

  (* every selected variable holds, at every written location, its piece of ys *)
  Fixpoint stored (sto : list (skey * list Z)) (vs : list var) (a : nat) : Prop :=
    match vs with
    | [] => True
    | v :: r =>
        if memb (vid v) pids
        then (forall l, In l (wlocs w) ->
                slookup sto (l, vname v, vdom v) = Some (slice ys a (a + ndofv g v))) /\
             stored sto r (a + ndofv g v)
        else stored sto r a
    end.

  Lemma stored_frame sto sto' : forall vs a,
    (forall k, (exists v l, In v (selv pids vs) /\ In l (wlocs w) /\ k = (l, vname v, vdom v)) ->
               slookup sto' k = slookup sto k) ->
    stored sto vs a -> stored sto' vs a.
  Proof.
    induction vs as [|v r IH]; intros a Hf Hs; cbn [stored] in *; auto.
    unfold selv in Hf. cbn [filter] in Hf. destruct (memb (vid v) pids) eqn:Em.
    - destruct Hs as [H1 H2]. split.
      + intros l Hl. rewrite Hf; auto. exists v, l. split; [left; auto|auto].
      + apply IH; auto. intros k [v' [l [Hv' [Hl E]]]]. apply Hf.
        exists v', l. split; [right; auto|auto].
    - apply IH; auto.
  Qed.

  Lemma set_loop_stored s : forall items vs, Forall2 (item_rel g s) items vs -> forall a sto,
    NoDup (map vkey (selv pids vs)) ->
    exists sto',
      set_loop s items pids ys w false a a sto = (sto', a + total g pids vs, None) /\
      stored sto' vs a /\
      (forall k, (forall v l, In v (selv pids vs) -> In l (wlocs w) -> k <> (l, vname v, vdom v)) ->
         slookup sto' k = slookup sto k).
  Proof.
    induction 1 as [|[id num] v items vs [Hid [Hf Hn]] HF IH]; intros a sto Hnd.
    - exists sto. unfold total. cbn. rewrite Nat.add_0_r. auto.
    - cbn [fst snd] in *. subst id. cbn [set_loop stored].
      unfold total, selv in *. cbn [filter] in *.
      destruct (memb (vid v) pids) eqn:Em.
      + cbn [map] in *. inversion Hnd as [|? ? Hnin Hnd']; subst.
        rewrite Hn, Hf.
        destruct (set_solution_nonadd (vname v) (vdom v)
                    (slice ys a (a + ndofv g v)) (wlocs w) sto) as [sto1 [E1 [G1 F1]]].
        rewrite E1.
        destruct (IH (a + ndofv g v) sto1 Hnd') as [sto' [E2 [S2 F2]]].
        exists sto'. split; [|split].
        * rewrite E2. f_equal. f_equal. unfold sum. cbn. lia.
        * split; auto. intros l Hl. rewrite F2; auto.
          intros v' l' Hv' Hl' Ek. inversion Ek. apply Hnin.
          apply in_map_iff. exists v'. unfold vkey. split; [congruence|auto].
        * intros k Hk. rewrite F2 by (intros; apply Hk; auto; right; auto).
          apply F1. intros l Hl. apply Hk; auto. left. auto.
      + destruct (IH a sto Hnd) as [sto' [E2 [S2 F2]]]. exists sto'. auto.
  Qed.

  Lemma add_loop s : forall items vs, Forall2 (item_rel g s) items vs -> forall a sto,
    NoDup (map vkey (selv pids vs)) ->
    a + total g pids vs <= length xs -> a + total g pids vs <= length ys ->
    stored sto vs a ->
    exists sto',
      set_loop s items pids xs w true a a sto = (sto', a + total g pids vs, None) /\
      (forall l, In l (wlocs w) ->
         get_loop (with_store s sto') items pids l =
         inl (vadd (slice ys a (a + total g pids vs)) (slice xs a (a + total g pids vs)))) /\
      (forall k, (forall v l, In v (selv pids vs) -> In l (wlocs w) -> k <> (l, vname v, vdom v)) ->
         slookup sto' k = slookup sto k).
  Proof.
    induction 1 as [|[id num] v items vs [Hid [Hf Hn]] HF IH]; intros a sto Hnd Hx Hy Hst.
    - exists sto. unfold total. cbn. rewrite Nat.add_0_r. split; auto. split; auto.
      intros l _. unfold slice. rewrite Nat.sub_diag. reflexivity.
    - cbn [fst snd] in *. subst id. cbn [set_loop get_loop stored] in *.
      unfold total, selv in *. cbn [filter] in *.
      destruct (memb (vid v) pids) eqn:Em.
      + cbn [map] in *. inversion Hnd as [|? ? Hnin Hnd']; subst.
        destruct Hst as [Hst1 Hst2].
        set (n := ndofv g v) in *.
        set (T := sum (map (ndofv g) (filter (fun v0 => memb (vid v0) pids) vs))) in *.
        assert (HT : sum (n :: map (ndofv g) (filter (fun v0 => memb (vid v0) pids) vs)) = n + T)
          by reflexivity.
        rewrite HT in *.
        rewrite Hn, Hf.
        destruct (set_solution_add (vname v) (vdom v) (slice xs a (a + n)) (wlocs w) sto
                    (wlocs_NoDup w)) as [sto1 [E1 [G1 F1]]].
        { intros l Hl. exists (slice ys a (a + n)). split; auto.
          rewrite !slice_length by lia. reflexivity. }
        rewrite E1.
        assert (Hst2' : stored sto1 vs (a + n)).
        { apply (stored_frame sto); auto. intros k [v' [l [Hv' [Hl Ek]]]]. apply F1.
          intros l' Hl' Ek'. subst k. inversion Ek'. apply Hnin.
          apply in_map_iff. exists v'. unfold vkey. split; [congruence|auto]. }
        destruct (IH (a + n) sto1 Hnd' ltac:(lia) ltac:(lia) Hst2') as [sto' [E2 [G2 F2]]].
        exists sto'. split; [|split].
        * rewrite E2. f_equal. f_equal. lia.
        * intros l Hl.
          change (find_var (with_store s sto') (vid v)) with (find_var s (vid v)).
          change (store (with_store s sto')) with sto'.
          rewrite Hf.
          destruct (G1 l Hl) as [a0 [Ha0 Hs1]]. rewrite (Hst1 l Hl) in Ha0.
          inversion Ha0; subst a0.
          assert (Hk : slookup sto' (l, vname v, vdom v) =
                       Some (vadd (slice ys a (a + n)) (slice xs a (a + n)))).
          { rewrite F2; auto. intros v' l' Hv' Hl' Ek. inversion Ek. apply Hnin.
            apply in_map_iff. exists v'. unfold vkey. split; [congruence|auto]. }
          rewrite Hk. rewrite (G2 l Hl). f_equal.
          rewrite <- vadd_app by (rewrite !slice_length by lia; reflexivity).
          rewrite !slice_app by lia.
          replace (a + n + T) with (a + (n + T)) by lia. reflexivity.
        * intros k Hk. rewrite F2 by (intros; apply Hk; auto; right; auto).
          apply F1. intros l Hl. apply Hk; auto. left. auto.
      + destruct (IH a sto Hnd Hx Hy Hst) as [sto' [E2 [G2 F2]]]. exists sto'. auto.
  Qed.
End SetAdd.

Lemma need_with_store g s sto r : Inv g s -> need (with_store s sto) r = need s r.
Proof.
  intro HI. rewrite (need_total g _ r (with_store_Inv g s sto HI)), (need_total g s r HI).
  reflexivity.
Qed.

(* overwrite with ys, then add xs: reading returns ys + xs *)
Lemma set_add_roundtrip g s r xs ys w :
  Inv g s -> NoDup (map vkey (vars s)) -> length ys = need s r -> length xs = need s r ->
  exists s1 s2,
    set_values s r ys w false = (s1, ODone) /\
    set_values s1 r xs w true = (s2, ODone) /\
    forall l, In l (wlocs w) -> get_values s2 r l = OVals (vadd ys xs).
Proof.
  intros HI Hk Hy Hx.
  assert (Hnd : NoDup (map vkey (selv (parse s r) (order g (vars s))))).
  { unfold selv. apply NoDup_map_filter. apply order_keys_NoDup; auto. }
  destruct (set_loop_stored g (parse s r) ys w s _ _ (items_rel g s HI) 0 (store s) Hnd)
    as [sto1 [E1 [S1 _]]].
  set (s1 := with_store s sto1).
  assert (HI1 : Inv g s1) by (apply with_store_Inv; auto).
  pose proof (need_total g s r HI) as Hneed.
  exists s1. 
  assert (Es1 : set_values s r ys w false = (s1, ODone)).
  { unfold set_values. rewrite E1. cbn [Nat.add]. rewrite <- Hneed, <- Hy, Nat.eqb_refl.
    reflexivity. }
  destruct (add_loop g (parse s r) xs ys w s1 _ _ (items_rel g s1 HI1) 0 sto1 Hnd
              ltac:(cbn [Nat.add]; change (vars s1) with (vars s); lia)
              ltac:(cbn [Nat.add]; change (vars s1) with (vars s); lia) S1)
    as [sto2 [E2 [G2 _]]].
  exists (with_store s1 sto2). split; auto. split.
  - unfold set_values. change (parse s1 r) with (parse s r). change (store s1) with sto1.
    change (numbers s1) with (numbers s) in *. change (vars s1) with (vars s) in *.
    rewrite E2. cbn [Nat.add]. rewrite <- Hneed, <- Hx, Nat.eqb_refl. reflexivity.
  - intros l Hl. unfold get_values.
    change (numbers (with_store s1 sto2)) with (numbers s1).
    change (parse (with_store s1 sto2) r) with (parse s r).
    change (vars s1) with (vars s) in *.
    rewrite (G2 l Hl). cbn [Nat.add]. rewrite <- Hneed.
    replace (slice ys 0 (need s r)) with ys by (rewrite <- Hy, slice_all; reflexivity).
    replace (slice xs 0 (need s r)) with xs by (rewrite <- Hx, slice_all; reflexivity).
    reflexivity.
Qed.

Lemma thm_set_add g ops r xs ys w :
  Forall (wf2_op g) ops ->
  let s := final g ops in
  length ys = need s r -> length xs = need s r ->
  exists s1 s2,
    step g s (OpSet r ys w false) = (s1, ODone) /\
    step g s1 (OpSet r xs w true) = (s2, ODone) /\
    forall l, In l (wlocs w) -> snd (step g s2 (OpGet r l)) = OVals (vadd ys xs).
Proof.
  intros Hw s Hy Hx. destruct (final_Inv2 g ops Hw) as [HI Hk].
  destruct (set_add_roundtrip g s r xs ys w HI Hk Hy Hx) as [s1 [s2 [H1 [H2 H3]]]].
  exists s1, s2. cbn [step snd]. auto.
Qed.
