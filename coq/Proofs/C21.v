(* C21 — proofs about the connectivity-query model (PP.Model.C21). *)
From Coq Require Import List ZArith Bool Arith Lia Permutation Sorted.
Import ListNotations.
From PP Require Import Model.C21.
Open Scope Z_scope.

(* ------------------------------------------------------------------------------------ *)
(* Well-formed incidence (Prop form) *)
Definition key (e : ent) : Z * Z := (e_r e, e_c e).

Definition wf (nf nc : nat) (cf : list ent) : Prop :=
  (forall e, In e cf -> 0 <= e_r e < Z.of_nat nf /\ 0 <= e_c e < Z.of_nat nc) /\
  (forall f, 0 <= f < Z.of_nat nf ->
     vals cf f = [1] \/ vals cf f = [-1] \/ vals cf f = [1; -1] \/ vals cf f = [-1; 1]) /\
  NoDup (map key cf).

Lemma eqb_lz_true a b : eqb_lz a b = true -> a = b.
Proof.
  unfold eqb_lz. revert b. induction a as [|x a IH]; intros [|y b] H; cbn in *; try discriminate; auto.
  apply andb_true_iff in H. destruct H as [Hl H]. apply andb_true_iff in H. destruct H as [Hx H].
  apply Z.eqb_eq in Hx. f_equal; auto. apply IH. rewrite Hl. exact H.
Qed.

Lemma nodup_keys_true l : nodup_keys l = true -> NoDup l.
Proof.
  induction l as [|x l IH]; cbn; intro H; [constructor|].
  apply andb_true_iff in H. destruct H as [H1 H2]. constructor; auto.
  intro Hin. apply negb_true_iff in H1.
  assert (existsb (fun y => (fst x =? fst y) && (snd x =? snd y)) l = true) as E.
  { apply existsb_exists. exists x. split; auto. rewrite !Z.eqb_refl. reflexivity. }
  congruence.
Qed.

Lemma wf_b_sound nf nc cf : wf_b nf nc cf = true -> wf nf nc cf.
Proof.
  unfold wf_b. intro H. apply andb_true_iff in H. destruct H as [H H3].
  apply andb_true_iff in H. destruct H as [H1 H2].
  split; [|split].
  - intros e He. rewrite forallb_forall in H1. specialize (H1 e He).
    repeat (apply andb_true_iff in H1; destruct H1 as [H1 ?]). lia.
  - intros f Hf. rewrite forallb_forall in H2.
    specialize (H2 (Z.to_nat f)). rewrite Z2Nat.id in H2 by lia.
    assert (In (Z.to_nat f) (seq 0 nf)) as Hin by (apply in_seq; lia).
    specialize (H2 Hin). cbn zeta in H2.
    repeat (apply orb_true_iff in H2; destruct H2 as [H2|H2]);
      apply eqb_lz_true in H2; auto.
  - apply nodup_keys_true in H3. exact H3.
Qed.

(* facts extracted from wf *)
Lemma in_vals cf f e : In e cf -> e_r e = f -> In (e_v e) (vals cf f).
Proof.
  intros He Hr. unfold vals. apply in_map. apply filter_In. split; auto. apply Z.eqb_eq; auto.
Qed.

Lemma wf_range nf nc cf e : wf nf nc cf -> In e cf ->
  0 <= e_r e < Z.of_nat nf /\ 0 <= e_c e < Z.of_nat nc.
Proof. intros [H _] He. auto. Qed.

Lemma wf_sign nf nc cf e : wf nf nc cf -> In e cf -> e_v e = 1 \/ e_v e = -1.
Proof.
  intros Hwf He. pose proof (wf_range _ _ _ _ Hwf He) as [Hr _].
  destruct Hwf as (_ & Hv & _). specialize (Hv (e_r e) Hr).
  pose proof (in_vals cf (e_r e) e He eq_refl) as Hin.
  destruct Hv as [Hv|[Hv|[Hv|Hv]]]; rewrite Hv in Hin; cbn in Hin; lia.
Qed.

(* two stored entries of one face with the same sign coincide *)
Lemma wf_unique_sign nf nc cf e e' : wf nf nc cf -> In e cf -> In e' cf ->
  e_r e = e_r e' -> e_v e = e_v e' -> e = e'.
Proof.
  intros Hwf He He' Hr Hv.
  pose proof (wf_range _ _ _ _ Hwf He) as [Hrg _].
  destruct Hwf as (_ & Hvals & _). specialize (Hvals (e_r e) Hrg). unfold vals in Hvals.
  assert (In e (filter (fun x => e_r x =? e_r e) cf)) as H1
      by (apply filter_In; split; auto; apply Z.eqb_refl).
  assert (In e' (filter (fun x => e_r x =? e_r e) cf)) as H2
      by (apply filter_In; split; auto; apply Z.eqb_eq; auto).
  destruct (filter (fun x => e_r x =? e_r e) cf) as [|a [|b [|c l]]] eqn:EF; cbn in Hvals.
  - destruct H1.
  - destruct H1 as [<-|[]]. destruct H2 as [<-|[]]. reflexivity.
  - destruct Hvals as [Hx|[Hx|[Hx|Hx]]]; try discriminate; injection Hx as Ha Hb;
      destruct H1 as [<-|[<-|[]]]; destruct H2 as [<-|[<-|[]]]; auto; lia.
  - destruct Hvals as [Hx|[Hx|[Hx|Hx]]]; discriminate.
Qed.

Lemma cnt_vals cf f : cnt cf f = length (vals cf f).
Proof. unfold cnt, vals. rewrite map_length. reflexivity. Qed.

Lemma wf_cnt nf nc cf f : wf nf nc cf -> 0 <= f < Z.of_nat nf -> cnt cf f = 1%nat \/ cnt cf f = 2%nat.
Proof.
  intros (_ & Hv & _) Hf. rewrite cnt_vals. destruct (Hv f Hf) as [H|[H|[H|H]]]; rewrite H; auto.
Qed.

(* ------------------------------------------------------------------------------------ *)
(* cell_faces_as_dense *)
Lemma upd_length l : forall i x, length (upd l i x) = length l.
Proof. induction l; intros [|i] x; cbn; auto. Qed.

Lemma nth_upd_same l : forall i x d, (i < length l)%nat -> nth i (upd l i x) d = x.
Proof. induction l; intros [|i] x d H; cbn in *; try lia; auto. apply IHl. lia. Qed.

Lemma nth_upd_other l : forall i j x d, i <> j -> nth j (upd l i x) d = nth j l d.
Proof.
  induction l; intros [|i] [|j] x d H; cbn; auto; try congruence.
Qed.

Lemma fill_length sel cf : forall init, length (fill sel cf init) = length init.
Proof.
  unfold fill. induction cf as [|e cf IH]; intro init; cbn; auto.
  rewrite IH. destruct (sel (e_v e)); auto. apply upd_length.
Qed.

Lemma fill_spec sel cf : forall init f, (f < length init)%nat ->
  (forall e, In e cf -> 0 <= e_r e) ->
  (nth f (fill sel cf init) (-1) = nth f init (-1) /\
   forall e, In e cf -> sel (e_v e) = true -> e_r e <> Z.of_nat f)
  \/ (exists e, In e cf /\ sel (e_v e) = true /\ e_r e = Z.of_nat f /\
                nth f (fill sel cf init) (-1) = e_c e).
Proof.
  unfold fill. induction cf as [|e cf IH]; intros init f Hf Hpos; cbn [fold_left].
  - left. split; [reflexivity|intros e []].
  - set (init' := if sel (e_v e) then upd init (Z.to_nat (e_r e)) (e_c e) else init).
    assert (length init' = length init) as Hlen
        by (unfold init'; destruct (sel (e_v e)); auto using upd_length).
    destruct (IH init' f) as [[Hn Hno]|[e' (Hin & Hs & Hr & Hn)]].
    + lia.
    + intros; apply Hpos; right; auto.
    + destruct (sel (e_v e)) eqn:Es.
      * destruct (Nat.eq_dec (Z.to_nat (e_r e)) f) as [E|E].
        -- right. exists e. split; [left; auto|]. split; auto.
           assert (0 <= e_r e) by (apply Hpos; left; auto).
           split; [lia|]. rewrite Hn. unfold init'. rewrite E. apply nth_upd_same. exact Hf.
        -- left. split.
           ++ rewrite Hn. unfold init'. apply nth_upd_other. exact E.
           ++ intros x [<-|Hx] Hsx; auto. intro Hc. apply E. rewrite Hc. apply Nat2Z.id.
      * left. split; [rewrite Hn; reflexivity|].
        intros x [<-|Hx] Hsx; auto. congruence.
    + right. exists e'. split; [right; auto|]. auto.
Qed.

Lemma nth_repeat_m1 n f : nth f (repeat (-1) n) (-1) = -1.
Proof. revert f. induction n; intros [|f]; cbn; auto. Qed.

Lemma dense_row nf nc cf sel s f :
  wf nf nc cf -> (f < nf)%nat -> (s = 1 \/ s = -1) ->
  (forall v, v = 1 \/ v = -1 -> (sel v = true <-> v = s)) ->
  let r := fill sel cf (repeat (-1) nf) in
  (forall c, In (Z.of_nat f, c, s) cf -> nth f r (-1) = c) /\
  ((forall c, ~ In (Z.of_nat f, c, s) cf) -> nth f r (-1) = -1).
Proof.
  intros Hwf Hf Hs Hsel r.
  assert (forall e, In e cf -> 0 <= e_r e) as Hpos
      by (intros e He; pose proof (wf_range _ _ _ _ Hwf He); lia).
  destruct (fill_spec sel cf (repeat (-1) nf) f) as [[Hn Hno]|[e (Hin & Hse & Hr & Hn)]];
    auto; [rewrite repeat_length; exact Hf| |].
  - split.
    + intros c Hc. exfalso. apply (Hno _ Hc); [|reflexivity].
      apply Hsel; auto.
    + intros _. fold r in Hn. rewrite Hn. apply nth_repeat_m1.
  - assert (e_v e = s) as Hv by (apply Hsel; auto; eapply wf_sign; eauto).
    split.
    + intros c Hc. fold r in Hn. rewrite Hn.
      assert (e = (Z.of_nat f, c, s)) as ->; [|reflexivity].
      eapply wf_unique_sign; eauto.
    + intros Hnone. exfalso. apply (Hnone (e_c e)).
      destruct e as [[a b] v]. unfold e_r, e_c, e_v in *. cbn in *. subst. exact Hin.
Qed.

Lemma dense_spec nf nc cf : wf nf nc cf ->
  length (fst (dense nf cf)) = nf /\ length (snd (dense nf cf)) = nf /\
  forall f, (f < nf)%nat ->
    (forall c, In (Z.of_nat f, c, 1) cf -> nth f (fst (dense nf cf)) (-1) = c) /\
    ((forall c, ~ In (Z.of_nat f, c, 1) cf) -> nth f (fst (dense nf cf)) (-1) = -1) /\
    (forall c, In (Z.of_nat f, c, -1) cf -> nth f (snd (dense nf cf)) (-1) = c) /\
    ((forall c, ~ In (Z.of_nat f, c, -1) cf) -> nth f (snd (dense nf cf)) (-1) = -1).
Proof.
  intro Hwf. unfold dense. destruct (Nat.eqb_spec nf 0) as [->|Hn].
  - cbn. repeat split; auto; intros; lia.
  - cbn [fst snd]. rewrite !fill_length, !repeat_length. split; [reflexivity|]. split; [reflexivity|].
    intros f Hf.
    destruct (dense_row nf nc cf (fun v => 0 <? v) 1 f Hwf Hf) as [A B]; auto.
    { intros v [->| ->]; cbn; split; intro; auto; lia || discriminate. }
    destruct (dense_row nf nc cf (fun v => v <? 0) (-1) f Hwf Hf) as [C D]; auto.
    intros v [->| ->]; cbn; split; intro; auto; lia || discriminate.
Qed.

(* ------------------------------------------------------------------------------------ *)
(* update_boundary_face_tag *)
Lemma NoDup_map_filter {A B} (g : A -> B) (p : A -> bool) l :
  NoDup (map g l) -> NoDup (map g (filter p l)).
Proof.
  induction l as [|x l IH]; cbn; intro H; [constructor|].
  inversion H as [|? ? Hx Hl]; subst. destruct (p x); cbn; auto.
  constructor; auto. intro Hin. apply Hx.
  apply in_map_iff in Hin. destruct Hin as (y & Hy & Hin). apply filter_In in Hin.
  apply in_map_iff. exists y. tauto.
Qed.

Definition one_adjacent (cf : list ent) (f : Z) : Prop :=
  exists c, (exists v, In (f, c, v) cf) /\ forall c' v', In (f, c', v') cf -> c' = c.

Lemma cnt_one_iff nf nc cf f : wf nf nc cf -> 0 <= f < Z.of_nat nf ->
  (cnt cf f = 1%nat <-> one_adjacent cf f).
Proof.
  intros Hwf Hf. unfold cnt, one_adjacent. split.
  - intro H1. destruct (filter (fun e => e_r e =? f) cf) as [|a [|b l]] eqn:EF; try discriminate.
    assert (forall e, In e cf -> e_r e = f -> e = a) as Hall.
    { intros e He Hr. assert (In e (filter (fun e => e_r e =? f) cf)) as Hi
          by (apply filter_In; split; auto; apply Z.eqb_eq; auto).
      rewrite EF in Hi. destruct Hi as [<-|[]]. reflexivity. }
    assert (In a (filter (fun e => e_r e =? f) cf)) as Ha by (rewrite EF; left; auto).
    apply filter_In in Ha. destruct Ha as [Ha Hra]. apply Z.eqb_eq in Hra.
    exists (e_c a). split.
    + exists (e_v a). destruct a as [[x y] z]. unfold e_r, e_c, e_v in *. cbn in *. subst. exact Ha.
    + intros c' v' Hc. rewrite <- (Hall _ Hc eq_refl). reflexivity.
  - intros (c & (v & Hin) & Huniq).
    destruct (wf_cnt _ _ _ f Hwf Hf) as [H|H]; [exact H|]. exfalso. unfold cnt in H.
    destruct (filter (fun e => e_r e =? f) cf) as [|a [|b [|x l]]] eqn:EF; try discriminate.
    assert (In a cf /\ e_r a = f) as [Ha Hra].
    { assert (In a (filter (fun e => e_r e =? f) cf)) as Hi by (rewrite EF; left; auto).
      apply filter_In in Hi. destruct Hi as [? Hi]. apply Z.eqb_eq in Hi. auto. }
    assert (In b cf /\ e_r b = f) as [Hb Hrb].
    { assert (In b (filter (fun e => e_r e =? f) cf)) as Hi by (rewrite EF; right; left; auto).
      apply filter_In in Hi. destruct Hi as [? Hi]. apply Z.eqb_eq in Hi. auto. }
    destruct Hwf as (_ & _ & Hnd).
    apply (NoDup_map_filter key (fun e => e_r e =? f)) in Hnd. rewrite EF in Hnd. cbn in Hnd.
    apply NoDup_cons_iff in Hnd. destruct Hnd as [Hx _]. apply Hx. left.
    destruct a as [[fa ca] va], b as [[fb cb] vb]. unfold key, e_r, e_c in *. cbn in *. subst fa fb.
    rewrite (Huniq _ _ Ha), (Huniq _ _ Hb). reflexivity.
Qed.

Lemma nth_map_seq {A} (g : nat -> A) n f d : (f < n)%nat -> nth f (map g (seq 0 n)) d = g f.
Proof.
  intro H. rewrite (nth_indep _ d (g 0%nat)) by (rewrite map_length, seq_length; exact H).
  rewrite map_nth. rewrite seq_nth by exact H. reflexivity.
Qed.

Lemma bnd_tag_spec dim nf nc cf : wf nf nc cf -> 0 < dim ->
  length (bnd_tag dim nf cf) = nf /\
  forall f, (f < nf)%nat ->
    (nth f (bnd_tag dim nf cf) false = true <-> one_adjacent cf (Z.of_nat f)).
Proof.
  intros Hwf Hd. unfold bnd_tag. destruct (Z.ltb_spec 0 dim) as [_|]; [|lia].
  split; [rewrite map_length, seq_length; reflexivity|].
  intros f Hf. rewrite nth_map_seq by exact Hf.
  rewrite Nat.eqb_eq. apply (cnt_one_iff nf nc); auto. lia.
Qed.

Lemma bnd_tag_0d dim nf cf : dim <= 0 -> bnd_tag dim nf cf = repeat false nf.
Proof. intro H. unfold bnd_tag. destruct (Z.ltb_spec 0 dim); [lia|reflexivity]. Qed.

(* ------------------------------------------------------------------------------------ *)
(* sums of non-negative terms *)
Lemma sumZ_cons a l : sumZ (a :: l) = a + sumZ l.
Proof. reflexivity. Qed.
Lemma sumZ_nil : sumZ [] = 0.
Proof. reflexivity. Qed.

Lemma sumZ_nonneg l : (forall x, In x l -> 0 <= x) -> 0 <= sumZ l.
Proof.
  induction l as [|a l IH]; rewrite ?sumZ_cons, ?sumZ_nil; intro H; [lia|].
  assert (0 <= a) by (apply H; left; auto). assert (0 <= sumZ l) by (apply IH; intros; apply H; right; auto).
  lia.
Qed.

Lemma sumZ_pos l : (forall x, In x l -> 0 <= x) -> (0 < sumZ l <-> exists x, In x l /\ 0 < x).
Proof.
  induction l as [|a l IH]; rewrite ?sumZ_cons, ?sumZ_nil; intro H.
  - split; [lia|intros (x & [] & _)].
  - assert (0 <= a) as Ha by (apply H; left; auto).
    assert (forall x, In x l -> 0 <= x) as Hl by (intros; apply H; right; auto).
    pose proof (sumZ_nonneg l Hl). specialize (IH Hl). split.
    + intro Hs. destruct (Z.eq_dec a 0) as [E|E].
      * assert (0 < sumZ l) as Hp by lia. apply IH in Hp. destruct Hp as (x & Hx & Hp). exists x.
        split; [right; exact Hx|exact Hp].
      * exists a. split; [left; reflexivity|lia].
    + intros (x & [<-|Hx] & Hp); [lia|]. assert (0 < sumZ l) by (apply IH; exists x; auto). lia.
Qed.

(* ------------------------------------------------------------------------------------ *)
(* cell_connection_map *)
Lemma conn_terms_in cf i j x :
  In x (conn_terms cf i j) <->
  exists e1 e2, In e1 cf /\ In e2 cf /\ e_c e1 = i /\ e_c e2 = j /\ e_r e2 = e_r e1 /\
                x = Z.abs (e_v e1) * Z.abs (e_v e2).
Proof.
  unfold conn_terms. rewrite in_flat_map. split.
  - intros (e1 & H1 & Hx). destruct (Z.eqb_spec (e_c e1) i) as [Ei|]; [|destruct Hx].
    apply in_map_iff in Hx. destruct Hx as (e2 & <- & H2). apply filter_In in H2.
    destruct H2 as [H2 Hb]. apply andb_true_iff in Hb. destruct Hb as [Hc Hr].
    apply Z.eqb_eq in Hc, Hr. exists e1, e2. auto 10.
  - intros (e1 & e2 & H1 & H2 & Hi & Hj & Hr & ->). exists e1. split; auto.
    destruct (Z.eqb_spec (e_c e1) i); [|contradiction].
    apply in_map_iff. exists e2. split; auto. apply filter_In. split; auto.
    apply andb_true_iff. split; apply Z.eqb_eq; auto.
Qed.

Lemma conn_true_pos cf i j : conn_true cf i j = true <-> 0 < conn_val cf i j.
Proof.
  unfold conn_true, clip01. rewrite negb_true_iff, Z.eqb_neq. lia.
Qed.

Lemma conn_spec_any cf i j :
  conn_true cf i j = true <->
  exists f v w, In (f, i, v) cf /\ In (f, j, w) cf /\ v <> 0 /\ w <> 0.
Proof.
  rewrite conn_true_pos. unfold conn_val. rewrite sumZ_pos.
  - split.
    + intros (x & Hx & Hp). apply conn_terms_in in Hx.
      destruct Hx as (e1 & e2 & H1 & H2 & Hi & Hj & Hr & ->).
      exists (e_r e1), (e_v e1), (e_v e2).
      destruct e1 as [[f1 c1] v1], e2 as [[f2 c2] v2]. unfold e_r, e_c, e_v in *. cbn in *. subst.
      repeat split; auto; nia.
    + intros (f & v & w & H1 & H2 & Hv & Hw). exists (Z.abs v * Z.abs w). split; [|nia].
      apply conn_terms_in. exists (f, i, v), (f, j, w). auto 10.
  - intros x Hx. apply conn_terms_in in Hx. destruct Hx as (e1 & e2 & _ & _ & _ & _ & _ & ->). nia.
Qed.

Lemma conn_sym cf i j : conn_true cf i j = conn_true cf j i.
Proof.
  apply eq_true_iff_eq. rewrite !conn_spec_any.
  split; intros (f & v & w & H1 & H2 & Hv & Hw); exists f, w, v; auto.
Qed.

Lemma conn_spec nf nc cf i j : wf nf nc cf ->
  (conn_true cf i j = true <-> exists f v w, In (f, i, v) cf /\ In (f, j, w) cf).
Proof.
  intro Hwf. rewrite conn_spec_any. split.
  - intros (f & v & w & H1 & H2 & _). eauto.
  - intros (f & v & w & H1 & H2). exists f, v, w.
    pose proof (wf_sign _ _ _ _ Hwf H1) as S1. pose proof (wf_sign _ _ _ _ Hwf H2) as S2.
    unfold e_v in *. cbn in *. repeat split; auto; lia.
Qed.

Lemma conn_diag nf nc cf i : wf nf nc cf ->
  (conn_true cf i i = true <-> exists f v, In (f, i, v) cf).
Proof.
  intro Hwf. rewrite (conn_spec nf nc) by exact Hwf. split.
  - intros (f & v & _ & H & _). eauto.
  - intros (f & v & H). eauto.
Qed.

(* ------------------------------------------------------------------------------------ *)
(* cell_nodes *)
Lemma cn_terms_in fn cf n c x :
  In x (cn_terms fn cf n c) <->
  exists a e, In a fn /\ In e cf /\ e_r a = n /\ e_r e = e_c a /\ e_c e = c /\
              x = e_v a * Z.abs (e_v e).
Proof.
  unfold cn_terms. rewrite in_flat_map. split.
  - intros (a & Ha & Hx). destruct (Z.eqb_spec (e_r a) n) as [En|]; [|destruct Hx].
    apply in_map_iff in Hx. destruct Hx as (e & <- & He). apply filter_In in He.
    destruct He as [He Hb]. apply andb_true_iff in Hb. destruct Hb as [Hr Hc].
    apply Z.eqb_eq in Hc, Hr. exists a, e. auto 10.
  - intros (a & e & Ha & He & Hn & Hr & Hc & ->). exists a. split; auto.
    destruct (Z.eqb_spec (e_r a) n); [|contradiction].
    apply in_map_iff. exists e. split; auto. apply filter_In. split; auto.
    apply andb_true_iff. split; apply Z.eqb_eq; auto.
Qed.

Lemma cn_spec_any fn cf n c : (forall a, In a fn -> 0 <= e_v a) ->
  (cn_true fn cf n c = true <->
   exists f w v, In (n, f, w) fn /\ In (f, c, v) cf /\ w <> 0 /\ v <> 0).
Proof.
  intro Hfn. unfold cn_true, cn_val. rewrite Z.ltb_lt, sumZ_pos.
  - split.
    + intros (x & Hx & Hp). apply cn_terms_in in Hx.
      destruct Hx as (a & e & Ha & He & Hn & Hr & Hc & ->).
      exists (e_c a), (e_v a), (e_v e).
      destruct a as [[n1 f1] w1], e as [[f2 c2] v2]. unfold e_r, e_c, e_v in *. cbn in *. subst.
      repeat split; auto; nia.
    + intros (f & w & v & H1 & H2 & Hw & Hv). exists (w * Z.abs v). split.
      * apply cn_terms_in. exists (n, f, w), (f, c, v). auto 10.
      * specialize (Hfn _ H1). unfold e_v in Hfn. cbn in Hfn. nia.
  - intros x Hx. apply cn_terms_in in Hx. destruct Hx as (a & e & Ha & _ & _ & _ & _ & ->).
    specialize (Hfn _ Ha). nia.
Qed.

Lemma cn_spec nf nc fn cf n c : wf nf nc cf -> (forall a, In a fn -> e_v a = 1) ->
  (cn_true fn cf n c = true <-> exists f v, In (n, f, 1) fn /\ In (f, c, v) cf).
Proof.
  intros Hwf Hfn. rewrite cn_spec_any by (intros a Ha; rewrite (Hfn a Ha); lia). split.
  - intros (f & w & v & H1 & H2 & _). exists f, v. split; auto.
    pose proof (Hfn _ H1) as E. unfold e_v in E. cbn in E. subst w. exact H1.
  - intros (f & v & H1 & H2). exists f, 1, v.
    pose proof (wf_sign _ _ _ _ Hwf H2) as S. unfold e_v in S. cbn in S.
    repeat split; auto; lia.
Qed.

(* ------------------------------------------------------------------------------------ *)
(* divergence *)
Lemma entry_nil r c : entry [] r c = 0.
Proof. reflexivity. Qed.

Lemma entry_cons e m r c :
  entry (e :: m) r c = (if (e_r e =? r) && (e_c e =? c) then e_v e else 0) + entry m r c.
Proof.
  unfold entry. cbn [filter]. destruct ((e_r e =? r) && (e_c e =? c)); cbn [map]; rewrite ?sumZ_cons; lia.
Qed.

Lemma entry_cons3 a b v m r c :
  entry ((a, b, v) :: m) r c = (if (a =? r) && (b =? c) then v else 0) + entry m r c.
Proof. rewrite entry_cons. reflexivity. Qed.

Lemma entry_app m1 m2 r c : entry (m1 ++ m2) r c = entry m1 r c + entry m2 r c.
Proof.
  induction m1 as [|e m1 IH]; [rewrite entry_nil; reflexivity|].
  rewrite <- app_comm_cons, !entry_cons, IH. lia.
Qed.

Lemma div_err cf dim : dim < 1 -> divergence cf dim = Err ValueErr.
Proof.
  intro H. unfold divergence. destruct (Z.eqb_spec dim 1); [lia|].
  destruct (Z.ltb_spec 1 dim); [lia|reflexivity].
Qed.

Lemma div_scalar cf : exists m, divergence cf 1 = Ok m /\
  forall c f, entry m c f = entry cf f c.
Proof.
  eexists. split; [reflexivity|]. intros c f.
  induction cf as [|e cf IH]; [reflexivity|].
  cbn [map]. rewrite entry_cons3, entry_cons, IH.
  rewrite (andb_comm (e_r e =? f)). reflexivity.
Qed.

Lemma divmod_uniq d a b k l : 0 <= k < d -> 0 <= l < d -> a * d + k = b * d + l -> a = b /\ k = l.
Proof.
  intros Hk Hl H. assert (a = b) as -> by nia. split; [reflexivity|lia].
Qed.

(* one stored entry of the incidence expanded over the components s, s+1, ..., s+n-1 *)
Lemma entry_expand dim e c f k l : 0 <= k < dim -> 0 <= l < dim ->
  forall n s, (s + n <= Z.to_nat dim)%nat ->
  entry (map (fun q => (e_c e * dim + q, e_r e * dim + q, e_v e * 1)) (map Z.of_nat (seq s n)))
        (c * dim + k) (f * dim + l)
  = if (e_r e =? f) && (e_c e =? c) && (k =? l) && (Z.of_nat s <=? k) && (k <? Z.of_nat (s + n))
    then e_v e else 0.
Proof.
  intros Hk Hl. induction n as [|n IH]; intros s Hs.
  - cbn [seq map]. rewrite entry_nil.
    destruct (Z.leb_spec (Z.of_nat s) k), (Z.ltb_spec k (Z.of_nat (s + 0))); rewrite ?andb_false_r; auto; lia.
  - cbn [seq map]. rewrite entry_cons3, IH by lia.
    destruct (Z.eqb_spec (e_c e * dim + Z.of_nat s) (c * dim + k)) as [E1|E1];
    destruct (Z.eqb_spec (e_r e * dim + Z.of_nat s) (f * dim + l)) as [E2|E2]; cbn [andb].
    + apply divmod_uniq in E1; [|lia|lia]. apply divmod_uniq in E2; [|lia|lia].
      destruct E1 as [-> E1], E2 as [-> E2]. rewrite !Z.eqb_refl.
      destruct (Z.eqb_spec k l); [|lia]. cbn [andb].
      destruct (Z.leb_spec (Z.of_nat (S s)) k); [lia|].
      destruct (Z.leb_spec (Z.of_nat s) k); [|lia].
      destruct (Z.ltb_spec k (Z.of_nat (s + S n))); [|lia]. cbn [andb]. lia.
    + destruct (Z.eqb_spec (e_r e) f), (Z.eqb_spec (e_c e) c), (Z.eqb_spec k l); cbn [andb]; auto;
      destruct (Z.leb_spec (Z.of_nat (S s)) k), (Z.leb_spec (Z.of_nat s) k),
               (Z.ltb_spec k (Z.of_nat (S s + n))), (Z.ltb_spec k (Z.of_nat (s + S n)));
        cbn [andb]; try lia; subst; exfalso; apply E2; lia.
    + destruct (Z.eqb_spec (e_r e) f), (Z.eqb_spec (e_c e) c), (Z.eqb_spec k l); cbn [andb]; auto;
      destruct (Z.leb_spec (Z.of_nat (S s)) k), (Z.leb_spec (Z.of_nat s) k),
               (Z.ltb_spec k (Z.of_nat (S s + n))), (Z.ltb_spec k (Z.of_nat (s + S n)));
        cbn [andb]; try lia; subst; exfalso; apply E1; lia.
    + destruct (Z.eqb_spec (e_r e) f), (Z.eqb_spec (e_c e) c), (Z.eqb_spec k l); cbn [andb]; auto;
      destruct (Z.leb_spec (Z.of_nat (S s)) k), (Z.leb_spec (Z.of_nat s) k),
               (Z.ltb_spec k (Z.of_nat (S s + n))), (Z.ltb_spec k (Z.of_nat (s + S n)));
        cbn [andb]; try lia; subst; exfalso; apply E1; lia.
Qed.

Lemma div_vector cf dim : 1 < dim -> exists m, divergence cf dim = Ok m /\
  forall c f k l, 0 <= k < dim -> 0 <= l < dim ->
    entry m (c * dim + k) (f * dim + l) = if k =? l then entry cf f c else 0.
Proof.
  intro Hd. unfold divergence. destruct (Z.eqb_spec dim 1); [lia|].
  destruct (Z.ltb_spec 1 dim); [|lia]. eexists. split; [reflexivity|].
  intros c f k l Hk Hl. induction cf as [|e cf IH].
  - cbn [flat_map]. rewrite !entry_nil. destruct (k =? l); reflexivity.
  - cbn [flat_map]. rewrite entry_app, IH, entry_cons. unfold range.
    rewrite (entry_expand dim e c f k l Hk Hl (Z.to_nat dim) 0) by lia.
    destruct (Z.leb_spec (Z.of_nat 0) k); [|lia].
    destruct (Z.ltb_spec k (Z.of_nat (0 + Z.to_nat dim))); [|lia].
    rewrite !andb_true_r. destruct (k =? l); rewrite ?andb_true_r, ?andb_false_r; reflexivity.
Qed.

(* ------------------------------------------------------------------------------------ *)
(* argsort *)
Definition kle (a b : Z * nat) : Prop := fst a <= fst b.

Lemma ins_perm x l : Permutation (x :: l) (ins x l).
Proof.
  induction l as [|y r IH]; cbn; [apply Permutation_refl|].
  destruct (fst x <=? fst y); [apply Permutation_refl|].
  eapply Permutation_trans; [apply perm_swap|]. apply perm_skip. exact IH.
Qed.

Lemma sortk_perm l : Permutation l (sortk l).
Proof.
  induction l as [|x l IH]; cbn; [constructor|].
  eapply Permutation_trans; [|apply ins_perm]. apply perm_skip. exact IH.
Qed.

Lemma ins_sorted x l : StronglySorted kle l -> StronglySorted kle (ins x l).
Proof.
  induction l as [|y r IH]; cbn; intro H.
  - constructor; constructor.
  - inversion H as [|? ? Hr Hy]; subst.
    destruct (Z.leb_spec (fst x) (fst y)) as [L|L].
    + constructor; [exact H|]. constructor; [exact L|].
      eapply Forall_impl; [|exact Hy]. unfold kle. intros; lia.
    + constructor; [apply IH; exact Hr|].
      apply (Permutation_Forall (ins_perm x r)). constructor; [unfold kle; lia|exact Hy].
Qed.

Lemma sortk_sorted l : StronglySorted kle (sortk l).
Proof. induction l; cbn; [constructor|apply ins_sorted; assumption]. Qed.

Lemma sorted_map_fst l : StronglySorted kle l -> StronglySorted Z.le (map fst l).
Proof.
  induction 1 as [|a l Hs IH Ha]; cbn; constructor; auto.
  apply Forall_forall. intros z Hz. apply in_map_iff in Hz. destruct Hz as (b & <- & Hb).
  rewrite Forall_forall in Ha. apply Ha. exact Hb.
Qed.

Lemma sorted_perm_eq l1 : forall l2, StronglySorted Z.le l1 -> StronglySorted Z.le l2 ->
  Permutation l1 l2 -> l1 = l2.
Proof.
  induction l1 as [|a l1 IH]; intros l2 H1 H2 HP.
  - apply Permutation_nil in HP. auto.
  - destruct l2 as [|b l2]; [apply Permutation_sym, Permutation_nil in HP; discriminate|].
    inversion H1 as [|? ? S1 F1]; subst. inversion H2 as [|? ? S2 F2]; subst.
    assert (a = b) as ->.
    { assert (In a (b :: l2)) as Ia by (eapply Permutation_in; [exact HP|left; auto]).
      assert (In b (a :: l1)) as Ib by (eapply Permutation_in; [apply Permutation_sym; exact HP|left; auto]).
      rewrite Forall_forall in F1, F2.
      destruct Ia as [->|Ia]; auto. destruct Ib as [->|Ib]; auto.
      specialize (F1 _ Ib). specialize (F2 _ Ia). lia. }
    f_equal. apply IH; auto. eapply Permutation_cons_inv. exact HP.
Qed.

Lemma seqZ_sorted n : forall s, StronglySorted Z.le (map Z.of_nat (seq s n)).
Proof.
  induction n as [|n IH]; intro s; cbn; constructor; auto.
  apply Forall_forall. intros z Hz. apply in_map_iff in Hz. destruct Hz as (k & <- & Hk).
  apply in_seq in Hk. lia.
Qed.

Lemma map_fst_combine {A B} (a : list A) : forall (b : list B), length a = length b ->
  map fst (combine a b) = a.
Proof. induction a; intros [|y b] H; cbn in *; try discriminate; auto. f_equal. apply IHa. lia. Qed.

Lemma map_snd_combine {A B} (a : list A) : forall (b : list B), length a = length b ->
  map snd (combine a b) = b.
Proof. induction a; intros [|y b] H; cbn in *; try discriminate; auto. f_equal. apply IHa. lia. Qed.

Lemma in_combine_seq (l : list Z) : forall s k i,
  In (k, i) (combine l (seq s (length l))) <->
  (s <= i < s + length l)%nat /\ nth (i - s) l 0 = k.
Proof.
  induction l as [|x l IH]; intros s k i; cbn [length seq combine].
  - cbn. split; [tauto|lia].
  - cbn [In]. rewrite IH. split.
    + intros [E|[Hr Hn]].
      * injection E as <- <-. split; [lia|]. rewrite Nat.sub_diag. reflexivity.
      * split; [lia|]. replace (i - s)%nat with (S (i - S s)) by lia. exact Hn.
    + intros [Hr Hn]. destruct (Nat.eq_dec i s) as [->|Ne].
      * left. rewrite Nat.sub_diag in Hn. cbn in Hn. subst. reflexivity.
      * right. split; [lia|]. replace (i - s)%nat with (S (i - S s)) in Hn by lia. exact Hn.
Qed.

Lemma argsort_length l : length (argsort l) = length l.
Proof.
  unfold argsort. rewrite map_length. rewrite <- (Permutation_length (sortk_perm _)).
  rewrite combine_length, seq_length. lia.
Qed.

Lemma argsort_perm l : Permutation (argsort l) (seq 0 (length l)).
Proof.
  unfold argsort. apply Permutation_sym.
  eapply Permutation_trans; [|apply Permutation_map; apply sortk_perm].
  rewrite map_snd_combine by (rewrite seq_length; reflexivity). apply Permutation_refl.
Qed.

Lemma argsort_lt l i : In i (argsort l) -> (i < length l)%nat.
Proof.
  intro H. apply (Permutation_in _ (argsort_perm l)) in H. apply in_seq in H. lia.
Qed.

Lemma nth_map_lt {A B} (g : A -> B) l j d d' : (j < length l)%nat ->
  nth j (map g l) d = g (nth j l d').
Proof.
  intro H. rewrite (nth_indep _ d (g d')) by (rewrite map_length; exact H). apply map_nth.
Qed.

(* argsort of a permutation of 0..n-1 is its inverse *)
Lemma argsort_inv (p : list Z) : Permutation p (map Z.of_nat (seq 0 (length p))) ->
  forall j, (j < length p)%nat -> nth (nth j (argsort p) 0%nat) p 0 = Z.of_nat j.
Proof.
  intros HP j Hj. unfold argsort.
  set (n := length p) in *. set (s := sortk (combine p (seq 0 n))).
  assert (Permutation (combine p (seq 0 n)) s) as Ps by apply sortk_perm.
  assert (map fst s = map Z.of_nat (seq 0 n)) as Hkeys.
  { apply sorted_perm_eq.
    - apply sorted_map_fst. apply sortk_sorted.
    - apply seqZ_sorted.
    - eapply Permutation_trans; [|exact HP]. apply Permutation_sym.
      eapply Permutation_trans; [|apply Permutation_map; exact Ps].
      rewrite map_fst_combine by (rewrite seq_length; reflexivity). apply Permutation_refl. }
  assert (length s = n) as Ls.
  { rewrite <- (Permutation_length Ps), combine_length, seq_length. fold n. lia. }
  pose (x := nth j s (0, 0%nat)).
  assert (In x s) as Hx by (apply nth_In; lia).
  assert (fst x = Z.of_nat j) as Hfx.
  { unfold x. rewrite <- (nth_map_lt fst s j 0 (0, 0%nat)) by lia.
    rewrite Hkeys. rewrite (nth_map_lt Z.of_nat _ j 0 0%nat) by (rewrite seq_length; lia).
    rewrite seq_nth by lia. reflexivity. }
  rewrite (nth_map_lt snd s j 0%nat (0, 0%nat)) by lia. fold x.
  apply (Permutation_in _ (Permutation_sym Ps)) in Hx.
  destruct x as [k i]. cbn [fst snd] in *. unfold n in Hx. apply in_combine_seq in Hx.
  destruct Hx as [_ Hn]. rewrite Nat.sub_0_r in Hn. lia.
Qed.

(* ------------------------------------------------------------------------------------ *)
(* row slicing *)
Lemma positions_in f sf k : In k (positions f sf) <-> (k < length sf)%nat /\ nth k sf 0 = f.
Proof.
  unfold positions. rewrite in_map_iff. split.
  - intros ([z i] & E & Hin). cbn in E. subst i. apply filter_In in Hin. destruct Hin as [Hin Hz].
    cbn in Hz. apply Z.eqb_eq in Hz. apply in_combine_seq in Hin. rewrite Nat.sub_0_r in Hin.
    destruct Hin as [? ?]. split; [lia|congruence].
  - intros [Hk Hn]. exists (f, k). split; auto. apply filter_In. split.
    + apply in_combine_seq. rewrite Nat.sub_0_r. split; [lia|exact Hn].
    + cbn. apply Z.eqb_refl.
Qed.

Lemma slice_in cf sf x : In x (slice_rows cf sf) <->
  exists k, (k < length sf)%nat /\ e_r x = Z.of_nat k /\ In (nth k sf 0, e_c x, e_v x) cf.
Proof.
  unfold slice_rows. rewrite in_flat_map. split.
  - intros (e & He & Hx). apply in_map_iff in Hx. destruct Hx as (k & <- & Hk).
    apply positions_in in Hk. destruct Hk as [Hk Hn]. exists k. split; auto. split; [reflexivity|].
    unfold e_c at 1, e_v at 1. cbn [fst snd]. rewrite Hn.
    destruct e as [[a b] c]. exact He.
  - intros (k & Hk & Hr & Hin). exists (nth k sf 0, e_c x, e_v x). split; auto.
    apply in_map_iff. exists k. split.
    + destruct x as [[a b] c]. unfold e_r, e_c, e_v in *. cbn in *. subst. reflexivity.
    + apply positions_in. split; auto.
Qed.

Lemma list_sum_map_add {A} (g h : A -> nat) l :
  list_sum (map (fun x => (g x + h x)%nat) l) = (list_sum (map g l) + list_sum (map h l))%nat.
Proof. unfold list_sum. induction l as [|a l IH]; cbn [map fold_right]; [reflexivity|rewrite IH; lia]. Qed.

Lemma positions_length_aux r sf : forall s : nat,
  length (filter (fun p : Z * nat => fst p =? r) (combine sf (seq s (length sf))))
  = list_sum (map (fun f => if r =? f then 1%nat else 0%nat) sf).
Proof.
  induction sf as [|y sf IH]; intro s; cbn [length seq combine filter map]; auto.
  cbn [fst]. rewrite (Z.eqb_sym y r). destruct (r =? y); cbn [length list_sum fold_right];
    rewrite IH; reflexivity.
Qed.

Lemma positions_length r sf :
  length (positions r sf) = list_sum (map (fun f => if r =? f then 1%nat else 0%nat) sf).
Proof. unfold positions. rewrite map_length. apply positions_length_aux. Qed.

Lemma cnt_cons e cf f : cnt (e :: cf) f = ((if (e_r e =? f)%Z then 1 else 0) + cnt cf f)%nat.
Proof. unfold cnt. cbn [filter]. destruct (e_r e =? f); reflexivity. Qed.

Lemma slice_cons e cf sf : slice_rows (e :: cf) sf =
  map (fun k => (Z.of_nat k, e_c e, e_v e)) (positions (e_r e) sf) ++ slice_rows cf sf.
Proof. reflexivity. Qed.

Lemma slice_length cf sf : length (slice_rows cf sf) = list_sum (map (cnt cf) sf).
Proof.
  induction cf as [|e cf IH].
  - cbn. induction sf; cbn; auto.
  - rewrite slice_cons, app_length, map_length. unfold ent in *. rewrite IH. rewrite positions_length.
    rewrite <- list_sum_map_add. f_equal. apply map_ext. intro f. rewrite cnt_cons. reflexivity.
Qed.

Lemma list_sum_cons a l : list_sum (a :: l) = (a + list_sum l)%nat.
Proof. reflexivity. Qed.

Lemma list_sum_ones {A} (g : A -> nat) l : (forall x, In x l -> g x = 1%nat) ->
  list_sum (map g l) = length l.
Proof.
  induction l as [|a l IH]; cbn [map length]; intro H; auto. rewrite list_sum_cons.
  rewrite (H a) by (left; auto).
  rewrite IH; auto. intros; apply H; right; auto.
Qed.

Lemma list_sum_ge {A} (g : A -> nat) l : (forall x, In x l -> (1 <= g x)%nat) ->
  (length l <= list_sum (map g l))%nat.
Proof.
  induction l as [|a l IH]; cbn [map length]; intro H; auto. rewrite list_sum_cons.
  assert (1 <= g a)%nat by (apply H; left; auto).
  assert (length l <= list_sum (map g l))%nat by (apply IH; intros; apply H; right; auto). lia.
Qed.

Lemma list_sum_gt {A} (g : A -> nat) l y : (forall x, In x l -> (1 <= g x)%nat) ->
  In y l -> (2 <= g y)%nat -> (length l < list_sum (map g l))%nat.
Proof.
  induction l as [|a l IH]; cbn [map length]; intros H Hy H2; [destruct Hy|]. rewrite list_sum_cons.
  assert (1 <= g a)%nat by (apply H; left; auto).
  assert (forall x, In x l -> (1 <= g x)%nat) as Hl by (intros; apply H; right; auto).
  pose proof (list_sum_ge g l Hl). destruct Hy as [->|Hy]; [lia|].
  specialize (IH Hl Hy H2). lia.
Qed.

(* ------------------------------------------------------------------------------------ *)
(* signs_and_cells_of_boundary_faces *)
Lemma take_length x p : length (take x p) = length p.
Proof. unfold take. apply map_length. Qed.

Lemma take_nth x p k : (k < length p)%nat -> nth k (take x p) 0 = nth (nth k p 0%nat) x 0.
Proof. intro H. unfold take. apply (nth_map_lt (fun i => nth i x 0) p k 0 0%nat). exact H. Qed.

Lemma seqZ_NoDup n : NoDup (map Z.of_nat (seq 0 n)).
Proof.
  apply FinFun.Injective_map_NoDup; [|apply seq_NoDup]. intros a b H. apply Nat2Z.inj. exact H.
Qed.

Lemma nth_ofnat l i : nth i (map Z.of_nat l) 0 = Z.of_nat (nth i l 0%nat).
Proof. change 0 with (Z.of_nat 0) at 1. apply map_nth. Qed.

Section SC.
  Variable cf : list ent.
  Variable faces : list Z.

  Let n := length faces.
  Let IA := argsort faces.
  Let IC := argsort (map Z.of_nat IA).
  Let sf := take faces IA.
  Let en := slice_rows cf sf.

  Lemma sc_IA_len : length IA = n.
  Proof. apply argsort_length. Qed.

  Lemma sc_IC_len : length IC = n.
  Proof. unfold IC. rewrite argsort_length, map_length. apply sc_IA_len. Qed.

  Lemma sc_sf_len : length sf = n.
  Proof. unfold sf. rewrite take_length. apply sc_IA_len. Qed.

  Lemma sc_IA_lt k : (k < n)%nat -> (nth k IA 0%nat < n)%nat.
  Proof. intro H. apply (argsort_lt faces). apply nth_In. fold IA. rewrite sc_IA_len. exact H. Qed.

  Lemma sc_IC_lt j : (j < n)%nat -> (nth j IC 0%nat < n)%nat.
  Proof.
    intro H. assert (nth j IC 0%nat < length (map Z.of_nat IA))%nat as H0
        by (apply argsort_lt; apply nth_In; fold IC; rewrite sc_IC_len; exact H).
    rewrite map_length, sc_IA_len in H0. exact H0.
  Qed.

  (* IA[IC[j]] = j *)
  Lemma sc_inverse j : (j < n)%nat -> nth (nth j IC 0%nat) IA 0%nat = j.
  Proof.
    intro H. apply Nat2Z.inj. rewrite <- nth_ofnat. apply argsort_inv.
    - rewrite map_length, sc_IA_len. apply Permutation_map. apply argsort_perm.
    - rewrite map_length, sc_IA_len. exact H.
  Qed.

  Lemma sc_sf_nth k : (k < n)%nat -> nth k sf 0 = nth (nth k IA 0%nat) faces 0.
  Proof. intro H. unfold sf. apply take_nth. rewrite sc_IA_len. exact H. Qed.

  Lemma sc_sf_in x : In x sf -> In x faces.
  Proof.
    intro H. apply (In_nth _ _ 0) in H. destruct H as (k & Hk & <-). rewrite sc_sf_len in Hk.
    rewrite sc_sf_nth by exact Hk. apply nth_In. apply sc_IA_lt. exact Hk.
  Qed.

  Lemma sc_faces_in_sf j : (j < n)%nat -> nth (nth j IC 0%nat) sf 0 = nth j faces 0.
  Proof. intro H. rewrite sc_sf_nth by (apply sc_IC_lt; exact H). rewrite sc_inverse by exact H. reflexivity. Qed.

  Lemma sc_err :
    (forall f, In f faces -> (1 <= cnt cf f)%nat) ->
    (exists f, In f faces /\ (2 <= cnt cf f)%nat) ->
    signs_cells cf faces = Err ValueErr.
  Proof.
    intros Hall (f & Hf & H2). unfold signs_cells. fold IA. fold sf. fold en.
    assert (length en <> length faces) as Hne.
    { unfold en. rewrite slice_length. fold n. rewrite <- sc_sf_len.
      apply (In_nth _ _ 0) in Hf. destruct Hf as (j & Hj & Ej). fold n in Hj.
      assert (length sf < list_sum (map (cnt cf) sf))%nat; [|lia].
      apply (list_sum_gt (cnt cf) sf f).
      - intros x Hx. apply Hall. apply sc_sf_in. exact Hx.
      - rewrite <- Ej. rewrite <- (sc_faces_in_sf j Hj). apply nth_In. rewrite sc_sf_len.
        apply sc_IC_lt. exact Hj.
      - exact H2. }
    apply Nat.eqb_neq in Hne. rewrite Hne. reflexivity.
  Qed.

  Lemma sc_ok :
    (forall f, In f faces -> cnt cf f = 1%nat) ->
    exists sgn ci, signs_cells cf faces = Ok (sgn, ci) /\ length sgn = n /\ length ci = n /\
      forall j, (j < n)%nat -> In (nth j faces 0, nth j ci 0, nth j sgn 0) cf.
  Proof.
    intro H1. unfold signs_cells. fold IA. fold IC. fold sf. fold en.
    assert (length en = n) as Hlen.
    { unfold en. rewrite slice_length. rewrite list_sum_ones; [apply sc_sf_len|].
      intros x Hx. apply H1. apply sc_sf_in. exact Hx. }
    fold n. rewrite Hlen, Nat.eqb_refl. cbn [negb].
    set (fi := map e_r en). set (fs := argsort fi).
    assert (length fi = n) as Lfi by (unfold fi; rewrite map_length; exact Hlen).
    assert (length fs = n) as Lfs by (unfold fs; rewrite argsort_length; exact Lfi).
    assert (Permutation fi (map Z.of_nat (seq 0 (length fi)))) as Pfi.
    { apply Permutation_sym. apply NoDup_Permutation_bis.
      - apply seqZ_NoDup.
      - rewrite map_length, seq_length. lia.
      - intros z Hz. apply in_map_iff in Hz. destruct Hz as (k & <- & Hk). apply in_seq in Hk.
        rewrite Lfi in Hk. assert (k < n)%nat as Hkn by lia.
        assert (In (nth k sf 0) faces) as Hin by (apply sc_sf_in; apply nth_In; rewrite sc_sf_len; exact Hkn).
        specialize (H1 _ Hin). unfold cnt in H1.
        destruct (filter (fun e => e_r e =? nth k sf 0) cf) as [|e l] eqn:EF; [discriminate|].
        assert (In e (filter (fun e => e_r e =? nth k sf 0) cf)) as He by (rewrite EF; left; auto).
        apply filter_In in He. destruct He as [He Hr]. apply Z.eqb_eq in Hr.
        unfold fi. apply in_map_iff. exists (Z.of_nat k, e_c e, e_v e). split; [reflexivity|].
        unfold en. apply slice_in. exists k. rewrite sc_sf_len. split; [exact Hkn|]. split; [reflexivity|].
        unfold e_c at 1, e_v at 1. cbn [fst snd]. rewrite <- Hr. destruct e as [[a b] c]. exact He. }
    eexists. eexists. split; [reflexivity|].
    rewrite !take_length. split; [apply sc_IC_len|]. split; [apply sc_IC_len|].
    intros j Hj.
    set (k := nth j IC 0%nat). assert (k < n)%nat as Hk by (apply sc_IC_lt; exact Hj).
    set (i := nth k fs 0%nat).
    assert (i < n)%nat as Hi.
    { rewrite <- Lfi. apply (argsort_lt fi). apply nth_In. fold fs. rewrite Lfs. exact Hk. }
    assert (nth i fi 0 = Z.of_nat k) as Hik.
    { unfold i, fs. apply argsort_inv; [exact Pfi|]. rewrite Lfi. exact Hk. }
    set (x := nth i en (0, 0, 0)).
    assert (In x en) as Hx by (apply nth_In; rewrite Hlen; exact Hi).
    assert (e_r x = Z.of_nat k) as Hrx.
    { rewrite <- Hik. unfold fi, x. symmetry. apply nth_map_lt. rewrite Hlen. exact Hi. }
    unfold en in Hx. apply slice_in in Hx. destruct Hx as (k' & Hk' & Hr' & Hin).
    assert (k' = k) as -> by lia.
    unfold k in Hin. rewrite (sc_faces_in_sf j Hj) in Hin.
    rewrite (take_nth _ IC j) by (rewrite sc_IC_len; exact Hj).
    rewrite (take_nth _ IC j) by (rewrite sc_IC_len; exact Hj). fold k.
    rewrite (take_nth _ fs k) by (rewrite Lfs; exact Hk).
    rewrite (take_nth _ fs k) by (rewrite Lfs; exact Hk). fold i.
    rewrite (nth_map_lt e_v en i 0 (0, 0, 0)) by (rewrite Hlen; exact Hi).
    rewrite (nth_map_lt e_c en i 0 (0, 0, 0)) by (rewrite Hlen; exact Hi). fold x.
    exact Hin.
  Qed.
End SC.

Lemma cnt_one_unique cf f e e' : cnt cf f = 1%nat -> In e cf -> In e' cf ->
  e_r e = f -> e_r e' = f -> e = e'.
Proof.
  unfold cnt. intros H He He' Hr Hr'.
  assert (In e (filter (fun x => e_r x =? f) cf)) as H1 by (apply filter_In; split; auto; apply Z.eqb_eq; auto).
  assert (In e' (filter (fun x => e_r x =? f) cf)) as H2 by (apply filter_In; split; auto; apply Z.eqb_eq; auto).
  destruct (filter (fun x => e_r x =? f) cf) as [|a [|b l]]; try discriminate.
  destruct H1 as [<-|[]]. destruct H2 as [<-|[]]. reflexivity.
Qed.

(* full statement for well-formed incidences *)
Lemma signs_cells_spec nf nc cf faces : wf nf nc cf ->
  (forall f, In f faces -> 0 <= f < Z.of_nat nf) ->
  ((forall f, In f faces -> one_adjacent cf f) ->
     exists sgn ci, signs_cells cf faces = Ok (sgn, ci) /\
       length sgn = length faces /\ length ci = length faces /\
       forall j c v, (j < length faces)%nat -> In (nth j faces 0, c, v) cf ->
                     nth j ci 0 = c /\ nth j sgn 0 = v) /\
  ((exists f, In f faces /\ ~ one_adjacent cf f) -> signs_cells cf faces = Err ValueErr).
Proof.
  intros Hwf Hrange. split.
  - intro Hb.
    assert (forall f, In f faces -> cnt cf f = 1%nat) as H1.
    { intros f Hf. apply (cnt_one_iff nf nc); auto. }
    destruct (sc_ok cf faces H1) as (sgn & ci & E & L1 & L2 & Hin).
    exists sgn, ci. repeat split; auto; specialize (Hin j H);
      assert (In (nth j faces 0) faces) as Hf by (apply nth_In; exact H);
      pose proof (cnt_one_unique cf _ _ _ (H1 _ Hf) Hin H0 eq_refl eq_refl) as E2;
      injection E2; auto.
  - intros (f & Hf & Hno). apply sc_err.
    + intros g Hg. destruct (wf_cnt _ _ _ g Hwf (Hrange g Hg)); lia.
    + exists f. split; auto. destruct (wf_cnt _ _ _ f Hwf (Hrange f Hf)) as [E|E]; [|lia].
      exfalso. apply Hno. apply (cnt_one_iff nf nc); auto.
Qed.
