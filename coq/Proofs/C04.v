(* C04 — proofs.  Generic part over an arbitrary commutative ring (with its own equality
   [req]); then the instance Q used by the certificate checker. *)
From Coq Require Import List ZArith QArith Qabs Bool Arith Lia Ring Setoid Morphisms.
Import ListNotations.
From PP Require Import Model.C04.

Section GenericProofs.
  Variable R : Type.
  Variables (rO rI : R) (radd rmul rsub : R -> R -> R) (ropp : R -> R).
  Variable req : R -> R -> Prop.
  Hypothesis Rsth : Equivalence req.
  Hypothesis Reqe : ring_eq_ext radd rmul ropp req.
  Hypothesis Rth : ring_theory rO rI radd rmul rsub ropp req.
  Add Ring Rring : Rth (setoid Rsth Reqe).

  Infix "==" := req (at level 70, no associativity).
  Infix "+" := radd.  Infix "*" := rmul.  Infix "-" := rsub.
  Notation "- x" := (ropp x).

  Instance radd_proper : Proper (req ==> req ==> req) radd := Radd_ext Reqe.
  Instance rmul_proper : Proper (req ==> req ==> req) rmul := Rmul_ext Reqe.
  Instance ropp_proper : Proper (req ==> req) ropp := Ropp_ext Reqe.
  Instance rsub_proper : Proper (req ==> req ==> req) rsub.
  Proof.
    intros a b H c d H'. rewrite (Rsub_def Rth a c), (Rsub_def Rth b d).
    rewrite H, H'. reflexivity.
  Qed.

  Notation sumover := (@sumover R rO radd).
  Notation zR := (zR R rO rI ropp).
  Notation colsum := (colsum R rO rI radd ropp).
  Notation div_cell := (div_cell R rO rI radd rmul ropp).
  Notation proj := (proj R rO radd rmul).
  Notation pcolsum := (pcolsum R rO radd).
  Notation flux := (flux R rO rI radd rmul ropp).
  Notation source := (source R rO radd rmul).
  Notation residual := (residual R rO rI radd rmul rsub ropp).
  Notation total := (total R rO radd).

  (* ---------------------------------------------------------------- finite sums *)
  Lemma sumover_nil : forall A (g : A -> R), sumover [] g = rO.
  Proof. reflexivity. Qed.

  Lemma sumover_cons : forall A (x : A) l (g : A -> R), sumover (x :: l) g = g x + sumover l g.
  Proof. reflexivity. Qed.

  Lemma sumover_ext : forall A (l : list A) (g h : A -> R),
      (forall x, In x l -> g x == h x) -> sumover l g == sumover l h.
  Proof.
    induction l as [|x l IH]; intros g h H.
    - reflexivity.
    - rewrite !sumover_cons. rewrite (H x (or_introl eq_refl)).
      rewrite (IH g h). reflexivity. intros y Hy. apply H. right. exact Hy.
  Qed.

  Lemma sumover_zero : forall A (l : list A) (g : A -> R),
      (forall x, In x l -> g x == rO) -> sumover l g == rO.
  Proof.
    induction l as [|x l IH]; intros g H.
    - reflexivity.
    - rewrite sumover_cons. rewrite (H x (or_introl eq_refl)).
      rewrite IH. ring. intros y Hy. apply H. right. exact Hy.
  Qed.

  Lemma sumover_add : forall A (l : list A) (g h : A -> R),
      sumover l (fun x => g x + h x) == sumover l g + sumover l h.
  Proof.
    induction l as [|x l IH]; intros g h.
    - rewrite !sumover_nil. ring.
    - rewrite !sumover_cons. rewrite IH. ring.
  Qed.

  Lemma sumover_sub : forall A (l : list A) (g h : A -> R),
      sumover l (fun x => g x - h x) == sumover l g - sumover l h.
  Proof.
    induction l as [|x l IH]; intros g h.
    - rewrite !sumover_nil. ring.
    - rewrite !sumover_cons. rewrite IH. ring.
  Qed.

  Lemma sumover_scal_r : forall A (l : list A) (g : A -> R) (k : R),
      sumover l (fun x => g x * k) == sumover l g * k.
  Proof.
    induction l as [|x l IH]; intros g k.
    - rewrite !sumover_nil. ring.
    - rewrite !sumover_cons. rewrite IH. ring.
  Qed.

  Lemma sumover_filter : forall A (p : A -> bool) (l : list A) (g : A -> R),
      sumover (filter p l) g == sumover l (fun x => if p x then g x else rO).
  Proof.
    induction l as [|x l IH]; intros g.
    - reflexivity.
    - cbn [filter]. destruct (p x) eqn:E.
      + rewrite !sumover_cons. rewrite E. rewrite IH. reflexivity.
      + rewrite sumover_cons. rewrite E. rewrite IH. ring.
  Qed.

  Lemma sumover_swap : forall A B (la : list A) (lb : list B) (h : A -> B -> R),
      sumover la (fun a => sumover lb (fun b => h a b))
      == sumover lb (fun b => sumover la (fun a => h a b)).
  Proof.
    induction la as [|a la IH]; intros lb h.
    - rewrite sumover_nil. symmetry. apply sumover_zero. intros; reflexivity.
    - rewrite sumover_cons. rewrite IH.
      rewrite <- sumover_add. apply sumover_ext. intros b _. rewrite sumover_cons. reflexivity.
  Qed.

  (* sum over k in [s, s+n) of [k0 = k] v *)
  Lemma sum_indicator : forall (n s k0 : nat) (v : R),
      (s <= k0 < s + n)%nat ->
      sumover (seq s n) (fun k => if Nat.eqb k0 k then v else rO) == v.
  Proof.
    induction n as [|n IH]; intros s k0 v H.
    - lia.
    - cbn [seq]. rewrite sumover_cons. destruct (Nat.eqb k0 s) eqn:E.
      + apply Nat.eqb_eq in E. subst k0.
        rewrite sumover_zero. ring.
        intros x Hx. apply in_seq in Hx.
        destruct (Nat.eqb s x) eqn:E2; [apply Nat.eqb_eq in E2; lia | reflexivity].
      + apply Nat.eqb_neq in E. rewrite IH by lia. ring.
  Qed.

  (* regrouping a sum over COO triples by a key *)
  Lemma sum_by_key : forall A (key : A -> nat) (g : A -> R) (n : nat) (T : list A),
      (forall t, In t T -> (key t < n)%nat) ->
      sumover (seq 0 n) (fun k => sumover (filter (fun t => Nat.eqb (key t) k) T) g)
      == sumover T g.
  Proof.
    intros A key g n T H.
    transitivity (sumover (seq 0 n)
                    (fun k => sumover T (fun t => if Nat.eqb (key t) k then g t else rO))).
    { apply sumover_ext. intros k _. apply sumover_filter. }
    rewrite sumover_swap. apply sumover_ext. intros t Ht.
    apply sum_indicator. specialize (H t Ht). lia.
  Qed.

  (* --------------------------------------------------------------- the grid structure *)
  Variables (nc nf nm : nat) (D : list inc) (Pp Ps : list (wtr R)).

  Definition sign_pm (s : Z) : Prop := s = 1%Z \/ s = (-1)%Z.

  (* every face: one entry +-1, or one +1 and one -1 entry *)
  Definition face_wf (f : nat) : Prop :=
    (exists t, col_entries D f = [t] /\ sign_pm (i_sgn t)) \/
    (exists t1 t2, col_entries D f = [t1; t2] /\ sign_pm (i_sgn t1)
                   /\ (i_sgn t1 + i_sgn t2 = 0)%Z).

  Definition incidence_wf : Prop :=
    (forall t, In t D -> (i_cell t < nc)%nat /\ (i_face t < nf)%nat) /\
    (forall f, (f < nf)%nat -> face_wf f).

  Lemma zR_one : zR 1%Z = rI. Proof. reflexivity. Qed.
  Lemma zR_mone : zR (-1)%Z = - rI. Proof. reflexivity. Qed.

  Lemma colsum_interior : forall f t1 t2,
      col_entries D f = [t1; t2] -> sign_pm (i_sgn t1) -> (i_sgn t1 + i_sgn t2 = 0)%Z ->
      colsum D f == rO.
  Proof.
    intros f t1 t2 E Hs Hz. unfold colsum. rewrite E.
    rewrite !sumover_cons, sumover_nil.
    destruct Hs as [Hs|Hs]; rewrite Hs in *.
    - replace (i_sgn t2) with (-1)%Z by lia. rewrite zR_one, zR_mone. ring.
    - replace (i_sgn t2) with 1%Z by lia. rewrite zR_one, zR_mone. ring.
  Qed.

  Lemma colsum_boundary_sq : forall f t,
      col_entries D f = [t] -> sign_pm (i_sgn t) -> colsum D f * colsum D f == rI.
  Proof.
    intros f t E Hs. unfold colsum. rewrite E. rewrite sumover_cons, sumover_nil.
    destruct Hs as [Hs|Hs]; rewrite Hs; rewrite ?zR_one, ?zR_mone; ring.
  Qed.

  Lemma is_boundary_interior : forall f t1 t2,
      col_entries D f = [t1; t2] -> is_boundary D f = false.
  Proof. intros f t1 t2 E. unfold is_boundary. rewrite E. reflexivity. Qed.

  Lemma is_boundary_single : forall f t, col_entries D f = [t] -> is_boundary D f = true.
  Proof. intros f t E. unfold is_boundary. rewrite E. reflexivity. Qed.

  (* (1) the divergence telescopes: only boundary faces survive the sum over all cells *)
  Lemma div_sum_faces : forall (q : nat -> R),
      incidence_wf ->
      total nc (div_cell D q) == total nf (fun f => colsum D f * q f).
  Proof.
    intros q [Hr Hf]. unfold total, div_cell, row_entries.
    rewrite (sum_by_key inc (fun t => i_cell t) (fun t => zR (i_sgn t) * q (i_face t)) nc D).
    2:{ intros t Ht. apply Hr. exact Ht. }
    rewrite <- (sum_by_key inc (fun t => i_face t) (fun t => zR (i_sgn t) * q (i_face t)) nf D).
    2:{ intros t Ht. apply Hr. exact Ht. }
    apply sumover_ext. intros f _. unfold colsum, col_entries.
    rewrite <- sumover_scal_r. apply sumover_ext. intros t Ht.
    apply filter_In in Ht. destruct Ht as [_ Ht]. apply Nat.eqb_eq in Ht.
    cbn in Ht. cbn. rewrite Ht. reflexivity.
  Qed.

  Lemma div_telescopes : forall (q : nat -> R),
      incidence_wf ->
      total nc (div_cell D q)
      == total nf (fun f => if is_boundary D f then colsum D f * q f else rO).
  Proof.
    intros q H. rewrite div_sum_faces by exact H. destruct H as [_ Hf].
    apply sumover_ext. intros f Hin. apply in_seq in Hin.
    destruct (Hf f) as [[t [E Hs]]|[t1 [t2 [E [Hs Hz]]]]]; [lia| |].
    - rewrite (is_boundary_single f t E). reflexivity.
    - rewrite (is_boundary_interior f t1 t2 E).
      rewrite (colsum_interior f t1 t2 E Hs Hz). ring.
  Qed.

  (* ------------------------------------------------------------- interface coupling *)
  Definition coupling_wf : Prop :=
    (forall t, In t Pp -> (w_row t < nf)%nat /\ is_boundary D (w_row t) = true
                          /\ (w_mortar t < nm)%nat) /\
    (forall t, In t Ps -> (w_row t < nc)%nat /\ (w_mortar t < nm)%nat) /\
    (forall m, (m < nm)%nat -> pcolsum Pp m == pcolsum Ps m).

  Lemma proj_total : forall (P : list (wtr R)) (n : nat) (lam : nat -> R),
      (forall t, In t P -> (w_row t < n)%nat /\ (w_mortar t < nm)%nat) ->
      total n (proj P lam) == total nm (fun m => pcolsum P m * lam m).
  Proof.
    intros P n lam H. unfold total, proj.
    rewrite (sum_by_key (wtr R) (fun t => w_row t) (fun t => w_val t * lam (w_mortar t)) n P).
    2:{ intros t Ht. apply H. exact Ht. }
    rewrite <- (sum_by_key (wtr R) (fun t => w_mortar t)
                           (fun t => w_val t * lam (w_mortar t)) nm P).
    2:{ intros t Ht. apply H. exact Ht. }
    apply sumover_ext. intros m _. unfold pcolsum.
    rewrite <- sumover_scal_r. apply sumover_ext. intros t Ht.
    apply filter_In in Ht. destruct Ht as [_ Ht]. apply Nat.eqb_eq in Ht.
    cbn in Ht. cbn. rewrite Ht. reflexivity.
  Qed.

  Lemma proj_offsupport : forall (lam : nat -> R) (f : nat),
      (forall t, In t Pp -> is_boundary D (w_row t) = true) ->
      is_boundary D f = false -> proj Pp lam f == rO.
  Proof.
    intros lam f H Hb. unfold proj. apply sumover_zero. intros t Ht.
    apply filter_In in Ht. destruct Ht as [Hin Ht]. apply Nat.eqb_eq in Ht.
    cbn in Ht. specialize (H t Hin). cbn in H. rewrite Ht in H. congruence.
  Qed.

  (* the sum over all cells of Div(flux), with a closed intrinsic flux *)
  Lemma div_flux_total : forall (a lam : nat -> R),
      incidence_wf -> coupling_wf ->
      (forall f, (f < nf)%nat -> is_boundary D f = true -> a f == rO) ->
      total nc (div_cell D (flux D Pp a lam)) == total nf (proj Pp lam).
  Proof.
    intros a lam Hi Hc Ha. rewrite div_telescopes by exact Hi.
    destruct Hi as [_ Hf]. destruct Hc as [Hp _].
    apply sumover_ext. intros f Hin. apply in_seq in Hin.
    destruct (Hf f) as [[t [E Hs]]|[t1 [t2 [E [Hs Hz]]]]]; [lia| |].
    - rewrite (is_boundary_single f t E). unfold flux.
      rewrite (Ha f) by (try lia; apply (is_boundary_single f t E)).
      transitivity ((colsum D f * colsum D f) * proj Pp lam f); [ring|].
      rewrite (colsum_boundary_sq f t E Hs). ring.
    - rewrite (is_boundary_interior f t1 t2 E). symmetry.
      apply proj_offsupport; [|apply (is_boundary_interior f t1 t2 E)].
      intros t Ht. apply Hp. exact Ht.
  Qed.

  (* (2) the interface fluxes cancel: what leaves the higher-dimensional cells through
     the fracture faces is what the lower-dimensional cells receive as source *)
  Lemma interface_cancels : forall (lam : nat -> R),
      incidence_wf -> coupling_wf ->
      total nc (div_cell D (flux D Pp (fun _ => rO) lam)) - total nc (proj Ps lam) == rO.
  Proof.
    intros lam Hi Hc.
    rewrite (div_flux_total (fun _ => rO) lam Hi Hc) by (intros; reflexivity).
    destruct Hc as [Hp [Hs Hcol]].
    rewrite (proj_total Pp nf lam).
    2:{ intros t Ht. destruct (Hp t Ht) as [A [_ B]]. split; assumption. }
    rewrite (proj_total Ps nc lam) by exact Hs.
    transitivity (total nm (fun m => pcolsum Ps m * lam m)
                  - total nm (fun m => pcolsum Ps m * lam m)); [|ring].
    assert (E : total nm (fun m => pcolsum Pp m * lam m)
                == total nm (fun m => pcolsum Ps m * lam m)).
    { apply sumover_ext. intros m Hm. apply in_seq in Hm. rewrite (Hcol m) by lia. reflexivity. }
    rewrite E. reflexivity.
  Qed.

  (* (3) conservation *)
  Lemma conservation : forall (acc a lam ext : nat -> R),
      incidence_wf -> coupling_wf ->
      (forall f, (f < nf)%nat -> is_boundary D f = true -> a f == rO) ->   (* closed *)
      (forall c, (c < nc)%nat -> ext c == rO) ->                           (* no source *)
      total nc (residual D Pp Ps acc a lam ext) == total nc acc.
  Proof.
    intros acc a lam ext Hi Hc Ha He.
    unfold residual, source, total.
    rewrite sumover_sub, !sumover_add.
    fold (total nc (div_cell D (flux D Pp a lam))). fold (total nc (proj Ps lam)).
    rewrite (div_flux_total a lam Hi Hc Ha).
    destruct Hc as [Hp [Hs Hcol]].
    rewrite (proj_total Pp nf lam).
    2:{ intros t Ht. destruct (Hp t Ht) as [A [_ B]]. split; assumption. }
    rewrite (proj_total Ps nc lam) by exact Hs.
    assert (E : total nm (fun m => pcolsum Pp m * lam m)
                == total nm (fun m => pcolsum Ps m * lam m)).
    { apply sumover_ext. intros m Hm. apply in_seq in Hm. rewrite (Hcol m) by lia. reflexivity. }
    rewrite E.
    rewrite (sumover_zero nat (seq 0 nc) ext).
    2:{ intros c Hc. apply in_seq in Hc. apply He. lia. }
    ring.
  Qed.
  (* ------------------------------------------------------------- two-sided coupling *)
  Notation residual2 := (Model.C04.residual2 R rO rI radd rmul rsub ropp).

  Definition coupling_support : Prop :=
    (forall t, In t Pp -> (w_row t < nf)%nat /\ is_boundary D (w_row t) = true
                          /\ (w_mortar t < nm)%nat) /\
    (forall t, In t Ps -> (w_row t < nc)%nat /\ (w_mortar t < nm)%nat).

  Lemma div_flux_total_support : forall (a lam : nat -> R),
      incidence_wf -> coupling_support ->
      (forall f, (f < nf)%nat -> is_boundary D f = true -> a f == rO) ->
      total nc (div_cell D (flux D Pp a lam)) == total nf (proj Pp lam).
  Proof.
    intros a lam Hi Hc Ha. rewrite div_telescopes by exact Hi.
    destruct Hi as [_ Hf]. destruct Hc as [Hp _].
    apply sumover_ext. intros f Hin. apply in_seq in Hin.
    destruct (Hf f) as [[t [E Hs]]|[t1 [t2 [E [Hs Hz]]]]]; [lia| |].
    - rewrite (is_boundary_single f t E). unfold Model.C04.flux.
      rewrite (Ha f) by (try lia; apply (is_boundary_single f t E)).
      transitivity ((colsum D f * colsum D f) * proj Pp lam f); [ring|].
      rewrite (colsum_boundary_sq f t E Hs). ring.
    - rewrite (is_boundary_interior f t1 t2 E). symmetry.
      apply proj_offsupport; [|apply (is_boundary_interior f t1 t2 E)].
      intros t Ht. apply Hp. exact Ht.
  Qed.

  (* The sum of the residuals when the interface flux entering the face fluxes (lamf) and
     the one entering the lower-dimensional source (lams) differ: the accumulation rate plus
     everything the faces receive minus everything the sources hand out. *)
  Lemma deficit : forall (acc a lamf lams ext : nat -> R),
      incidence_wf -> coupling_support ->
      (forall f, (f < nf)%nat -> is_boundary D f = true -> a f == rO) ->
      (forall c, (c < nc)%nat -> ext c == rO) ->
      total nc (residual2 D Pp Ps acc a lamf lams ext)
      == total nc acc + total nm (fun m => pcolsum Pp m * lamf m)
         - total nm (fun m => pcolsum Ps m * lams m).
  Proof.
    intros acc a lamf lams ext Hi Hc Ha He.
    unfold Model.C04.residual2, Model.C04.source, Model.C04.total.
    rewrite sumover_sub, !sumover_add.
    fold (total nc (div_cell D (flux D Pp a lamf))). fold (total nc (proj Ps lams)).
    rewrite (div_flux_total_support a lamf Hi Hc Ha).
    destruct Hc as [Hp Hs].
    rewrite (proj_total Pp nf lamf).
    2:{ intros t Ht. destruct (Hp t Ht) as [A [_ B]]. split; assumption. }
    rewrite (proj_total Ps nc lams) by exact Hs.
    rewrite (sumover_zero nat (seq 0 nc) ext).
    2:{ intros c Hc. apply in_seq in Hc. apply He. lia. }
    unfold Model.C04.total. ring.
  Qed.
End GenericProofs.

(* ------------------------------------------------------------------------------------ *)
(* The Q instance and the soundness of the certificate checker. *)
Open Scope Q_scope.

Lemma Q_eqe : ring_eq_ext Qplus Qmult Qopp Qeq.
Proof.
  constructor.
  - intros a b H c d H'. rewrite H, H'. reflexivity.
  - intros a b H c d H'. rewrite H, H'. reflexivity.
  - intros a b H. rewrite H. reflexivity.
Qed.

Lemma face_ok_wf : forall D f, face_ok D f = true -> face_wf D f.
Proof.
  intros D f H. unfold face_ok in H. unfold face_wf, sign_pm.
  destruct (col_entries D f) as [|t1 [|t2 [|t3 r]]] eqn:E; try discriminate.
  - left. exists t1. split; [reflexivity|].
    apply orb_true_iff in H. destruct H as [H|H]; apply Z.eqb_eq in H; auto.
  - right. exists t1, t2. split; [reflexivity|].
    apply orb_true_iff in H. destruct H as [H|H]; apply andb_true_iff in H;
      destruct H as [H1 H2]; apply Z.eqb_eq in H1; apply Z.eqb_eq in H2;
      rewrite H1, H2; split; auto.
Qed.

Lemma cert_sound : forall S, cert_ok S = true ->
    incidence_wf (s_nc S) (s_nf S) (s_div S) /\
    coupling_wf Q 0 Qplus Qeq (s_nc S) (s_nf S) (s_nm S) (s_div S) (s_pp S) (s_ps S).
Proof.
  intros S H. unfold cert_ok in H.
  repeat (apply andb_true_iff in H; destruct H as [H ?]).
  rename H into H1, H3 into H2, H2 into H3, H1 into H4, H0 into H5.
  rewrite forallb_forall in H1, H2, H3, H4, H5.
  split; [split|split; [|split]].
  - intros t Ht. specialize (H1 t Ht). apply andb_true_iff in H1. destruct H1 as [A B].
    apply Nat.ltb_lt in A. apply Nat.ltb_lt in B. split; assumption.
  - intros f Hf. apply face_ok_wf. apply H2. apply in_seq. lia.
  - intros t Ht. specialize (H3 t Ht).
    apply andb_true_iff in H3. destruct H3 as [H3 C].
    apply andb_true_iff in H3. destruct H3 as [A B].
    apply Nat.ltb_lt in A. apply Nat.ltb_lt in C. repeat split; assumption.
  - intros t Ht. specialize (H4 t Ht). apply andb_true_iff in H4. destruct H4 as [A B].
    apply Nat.ltb_lt in A. apply Nat.ltb_lt in B. split; assumption.
  - intros m Hm. assert (Hin : In m (seq 0 (s_nm S))) by (apply in_seq; lia).
    specialize (H5 m Hin). apply andb_true_iff in H5. destruct H5 as [A B].
    apply Qeq_bool_iff in A. apply Qeq_bool_iff in B.
    unfold qpcolsum in A, B. rewrite A, B. reflexivity.
Qed.

Lemma certified_conservation : forall S (acc a lam : nat -> Q),
    cert_ok S = true ->
    (forall f, (f < s_nf S)%nat -> is_boundary (s_div S) f = true -> a f == 0) ->
    qtotal (s_nc S) (qresidual (s_div S) (s_pp S) (s_ps S) acc a lam (fun _ => 0))
    == qtotal (s_nc S) acc.
Proof.
  intros S acc a lam H Ha. destruct (cert_sound S H) as [Hi Hc].
  unfold qtotal, qresidual.
  apply (conservation Q 0 1 Qplus Qmult Qminus Qopp Qeq Q_Setoid Q_eqe Qsrt
                      (s_nc S) (s_nf S) (s_nm S) (s_div S) (s_pp S) (s_ps S)
                      acc a lam (fun _ => 0) Hi Hc Ha).
  intros; reflexivity.
Qed.

Lemma cert_support : forall S, cert_ok S = true ->
    coupling_support Q (s_nc S) (s_nf S) (s_nm S) (s_div S) (s_pp S) (s_ps S).
Proof.
  intros S H. destruct (cert_sound S H) as [_ [A [B _]]]. split; assumption.
Qed.

Lemma sum_const_mult : forall (P : list (wtr Q)) (n : nat) (lam : nat -> Q),
    (forall m, (m < n)%nat -> qpcolsum P m == 1) ->
    qtotal n (fun m => qpcolsum P m * lam m) == qtotal n lam.
Proof.
  intros P n lam H. unfold qtotal, total.
  apply (sumover_ext Q 0 Qplus Qmult Qopp Qeq Q_Setoid Q_eqe).
  intros m Hm. apply in_seq in Hm. rewrite (H m) by lia. ring.
Qed.

(* over Q, with a passed certificate (unit column sums): the deficit is the total interface
   flux that the sources hand out but the faces never receive *)
Lemma certified_deficit : forall S (acc a lamf lams : nat -> Q),
    cert_ok S = true ->
    (forall f, (f < s_nf S)%nat -> is_boundary (s_div S) f = true -> a f == 0) ->
    qtotal (s_nc S) (qresidual2 (s_div S) (s_pp S) (s_ps S) acc a lamf lams (fun _ => 0))
    == qtotal (s_nc S) acc + qtotal (s_nm S) lamf - qtotal (s_nm S) lams.
Proof.
  intros S acc a lamf lams H Ha. destruct (cert_sound S H) as [Hi _].
  pose proof (cert_support S H) as Hc.
  unfold qtotal, qresidual2.
  rewrite (deficit Q 0 1 Qplus Qmult Qminus Qopp Qeq Q_Setoid Q_eqe Qsrt
                   (s_nc S) (s_nf S) (s_nm S) (s_div S) (s_pp S) (s_ps S)
                   acc a lamf lams (fun _ => 0) Hi Hc Ha) by (intros; reflexivity).
  assert (U : forall m, (m < s_nm S)%nat ->
                        qpcolsum (s_pp S) m == 1 /\ qpcolsum (s_ps S) m == 1).
  { intros m Hm. unfold cert_ok in H.
    apply andb_true_iff in H. destruct H as [_ H]. rewrite forallb_forall in H.
    assert (Hin : In m (seq 0 (s_nm S))) by (apply in_seq; lia).
    specialize (H m Hin). apply andb_true_iff in H. destruct H as [A B].
    apply Qeq_bool_iff in A. apply Qeq_bool_iff in B. split; assumption. }
  fold (qtotal (s_nm S) (fun m => qpcolsum (s_pp S) m * lamf m)).
  fold (qtotal (s_nm S) (fun m => qpcolsum (s_ps S) m * lams m)).
  fold (qtotal (s_nc S) acc).
  rewrite (sum_const_mult (s_pp S) (s_nm S) lamf) by (intros m Hm; apply (U m Hm)).
  rewrite (sum_const_mult (s_ps S) (s_nm S) lams) by (intros m Hm; apply (U m Hm)).
  reflexivity.
Qed.

Lemma certified_partial : forall S (acc a lamf lams : nat -> Q),
    cert_ok S = true ->
    (forall f, (f < s_nf S)%nat -> is_boundary (s_div S) f = true -> a f == 0) ->
    qtotal (s_nm S) lamf == qtotal (s_nm S) lams ->
    qtotal (s_nc S) (qresidual2 (s_div S) (s_pp S) (s_ps S) acc a lamf lams (fun _ => 0))
    == qtotal (s_nc S) acc.
Proof.
  intros S acc a lamf lams H Ha E. rewrite (certified_deficit S acc a lamf lams H Ha), E. ring.
Qed.

Definition witness_S : structure :=
  {| s_nc := 4%nat; s_nf := 5%nat; s_nm := 2%nat;
     s_div := [(0%nat, 0%nat, (-1)%Z); (0%nat, 1%nat, 1%Z); (1%nat, 1%nat, (-1)%Z);
               (1%nat, 2%nat, 1%Z); (2%nat, 3%nat, (-1)%Z); (2%nat, 4%nat, 1%Z)];
     s_pp := [(2%nat, 0%nat, 1); (3%nat, 1%nat, 1)];
     s_ps := [(3%nat, 0%nat, 1); (3%nat, 1%nat, 1)] |}.

(* the faithful model of a diffusive law that leaves its interface flux out of the face
   fluxes does NOT conserve: three 1-D cells and a 0-d fracture cell, interface fluxes
   (7, -2) handed to the fracture cell but never taken from the neighbouring cells *)
Lemma adflux_refuted :
  exists (S : structure) (acc a lamf lams : nat -> Q),
    cert_ok S = true /\
    (forall f, (f < s_nf S)%nat -> is_boundary (s_div S) f = true -> a f == 0) /\
    ~ qtotal (s_nc S) (qresidual2 (s_div S) (s_pp S) (s_ps S) acc a lamf lams (fun _ => 0))
      == qtotal (s_nc S) acc.
Proof.
  exists witness_S, (vec [1; 2; 3; 4]), (vec [0; 5; 0; 0; 0]), (fun _ => 0), (vec [7; -2]).
  split; [vm_compute; reflexivity|]. split.
  - intros f Hf Hb. cbn in Hf.
    destruct f as [|[|[|[|[|f]]]]]; try (vm_compute; reflexivity);
      try (vm_compute in Hb; discriminate); lia.
  - intro H. vm_compute in H. discriminate.
Qed.

(* ------------------------------------------------------------------------------------ *)
(* non-matching grids: supports exact, column sums within 1e-12 *)
Lemma cert_support_sound : forall S, cert_supp S = true ->
    incidence_wf (s_nc S) (s_nf S) (s_div S) /\
    coupling_support Q (s_nc S) (s_nf S) (s_nm S) (s_div S) (s_pp S) (s_ps S).
Proof.
  intros S H. unfold cert_supp in H.
  repeat (apply andb_true_iff in H; destruct H as [H ?]).
  rename H into H1, H2 into H2', H1 into H3, H0 into H4. rename H2' into H2.
  rewrite forallb_forall in H1, H2, H3, H4.
  split; [split|split].
  - intros t Ht. specialize (H1 t Ht). apply andb_true_iff in H1. destruct H1 as [A B].
    apply Nat.ltb_lt in A. apply Nat.ltb_lt in B. split; assumption.
  - intros f Hf. apply face_ok_wf. apply H2. apply in_seq. lia.
  - intros t Ht. specialize (H3 t Ht).
    apply andb_true_iff in H3. destruct H3 as [H3 C].
    apply andb_true_iff in H3. destruct H3 as [A B].
    apply Nat.ltb_lt in A. apply Nat.ltb_lt in C. repeat split; assumption.
  - intros t Ht. specialize (H4 t Ht). apply andb_true_iff in H4. destruct H4 as [A B].
    apply Nat.ltb_lt in A. apply Nat.ltb_lt in B. split; assumption.
Qed.

Lemma certified_tol : forall S (acc a lamf lams : nat -> Q),
    cert_ok_tol S = true ->
    (forall f, (f < s_nf S)%nat -> is_boundary (s_div S) f = true -> a f == 0) ->
    qtotal (s_nc S) (qresidual2 (s_div S) (s_pp S) (s_ps S) acc a lamf lams (fun _ => 0))
    == qtotal (s_nc S) acc + qtotal (s_nm S) (fun m => qpcolsum (s_pp S) m * lamf m)
       - qtotal (s_nm S) (fun m => qpcolsum (s_ps S) m * lams m)
    /\ forall m, (m < s_nm S)%nat ->
                 Qabs (qpcolsum (s_pp S) m - 1) <= 1 # 1000000000000 /\
                 Qabs (qpcolsum (s_ps S) m - 1) <= 1 # 1000000000000.
Proof.
  intros S acc a lamf lams H Ha. unfold cert_ok_tol in H.
  apply andb_true_iff in H. destruct H as [Hs Hc].
  destruct (cert_support_sound S Hs) as [Hi Hsup]. split.
  - unfold qtotal, qresidual2.
    apply (deficit Q 0 1 Qplus Qmult Qminus Qopp Qeq Q_Setoid Q_eqe Qsrt
                   (s_nc S) (s_nf S) (s_nm S) (s_div S) (s_pp S) (s_ps S)
                   acc a lamf lams (fun _ => 0) Hi Hsup Ha). intros; reflexivity.
  - intros m Hm. rewrite forallb_forall in Hc.
    assert (Hin : In m (seq 0 (s_nm S))) by (apply in_seq; lia).
    specialize (Hc m Hin). apply andb_true_iff in Hc. destruct Hc as [A B].
    unfold near_one in A, B. apply Qle_bool_iff in A. apply Qle_bool_iff in B. split; assumption.
Qed.
